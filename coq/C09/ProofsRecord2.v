(* C09/ProofsRecord2.v — round 5, second pass: more record kinds as declarative grammars over BYTES, both directions:
   STACK CFI INIT records, STACK CFI delta sub-lines and line records of a FUNC.
       cfi_init ::= "STACK CFI INIT" sp+ hex{1,16} sp+ hex{1,8} sp+ rules cr*
       cfi_add  ::= "STACK CFI" sp+ hex{1,16} sp+ rules cr*
       line_rec ::= hex{1,16} sp+ hex{1,8} sp+ digit{1,10} sp+ digit{1,10} cr*          (decimal values <= u32::MAX)
   rules: no '\r', not starting with sp, well-formed UTF-8. *)
From Coq Require Import Lia ZArith List Bool.
From RM Require Import Base.Word C08.Model C11.Model C09.Grammar C09.PinsNum C09.ProofsText C09.ProofsRecord.
Import ListNotations.
Open Scope Z_scope.

Definition spaces (sp : list Z) : Prop := sp <> [] /\ Forall sp_byte sp.
Definition hex_digits (ds : list Z) : Prop := Forall (fun b => hexval b <> None) ds.
Definition hex_value (ds : list Z) : Z := dvalue hexval 16 0 ds.
Definition hex_field (n : nat) (ds : list Z) (v : Z) : Prop :=
  ds <> [] /\ (length ds <= n)%nat /\ hex_digits ds /\ v = hex_value ds.
Definition dec_field (ds : list Z) (v : Z) : Prop :=
  ds <> [] /\ (length ds <= 10)%nat /\ dec_digits ds /\ v = dec_value ds /\ v <= U32MAX.
Definition text_tail (text crs : list Z) : Prop :=
  starts (fun b => ~ sp_byte b) (text ++ crs) /\ Forall (fun b => b <> 13) text /\ wf8 text /\ Forall (fun b => b = 13) crs.

Lemma sp_not_hex b : sp_byte b -> hexval b = None.
Proof. intros [->| ->]; reflexivity. Qed.

(* ------------------------------------------------------------------ terminated(hex_str, space1) *)
Lemma hexsp_sound n s v s' : osp (hex_str n s) = Some (v, s') ->
  exists ds sp, expand s = ds ++ sp ++ expand s' /\ hex_field n ds v /\ spaces sp /\ starts (fun b => ~ sp_byte b) (expand s').
Proof.
  unfold osp, hex_str.
  destruct (digits hexval 16 n s 0 0) as [[v0 k] s0] eqn:E.
  destruct (Z.eqb_spec k 0); [discriminate|].
  destruct (space1 s0) as [s2|] eqn:E2; [|discriminate]. intros HH. inversion HH; subst. clear HH.
  destruct (digits_grammar hexval 16 n s 0 0 v k s0 E) as (ds & A & B & C & D & V & F).
  destruct (space1_sound s0 s' E2) as (sp & A2 & B2 & C2 & D2).
  exists ds, sp. rewrite A, A2. unfold hex_field, spaces. repeat split; try assumption.
  intros ->. cbn [length] in B. lia.
Qed.

Lemma hexsp_complete n s ds sp r v : expand s = ds ++ sp ++ r -> hex_field n ds v -> spaces sp ->
  starts (fun b => ~ sp_byte b) r -> exists s', osp (hex_str n s) = Some (v, s') /\ expand s' = r.
Proof.
  intros E (N & L & D & V) (Ns & Fs) Sr. unfold osp, hex_str.
  destruct (digits hexval 16 n s 0 0) as [[v0 k] s0] eqn:Ed.
  destruct (digits_grammar hexval 16 n s 0 0 v0 k s0 Ed) as (ds' & A & B & C & D' & V' & F).
  assert (Hstop : starts (fun b => ~ (hexval b <> None)) (sp ++ r)).
  { destruct sp as [|x t]; [contradiction|]. cbn. inversion Fs; subst. intros Q. apply Q. apply sp_not_hex. assumption. }
  assert (X : ds' = ds /\ expand s0 = sp ++ r).
  { rewrite A in E. destruct F as [F|F].
    - apply (prefix_unique (fun b => hexval b <> None)); try assumption. lia.
    - apply (split_unique (fun b => hexval b <> None)); try assumption.
      unfold stops in F. destruct (expand s0); [exact I|]. cbn. intros Q. apply Q. exact F. }
  destruct X as [-> X].
  assert (K : k <> 0). { destruct ds; [contradiction|]. cbn [length] in B. lia. }
  destruct (Z.eqb_spec k 0); [contradiction|]. fold (hex_value ds) in V'. subst v0 v.
  destruct (space1_complete s0 sp r X Ns Fs Sr) as (s' & S1 & S2). rewrite S1. exists s'. split; [reflexivity|exact S2].
Qed.

(* decsp in the same form *)
Lemma decsp_sound' s v s' : decsp s = Some (v, s') ->
  exists ds sp, expand s = ds ++ sp ++ expand s' /\ dec_field ds v /\ spaces sp /\ starts (fun b => ~ sp_byte b) (expand s').
Proof.
  intros H. destruct (decsp_sound s v s' H) as (ds & sp & A & B & C & D & E & F & G & I & J).
  exists ds, sp. unfold dec_field, spaces. repeat split; assumption.
Qed.
Lemma decsp_complete' s ds sp r v : expand s = ds ++ sp ++ r -> dec_field ds v -> spaces sp ->
  starts (fun b => ~ sp_byte b) r -> exists s', decsp s = Some (v, s') /\ expand s' = r.
Proof.
  intros E (A & B & C & -> & D) (F & G) S. exact (decsp_complete s ds sp r E A B C D F G S).
Qed.

(* decimal_u32 not followed by space1: the digits end at a non-digit (or at the end of the line) *)
Lemma decimal_sound s v s' : Grammar.decimal_u32 s = Some (v, s') ->
  exists ds, expand s = ds ++ expand s' /\ dec_field ds v /\ (length ds = 10%nat \/ starts (fun b => decval b = None) (expand s')).
Proof.
  unfold Grammar.decimal_u32.
  destruct (digits decval 10 10%nat s 0 0) as [[v0 k] s0] eqn:E.
  destruct (Z.eqb_spec k 0); [discriminate|]. destruct (Z.ltb_spec U32MAX v0); [discriminate|].
  intros HH. inversion HH; subst. clear HH.
  destruct (digits_grammar decval 10 10%nat s 0 0 v k s' E) as (ds & A & B & C & D & V & F).
  exists ds. unfold dec_field. split; [exact A|]. split.
  { split; [intros ->; cbn [length] in B; lia|]. split; [exact C|]. split; [exact D|]. split; [exact V|lia]. }
  destruct F as [F|F]; [left; exact F|right]. unfold stops in F. destruct (expand s'); [exact I|exact F].
Qed.
Lemma decimal_complete s ds r v : expand s = ds ++ r -> dec_field ds v -> starts (fun b => decval b = None) r ->
  exists s', Grammar.decimal_u32 s = Some (v, s') /\ expand s' = r.
Proof.
  intros E (N & L & D & -> & U) Sr. unfold Grammar.decimal_u32.
  destruct (digits decval 10 10%nat s 0 0) as [[v0 k] s0] eqn:Ed.
  destruct (digits_grammar decval 10 10%nat s 0 0 v0 k s0 Ed) as (ds' & A & B & C & D' & V' & F).
  assert (Hstop : starts (fun b => ~ (decval b <> None)) r).
  { destruct r as [|x t]; [exact I|]. cbn in *. intros Q. apply Q. exact Sr. }
  assert (X : ds' = ds /\ expand s0 = r).
  { rewrite A in E. destruct F as [F|F].
    - apply (prefix_unique (fun b => decval b <> None)); try assumption. lia.
    - apply (split_unique (fun b => decval b <> None)); try assumption.
      unfold stops in F. destruct (expand s0); [exact I|]. cbn. intros Q. apply Q. exact F. }
  destruct X as [-> X].
  assert (K : k <> 0). { destruct ds; [contradiction|]. cbn [length] in B. lia. }
  destruct (Z.eqb_spec k 0); [contradiction|]. fold (dec_value ds) in V'. subst v0.
  destruct (Z.ltb_spec U32MAX (dec_value ds)); [lia|]. exists s0. split; [reflexivity|exact X].
Qed.

Lemma name_tail_sound s n : name_eol s = Some n -> starts (fun b => ~ sp_byte b) (expand s) ->
  exists text crs, expand s = text ++ crs /\ text_tail text crs /\ expand n = text.
Proof.
  intros H S. destruct (name_eol_sound s n H) as (text & crs & A & B & C & D & E).
  exists text, crs. unfold text_tail. rewrite A in S. repeat split; assumption.
Qed.
Lemma name_tail_complete s text crs : expand s = text ++ crs -> text_tail text crs ->
  exists n, name_eol s = Some n /\ expand n = text.
Proof. intros E (A & B & C & D). exact (name_eol_complete s text crs E B D C). Qed.

Lemma hdr_sound kw s s1 : hdr kw s = Some s1 ->
  exists sp, expand s = kw ++ sp ++ expand s1 /\ spaces sp /\ starts (fun b => ~ sp_byte b) (expand s1).
Proof.
  unfold hdr. destruct (tag kw s) as [s0|] eqn:T; [|discriminate]. intros H. apply tag_sound in T.
  destruct (space1_sound s0 s1 H) as (sp & A & B & C & D). exists sp. rewrite T, A. unfold spaces. repeat split; assumption.
Qed.
Lemma hdr_complete kw s sp r : expand s = kw ++ sp ++ r -> spaces sp -> starts (fun b => ~ sp_byte b) r ->
  exists s1, hdr kw s = Some s1 /\ expand s1 = r.
Proof.
  intros E (N & F) S. destruct (tag_complete kw s _ E) as (s0 & T & X).
  destruct (space1_complete s0 sp r X N F S) as (s1 & A & B). exists s1. unfold hdr. rewrite T, A. split; [reflexivity|exact B].
Qed.

Lemma hex_starts_nonsp n ds v rest : hex_field n ds v -> starts (fun b => ~ sp_byte b) (ds ++ rest).
Proof. intros (N & _ & D & _). destruct ds as [|d t]; [contradiction|]. cbn. inversion D; subst. intros Q. apply sp_not_hex in Q. contradiction. Qed.
Lemma dec_starts_nonsp ds v rest : dec_field ds v -> starts (fun b => ~ sp_byte b) (ds ++ rest).
Proof. intros (N & _ & D & _). destruct ds as [|d t]; [contradiction|]. cbn. inversion D; subst. intros Q. apply sp_not_digit in Q. contradiction. Qed.

(* ------------------------------------------------------------------ STACK CFI INIT <addr> <size> <rules> *)
Definition cfi_init_line (l : list Z) (a sz : Z) (rules : list Z) : Prop :=
  exists sp0 d1 sp1 d2 sp2 crs,
    l = T_STACK_CFI_INIT ++ sp0 ++ d1 ++ sp1 ++ d2 ++ sp2 ++ rules ++ crs /\
    spaces sp0 /\ hex_field 16 d1 a /\ spaces sp1 /\ hex_field 8 d2 sz /\ spaces sp2 /\ text_tail rules crs.

Lemma cfi_init_sound s it : p_stack_cfi_init s = POk it ->
  exists a sz r rules, it = ICfiInit (mk_cfi (mk_rule a r) sz []) /\ cfi_init_line (expand s) a sz rules /\ expand r = rules.
Proof.
  unfold p_stack_cfi_init. destruct (hdr T_STACK_CFI_INIT s) as [s1|] eqn:Hh; [|discriminate].
  unfold cutp. destruct (hex64sp s1) as [[a s2]|] eqn:H1; [|discriminate].
  destruct (hex32sp s2) as [[sz s3]|] eqn:H2; [|discriminate].
  destruct (name_eol s3) as [r|] eqn:H3; [|discriminate]. intros HH. inversion HH; subst it. clear HH.
  destruct (hdr_sound _ _ _ Hh) as (sp0 & A0 & B0 & C0).
  destruct (hexsp_sound _ _ _ _ H1) as (d1 & sp1 & A1 & B1 & C1 & D1).
  destruct (hexsp_sound _ _ _ _ H2) as (d2 & sp2 & A2 & B2 & C2 & D2).
  destruct (name_tail_sound _ _ H3 D2) as (rules & crs & A3 & B3 & C3).
  exists a, sz, r, rules. split; [reflexivity|]. split; [|exact C3].
  exists sp0, d1, sp1, d2, sp2, crs. rewrite A0, A1, A2, A3.
  split; [reflexivity|]. split; [exact B0|]. split; [exact B1|]. split; [exact C1|]. split; [exact B2|]. split; [exact C2|exact B3].
Qed.

Lemma cfi_init_complete s a sz rules : cfi_init_line (expand s) a sz rules ->
  exists r, p_stack_cfi_init s = POk (ICfiInit (mk_cfi (mk_rule a r) sz [])) /\ expand r = rules.
Proof.
  intros (sp0 & d1 & sp1 & d2 & sp2 & crs & E & S0 & F1 & S1 & F2 & S2 & T).
  destruct (hdr_complete _ _ _ _ E S0 (hex_starts_nonsp _ _ _ _ F1)) as (s1 & H0 & X0).
  destruct (hexsp_complete _ _ _ _ _ _ X0 F1 S1 (hex_starts_nonsp _ _ _ _ F2)) as (s2 & H1 & X1).
  destruct (hexsp_complete _ _ _ _ _ _ X1 F2 S2 (proj1 T)) as (s3 & H2 & X2).
  destruct (name_tail_complete _ _ _ X2 T) as (r & H3 & X3).
  exists r. split; [|exact X3]. unfold p_stack_cfi_init, hex64sp, hex32sp. rewrite H0, H1, H2, H3. reflexivity.
Qed.

(* ------------------------------------------------------------------ STACK CFI <addr> <rules> (inside a STACK CFI INIT group) *)
Definition cfi_add_line (l : list Z) (a : Z) (rules : list Z) : Prop :=
  exists sp0 d1 sp1 crs,
    l = T_STACK_CFI ++ sp0 ++ d1 ++ sp1 ++ rules ++ crs /\ spaces sp0 /\ hex_field 16 d1 a /\ spaces sp1 /\ text_tail rules crs.

Lemma cfi_add_sound s x : sub_cfi s = Some x ->
  exists a r rules, x = mk_rule a r /\ cfi_add_line (expand s) a rules /\ expand r = rules.
Proof.
  unfold sub_cfi. destruct (hdr T_STACK_CFI s) as [s1|] eqn:Hh; [|discriminate].
  destruct (hex64sp s1) as [[a s2]|] eqn:H1; [|discriminate].
  destruct (name_eol s2) as [r|] eqn:H3; [|discriminate]. intros HH. inversion HH; subst x. clear HH.
  destruct (hdr_sound _ _ _ Hh) as (sp0 & A0 & B0 & C0).
  destruct (hexsp_sound _ _ _ _ H1) as (d1 & sp1 & A1 & B1 & C1 & D1).
  destruct (name_tail_sound _ _ H3 D1) as (rules & crs & A3 & B3 & C3).
  exists a, r, rules. split; [reflexivity|]. split; [|exact C3].
  exists sp0, d1, sp1, crs. rewrite A0, A1, A3.
  split; [reflexivity|]. split; [exact B0|]. split; [exact B1|]. split; [exact C1|exact B3].
Qed.

Lemma cfi_add_complete s a rules : cfi_add_line (expand s) a rules ->
  exists r, sub_cfi s = Some (mk_rule a r) /\ expand r = rules.
Proof.
  intros (sp0 & d1 & sp1 & crs & E & S0 & F1 & S1 & T).
  destruct (hdr_complete _ _ _ _ E S0 (hex_starts_nonsp _ _ _ _ F1)) as (s1 & H0 & X0).
  destruct (hexsp_complete _ _ _ _ _ _ X0 F1 S1 (proj1 T)) as (s2 & H1 & X1).
  destruct (name_tail_complete _ _ _ X1 T) as (r & H3 & X3).
  exists r. split; [|exact X3]. unfold sub_cfi, hex64sp. rewrite H0, H1, H3. reflexivity.
Qed.

(* ------------------------------------------------------------------ <address> <size> <line> <file> *)
Definition line_rec_line (l : list Z) (a sz ln fl : Z) : Prop :=
  exists d1 sp1 d2 sp2 d3 sp3 d4 crs,
    l = d1 ++ sp1 ++ d2 ++ sp2 ++ d3 ++ sp3 ++ d4 ++ crs /\
    hex_field 16 d1 a /\ spaces sp1 /\ hex_field 8 d2 sz /\ spaces sp2 /\ dec_field d3 ln /\ spaces sp3 /\ dec_field d4 fl /\
    Forall (fun b => b = 13) crs.

Lemma cr_not_digit crs : Forall (fun b => b = 13) crs -> starts (fun b => decval b = None) crs.
Proof. intros H. destruct crs as [|x t]; [exact I|]. inversion H; subst. reflexivity. Qed.

Lemma line_rec_sound s x : sub_line_data s = Some x ->
  exists a sz ln fl, x = mk_line a sz fl ln /\ line_rec_line (expand s) a sz ln fl.
Proof.
  unfold sub_line_data, guard.
  destruct (hex64sp s) as [[a s1]|] eqn:H1; [|discriminate].
  destruct (hex32sp s1) as [[sz s2]|] eqn:H2; [|discriminate].
  destruct (decsp s2) as [[ln s3]|] eqn:H3; [|discriminate].
  destruct (Grammar.decimal_u32 s3) as [[fl s4]|] eqn:H4; [|discriminate].
  destruct (eol s4) eqn:H5; [|discriminate]. intros HH. inversion HH; subst x. clear HH.
  destruct (hexsp_sound _ _ _ _ H1) as (d1 & sp1 & A1 & B1 & C1 & D1).
  destruct (hexsp_sound _ _ _ _ H2) as (d2 & sp2 & A2 & B2 & C2 & D2).
  destruct (decsp_sound' _ _ _ H3) as (d3 & sp3 & A3 & B3 & C3 & D3).
  destruct (decimal_sound _ _ _ H4) as (d4 & A4 & B4 & _).
  apply eol_bytes in H5.
  exists a, sz, ln, fl. split; [reflexivity|].
  exists d1, sp1, d2, sp2, d3, sp3, d4, (expand s4). rewrite A1, A2, A3, A4.
  split; [reflexivity|]. split; [exact B1|]. split; [exact C1|]. split; [exact B2|]. split; [exact C2|]. split; [exact B3|].
  split; [exact C3|]. split; [exact B4|exact H5].
Qed.

Lemma line_rec_complete s a sz ln fl : line_rec_line (expand s) a sz ln fl -> sub_line_data s = Some (mk_line a sz fl ln).
Proof.
  intros (d1 & sp1 & d2 & sp2 & d3 & sp3 & d4 & crs & E & F1 & S1 & F2 & S2 & F3 & S3 & F4 & C).
  destruct (hexsp_complete _ _ _ _ _ _ E F1 S1 (hex_starts_nonsp _ _ _ _ F2)) as (s1 & H1 & X1).
  destruct (hexsp_complete _ _ _ _ _ _ X1 F2 S2 (dec_starts_nonsp _ _ _ F3)) as (s2 & H2 & X2).
  destruct (decsp_complete' _ _ _ _ _ X2 F3 S3 (dec_starts_nonsp _ _ _ F4)) as (s3 & H3 & X3).
  destruct (decimal_complete _ _ _ _ X3 F4 (cr_not_digit _ C)) as (s4 & H4 & X4).
  assert (H5 : eol s4 = true) by (apply eol_bytes; rewrite X4; exact C).
  unfold sub_line_data, hex64sp, hex32sp, guard. rewrite H1, H2, H3, H4, H5. reflexivity.
Qed.

(* "1000 10 7 1\r" is the line record address 0x1000, size 0x10, line 7, file 1 *)
Lemma line_rec_example : line_rec_line ([49; 48; 48; 48] ++ [32] ++ [49; 48] ++ [32] ++ [55] ++ [32] ++ [49] ++ [13]) 4096 16 7 1.
Proof.
  assert (SP : spaces [32]) by (split; [discriminate|constructor; [left; reflexivity|constructor]]).
  exists [49; 48; 48; 48], [32], [49; 48], [32], [55], [32], [49], [13].
  split; [reflexivity|].
  split. { split; [discriminate|]. split; [cbn; lia|]. split; [repeat constructor; cbn; discriminate|reflexivity]. }
  split; [exact SP|].
  split. { split; [discriminate|]. split; [cbn; lia|]. split; [repeat constructor; cbn; discriminate|reflexivity]. }
  split; [exact SP|].
  split. { split; [discriminate|]. split; [cbn; lia|]. split; [repeat constructor; cbn; discriminate|]. split; [reflexivity|vm_compute; discriminate]. }
  split; [exact SP|].
  split. { split; [discriminate|]. split; [cbn; lia|]. split; [repeat constructor; cbn; discriminate|]. split; [reflexivity|vm_compute; discriminate]. }
  repeat constructor.
Qed.
