(* C09/Model.v — SymbolFile::parse (breakpad-symbols/src/sym_file/mod.rs) as a state machine.
   Definitions only (no proofs): this file is extracted.

   Input abstraction.  The input is a list of complete lines (each of [llen l >= 1] bytes, the
   last of which is its '\n') followed by [tail] bytes that contain no '\n'.  Every byte
   string has exactly one such decomposition (C09/Grammar.v: [split_bytes]/[join_bytes]).
   The circular::Buffer is modelled by its three indices; its contents are not stored:
   [data()] is the window of the input that starts at [total_consumed] — the FIFO contract
   of circular 0.3.0 ([fill] appends what the reader wrote into [space()], [consume] drops
   from the front, [shift]/[grow] keep the bytes).  The window is described by [rest]
   (lines not yet consumed), [off] (bytes of the first of them already discarded) and
   [avail].  That contract is trusted and exercised by the correspondence run, which
   compares the callback bytes with the input. *)
From RM Require Import Base.Word.
Open Scope Z_scope.

Definition INITIAL_CAP : Z := 10240.   (* INITIAL_BUFFER_CAPACITY = 1024 * 10  *)
Definition MAX_CAP : Z := 163840.      (* MAX_BUFFER_CAPACITY     = 1024 * 160 *)
Definition HALF_CAP : Z := 81920.      (* MAX_BUFFER_CAPACITY / 2 *)

(* ---------------------------------------------------------------- circular::Buffer 0.3.0 *)
Record cbuf := mkbuf { b_pos : Z; b_end : Z; b_cap : Z }.

Definition avail (b : cbuf) : Z := b_end b - b_pos b.     (* available_data  *)
Definition space (b : cbuf) : Z := b_cap b - b_end b.     (* available_space *)

Definition shift (b : cbuf) : cbuf :=
  if 0 <? b_pos b then mkbuf 0 (b_end b - b_pos b) (b_cap b) else b.

Definition consume (b : cbuf) (count : Z) : cbuf :=
  let cnt := Z.min count (avail b) in
  let b1 := mkbuf (b_pos b + cnt) (b_end b) (b_cap b) in
  if b_cap b1 / 2 <? b_pos b1 then shift b1 else b1.

Definition fill (b : cbuf) (count : Z) : cbuf :=
  let cnt := Z.min count (space b) in
  let b1 := mkbuf (b_pos b) (b_end b + cnt) (b_cap b) in
  if space b1 <? avail b1 + cnt then shift b1 else b1.

Definition grow (b : cbuf) (n : Z) : cbuf :=
  if n <=? b_cap b then b else mkbuf (b_pos b) (b_end b) n.

(* data() = memory[position..end], space() = memory[end..capacity]: both index-checked *)
Definition geom_ok (b : cbuf) : bool :=
  (0 <=? b_pos b) && (b_pos b <=? b_end b) && (b_end b <=? b_cap b).

(* ---------------------------------------------------------------- results *)
(* error codes: 1 "failed to parse file", 2 "MODULE line found after the start of the file",
   3 "empty SymbolFile", 4 "unexpected EOF during parsing of SymbolFile" *)
Inductive result (PS : Type) : Type :=
| ROk (p : PS)
| RErr (code line : Z).
Arguments ROk {PS} p.
Arguments RErr {PS} code line.

Section Driver.
  Variable L : Type.                     (* a complete line *)
  Variable llen : L -> Z.                (* its length in bytes including the final '\n' *)
  Variable PS : Type.                    (* SymbolParser *)
  Variable init_ps : PS.                 (* SymbolParser::new() *)
  Variable recog : PS -> L -> PS + Z.    (* what parse_more does with one line: new state or error code *)
  Variable bump : PS -> PS.              (* parser.lines += 1 *)
  Variable lineno : PS -> Z.             (* parser.lines *)

  Record st := mkst {
    buf : cbuf;
    fc : bool;               (* fully_consumed *)
    tg : bool;               (* tried_to_grow *)
    pr : bool;               (* in_panic_recovery *)
    jf : bool;               (* just_finished_recovering *)
    total : Z;               (* total_consumed *)
    ps : PS;                 (* parser *)
    rest : list L;           (* input from total_consumed on: lines ... *)
    off : Z;                 (* ... minus the first [off] bytes of the first of them (or of the tail) *)
    unread : Z;              (* bytes the reader has not handed out yet *)
    sched : list Z;          (* sizes the reader's next read() calls are willing to return *)
    ncb : Z; cbsum : Z;      (* callback: number of calls, bytes passed *)
    nrd : Z; maxsp : Z;      (* read(): number of calls, largest space() offered *)
    log : list (bool * L)    (* lines disposed of, latest first: (false,l) recognised, (true,l) dropped *)
  }.

  (* input.iter().position(|b| b == '\n') over data() *)
  Definition first_nl (s : st) : option Z :=
    match rest s with
    | l :: _ => let d := llen l - off s in if d <=? avail (buf s) then Some (d - 1) else None
    | [] => None
    end.

  (* recovery, no '\n' in data(): hand everything to the callback and discard it *)
  Definition discard_all (s : st) : st :=
    let amount := avail (buf s) in
    let b' := consume (buf s) amount in
    mkst b' true (tg s) (pr s) (jf s) (total s + amount) (ps s) (rest s) (off s + amount)
         (unread s) (sched s) (ncb s + 1) (cbsum s + amount) (nrd s) (maxsp s) (log s).

  (* the `if in_panic_recovery { ... }` block at the top of the loop *)
  Definition recovery (s : st) : st :=
    match first_nl s, rest s with
    | Some idx, l :: t =>
        let amount := idx + 1 in
        let b' := consume (buf s) amount in
        mkst b' (avail b' =? 0) (tg s) false true (total s + amount) (bump (ps s)) t 0
             (unread s) (sched s) (ncb s + 1) (cbsum s + amount) (nrd s) (maxsp s) ((true, l) :: log s)
    | _, _ => discard_all s
    end.

  (* input_reader.read(buf.space()): a reader gives min(chunk, space, remaining); a read into an
     empty slice or at end of input gives 0 and does not use up a schedule entry; once the
     schedule is used up the reader gives as much as fits (that is `&[u8]`, i.e. from_bytes) *)
  Definition read_n (sp : Z) (s : st) : Z * list Z :=
    if (sp <=? 0) || (unread s <=? 0) then (0, sched s)
    else match sched s with
         | [] => (Z.min sp (unread s), [])
         | c :: t => (Z.min (Z.min (Z.max 1 c) sp) (unread s), t)
         end.

  (* parser.parse_more(data): the complete lines inside [budget] bytes, in order *)
  Fixpoint pm (budget : Z) (p : PS) (ls : list L) (consumed : Z) (lg : list (bool * L))
    : (PS * list L * Z * list (bool * L)) + (Z * Z) :=
    match ls with
    | l :: t =>
        if llen l <=? budget then
          match recog p l with
          | inl p' => pm (budget - llen l) p' t (consumed + llen l) ((false, l) :: lg)
          | inr c => inr (c, lineno p)
          end
        else inl (p, ls, consumed, lg)
    | [] => inl (p, [], consumed, lg)
    end.

  Inductive stepres :=
  | Next (s : st)
  | Done (r : result PS) (s : st)
  | StPanic (tag : Z).

  (* from `if in_panic_recovery { continue; }` to the end of the loop body *)
  Definition parse_phase (s : st) : stepres :=
    if pr s then Next s else
    if negb (geom_ok (buf s)) then StPanic 2 else
    if negb (off s =? 0) then StPanic 99     (* the recogniser would be shown the rest of a half-discarded line *)
    else
      let len := avail (buf s) in
      match pm len (ps s) (rest s) 0 (log s) with
      | inr (c, ln) => Done (RErr c ln) s
      | inl (p', rest', consumed, lg') =>
          Next (mkst (consume (buf s) consumed) (len =? consumed) (tg s) false false
                     (total s + consumed) p' rest' 0 (unread s) (sched s)
                     (ncb s + 1) (cbsum s + consumed) (nrd s) (maxsp s) lg')
      end.

  Definition set_pr (s : st) (v : bool) : st :=
    mkst (buf s) (fc s) (tg s) v (jf s) (total s) (ps s) (rest s) (off s) (unread s) (sched s)
         (ncb s) (cbsum s) (nrd s) (maxsp s) (log s).
  Definition set_tg (s : st) (v : bool) : st :=
    mkst (buf s) (fc s) v (pr s) (jf s) (total s) (ps s) (rest s) (off s) (unread s) (sched s)
         (ncb s) (cbsum s) (nrd s) (maxsp s) (log s).
  Definition set_buf_tg (s : st) (b : cbuf) (v : bool) : st :=
    mkst b (fc s) v (pr s) (jf s) (total s) (ps s) (rest s) (off s) (unread s) (sched s)
         (ncb s) (cbsum s) (nrd s) (maxsp s) (log s).

  (* the loop body of SymbolFile::parse after `let size = input_reader.read(buf.space())?`:
     [n] bytes were read into [sp] bytes of space, the reader is left in state [sch'] *)
  Definition step_after_read (n : Z) (sch' : list Z) (sp : Z) (s1 : st) : stepres :=
    let b := buf s1 in
    let buffer_full := sp =? 0 in
    let b2 := fill b n in
    let s2 := mkst b2 (fc s1) (tg s1) (pr s1) (jf s1) (total s1) (ps s1) (rest s1) (off s1)
                   (unread s1 - n) sch' (ncb s1) (cbsum s1) (nrd s1 + 1) (Z.max (maxsp s1) sp) (log s1) in
    if n =? 0 then
      if jf s2 && negb (avail b2 =? 0) then parse_phase s2
      else if fc s2 then Done (ROk (ps s2)) s2
      else if buffer_full && negb (tg s2) then
        let new_cap := Z.min (b_cap b2 * 2) U64MAX in        (* saturating_mul(2) *)
        if MAX_CAP <? new_cap then Next (set_pr s2 true)
        else Next (set_buf_tg s2 (grow b2 new_cap) true)
      else if total s2 =? 0 then Done (RErr 3 0) s2
      else Done (RErr 4 (lineno (ps s2))) s2
    else parse_phase (set_tg s2 false).

  (* ... from `let buffer_full = ...; let size = input_reader.read(buf.space())?` on *)
  Definition step_rest (s1 : st) : stepres :=
    let b := buf s1 in
    if negb (geom_ok b) then StPanic 1 else
    let sp := space b in
    let '(n, sch') := read_n sp s1 in
    step_after_read n sch' sp s1.

  (* one iteration of `loop { ... }` *)
  Definition step (s0 : st) : stepres :=
    if pr s0 && negb (geom_ok (buf s0)) then StPanic 2 else
    step_rest (if pr s0 then recovery s0 else s0).

  (* run [step] at most [p] times (binary fuel: no unary numbers at run time) *)
  Fixpoint iter_pos (p : positive) (s : st) : stepres :=
    match p with
    | xH => step s
    | xO q => match iter_pos q s with Next s1 => iter_pos q s1 | r => r end
    | xI q => match step s with
              | Next s1 => match iter_pos q s1 with Next s2 => iter_pos q s2 | r => r end
              | r => r
              end
    end.

  Fixpoint size (ls : list L) : Z :=
    match ls with [] => 0 | l :: t => llen l + size t end.

  Definition input_len (lines : list L) (tail : Z) : Z := size lines + Z.max 0 tail.

  Definition init_st (lines : list L) (tail : Z) (sch : list Z) : st :=
    mkst (mkbuf 0 0 INITIAL_CAP) false false false false 0 init_ps lines 0
         (input_len lines tail) sch 0 0 0 0 [].

  (* the fuel bound IS the termination claim: linear in the input length *)
  Definition fuel_for (lines : list L) (tail : Z) : positive :=
    Z.to_pos (6 * input_len lines tail + 24).

  Definition drive (lines : list L) (tail : Z) (sch : list Z) : outcome (result PS * st) :=
    match iter_pos (fuel_for lines tail) (init_st lines tail sch) with
    | Next _ => OutOfFuel
    | Done r s => Ret (r, s)
    | StPanic t => Panic t
    end.

  (* ---------------- SymbolFile::parse_async: the same loop; only the read step differs.
     The reader is `input_reader: &mut &[u8]` over the current HTTP chunk; [sched] holds the bytes
     left in that slice followed by the sizes of the chunks the response will still deliver.
     `if input_reader.is_empty() { chunk = response.chunk().await?.unwrap_or_default(); ... }`
     then `input_reader.read(buf.space())` = min(space, slice).  (An empty chunk in the middle of
     the stream would read as 0 bytes, i.e. as end of input: chunks are assumed non-empty.) *)
  Definition read_async (sp : Z) (s : st) : Z * list Z :=
    let '(cur, more) := match sched s with [] => (0, []) | c :: t => (c, t) end in
    let '(cur1, more1) := if cur <=? 0 then match more with [] => (0, []) | c :: t => (c, t) end
                          else (cur, more) in
    let n := Z.max 0 (Z.min sp cur1) in
    (n, (cur1 - n) :: more1).

  Definition step_rest_async (s1 : st) : stepres :=
    let b := buf s1 in
    if negb (geom_ok b) then StPanic 1 else
    let sp := space b in
    let '(n, sch') := read_async sp s1 in
    step_after_read n sch' sp s1.

  Definition step_async (s0 : st) : stepres :=
    if pr s0 && negb (geom_ok (buf s0)) then StPanic 2 else
    step_rest_async (if pr s0 then recovery s0 else s0).

  Fixpoint iter_pos_async (p : positive) (s : st) : stepres :=
    match p with
    | xH => step_async s
    | xO q => match iter_pos_async q s with Next s1 => iter_pos_async q s1 | r => r end
    | xI q => match step_async s with
              | Next s1 => match iter_pos_async q s1 with Next s2 => iter_pos_async q s2 | r => r end
              | r => r
              end
    end.

  (* `slice = &[][..]` before the loop: the current slice is empty *)
  Definition drive_async (lines : list L) (tail : Z) (chunks : list Z) : outcome (result PS * st) :=
    match iter_pos_async (fuel_for lines tail) (init_st lines tail (0 :: chunks)) with
    | Next _ => OutOfFuel
    | Done r s => Ret (r, s)
    | StPanic t => Panic t
    end.

  (* ---------------- what the outcome should be, with no buffer and no reader (used by C10) *)
  Fixpoint fold_recog (p : PS) (ls : list L) : PS + (Z * Z) :=
    match ls with
    | [] => inl p
    | l :: t => match recog p l with
                | inl p' => fold_recog p' t
                | inr c => inr (c, lineno p)
                end
    end.

  (* the parser state after a list of decisions: (false, l) = l recognised, (true, l) = l dropped *)
  Fixpoint replay (p : PS) (ds : list (bool * L)) : PS + (Z * Z) :=
    match ds with
    | [] => inl p
    | (true, _) :: t => replay (bump p) t
    | (false, l) :: t => match recog p l with
                         | inl p' => replay p' t
                         | inr c => inr (c, lineno p)
                         end
    end.

  Definition spec (lines : list L) (tail : Z) : result PS :=
    match fold_recog init_ps lines with
    | inr (c, ln) => RErr c ln
    | inl p =>
        match lines with
        | [] => RErr 3 0                                  (* nothing was ever consumed *)
        | _ :: _ => if 0 <? tail then RErr 4 (lineno p)   (* last line has no '\n' *)
                    else ROk p
        end
    end.
End Driver.

Arguments buf {L PS} s.
Arguments fc {L PS} s.
Arguments tg {L PS} s.
Arguments pr {L PS} s.
Arguments jf {L PS} s.
Arguments total {L PS} s.
Arguments ps {L PS} s.
Arguments rest {L PS} s.
Arguments off {L PS} s.
Arguments unread {L PS} s.
Arguments sched {L PS} s.
Arguments ncb {L PS} s.
Arguments cbsum {L PS} s.
Arguments nrd {L PS} s.
Arguments maxsp {L PS} s.
Arguments log {L PS} s.
Arguments mkst {L PS}.
Arguments Next {L PS} s.
Arguments Done {L PS} r s.
Arguments StPanic {L PS} tag.
