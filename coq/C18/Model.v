(* C18/Model.v — semantics of the register tables (CpuContext and MinidumpContext methods
   of minidump/src/context.rs), generic in the table.  The register file is a function
   from storage locations (field, index) to values; values are unbounded integers here:
   the Rust methods move a `Self::Register` (u32/u64) in and out of a field of the same
   type without arithmetic, and MinidumpContext widens with `.into()` (value preserving).
   Definitions only; proofs are in C18/Proofs.v. *)
From RM Require Export Base.Word C18.Tables.
Open Scope Z_scope.

Definition regfile := name -> Z -> Z.
Definition rf_get (rf : regfile) (l : loc) : Z := rf (l_field l) (l_idx l).
Definition loc_eqb (a b : loc) : bool := name_eqb (l_field a) (l_field b) && (l_idx a =? l_idx b).
Definition upd (rf : regfile) (l : loc) (v : Z) : regfile :=
  fun f i => if name_eqb f (l_field l) && (i =? l_idx l) then v else rf f i.
(* scalar field, or array index in range (otherwise Rust's index panics) *)
Definition loc_ok (l : loc) : bool :=
  if l_len l <? 0 then l_idx l =? -1 else (0 <=? l_idx l) && (l_idx l <? l_len l).

Definition mem (n : name) (l : list name) : bool := existsb (name_eqb n) l.
(* a `match reg { "a" | "b" => x, ... }`: the first arm with a matching pattern *)
Fixpoint find_arm {A} (n : name) (arms : list (list name * A)) : option A :=
  match arms with
  | [] => None
  | (ps, x) :: r => if mem n ps then Some x else find_arm n r
  end.
Definition names_of {A} (arms : list (list name * A)) : list name := List.concat (map fst arms).
Definition is_some {A} (o : option A) : bool := match o with Some _ => true | None => false end.

(* get_register_always: `_ => unreachable!(..)` is Panic 1; an out-of-range index Panic 2 *)
Definition get_always (c : ctx_table) (rf : regfile) (n : name) : outcome Z :=
  match find_arm n (ct_get c) with
  | Some l => if loc_ok l then Ret (rf_get rf l) else Panic 2
  | None => Panic 1
  end.
(* set_register: Some(()) with the updated context, or None for a name it does not know *)
Definition set_reg (c : ctx_table) (rf : regfile) (n : name) (v : Z) : outcome (option regfile) :=
  match find_arm n (ct_set c) with
  | Some l => if loc_ok l then Ret (Some (upd rf l v)) else Panic 2
  | None => Ret None
  end.
(* memoize_register; default_memoize_register returns REGISTERS[position(reg)], i.e. reg *)
Definition memoize (c : ctx_table) (n : name) : option name :=
  match find_arm n (ct_memo c) with
  | Some m => Some m
  | None => if mem n (ct_registers c) then Some n else None
  end.

(* MinidumpContextValidity; Some carries a HashSet: the list is its iteration order *)
Inductive validity := VAll | VSome (s : list name).
Definition alts_of (c : ctx_table) (n : name) : list name :=
  match find_arm n (ct_groups c) with Some alts => alts | None => [n] end.
Definition is_valid (c : ctx_table) (n : name) (v : validity) : bool :=
  match v with
  | VAll => is_some (memoize c n)
  | VSome s => existsb (fun a => mem a s) (alts_of c n)
  end.
Definition get_register (c : ctx_table) (rf : regfile) (n : name) (v : validity) : outcome (option Z) :=
  if is_valid c n v then
    match get_always c rf n with
    | Ret x => Ret (Some x) | Fail => Fail | Panic t => Panic t | OutOfFuel => OutOfFuel
    end
  else Ret None.

Fixpoint mapM {A B} (f : A -> outcome B) (l : list A) : outcome (list B) :=
  match l with
  | [] => Ret []
  | a :: r => match f a with
              | Ret b => match mapM f r with Ret bs => Ret (b :: bs) | Fail => Fail | Panic t => Panic t | OutOfFuel => OutOfFuel end
              | Fail => Fail | Panic t => Panic t | OutOfFuel => OutOfFuel
              end
  end.
Definition named (c : ctx_table) (rf : regfile) (n : name) : outcome (name * Z) :=
  match get_always c rf n with
  | Ret x => Ret (n, x) | Fail => Fail | Panic t => Panic t | OutOfFuel => OutOfFuel
  end.
(* CpuContext::valid_registers / registers: REGISTERS, or the set's own members *)
Definition cpu_valid_registers (c : ctx_table) (rf : regfile) (v : validity) : outcome (list (name * Z)) :=
  mapM (named c rf) (match v with VAll => ct_registers c | VSome s => s end).
(* MinidumpContext::registers: general_purpose_registers().iter().map(get_register_always) *)
Definition md_registers (c : ctx_table) (rf : regfile) : outcome (list (name * Z)) :=
  mapM (named c rf) (ct_gpr c).
(* MinidumpContext::valid_registers: registers().filter(register_is_valid) *)
Definition md_valid_registers (c : ctx_table) (rf : regfile) (v : validity) : outcome (list (name * Z)) :=
  match md_registers c rf with
  | Ret l => Ret (filter (fun p => is_valid c (fst p) v) l)
  | Fail => Fail | Panic t => Panic t | OutOfFuel => OutOfFuel
  end.
(* MinidumpContext::get_stack_pointer / get_instruction_pointer *)
Definition read_loc (rf : regfile) (l : loc) : outcome Z :=
  if loc_ok l then Ret (rf_get rf l) else Panic 2.
Definition md_stack_pointer (c : ctx_table) (rf : regfile) : outcome Z := read_loc rf (ct_sp_loc c).
Definition md_instruction_pointer (c : ctx_table) (rf : regfile) : outcome Z := read_loc rf (ct_ip_loc c).
Definition register_size (c : ctx_table) : Z := ct_width c / 8.
