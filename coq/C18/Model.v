(* C18/Model.v — semantics of the register tables (CpuContext and MinidumpContext methods
   of minidump/src/context.rs), generic in the table.  The register file is a function
   from storage locations (field, index) to values; values are unbounded integers here:
   the Rust methods move a `Self::Register` (u32/u64) in and out of a field of the same
   type without arithmetic, and MinidumpContext widens with `.into()` (value preserving).
   Definitions only; proofs are in C18/Proofs.v. *)
From RM Require Export Base.Word C18.Tables.
Open Scope Z_scope.

Definition regfile := name -> Z -> Z.
Definition rf_get (rf : regfile) (l : loc) : Z := rf (l_field l) (l_idx l).
Definition loc_eqb (a b : loc) : bool := name_eqb (l_field a) (l_field b) && (l_idx a =? l_idx b).
Definition upd (rf : regfile) (l : loc) (v : Z) : regfile :=
  fun f i => if name_eqb f (l_field l) && (i =? l_idx l) then v else rf f i.
(* scalar field, or array index in range (otherwise Rust's index panics) *)
Definition loc_ok (l : loc) : bool :=
  if l_len l <? 0 then l_idx l =? -1 else (0 <=? l_idx l) && (l_idx l <? l_len l).

Definition mem (n : name) (l : list name) : bool := existsb (name_eqb n) l.
(* a `match reg { "a" | "b" => x, ... }`: the first arm with a matching pattern *)
Fixpoint find_arm {A} (n : name) (arms : list (list name * A)) : option A :=
  match arms with
  | [] => None
  | (ps, x) :: r => if mem n ps then Some x else find_arm n r
  end.
Definition names_of {A} (arms : list (list name * A)) : list name := List.concat (map fst arms).
Definition is_some {A} (o : option A) : bool := match o with Some _ => true | None => false end.

(* Expressions regenerated from the source (get_register_always arms, the value a set_register arm
   assigns, the dedicated accessors' bodies, the MinidumpContext dispatch arms), evaluated.
   Field values are of their declared unsigned type, so a widening cast is the identity and
   a narrowing one truncates; `&&` / `||` / `if` evaluate only what Rust evaluates (an
   out-of-range index in the branch not taken does not panic). *)
Definition read_loc (rf : regfile) (l : loc) : outcome Z :=
  if loc_ok l then Ret (rf_get rf l) else Panic 2.
Fixpoint lookup_var (x : name) (env : list (name * Z)) : option Z :=
  match env with
  | [] => None
  | (y, v) :: r => if name_eqb x y then Some v else lookup_var x r
  end.
Fixpoint aeval (rf : regfile) (env : list (name * Z)) (e : aexp) : outcome Z :=
  match e with
  | ALoc l => read_loc rf l
  | ALit z => Ret z
  | AVar x => match lookup_var x env with Some v => Ret v | None => Fail end
  | ACast a from to => do v <- aeval rf env a; Ret (if from <=? to then v else v mod 2 ^ to)
  | AAnd a b => do x <- aeval rf env a; do y <- aeval rf env b; Ret (Z.land x y)
  | AOr a b => do x <- aeval rf env a; do y <- aeval rf env b; Ret (Z.lor x y)
  | AXor a b => do x <- aeval rf env a; do y <- aeval rf env b; Ret (Z.lxor x y)
  | ANot a w => do x <- aeval rf env a; Ret (Z.lxor x (2 ^ w - 1))
  | AShl a k w => do x <- aeval rf env a; Ret ((x * 2 ^ k) mod 2 ^ w)
  | AShr a k => do x <- aeval rf env a; Ret (x / 2 ^ k)
  | AIf c a b => do t <- beval rf env c; if (t : bool) then aeval rf env a else aeval rf env b
  | ALet x a body => do v <- aeval rf env a; aeval rf ((x, v) :: env) body
  end
with beval (rf : regfile) (env : list (name * Z)) (b : bexp) : outcome bool :=
  match b with
  | BLit t => Ret t
  | BVar x => match lookup_var x env with Some v => Ret (negb (v =? 0)) | None => Fail end
  | BEq x y => do u <- aeval rf env x; do v <- aeval rf env y; Ret (u =? v)
  | BNe x y => do u <- aeval rf env x; do v <- aeval rf env y; Ret (negb (u =? v))
  | BAnd x y => do u <- beval rf env x; if (u : bool) then beval rf env y else Ret false
  | BOr x y => do u <- beval rf env x; if (u : bool) then Ret true else beval rf env y
  | BNot x => do u <- beval rf env x; Ret (negb u)
  end.
(* get_register_always: `_ => unreachable!(..)` is Panic 1; an out-of-range index Panic 2 *)
Definition get_always (c : ctx_table) (rf : regfile) (n : name) : outcome Z :=
  match find_arm n (ct_get c) with
  | Some e => aeval rf [] e
  | None => Panic 1
  end.
(* set_register: Some(()) with the updated context, or None for a name it does not know *)
Definition set_reg (c : ctx_table) (rf : regfile) (n : name) (v : Z) : outcome (option regfile) :=
  match find_arm n (ct_set c), find_arm n (ct_set_val c) with
  | Some l, Some e => do x <- aeval rf [(v_val, v)] e;
                      if loc_ok l then Ret (Some (upd rf l x)) else Panic 2
  | Some _, None => Fail        (* the two tables are generated from the same arms *)
  | None, _ => Ret None
  end.
(* memoize_register; default_memoize_register(<table>, reg) returns table[position(|val| <cmp>(val, reg))]: the
   first entry of the generated table ([ct_memo_tbl]: the REGISTERS the call names) the generated comparison
   accepts (with `==` that is reg itself) *)
Definition lower (b : Z) : Z := if (65 <=? b) && (b <=? 90) then b + 32 else b.
Fixpoint name_eqb_nocase (a b : name) : bool :=
  match a, b with
  | [], [] => true
  | x :: a', y :: b' => (lower x =? lower y) && name_eqb_nocase a' b'
  | _, _ => false
  end.
Definition memo_eqb (cmp : Z) (r n : name) : bool := if cmp =? 0 then name_eqb r n else name_eqb_nocase r n.
Definition memoize (c : ctx_table) (n : name) : option name :=
  match find_arm n (ct_memo c) with
  | Some m => Some m
  | None => find (fun r => memo_eqb (ct_memo_cmp c) r n) (ct_memo_tbl c)
  end.

(* MinidumpContextValidity; Some carries a HashSet: the list is its iteration order *)
Inductive validity := VAll | VSome (s : list name).
(* a condition over the validity set: `which.contains("a")` / `which.contains(reg)` combined with && || ! *)
Fixpoint strip_prefix (p x : name) : option name :=
  match p, x with
  | [], _ => Some x
  | a :: p', b :: x' => if a =? b then strip_prefix p' x' else None
  | _ :: _, [] => None
  end.
Fixpoint bset (n : name) (s : list name) (b : bexp) : bool :=
  match b with
  | BLit t => t
  | BVar x => if name_eqb x v_contains then existsb (name_eqb n) s
              else match strip_prefix has_prefix x with Some a => existsb (name_eqb a) s | None => false end
  | BAnd x y => bset n s x && bset n s y
  | BOr x y => bset n s x || bset n s y
  | BNot x => negb (bset n s x)
  | BEq _ _ | BNe _ _ => false
  end.
(* the names a condition consults when it is a plain disjunction of which.contains("a") tests *)
Fixpoint disj_alts (b : bexp) : option (list name) :=
  match b with
  | BVar x => match strip_prefix has_prefix x with Some a => Some [a] | None => None end
  | BOr x y => match disj_alts x, disj_alts y with Some l, Some r => Some (l ++ r) | _, _ => None end
  | _ => None
  end.
Definition alts_of (c : ctx_table) (n : name) : list name :=
  match find_arm n (ct_groups c) with
  | Some b => match disj_alts b with Some l => l | None => [] end
  | None => [n]
  end.
(* a condition over pure calls only (no field is read): the calls' results are the environment;
   a comparison of integer expressions has no meaning here (the translator's type checker never
   produces one in these positions, the checker demands the plain call) *)
Fixpoint lookup_b (x : name) (env : list (name * bool)) : bool :=
  match env with
  | [] => false
  | (y, t) :: r => if name_eqb x y then t else lookup_b x r
  end.
Fixpoint bpure (env : list (name * bool)) (b : bexp) : bool :=
  match b with
  | BLit t => t
  | BVar x => lookup_b x env
  | BAnd x y => bpure env x && bpure env y
  | BOr x y => bpure env x || bpure env y
  | BNot x => negb (bpure env x)
  | BEq _ _ | BNe _ _ => false
  end.
(* register_is_valid: `if let Some(ref which) = valid { match reg { <groups>, _ => <ct_valid_default> } } else { <ct_valid_all> }` *)
Definition is_valid (c : ctx_table) (n : name) (v : validity) : bool :=
  match v with
  | VAll => bpure [(v_memo, is_some (memoize c n))] (ct_valid_all c)
  | VSome s => match find_arm n (ct_groups c) with
               | Some b => bset n s b
               | None => bpure [(v_contains, mem n s)] (ct_valid_default c)
               end
  end.
(* get_register: `if <ct_get_cond> { Some(<ct_get_val>) } else { None }`, the value an expression over self.get_register_always(reg) *)
Definition get_register (c : ctx_table) (rf : regfile) (n : name) (v : validity) : outcome (option Z) :=
  if bpure [(v_iv, is_valid c n v)] (ct_get_cond c) then
    do x <- get_always c rf n; do y <- aeval rf [(v_ga, x)] (ct_get_val c); Ret (Some y)
  else Ret None.

Fixpoint mapM {A B} (f : A -> outcome B) (l : list A) : outcome (list B) :=
  match l with
  | [] => Ret []
  | a :: r => match f a with
              | Ret b => match mapM f r with Ret bs => Ret (b :: bs) | Fail => Fail | Panic t => Panic t | OutOfFuel => OutOfFuel end
              | Fail => Fail | Panic t => Panic t | OutOfFuel => OutOfFuel
              end
  end.
Definition named (c : ctx_table) (rf : regfile) (n : name) : outcome (name * Z) :=
  match get_always c rf n with
  | Ret x => Ret (n, x) | Fail => Fail | Panic t => Panic t | OutOfFuel => OutOfFuel
  end.
(* CpuContext::valid_registers builds `CpuRegisters { regs, context }` with
   regs = <ct_iter_all> under All, <ct_iter_some> under Some(valid) (regenerated from the source: a slice of a REGISTERS
   table, or the set's iterator); registers() = valid_registers(All).  The iterator's state is the CpuRegistersInner
   variant and the list of names still to come (for a set: in its iteration order).
   CpuRegisters::next: `let reg = match &mut self.regs { Slice(iter) => iter.<step>, Set(iter) => iter.<step> }?;
   Some((reg, <ct_next_val>))` where <step> = next() consumes nothing before the name it yields and nth(K) consumes K
   ([ct_next_slice], [ct_next_set]). *)
Inductive iter_kind := KSlice | KSet.
Definition iter_state := (iter_kind * list name)%type.
Definition src_state (s : names_src) (set : list name) : iter_state :=
  match s with NList l => (KSlice, l) | NSet => (KSet, set) end.
Definition cpu_iter_init (c : ctx_table) (v : validity) : iter_state :=
  match v with VAll => src_state (ct_iter_all c) [] | VSome s => src_state (ct_iter_some c) s end.
Definition cpu_iter_next (c : ctx_table) (rf : regfile) (st : iter_state) : outcome (option (name * Z) * iter_state) :=
  let skip := match fst st with KSlice => ct_next_slice c | KSet => ct_next_set c end in
  match skipn (Z.to_nat skip) (snd st) with
  | [] => Ret (None, (fst st, []))
  | r :: t => do x <- get_always c rf r; do y <- aeval rf [(v_ga, x)] (ct_next_val c); Ret (Some (r, y), (fst st, t))
  end.
(* draining the iterator (what `.collect()` / a `for` loop does) *)
Fixpoint cpu_iter_collect (fuel : nat) (c : ctx_table) (rf : regfile) (st : iter_state) : outcome (list (name * Z)) :=
  match fuel with
  | O => OutOfFuel
  | S f => do r <- cpu_iter_next c rf st;
           match r with
           | (None, _) => Ret []
           | (Some p, st') => do l <- cpu_iter_collect f c rf st'; Ret (p :: l)
           end
  end.
Definition cpu_valid_registers (c : ctx_table) (rf : regfile) (v : validity) : outcome (list (name * Z)) :=
  let st := cpu_iter_init c v in cpu_iter_collect (S (length (snd st))) c rf st.
Definition cpu_registers (c : ctx_table) (rf : regfile) : outcome (list (name * Z)) :=
  match ct_regs_direct c with
  | None => cpu_valid_registers c rf VAll
  | Some src => let st := src_state src [] in cpu_iter_collect (S (length (snd st))) c rf st
  end.
(* MinidumpContext::get_stack_pointer / get_instruction_pointer: the arm's body, evaluated *)
Definition md_stack_pointer (c : ctx_table) (rf : regfile) : outcome Z := aeval rf [] (ct_sp_acc c).
Definition md_instruction_pointer (c : ctx_table) (rf : regfile) : outcome Z := aeval rf [] (ct_ip_acc c).
(* std::mem::size_of::<Register>() *)
Definition register_size (c : ctx_table) : Z := ct_width c / 8.
(* MinidumpContext::register_size: this variant's arm, over `get(ctx)` = size_of::<T::Register>() *)
Definition md_register_size (c : ctx_table) : outcome Z := aeval (fun _ _ => 0) [(v_size, register_size c)] (ct_md_size c).

(* MinidumpContext dispatch (this variant's arms, regenerated from the source):
   get_register_always = the arm's expression over the forwarded call;
   get_register = `let valid = <arm>; if valid { Some(<ct_md_get_val>) } else { None }`;
   registers = general_purpose_registers().iter().map(|reg| (reg, <ct_md_regs_val>)), the value an expression over
     self.get_register_always(reg);
   valid_registers = registers().filter(|(reg, _)| <arm>) *)
Definition md_get_always (c : ctx_table) (rf : regfile) (n : name) : outcome Z :=
  do x <- get_always c rf n; aeval rf [(v_ga, x)] (ct_md_get c).
Definition md_is_valid (e : bexp) (c : ctx_table) (rf : regfile) (n : name) (v : validity) : outcome bool :=
  beval rf [(v_iv, if is_valid c n v then 1 else 0)] e.
Definition md_get_register (c : ctx_table) (rf : regfile) (n : name) (v : validity) : outcome (option Z) :=
  do ok <- md_is_valid (ct_md_valid c) c rf n v;
  if (ok : bool) then (do x <- md_get_always c rf n; do y <- aeval rf [(v_mga, x)] (ct_md_get_val c); Ret (Some y)) else Ret None.
Definition md_named (c : ctx_table) (rf : regfile) (n : name) : outcome (name * Z) :=
  do x <- md_get_always c rf n; do y <- aeval rf [(v_mga, x)] (ct_md_regs_val c); Ret (n, y).
Definition md_registers (c : ctx_table) (rf : regfile) : outcome (list (name * Z)) :=
  mapM (md_named c rf) (ct_gpr c).
Fixpoint filterM {A} (p : A -> outcome bool) (l : list A) : outcome (list A) :=
  match l with
  | [] => Ret []
  | a :: r => do keep <- p a; do r' <- filterM p r; Ret (if (keep : bool) then a :: r' else r')
  end.
Definition md_valid_registers (c : ctx_table) (rf : regfile) (v : validity) : outcome (list (name * Z)) :=
  do l <- md_registers c rf; filterM (fun p => md_is_valid (ct_md_filter c) c rf (fst p) v) l.

(* CpuContext::format_register: format!("0x{:01$x}", get_register_always(reg), size_of::<Register>() * 2):
   lower-case hexadecimal, zero-padded to AT LEAST 2*size digits (the unchecked read: an
   unknown name reaches unreachable!()). *)
Definition hex_digit (d : Z) : Z := if d <? 10 then 48 + d else 87 + d.
Fixpoint hex_fixed (d : nat) (v : Z) (acc : name) : name :=
  match d with
  | O => acc
  | S d' => hex_fixed d' (v / 16) (hex_digit (v mod 16) :: acc)
  end.
Definition ndigits (v : Z) : nat := if v <=? 0 then 1%nat else Z.to_nat (Z.log2 v / 4 + 1).
Definition hex_min (d : nat) (v : Z) : name := hex_fixed (Nat.max d (ndigits v)) v [].
(* `{:01$x}` pads with zeros, `{:1$x}` with spaces, to at least the width argument *)
Definition hex_padded (zero : bool) (d : nat) (v : Z) : name :=
  if zero then hex_min d v
  else repeat 32 (d - ndigits v) ++ hex_fixed (ndigits v) v [].
Definition format_value (c : ctx_table) (v : Z) : name :=
  ct_fmt_prefix c ++ hex_padded (ct_fmt_zero c) (Z.to_nat (register_size c * ct_fmt_mul c)) v.
Definition format_register (c : ctx_table) (rf : regfile) (n : name) : outcome name :=
  do x <- get_always c rf n; Ret (format_value c x).
(* MinidumpContext::format_register: this variant's arm *)
Definition md_format_register (c : ctx_table) (rf : regfile) (n : name) : outcome name :=
  match ct_md_fmt c with
  | None => format_register c rf n
  | Some (p, z, d) => do x <- get_always c rf n; Ret (p ++ hex_padded z (Z.to_nat d) x)
  end.
(* the value a rendering denotes (inverse of hex_fixed on digit strings) *)
Definition hex_digit_val (b : Z) : Z := if b <? 58 then b - 48 else b - 87.
Definition hex_val (s : name) : Z := fold_left (fun a b => a * 16 + hex_digit_val b) s 0.

(* a sequence of set_register calls, in order: a name the context does not know is refused (None) and leaves the
   context as it is; [last_write] is what the sequence wrote last through any spelling of m's register *)
Fixpoint apply_writes (c : ctx_table) (rf : regfile) (ops : list (name * Z)) : outcome regfile :=
  match ops with
  | [] => Ret rf
  | (n, v) :: r => do o <- set_reg c rf n v;
                   match o with Some rf' => apply_writes c rf' r | None => apply_writes c rf r end
  end.
Definition opt_name_eqb (a b : option name) : bool :=
  match a, b with Some x, Some y => name_eqb x y | None, None => true | _, _ => false end.
Fixpoint last_write (c : ctx_table) (m : name) (ops : list (name * Z)) (acc : option Z) : option Z :=
  match ops with
  | [] => acc
  | (n, v) :: r => last_write c m r (if opt_name_eqb (memoize c n) (memoize c m) then Some v else acc)
  end.

(* MinidumpContext::read: which context type is chosen.
   `match md::ProcessorArchitecture::from_u16(system_info.raw.processor_architecture)`: the first arm that matches the
   architecture number (no arm: `_ => Err(UnknownCpuContext)`, also for numbers from_u16 does not know); the arm reads its
   CONTEXT_* type from the bytes (`gread_with`: a buffer shorter than the struct is a ReadFailure), computes
   `ContextFlagsCpu::from_flags(ctx.context_flags [as u32])` = from_bits_truncate(flags & CONTEXT_CPU_MASK) and compares it
   with the arm's constant: equal -> the context wrapped in the arm's variant (validity All), else ReadFailure.
   [flags_of a] is the value of the context_flags field the arm's type finds in the bytes. *)
Inductive read_result := RVariant (v : name) | RReadFailure | RUnknownCpu.
Definition find_read_arm (arms : list read_arm) (arch : Z) : option read_arm :=
  find (fun a => existsb (Z.eqb arch) (ra_archs a)) arms.
Definition cpu_from_flags (mask allbits flags : Z) : Z := Z.land (Z.land (flags mod 2 ^ 32) mask) allbits.
Definition read_dispatch (arms : list read_arm) (mask allbits arch len : Z) (flags_of : read_arm -> Z) : read_result :=
  match find_read_arm arms arch with
  | None => RUnknownCpu
  | Some a => if len <? ra_size a then RReadFailure
              else if cpu_from_flags mask allbits (flags_of a) =? ra_flag a then RVariant (ra_variant a) else RReadFailure
  end.

(* Deserialisation (scroll's derive(Pread): fields in declared order, packed; little- or big-endian): the register file a
   context read from [bytes] holds.  [ct_fields] carries every integer field's element width, array length and byte offset
   (regenerated from format.rs). *)
Fixpoint decode_le (bytes : Z -> Z) (off : Z) (n : nat) : Z :=
  match n with O => 0 | S k => bytes off + 256 * decode_le bytes (off + 1) k end.
Fixpoint decode_be (bytes : Z -> Z) (off : Z) (n : nat) (acc : Z) : Z :=
  match n with O => acc | S k => decode_be bytes (off + 1) k (acc * 256 + bytes off) end.
Definition decode (big : bool) (bytes : Z -> Z) (off : Z) (n : nat) : Z :=
  if big then decode_be bytes off n 0 else decode_le bytes off n.
Fixpoint field_layout (f : name) (fs : list (name * Z * Z * Z)) : option (Z * Z * Z) :=   (* width, array length or -1, offset *)
  match fs with
  | [] => None
  | (g, w, n, off) :: r => if name_eqb f g then Some (w, n, off) else field_layout f r
  end.
(* first byte of the element a location denotes *)
Definition loc_offset (c : ctx_table) (l : loc) : option Z :=
  match field_layout (l_field l) (ct_fields c) with
  | Some (w, _, off) => Some (off + (if l_idx l <? 0 then 0 else l_idx l) * (w / 8))
  | None => None
  end.
Definition decode_base (c : ctx_table) (big : bool) (bytes : Z -> Z) : regfile :=
  fun f i => match field_layout f (ct_fields c) with
             | Some (w, _, off) => decode big bytes (off + (if i <? 0 then 0 else i) * (w / 8)) (Z.to_nat (w / 8))
             | None => 0
             end.
