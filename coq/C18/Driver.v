(* C18/Driver.v — entry point of the correspondence run (extracted to OCaml): the model,
   driven by the generated tables, answers what harness/src/bin/c18.rs observes on the
   live methods.  Two base register files:
   - pattern mode (no fill): every location holds its own negative sentinel (the harness starts
     from a byte pattern whose layout the model does not know; there every field is distinct too);
   - fill mode: every 32-bit word of the context is the case's fill word W, so every integer
     field of width w holds W repeated ([fill_value]); the fields and their widths come from
     the generated [ct_fields].  This is how the flag-like fields (cpsr, eflags, ...) take
     every bit pattern without any field being named.
   An explicit context_flags value is written over either.  set_register(name, value) is then
   applied; a value is shown as "B" when the same read returned the same value before. *)
From RM Require Import C18.Model Gen.ContextTables.
Open Scope Z_scope.

Inductive cell :=
| CName (n : name) | CNum (z : Z) | CB | CN | CP
| CNames (l : list name) | CSorted (l : list name) | CPairs (l : list (name * Z)).

Definition fill_value (w fill : Z) : Z :=
  (fill * (1 + 2 ^ 32 + 2 ^ 64 + 2 ^ 96)) mod 2 ^ w.
Fixpoint field_width (f : name) (fs : list (name * Z * Z)) : option Z :=
  match fs with
  | [] => None
  | (g, w, _) :: r => if name_eqb f g then Some w else field_width f r
  end.
Definition n_context_flags : name := [99; 111; 110; 116; 101; 120; 116; 95; 102; 108; 97; 103; 115].
(* pattern mode: a distinct negative sentinel per location (the harness's pattern gives every
   field a distinct value too, so "still the base value" means the same on both sides) *)
Definition sentinel : regfile :=
  fun f i => - (fold_left (fun a b => a * 256 + b) f 0) * 1024 - i - 2.
Definition base_of (c : ctx_table) (fill flags : option Z) : regfile :=
  let rf0 : regfile :=
    match fill with
    | None => sentinel
    | Some w32 => fun f _ => match field_width f (ct_fields c) with Some w => fill_value w w32 | None => -1 end
    end in
  match flags, field_width n_context_flags (ct_fields c) with
  | Some fl, Some w => upd rf0 (mkloc n_context_flags (-1) w (-1)) (fl mod 2 ^ w)
  | _, _ => rf0
  end.

Definition shown (x : outcome Z) (before : outcome Z) : cell :=
  match x, before with
  | Ret a, Ret b => if a =? b then CB else CNum a
  | Ret a, _ => CNum a
  | _, _ => CP
  end.
Definition shown_opt (x : outcome (option Z)) (before : outcome Z) : cell :=
  match x with
  | Ret (Some a) => shown (Ret a) before
  | Ret None => CN
  | _ => CP
  end.
Definition cell_names (o : outcome (list (name * Z))) (sorted : bool) : cell :=
  match o with
  | Ret l => if sorted then CSorted (map fst l) else CNames (map fst l)
  | _ => CP
  end.
Fixpoint changed (c : ctx_table) (rf0 rf : regfile) (rs : list name) : list (name * Z) :=
  match rs with
  | [] => []
  | r :: t => match get_always c rf r, get_always c rf0 r with
              | Ret x, Ret b => if x =? b then changed c rf0 rf t else (r, x) :: changed c rf0 rf t
              | _, _ => changed c rf0 rf t
              end
  end.
Definition same (a b : outcome Z) : bool :=
  match a, b with Ret x, Ret y => x =? y | _, _ => false end.

Definition find_ctx (variant : name) : option ctx_table :=
  find (fun c => name_eqb (ct_variant c) variant) all_contexts.

Definition run_case (variant n : name) (v : validity) (value : Z) (flags fill : option Z) : option (list cell) :=
  match find_ctx variant with
  | None => None
  | Some c =>
      let base := base_of c fill flags in
      let st := set_reg c base n value in
      let rf1 := match st with Ret (Some rf') => rf' | _ => base end in
      let before := get_always c base n in
      let ga := get_always c rf1 n in
      Some [
        match memoize c n with Some m => CName m | None => CN end;                 (* mz *)
        match st with Ret (Some _) => CNum 1 | Ret None => CNum 0 | _ => CP end;   (* st *)
        shown ga before;                                                           (* ga *)
        shown_opt (get_register c rf1 n VAll) before;                              (* gA *)
        shown_opt (get_register c rf1 n v) before;                                 (* gr *)
        CNum (if is_valid c n v then 1 else 0);                                    (* iv *)
        CPairs (changed c base rf1 (ct_registers c));                              (* ch *)
        shown (md_stack_pointer c rf1) (md_stack_pointer c base);                  (* sp *)
        shown (md_instruction_pointer c rf1) (md_instruction_pointer c base);      (* ip *)
        CName (ct_sp_name c); CName (ct_ip_name c);                                (* spn ipn *)
        cell_names (md_registers c rf1) false;                                     (* rn *)
        cell_names (md_valid_registers c rf1 v) false;                             (* vn *)
        cell_names (cpu_valid_registers c rf1 VAll) false;                         (* cr *)
        cell_names (cpu_valid_registers c rf1 v) true;                             (* cv *)
        CNum (register_size c);                                                    (* sz *)
        match format_register c rf1 n, ga, before with                             (* fm *)
        | Ret s, Ret x, Ret b => if x =? b then CB else CName s
        | Ret s, _, _ => CName s
        | _, _, _ => CP
        end;
        shown_opt (md_get_register c rf1 n v) before;                              (* mg *)
        shown (md_get_always c rf1 n) before;                                      (* mga *)
        (* the dedicated accessors against the by-name reads, before and after the set *)
        CNum (if same (md_stack_pointer c base) (get_always c base (ct_sp_name c)) &&
                 same (md_stack_pointer c rf1) (get_always c rf1 (ct_sp_name c)) then 1 else 0);             (* sa *)
        CNum (if same (md_instruction_pointer c base) (get_always c base (ct_ip_name c)) &&
                 same (md_instruction_pointer c rf1) (get_always c rf1 (ct_ip_name c)) then 1 else 0)        (* ia *)
      ]
  end.
