(* C18/Driver.v — entry point of the correspondence run (extracted to OCaml): the model,
   driven by the generated tables, answers what harness/src/bin/c18.rs observes on the
   live methods.  The base register file holds the sentinel -1 everywhere ("B" = still
   the base value); set_register(name, value) is applied to it. *)
From RM Require Import C18.Model Gen.ContextTables.
Open Scope Z_scope.

Inductive cell :=
| CName (n : name) | CNum (z : Z) | CB | CN | CP
| CNames (l : list name) | CSorted (l : list name) | CPairs (l : list (name * Z))
| CFmt (z : Z) (digits : Z).

Definition base : regfile := fun _ _ => -1.
Definition num (z : Z) : cell := if z =? -1 then CB else CNum z.
Definition cell_out (o : outcome Z) : cell :=
  match o with Ret x => num x | _ => CP end.
Definition cell_opt (o : outcome (option Z)) : cell :=
  match o with Ret (Some x) => num x | Ret None => CN | _ => CP end.
Definition cell_names (o : outcome (list (name * Z))) (sorted : bool) : cell :=
  match o with
  | Ret l => if sorted then CSorted (map fst l) else CNames (map fst l)
  | _ => CP
  end.
Fixpoint changed (c : ctx_table) (rf : regfile) (rs : list name) : list (name * Z) :=
  match rs with
  | [] => []
  | r :: t => match get_always c rf r with
              | Ret x => if x =? -1 then changed c rf t else (r, x) :: changed c rf t
              | _ => changed c rf t
              end
  end.

Definition find_ctx (variant : name) : option ctx_table :=
  find (fun c => name_eqb (ct_variant c) variant) all_contexts.

Definition k (s : list Z) : name := s.

Definition run_case (variant n : name) (v : validity) (value : Z) : option (list cell) :=
  match find_ctx variant with
  | None => None
  | Some c =>
      let st := set_reg c base n value in
      let rf1 := match st with Ret (Some rf') => rf' | _ => base end in
      let ga := get_always c rf1 n in
      Some [
        match memoize c n with Some m => CName m | None => CN end;                 (* mz *)
        match st with Ret (Some _) => CNum 1 | Ret None => CNum 0 | _ => CP end;   (* st *)
        cell_out ga;                                                               (* ga *)
        cell_opt (get_register c rf1 n VAll);                                      (* gA *)
        cell_opt (get_register c rf1 n v);                                         (* gr *)
        CNum (if is_valid c n v then 1 else 0);                                    (* iv *)
        CPairs (changed c rf1 (ct_registers c));                                   (* ch *)
        cell_out (md_stack_pointer c rf1);                                         (* sp *)
        cell_out (md_instruction_pointer c rf1);                                   (* ip *)
        CName (ct_sp_name c); CName (ct_ip_name c);                                (* spn ipn *)
        cell_names (md_registers c rf1) false;                                     (* rn *)
        cell_names (md_valid_registers c rf1 v) false;                             (* vn *)
        cell_names (cpu_valid_registers c rf1 VAll) false;                         (* cr *)
        cell_names (cpu_valid_registers c rf1 v) true;                             (* cv *)
        CNum (register_size c);                                                    (* sz *)
        match ga with Ret x => if x =? -1 then CB else CFmt x (register_size c * 2) | _ => CP end;  (* fm *)
        cell_opt (get_register c rf1 n v)                                          (* mg *)
      ]
  end.
