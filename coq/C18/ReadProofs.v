(* C18/ReadProofs.v - MinidumpContext::read's choice of the context type (arms regenerated from the source as
   Gen.ContextTables.read_arms) against the nine register tables: from the boolean check [read_ok] to statements about
   ALL architecture numbers, buffer lengths and flag values. *)
From Coq Require Import Lia.
From RM Require Import C18.Check C18.Proofs Gen.ContextTables.
Open Scope Z_scope.

Lemma zs_eqb_eq : forall a b, zs_eqb a b = true -> a = b.
Proof.
  induction a as [|x a IH]; intros [|y b] H; cbn [zs_eqb] in H; try discriminate; [reflexivity|].
  apply andb_true_iff in H. destruct H as [H1 H2]. apply Z.eqb_eq in H1. apply IH in H2. subst. reflexivity.
Qed.
Lemma read_arm_eqb_eq : forall a b, read_arm_eqb a b = true -> a = b.
Proof.
  intros [a1 a2 a3 a4 a5 a6] [b1 b2 b3 b4 b5 b6] H. unfold read_arm_eqb in H. cbn in H.
  repeat (apply andb_true_iff in H; destruct H as [H ?]).
  apply zs_eqb_eq in H. repeat match goal with X : name_eqb _ _ = true |- _ => apply name_eqb_eq in X end.
  repeat match goal with X : (_ =? _) = true |- _ => apply Z.eqb_eq in X end. subst. reflexivity.
Qed.

Lemma find_read_arm_In : forall arms arch a, find_read_arm arms arch = Some a -> In a arms /\ In arch (ra_archs a).
Proof.
  intros arms arch a H. unfold find_read_arm in H. apply find_some in H. destruct H as [H1 H2].
  split; [exact H1|]. apply existsb_exists in H2. destruct H2 as [x [Hx E]]. apply Z.eqb_eq in E. subst x. exact Hx.
Qed.

Section Read.
Variables (cs : list ctx_table) (arms : list read_arm) (mask allbits : Z).
Hypothesis OK : read_ok cs arms mask allbits = true.

Record arm_facts (a : read_arm) : Prop := {
  af_table : exists c, In c cs /\ ra_type a = ct_name c /\ ra_variant a = ct_variant c /\
                       forallb (field_inside (ra_size a)) (ct_fields c) = true;
  af_flag_name : ra_flag_name a = ra_type a;
  af_flag_stable : cpu_from_flags mask allbits (ra_flag a) = ra_flag a;
  af_flag_pos : 0 < ra_flag a;
  af_archs : ra_archs a <> [];
  af_selects : forall arch, In arch (ra_archs a) -> find_read_arm arms arch = Some a;
  af_unique : forall b, In b arms -> ra_flag b = ra_flag a -> b = a
}.

Lemma arm_ok : forall a, In a arms -> arm_facts a.
Proof.
  intros a Ha. pose proof OK as O. unfold read_ok in O. apply andb_true_iff in O. destruct O as [O1 _].
  rewrite forallb_forall in O1. specialize (O1 a Ha). unfold read_arm_ok in O1.
  apply andb_true_iff in O1. destruct O1 as [O1 U]. apply andb_true_iff in O1. destruct O1 as [O1 S].
  apply andb_true_iff in O1. destruct O1 as [O1 NE]. apply andb_true_iff in O1. destruct O1 as [O1 P].
  apply andb_true_iff in O1. destruct O1 as [O1 ST]. apply andb_true_iff in O1. destruct O1 as [T FN].
  constructor.
  - unfold table_of_arm in T. destruct (find _ cs) as [c|] eqn:E; [|discriminate].
    apply find_some in E. destruct E as [E1 E2]. apply andb_true_iff in E2. destruct E2 as [E2 E3].
    apply name_eqb_eq in E2. apply name_eqb_eq in E3. exists c. repeat split; assumption.
  - apply name_eqb_eq. exact FN.
  - apply Z.eqb_eq. exact ST.
  - apply Z.ltb_lt. exact P.
  - intro X. rewrite X in NE. discriminate.
  - intros arch Hin. rewrite forallb_forall in S. specialize (S arch Hin).
    destruct (find_read_arm arms arch) as [b|]; [|discriminate]. apply read_arm_eqb_eq in S. rewrite S. reflexivity.
  - intros b Hb E.
    assert (Ia : In a (filter (fun x => ra_flag x =? ra_flag a) arms)) by (apply filter_In; split; [exact Ha | apply Z.eqb_refl]).
    assert (Ib : In b (filter (fun x => ra_flag x =? ra_flag a) arms)) by (apply filter_In; split; [exact Hb | apply Z.eqb_eq; exact E]).
    apply Z.eqb_eq in U. destruct (filter (fun x => ra_flag x =? ra_flag a) arms) as [|x [|y l]]; cbn [length] in U; try lia.
    destruct Ia as [Ia|[]]. destruct Ib as [Ib|[]]. congruence.
Qed.

(* soundness: whatever the architecture number, the buffer length and the bytes, a context comes out only as a variant of
   one of the tables, wrapping the type that table describes, from a buffer that holds the whole struct (all its integer
   fields lie inside), whose CPU flags are the type's own constant *)
Lemma read_sound : forall arch len flags_of v,
  read_dispatch arms mask allbits arch len flags_of = RVariant v ->
  exists c a, In c cs /\ In a arms /\ ct_variant c = v /\ ra_variant a = v /\ ra_type a = ct_name c /\ ra_flag_name a = ct_name c /\
              In arch (ra_archs a) /\ ra_size a <= len /\ cpu_from_flags mask allbits (flags_of a) = ra_flag a /\
              forallb (field_inside (ra_size a)) (ct_fields c) = true.
Proof.
  intros arch len flags_of v H. unfold read_dispatch in H.
  destruct (find_read_arm arms arch) as [a|] eqn:E; [|discriminate].
  destruct (find_read_arm_In _ _ _ E) as [Ha Harch].
  destruct (len <? ra_size a) eqn:L; [discriminate|].
  destruct (cpu_from_flags mask allbits (flags_of a) =? ra_flag a) eqn:Fl; [|discriminate].
  inversion H; subst v. destruct (arm_ok a Ha) as [[c [Hc [T [V I]]]] FN _ _ _ _ _].
  exists c, a. repeat split; try assumption; try congruence.
  - apply Z.ltb_ge in L. exact L.
  - apply Z.eqb_eq. exact Fl.
Qed.

(* completeness: every table is chosen - for some architecture number, on every buffer that holds the struct and carries
   the type's CPU constant (other flag bits outside the mask, or undefined ones, are ignored) *)
Lemma read_complete : forall c, In c cs ->
  exists a arch, In a arms /\ In arch (ra_archs a) /\ ra_type a = ct_name c /\ ra_variant a = ct_variant c /\
    forall len flags_of, ra_size a <= len -> cpu_from_flags mask allbits (flags_of a) = ra_flag a ->
      read_dispatch arms mask allbits arch len flags_of = RVariant (ct_variant c).
Proof.
  intros c Hc. pose proof OK as O. unfold read_ok in O. apply andb_true_iff in O. destruct O as [_ O2].
  rewrite forallb_forall in O2. specialize (O2 c Hc). apply existsb_exists in O2. destruct O2 as [a [Ha E]].
  apply andb_true_iff in E. destruct E as [E1 E2]. apply name_eqb_eq in E1. apply name_eqb_eq in E2.
  pose proof (arm_ok a Ha) as AF. destruct (ra_archs a) as [|arch r] eqn:A; [exfalso; exact (af_archs a AF A)|].
  exists a, arch. split; [exact Ha|]. split; [rewrite A; left; reflexivity|]. split; [exact E1|]. split; [exact E2|].
  intros len flags_of L Fl. unfold read_dispatch. rewrite (af_selects a AF arch) by (rewrite A; left; reflexivity).
  apply Z.ltb_ge in L. rewrite L. apply Z.eqb_eq in Fl. rewrite Fl, E2. reflexivity.
Qed.

(* a flags value validates at most one arm *)
Lemma read_flags_exclusive : forall a b f, In a arms -> In b arms ->
  cpu_from_flags mask allbits f = ra_flag a -> cpu_from_flags mask allbits f = ra_flag b -> a = b.
Proof. intros a b f Ha Hb Ea Eb. apply (af_unique b (arm_ok b Hb) a Ha). congruence. Qed.

(* failures: an architecture no arm matches is UnknownCpuContext whatever the bytes *)
Lemma read_unknown : forall arch len flags_of, (forall a, In a arms -> ~ In arch (ra_archs a)) ->
  read_dispatch arms mask allbits arch len flags_of = RUnknownCpu.
Proof.
  intros arch len flags_of H. unfold read_dispatch. destruct (find_read_arm arms arch) as [a|] eqn:E; [|reflexivity].
  destruct (find_read_arm_In _ _ _ E) as [Ha Hi]. exfalso. exact (H a Ha Hi).
Qed.
End Read.

(* the computational step for MinidumpContext::read: the generated arms against the nine generated tables *)
Lemma read_tables_ok : read_ok all_contexts read_arms read_cpu_mask read_cpu_all_bits = true.
Proof. vm_compute. reflexivity. Qed.
