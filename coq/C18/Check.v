(* C18/Check.v — the finite checker over the generated tables.  [diagnose c] lists every
   (problem, register name) pair; the property theorems are derived from
   [diagnose c = []] for the nine generated tables, which Coq establishes by computation.
   Definitions only. *)
From Coq Require Export String.
From RM Require Export C18.Model.
Open Scope Z_scope.

(* a dedicated accessor's body is a plain read when it is one location under widening
   casts only: no mask, no flag test, no other field *)
Fixpoint plain_read (e : aexp) : option loc :=
  match e with
  | ALoc l => Some l
  | ACast a from to => if from <=? to then plain_read a else None
  | _ => None
  end.
(* a dispatch arm forwards the CpuContext call unchanged: the call under widening casts only *)
Fixpoint plain_var (e : aexp) (x : name) : bool :=
  match e with
  | AVar y => name_eqb y x
  | ACast a from to => (from <=? to) && plain_var a x
  | _ => false
  end.
Definition plain_bvar (e : bexp) (x : name) : bool :=
  match e with BVar y => name_eqb y x | _ => false end.
Definition accepted (c : ctx_table) : list name := names_of (ct_set c).
Definition dummy_loc : loc := mkloc [] (-2) 0 (-1).
Definition acc_loc (e : aexp) : loc := match plain_read e with Some l => l | None => dummy_loc end.
Definition loc_of (c : ctx_table) (n : name) : loc :=
  match find_arm n (ct_get c) with Some e => acc_loc e | None => dummy_loc end.
Definition opt_str_eqb (a b : option name) : bool :=
  match a, b with
  | Some x, Some y => name_eqb x y
  | None, None => true
  | _, _ => false
  end.
Fixpoint count (n : name) (l : list name) : Z :=
  match l with [] => 0 | x :: r => (if name_eqb n x then 1 else 0) + count n r end.
Fixpoint strs_eqb (a b : list name) : bool :=
  match a, b with
  | [], [] => true
  | x :: a', y :: b' => name_eqb x y && strs_eqb a' b'
  | _, _ => false
  end.

Definition diag (c : ctx_table) (msg : string) (p : name -> bool) (names : list name)
  : list (name * string * name) :=
  map (fun n => (ct_name c, msg, n)) (filter (fun n => negb (p n)) names).

(* get reads plainly (no mask, no other field) the in-range location of the register width that set
   assigns, and set assigns `val` itself *)
Definition ok_tables (c : ctx_table) (n : name) : bool :=
  match find_arm n (ct_get c), find_arm n (ct_set c), find_arm n (ct_set_val c) with
  | Some e, Some b, Some sv =>
      match plain_read e with
      | Some a => loc_eqb a b && loc_ok a && loc_ok b && (l_width a =? ct_width c) && (l_width b =? ct_width c)
      | None => false
      end && plain_var sv v_val
  | _, _, _ => false
  end.
(* same canonical name <-> same location, against every other accepted name *)
Definition ok_alias (c : ctx_table) (n : name) : bool :=
  forallb (fun n2 => Bool.eqb (loc_eqb (loc_of c n) (loc_of c n2)) (opt_str_eqb (memoize c n) (memoize c n2)))
          (accepted c).
(* the names register_is_valid consults for n are exactly n's aliases *)
Definition ok_valid (c : ctx_table) (n : name) : bool :=
  forallb (fun a => opt_str_eqb (memoize c a) (memoize c n)) (alts_of c n) &&
  forallb (fun a => implb (opt_str_eqb (memoize c a) (memoize c n)) (mem a (alts_of c n))) (accepted c).
Definition ct_sp_loc (c : ctx_table) : loc := acc_loc (ct_sp_acc c).
Definition ct_ip_loc (c : ctx_table) : loc := acc_loc (ct_ip_acc c).
Definition ok_special (c : ctx_table) (acc : aexp) (n : name) : bool :=
  match find_arm n (ct_get c), plain_read acc with
  | Some g, Some l => loc_eqb (acc_loc g) l && loc_ok l
  | _, _ => false
  end && is_some (memoize c n).
Definition ok_register (c : ctx_table) (r : name) : bool :=
  opt_str_eqb (memoize c r) (Some r) && (count r (ct_registers c) =? 1).

Definition src_is_list (s : names_src) (l : list name) : bool :=
  match s with NList l' => strs_eqb l' l | NSet => false end.
Definition src_is_set (s : names_src) : bool := match s with NSet => true | NList _ => false end.

Definition has_upper (n : name) : bool := existsb (fun b => (65 <=? b) && (b <=? 90)) n.

Definition diagnose (c : ctx_table) : list (name * string * name) :=
  diag c "get_register_always / set_register: different location, index out of range, wrong width, a read that is not the plain location, or an assignment of something else than val"%string
       (ok_tables c) (names_of (ct_get c) ++ names_of (ct_set c)) ++
  diag c "accepted by set_register / get_register_always but rejected by memoize_register (the checked accessor reports it absent)"%string
       (fun n => is_some (memoize c n)) (accepted c) ++
  diag c "accepted by memoize_register but not by set_register"%string
       (fun n => is_some (find_arm n (ct_set c))) (ct_registers c ++ names_of (ct_memo c)) ++
  diag c "memoize_register maps an alias to a name that is not in REGISTERS"%string
       (fun m => mem m (ct_registers c)) (map snd (ct_memo c)) ++
  diag c "alias / location mismatch: same canonical name must mean same location, and conversely"%string
       (ok_alias c) (accepted c) ++
  diag c "register_is_valid does not consult exactly the aliases of this name"%string
       (ok_valid c) (accepted c) ++
  diag c "register_is_valid has an arm for a name memoize_register rejects"%string
       (fun n => is_some (memoize c n)) (names_of (ct_groups c)) ++
  diag c "MinidumpContext::get_stack_pointer is not a plain read of the location stack_pointer_register_name denotes (another location, a mask, or a value that depends on another field)"%string
       (ok_special c (ct_sp_acc c)) [ct_sp_name c] ++
  diag c "MinidumpContext::get_instruction_pointer is not a plain read of the location instruction_pointer_register_name denotes (another location, a mask, or a value that depends on another field)"%string
       (ok_special c (ct_ip_acc c)) [ct_ip_name c] ++
  diag c "REGISTERS entry is duplicated or memoize_register maps it to another name"%string
       (ok_register c) (ct_registers c) ++
  diag c "general_purpose_registers() is not this type's REGISTERS"%string
       (fun _ => strs_eqb (ct_gpr c) (ct_registers c)) [ct_variant c] ++
  diag c "register_is_valid under validity All is not exactly memoize_register(reg).is_some()"%string
       (fun _ => plain_bvar (ct_valid_all c) v_memo) [ct_name c] ++
  diag c "register_is_valid under Some(which), for a name without an arm of its own, is not exactly which.contains(reg)"%string
       (fun _ => plain_bvar (ct_valid_default c) v_contains) [ct_name c] ++
  diag c "get_register does not read exactly when register_is_valid(reg, valid) holds"%string
       (fun _ => plain_bvar (ct_get_cond c) v_iv) [ct_name c] ++
  diag c "MinidumpContext::get_register_always does not forward this type's get_register_always unchanged"%string
       (fun _ => plain_var (ct_md_get c) v_ga) [ct_variant c] ++
  diag c "MinidumpContext::get_register does not test exactly this type's register_is_valid(reg, &self.valid)"%string
       (fun _ => plain_bvar (ct_md_valid c) v_iv) [ct_variant c] ++
  diag c "MinidumpContext::valid_registers does not filter by exactly this type's register_is_valid(reg, &self.valid)"%string
       (fun _ => plain_bvar (ct_md_filter c) v_iv) [ct_variant c] ++
  diag c "format_register is not the prefix 0x followed by the value in hex, zero-padded to 2 digits per byte"%string
       (fun _ => name_eqb (ct_fmt_prefix c) [48; 120] && ct_fmt_zero c && (ct_fmt_mul c =? 2)) [ct_name c] ++
  diag c "type Register is neither u32 nor u64"%string
       (fun _ => (ct_width c =? 32) || (ct_width c =? 64)) [ct_name c] ++
  diag c "default_memoize_register does not compare names exactly: a spelling set_register / get_register_always do not know (they match string literals) would be reported present"%string
       (fun _ => ct_memo_cmp c =? 0) [ct_name c] ++
  diag c "a register name or alias contains an upper-case ASCII letter"%string
       (fun n => negb (has_upper n)) (accepted c) ++
  diag c "memoize_register's default (default_memoize_register(<T>::REGISTERS, reg)) searches another table than this type's REGISTERS"%string
       (fun _ => strs_eqb (ct_memo_tbl c) (ct_registers c)) [ct_name c] ++
  diag c "CpuContext::valid_registers / registers under validity All does not iterate exactly this type's REGISTERS"%string
       (fun _ => src_is_list (ct_iter_all c) (ct_registers c)) [ct_name c] ++
  diag c "CpuContext::valid_registers under Some(valid) does not iterate the members of the set"%string
       (fun _ => src_is_set (ct_iter_some c)) [ct_name c] ++
  diag c "CpuRegisters::next skips names (nth instead of next) or pairs a name with something else than get_register_always(name)"%string
       (fun _ => (ct_next_slice c =? 0) && (ct_next_set c =? 0) && plain_var (ct_next_val c) v_ga) [ct_name c] ++
  diag c "MinidumpContext::registers does not pair each name with get_register_always(name) unchanged"%string
       (fun _ => plain_var (ct_md_regs_val c) v_mga) [ct_variant c] ++
  diag c "MinidumpContext::register_size is not size_of::<Register>() of this variant's type"%string
       (fun _ => plain_var (ct_md_size c) v_size) [ct_variant c].

(* MinidumpContext::read's arms against the nine tables.  An arm is fine when the type it reads and the variant it wraps it
   in are those of one table, the CPU constant it tests is the one named like the type, that constant survives from_flags
   (inside the CPU mask, a defined bit), the struct size holds every integer field of the table, and each of its architecture
   numbers selects this very arm (no earlier arm takes it); every table is chosen by some arm; no two arms test the same
   constant *)
Fixpoint zs_eqb (a b : list Z) : bool :=
  match a, b with
  | [], [] => true
  | x :: a', y :: b' => (x =? y) && zs_eqb a' b'
  | _, _ => false
  end.
Definition read_arm_eqb (a b : read_arm) : bool :=
  zs_eqb (ra_archs a) (ra_archs b) && name_eqb (ra_type a) (ra_type b) && name_eqb (ra_variant a) (ra_variant b) &&
  name_eqb (ra_flag_name a) (ra_flag_name b) && (ra_flag a =? ra_flag b) && (ra_size a =? ra_size b).
Definition table_of_arm (cs : list ctx_table) (a : read_arm) : option ctx_table :=
  find (fun c => name_eqb (ra_type a) (ct_name c) && name_eqb (ra_variant a) (ct_variant c)) cs.
Definition field_inside (size : Z) (f : name * Z * Z * Z) : bool :=
  match f with (_, w, n, off) => (0 <=? off) && (off + (w / 8) * (if n <? 0 then 1 else n) <=? size) end.
Definition read_arm_ok (cs : list ctx_table) (arms : list read_arm) (mask allbits : Z) (a : read_arm) : bool :=
  match table_of_arm cs a with
  | Some c => forallb (field_inside (ra_size a)) (ct_fields c)
  | None => false
  end &&
  name_eqb (ra_flag_name a) (ra_type a) && (cpu_from_flags mask allbits (ra_flag a) =? ra_flag a) && (0 <? ra_flag a) &&
  negb (match ra_archs a with [] => true | _ => false end) &&
  forallb (fun arch => match find_read_arm arms arch with
                       | Some b => read_arm_eqb b a
                       | None => false
                       end) (ra_archs a) &&
  (Z.of_nat (length (filter (fun b => ra_flag b =? ra_flag a) arms)) =? 1).
Definition read_ok (cs : list ctx_table) (arms : list read_arm) (mask allbits : Z) : bool :=
  forallb (read_arm_ok cs arms mask allbits) arms &&
  forallb (fun c => existsb (fun a => name_eqb (ra_type a) (ct_name c) && name_eqb (ra_variant a) (ct_variant c)) arms) cs.

(* for reading a diagnosis: names back to text *)
Definition show (n : name) : string :=
  fold_right (fun z acc => String (Ascii.ascii_of_nat (Z.to_nat z)) acc) EmptyString n.
Definition show_diag (d : name * string * name) : string * string * string :=
  (show (fst (fst d)), snd (fst d), show (snd d)).
