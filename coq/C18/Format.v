(* C18/Format.v — format_register: the rendering denotes the value (hex_val inverts it), for
   every non-negative value and every minimum width. *)
From Coq Require Import Lia.
From RM Require Import C18.Model.
Open Scope Z_scope.

Lemma hex_fixed_length : forall d v acc, length (hex_fixed d v acc) = (d + length acc)%nat.
Proof.
  induction d as [|d IH]; intros v acc; [reflexivity|].
  cbn [hex_fixed]. rewrite IH. cbn [length]. lia.
Qed.

Lemma hex_digit_val_digit : forall d, 0 <= d < 16 -> hex_digit_val (hex_digit d) = d.
Proof.
  intros d H. unfold hex_digit, hex_digit_val.
  destruct (d <? 10) eqn:E.
  - apply Z.ltb_lt in E. assert (X : 48 + d <? 58 = true) by (apply Z.ltb_lt; lia). rewrite X. lia.
  - apply Z.ltb_ge in E. assert (X : 87 + d <? 58 = false) by (apply Z.ltb_ge; lia). rewrite X. lia.
Qed.

Definition hex_step (a b : Z) : Z := a * 16 + hex_digit_val b.

Lemma hex_fixed_fold : forall d v acc a, 0 <= v ->
  fold_left hex_step (hex_fixed d v acc) a = fold_left hex_step acc (a * 16 ^ Z.of_nat d + v mod 16 ^ Z.of_nat d).
Proof.
  induction d as [|d IH]; intros v acc a Hv.
  - cbn [hex_fixed]. change (16 ^ Z.of_nat 0) with 1. rewrite Z.mod_1_r. f_equal. lia.
  - cbn [hex_fixed]. rewrite IH by (apply Z.div_pos; lia).
    cbn [fold_left]. f_equal. unfold hex_step.
    rewrite hex_digit_val_digit by (apply Z.mod_pos_bound; lia).
    rewrite Nat2Z.inj_succ, Z.pow_succ_r by lia.
    rewrite (Z.rem_mul_r v 16 (16 ^ Z.of_nat d)) by lia. lia.
Qed.

Lemma hex_val_fixed : forall d v, 0 <= v -> hex_val (hex_fixed d v []) = v mod 16 ^ Z.of_nat d.
Proof.
  intros d v Hv. unfold hex_val. change (fun a b => a * 16 + hex_digit_val b) with hex_step.
  rewrite hex_fixed_fold by exact Hv. cbn [fold_left]. lia.
Qed.

Lemma ndigits_bound : forall v, 0 <= v -> v < 16 ^ Z.of_nat (ndigits v).
Proof.
  intros v Hv. unfold ndigits. destruct (v <=? 0) eqn:E.
  - apply Z.leb_le in E. assert (v = 0) by lia. subst. reflexivity.
  - apply Z.leb_gt in E. pose proof (Z.log2_nonneg v) as L.
    rewrite Z2Nat.id by (pose proof (Z.div_pos (Z.log2 v) 4 L); lia).
    change 16 with (2 ^ 4). rewrite <- Z.pow_mul_r by (try lia; pose proof (Z.div_pos (Z.log2 v) 4 L); lia).
    destruct (Z.log2_spec v E) as [_ U].
    eapply Z.lt_le_trans; [exact U|]. apply Z.pow_le_mono_r; [lia|].
    pose proof (Z.mul_succ_div_gt (Z.log2 v) 4). lia.
Qed.

Lemma hex_val_min : forall d v, 0 <= v ->
  hex_val (hex_min d v) = v /\ (d <= length (hex_min d v))%nat /\
  ((1 <= d)%nat -> v < 16 ^ Z.of_nat d -> length (hex_min d v) = d).
Proof.
  intros d v Hv. unfold hex_min. split; [|split].
  - rewrite hex_val_fixed by exact Hv. apply Z.mod_small. split; [exact Hv|].
    eapply Z.lt_le_trans; [exact (ndigits_bound v Hv)|].
    apply Z.pow_le_mono_r; [lia|]. lia.
  - rewrite hex_fixed_length. cbn [length]. lia.
  - intros H1 Hd. rewrite hex_fixed_length. cbn [length].
    assert (ndigits v <= d)%nat; [|lia].
    unfold ndigits. destruct (v <=? 0) eqn:E.
    + exact H1.
    + apply Z.leb_gt in E. pose proof (Z.log2_nonneg v) as L.
      destruct (Z.log2_spec v E) as [Lo _].
      assert (X : Z.log2 v < 4 * Z.of_nat d).
      { apply (Z.pow_lt_mono_r_iff 2); [lia | lia|]. rewrite Z.pow_mul_r by lia. change (2 ^ 4) with 16. lia. }
      assert (Y : Z.log2 v / 4 < Z.of_nat d) by (apply Z.div_lt_upper_bound; lia).
      pose proof (Z.div_pos (Z.log2 v) 4 L). lia.
Qed.
