(* C18/Properties.v — property theorems only.
   Domain: [c] ranges over the nine tables that translate/context_tables.py regenerates from
   context.rs / format.rs on every run ([all_contexts]); register names range over the
   finite sets the tables mention ([accepted c] = every pattern of set_register) or, where
   stated, over ALL byte strings.  Register files [rf], values [v] and validity sets [s]
   are unrestricted (unbounded). *)
From RM Require Import C18.Check C18.Proofs C18.ReadProofs Gen.ContextTables.
From RM Require C18.Driver.
Open Scope Z_scope.

(* membership in a concrete list, by walking it (no normalisation of the whole list of tables) *)
Ltac in_list := repeat (first [left; reflexivity | right]).

(* the generated tables pass the finite checker (the one computational obligation) *)
Theorem c18_tables_checked : forall c, In c all_contexts -> diagnose c = [].
Proof.
  intros c Hc. apply (concat_nil_each _ _ (map_eq_nil _ _ tables_diagnosis_empty)). apply in_map. exact Hc.
Qed.
Print Assumptions c18_tables_checked.

(* after set_register n v: get_register_always n = v, the checked get_register n = Some v,
   no other location changes, every alias of n reads v, every other name reads what it read *)
Theorem c18_set_get : forall c, In c all_contexts -> forall n, In n (accepted c) -> forall rf v,
  exists l, find_arm n (ct_set c) = Some l /\ loc_ok l = true /\
    set_reg c rf n v = Ret (Some (upd rf l v)) /\
    get_always c (upd rf l v) n = Ret v /\
    get_register c (upd rf l v) n VAll = Ret (Some v) /\
    (forall f i, name_eqb f (l_field l) && (i =? l_idx l) = false -> upd rf l v f i = rf f i) /\
    (forall m, In m (accepted c) -> memoize c m = memoize c n -> get_always c (upd rf l v) m = Ret v) /\
    (forall m, In m (accepted c) -> memoize c m <> memoize c n ->
               get_always c (upd rf l v) m = get_always c rf m).
Proof. intros c Hc. exact (set_get c (all_facts c Hc)). Qed.
Print Assumptions c18_set_get.

(* an alias and its canonical name denote the same location and read the same value in every
   register file; ALL strings n *)
Theorem c18_aliases_same_location : forall c, In c all_contexts -> forall n m, memoize c n = Some m ->
  In n (accepted c) /\ In m (accepted c) /\
  loc_eqb (loc_of c n) (loc_of c m) = true /\
  (forall rf, get_always c rf n = Ret (rf_get rf (loc_of c n)) /\ get_always c rf m = Ret (rf_get rf (loc_of c n))) /\
  memoize c m = Some m /\ In m (ct_registers c).
Proof. intros c Hc. exact (aliases_same_location c (all_facts c Hc)). Qed.
Print Assumptions c18_aliases_same_location.

(* ... and among the accepted names: same location exactly when same canonical name *)
Theorem c18_alias_iff_location : forall c, In c all_contexts -> forall n m,
  In n (accepted c) -> In m (accepted c) ->
  (loc_eqb (loc_of c n) (loc_of c m) = true <-> memoize c n = memoize c m).
Proof. intros c Hc. exact (alias_loc c (all_facts c Hc)). Qed.
Print Assumptions c18_alias_iff_location.

(* ALL strings n: a name memoize_register rejects reads as None through the checked
   accessor (validity All, or any set of known names) and is refused by set_register —
   never a panic; a name it accepts never reaches the unreachable!() arm *)
Theorem c18_unknown_absent_no_panic : forall c, In c all_contexts -> forall n,
  (memoize c n = None ->
     (forall rf, get_register c rf n VAll = Ret None) /\
     (forall rf v, set_reg c rf n v = Ret None) /\
     (forall rf s, (forall a, In a s -> memoize c a <> None) -> get_register c rf n (VSome s) = Ret None)) /\
  (forall m, memoize c n = Some m -> forall rf,
     get_always c rf n = Ret (rf_get rf (loc_of c n)) /\
     get_register c rf n VAll = Ret (Some (rf_get rf (loc_of c n)))).
Proof.
  intros c Hc n. split.
  - exact (unknown_absent c (all_facts c Hc) n).
  - intros m H. exact (known_no_panic c (all_facts c Hc) n m H).
Qed.
Print Assumptions c18_unknown_absent_no_panic.

(* ALL strings n: only the exact spellings in the tables are known.  A string that is not one of
   set_register's patterns is absent everywhere (memoize_register, the checked read under All,
   set_register, register_is_valid) ... *)
Theorem c18_exact_names_only : forall c, In c all_contexts -> forall n, ~ In n (accepted c) ->
  memoize c n = None /\ is_valid c n VAll = false /\
  (forall rf, get_register c rf n VAll = Ret None) /\ (forall rf v, set_reg c rf n v = Ret None).
Proof.
  intros c Hc n Hn. pose proof (all_facts c Hc) as F. pose proof (not_accepted_unknown c F n Hn) as M.
  destruct (unknown_absent c F n M) as [A [B _]].
  split; [exact M|]. split; [rewrite (is_valid_all c F), M; reflexivity|]. split; assumption.
Qed.
Print Assumptions c18_exact_names_only.

(* ... in particular names are case-sensitive: a string that differs from a known name or alias
   only in ASCII case ("RIP", "Eip", "SP", "X0", "G_R14") is unknown - absent, refused, never a panic.
   (default_memoize_register's comparison is regenerated from the source as [ct_memo_cmp];
   get_register_always / set_register match string literals.) *)
Theorem c18_case_sensitive : forall c, In c all_contexts -> forall n m,
  In m (accepted c) -> n <> m -> map lower n = map lower m ->
  memoize c n = None /\ is_valid c n VAll = false /\
  (forall rf, get_register c rf n VAll = Ret None) /\ (forall rf v, set_reg c rf n v = Ret None).
Proof.
  intros c Hc n m Hm Hne Hl. apply (c18_exact_names_only c Hc).
  exact (case_variant_not_accepted c (all_facts c Hc) n m Hm Hne Hl).
Qed.
Print Assumptions c18_case_sensitive.

(* the DOCUMENTED aliases and special registers, written out here (not taken from the source): ARM r11 / r13 / r14 / r15 = fp / sp / lr / pc,
   ARM64 (both layouts) x29 / x30 = fp / lr, SPARC gN / oN / lN / iN = g_rN / g_r(8+N) / g_r(16+N) / g_r(24+N); the stack / instruction pointer
   register of each type.  memoize_register maps each alias to exactly that register, both spellings denote one location, and the
   sp / ip register names are the documented ones *)
Definition documented_aliases : list (name * name * name) :=   (* variant, alias, register *)
  [([65; 114; 109], [114; 49; 49], [102; 112]);
   ([65; 114; 109], [114; 49; 51], [115; 112]);
   ([65; 114; 109], [114; 49; 52], [108; 114]);
   ([65; 114; 109], [114; 49; 53], [112; 99]);
   ([65; 114; 109; 54; 52], [120; 50; 57], [102; 112]);
   ([65; 114; 109; 54; 52], [120; 51; 48], [108; 114]);
   ([79; 108; 100; 65; 114; 109; 54; 52], [120; 50; 57], [102; 112]);
   ([79; 108; 100; 65; 114; 109; 54; 52], [120; 51; 48], [108; 114]);
   ([83; 112; 97; 114; 99], [103; 48], [103; 95; 114; 48]);
   ([83; 112; 97; 114; 99], [111; 48], [103; 95; 114; 56]);
   ([83; 112; 97; 114; 99], [108; 48], [103; 95; 114; 49; 54]);
   ([83; 112; 97; 114; 99], [105; 48], [103; 95; 114; 50; 52]);
   ([83; 112; 97; 114; 99], [103; 49], [103; 95; 114; 49]);
   ([83; 112; 97; 114; 99], [111; 49], [103; 95; 114; 57]);
   ([83; 112; 97; 114; 99], [108; 49], [103; 95; 114; 49; 55]);
   ([83; 112; 97; 114; 99], [105; 49], [103; 95; 114; 50; 53]);
   ([83; 112; 97; 114; 99], [103; 50], [103; 95; 114; 50]);
   ([83; 112; 97; 114; 99], [111; 50], [103; 95; 114; 49; 48]);
   ([83; 112; 97; 114; 99], [108; 50], [103; 95; 114; 49; 56]);
   ([83; 112; 97; 114; 99], [105; 50], [103; 95; 114; 50; 54]);
   ([83; 112; 97; 114; 99], [103; 51], [103; 95; 114; 51]);
   ([83; 112; 97; 114; 99], [111; 51], [103; 95; 114; 49; 49]);
   ([83; 112; 97; 114; 99], [108; 51], [103; 95; 114; 49; 57]);
   ([83; 112; 97; 114; 99], [105; 51], [103; 95; 114; 50; 55]);
   ([83; 112; 97; 114; 99], [103; 52], [103; 95; 114; 52]);
   ([83; 112; 97; 114; 99], [111; 52], [103; 95; 114; 49; 50]);
   ([83; 112; 97; 114; 99], [108; 52], [103; 95; 114; 50; 48]);
   ([83; 112; 97; 114; 99], [105; 52], [103; 95; 114; 50; 56]);
   ([83; 112; 97; 114; 99], [103; 53], [103; 95; 114; 53]);
   ([83; 112; 97; 114; 99], [111; 53], [103; 95; 114; 49; 51]);
   ([83; 112; 97; 114; 99], [108; 53], [103; 95; 114; 50; 49]);
   ([83; 112; 97; 114; 99], [105; 53], [103; 95; 114; 50; 57]);
   ([83; 112; 97; 114; 99], [103; 54], [103; 95; 114; 54]);
   ([83; 112; 97; 114; 99], [111; 54], [103; 95; 114; 49; 52]);
   ([83; 112; 97; 114; 99], [108; 54], [103; 95; 114; 50; 50]);
   ([83; 112; 97; 114; 99], [105; 54], [103; 95; 114; 51; 48]);
   ([83; 112; 97; 114; 99], [103; 55], [103; 95; 114; 55]);
   ([83; 112; 97; 114; 99], [111; 55], [103; 95; 114; 49; 53]);
   ([83; 112; 97; 114; 99], [108; 55], [103; 95; 114; 50; 51]);
   ([83; 112; 97; 114; 99], [105; 55], [103; 95; 114; 51; 49])].
Definition documented_sp_ip : list (name * name * name) :=     (* variant, stack pointer register, instruction pointer register *)
  [([88; 56; 54], [101; 115; 112], [101; 105; 112]);
   ([65; 109; 100; 54; 52], [114; 115; 112], [114; 105; 112]);
   ([65; 114; 109], [115; 112], [112; 99]);
   ([65; 114; 109; 54; 52], [115; 112], [112; 99]);
   ([79; 108; 100; 65; 114; 109; 54; 52], [115; 112], [112; 99]);
   ([80; 112; 99], [114; 49], [115; 114; 114; 48]);
   ([80; 112; 99; 54; 52], [114; 49], [115; 114; 114; 48]);
   ([83; 112; 97; 114; 99], [103; 95; 114; 49; 52], [112; 99]);
   ([77; 105; 112; 115], [115; 112], [112; 99])].
Theorem c18_documented_aliases :
  (forall v a r, In (v, a, r) documented_aliases ->
     exists c, In c all_contexts /\ ct_variant c = v /\ memoize c a = Some r /\ memoize c r = Some r /\
               loc_eqb (loc_of c a) (loc_of c r) = true) /\
  (forall v s i, In (v, s, i) documented_sp_ip ->
     exists c, In c all_contexts /\ ct_variant c = v /\ ct_sp_name c = s /\ ct_ip_name c = i) /\
  (* and there are no other aliases: every memoize_register arm of every table is in the list *)
  (forall c, In c all_contexts -> forall a r, find_arm a (ct_memo c) = Some r -> In (ct_variant c, a, r) documented_aliases).
Proof.
  split; [|split].
  - assert (H : forallb (fun e => match e with (v, a, r) =>
                existsb (fun c => name_eqb (ct_variant c) v && opt_str_eqb (memoize c a) (Some r) && opt_str_eqb (memoize c r) (Some r) &&
                                  loc_eqb (loc_of c a) (loc_of c r)) all_contexts end) documented_aliases = true) by (vm_compute; reflexivity).
    intros v a r Hin. rewrite forallb_forall in H. specialize (H _ Hin). cbv beta iota in H.
    apply existsb_exists in H. destruct H as [c [Hc X]].
    apply andb_true_iff in X. destruct X as [X L]. apply andb_true_iff in X. destruct X as [X M2].
    apply andb_true_iff in X. destruct X as [V M1].
    exists c. split; [exact Hc|]. split; [apply name_eqb_eq; exact V|].
    split; [apply opt_str_eqb_spec; exact M1|]. split; [apply opt_str_eqb_spec; exact M2 | exact L].
  - assert (H : forallb (fun e => match e with (v, s, i) =>
                existsb (fun c => name_eqb (ct_variant c) v && name_eqb (ct_sp_name c) s && name_eqb (ct_ip_name c) i) all_contexts end)
                documented_sp_ip = true) by (vm_compute; reflexivity).
    intros v s i Hin. rewrite forallb_forall in H. specialize (H _ Hin). cbv beta iota in H.
    apply existsb_exists in H. destruct H as [c [Hc X]].
    apply andb_true_iff in X. destruct X as [X I]. apply andb_true_iff in X. destruct X as [V S].
    exists c. split; [exact Hc|]. repeat split; apply name_eqb_eq; assumption.
  - assert (H : forallb (fun c => forallb (fun arm => forallb (fun a =>
                  existsb (fun e => match e with (v, a', r) => name_eqb v (ct_variant c) && name_eqb a' a &&
                                      opt_str_eqb (find_arm a (ct_memo c)) (Some r) end) documented_aliases) (fst arm)) (ct_memo c)) all_contexts = true)
      by (vm_compute; reflexivity).
    intros c Hc a r Hf. rewrite forallb_forall in H. specialize (H c Hc). rewrite forallb_forall in H.
    assert (Harm : exists arm, In arm (ct_memo c) /\ In a (fst arm)).
    { clear H. revert Hf. generalize (ct_memo c). induction l as [|[ps y] l IH]; cbn [find_arm]; [discriminate|].
      destruct (mem a ps) eqn:E.
      - intros _. exists (ps, y). split; [left; reflexivity | apply mem_In; exact E].
      - intro Hf. destruct (IH Hf) as [arm [A1 A2]]. exists arm. split; [right; exact A1 | exact A2]. }
    destruct Harm as [arm [A1 A2]]. specialize (H arm A1). rewrite forallb_forall in H. specialize (H a A2).
    apply existsb_exists in H. destruct H as [[[v a'] r'] [Hin X]].
    apply andb_true_iff in X. destruct X as [X M]. apply andb_true_iff in X. destruct X as [V A].
    apply name_eqb_eq in V. apply name_eqb_eq in A. apply opt_str_eqb_spec in M. subst. rewrite Hf in M. inversion M. subst. exact Hin.
Qed.
Print Assumptions c18_documented_aliases.

(* the DOCUMENTED general-purpose registers of every type, written out here (not taken from the source): REGISTERS is exactly
   this list, in this order - so registers() / valid_registers() (c18_enumerations) list exactly these, and together with
   c18_documented_aliases the names set_register accepts are exactly these and the documented aliases *)
Definition documented_registers : list (name * list name) :=
  [([65; 109; 100; 54; 52], [[114; 97; 120]; [114; 100; 120]; [114; 99; 120]; [114; 98; 120]; [114; 115; 105]; [114; 100; 105]; [114; 98; 112]; [114; 115; 112]; [114; 56]; [114; 57]; [114; 49; 48]; [114; 49; 49]; [114; 49; 50]; [114; 49; 51]; [114; 49; 52]; [114; 49; 53]; [114; 105; 112]]);
   ([65; 114; 109], [[114; 48]; [114; 49]; [114; 50]; [114; 51]; [114; 52]; [114; 53]; [114; 54]; [114; 55]; [114; 56]; [114; 57]; [114; 49; 48]; [114; 49; 50]; [102; 112]; [115; 112]; [108; 114]; [112; 99]]);
   ([65; 114; 109; 54; 52], [[120; 48]; [120; 49]; [120; 50]; [120; 51]; [120; 52]; [120; 53]; [120; 54]; [120; 55]; [120; 56]; [120; 57]; [120; 49; 48]; [120; 49; 49]; [120; 49; 50]; [120; 49; 51]; [120; 49; 52]; [120; 49; 53]; [120; 49; 54]; [120; 49; 55]; [120; 49; 56]; [120; 49; 57]; [120; 50; 48]; [120; 50; 49]; [120; 50; 50]; [120; 50; 51]; [120; 50; 52]; [120; 50; 53]; [120; 50; 54]; [120; 50; 55]; [120; 50; 56]; [102; 112]; [108; 114]; [115; 112]; [112; 99]]);
   ([79; 108; 100; 65; 114; 109; 54; 52], [[120; 48]; [120; 49]; [120; 50]; [120; 51]; [120; 52]; [120; 53]; [120; 54]; [120; 55]; [120; 56]; [120; 57]; [120; 49; 48]; [120; 49; 49]; [120; 49; 50]; [120; 49; 51]; [120; 49; 52]; [120; 49; 53]; [120; 49; 54]; [120; 49; 55]; [120; 49; 56]; [120; 49; 57]; [120; 50; 48]; [120; 50; 49]; [120; 50; 50]; [120; 50; 51]; [120; 50; 52]; [120; 50; 53]; [120; 50; 54]; [120; 50; 55]; [120; 50; 56]; [102; 112]; [108; 114]; [115; 112]; [112; 99]]);
   ([77; 105; 112; 115], [[103; 112]; [115; 112]; [102; 112]; [114; 97]; [112; 99]; [115; 48]; [115; 49]; [115; 50]; [115; 51]; [115; 52]; [115; 53]; [115; 54]; [115; 55]]);
   ([80; 112; 99], [[115; 114; 114; 48]; [115; 114; 114; 49]; [114; 48]; [114; 49]; [114; 50]; [114; 51]; [114; 52]; [114; 53]; [114; 54]; [114; 55]; [114; 56]; [114; 57]; [114; 49; 48]; [114; 49; 49]; [114; 49; 50]; [114; 49; 51]; [114; 49; 52]; [114; 49; 53]; [114; 49; 54]; [114; 49; 55]; [114; 49; 56]; [114; 49; 57]; [114; 50; 48]; [114; 50; 49]; [114; 50; 50]; [114; 50; 51]; [114; 50; 52]; [114; 50; 53]; [114; 50; 54]; [114; 50; 55]; [114; 50; 56]; [114; 50; 57]; [114; 51; 48]; [114; 51; 49]; [99; 114]; [120; 101; 114]; [108; 114]; [99; 116; 114]; [109; 113]; [118; 114; 115; 97; 118; 101]]);
   ([80; 112; 99; 54; 52], [[115; 114; 114; 48]; [115; 114; 114; 49]; [114; 48]; [114; 49]; [114; 50]; [114; 51]; [114; 52]; [114; 53]; [114; 54]; [114; 55]; [114; 56]; [114; 57]; [114; 49; 48]; [114; 49; 49]; [114; 49; 50]; [114; 49; 51]; [114; 49; 52]; [114; 49; 53]; [114; 49; 54]; [114; 49; 55]; [114; 49; 56]; [114; 49; 57]; [114; 50; 48]; [114; 50; 49]; [114; 50; 50]; [114; 50; 51]; [114; 50; 52]; [114; 50; 53]; [114; 50; 54]; [114; 50; 55]; [114; 50; 56]; [114; 50; 57]; [114; 51; 48]; [114; 51; 49]; [99; 114]; [120; 101; 114]; [108; 114]; [99; 116; 114]; [118; 114; 115; 97; 118; 101]]);
   ([83; 112; 97; 114; 99], [[103; 95; 114; 48]; [103; 95; 114; 49]; [103; 95; 114; 50]; [103; 95; 114; 51]; [103; 95; 114; 52]; [103; 95; 114; 53]; [103; 95; 114; 54]; [103; 95; 114; 55]; [103; 95; 114; 56]; [103; 95; 114; 57]; [103; 95; 114; 49; 48]; [103; 95; 114; 49; 49]; [103; 95; 114; 49; 50]; [103; 95; 114; 49; 51]; [103; 95; 114; 49; 52]; [103; 95; 114; 49; 53]; [103; 95; 114; 49; 54]; [103; 95; 114; 49; 55]; [103; 95; 114; 49; 56]; [103; 95; 114; 49; 57]; [103; 95; 114; 50; 48]; [103; 95; 114; 50; 49]; [103; 95; 114; 50; 50]; [103; 95; 114; 50; 51]; [103; 95; 114; 50; 52]; [103; 95; 114; 50; 53]; [103; 95; 114; 50; 54]; [103; 95; 114; 50; 55]; [103; 95; 114; 50; 56]; [103; 95; 114; 50; 57]; [103; 95; 114; 51; 48]; [103; 95; 114; 51; 49]; [99; 99; 114]; [112; 99]; [110; 112; 99]; [121]; [97; 115; 105]; [102; 112; 114; 115]]);
   ([88; 56; 54], [[101; 105; 112]; [101; 115; 112]; [101; 98; 112]; [101; 98; 120]; [101; 115; 105]; [101; 100; 105]; [101; 97; 120]; [101; 99; 120]; [101; 100; 120]; [101; 102; 108; 97; 103; 115]])].
Theorem c18_documented_registers :
  (forall v l, In (v, l) documented_registers -> exists c, In c all_contexts /\ ct_variant c = v /\ ct_registers c = l) /\
  (forall c, In c all_contexts -> exists l, In (ct_variant c, l) documented_registers /\ ct_registers c = l) /\
  (forall c, In c all_contexts -> forall n, In n (accepted c) <-> (In n (ct_registers c) \/ exists r, find_arm n (ct_memo c) = Some r)).
Proof.
  split; [|split].
  - assert (H : forallb (fun e => existsb (fun c => name_eqb (ct_variant c) (fst e) && strs_eqb (ct_registers c) (snd e)) all_contexts)
                        documented_registers = true) by (vm_compute; reflexivity).
    intros v l Hin. rewrite forallb_forall in H. specialize (H _ Hin). cbn [fst snd] in H.
    apply existsb_exists in H. destruct H as [c [Hc X]]. apply andb_true_iff in X. destruct X as [V R].
    exists c. split; [exact Hc|]. split; [apply name_eqb_eq; exact V | apply strs_eqb_eq; exact R].
  - assert (H : forallb (fun c => existsb (fun e => name_eqb (fst e) (ct_variant c) && strs_eqb (snd e) (ct_registers c)) documented_registers)
                        all_contexts = true) by (vm_compute; reflexivity).
    intros c Hc. rewrite forallb_forall in H. specialize (H c Hc). apply existsb_exists in H. destruct H as [[v l] [Hin X]].
    cbn [fst snd] in X. apply andb_true_iff in X. destruct X as [V R]. apply name_eqb_eq in V. apply strs_eqb_eq in R. subst.
    exists (ct_registers c). split; [exact Hin | reflexivity].
  - intros c Hc n. pose proof (all_facts c Hc) as F. split.
    + intro Hn. pose proof (f_acc_memo c F n Hn) as M. apply is_some_true in M. destruct M as [k Hk].
      rewrite (memoize_exact c (f_cmp c F) (f_memo_tbl c F)) in Hk.
      destruct (find_arm n (ct_memo c)) as [r|] eqn:E; [right; exists r; reflexivity|].
      left. destruct (mem n (ct_registers c)) eqn:E2; [apply mem_In; exact E2 | discriminate].
    + intro H. assert (I : In n (ct_registers c ++ names_of (ct_memo c))).
      { apply in_or_app. destruct H as [H|[r H]]; [left; exact H | right; exact (find_arm_In _ _ _ _ H)]. }
      apply (f_memo_acc c F) in I. apply is_some_true in I. destruct I as [x Hx]. exact (find_arm_In _ _ _ _ Hx).
Qed.
Print Assumptions c18_documented_registers.

(* sequences of writes, of ANY length, through ANY strings (unknown names are refused and change nothing): the sequence
   never panics, and afterwards every accepted name reads the value written last through any spelling of its register -
   or what it read before, if no such write occurred; the dedicated accessors likewise *)
Theorem c18_write_sequence : forall c, In c all_contexts -> forall ops rf,
  exists rf', apply_writes c rf ops = Ret rf' /\
    (forall m, In m (accepted c) ->
       get_always c rf' m = match last_write c m ops None with Some v => Ret v | None => get_always c rf m end) /\
    md_stack_pointer c rf' =
      match last_write c (ct_sp_name c) ops None with Some v => Ret v | None => md_stack_pointer c rf end /\
    md_instruction_pointer c rf' =
      match last_write c (ct_ip_name c) ops None with Some v => Ret v | None => md_instruction_pointer c rf end.
Proof.
  intros c Hc ops rf. pose proof (all_facts c Hc) as F.
  destruct (write_sequence c F ops rf) as [rf' [A G]]. exists rf'. split; [exact A|]. split; [exact G|].
  assert (Acc : forall acc n, ok_special c acc n = true -> In n (accepted c)).
  { intros acc n H. destruct (special_agrees c F acc n H rf) as [_ [_ [M _]]].
    destruct (memoize c n) as [k|] eqn:E; [|contradiction]. exact (memoizable_accepted c F n k E). }
  split.
  - destruct (special_agrees c F _ _ (f_sp c F) rf') as [A1 [B1 _]]. destruct (special_agrees c F _ _ (f_sp c F) rf) as [A0 [B0 _]].
    unfold md_stack_pointer. rewrite B1, <- A1, B0, <- A0. exact (G _ (Acc _ _ (f_sp c F))).
  - destruct (special_agrees c F _ _ (f_ip c F) rf') as [A1 [B1 _]]. destruct (special_agrees c F _ _ (f_ip c F) rf) as [A0 [B0 _]].
    unfold md_instruction_pointer. rewrite B1, <- A1, B0, <- A0. exact (G _ (Acc _ _ (f_ip c F))).
Qed.
Print Assumptions c18_write_sequence.
(* ARM: r13 := 1; foo := 2 (refused); sp := 3; r12 := 4; r13 := 5  -  sp and get_stack_pointer read 5, r12 reads 4, r11 (fp) its old value *)
Example c18_nonvacuous_sequence :
  let rf0 : regfile := fun _ _ => 8 in
  let ops := [([114; 49; 51], 1); ([102; 111; 111], 2); ([115; 112], 3); ([114; 49; 50], 4); ([114; 49; 51], 5)] in
  exists rf', apply_writes ctx_arm rf0 ops = Ret rf' /\
    get_always ctx_arm rf' [115; 112] = Ret 5 /\ md_stack_pointer ctx_arm rf' = Ret 5 /\
    get_always ctx_arm rf' [114; 49; 50] = Ret 4 /\ get_always ctx_arm rf' [102; 112] = Ret 8 /\
    last_write ctx_arm [115; 112] ops None = Some 5 /\ last_write ctx_arm [102; 112] ops None = None.
Proof. cbv zeta. eexists. split; [vm_compute; reflexivity|]. repeat split; vm_compute; reflexivity. Qed.

(* what the checker does with a by-name read that is not the plain location: X86 with
   `"esp" => self.esp & !3` in get_register_always.  set_register("esp", 7) is accepted but the
   read-back is 4; [diagnose] reports the table. *)
Definition n_esp : name := [101; 115; 112].
Definition l_x86_esp : loc := mkloc n_esp (-1) 32 (-1).
Definition x86_masked_get : ctx_table :=
  {| ct_name := ct_name ctx_x86; ct_variant := ct_variant ctx_x86; ct_width := ct_width ctx_x86;
     ct_registers := ct_registers ctx_x86;
     ct_get := ([n_esp], AAnd (ALoc l_x86_esp) (ANot (ALit 3) 32)) :: ct_get ctx_x86;
     ct_set := ct_set ctx_x86; ct_set_val := ct_set_val ctx_x86;
     ct_memo := ct_memo ctx_x86; ct_memo_tbl := ct_memo_tbl ctx_x86; ct_memo_cmp := ct_memo_cmp ctx_x86; ct_groups := ct_groups ctx_x86;
     ct_valid_all := ct_valid_all ctx_x86; ct_valid_default := ct_valid_default ctx_x86; ct_get_cond := ct_get_cond ctx_x86; ct_get_val := ct_get_val ctx_x86; ct_md_get_val := ct_md_get_val ctx_x86;
     ct_fmt_prefix := ct_fmt_prefix ctx_x86; ct_fmt_zero := ct_fmt_zero ctx_x86; ct_fmt_mul := ct_fmt_mul ctx_x86;
     ct_sp_name := ct_sp_name ctx_x86; ct_ip_name := ct_ip_name ctx_x86;
     ct_sp_acc := ct_sp_acc ctx_x86; ct_ip_acc := ct_ip_acc ctx_x86;
     ct_md_get := ct_md_get ctx_x86; ct_md_valid := ct_md_valid ctx_x86; ct_md_filter := ct_md_filter ctx_x86;
     ct_iter_all := ct_iter_all ctx_x86; ct_iter_some := ct_iter_some ctx_x86; ct_regs_direct := ct_regs_direct ctx_x86; ct_next_slice := ct_next_slice ctx_x86; ct_next_set := ct_next_set ctx_x86;
     ct_next_val := ct_next_val ctx_x86; ct_md_regs_val := ct_md_regs_val ctx_x86; ct_md_size := ct_md_size ctx_x86; ct_md_fmt := ct_md_fmt ctx_x86;
     ct_fields := ct_fields ctx_x86; ct_gpr := ct_gpr ctx_x86 |}.
Theorem c18_masked_read_rejected :
  let rf0 : regfile := fun _ _ => 0 in
  set_reg x86_masked_get rf0 n_esp 7 = Ret (Some (upd rf0 l_x86_esp 7)) /\
  get_always x86_masked_get (upd rf0 l_x86_esp 7) n_esp = Ret 4 /\
  get_always ctx_x86 (upd rf0 l_x86_esp 7) n_esp = Ret 7 /\
  diagnose x86_masked_get <> [].
Proof. cbv zeta. repeat split; try (vm_compute; reflexivity). vm_compute. discriminate. Qed.
Print Assumptions c18_masked_read_rejected.

(* what the checker does with a looser validity test: the trait default of register_is_valid reading
   `which.contains(reg) || true`.  The empty validity set then makes every register of X86 valid;
   [diagnose] reports the table. *)
Definition x86_loose_validity : ctx_table :=
  {| ct_name := ct_name ctx_x86; ct_variant := ct_variant ctx_x86; ct_width := ct_width ctx_x86;
     ct_registers := ct_registers ctx_x86; ct_get := ct_get ctx_x86;
     ct_set := ct_set ctx_x86; ct_set_val := ct_set_val ctx_x86;
     ct_memo := ct_memo ctx_x86; ct_memo_tbl := ct_memo_tbl ctx_x86; ct_memo_cmp := ct_memo_cmp ctx_x86; ct_groups := ct_groups ctx_x86;
     ct_valid_all := ct_valid_all ctx_x86; ct_valid_default := BOr (BVar v_contains) (BLit true);
     ct_get_cond := ct_get_cond ctx_x86; ct_get_val := ct_get_val ctx_x86; ct_md_get_val := ct_md_get_val ctx_x86;
     ct_fmt_prefix := ct_fmt_prefix ctx_x86; ct_fmt_zero := ct_fmt_zero ctx_x86; ct_fmt_mul := ct_fmt_mul ctx_x86;
     ct_sp_name := ct_sp_name ctx_x86; ct_ip_name := ct_ip_name ctx_x86;
     ct_sp_acc := ct_sp_acc ctx_x86; ct_ip_acc := ct_ip_acc ctx_x86;
     ct_md_get := ct_md_get ctx_x86; ct_md_valid := ct_md_valid ctx_x86; ct_md_filter := ct_md_filter ctx_x86;
     ct_iter_all := ct_iter_all ctx_x86; ct_iter_some := ct_iter_some ctx_x86; ct_regs_direct := ct_regs_direct ctx_x86; ct_next_slice := ct_next_slice ctx_x86; ct_next_set := ct_next_set ctx_x86;
     ct_next_val := ct_next_val ctx_x86; ct_md_regs_val := ct_md_regs_val ctx_x86; ct_md_size := ct_md_size ctx_x86; ct_md_fmt := ct_md_fmt ctx_x86;
     ct_fields := ct_fields ctx_x86; ct_gpr := ct_gpr ctx_x86 |}.
Theorem c18_loose_validity_rejected :
  is_valid x86_loose_validity n_esp (VSome []) = true /\ is_valid ctx_x86 n_esp (VSome []) = false /\
  get_register x86_loose_validity (fun _ _ => 9) n_esp (VSome []) = Ret (Some 9) /\
  get_register ctx_x86 (fun _ _ => 9) n_esp (VSome []) = Ret None /\
  diagnose x86_loose_validity <> [].
Proof. repeat split; try (vm_compute; reflexivity). vm_compute. discriminate. Qed.
Print Assumptions c18_loose_validity_rejected.

(* what the checker does with a case-insensitive default_memoize_register: "RIP" becomes known to
   memoize_register (as rip) while get_register_always does not know it, so the checked read
   reaches unreachable!(); [diagnose] reports the table *)
Definition n_RIP : name := [82; 73; 80].
Definition n_rip : name := [114; 105; 112].
Definition amd64_nocase : ctx_table :=
  {| ct_name := ct_name ctx_amd64; ct_variant := ct_variant ctx_amd64; ct_width := ct_width ctx_amd64;
     ct_registers := ct_registers ctx_amd64; ct_get := ct_get ctx_amd64; ct_set := ct_set ctx_amd64; ct_set_val := ct_set_val ctx_amd64;
     ct_memo := ct_memo ctx_amd64; ct_memo_tbl := ct_memo_tbl ctx_amd64; ct_memo_cmp := 1; ct_groups := ct_groups ctx_amd64;
     ct_valid_all := ct_valid_all ctx_amd64; ct_valid_default := ct_valid_default ctx_amd64; ct_get_cond := ct_get_cond ctx_amd64; ct_get_val := ct_get_val ctx_amd64; ct_md_get_val := ct_md_get_val ctx_amd64;
     ct_fmt_prefix := ct_fmt_prefix ctx_amd64; ct_fmt_zero := ct_fmt_zero ctx_amd64; ct_fmt_mul := ct_fmt_mul ctx_amd64;
     ct_sp_name := ct_sp_name ctx_amd64; ct_ip_name := ct_ip_name ctx_amd64;
     ct_sp_acc := ct_sp_acc ctx_amd64; ct_ip_acc := ct_ip_acc ctx_amd64;
     ct_md_get := ct_md_get ctx_amd64; ct_md_valid := ct_md_valid ctx_amd64; ct_md_filter := ct_md_filter ctx_amd64;
     ct_iter_all := ct_iter_all ctx_amd64; ct_iter_some := ct_iter_some ctx_amd64; ct_regs_direct := ct_regs_direct ctx_amd64; ct_next_slice := ct_next_slice ctx_amd64; ct_next_set := ct_next_set ctx_amd64;
     ct_next_val := ct_next_val ctx_amd64; ct_md_regs_val := ct_md_regs_val ctx_amd64; ct_md_size := ct_md_size ctx_amd64; ct_md_fmt := ct_md_fmt ctx_amd64;
     ct_fields := ct_fields ctx_amd64; ct_gpr := ct_gpr ctx_amd64 |}.
Theorem c18_case_insensitive_memoize_rejected :
  memoize amd64_nocase n_RIP = Some n_rip /\
  get_register amd64_nocase (fun _ _ => 0) n_RIP VAll = Panic 1 /\
  set_reg amd64_nocase (fun _ _ => 0) n_RIP 1 = Ret None /\
  memoize ctx_amd64 n_RIP = None /\ In n_rip (accepted ctx_amd64) /\ map lower n_RIP = map lower n_rip /\
  diagnose amd64_nocase <> [].
Proof.
  repeat split; try (vm_compute; reflexivity); [vm_compute; tauto | vm_compute; discriminate].
Qed.
Print Assumptions c18_case_insensitive_memoize_rejected.

(* the stack / instruction pointer names read the location of the dedicated accessors; the
   accessors' bodies ([ct_sp_acc], [ct_ip_acc]) are regenerated from the source as expressions
   and evaluated by [aeval] *)
Theorem c18_sp_ip_agree : forall c, In c all_contexts -> forall rf,
  (get_always c rf (ct_sp_name c) = Ret (rf_get rf (ct_sp_loc c)) /\
   md_stack_pointer c rf = Ret (rf_get rf (ct_sp_loc c)) /\ memoize c (ct_sp_name c) <> None) /\
  (get_always c rf (ct_ip_name c) = Ret (rf_get rf (ct_ip_loc c)) /\
   md_instruction_pointer c rf = Ret (rf_get rf (ct_ip_loc c)) /\ memoize c (ct_ip_name c) <> None).
Proof.
  intros c Hc rf. pose proof (all_facts c Hc) as F. split.
  - destruct (special_agrees c F _ _ (f_sp c F) rf) as [A [B [C _]]]. repeat split; assumption.
  - destruct (special_agrees c F _ _ (f_ip c F) rf) as [A [B [C _]]]. repeat split; assumption.
Qed.
Print Assumptions c18_sp_ip_agree.

(* ... for ALL register files, i.e. whatever cpsr / eflags / context_flags / any other field
   holds and whatever the register's value is: the dedicated accessor returns exactly what
   the unchecked read of the sp / ip register name returns (no mask, no mode-dependent
   adjustment); and it follows writes by name: after set_register(n, v) it returns v when n is
   a spelling of the sp / ip register (same canonical name), and what it returned before
   for every other accepted name *)
Theorem c18_accessors_follow_names : forall c, In c all_contexts -> forall rf,
  md_stack_pointer c rf = get_always c rf (ct_sp_name c) /\
  md_instruction_pointer c rf = get_always c rf (ct_ip_name c) /\
  (forall n l v, In n (accepted c) -> find_arm n (ct_set c) = Some l ->
     md_stack_pointer c (upd rf l v) =
       (if opt_str_eqb (memoize c n) (memoize c (ct_sp_name c)) then Ret v else md_stack_pointer c rf) /\
     md_instruction_pointer c (upd rf l v) =
       (if opt_str_eqb (memoize c n) (memoize c (ct_ip_name c)) then Ret v else md_instruction_pointer c rf)).
Proof.
  intros c Hc rf. pose proof (all_facts c Hc) as F.
  destruct (special_agrees c F _ _ (f_sp c F) rf) as [A1 [B1 _]].
  destruct (special_agrees c F _ _ (f_ip c F) rf) as [A2 [B2 _]].
  split; [unfold md_stack_pointer; rewrite A1, B1; reflexivity|].
  split; [unfold md_instruction_pointer; rewrite A2, B2; reflexivity|].
  intros n l v Hn Hl. split.
  - exact (special_follows c F _ _ (f_sp c F) n l Hn Hl rf v).
  - exact (special_follows c F _ _ (f_ip c F) n l Hn Hl rf v).
Qed.
Print Assumptions c18_accessors_follow_names.

(* what the checker does with an accessor that is NOT a plain read: the ARM table with
   get_instruction_pointer clearing bit 0 of pc when the Thumb bit (0x20) of cpsr is set.
   The evaluated accessor and the by-name read differ on a register file with cpsr = 0x20
   and an odd pc, agree when the Thumb bit is clear, and [diagnose] reports the table. *)
Definition n_pc : name := [112; 99].
Definition l_arm_pc : loc := mkloc [105; 114; 101; 103; 115] 15 32 16.
Definition l_arm_cpsr : loc := mkloc [99; 112; 115; 114] (-1) 32 (-1).
Definition arm_thumb_masked : ctx_table :=
  {| ct_name := ct_name ctx_arm; ct_variant := ct_variant ctx_arm; ct_width := ct_width ctx_arm;
     ct_registers := ct_registers ctx_arm; ct_get := ct_get ctx_arm; ct_set := ct_set ctx_arm; ct_set_val := ct_set_val ctx_arm;
     ct_memo := ct_memo ctx_arm; ct_memo_tbl := ct_memo_tbl ctx_arm; ct_memo_cmp := ct_memo_cmp ctx_arm; ct_groups := ct_groups ctx_arm;
     ct_valid_all := ct_valid_all ctx_arm; ct_valid_default := ct_valid_default ctx_arm; ct_get_cond := ct_get_cond ctx_arm; ct_get_val := ct_get_val ctx_arm; ct_md_get_val := ct_md_get_val ctx_arm;
     ct_fmt_prefix := ct_fmt_prefix ctx_arm; ct_fmt_zero := ct_fmt_zero ctx_arm; ct_fmt_mul := ct_fmt_mul ctx_arm;
     ct_sp_name := ct_sp_name ctx_arm; ct_ip_name := ct_ip_name ctx_arm;
     ct_sp_acc := ct_sp_acc ctx_arm;
     ct_ip_acc := ALet n_pc (ACast (ALoc l_arm_pc) 32 64)
                    (AIf (BNe (AAnd (ALoc l_arm_cpsr) (ALit 32)) (ALit 0))
                         (AAnd (AVar n_pc) (ANot (ALit 1) 64)) (AVar n_pc));
     ct_md_get := ct_md_get ctx_arm; ct_md_valid := ct_md_valid ctx_arm; ct_md_filter := ct_md_filter ctx_arm;
     ct_iter_all := ct_iter_all ctx_arm; ct_iter_some := ct_iter_some ctx_arm; ct_regs_direct := ct_regs_direct ctx_arm; ct_next_slice := ct_next_slice ctx_arm; ct_next_set := ct_next_set ctx_arm;
     ct_next_val := ct_next_val ctx_arm; ct_md_regs_val := ct_md_regs_val ctx_arm; ct_md_size := ct_md_size ctx_arm; ct_md_fmt := ct_md_fmt ctx_arm;
     ct_fields := ct_fields ctx_arm; ct_gpr := ct_gpr ctx_arm |}.
Theorem c18_masked_accessor_rejected :
  let c := arm_thumb_masked in
  let rf_thumb : regfile := upd (upd (fun _ _ => 0) l_arm_cpsr 32) l_arm_pc 32769 in
  let rf_arm : regfile := upd (upd (fun _ _ => 0) l_arm_cpsr 0) l_arm_pc 32769 in
  get_always c rf_thumb (ct_ip_name c) = Ret 32769 /\ md_instruction_pointer c rf_thumb = Ret 32768 /\
  md_instruction_pointer c rf_arm = Ret 32769 /\
  md_instruction_pointer ctx_arm rf_thumb = Ret 32769 /\
  diagnose c <> [].
Proof. cbv zeta. repeat split; try (vm_compute; reflexivity). vm_compute. discriminate. Qed.
Print Assumptions c18_masked_accessor_rejected.

(* validity by any alias is honoured for every alias: n is valid under Some(s) exactly when
   s holds a name with n's canonical name; get_register then yields the register's value *)
Theorem c18_validity_aliases : forall c, In c all_contexts -> forall n, In n (accepted c) -> forall s,
  (is_valid c n (VSome s) = true <-> exists a, In a s /\ memoize c a = memoize c n) /\
  (forall rf v, get_register c rf n v =
                if is_valid c n v then Ret (Some (rf_get rf (loc_of c n))) else Ret None).
Proof.
  intros c Hc n Hn s. pose proof (all_facts c Hc) as F. split.
  - exact (validity_aliases c F n Hn s).
  - exact (get_register_value c F n Hn).
Qed.
Print Assumptions c18_validity_aliases.

(* registers() / valid_registers() list exactly REGISTERS / its valid subset, in REGISTERS
   order, each with the value of its location; CpuContext::valid_registers(Some(s)) lists the
   members of s (for sets of known names); REGISTERS has no duplicates and is canonical *)
Theorem c18_enumerations : forall c, In c all_contexts -> forall rf,
  ct_gpr c = ct_registers c /\
  md_registers c rf = Ret (listing c rf (ct_registers c)) /\
  cpu_valid_registers c rf VAll = Ret (listing c rf (ct_registers c)) /\
  md_valid_registers c rf VAll = Ret (listing c rf (ct_registers c)) /\
  (forall s, md_valid_registers c rf (VSome s) =
             Ret (listing c rf (filter (fun n => is_valid c n (VSome s)) (ct_registers c)))) /\
  (forall s, (forall a, In a s -> memoize c a <> None) ->
             cpu_valid_registers c rf (VSome s) = Ret (listing c rf s)) /\
  (forall r, In r (ct_registers c) -> count r (ct_registers c) = 1 /\ memoize c r = Some r).
Proof. intros c Hc. exact (enumerations c (all_facts c Hc)). Qed.
Print Assumptions c18_enumerations.

(* MinidumpContext dispatch, all nine variants (the arms of get_register_always, get_register and
   valid_registers are regenerated from the source as expressions over the forwarded CpuContext
   call): the type-erased methods return exactly what the variant's own CpuContext methods
   return - same value (widened, no mask, no truncation), same validity test, same panics *)
Theorem c18_md_dispatch : forall c, In c all_contexts -> forall rf n v,
  md_get_always c rf n = get_always c rf n /\
  md_get_register c rf n v = get_register c rf n v /\
  md_is_valid (ct_md_valid c) c rf n v = Ret (is_valid c n v) /\
  md_is_valid (ct_md_filter c) c rf n v = Ret (is_valid c n v).
Proof.
  intros c Hc rf n v. pose proof (all_facts c Hc) as F.
  split; [exact (md_get_always_eq c F rf n)|]. split; [exact (md_get_register_eq c F rf n v)|].
  split; [exact (md_is_valid_eq c _ (f_md_valid c F) rf n v) | exact (md_is_valid_eq c _ (f_md_filter c F) rf n v)].
Qed.
Print Assumptions c18_md_dispatch.

(* end to end at the MinidumpContext level: a write by any accepted name or alias is read back by
   the type-erased get_register_always, by get_register under every validity that covers the name,
   rendered by format_register, and returned by the dedicated accessor when the name is a spelling
   of the sp / ip register - all register files, all values *)
Theorem c18_md_roundtrip : forall c, In c all_contexts -> forall n, In n (accepted c) ->
  forall rf v l, find_arm n (ct_set c) = Some l ->
  set_reg c rf n v = Ret (Some (upd rf l v)) /\
  md_get_always c (upd rf l v) n = Ret v /\
  (forall s, md_get_register c (upd rf l v) n s = if is_valid c n s then Ret (Some v) else Ret None) /\
  format_register c (upd rf l v) n = Ret (format_value c v) /\
  (memoize c n = memoize c (ct_sp_name c) -> md_stack_pointer c (upd rf l v) = Ret v) /\
  (memoize c n = memoize c (ct_ip_name c) -> md_instruction_pointer c (upd rf l v) = Ret v).
Proof. intros c Hc. exact (md_roundtrip c (all_facts c Hc)). Qed.
Print Assumptions c18_md_roundtrip.

(* registers() / valid_registers() as ITERATORS.  The names each arm of valid_registers iterates ([ct_iter_all],
   [ct_iter_some]) and the step of CpuRegisters::next (how many names an arm consumes, the value it pairs with the name)
   are regenerated from the source; for the nine tables: the initial state is REGISTERS (Slice) under All and the set's
   members (Set) under Some; draining the iterator reads every name of the initial state in order and never runs out of
   fuel; on a state of known names each step yields the head with its location's value; an exhausted iterator keeps
   answering None; registers() = valid_registers(All) lists REGISTERS *)
Theorem c18_register_iterator : forall c, In c all_contexts -> forall rf,
  (forall v, cpu_iter_init c v = match v with VAll => (KSlice, ct_registers c) | VSome s => (KSet, s) end) /\
  (forall v, cpu_valid_registers c rf v = mapM (named c rf) (snd (cpu_iter_init c v))) /\
  (forall k r t, memoize c r <> None ->
     cpu_iter_next c rf (k, r :: t) = Ret (Some (r, rf_get rf (loc_of c r)), (k, t))) /\
  (forall k, cpu_iter_next c rf (k, []) = Ret (None, (k, []))) /\
  cpu_iter_collect (S (length (ct_registers c))) c rf (cpu_iter_init c VAll) =
    Ret (listing c rf (ct_registers c)) /\
  cpu_registers c rf = Ret (listing c rf (ct_registers c)).
Proof.
  intros c Hc rf. pose proof (all_facts c Hc) as F.
  split; [exact (cpu_iter_init_eq c F)|].
  split; [intro v; rewrite (cpu_valid_registers_mapM c F rf v), (cpu_iter_init_eq c F); destruct v; reflexivity|].
  split; [exact (cpu_iter_step c F rf)|]. split; [exact (cpu_iter_next_nil c rf)|].
  destruct (enumerations c F rf) as [_ [_ [E _]]]. split.
  - unfold cpu_valid_registers in E. rewrite (cpu_iter_init_eq c F) in *. exact E.
  - rewrite (cpu_registers_eq c F rf), <- (cpu_valid_registers_mapM c F rf VAll). exact E.
Qed.
Print Assumptions c18_register_iterator.

(* generated = hand model: the parts of the trait's default bodies and of the MinidumpContext dispatch that are regenerated
   from the source as data / expressions (the table default_memoize_register searches, the value MinidumpContext::registers
   pairs with a name, the register_size arms) denote, for the nine tables, what the property needs:
   memoize_register = the alias arm, else the name itself iff it is in REGISTERS (ALL strings);
   MinidumpContext::registers pairs every name with exactly what the variant's get_register_always returns (same panics);
   MinidumpContext::format_register (forwarding arm, or a rendering of its own) = the variant's format_register;
   register_size = size_of::<Register>() = 4 or 8 = ct_width / 8 *)
Theorem c18_generated_bodies : forall c, In c all_contexts ->
  (forall n, memoize c n = match find_arm n (ct_memo c) with
                           | Some m => Some m
                           | None => if mem n (ct_registers c) then Some n else None
                           end) /\
  (forall rf n, md_named c rf n = named c rf n) /\
  (forall rf n, md_format_register c rf n = format_register c rf n) /\
  md_register_size c = Ret (ct_width c / 8) /\ (ct_width c / 8 = 4 \/ ct_width c / 8 = 8).
Proof.
  intros c Hc. pose proof (all_facts c Hc) as F.
  split; [exact (memoize_exact c (f_cmp c F) (f_memo_tbl c F))|].
  split; [exact (md_named_eq c F)|]. split; [exact (md_format_register_eq c F)|]. split; [exact (md_register_size_eq c F)|].
  destruct (f_width c F) as [W|W]; rewrite W; [left | right]; reflexivity.
Qed.
Print Assumptions c18_generated_bodies.

(* what the checker does with an enumeration that ignores the validity set (valid_registers' Some arm builds
   `CpuRegistersInner::Slice(Self::REGISTERS.iter())`) and with an iterator that skips (`iter.nth(1)` in the Slice arm
   of CpuRegisters::next): the X86 table with these two generated fields changed lists all ten registers under
   Some({eip}) / every second register under All; [diagnose] reports the table *)
Definition n_eip : name := [101; 105; 112].
Definition x86_iter (some : names_src) (skip : Z) : ctx_table :=
  {| ct_name := ct_name ctx_x86; ct_variant := ct_variant ctx_x86; ct_width := ct_width ctx_x86;
     ct_registers := ct_registers ctx_x86; ct_get := ct_get ctx_x86;
     ct_set := ct_set ctx_x86; ct_set_val := ct_set_val ctx_x86;
     ct_memo := ct_memo ctx_x86; ct_memo_tbl := ct_memo_tbl ctx_x86; ct_memo_cmp := ct_memo_cmp ctx_x86; ct_groups := ct_groups ctx_x86;
     ct_valid_all := ct_valid_all ctx_x86; ct_valid_default := ct_valid_default ctx_x86; ct_get_cond := ct_get_cond ctx_x86; ct_get_val := ct_get_val ctx_x86; ct_md_get_val := ct_md_get_val ctx_x86;
     ct_fmt_prefix := ct_fmt_prefix ctx_x86; ct_fmt_zero := ct_fmt_zero ctx_x86; ct_fmt_mul := ct_fmt_mul ctx_x86;
     ct_sp_name := ct_sp_name ctx_x86; ct_ip_name := ct_ip_name ctx_x86;
     ct_sp_acc := ct_sp_acc ctx_x86; ct_ip_acc := ct_ip_acc ctx_x86;
     ct_md_get := ct_md_get ctx_x86; ct_md_valid := ct_md_valid ctx_x86; ct_md_filter := ct_md_filter ctx_x86;
     ct_iter_all := ct_iter_all ctx_x86; ct_iter_some := some; ct_regs_direct := ct_regs_direct ctx_x86; ct_next_slice := skip; ct_next_set := ct_next_set ctx_x86;
     ct_next_val := ct_next_val ctx_x86; ct_md_regs_val := ct_md_regs_val ctx_x86; ct_md_size := ct_md_size ctx_x86; ct_md_fmt := ct_md_fmt ctx_x86;
     ct_fields := ct_fields ctx_x86; ct_gpr := ct_gpr ctx_x86 |}.
Theorem c18_loose_enumeration_rejected :
  let rf : regfile := fun _ _ => 3 in
  cpu_valid_registers ctx_x86 rf (VSome [n_eip]) = Ret [(n_eip, 3)] /\
  option_map (@length _) (match cpu_valid_registers (x86_iter (NList (ct_registers ctx_x86)) 0) rf (VSome [n_eip]) with Ret l => Some l | _ => None end) = Some 10%nat /\
  diagnose (x86_iter (NList (ct_registers ctx_x86)) 0) <> [] /\
  option_map (@length _) (match cpu_registers ctx_x86 rf with Ret l => Some l | _ => None end) = Some 10%nat /\
  option_map (@length _) (match cpu_registers (x86_iter NSet 1) rf with Ret l => Some l | _ => None end) = Some 5%nat /\
  diagnose (x86_iter NSet 1) <> [].
Proof. cbv zeta. repeat split; try (vm_compute; reflexivity); vm_compute; discriminate. Qed.
Print Assumptions c18_loose_enumeration_rejected.

(* format_register (the model renders in Gallina, compared byte for byte with the code's String):
   "0x" followed by lower-case hexadecimal digits that denote exactly the value the unchecked read
   returns - at least 2*size_of::<Register>() digits, exactly that many when the value fits the
   Register type; like get_register_always it is an UNCHECKED accessor: on a string that is not an
   accepted name it reaches unreachable!() (the checked path is get_register, see
   c18_unknown_absent_no_panic) *)
Theorem c18_format_register : forall c, In c all_contexts -> forall rf n,
  (In n (accepted c) ->
     exists s, format_register c rf n = Ret (48 :: 120 :: s) /\
       (0 <= rf_get rf (loc_of c n) ->
          hex_val s = rf_get rf (loc_of c n) /\ (Z.to_nat (register_size c * 2) <= length s)%nat /\
          (rf_get rf (loc_of c n) < 2 ^ ct_width c -> length s = Z.to_nat (register_size c * 2)))) /\
  (~ In n (accepted c) -> format_register c rf n = Panic 1).
Proof. intros c Hc. exact (format_register_spec c (all_facts c Hc)). Qed.
Print Assumptions c18_format_register.
Example c18_nonvacuous_format :
  format_register ctx_x86 (fun _ _ => 48879) [101; 105; 112] = Ret [48; 120; 48; 48; 48; 48; 98; 101; 101; 102] /\
  hex_val [48; 48; 48; 48; 98; 101; 101; 102] = 48879 /\
  format_register ctx_amd64 (fun _ _ => 18446744073709551615) n_rip =
    Ret [48; 120; 102; 102; 102; 102; 102; 102; 102; 102; 102; 102; 102; 102; 102; 102; 102; 102].
Proof. repeat split; vm_compute; reflexivity. Qed.

(* "every supported CPU context type": MinidumpContext::read's choice of the context type.  The arms of its architecture
   match are regenerated from the source ([read_arms]: architecture numbers from format.rs' ProcessorArchitecture, the
   CONTEXT_* type read, the variant it is wrapped in, the ContextFlagsCpu constant tested, the struct's serialised size
   computed from format.rs; [read_cpu_mask], [read_cpu_all_bits]: from_flags = from_bits_truncate(flags & CONTEXT_CPU_MASK)).
   For ALL architecture numbers, buffer lengths and context_flags values:
   - soundness: a context is produced only as the variant of one of the nine register tables, wrapping the type that
     table describes, from a buffer that holds the whole struct (every integer field of the table lies inside it), and
     only when the CPU part of its flags is the constant named like the type;
   - completeness: each of the nine tables is chosen, for some architecture number, on every buffer that holds the struct
     and carries the type's CPU constant (flag bits outside the CPU mask do not matter);
   - one flags value validates at most one arm; an architecture number no arm lists is UnknownCpuContext. *)
Theorem c18_read_dispatch :
  (forall arch len flags_of v,
     read_dispatch read_arms read_cpu_mask read_cpu_all_bits arch len flags_of = RVariant v ->
     exists c a, In c all_contexts /\ In a read_arms /\ ct_variant c = v /\ ra_variant a = v /\ ra_type a = ct_name c /\
                 ra_flag_name a = ct_name c /\ In arch (ra_archs a) /\ ra_size a <= len /\
                 cpu_from_flags read_cpu_mask read_cpu_all_bits (flags_of a) = ra_flag a /\
                 forallb (field_inside (ra_size a)) (ct_fields c) = true) /\
  (forall c, In c all_contexts ->
     exists a arch, In a read_arms /\ In arch (ra_archs a) /\ ra_type a = ct_name c /\ ra_variant a = ct_variant c /\
       forall len flags_of, ra_size a <= len -> cpu_from_flags read_cpu_mask read_cpu_all_bits (flags_of a) = ra_flag a ->
         read_dispatch read_arms read_cpu_mask read_cpu_all_bits arch len flags_of = RVariant (ct_variant c)) /\
  (forall a b f, In a read_arms -> In b read_arms ->
     cpu_from_flags read_cpu_mask read_cpu_all_bits f = ra_flag a ->
     cpu_from_flags read_cpu_mask read_cpu_all_bits f = ra_flag b -> a = b) /\
  (forall arch len flags_of, (forall a, In a read_arms -> ~ In arch (ra_archs a)) ->
     read_dispatch read_arms read_cpu_mask read_cpu_all_bits arch len flags_of = RUnknownCpu).
Proof.
  pose proof read_tables_ok as OK.
  split; [exact (read_sound _ _ _ _ OK)|]. split; [exact (read_complete _ _ _ _ OK)|].
  split; [exact (read_flags_exclusive _ _ _ _ OK) | exact (read_unknown read_arms read_cpu_mask read_cpu_all_bits)].
Qed.
Print Assumptions c18_read_dispatch.
(* ... and WHICH architecture selects which type: the PROCESSOR_ARCHITECTURE_* numbers of WinNT.h and Breakpad's extensions
   (written out here, not taken from the source) select exactly these variants, and every other number - ALL other
   integers - has no arm (UnknownCpuContext) *)
Definition arch_variants : list (Z * name) :=
  [(0, [88; 56; 54]); (10, [88; 56; 54]);                       (* INTEL, IA32_ON_WIN64 -> X86 *)
   (9, [65; 109; 100; 54; 52]);                                  (* AMD64 -> Amd64 *)
   (3, [80; 112; 99]); (32770, [80; 112; 99; 54; 52]);           (* PPC -> Ppc, PPC64 (0x8002) -> Ppc64 *)
   (32769, [83; 112; 97; 114; 99]);                              (* SPARC (0x8001) -> Sparc *)
   (5, [65; 114; 109]); (12, [65; 114; 109; 54; 52]);            (* ARM -> Arm, ARM64 -> Arm64 *)
   (32771, [79; 108; 100; 65; 114; 109; 54; 52]);                (* ARM64_OLD (0x8003) -> OldArm64 *)
   (1, [77; 105; 112; 115])].                                    (* MIPS -> Mips *)
Theorem c18_read_architectures :
  (forall arch v, In (arch, v) arch_variants ->
     exists a, find_read_arm read_arms arch = Some a /\ ra_variant a = v) /\
  (forall arch, ~ In arch (map fst arch_variants) -> find_read_arm read_arms arch = None).
Proof.
  split.
  - assert (H : forallb (fun p => match find_read_arm read_arms (fst p) with
                                  | Some a => name_eqb (ra_variant a) (snd p) | None => false end) arch_variants = true)
      by (vm_compute; reflexivity).
    intros arch v Hin. rewrite forallb_forall in H. specialize (H _ Hin). cbn [fst snd] in H.
    destruct (find_read_arm read_arms arch) as [a|]; [|discriminate]. exists a. split; [reflexivity|].
    apply name_eqb_eq. exact H.
  - intros arch Hn. destruct (find_read_arm read_arms arch) as [a|] eqn:E; [|reflexivity]. exfalso. apply Hn.
    destruct (find_read_arm_In _ _ _ E) as [Ha Hi].
    assert (H : forallb (fun a => forallb (fun x => existsb (Z.eqb x) (map fst arch_variants)) (ra_archs a)) read_arms = true)
      by (vm_compute; reflexivity).
    rewrite forallb_forall in H. specialize (H a Ha). rewrite forallb_forall in H. specialize (H arch Hi).
    apply existsb_exists in H. destruct H as [y [Hy Ey]]. apply Z.eqb_eq in Ey. subst y. exact Hy.
Qed.
Print Assumptions c18_read_architectures.
(* x86: architecture 0 (INTEL) and 10 (IA32_ON_WIN64) with CONTEXT_X86 | CONTROL | XSTATE bit in a 716-byte buffer -> X86;
   one byte short, or AMD64's constant -> ReadFailure; architecture 0x8004 (MIPS64, known to from_u16 but without an arm)
   and 77 -> UnknownCpuContext *)
Example c18_nonvacuous_read :
  let rd := read_dispatch read_arms read_cpu_mask read_cpu_all_bits in
  rd 0 716 (fun _ => 65601) = RVariant [88; 56; 54] /\ rd 10 8192 (fun _ => 65536) = RVariant [88; 56; 54] /\
  rd 0 715 (fun _ => 65601) = RReadFailure /\ rd 0 716 (fun _ => 1048576) = RReadFailure /\
  rd 9 1232 (fun _ => 1048576 + 2 ^ 32) = RVariant [65; 109; 100; 54; 52] /\
  rd 32772 8192 (fun _ => 524288) = RUnknownCpu /\ rd 77 8192 (fun _ => 65536) = RUnknownCpu.
Proof. cbv zeta. repeat split; vm_compute; reflexivity. Qed.

(* ... and WHAT the context read holds (scroll's derive(Pread): declared order, packed; byte offsets regenerated from
   format.rs): for every accepted name n, ALL byte strings and both byte orders, get_register_always(n) on the deserialised
   context is the little- / big-endian number in the size_of::<Register>() bytes at the offset of n's location; it fits the
   Register type (so the model's unbounded values never leave u32 / u64 on contexts that were read); and names with different
   canonical names read disjoint byte ranges *)
Theorem c18_read_registers : forall c, In c all_contexts -> forall n, In n (accepted c) -> forall big bytes,
  exists off, loc_offset c (loc_of c n) = Some off /\ 0 <= off /\
    get_always c (decode_base c big bytes) n = Ret (decode big bytes off (Z.to_nat (ct_width c / 8))) /\
    ((forall k, 0 <= bytes k < 256) -> 0 <= decode big bytes off (Z.to_nat (ct_width c / 8)) < 2 ^ ct_width c) /\
    (forall m, In m (accepted c) -> memoize c m <> memoize c n ->
       exists off', loc_offset c (loc_of c m) = Some off' /\ (off + ct_width c / 8 <= off' \/ off' + ct_width c / 8 <= off)).
Proof. intros c Hc. exact (read_registers c (all_facts c Hc)). Qed.
Print Assumptions c18_read_registers.
(* X86: eip is the u32 at byte 184, esp at 196; bytes 1,2,3,4 at 184.. read as 0x04030201 little-endian, 0x01020304 big-endian;
   the correspondence driver's pattern base is this decoding of the harness's byte pattern, on every accepted name of every table *)
Example c18_nonvacuous_read_registers :
  let bytes : Z -> Z := fun k => if (184 <=? k) && (k <? 188) then k - 183 else 0 in
  loc_offset ctx_x86 (loc_of ctx_x86 n_eip) = Some 184 /\ loc_offset ctx_x86 (loc_of ctx_x86 n_esp) = Some 196 /\
  get_always ctx_x86 (decode_base ctx_x86 false bytes) n_eip = Ret 67305985 /\
  get_always ctx_x86 (decode_base ctx_x86 true bytes) n_eip = Ret 16909060 /\
  forallb (fun c => forallb (fun n => let l := loc_of c n in
                       RM.C18.Driver.pattern_base c (l_field l) (l_idx l) =?
                       decode_base c false RM.C18.Driver.pattern_byte (l_field l) (l_idx l)) (accepted c)) all_contexts = true.
Proof. cbv zeta. repeat split; vm_compute; reflexivity. Qed.

(* F-C18a: the SPARC table as it was before the fix (same get/set arms, no memoize_register
   and no register_is_valid arms): "o6" is accepted by set_register and read back by
   get_register_always, but the checked accessor reports it absent, and validity of g_r14
   (the same location) is not honoured for o6. *)
Definition sparc_before_fix : ctx_table :=
  {| ct_name := ct_name ctx_sparc; ct_variant := ct_variant ctx_sparc; ct_width := ct_width ctx_sparc;
     ct_registers := ct_registers ctx_sparc; ct_get := ct_get ctx_sparc; ct_set := ct_set ctx_sparc; ct_set_val := ct_set_val ctx_sparc;
     ct_memo := []; ct_memo_tbl := ct_memo_tbl ctx_sparc; ct_memo_cmp := 0; ct_groups := [];
     ct_valid_all := ct_valid_all ctx_sparc; ct_valid_default := ct_valid_default ctx_sparc; ct_get_cond := ct_get_cond ctx_sparc; ct_get_val := ct_get_val ctx_sparc; ct_md_get_val := ct_md_get_val ctx_sparc;
     ct_fmt_prefix := ct_fmt_prefix ctx_sparc; ct_fmt_zero := ct_fmt_zero ctx_sparc; ct_fmt_mul := ct_fmt_mul ctx_sparc;
     ct_sp_name := ct_sp_name ctx_sparc; ct_ip_name := ct_ip_name ctx_sparc;
     ct_sp_acc := ct_sp_acc ctx_sparc; ct_ip_acc := ct_ip_acc ctx_sparc; ct_iter_all := ct_iter_all ctx_sparc; ct_iter_some := ct_iter_some ctx_sparc; ct_regs_direct := ct_regs_direct ctx_sparc; ct_next_slice := ct_next_slice ctx_sparc; ct_next_set := ct_next_set ctx_sparc;
     ct_next_val := ct_next_val ctx_sparc; ct_md_regs_val := ct_md_regs_val ctx_sparc; ct_md_size := ct_md_size ctx_sparc; ct_md_fmt := ct_md_fmt ctx_sparc;
     ct_fields := ct_fields ctx_sparc;
     ct_md_get := ct_md_get ctx_sparc; ct_md_valid := ct_md_valid ctx_sparc; ct_md_filter := ct_md_filter ctx_sparc;
     ct_gpr := ct_gpr ctx_sparc |}.
Definition n_o6 : name := [111; 54].
Definition n_g_r14 : name := [103; 95; 114; 49; 52].
Theorem c18_sparc_before_fix_refuted :
  let c := sparc_before_fix in let rf0 : regfile := fun _ _ => 0 in
  exists l, set_reg c rf0 n_o6 77 = Ret (Some (upd rf0 l 77)) /\
            get_always c (upd rf0 l 77) n_o6 = Ret 77 /\
            get_register c (upd rf0 l 77) n_o6 VAll = Ret None /\
            loc_eqb (loc_of c n_o6) (loc_of c n_g_r14) = true /\
            is_valid c n_g_r14 (VSome [n_g_r14]) = true /\
            is_valid c n_o6 (VSome [n_g_r14]) = false /\
            diagnose c <> [].
Proof.
  cbv zeta. exists (mkloc [103; 95; 114] 14 64 32).
  repeat split; try (vm_compute; reflexivity). vm_compute. discriminate.
Qed.
Print Assumptions c18_sparc_before_fix_refuted.

(* the correspondence driver's closed form of the harness's byte pattern (word j = 0x5A000000 + j, little
   endian) against the byte-level definition, on aligned offsets incl. the ends of the 8 KiB pattern *)
Example c18_pattern_closed_form :
  forallb (fun off => (RM.C18.Driver.pattern_value 32 off =? RM.C18.Driver.le_value 4 off) &&
                      (RM.C18.Driver.pattern_value 64 off =? RM.C18.Driver.le_value 8 off))
          [0; 4; 8; 140; 184; 1020; 1024; 4092; 8180] = true.
Proof. vm_compute. reflexivity. Qed.
Print Assumptions c18_pattern_closed_form.

(* ---- non-vacuity ---- *)
Example c18_nonvacuous_tables :
  length all_contexts = 9%nat /\
  forallb (fun c => (10 <=? Z.of_nat (length (accepted c))) && (10 <=? Z.of_nat (length (ct_registers c)))) all_contexts = true.
Proof. split; vm_compute; reflexivity. Qed.
(* ARM: "r13" is an alias of "sp"; writing r13 is read back through sp and the dedicated accessor *)
Definition n_r13 : name := [114; 49; 51].
Definition n_sp : name := [115; 112].
Example c18_nonvacuous_arm :
  let rf0 : regfile := fun _ _ => 5 in
  In ctx_arm all_contexts /\ In n_r13 (accepted ctx_arm) /\ memoize ctx_arm n_r13 = Some n_sp /\
  exists rf1, set_reg ctx_arm rf0 n_r13 9 = Ret (Some rf1) /\
              get_always ctx_arm rf1 n_sp = Ret 9 /\ md_stack_pointer ctx_arm rf1 = Ret 9 /\
              get_register ctx_arm rf1 n_sp (VSome [n_r13]) = Ret (Some 9) /\
              get_register ctx_arm rf1 n_sp (VSome []) = Ret None /\
              get_always ctx_arm rf1 [114; 49; 50] = Ret 5.
Proof.
  cbv zeta. split; [in_list|]. split; [vm_compute; tauto|]. split; [vm_compute; reflexivity|].
  eexists. split; [vm_compute; reflexivity|]. repeat split; vm_compute; reflexivity.
Qed.
(* c18_exact_names_only / c18_case_sensitive: "RIP" vs "rip" on AMD64 *)
Example c18_nonvacuous_case :
  In ctx_amd64 all_contexts /\ In n_rip (accepted ctx_amd64) /\ n_RIP <> n_rip /\
  map lower n_RIP = map lower n_rip /\ ~ In n_RIP (accepted ctx_amd64) /\
  memoize ctx_amd64 n_RIP = None /\ get_register ctx_amd64 (fun _ _ => 7) n_RIP VAll = Ret None /\
  get_register ctx_amd64 (fun _ _ => 7) n_rip VAll = Ret (Some 7).
Proof.
  split; [in_list|]. split; [vm_compute; tauto|]. split; [discriminate|].
  split; [reflexivity|]. split; [vm_compute; intuition discriminate|].
  repeat split; vm_compute; reflexivity.
Qed.
(* c18_accessors_follow_names / c18_md_roundtrip: ARM, a write through the alias r15 reaches
   get_instruction_pointer, the type-erased reads and format_register; a write through r12 does not *)
Definition n_r15 : name := [114; 49; 53].
Example c18_nonvacuous_accessors :
  let rf0 : regfile := fun _ _ => 5 in let rf1 := upd rf0 l_arm_pc 32769 in
  In n_r15 (accepted ctx_arm) /\ find_arm n_r15 (ct_set ctx_arm) = Some l_arm_pc /\
  memoize ctx_arm n_r15 = memoize ctx_arm (ct_ip_name ctx_arm) /\
  md_instruction_pointer ctx_arm rf1 = Ret 32769 /\ md_stack_pointer ctx_arm rf1 = Ret 5 /\
  md_get_always ctx_arm rf1 n_pc = Ret 32769 /\ md_get_register ctx_arm rf1 n_pc (VSome [n_r15]) = Ret (Some 32769) /\
  md_get_register ctx_arm rf1 n_pc (VSome [n_sp]) = Ret None /\
  format_register ctx_arm rf1 n_r15 = Ret [48; 120; 48; 48; 48; 48; 56; 48; 48; 49] /\
  cpu_iter_next ctx_arm rf1 (KSet, [n_pc; n_sp]) = Ret (Some (n_pc, 32769), (KSet, [n_sp])).
Proof. cbv zeta. split; [vm_compute; tauto|]. repeat split; vm_compute; reflexivity. Qed.
(* an unknown name: absent, refused, and get_register_always would panic *)
Example c18_nonvacuous_unknown :
  memoize ctx_amd64 [102; 111; 111] = None /\ get_always ctx_amd64 (fun _ _ => 0) [102; 111; 111] = Panic 1 /\
  get_register ctx_amd64 (fun _ _ => 0) [102; 111; 111] VAll = Ret None.
Proof. repeat split; vm_compute; reflexivity. Qed.

(* F-C18b, exactly.  For the nine tables, ALL register files, ALL strings n and ALL validity sets s (any strings):
   - under validity All the checked read never panics;
   - get_register(n, Some(s)) reaches unreachable!() (Panic 1) exactly when n is a member of s that is not one of the
     exact spellings set_register / get_register_always know; in every other case it returns (a value or None);
     MinidumpContext::get_register behaves identically;
   - CpuContext::valid_registers(Some(s)), drained, reaches unreachable!() exactly when s has a member that is not an
     accepted spelling; otherwise it lists the members with their values;
   - MinidumpContext::valid_registers never panics, whatever s holds (it walks REGISTERS and filters).
   So the known-finding class is exactly: a validity set with a member the context does not know, observed through
   get_register on THAT member or through the CpuContext set enumeration - nothing else. *)
Theorem c18_unreachable_exactly : forall c, In c all_contexts -> forall rf n,
  (exists o, get_register c rf n VAll = Ret o) /\
  (forall s,
     (get_register c rf n (VSome s) = Panic 1 <-> In n s /\ ~ In n (accepted c)) /\
     (~ (In n s /\ ~ In n (accepted c)) -> exists o, get_register c rf n (VSome s) = Ret o) /\
     md_get_register c rf n (VSome s) = get_register c rf n (VSome s) /\
     (cpu_valid_registers c rf (VSome s) = Panic 1 <-> exists a, In a s /\ ~ In a (accepted c)) /\
     ((forall a, In a s -> In a (accepted c)) -> cpu_valid_registers c rf (VSome s) = Ret (listing c rf s)) /\
     (exists l, md_valid_registers c rf (VSome s) = Ret l)).
Proof. intros c Hc. exact (unreachable_exactly c (all_facts c Hc)). Qed.
Print Assumptions c18_unreachable_exactly.
(* both sides of the characterisation occur: a known name under a set holding an unknown one reads normally *)
Example c18_nonvacuous_unreachable :
  let foo : name := [102; 111; 111] in let rf : regfile := fun _ _ => 6 in
  In foo [foo; n_eip] /\ ~ In foo (accepted ctx_x86) /\
  get_register ctx_x86 rf foo (VSome [foo; n_eip]) = Panic 1 /\
  get_register ctx_x86 rf n_eip (VSome [foo; n_eip]) = Ret (Some 6) /\
  get_register ctx_x86 rf n_esp (VSome [foo; n_eip]) = Ret None /\
  get_register ctx_x86 rf [98; 97; 114] (VSome [foo; n_eip]) = Ret None /\
  cpu_valid_registers ctx_x86 rf (VSome [foo; n_eip]) = Panic 1 /\
  md_valid_registers ctx_x86 rf (VSome [foo; n_eip]) = Ret [(n_eip, 6)].
Proof.
  cbv zeta. split; [left; reflexivity|]. split; [vm_compute; intuition discriminate|].
  repeat split; vm_compute; reflexivity.
Qed.

(* F-C18b (known finding): the class excluded by the hypothesis "s holds only known names" in
   c18_unknown_absent_no_panic / c18_enumerations.  [known_unknown_member c s] is that class; the
   witness shows the checked accessor and the set enumeration reach the unreachable!() arm. *)
Definition known_unknown_member (c : ctx_table) (s : list name) : bool :=
  existsb (fun a => negb (is_some (memoize c a))) s.
Lemma c18_known_class_complement : forall c s,
  known_unknown_member c s = false -> forall a, In a s -> memoize c a <> None.
Proof.
  intros c s H a Ha E. unfold known_unknown_member in H.
  assert (X : existsb (fun a => negb (is_some (memoize c a))) s = true).
  { apply existsb_exists. exists a. split; [exact Ha | rewrite E; reflexivity]. }
  rewrite X in H. discriminate.
Qed.
Print Assumptions c18_known_class_complement.
Theorem c18_unknown_member_known_witness :
  let foo : name := [102; 111; 111] in let rf : regfile := fun _ _ => 0 in
  In ctx_x86 all_contexts /\ known_unknown_member ctx_x86 [foo] = true /\ memoize ctx_x86 foo = None /\
  get_register ctx_x86 rf foo (VSome [foo]) = Panic 1 /\
  cpu_valid_registers ctx_x86 rf (VSome [foo]) = Panic 1.
Proof. cbv zeta. split; [in_list|]. repeat split; vm_compute; reflexivity. Qed.
Print Assumptions c18_unknown_member_known_witness.
