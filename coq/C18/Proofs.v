(* C18/Proofs.v — from "the checker finds nothing wrong with the generated tables"
   (a computation over the finite name sets) to statements about ALL register files and
   ALL values. *)
From Coq Require Import Lia.
From RM Require Import C18.Check C18.Format Gen.ContextTables.
Open Scope Z_scope.

(* ------------------------------------------------------------------ small facts *)
Lemma name_eqb_eq : forall a b, name_eqb a b = true <-> a = b.
Proof.
  induction a as [|x a IH]; intros [|y b]; cbn [name_eqb]; split; intro H; try reflexivity; try discriminate.
  - apply andb_true_iff in H. destruct H as [H1 H2]. apply Z.eqb_eq in H1. apply IH in H2. subst. reflexivity.
  - inversion H; subst. apply andb_true_iff. split; [apply Z.eqb_refl | apply IH; reflexivity].
Qed.
Lemma name_eqb_refl : forall a, name_eqb a a = true.
Proof. intro a. apply name_eqb_eq. reflexivity. Qed.

Lemma mem_In : forall n l, mem n l = true <-> In n l.
Proof.
  intros n l. unfold mem. rewrite existsb_exists. split.
  - intros [x [Hx He]]. apply name_eqb_eq in He. subst x. exact Hx.
  - intro H. exists n. split; [exact H | apply name_eqb_refl].
Qed.

Lemma find_arm_In : forall A n (arms : list (list name * A)) x,
  find_arm n arms = Some x -> In n (names_of arms).
Proof.
  intros A n arms. induction arms as [|[ps y] r IH]; intros x H; cbn [find_arm] in H; [discriminate|].
  unfold names_of. cbn [map fst List.concat]. apply in_or_app.
  destruct (mem n ps) eqn:E.
  - left. apply mem_In. exact E.
  - right. exact (IH x H).
Qed.

Lemma find_arm_snd : forall n (arms : list (list name * name)) m,
  find_arm n arms = Some m -> In m (map snd arms).
Proof.
  intros n arms. induction arms as [|[ps y] r IH]; intros m H; cbn [find_arm] in H; [discriminate|].
  cbn [map snd]. destruct (mem n ps).
  - inversion H. left. reflexivity.
  - right. exact (IH m H).
Qed.

Lemma is_some_true : forall A (o : option A), is_some o = true -> exists x, o = Some x.
Proof. intros A [x|] H; [exists x; reflexivity | discriminate]. Qed.

Lemma opt_str_eqb_spec : forall a b, opt_str_eqb a b = true <-> a = b.
Proof.
  intros [x|] [y|]; cbn [opt_str_eqb]; split; intro H; try reflexivity; try discriminate.
  - apply name_eqb_eq in H. subst. reflexivity.
  - inversion H. apply name_eqb_refl.
Qed.

Lemma strs_eqb_eq : forall a b, strs_eqb a b = true -> a = b.
Proof.
  induction a as [|x a IH]; intros [|y b] H; cbn [strs_eqb] in H; try discriminate; [reflexivity|].
  apply andb_true_iff in H. destruct H as [H1 H2]. apply name_eqb_eq in H1. apply IH in H2. subst. reflexivity.
Qed.

Lemma loc_eqb_iff : forall a b, loc_eqb a b = true <-> l_field a = l_field b /\ l_idx a = l_idx b.
Proof.
  intros a b. unfold loc_eqb. rewrite andb_true_iff, name_eqb_eq, Z.eqb_eq. reflexivity.
Qed.

Lemma rf_get_upd : forall rf b v a, rf_get (upd rf b v) a = if loc_eqb a b then v else rf_get rf a.
Proof. intros. reflexivity. Qed.

Lemma rf_get_eq : forall rf a b, loc_eqb a b = true -> rf_get rf a = rf_get rf b.
Proof. intros rf a b H. apply loc_eqb_iff in H. destruct H as [H1 H2]. unfold rf_get. rewrite H1, H2. reflexivity. Qed.

Lemma name_eqb_sym : forall a b, name_eqb a b = name_eqb b a.
Proof.
  intros a b. destruct (name_eqb a b) eqn:E.
  - apply name_eqb_eq in E. subst. symmetry. apply name_eqb_refl.
  - destruct (name_eqb b a) eqn:E2; [|reflexivity]. apply name_eqb_eq in E2. subst. rewrite name_eqb_refl in E. discriminate.
Qed.

Lemma plain_read_eval : forall e l, plain_read e = Some l -> loc_ok l = true ->
  forall rf env, aeval rf env e = Ret (rf_get rf l).
Proof.
  induction e; intros l0 H Hok rf env; cbn [plain_read] in H; try discriminate.
  - inversion H; subst. cbn [aeval]. unfold read_loc. rewrite Hok. reflexivity.
  - destruct (from <=? to) eqn:E; [|discriminate].
    cbn [aeval]. rewrite (IHe l0 H Hok rf env). cbn [obind]. rewrite E. reflexivity.
Qed.

(* with the exact comparison, default_memoize_register(REGISTERS, reg) is "reg if it is in REGISTERS" *)
Lemma find_exact : forall n l, find (fun r => name_eqb r n) l = if mem n l then Some n else None.
Proof.
  intros n l. induction l as [|a l IH]; [reflexivity|].
  cbn [find]. unfold mem. cbn [existsb]. rewrite (name_eqb_sym n a).
  destruct (name_eqb a n) eqn:E.
  - apply name_eqb_eq in E. subst. reflexivity.
  - exact IH.
Qed.
Lemma memoize_exact : forall c, ct_memo_cmp c = 0 -> ct_memo_tbl c = ct_registers c -> forall n,
  memoize c n = match find_arm n (ct_memo c) with
                | Some m => Some m
                | None => if mem n (ct_registers c) then Some n else None
                end.
Proof.
  intros c H T n. unfold memoize, memo_eqb. rewrite H, T. cbn [Z.eqb]. rewrite find_exact. reflexivity.
Qed.

Lemma plain_var_eval : forall e x, plain_var e x = true -> forall rf env v,
  lookup_var x env = Some v -> aeval rf env e = Ret v.
Proof.
  induction e; intros x0 H rf env v Hv; cbn [plain_var] in H; try discriminate.
  - apply name_eqb_eq in H. subst. cbn [aeval]. rewrite Hv. reflexivity.
  - apply andb_true_iff in H. destruct H as [E H].
    cbn [aeval]. rewrite (IHe x0 H rf env v Hv). cbn [obind]. rewrite E. reflexivity.
Qed.
Lemma plain_bvar_eval : forall e x, plain_bvar e x = true -> forall rf env v,
  lookup_var x env = Some v -> beval rf env e = Ret (negb (v =? 0)).
Proof.
  intros e x H rf env v Hv. destruct e; cbn [plain_bvar] in H; try discriminate.
  apply name_eqb_eq in H. subst. cbn [beval]. rewrite Hv. reflexivity.
Qed.
Lemma plain_bvar_pure : forall e x, plain_bvar e x = true -> forall t, bpure [(x, t)] e = t.
Proof.
  intros e x H t. destruct e; cbn [plain_bvar] in H; try discriminate.
  cbn [bpure lookup_b]. rewrite H. reflexivity.
Qed.
Lemma filterM_ret : forall A (p : A -> outcome bool) (q : A -> bool) l,
  (forall a, In a l -> p a = Ret (q a)) -> filterM p l = Ret (filter q l).
Proof.
  intros A p q l. induction l as [|a l IH]; intro H; [reflexivity|].
  cbn [filterM filter]. rewrite (H a (or_introl eq_refl)). cbn [obind].
  rewrite IH; [|intros b Hb; apply H; right; exact Hb]. cbn [obind]. destruct (q a); reflexivity.
Qed.

Lemma memoize_some_In : forall c, ct_memo_cmp c = 0 -> ct_memo_tbl c = ct_registers c -> forall n m,
  memoize c n = Some m -> In n (ct_registers c ++ names_of (ct_memo c)).
Proof.
  intros c X T n m H. rewrite (memoize_exact c X T) in H. apply in_or_app.
  destruct (find_arm n (ct_memo c)) as [k|] eqn:E.
  - right. exact (find_arm_In _ _ _ _ E).
  - left. destruct (mem n (ct_registers c)) eqn:E2; [|discriminate]. apply mem_In. exact E2.
Qed.

Lemma no_upper_lower : forall n, has_upper n = false -> map lower n = n.
Proof.
  induction n as [|b n IH]; intro H; [reflexivity|].
  unfold has_upper in H. cbn [existsb] in H. apply orb_false_iff in H. destruct H as [H1 H2].
  cbn [map]. unfold lower at 1. rewrite H1. f_equal. apply IH. exact H2.
Qed.

Lemma diag_nil : forall c msg p names, diag c msg p names = [] -> forall n, In n names -> p n = true.
Proof.
  intros c msg p names H n Hn. unfold diag in H. apply map_eq_nil in H.
  destruct (p n) eqn:E; [reflexivity|].
  assert (Hin : In n (filter (fun n => negb (p n)) names)).
  { apply filter_In. split; [exact Hn | rewrite E; reflexivity]. }
  rewrite H in Hin. contradiction.
Qed.

Lemma concat_nil_each : forall A (l : list (list A)), List.concat l = [] -> forall x, In x l -> x = [].
Proof.
  intros A l. induction l as [|a l IH]; intros H x Hx; [contradiction|].
  cbn [List.concat] in H. apply app_eq_nil in H. destruct H as [H1 H2].
  destruct Hx as [Hx|Hx]; [rewrite <- Hx; exact H1 | exact (IH H2 x Hx)].
Qed.

Lemma mapM_ret : forall A B (f : A -> outcome B) (g : A -> B) l,
  (forall a, In a l -> f a = Ret (g a)) -> mapM f l = Ret (map g l).
Proof.
  intros A B f g l. induction l as [|a l IH]; intro H; [reflexivity|].
  cbn [mapM map]. rewrite (H a (or_introl eq_refl)). rewrite IH; [reflexivity|].
  intros b Hb. apply H. right. exact Hb.
Qed.

Lemma filter_all : forall A (p : A -> bool) l, (forall x, In x l -> p x = true) -> filter p l = l.
Proof.
  intros A p l. induction l as [|a l IH]; intro H; [reflexivity|].
  cbn [filter]. rewrite (H a (or_introl eq_refl)). f_equal. apply IH. intros x Hx. apply H. right. exact Hx.
Qed.

Lemma filter_map_fst : forall (p : name -> bool) (g : name -> Z) l,
  filter (fun q : name * Z => p (fst q)) (map (fun n => (n, g n)) l) = map (fun n => (n, g n)) (filter p l).
Proof.
  intros p g l. induction l as [|a l IH]; [reflexivity|].
  cbn [map filter fst]. destruct (p a); [cbn [map]; rewrite IH; reflexivity | exact IH].
Qed.

(* ------------------------------------------------------------------ what an empty diagnosis means *)
Record ctx_facts (c : ctx_table) : Prop := {
  f_tables : forall n, In n (names_of (ct_get c) ++ names_of (ct_set c)) -> ok_tables c n = true;
  f_acc_memo : forall n, In n (accepted c) -> is_some (memoize c n) = true;
  f_memo_acc : forall n, In n (ct_registers c ++ names_of (ct_memo c)) -> is_some (find_arm n (ct_set c)) = true;
  f_memo_target : forall m, In m (map snd (ct_memo c)) -> mem m (ct_registers c) = true;
  f_alias : forall n, In n (accepted c) -> ok_alias c n = true;
  f_valid : forall n, In n (accepted c) -> ok_valid c n = true;
  f_groups_disj : forall n, In n (names_of (ct_groups c)) ->
                  match find_arm n (ct_groups c) with Some b => is_some (disj_alts b) | None => true end = true;
  f_groups : forall n, In n (names_of (ct_groups c)) -> is_some (memoize c n) = true;
  f_sp : ok_special c (ct_sp_acc c) (ct_sp_name c) = true;
  f_ip : ok_special c (ct_ip_acc c) (ct_ip_name c) = true;
  f_regs : forall r, In r (ct_registers c) -> ok_register c r = true;
  f_gpr : strs_eqb (ct_gpr c) (ct_registers c) = true;
  f_valid_all : plain_bvar (ct_valid_all c) v_memo = true;
  f_valid_default : plain_bvar (ct_valid_default c) v_contains = true;
  f_get_cond : plain_bvar (ct_get_cond c) v_iv = true;
  f_md_get : plain_var (ct_md_get c) v_ga = true;
  f_md_valid : plain_bvar (ct_md_valid c) v_iv = true;
  f_md_filter : plain_bvar (ct_md_filter c) v_iv = true;
  f_fmt : ct_fmt_prefix c = [48; 120] /\ ct_fmt_zero c = true /\ ct_fmt_mul c = 2;
  f_width : ct_width c = 32 \/ ct_width c = 64;
  f_cmp : ct_memo_cmp c = 0;
  f_lower : forall n, In n (accepted c) -> has_upper n = false;
  f_memo_tbl : ct_memo_tbl c = ct_registers c;
  f_iter_all : ct_iter_all c = NList (ct_registers c);
  f_regs_direct : ct_regs_direct c = None \/ ct_regs_direct c = Some (NList (ct_registers c));
  f_iter_some : ct_iter_some c = NSet;
  f_next : ct_next_slice c = 0 /\ ct_next_set c = 0 /\ plain_var (ct_next_val c) v_ga = true;
  f_md_regs : plain_var (ct_md_regs_val c) v_mga = true;
  f_md_size : plain_var (ct_md_size c) v_size = true;
  f_get_val : plain_var (ct_get_val c) v_ga = true /\ plain_var (ct_md_get_val c) v_mga = true;
  f_md_fmt : match ct_md_fmt c with
             | None => True
             | Some (p, z, d) => p = ct_fmt_prefix c /\ z = ct_fmt_zero c /\ d = register_size c * ct_fmt_mul c
             end;
  f_layout : forall n, In n (accepted c) -> ok_layout c n = true;
  f_disjoint : forall n, In n (accepted c) -> ok_disjoint c n = true
}.

Lemma facts_of_diagnose : forall c, diagnose c = [] -> ctx_facts c.
Proof.
  intros c H. unfold diagnose in H.
  apply app_eq_nil in H. destruct H as [H1 H].
  apply app_eq_nil in H. destruct H as [H2 H].
  apply app_eq_nil in H. destruct H as [H3 H].
  apply app_eq_nil in H. destruct H as [H4 H].
  apply app_eq_nil in H. destruct H as [H5 H].
  apply app_eq_nil in H. destruct H as [H6 H].
  apply app_eq_nil in H. destruct H as [H6b H].
  apply app_eq_nil in H. destruct H as [H7 H].
  apply app_eq_nil in H. destruct H as [H8 H].
  apply app_eq_nil in H. destruct H as [H9 H].
  apply app_eq_nil in H. destruct H as [H10 H].
  apply app_eq_nil in H. destruct H as [H11 H].
  apply app_eq_nil in H. destruct H as [E1 H].
  apply app_eq_nil in H. destruct H as [E2 H].
  apply app_eq_nil in H. destruct H as [E3 H].
  apply app_eq_nil in H. destruct H as [D1 H].
  apply app_eq_nil in H. destruct H as [D2 H].
  apply app_eq_nil in H. destruct H as [D3 H].
  apply app_eq_nil in H. destruct H as [D5 H].
  apply app_eq_nil in H. destruct H as [D4 H].
  apply app_eq_nil in H. destruct H as [H12 H].
  apply app_eq_nil in H. destruct H as [H13 H].
  apply app_eq_nil in H. destruct H as [G1 H].
  apply app_eq_nil in H. destruct H as [G2 H].
  apply app_eq_nil in H. destruct H as [G2b H].
  apply app_eq_nil in H. destruct H as [G3 H].
  apply app_eq_nil in H. destruct H as [G4 H].
  apply app_eq_nil in H. destruct H as [G5 H].
  apply app_eq_nil in H. destruct H as [G6 H].
  apply app_eq_nil in H. destruct H as [G9 H].
  apply app_eq_nil in H. destruct H as [G10 H].
  apply app_eq_nil in H. destruct H as [G7 G8].
  constructor.
  - exact (diag_nil _ _ _ _ H1).
  - exact (diag_nil _ _ _ _ H2).
  - exact (diag_nil _ _ _ _ H3).
  - exact (diag_nil _ _ _ _ H4).
  - exact (diag_nil _ _ _ _ H5).
  - exact (diag_nil _ _ _ _ H6).
  - exact (diag_nil _ _ _ _ H6b).
  - exact (diag_nil _ _ _ _ H7).
  - exact (diag_nil _ _ _ _ H8 _ (or_introl eq_refl)).
  - exact (diag_nil _ _ _ _ H9 _ (or_introl eq_refl)).
  - exact (diag_nil _ _ _ _ H10).
  - exact (diag_nil _ _ _ _ H11 _ (or_introl eq_refl)).
  - exact (diag_nil _ _ _ _ E1 _ (or_introl eq_refl)).
  - exact (diag_nil _ _ _ _ E2 _ (or_introl eq_refl)).
  - exact (diag_nil _ _ _ _ E3 _ (or_introl eq_refl)).
  - exact (diag_nil _ _ _ _ D1 _ (or_introl eq_refl)).
  - exact (diag_nil _ _ _ _ D2 _ (or_introl eq_refl)).
  - exact (diag_nil _ _ _ _ D3 _ (or_introl eq_refl)).
  - pose proof (diag_nil _ _ _ _ D5 _ (or_introl eq_refl)) as X. cbv beta in X.
    apply andb_true_iff in X. destruct X as [X X3]. apply andb_true_iff in X. destruct X as [X1 X2].
    apply name_eqb_eq in X1. apply Z.eqb_eq in X3. repeat split; assumption.
  - pose proof (diag_nil _ _ _ _ D4 _ (or_introl eq_refl)) as X. cbv beta in X.
    apply orb_true_iff in X. destruct X as [X|X]; apply Z.eqb_eq in X; [left | right]; exact X.
  - apply Z.eqb_eq. exact (diag_nil _ _ _ _ H12 _ (or_introl eq_refl)).
  - intros n Hn. pose proof (diag_nil _ _ _ _ H13 n Hn) as X. apply negb_true_iff in X. exact X.
  - apply strs_eqb_eq. exact (diag_nil _ _ _ _ G1 _ (or_introl eq_refl)).
  - pose proof (diag_nil _ _ _ _ G2 _ (or_introl eq_refl)) as X. cbv beta in X. unfold src_is_list in X.
    destruct (ct_iter_all c) as [l|]; [|discriminate]. apply strs_eqb_eq in X. rewrite X. reflexivity.
  - pose proof (diag_nil _ _ _ _ G2b _ (or_introl eq_refl)) as X. cbv beta in X.
    destruct (ct_regs_direct c) as [[l|]|]; [right | discriminate | left; reflexivity].
    unfold src_is_list in X. apply strs_eqb_eq in X. rewrite X. reflexivity.
  - pose proof (diag_nil _ _ _ _ G3 _ (or_introl eq_refl)) as X. cbv beta in X.
    destruct (ct_iter_some c); [discriminate | reflexivity].
  - pose proof (diag_nil _ _ _ _ G4 _ (or_introl eq_refl)) as X. cbv beta in X.
    apply andb_true_iff in X. destruct X as [X X3]. apply andb_true_iff in X. destruct X as [X1 X2].
    apply Z.eqb_eq in X1. apply Z.eqb_eq in X2. repeat split; assumption.
  - exact (diag_nil _ _ _ _ G5 _ (or_introl eq_refl)).
  - exact (diag_nil _ _ _ _ G6 _ (or_introl eq_refl)).
  - pose proof (diag_nil _ _ _ _ G9 _ (or_introl eq_refl)) as X. cbv beta in X. apply andb_true_iff in X. exact X.
  - pose proof (diag_nil _ _ _ _ G10 _ (or_introl eq_refl)) as X. cbv beta in X.
    destruct (ct_md_fmt c) as [[[p z] d]|]; [|exact I].
    apply andb_true_iff in X. destruct X as [X X3]. apply andb_true_iff in X. destruct X as [X1 X2].
    apply name_eqb_eq in X1. apply Bool.eqb_prop in X2. apply Z.eqb_eq in X3. repeat split; assumption.
  - exact (diag_nil _ _ _ _ G7).
  - exact (diag_nil _ _ _ _ G8).
Qed.

(* The one computational step: the checker run on the nine generated tables.  If a table
   in context.rs is edited so that an obligation breaks, this is the line that fails, and
   Coq prints the list of (context type: problem, register name) pairs it cannot unify
   with []. *)
Lemma tables_diagnosis_empty : map show_diag (List.concat (map diagnose all_contexts)) = [].
Proof. vm_compute. reflexivity. Qed.

Lemma all_facts : forall c, In c all_contexts -> ctx_facts c.
Proof.
  intros c Hc. apply facts_of_diagnose.
  apply (concat_nil_each _ _ (map_eq_nil _ _ tables_diagnosis_empty)). apply in_map. exact Hc.
Qed.

(* ------------------------------------------------------------------ per-name consequences *)
Section WithFacts.
Variable c : ctx_table.
Hypothesis F : ctx_facts c.

(* the generated conditions are the plain calls *)
Lemma is_valid_all : forall n, is_valid c n VAll = is_some (memoize c n).
Proof. intro n. cbn [is_valid]. apply (plain_bvar_pure _ _ (f_valid_all c F)). Qed.
Lemma disj_alts_bset : forall n s b l, disj_alts b = Some l -> bset n s b = existsb (fun a => mem a s) l.
Proof.
  intros n s b. induction b; intros l H; cbn [disj_alts] in H; try discriminate.
  - cbn [bset]. destruct (strip_prefix has_prefix x) as [a|] eqn:E; [|discriminate]. inversion H; subst l.
    destruct (name_eqb x v_contains) eqn:Q.
    + apply name_eqb_eq in Q. subst x. vm_compute in E. discriminate.
    + cbn [existsb]. rewrite orb_false_r. reflexivity.
  - destruct (disj_alts b1) as [l1|]; [|discriminate]. destruct (disj_alts b2) as [l2|]; [|discriminate].
    inversion H; subst l. cbn [bset]. rewrite existsb_app, (IHb1 l1 eq_refl), (IHb2 l2 eq_refl). reflexivity.
Qed.
Lemma is_valid_some : forall n s, is_valid c n (VSome s) = existsb (fun a => mem a s) (alts_of c n).
Proof.
  intros n s. cbn [is_valid]. unfold alts_of. destruct (find_arm n (ct_groups c)) as [b|] eqn:E.
  - pose proof (f_groups_disj c F n (find_arm_In _ _ _ _ E)) as D. rewrite E in D.
    apply is_some_true in D. destruct D as [l Hl]. rewrite Hl. exact (disj_alts_bset n s b l Hl).
  - rewrite (plain_bvar_pure _ _ (f_valid_default c F)). cbn [existsb]. rewrite orb_false_r. reflexivity.
Qed.
Lemma get_register_unfold : forall rf n v,
  get_register c rf n v =
  if is_valid c n v then
    match get_always c rf n with
    | Ret x => Ret (Some x) | Fail => Fail | Panic t => Panic t | OutOfFuel => OutOfFuel
    end
  else Ret None.
Proof.
  intros rf n v. unfold get_register. rewrite (plain_bvar_pure _ _ (f_get_cond c F)).
  destruct (is_valid c n v); [|reflexivity]. destruct (get_always c rf n) as [x| |t|]; try reflexivity.
  cbn [obind]. rewrite (plain_var_eval _ _ (proj1 (f_get_val c F)) rf _ x); [reflexivity|].
  cbn [lookup_var]. rewrite name_eqb_refl. reflexivity.
Qed.

Lemma accepted_tables : forall n, In n (accepted c) ->
  exists a b, (exists e, find_arm n (ct_get c) = Some e /\ plain_read e = Some a) /\
              find_arm n (ct_set c) = Some b /\
              loc_eqb a b = true /\ loc_ok a = true /\ loc_ok b = true /\ loc_of c n = a /\
              (exists sv, find_arm n (ct_set_val c) = Some sv /\ plain_var sv v_val = true).
Proof.
  intros n Hn. pose proof (f_tables c F n (in_or_app _ _ _ (or_intror Hn))) as H.
  unfold ok_tables in H. unfold loc_of, acc_loc.
  destruct (find_arm n (ct_get c)) as [e|]; [|discriminate].
  destruct (find_arm n (ct_set c)) as [b|]; [|discriminate].
  destruct (find_arm n (ct_set_val c)) as [sv|]; [|discriminate].
  apply andb_true_iff in H. destruct H as [H SV].
  destruct (plain_read e) as [a|] eqn:P; [|discriminate].
  apply andb_true_iff in H. destruct H as [H W2].
  apply andb_true_iff in H. destruct H as [H W1].
  apply andb_true_iff in H. destruct H as [H O2].
  apply andb_true_iff in H. destruct H as [H O1].
  exists a, b. split; [exists e; split; [reflexivity | exact P]|].
  repeat split; try assumption. exists sv. split; [reflexivity | exact SV].
Qed.

Lemma memoizable_accepted : forall n m, memoize c n = Some m -> In n (accepted c).
Proof.
  intros n m H. apply (memoize_some_In c (f_cmp c F) (f_memo_tbl c F)) in H. apply (f_memo_acc c F) in H.
  apply is_some_true in H. destruct H as [x Hx]. exact (find_arm_In _ _ _ _ Hx).
Qed.

Lemma get_always_accepted : forall rf n, In n (accepted c) ->
  get_always c rf n = Ret (rf_get rf (loc_of c n)).
Proof.
  intros rf n Hn. destruct (accepted_tables n Hn) as [a [b [[e [Hg Hp]] [Hs [Hab [Hoa [Hob [Hl _]]]]]]]].
  unfold get_always. rewrite Hg, Hl. exact (plain_read_eval e a Hp Hoa rf []).
Qed.

Lemma alias_loc : forall n m, In n (accepted c) -> In m (accepted c) ->
  loc_eqb (loc_of c n) (loc_of c m) = true <-> memoize c n = memoize c m.
Proof.
  intros n m Hn Hm. pose proof (f_alias c F n Hn) as H. unfold ok_alias in H.
  rewrite forallb_forall in H. specialize (H m Hm). apply Bool.eqb_prop in H.
  rewrite H. apply opt_str_eqb_spec.
Qed.

Lemma set_get : forall n, In n (accepted c) -> forall rf v,
  exists l, find_arm n (ct_set c) = Some l /\ loc_ok l = true /\
    set_reg c rf n v = Ret (Some (upd rf l v)) /\
    get_always c (upd rf l v) n = Ret v /\
    get_register c (upd rf l v) n VAll = Ret (Some v) /\
    (forall f i, name_eqb f (l_field l) && (i =? l_idx l) = false -> upd rf l v f i = rf f i) /\
    (forall m, In m (accepted c) -> memoize c m = memoize c n -> get_always c (upd rf l v) m = Ret v) /\
    (forall m, In m (accepted c) -> memoize c m <> memoize c n ->
               get_always c (upd rf l v) m = get_always c rf m).
Proof.
  intros n Hn rf v. destruct (accepted_tables n Hn) as [a [b [_ [Hs [Hab [Hoa [Hob [Hl [sv [Hsv Psv]]]]]]]]]].
  exists b. split; [exact Hs|]. split; [exact Hob|].
  assert (Hga : get_always c (upd rf b v) n = Ret v).
  { rewrite (get_always_accepted _ n Hn), Hl, rf_get_upd, Hab. reflexivity. }
  split.
  { unfold set_reg. rewrite Hs, Hsv.
    rewrite (plain_var_eval sv v_val Psv rf [(v_val, v)] v) by (cbn [lookup_var]; rewrite name_eqb_refl; reflexivity).
    cbn [obind]. rewrite Hob. reflexivity. }
  split; [exact Hga|].
  split.
  { rewrite get_register_unfold, is_valid_all, (f_acc_memo c F n Hn), Hga. reflexivity. }
  split.
  { intros f i Hfi. unfold upd. rewrite Hfi. reflexivity. }
  split.
  - intros m Hm Hmm. rewrite (get_always_accepted _ m Hm), rf_get_upd.
    assert (E : loc_eqb (loc_of c m) b = true).
    { apply (alias_loc m n Hm Hn) in Hmm. rewrite Hl in Hmm.
      apply loc_eqb_iff in Hmm. apply loc_eqb_iff in Hab. apply loc_eqb_iff.
      destruct Hmm as [M1 M2]. destruct Hab as [A1 A2]. split; congruence. }
    rewrite E. reflexivity.
  - intros m Hm Hmm. rewrite !(get_always_accepted _ m Hm), rf_get_upd.
    destruct (loc_eqb (loc_of c m) b) eqn:E; [|reflexivity].
    exfalso. apply Hmm. apply (alias_loc m n Hm Hn). rewrite Hl.
    apply loc_eqb_iff in E. apply loc_eqb_iff in Hab. apply loc_eqb_iff.
    destruct E as [M1 M2]. destruct Hab as [A1 A2]. split; congruence.
Qed.

Lemma canonical_fixpoint : forall n m, memoize c n = Some m -> memoize c m = Some m /\ In m (ct_registers c).
Proof.
  intros n m H. assert (Hm : In m (ct_registers c)).
  { rewrite (memoize_exact c (f_cmp c F) (f_memo_tbl c F)) in H. destruct (find_arm n (ct_memo c)) as [k|] eqn:E.
    - inversion H; subst k. apply find_arm_snd in E. apply (f_memo_target c F) in E. apply mem_In. exact E.
    - destruct (mem n (ct_registers c)) eqn:E2; [|discriminate]. inversion H; subst m. apply mem_In. exact E2. }
  split; [|exact Hm].
  pose proof (f_regs c F m Hm) as R. unfold ok_register in R. apply andb_true_iff in R. destruct R as [R _].
  apply opt_str_eqb_spec. exact R.
Qed.

Lemma aliases_same_location : forall n m, memoize c n = Some m ->
  In n (accepted c) /\ In m (accepted c) /\
  loc_eqb (loc_of c n) (loc_of c m) = true /\
  (forall rf, get_always c rf n = Ret (rf_get rf (loc_of c n)) /\ get_always c rf m = Ret (rf_get rf (loc_of c n))) /\
  memoize c m = Some m /\ In m (ct_registers c).
Proof.
  intros n m H. destruct (canonical_fixpoint n m H) as [Hm Hr].
  pose proof (memoizable_accepted n m H) as An. pose proof (memoizable_accepted m m Hm) as Am.
  assert (E : loc_eqb (loc_of c n) (loc_of c m) = true) by (apply (alias_loc n m An Am); rewrite H, Hm; reflexivity).
  split; [exact An|]. split; [exact Am|]. split; [exact E|]. split; [|split; assumption].
  intro rf. rewrite (get_always_accepted rf n An), (get_always_accepted rf m Am), (rf_get_eq rf _ _ E). split; reflexivity.
Qed.

Lemma unknown_absent : forall n, memoize c n = None ->
  (forall rf, get_register c rf n VAll = Ret None) /\
  (forall rf v, set_reg c rf n v = Ret None) /\
  (forall rf s, (forall a, In a s -> memoize c a <> None) -> get_register c rf n (VSome s) = Ret None).
Proof.
  intros n H. split; [|split].
  - intro rf. rewrite get_register_unfold, is_valid_all, H. reflexivity.
  - intros rf v. unfold set_reg. destruct (find_arm n (ct_set c)) as [l|] eqn:E; [|reflexivity].
    exfalso. apply find_arm_In in E. apply (f_acc_memo c F) in E. rewrite H in E. discriminate.
  - intros rf s Hs. rewrite get_register_unfold, is_valid_some. unfold alts_of.
    destruct (find_arm n (ct_groups c)) as [alts|] eqn:E.
    + exfalso. apply find_arm_In in E. apply (f_groups c F) in E. rewrite H in E. discriminate.
    + cbn [existsb]. destruct (mem n s) eqn:E2; [|reflexivity].
      exfalso. apply mem_In in E2. exact (Hs n E2 H).
Qed.

Lemma known_no_panic : forall n m, memoize c n = Some m -> forall rf,
  get_always c rf n = Ret (rf_get rf (loc_of c n)) /\
  get_register c rf n VAll = Ret (Some (rf_get rf (loc_of c n))).
Proof.
  intros n m H rf. pose proof (memoizable_accepted n m H) as An.
  pose proof (get_always_accepted rf n An) as G. split; [exact G|].
  rewrite get_register_unfold, is_valid_all, H, G. reflexivity.
Qed.

Lemma special_agrees : forall acc n, ok_special c acc n = true -> forall rf,
  get_always c rf n = Ret (rf_get rf (acc_loc acc)) /\ aeval rf [] acc = Ret (rf_get rf (acc_loc acc)) /\
  memoize c n <> None /\ loc_eqb (loc_of c n) (acc_loc acc) = true.
Proof.
  intros acc n H rf. unfold ok_special in H. apply andb_true_iff in H. destruct H as [H Hm].
  destruct (find_arm n (ct_get c)) as [g|] eqn:E; [|discriminate].
  unfold acc_loc. destruct (plain_read acc) as [l|] eqn:P; [|discriminate].
  apply andb_true_iff in H. destruct H as [Hgl Hok].
  apply is_some_true in Hm. destruct Hm as [k Hk].
  pose proof (memoizable_accepted n k Hk) as An.
  pose proof (get_always_accepted rf n An) as G. unfold loc_of in G. rewrite E in G.
  split; [rewrite G, (rf_get_eq rf (acc_loc g) l Hgl); reflexivity|].
  split; [exact (plain_read_eval acc l P Hok rf [])|].
  split; [rewrite Hk; discriminate|].
  unfold loc_of. rewrite E. exact Hgl.
Qed.

(* the dedicated accessor follows writes by name: a write through any spelling of the
   accessor's register is what it returns, a write through any other name leaves it alone *)
Lemma special_follows : forall acc s, ok_special c acc s = true ->
  forall n l, In n (accepted c) -> find_arm n (ct_set c) = Some l -> forall rf v,
  aeval (upd rf l v) [] acc = if opt_str_eqb (memoize c n) (memoize c s) then Ret v else aeval rf [] acc.
Proof.
  intros acc s H n l Hn Hl rf v.
  destruct (special_agrees acc s H rf) as [_ [E0 [Hm Hloc]]].
  destruct (special_agrees acc s H (upd rf l v)) as [_ [E1 _]].
  rewrite E1, E0, rf_get_upd.
  destruct (memoize c s) as [k|] eqn:Hk; [|contradiction].
  pose proof (memoizable_accepted s k Hk) as As.
  destruct (accepted_tables n Hn) as [a [b [_ [Hs [Hab [Hoa [Hob [Hln _]]]]]]]].
  rewrite Hl in Hs. inversion Hs; subst b.
  assert (X : loc_eqb (acc_loc acc) l = loc_eqb (loc_of c n) (loc_of c s)).
  { rewrite Hln. apply loc_eqb_iff in Hloc. apply loc_eqb_iff in Hab. destruct Hloc as [L1 L2]. destruct Hab as [A1 A2].
    unfold loc_eqb. rewrite L1, L2, A1, A2. rewrite (name_eqb_sym (l_field (acc_loc acc))), (Z.eqb_sym (l_idx (acc_loc acc))). reflexivity. }
  rewrite X.
  destruct (loc_eqb (loc_of c n) (loc_of c s)) eqn:E.
  - apply (alias_loc n s Hn As) in E. rewrite <- Hk, E. 
    assert (Y : opt_str_eqb (memoize c s) (memoize c s) = true) by (apply opt_str_eqb_spec; reflexivity).
    rewrite Y. reflexivity.
  - destruct (opt_str_eqb (memoize c n) (Some k)) eqn:Y; [|reflexivity].
    apply opt_str_eqb_spec in Y. rewrite <- Hk in Y. apply (alias_loc n s Hn As) in Y. rewrite Y in E. discriminate.
Qed.

Lemma validity_aliases : forall n, In n (accepted c) -> forall s,
  is_valid c n (VSome s) = true <-> exists a, In a s /\ memoize c a = memoize c n.
Proof.
  intros n Hn s. pose proof (f_valid c F n Hn) as V. unfold ok_valid in V.
  apply andb_true_iff in V. destruct V as [V1 V2]. rewrite forallb_forall in V1, V2.
  rewrite is_valid_some. rewrite existsb_exists. split.
  - intros [a [Ha Hs]]. exists a. split; [apply mem_In; exact Hs|].
    apply opt_str_eqb_spec. exact (V1 a Ha).
  - intros [a [Ha Hm]]. exists a. split; [|apply mem_In; exact Ha].
    pose proof (f_acc_memo c F n Hn) as Sn. apply is_some_true in Sn. destruct Sn as [k Hk].
    rewrite Hk in Hm. pose proof (memoizable_accepted a k Hm) as Aa.
    specialize (V2 a Aa). rewrite Hk in V2. rewrite Hm in V2.
    assert (E : opt_str_eqb (Some k) (Some k) = true) by (apply opt_str_eqb_spec; reflexivity).
    rewrite E in V2. cbn [implb] in V2. apply mem_In. exact V2.
Qed.

Lemma get_register_value : forall n, In n (accepted c) -> forall rf v,
  get_register c rf n v = if is_valid c n v then Ret (Some (rf_get rf (loc_of c n))) else Ret None.
Proof.
  intros n Hn rf v. rewrite get_register_unfold. rewrite (get_always_accepted rf n Hn). reflexivity.
Qed.

Lemma named_known : forall rf n, memoize c n <> None -> named c rf n = Ret (n, rf_get rf (loc_of c n)).
Proof.
  intros rf n H. destruct (memoize c n) as [k|] eqn:E; [|contradiction].
  unfold named. rewrite (get_always_accepted rf n (memoizable_accepted n k E)). reflexivity.
Qed.

Lemma register_known : forall r, In r (ct_registers c) -> memoize c r = Some r.
Proof.
  intros r Hr. pose proof (f_regs c F r Hr) as R. unfold ok_register in R.
  apply andb_true_iff in R. destruct R as [R _]. apply opt_str_eqb_spec. exact R.
Qed.

(* only the exact spellings are known: every other string is absent everywhere *)
Lemma not_accepted_unknown : forall n, ~ In n (accepted c) -> memoize c n = None.
Proof.
  intros n H. destruct (memoize c n) as [m|] eqn:E; [|reflexivity].
  exfalso. apply H. exact (memoizable_accepted n m E).
Qed.
Lemma case_variant_not_accepted : forall n m, In m (accepted c) -> n <> m -> map lower n = map lower m ->
  ~ In n (accepted c).
Proof.
  intros n m Hm Hne Hl Hn. apply Hne.
  rewrite <- (no_upper_lower n (f_lower c F n Hn)), <- (no_upper_lower m (f_lower c F m Hm)). exact Hl.
Qed.

(* the unchecked accessors know exactly the accepted names *)
Lemma unchecked_unknown_panics : forall rf n, ~ In n (accepted c) -> get_always c rf n = Panic 1.
Proof.
  intros rf n H. unfold get_always. destruct (find_arm n (ct_get c)) as [l|] eqn:E; [|reflexivity].
  exfalso. apply H. pose proof (find_arm_In _ _ _ _ E) as I.
  pose proof (f_tables c F n (in_or_app _ _ _ (or_introl I))) as T. unfold ok_tables in T. rewrite E in T.
  destruct (find_arm n (ct_set c)) as [b|] eqn:S; [|discriminate]. exact (find_arm_In _ _ _ _ S).
Qed.

(* format_register renders the value the unchecked read returns: "0x" + lower-case hex digits that
   denote it, at least 2*size of them, exactly 2*size when the value fits the Register type *)
Lemma format_register_spec : forall rf n,
  (In n (accepted c) ->
     exists s, format_register c rf n = Ret (48 :: 120 :: s) /\
       (0 <= rf_get rf (loc_of c n) ->
          hex_val s = rf_get rf (loc_of c n) /\ (Z.to_nat (register_size c * 2) <= length s)%nat /\
          (rf_get rf (loc_of c n) < 2 ^ ct_width c -> length s = Z.to_nat (register_size c * 2)))) /\
  (~ In n (accepted c) -> format_register c rf n = Panic 1).
Proof.
  intros rf n. split.
  - intro Hn. unfold format_register. rewrite (get_always_accepted rf n Hn). cbn [obind]. unfold format_value.
    destruct (f_fmt c F) as [P1 [P2 P3]]. rewrite P1, P2, P3. cbn [hex_padded app].
    eexists. split; [reflexivity|]. intro Hv.
    destruct (hex_val_min (Z.to_nat (register_size c * 2)) _ Hv) as [A [B C]].
    split; [exact A|]. split; [exact B|]. intro Hlt. apply C.
    + unfold register_size. destruct (f_width c F) as [W|W]; rewrite W; vm_compute; lia.
    + eapply Z.lt_le_trans; [exact Hlt|]. unfold register_size.
      destruct (f_width c F) as [W|W]; rewrite W; vm_compute; discriminate.
  - intro Hn. unfold format_register. rewrite (unchecked_unknown_panics rf n Hn). reflexivity.
Qed.

(* MinidumpContext dispatch: the generated arms forward to the CpuContext methods *)
Lemma md_get_always_eq : forall rf n, md_get_always c rf n = get_always c rf n.
Proof.
  intros rf n. unfold md_get_always. destruct (get_always c rf n) as [x| |t|] eqn:E; try reflexivity.
  cbn [obind]. apply (plain_var_eval _ _ (f_md_get c F)). cbn [lookup_var]. rewrite name_eqb_refl. reflexivity.
Qed.
Lemma md_is_valid_eq : forall e, plain_bvar e v_iv = true -> forall rf n v,
  md_is_valid e c rf n v = Ret (is_valid c n v).
Proof.
  intros e H rf n v. unfold md_is_valid.
  rewrite (plain_bvar_eval e v_iv H rf _ (if is_valid c n v then 1 else 0)).
  - destruct (is_valid c n v); reflexivity.
  - cbn [lookup_var]. rewrite name_eqb_refl. reflexivity.
Qed.
Lemma md_get_register_eq : forall rf n v, md_get_register c rf n v = get_register c rf n v.
Proof.
  intros rf n v. rewrite get_register_unfold. unfold md_get_register.
  rewrite (md_is_valid_eq _ (f_md_valid c F)). cbn [obind]. rewrite md_get_always_eq.
  destruct (is_valid c n v); [|reflexivity]. destruct (get_always c rf n) as [x| |t|]; try reflexivity.
  cbn [obind]. rewrite (plain_var_eval _ _ (proj2 (f_get_val c F)) rf _ x); [reflexivity|].
  cbn [lookup_var]. rewrite name_eqb_refl. reflexivity.
Qed.
Lemma md_named_eq : forall rf n, md_named c rf n = named c rf n.
Proof.
  intros rf n. unfold md_named, named. rewrite md_get_always_eq. destruct (get_always c rf n) as [x| |t|]; try reflexivity.
  cbn [obind]. rewrite (plain_var_eval _ _ (f_md_regs c F) rf _ x); [reflexivity|].
  cbn [lookup_var]. rewrite name_eqb_refl. reflexivity.
Qed.
Lemma md_format_register_eq : forall rf n, md_format_register c rf n = format_register c rf n.
Proof.
  intros rf n. unfold md_format_register. pose proof (f_md_fmt c F) as X.
  destruct (ct_md_fmt c) as [[[p z] d]|]; [|reflexivity]. destruct X as [X1 [X2 X3]]. subst.
  unfold format_register, format_value. reflexivity.
Qed.
Lemma md_register_size_eq : md_register_size c = Ret (register_size c).
Proof.
  unfold md_register_size. apply (plain_var_eval _ _ (f_md_size c F)). cbn [lookup_var]. rewrite name_eqb_refl. reflexivity.
Qed.

(* CpuRegisters::next, step by step, on states of known names: yields the head with its location's
   value and moves on; at the end it answers None and stays there *)
Lemma cpu_iter_next_plain : forall rf k r t,
  cpu_iter_next c rf (k, r :: t) =
  match get_always c rf r with
  | Ret x => Ret (Some (r, x), (k, t)) | Fail => Fail | Panic tg => Panic tg | OutOfFuel => OutOfFuel
  end.
Proof.
  intros rf k r t. destruct (f_next c F) as [N1 [N2 N3]]. unfold cpu_iter_next. cbn [fst snd].
  assert (S0 : match k with KSlice => ct_next_slice c | KSet => ct_next_set c end = 0) by (destruct k; assumption).
  rewrite S0. cbn [Z.to_nat skipn]. destruct (get_always c rf r) as [x| |tg|]; try reflexivity.
  cbn [obind]. rewrite (plain_var_eval _ _ N3 rf _ x); [reflexivity|].
  cbn [lookup_var]. rewrite name_eqb_refl. reflexivity.
Qed.
Lemma cpu_iter_next_nil : forall rf k, cpu_iter_next c rf (k, []) = Ret (None, (k, [])).
Proof. intros rf k. unfold cpu_iter_next. cbn [fst snd]. rewrite skipn_nil. reflexivity. Qed.
Lemma cpu_iter_step : forall rf k r t, memoize c r <> None ->
  cpu_iter_next c rf (k, r :: t) = Ret (Some (r, rf_get rf (loc_of c r)), (k, t)).
Proof.
  intros rf k r t H. rewrite cpu_iter_next_plain. destruct (memoize c r) as [m|] eqn:E; [|contradiction].
  rewrite (get_always_accepted rf r (memoizable_accepted r m E)). reflexivity.
Qed.
(* draining CpuRegisters = reading every name of the initial state in order; no fuel runs out *)
Lemma cpu_iter_collect_mapM : forall rf k st,
  cpu_iter_collect (S (length st)) c rf (k, st) = mapM (named c rf) st.
Proof.
  intros rf k st. induction st as [|r t IH].
  - cbn [length cpu_iter_collect]. rewrite cpu_iter_next_nil. reflexivity.
  - cbn [length]. remember (S (length t)) as fu. cbn [cpu_iter_collect]. rewrite cpu_iter_next_plain.
    cbn [mapM]. unfold named at 1.
    destruct (get_always c rf r) as [x| |tg|]; try reflexivity.
    cbn [obind]. subst fu. rewrite IH. destruct (mapM (named c rf) t); reflexivity.
Qed.
Lemma cpu_iter_init_eq : forall v,
  cpu_iter_init c v = match v with VAll => (KSlice, ct_registers c) | VSome s => (KSet, s) end.
Proof. intros [|s]; unfold cpu_iter_init; [rewrite (f_iter_all c F) | rewrite (f_iter_some c F)]; reflexivity. Qed.
Lemma cpu_registers_eq : forall rf, cpu_registers c rf = mapM (named c rf) (ct_registers c).
Proof.
  intro rf. unfold cpu_registers. destruct (f_regs_direct c F) as [E|E]; rewrite E.
  - unfold cpu_valid_registers. rewrite cpu_iter_init_eq. cbn [snd]. apply cpu_iter_collect_mapM.
  - cbn [src_state snd]. apply cpu_iter_collect_mapM.
Qed.
Lemma cpu_valid_registers_mapM : forall rf v,
  cpu_valid_registers c rf v = mapM (named c rf) (match v with VAll => ct_registers c | VSome s => s end).
Proof.
  intros rf v. unfold cpu_valid_registers. rewrite cpu_iter_init_eq. destruct v; cbn [snd]; apply cpu_iter_collect_mapM.
Qed.

(* write by name, read back through every MinidumpContext-level path *)
Lemma md_roundtrip : forall n, In n (accepted c) -> forall rf v l, find_arm n (ct_set c) = Some l ->
  set_reg c rf n v = Ret (Some (upd rf l v)) /\
  md_get_always c (upd rf l v) n = Ret v /\
  (forall s, md_get_register c (upd rf l v) n s = if is_valid c n s then Ret (Some v) else Ret None) /\
  format_register c (upd rf l v) n = Ret (format_value c v) /\
  (memoize c n = memoize c (ct_sp_name c) -> md_stack_pointer c (upd rf l v) = Ret v) /\
  (memoize c n = memoize c (ct_ip_name c) -> md_instruction_pointer c (upd rf l v) = Ret v).
Proof.
  intros n Hn rf v l Hl. destruct (set_get n Hn rf v) as [l' [Hl' [Hok [S [G _]]]]].
  rewrite Hl in Hl'. inversion Hl'; subst l'.
  split; [exact S|]. split; [rewrite md_get_always_eq; exact G|].
  split.
  { intro s. rewrite md_get_register_eq, get_register_unfold, G. reflexivity. }
  split; [unfold format_register; rewrite G; reflexivity|].
  split; intro E.
  - unfold md_stack_pointer. rewrite (special_follows _ _ (f_sp c F) n l Hn Hl rf v), E.
    assert (Y : forall o, opt_str_eqb o o = true) by (intro o; apply opt_str_eqb_spec; reflexivity).
    rewrite Y. reflexivity.
  - unfold md_instruction_pointer. rewrite (special_follows _ _ (f_ip c F) n l Hn Hl rf v), E.
    assert (Y : forall o, opt_str_eqb o o = true) by (intro o; apply opt_str_eqb_spec; reflexivity).
    rewrite Y. reflexivity.
Qed.

Definition listing (rf : regfile) (names : list name) : list (name * Z) :=
  map (fun n => (n, rf_get rf (loc_of c n))) names.

Lemma enumerations : forall rf,
  ct_gpr c = ct_registers c /\
  md_registers c rf = Ret (listing rf (ct_registers c)) /\
  cpu_valid_registers c rf VAll = Ret (listing rf (ct_registers c)) /\
  md_valid_registers c rf VAll = Ret (listing rf (ct_registers c)) /\
  (forall s, md_valid_registers c rf (VSome s) =
             Ret (listing rf (filter (fun n => is_valid c n (VSome s)) (ct_registers c)))) /\
  (forall s, (forall a, In a s -> memoize c a <> None) ->
             cpu_valid_registers c rf (VSome s) = Ret (listing rf s)) /\
  (forall r, In r (ct_registers c) -> count r (ct_registers c) = 1 /\ memoize c r = Some r).
Proof.
  intro rf. pose proof (strs_eqb_eq _ _ (f_gpr c F)) as G.
  assert (M : md_registers c rf = Ret (listing rf (ct_registers c))).
  { unfold md_registers, listing. rewrite G. apply mapM_ret.
    intros a Ha. rewrite md_named_eq. apply named_known. rewrite (register_known a Ha). discriminate. }
  assert (V : forall v, md_valid_registers c rf v =
                        Ret (filter (fun p => is_valid c (fst p) v) (listing rf (ct_registers c)))).
  { intro v. unfold md_valid_registers. rewrite M. cbn [obind]. apply filterM_ret.
    intros a _. apply (md_is_valid_eq _ (f_md_filter c F)). }
  split; [exact G|]. split; [exact M|].
  split.
  { rewrite cpu_valid_registers_mapM. unfold listing. apply mapM_ret.
    intros a Ha. apply named_known. rewrite (register_known a Ha). discriminate. }
  split.
  { rewrite V. unfold listing.
    rewrite (filter_map_fst (fun n => is_valid c n VAll) (fun n => rf_get rf (loc_of c n))).
    rewrite filter_all; [reflexivity|].
    intros x Hx. rewrite is_valid_all, (register_known x Hx). reflexivity. }
  split.
  { intro s. rewrite V. unfold listing.
    rewrite (filter_map_fst (fun n => is_valid c n (VSome s)) (fun n => rf_get rf (loc_of c n))). reflexivity. }
  split.
  { intros s Hs. rewrite cpu_valid_registers_mapM. unfold listing. apply mapM_ret.
    intros a Ha. apply named_known. exact (Hs a Ha). }
  intros r Hr. pose proof (f_regs c F r Hr) as R. unfold ok_register in R.
  apply andb_true_iff in R. destruct R as [R1 R2]. split; [apply Z.eqb_eq; exact R2 | apply opt_str_eqb_spec; exact R1].
Qed.
(* ------------------------------------------------------------------ F-C18b exactly: where the checked accessors reach unreachable!() *)
Lemma not_mem_accepted : forall n, mem n (accepted c) = false -> ~ In n (accepted c).
Proof. intros n E X. apply mem_In in X. rewrite X in E. discriminate. Qed.

(* the checked read, by cases, for ALL strings and ALL validity values *)
Lemma get_register_cases : forall rf n v,
  get_register c rf n v =
  if mem n (accepted c) then (if is_valid c n v then Ret (Some (rf_get rf (loc_of c n))) else Ret None)
  else match v with VAll => Ret None | VSome s => if mem n s then Panic 1 else Ret None end.
Proof.
  intros rf n v. destruct (mem n (accepted c)) eqn:E.
  - apply mem_In in E. apply get_register_value. exact E.
  - pose proof (not_mem_accepted n E) as N.
    rewrite get_register_unfold, (unchecked_unknown_panics rf n N).
    pose proof (not_accepted_unknown n N) as M.
    destruct v as [|s].
    + rewrite is_valid_all, M. reflexivity.
    + rewrite is_valid_some. unfold alts_of. destruct (find_arm n (ct_groups c)) eqn:G.
      * exfalso. apply find_arm_In in G. apply (f_groups c F) in G. rewrite M in G. discriminate.
      * cbn [existsb]. rewrite orb_false_r. destruct (mem n s); reflexivity.
Qed.

(* the set enumeration, by cases, for ALL sets *)
Lemma cpu_valid_registers_cases : forall rf s,
  cpu_valid_registers c rf (VSome s) =
  if forallb (fun a => mem a (accepted c)) s then Ret (listing rf s) else Panic 1.
Proof.
  intros rf s. rewrite cpu_valid_registers_mapM. induction s as [|a s IH]; [reflexivity|].
  cbn [mapM forallb]. unfold named at 1. destruct (mem a (accepted c)) eqn:E.
  - apply mem_In in E. rewrite (get_always_accepted rf a E), IH. cbn [andb].
    destruct (forallb (fun a0 => mem a0 (accepted c)) s); reflexivity.
  - rewrite (unchecked_unknown_panics rf a (not_mem_accepted a E)). reflexivity.
Qed.

Lemma forallb_false_ex : forall (p : name -> bool) l, forallb p l = false -> exists a, In a l /\ p a = false.
Proof.
  intros p l. induction l as [|a l IH]; intro H; [discriminate|].
  cbn [forallb] in H. destruct (p a) eqn:E.
  - destruct (IH H) as [b [Hb Pb]]. exists b. split; [right; exact Hb | exact Pb].
  - exists a. split; [left; reflexivity | exact E].
Qed.

Lemma unreachable_exactly : forall rf n,
  (exists o, get_register c rf n VAll = Ret o) /\
  (forall s,
     (get_register c rf n (VSome s) = Panic 1 <-> In n s /\ ~ In n (accepted c)) /\
     (~ (In n s /\ ~ In n (accepted c)) -> exists o, get_register c rf n (VSome s) = Ret o) /\
     md_get_register c rf n (VSome s) = get_register c rf n (VSome s) /\
     (cpu_valid_registers c rf (VSome s) = Panic 1 <-> exists a, In a s /\ ~ In a (accepted c)) /\
     ((forall a, In a s -> In a (accepted c)) -> cpu_valid_registers c rf (VSome s) = Ret (listing rf s)) /\
     (exists l, md_valid_registers c rf (VSome s) = Ret l)).
Proof.
  intros rf n. split.
  { rewrite get_register_cases. destruct (mem n (accepted c)); [destruct (is_valid c n VAll)|]; eexists; reflexivity. }
  intro s.
  assert (G : get_register c rf n (VSome s) = Panic 1 <-> In n s /\ ~ In n (accepted c)).
  { rewrite get_register_cases. destruct (mem n (accepted c)) eqn:E.
    - split.
      + destruct (is_valid c n (VSome s)); discriminate.
      + intros [_ N]. exfalso. apply N. apply mem_In. exact E.
    - destruct (mem n s) eqn:E2.
      + split; [intros _; split; [apply mem_In; exact E2 | exact (not_mem_accepted n E)] | reflexivity].
      + split; [discriminate|]. intros [X _]. apply mem_In in X. rewrite X in E2. discriminate. }
  split; [exact G|]. split.
  { intro N. rewrite get_register_cases in *. destruct (mem n (accepted c)) eqn:E.
    - destruct (is_valid c n (VSome s)); eexists; reflexivity.
    - destruct (mem n s) eqn:E2; [|eexists; reflexivity].
      exfalso. apply N. apply G. reflexivity. }
  split; [apply md_get_register_eq|].
  split.
  { rewrite cpu_valid_registers_cases. destruct (forallb (fun a => mem a (accepted c)) s) eqn:E.
    - split; [discriminate|]. intros [a [Ha N]]. exfalso. apply N. apply mem_In.
      rewrite forallb_forall in E. exact (E a Ha).
    - split; [|reflexivity]. intros _. destruct (forallb_false_ex _ _ E) as [a [Ha Pa]].
      exists a. split; [exact Ha | exact (not_mem_accepted a Pa)]. }
  split.
  { intro H. rewrite cpu_valid_registers_cases.
    assert (E : forallb (fun a => mem a (accepted c)) s = true).
    { apply forallb_forall. intros a Ha. apply mem_In. exact (H a Ha). }
    rewrite E. reflexivity. }
  destruct (enumerations rf) as [_ [_ [_ [_ [V _]]]]]. eexists. exact (V s).
Qed.
(* ------------------------------------------------------------------ sequences of writes (unbounded in length) *)
Lemma opt_name_eqb_spec : forall a b, opt_name_eqb a b = true <-> a = b.
Proof. intros a b. apply (opt_str_eqb_spec a b). Qed.
Lemma last_write_acc : forall m ops a,
  last_write c m ops a = match last_write c m ops None with Some x => Some x | None => a end.
Proof.
  intros m ops. induction ops as [|[n v] r IH]; intro a; [reflexivity|].
  cbn [last_write]. destruct (opt_name_eqb (memoize c n) (memoize c m)).
  - rewrite (IH (Some v)). destruct (last_write c m r None); reflexivity.
  - apply IH.
Qed.
Lemma write_sequence : forall ops rf,
  exists rf', apply_writes c rf ops = Ret rf' /\
    forall m, In m (accepted c) ->
      get_always c rf' m = match last_write c m ops None with Some v => Ret v | None => get_always c rf m end.
Proof.
  induction ops as [|[n v] r IH]; intro rf.
  - exists rf. split; [reflexivity|]. intros m _. reflexivity.
  - cbn [apply_writes last_write]. destruct (mem n (accepted c)) eqn:E.
    + apply mem_In in E. destruct (set_get n E rf v) as [l [_ [_ [S [_ [_ [_ [Same Other]]]]]]]].
      rewrite S. cbn [obind]. destruct (IH (upd rf l v)) as [rf' [A G]]. exists rf'. split; [exact A|].
      intros m Hm. rewrite (G m Hm).
      destruct (opt_name_eqb (memoize c n) (memoize c m)) eqn:Q.
      * rewrite (last_write_acc m r (Some v)). destruct (last_write c m r None) as [x|]; [reflexivity|].
        apply opt_name_eqb_spec in Q. apply Same; [exact Hm | symmetry; exact Q].
      * destruct (last_write c m r None) as [x|]; [reflexivity|].
        apply Other; [exact Hm|]. intro X. rewrite X in Q.
        assert (Y : opt_name_eqb (memoize c n) (memoize c n) = true) by (apply opt_name_eqb_spec; reflexivity).
        rewrite Y in Q. discriminate.
    + pose proof (not_accepted_unknown n (not_mem_accepted n E)) as M.
      destruct (unknown_absent n M) as [_ [R _]]. rewrite (R rf v). cbn [obind].
      destruct (IH rf) as [rf' [A G]]. exists rf'. split; [exact A|].
      intros m Hm. rewrite (G m Hm).
      destruct (opt_name_eqb (memoize c n) (memoize c m)) eqn:Q; [|reflexivity].
      exfalso. apply opt_name_eqb_spec in Q. rewrite M in Q.
      pose proof (f_acc_memo c F m Hm) as Sm. rewrite <- Q in Sm. discriminate.
Qed.
(* ------------------------------------------------------------------ deserialised contexts: which bytes a name reads *)
Lemma decode_le_range : forall bytes, (forall k, 0 <= bytes k < 256) -> forall n off, 0 <= decode_le bytes off n < 256 ^ Z.of_nat n.
Proof.
  intros bytes B n. induction n as [|n IH]; intro off; [cbn; lia|].
  cbn [decode_le]. rewrite Nat2Z.inj_succ, Z.pow_succ_r by lia. specialize (IH (off + 1)). specialize (B off). lia.
Qed.
Lemma decode_be_range : forall bytes, (forall k, 0 <= bytes k < 256) -> forall n off acc m, 0 <= acc < 256 ^ m -> 0 <= m ->
  0 <= decode_be bytes off n acc < 256 ^ (m + Z.of_nat n).
Proof.
  intros bytes B n. induction n as [|n IH]; intros off acc m A M; [cbn [decode_be]; rewrite Z.add_0_r; exact A|].
  cbn [decode_be]. replace (m + Z.of_nat (S n)) with ((m + 1) + Z.of_nat n) by lia. apply IH; [|lia].
  rewrite Z.pow_add_r by lia. specialize (B off). change (256 ^ 1) with 256. lia.
Qed.
Lemma decode_range : forall big bytes, (forall k, 0 <= bytes k < 256) -> forall off n, 0 <= decode big bytes off n < 256 ^ Z.of_nat n.
Proof.
  intros big bytes B off n. unfold decode. destruct big; [|apply decode_le_range; exact B].
  apply (decode_be_range bytes B n off 0 0); lia.
Qed.

Lemma read_registers : forall n, In n (accepted c) -> forall big bytes,
  exists off, loc_offset c (loc_of c n) = Some off /\ 0 <= off /\
    get_always c (decode_base c big bytes) n = Ret (decode big bytes off (Z.to_nat (ct_width c / 8))) /\
    ((forall k, 0 <= bytes k < 256) -> 0 <= decode big bytes off (Z.to_nat (ct_width c / 8)) < 2 ^ ct_width c) /\
    (forall m, In m (accepted c) -> memoize c m <> memoize c n ->
       exists off', loc_offset c (loc_of c m) = Some off' /\ (off + ct_width c / 8 <= off' \/ off' + ct_width c / 8 <= off)).
Proof.
  intros n Hn big bytes. pose proof (f_layout c F n Hn) as L. unfold ok_layout in L.
  destruct (accepted_tables n Hn) as [a [b [_ [_ [_ [Hoa [_ [Hl _]]]]]]]].
  destruct (field_layout (l_field (loc_of c n)) (ct_fields c)) as [[[w len] off]|] eqn:E; [|discriminate].
  apply andb_true_iff in L. destruct L as [L O]. apply andb_true_iff in L. destruct L as [W Ln].
  apply Z.eqb_eq in W. apply Z.eqb_eq in Ln. apply Z.leb_le in O. subst w.
  assert (Idx : 0 <= (if l_idx (loc_of c n) <? 0 then 0 else l_idx (loc_of c n))) by (destruct (l_idx (loc_of c n) <? 0) eqn:Q; [lia | apply Z.ltb_ge in Q; exact Q]).
  assert (W8 : 0 <= ct_width c / 8) by (destruct (f_width c F) as [X|X]; rewrite X; vm_compute; discriminate).
  exists (off + (if l_idx (loc_of c n) <? 0 then 0 else l_idx (loc_of c n)) * (ct_width c / 8)).
  split; [unfold loc_offset; rewrite E; reflexivity|]. split; [nia|].
  split.
  { rewrite (get_always_accepted _ n Hn). unfold rf_get, decode_base. rewrite E. reflexivity. }
  split.
  { intro B. pose proof (decode_range big bytes B (off + (if l_idx (loc_of c n) <? 0 then 0 else l_idx (loc_of c n)) * (ct_width c / 8)) (Z.to_nat (ct_width c / 8))) as R.
    assert (P : 256 ^ Z.of_nat (Z.to_nat (ct_width c / 8)) = 2 ^ ct_width c) by (destruct (f_width c F) as [X|X]; rewrite X; vm_compute; reflexivity).
    rewrite P in R. exact R. }
  intros m Hm Hne. pose proof (f_disjoint c F n Hn) as D. unfold ok_disjoint in D. rewrite forallb_forall in D. specialize (D m Hm).
  unfold loc_offset in D at 1. rewrite E in D.
  destruct (loc_offset c (loc_of c m)) as [off'|]; [|discriminate]. exists off'. split; [reflexivity|].
  apply orb_true_iff in D. destruct D as [D|D]; [apply orb_true_iff in D; destruct D as [D|D]|].
  - exfalso. apply Hne. symmetry. apply (alias_loc n m Hn Hm). exact D.
  - left. apply Z.leb_le in D. exact D.
  - right. apply Z.leb_le in D. exact D.
Qed.
End WithFacts.
