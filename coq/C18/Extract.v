From Coq Require Extraction.
From Coq Require Import ExtrOcamlBasic.
From RM Require Import C18.Driver.
Extraction "c18_model.ml" run_case run_read run_writes run_decode.
