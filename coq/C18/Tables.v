(* C18/Tables.v — the shape of the tables that translate/context_tables.py regenerates
   from minidump/src/context.rs and minidump-common/src/format.rs (coq/Gen/ContextTables.v).
   Definitions only. *)
From Coq Require Export ZArith List Bool.
Export ListNotations.
Open Scope Z_scope.

(* Names (register names, field names, type names) are byte lists: the extracted model
   must not mention Coq's [string] type (it would shadow OCaml's in the glue). *)
Definition name := list Z.
Fixpoint name_eqb (a b : name) : bool :=
  match a, b with
  | [], [] => true
  | x :: a', y :: b' => (x =? y) && name_eqb a' b'
  | _, _ => false
  end.

(* an abstract storage location of a CONTEXT_* struct: a scalar field ([l_idx] = -1,
   [l_len] = -1) or an element of an array field ([l_len] = declared array length).
   [l_width] is the declared integer width of the field. *)
Record loc := mkloc { l_field : name; l_idx : Z; l_width : Z; l_len : Z }.

(* The body of a dedicated accessor (an arm of MinidumpContext::get_stack_pointer /
   get_instruction_pointer), regenerated from the source as an expression over the
   context's integer fields.  Widths are made explicit by the translator's type checker:
   [ACast e from to] is `e as u<to>` with e : u<from>; [ANot e w] is `!e` at u<w>;
   [AShl e k w] is `e << k` at u<w> (literal k < w); literals are already reduced to
   their type.  Operators that can trap or wrap (+ - * / %) are not in the language:
   the translator aborts on them. *)
Inductive aexp :=
| ALoc (l : loc)
| ALit (z : Z)
| AVar (x : name)
| ACast (e : aexp) (from to : Z)
| AAnd (a b : aexp) | AOr (a b : aexp) | AXor (a b : aexp)
| ANot (e : aexp) (w : Z)
| AShl (e : aexp) (k w : Z)
| AShr (e : aexp) (k : Z)
| AIf (c : bexp) (a b : aexp)
| ALet (x : name) (e body : aexp)
with bexp :=
| BLit (b : bool)
| BVar (x : name)
| BEq (a b : aexp) | BNe (a b : aexp)
| BAnd (a b : bexp) | BOr (a b : bexp) | BNot (a : bexp).

(* the names an iterator constructed by CpuContext::valid_registers walks: a slice of a REGISTERS table
   (`CpuRegistersInner::Slice(<T>::REGISTERS[a..b].iter())`, resolved by the translator to the names themselves)
   or the validity set (`CpuRegistersInner::Set(valid.iter())`) *)
Inductive names_src := NList (l : list name) | NSet.

Record ctx_table := {
  ct_name : name;                              (* CONTEXT_X86 ... *)
  ct_variant : name;                           (* MinidumpRawContext variant *)
  ct_width : Z;                                  (* type Register = u32 / u64 *)
  ct_registers : list name;                    (* const REGISTERS *)
  ct_get : list (list name * aexp);            (* get_register_always arms, in order (the arm's whole expression); `_ => unreachable!` *)
  ct_set : list (list name * loc);             (* set_register arms, in order: the place assigned; `_ => return None` *)
  ct_set_val : list (list name * aexp);        (* set_register arms: the value assigned, an expression over [AVar v_val] = `val` *)
  ct_memo : list (list name * name);         (* memoize_register arms; `_ => default_memoize_register(REGISTERS, reg)` *)
  ct_memo_tbl : list name;                     (* the table memoize_register's default looks the name up in: the first argument of
                                                    `default_memoize_register(<T>::REGISTERS, reg)` (the `_` arm of the type's own body, or the
                                                    trait default), resolved to the names *)
  ct_memo_cmp : Z;                               (* the comparison inside default_memoize_register's `position` closure:
                                                    0 = `*val == reg` (exact), 1 = eq_ignore_ascii_case *)
  ct_groups : list (list name * bexp);       (* register_is_valid, Some(which): patterns => a condition over the set: [BVar ("$has:" ++ a)] =
                                                    `which.contains("a")`, [BVar v_contains] = `which.contains(reg)`; `_ => <ct_valid_default>` *)
  (* the conditions of the validity test and of the checked read, as expressions over the calls they make:
     [BVar v_memo] = `self.memoize_register(reg).is_some()`, [BVar v_contains] = `which.contains(reg)`,
     [BVar v_iv] = `self.register_is_valid(reg, valid)` *)
  ct_valid_all : bexp;                           (* register_is_valid, validity All (the `else` branch) *)
  ct_valid_default : bexp;                       (* register_is_valid, Some(which): the `_` arm / the trait default's Some branch *)
  ct_get_cond : bexp;                            (* get_register: the condition under which it reads *)
  ct_get_val : aexp;                             (* get_register: what it returns inside Some(..), over [AVar v_ga] = `self.get_register_always(reg)` *)
  ct_md_get_val : aexp;                          (* MinidumpContext::get_register: likewise, over [AVar v_mga] = `self.get_register_always(reg)` (u64) *)
  (* format_register: format!("<prefix>{:[0]1$x}", get_register_always(reg), size_of::<Register>() * <mul>) *)
  ct_fmt_prefix : name; ct_fmt_zero : bool; ct_fmt_mul : Z;
  ct_sp_name : name;                           (* stack_pointer_register_name() *)
  ct_ip_name : name;                           (* instruction_pointer_register_name() *)
  ct_sp_acc : aexp;                              (* MinidumpContext::get_stack_pointer arm (whole body) *)
  ct_ip_acc : aexp;                              (* MinidumpContext::get_instruction_pointer arm (whole body) *)
  (* MinidumpContext dispatch arms for this variant, as expressions over the forwarded CpuContext call:
     [AVar v_ga] stands for `ctx.get_register_always(reg)`, [BVar v_iv] for `ctx.register_is_valid(reg, &self.valid)` *)
  ct_md_get : aexp;                              (* MinidumpContext::get_register_always arm *)
  ct_md_valid : bexp;                            (* MinidumpContext::get_register: the arm of `let valid = match ..` *)
  ct_md_filter : bexp;                           (* MinidumpContext::valid_registers: the arm of the filter closure *)
  (* CpuContext::valid_registers: `let regs = match valid { All => <ct_iter_all>, Some(valid) => <ct_iter_some> }` *)
  ct_iter_all : names_src;
  ct_iter_some : names_src;
  (* CpuContext::registers: None = `self.valid_registers(&MinidumpContextValidity::All)`; Some src = it builds
     `CpuRegisters { regs: <src>, context: self }` itself *)
  ct_regs_direct : option names_src;
  (* CpuRegisters::next: `let reg = match &mut self.regs { Slice(iter) => iter.<next() | nth(K)>, Set(iter) => iter.<next() | nth(K)> }?;
     Some((reg, <ct_next_val>))`: how many names each arm consumes before the one it yields (next() = 0, nth(K) = K) and the
     value paired with the name, an expression over [AVar v_ga] = `self.context.get_register_always(reg)` *)
  ct_next_slice : Z; ct_next_set : Z;
  ct_next_val : aexp;
  (* MinidumpContext::registers: `.map(move |&reg| (reg, <ct_md_regs_val>))`, over [AVar v_mga] = `self.get_register_always(reg)` *)
  ct_md_regs_val : aexp;
  (* MinidumpContext::register_size arm for this variant, over [AVar v_size] = `get(ctx)` = `std::mem::size_of::<T::Register>()` *)
  ct_md_size : aexp;
  (* MinidumpContext::format_register arm: None = `ctx.format_register(reg)`; Some (prefix, zero, digits) =
     `format!("<prefix>{:[0]<digits>x}", ctx.get_register_always(reg))` *)
  ct_md_fmt : option (name * bool * Z);
  ct_fields : list (name * Z * Z * Z);               (* the struct's integer fields: (name, element width, array length or -1, byte offset in the serialised struct) *)
  ct_gpr : list name                           (* MinidumpContext::general_purpose_registers arm (REGISTERS of the named type) *)
}.

(* an arm of the architecture match in MinidumpContext::read: the ProcessorArchitecture numbers it matches, the CONTEXT_*
   type it reads from the bytes, the MinidumpRawContext variant it wraps the context in, the ContextFlagsCpu constant
   (name, value) the context's CPU flags must equal, the serialised size of the type *)
Record read_arm := mk_read_arm {
  ra_archs : list Z; ra_type : name; ra_variant : name; ra_flag_name : name; ra_flag : Z; ra_size : Z }.

Definition has_prefix : name := [36; 104; 97; 115; 58].   (* "$has:" *)
Definition v_val : name := [118; 97; 108]. (* "val" *)
Definition v_memo : name := [36; 109; 101; 109; 111].                    (* "$memo" *)
Definition v_contains : name := [36; 99; 111; 110; 116; 97; 105; 110; 115]. (* "$contains" *)
Definition v_ga : name := [36; 103; 97].   (* "$ga" *)
Definition v_iv : name := [36; 105; 118].  (* "$iv" *)
Definition v_mga : name := [36; 109; 103; 97].  (* "$mga" *)
Definition v_size : name := [36; 115; 105; 122; 101].  (* "$size" *)
