(* C08/SymTextC.v — completeness of the FUNC table of a symbol file, from its TEXT.
   If no complete line of the text is longer than 80 KiB (such a line would be dropped as corrupt) and the parse is Ok,
   then a FUNC line whose address range intersects the range of no OTHER FUNC line of the text is returned by
   `functions.get(x)` for every address x in its range: the function found carries that line's address, size,
   parameter size and name.
   Pieces: a FUNC line is never taken for a sub-line of the open group and never for a blank line ([func_line_is_top]);
   hence the headers of the FUNC items the parser holds, in file order, are exactly the FUNC lines of the text in file
   order ([hdrs_fold]); finish_item keeps header and range ([finish_funcs_hdrs]); C08's isolated-entry theorem for the
   parser-local builder does the rest. *)
From Coq Require Import Lia ZArith List Bool Sorting.Sorted.
From RM Require Import Base.Word C08.Model C08.Proofs C11.Model C09.Model C09.Grammar C09.Driver C09.Proofs
                       C09.ProofsBytes C09.ProofsFinish C09.ProofsFinal C08.SymText.
Import ListNotations.
Open Scope Z_scope.

(* ------------------------------------------------------------------ first bytes of a line *)
Definition hd_byte (s : rle) : option Z := match s with (b, _) :: _ => Some b | [] => None end.

Lemma uncons_hd s b s' : uncons s = Some (b, s') -> hd_byte s = Some b.
Proof.
  destruct s as [|[b0 c] t]; cbn [uncons hd_byte]; [discriminate|].
  destruct (c <=? 1); intros H; inversion H; reflexivity.
Qed.

Lemma tag_cons x bs s s' : tag (x :: bs) s = Some s' ->
  exists s1, uncons s = Some (x, s1) /\ tag bs s1 = Some s'.
Proof.
  cbn [tag]. destruct (uncons s) as [[b s1]|] eqn:E; [|discriminate].
  destruct (b =? x) eqn:Eb; [|discriminate]. apply Z.eqb_eq in Eb. subst b. intros H. exists s1. auto.
Qed.

Lemma tag_hd_ne x y bs s : hd_byte s = Some y -> x <> y -> tag (x :: bs) s = None.
Proof.
  intros Hh Hne. cbn [tag]. destruct (uncons s) as [[b s1]|] eqn:E; [|reflexivity].
  apply uncons_hd in E. rewrite Hh in E. inversion E; subst b.
  destruct (y =? x) eqn:Eb; [apply Z.eqb_eq in Eb; congruence|reflexivity].
Qed.

Lemma hd_uncons s b : hd_byte s = Some b -> exists s', uncons s = Some (b, s').
Proof.
  destruct s as [|[b0 c] t]; cbn [hd_byte uncons]; [discriminate|]. intros H; inversion H; subst.
  destruct (c <=? 1); eexists; reflexivity.
Qed.

(* a line that starts with "FU" *)
Definition starts_FU (s : rle) : Prop := exists s1, uncons s = Some (70, s1) /\ hd_byte s1 = Some 85.

Lemma hdr_func_starts s s1 : hdr T_FUNC s = Some s1 -> starts_FU s.
Proof.
  unfold hdr, T_FUNC. destruct (tag [70; 85; 78; 67] s) as [s'|] eqn:E; [|discriminate]. intros _.
  apply tag_cons in E. destruct E as [a [Ua Ta]]. apply tag_cons in Ta. destruct Ta as [b [Ub _]].
  exists a. split; [exact Ua|]. eapply uncons_hd. exact Ub.
Qed.

Lemma starts_FU_facts s : starts_FU s ->
  eol s = false /\ sub_func s = None /\ sub_cfi s = None.
Proof.
  intros [s1 [U H1]]. pose proof (uncons_hd _ _ _ U) as H0. split; [|split].
  - unfold eol. destruct s as [|[b c] t]; [discriminate|]. cbn [hd_byte] in H0. inversion H0; subst b.
    cbn [skip_while]. unfold is_cr. cbn. reflexivity.
  - unfold sub_func, T_INLINE_ORIGIN_SP, T_INLINE_SP.
    rewrite !(tag_hd_ne 73 70 _ s H0) by lia.
    (* the line is not a line record: "F" is one hex digit, "U" is neither a hex digit nor a blank *)
    destruct (hd_uncons s1 85 H1) as [s2 U2].
    assert (Hx : hex_str 16 s = Some (15, s1)).
    { unfold hex_str. change 16%nat with (S (S 14)). cbn [digits]. rewrite U. change (hexval 70) with (Some 15).
      cbn iota beta. rewrite U2. change (hexval 85) with (@None Z). cbn iota beta. reflexivity. }
    unfold sub_line_data, hex64sp. rewrite Hx. unfold osp.
    destruct s1 as [|[b c] t]; [discriminate|]. cbn [hd_byte] in H1. inversion H1; subst b.
    cbn [space1]. change (is_sp 85) with false. cbn iota. reflexivity.
  - unfold sub_cfi, hdr, T_STACK_CFI. rewrite (tag_hd_ne 83 70 _ s H0) by lia. reflexivity.
Qed.

(* which parser of the alternation produced the item *)
Definition kind_ok (s : rle) (it : item) : Prop :=
  match it with
  | IFunc _ => p_func s = POk it
  | ICfiInit _ => p_stack_cfi_init s = POk it
  | IWin _ => p_stack_win s = POk it
  | _ => True
  end.

Lemma line_top_kind s it : line_top s = Some it -> kind_ok s it.
Proof.
  unfold line_top, alt. intros H.
  destruct (p_info_url s) eqn:E1; try discriminate.
  2:{ inversion H; subst a. unfold p_info_url, cutp in E1. destruct (hdr T_INFO_URL s); [|discriminate].
      destruct (name_eol r); inversion E1; subst; exact I. }
  destruct (p_info s) eqn:E2; try discriminate.
  2:{ inversion H; subst a. unfold p_info, cutp, guard in E2. destruct (hdr T_INFO s); [|discriminate].
      destruct (raw_eol r); inversion E2; subst; exact I. }
  destruct (p_file s) eqn:E3; try discriminate.
  2:{ inversion H; subst a. unfold p_file, cutp in E3. destruct (hdr T_FILE s); [|discriminate].
      destruct (id_name r) as [[? ?]|]; inversion E3; subst; exact I. }
  destruct (p_inline_origin s) eqn:E4; try discriminate.
  2:{ inversion H; subst a. unfold p_inline_origin, cutp in E4. destruct (hdr T_INLINE_ORIGIN s); [|discriminate].
      destruct (id_name r) as [[? ?]|]; inversion E4; subst; exact I. }
  destruct (p_public s) eqn:E5; try discriminate.
  2:{ inversion H; subst a. unfold p_public, cutp in E5. cbv zeta in E5. destruct (hdr T_PUBLIC s); [|discriminate].
      destruct (hex64sp _) as [[? ?]|]; [|discriminate]. destruct (hex32sp _) as [[? ?]|]; [|discriminate].
      destruct (name_eol _); inversion E5; subst; exact I. }
  destruct (p_func s) eqn:E6; try discriminate.
  2:{ inversion H; subst a. pose proof E6 as E6'. unfold p_func, cutp in E6'. cbv zeta in E6'.
      destruct (hdr T_FUNC s); [|discriminate].
      destruct (hex64sp _) as [[? ?]|]; [|discriminate]. destruct (hex32sp _) as [[? ?]|]; [|discriminate].
      destruct (hex32sp _) as [[? ?]|]; [|discriminate].
      destruct (name_eol _); inversion E6'; subst it. exact E6. }
  destruct (p_stack_win s) eqn:E7; try discriminate.
  2:{ inversion H; subst a. pose proof E7 as E7'. unfold p_stack_win, cutp in E7'. destruct (hdr T_STACK_WIN s); [|discriminate].
      repeat match type of E7' with context [match ?e with _ => _ end] => destruct e as [[? ?]|]; try discriminate end.
      destruct (name_eol _); inversion E7'; subst it. exact E7. }
  destruct (p_stack_cfi_init s) eqn:E8; try discriminate.
  2:{ inversion H; subst a. pose proof E8 as E8'. unfold p_stack_cfi_init, cutp in E8'. destruct (hdr T_STACK_CFI_INIT s); [|discriminate].
      destruct (hex64sp _) as [[? ?]|]; [|discriminate]. destruct (hex32sp _) as [[? ?]|]; [|discriminate].
      destruct (name_eol _); inversion E8'; subst it. exact E8. }
  destruct (p_module s) eqn:E9; try discriminate.
  inversion H; subst a. unfold p_module, cutp in E9. destruct (hdr T_MODULE s); [|discriminate].
  destruct (nonspace_sp _); [|discriminate]. destruct (nonspace_sp _); [|discriminate].
  destruct (hexdigit1_sp _) as [[? ?]|]; [|discriminate]. destruct (name_eol _); inversion E9; subst; exact I.
Qed.

Lemma line_top_func s f : line_top s = Some (IFunc f) -> p_func s = POk (IFunc f).
Proof. intros H. exact (line_top_kind s _ H). Qed.

Lemma func_line_is_top s f : line_top s = Some (IFunc f) ->
  eol s = false /\ sub_func s = None /\ sub_cfi s = None.
Proof.
  intros H. apply line_top_func in H. apply starts_FU_facts.
  unfold p_func in H. destruct (hdr T_FUNC s) as [s1|] eqn:E; [|discriminate]. eapply hdr_func_starts. exact E.
Qed.

(* ------------------------------------------------------------------ the FUNC items the parser holds = the FUNC lines *)
Definition fhdr : Type := (Z * Z * Z * rle)%type.
Definition hdr_raw (f : Grammar.func_raw) : fhdr :=
  (Grammar.fr_addr f, Grammar.fr_size f, Grammar.fr_psize f, Grammar.fr_name f).
Definition hdr_sf (f : sfunc) : fhdr := (sf_addr f, sf_size f, sf_psize f, sf_name f).
Definition hdr_range (h : fhdr) : option range := let '(a, sz, _, _) := h in mk_range a sz.

(* latest first: the open FUNC item, then the finished ones *)
Definition allfuncs (p : pst) : list Grammar.func_raw :=
  (match p_cur p with CFunc f => [f] | _ => [] end) ++ p_funcs p.
Definition hdrs (p : pst) : list fhdr := map hdr_raw (allfuncs p).
Definition line_hdr (s : rle) : list fhdr :=
  match line_top s with Some (IFunc f) => [hdr_raw f] | _ => [] end.

Lemma allfuncs_close p : p_funcs (close_cur p) = allfuncs p /\ allfuncs (close_cur p) = allfuncs p.
Proof. unfold allfuncs, close_cur. destruct (p_cur p) eqn:E; cbn; rewrite ?E; cbn; auto. Qed.

Lemma hdrs_top p s p' : top p s = inl p' -> hdrs p' = line_hdr s ++ map hdr_raw (p_funcs p).
Proof.
  intros H. destruct (eol s) eqn:Ee.
  { assert (Hn : line_hdr s = []).
    { unfold line_hdr. destruct (line_top s) as [[]|] eqn:El; try reflexivity.
      apply func_line_is_top in El. destruct El as [El _]. congruence. }
    rewrite Hn. unfold top in H. rewrite Ee in H. inversion H; subst. reflexivity. }
  unfold top in H. rewrite Ee in H. unfold hdrs, allfuncs, line_hdr.
  destruct (line_top s) as [it|] eqn:E; [|discriminate].
  destruct it as [id f|u| |id nm|id nm|pb|f|w|c].
  - destruct (p_lines p =? 0); [|discriminate]. inversion H; subst; reflexivity.
  - inversion H; subst; reflexivity.
  - inversion H; subst; reflexivity.
  - inversion H; subst; reflexivity.
  - inversion H; subst; reflexivity.
  - inversion H; subst; reflexivity.
  - inversion H; subst; reflexivity.
  - destruct w as [i|i|]; inversion H; subst; reflexivity.
  - inversion H; subst; reflexivity.
Qed.

Lemma hdrs_recog p s p' : recog_pst p s = inl p' -> hdrs p' = line_hdr s ++ hdrs p.
Proof.
  intros H. unfold recog_pst in H.
  assert (Hsub : (sub_func s <> None \/ sub_cfi s <> None) -> line_hdr s = []).
  { intros Hs. unfold line_hdr. destruct (line_top s) as [[]|] eqn:El; try reflexivity.
    apply func_line_is_top in El. destruct El as [_ [A B]]. destruct Hs; congruence. }
  destruct (p_cur p) as [|f|c] eqn:Ec.
  - rewrite (hdrs_top p s p' H). unfold hdrs, allfuncs. rewrite Ec. reflexivity.
  - destruct (sub_func s) as [[id nm|l|l]|] eqn:Es.
    + rewrite Hsub by (left; discriminate). inversion H; subst. unfold hdrs, allfuncs; cbn. rewrite Ec. reflexivity.
    + rewrite Hsub by (left; discriminate). inversion H; subst. unfold hdrs, allfuncs; cbn. rewrite Ec. reflexivity.
    + rewrite Hsub by (left; discriminate). inversion H; subst. unfold hdrs, allfuncs; cbn. rewrite Ec. reflexivity.
    + rewrite (hdrs_top _ s p' H). destruct (allfuncs_close p) as [A _]. rewrite A. reflexivity.
  - destruct (sub_cfi s) as [r|] eqn:Es.
    + rewrite Hsub by (right; discriminate). inversion H; subst. unfold hdrs, allfuncs; cbn. rewrite Ec. reflexivity.
    + rewrite (hdrs_top _ s p' H). destruct (allfuncs_close p) as [A _]. rewrite A. reflexivity.
Qed.

Lemma hdrs_fold : forall ls p p',
  fold_recog rle pst recog_pst lineno_pst p ls = inl p' -> hdrs p' = rev (flat_map line_hdr ls) ++ hdrs p.
Proof.
  induction ls as [|s t IH]; intros p p' H; cbn [fold_recog] in H.
  - inversion H; subst. reflexivity.
  - destruct (recog_pst p s) as [p1|c] eqn:E; [|discriminate].
    assert (Hr : rev (line_hdr s) = line_hdr s) by (unfold line_hdr; destruct (line_top s) as [[]|]; reflexivity).
    rewrite (IH p1 p' H), (hdrs_recog p s p1 E). cbn [flat_map]. rewrite rev_app_distr, <- app_assoc, Hr. reflexivity.
Qed.

(* ------------------------------------------------------------------ finish_item keeps header and range *)
Definition ranged (h : fhdr) : list (range * fhdr) := match hdr_range h with Some r => [(r, h)] | None => [] end.
Definition ent_hdr (e : range * sfunc) : range * fhdr := (fst e, hdr_sf (snd e)).

Lemma finish_funcs_hdrs : forall l fl, finish_funcs l = Ret fl ->
  map ent_hdr fl = flat_map ranged (map hdr_raw l).
Proof.
  induction l as [|fr t IH]; intros fl H; cbn [finish_funcs] in H.
  - inversion H; subst. reflexivity.
  - destruct (finish_func fr) as [x| | |] eqn:E1; cbn [obind] in H; try discriminate.
    destruct (finish_funcs t) as [rest| | |] eqn:E2; cbn [obind] in H; try discriminate.
    inversion H; subst fl; clear H. cbn [map flat_map]. rewrite <- (IH rest eq_refl).
    unfold finish_func in E1. destruct (build line_eqb _) as [lines| | |]; cbn [obind] in E1; try discriminate.
    inversion E1; subst x; clear E1. unfold ranged, hdr_range, hdr_raw.
    destruct (mk_range (Grammar.fr_addr fr) (Grammar.fr_size fr)); reflexivity.
Qed.

(* ------------------------------------------------------------------ the theorem *)
Definition func_line_range (s : rle) : list range :=
  match line_top s with
  | Some (IFunc f) => match mk_range (Grammar.fr_addr f) (Grammar.fr_size f) with Some r => [r] | None => [] end
  | _ => []
  end.

Lemma ranged_line_hdr_in ls r h : In (r, h) (flat_map ranged (flat_map line_hdr ls)) ->
  exists s, In s ls /\ In r (func_line_range s).
Proof.
  intros H. apply in_flat_map in H. destruct H as [h' [Hh Hr]]. apply in_flat_map in Hh. destruct Hh as [s [Hs Hl]].
  exists s. split; [exact Hs|]. unfold line_hdr in Hl. unfold func_line_range.
  destruct (line_top s) as [[| | | | | |f| |]|]; try (destruct Hl; fail).
  destruct Hl as [Hl|[]]. rewrite <- Hl in Hr.
  unfold ranged, hdr_range, hdr_raw in Hr.
  destruct (mk_range (Grammar.fr_addr f) (Grammar.fr_size f)); [|destruct Hr].
  destruct Hr as [Hr|[]]. inversion Hr; subst. left. reflexivity.
Qed.

Lemma text_func_complete lines tail sch p s :
  Forall (fun l => cllen l <= HALF_CAP) lines ->
  drive_c lines tail sch = Ret (ROk p, s) ->
  exists t, table_of (ROk p) = Ret (Some t) /\
    forall L1 s0 L2 f0 r x,
      lines = L1 ++ s0 :: L2 -> line_top s0 = Some (IFunc f0) ->
      mk_range (Grammar.fr_addr f0) (Grammar.fr_size f0) = Some r ->
      (forall s' r', In s' (L1 ++ L2) -> In r' (func_line_range s') -> intersects r r' = false) ->
      contains r x = true ->
      exists f, rm_get (t_funcs t) x = Some f /\ hdr_sf f = hdr_raw f0.
Proof.
  intros Hshort H.
  destruct (st_final_prov lines tail sch p s H) as [W _].
  pose proof (ok_is_fold rle cllen pst init_pst recog_pst bump_pst lineno_pst cllen_pos lines tail sch p s Hshort H) as Hfold.
  apply hdrs_fold in Hfold. rewrite app_nil_r in Hfold.
  destruct (finish_total p W) as [t Ht]. exists t. split; [cbn [table_of]; rewrite Ht; reflexivity|].
  (* open finish *)
  unfold finish in Ht. cbv zeta in Ht.
  destruct (close_cur_wf p W) as [Wc _]. destruct Wc as (_ & Hf & _).
  destruct (allfuncs_close p) as [Hall _]. rewrite Hall in Ht, Hf.
  destruct (finish_funcs (rev (allfuncs p))) as [fl| | |] eqn:E1; cbn [obind] in Ht; try discriminate.
  destruct (finish_funcs_total (rev (allfuncs p)) (Forall_rev Hf)) as (fl' & E1' & Wfl). rewrite E1 in E1'. inversion E1'; subst fl'.
  rewrite (build_total_p sfunc_eqb fl Wfl) in Ht. cbn [obind] in Ht.
  assert (Htf : t_funcs t = into_rangemap_safe_p sfunc_eqb fl).
  { repeat match type of Ht with
           | obind ?e _ = Ret _ => destruct e; cbn [obind] in Ht; try discriminate
           end.
    inversion Ht; subst t. reflexivity. }
  pose proof (finish_funcs_hdrs _ _ E1) as Hmap.
  rewrite map_rev in Hmap. fold (hdrs p) in Hmap. rewrite Hfold, rev_involutive in Hmap.
  intros L1 s0 L2 f0 r x Hl Hs0 Hr Hiso Hx. subst lines.
  rewrite !flat_map_app in Hmap. cbn [flat_map] in Hmap. rewrite flat_map_app in Hmap.
  unfold line_hdr at 2 in Hmap. rewrite Hs0 in Hmap. cbn [flat_map app] in Hmap.
  unfold ranged at 2 in Hmap. unfold hdr_range, hdr_raw in Hmap. rewrite Hr in Hmap. fold (hdr_raw f0) in Hmap.
  cbn [app] in Hmap.
  apply map_eq_app in Hmap. destruct Hmap as (l1 & l2' & Hfl & M1 & M2).
  apply map_eq_cons in M2. destruct M2 as (e & l2 & Hl2 & He & M2). subst l2' fl.
  destruct e as [re f]. unfold ent_hdr in He. cbn [fst snd] in He. assert (re = r) by (inversion He; reflexivity). subst re.
  exists f. split; [|exact (f_equal snd He)].
  rewrite Htf. apply (isolated_complete_p sfunc_eqb st_sfunc_eqb_eq l1 r f l2 x Wfl); [|exact Hx].
  intros r' v' Hin.
  assert (Hin' : In (r', hdr_sf v') (flat_map ranged (flat_map line_hdr (L1 ++ L2)))).
  { rewrite !flat_map_app. rewrite <- M1, <- M2. rewrite <- map_app. apply (in_map ent_hdr _ (r', v')). exact Hin. }
  apply ranged_line_hdr_in in Hin'. destruct Hin' as [s' [Hs' Hr']]. exact (Hiso s' r' Hs' Hr').
Qed.

(* the same with the hypotheses in plain arithmetic on the fields the recogniser read *)
Lemma stc_mk_range_some b s : 0 < s -> b + s < two64 -> mk_range b s = Some (b, b + s - 1).
Proof.
  intros Hs Hlt. unfold mk_range, checked_add. destruct (s =? 0) eqn:E0; [apply Z.eqb_eq in E0; lia|].
  rewrite <- two64_val. destruct (b + s <? two64) eqn:E1; [reflexivity|apply Z.ltb_ge in E1; lia].
Qed.

Lemma text_func_complete_arith lines tail sch p s :
  Forall (fun l => cllen l <= HALF_CAP) lines ->
  drive_c lines tail sch = Ret (ROk p, s) ->
  exists t, table_of (ROk p) = Ret (Some t) /\
    forall L1 s0 L2 f0 x,
      lines = L1 ++ s0 :: L2 -> line_top s0 = Some (IFunc f0) ->
      let a := Grammar.fr_addr f0 in let sz := Grammar.fr_size f0 in
      sz <> 0 -> a + sz < two64 -> a <= x < a + sz ->
      (forall s' f', In s' (L1 ++ L2) -> line_top s' = Some (IFunc f') ->
         Grammar.fr_size f' = 0 \/ two64 <= Grammar.fr_addr f' + Grammar.fr_size f' \/
         Grammar.fr_addr f' + Grammar.fr_size f' <= a \/ a + sz <= Grammar.fr_addr f') ->
      exists f, rm_get (t_funcs t) x = Some f /\
        sf_addr f = a /\ sf_size f = sz /\ sf_psize f = Grammar.fr_psize f0 /\ sf_name f = Grammar.fr_name f0.
Proof.
  intros Hshort H. destruct (text_func_complete lines tail sch p s Hshort H) as [t [Ht Hc]].
  exists t. split; [exact Ht|]. intros L1 s0 L2 f0 x Hl Hs0 a sz Hnz Hlt Hx Hiso.
  assert (Hpos : 0 < sz).
  { pose proof (line_top_wf s0 _ Hs0) as Hw. cbn in Hw. destruct Hw as [(_ & B & _) _]. unfold sz in *. lia. }
  destruct (Hc L1 s0 L2 f0 (a, a + sz - 1) x Hl Hs0 (stc_mk_range_some a sz Hpos Hlt)) as [f [Hg Hh]].
  - intros s' r' Hin Hr'. unfold func_line_range in Hr'.
    destruct (line_top s') as [[| | | | | |f'| |]|] eqn:El; try (destruct Hr'; fail).
    destruct (mk_range (Grammar.fr_addr f') (Grammar.fr_size f')) as [r0|] eqn:Er; [|destruct Hr'].
    destruct Hr' as [<-|[]]. specialize (Hiso s' f' Hin El).
    unfold mk_range, checked_add in Er. destruct (Grammar.fr_size f' =? 0) eqn:E0; [discriminate|].
    rewrite <- two64_val in Er. destruct (Grammar.fr_addr f' + Grammar.fr_size f' <? two64) eqn:E1; [|discriminate].
    inversion Er; subst r0. apply Z.eqb_neq in E0. apply Z.ltb_lt in E1.
    unfold intersects. cbn [fst snd]. apply andb_false_iff.
    destruct Hiso as [C|[C|[C|C]]]; lia.
  - unfold contains. cbn [fst snd]. apply andb_true_intro. split; apply Z.leb_le; lia.
  - exists f. split; [exact Hg|]. unfold hdr_sf, hdr_raw in Hh. inversion Hh. auto.
Qed.
