From Coq Require Extraction.
From Coq Require Import ExtrOcamlBasic.
From RM Require Import C08.Driver.
Extraction "c08_model.ml" run_case o_panic o_err o_table o_gets.
