(* C08/Proofs.v — lemmas about the range-table model. *)
From Coq Require Import Lia Sorting.Sorted Sorting.Permutation.
From RM Require Import C08.Model.
Open Scope Z_scope.

Definition wf_range (r : range) : Prop := 0 <= fst r /\ fst r <= snd r /\ snd r < two64.
Definition wf_entries {V} (l : list (option range * V)) : Prop :=
  Forall (fun e => match fst e with Some r => wf_range r | None => True end) l.
Definition wf_ranges {V} (l : list (range * V)) : Prop := Forall (fun e => wf_range (fst e)) l.

Lemma two64_val : two64 = 2 ^ 64. Proof. reflexivity. Qed.

Lemma mk_range_wf base size r :
  0 <= base -> 0 <= size -> mk_range base size = Some r -> wf_range r.
Proof.
  unfold mk_range, checked_add, wf_range. intros Hb Hs.
  destruct (size =? 0) eqn:E0; [discriminate|].
  destruct (base + size <? 2 ^ 64) eqn:E1; [|discriminate].
  intros H; inversion H; subst; cbn [fst snd]. rewrite two64_val. lia.
Qed.

Lemma mk_range_maps_wf lo hi r :
  0 <= lo -> hi < two64 -> mk_range_maps lo hi = Some r -> wf_range r.
Proof.
  unfold mk_range_maps, wf_range. intros Hl Hh.
  destruct (lo >? hi) eqn:E; [discriminate|].
  intros H; inversion H; subst; cbn [fst snd]. lia.
Qed.

Lemma sat_add_64 a : 0 <= a < two64 -> sat_add 64 a 1 = Z.min (a + 1) (two64 - 1).
Proof. reflexivity. Qed.

(* ------------------------------------------------------------------ sorting *)
Section SortFacts.
  Context {K V : Type} (lt : K -> K -> bool).
  Hypothesis lt_asym : forall a b, lt a b = true -> lt b a = false.
  Hypothesis lt_negtrans : forall a b c, lt b a = false -> lt c b = false -> lt c a = false.

  Definition le_keys (a b : K * V) : Prop := lt (fst b) (fst a) = false.

  Lemma insert_perm x (l : list (K * V)) : Permutation (x :: l) (insert_stable lt x l).
  Proof.
    induction l as [|y t IH]; cbn [insert_stable]; [reflexivity|].
    destruct (lt (fst y) (fst x)); [|reflexivity].
    rewrite perm_swap. constructor. exact IH.
  Qed.

  Lemma sort_perm (l : list (K * V)) : Permutation l (sort_stable lt l).
  Proof.
    induction l as [|x t IH]; cbn [sort_stable fold_right]; [reflexivity|].
    etransitivity; [|apply insert_perm]. constructor. exact IH.
  Qed.

  Lemma insert_sorted x (l : list (K * V)) :
    StronglySorted le_keys l -> StronglySorted le_keys (insert_stable lt x l).
  Proof.
    induction l as [|y t IH]; cbn [insert_stable]; intros Hs.
    - constructor; constructor.
    - inversion Hs as [|? ? Ht Hall]; subst.
      destruct (lt (fst y) (fst x)) eqn:E.
      + constructor; [apply IH; exact Ht|].
        eapply Permutation_Forall; [apply insert_perm|].
        constructor; [|exact Hall]. unfold le_keys. apply lt_asym. exact E.
      + constructor; [exact Hs|]. constructor; [exact E|].
        rewrite Forall_forall in *. intros z Hz. unfold le_keys in *.
        eapply lt_negtrans; [exact E|]. apply Hall. exact Hz.
  Qed.

  Lemma sort_sorted (l : list (K * V)) : StronglySorted le_keys (sort_stable lt l).
  Proof.
    induction l as [|x t IH]; cbn [sort_stable fold_right]; [constructor|].
    apply insert_sorted. exact IH.
  Qed.

  (* a list that is already strictly increasing is left alone *)
  Lemma insert_front x (l : list (K * V)) :
    Forall (fun y => lt (fst y) (fst x) = false) l -> insert_stable lt x l = x :: l.
  Proof.
    destruct l as [|y t]; cbn [insert_stable]; [reflexivity|].
    intros H; inversion H; subst. rewrite H2. reflexivity.
  Qed.

  Lemma sort_id (l : list (K * V)) :
    StronglySorted le_keys l -> sort_stable lt l = l.
  Proof.
    induction l as [|x t IH]; cbn [sort_stable fold_right]; [reflexivity|].
    intros Hs; inversion Hs; subst. fold (sort_stable lt t). rewrite IH by assumption.
    apply insert_front. assumption.
  Qed.
End SortFacts.

Lemma range_lt_asym a b : range_lt a b = true -> range_lt b a = false.
Proof. unfold range_lt; destruct a, b; cbn [fst snd]; lia. Qed.
Lemma range_lt_negtrans a b c :
  range_lt b a = false -> range_lt c b = false -> range_lt c a = false.
Proof. unfold range_lt; destruct a, b, c; cbn [fst snd]; lia. Qed.
Lemma okey_lt_asym a b : okey_lt a b = true -> okey_lt b a = false.
Proof. destruct a, b; cbn; auto using range_lt_asym; discriminate. Qed.
Lemma okey_lt_negtrans a b c :
  okey_lt b a = false -> okey_lt c b = false -> okey_lt c a = false.
Proof. destruct a, b, c; cbn; eauto using range_lt_negtrans; discriminate. Qed.

(* ------------------------------------------------------------- drop_none *)
Section Build.
Context {V : Type} (eqb : V -> V -> bool).
Hypothesis eqb_eq : forall a b, eqb a b = true <-> a = b.

Lemma drop_none_in (l : list (option range * V)) r v :
  In (r, v) (drop_none l) <-> In (Some r, v) l.
Proof.
  induction l as [|[[r'|] v'] t IH]; cbn [drop_none In]; [tauto| |].
  - rewrite IH. split; (intros [H|H]; [left; inversion H; reflexivity|right; exact H]).
  - rewrite IH. split; [auto|]. intros [H|H]; [discriminate|exact H].
Qed.

Lemma drop_none_wf (l : list (option range * V)) : wf_entries l -> wf_ranges (drop_none l).
Proof.
  unfold wf_entries, wf_ranges. induction l as [|[[r|] v] t IH]; cbn [drop_none]; intros H.
  - constructor.
  - inversion H; subst. constructor; [assumption|auto].
  - inversion H; subst. auto.
Qed.

Definition start_le (a b : range * V) : Prop := fst (fst a) <= fst (fst b).

Lemma drop_none_sorted (l : list (option range * V)) :
  StronglySorted (le_keys okey_lt) l -> StronglySorted start_le (drop_none l).
Proof.
  induction l as [|[[r|] v] t IH]; cbn [drop_none]; intros Hs; inversion Hs; subst.
  - constructor.
  - constructor; [auto|]. rewrite Forall_forall in *. intros [r' v'] Hin.
    apply drop_none_in in Hin. specialize (H2 _ Hin). unfold le_keys, start_le in *.
    cbn [fst snd okey_lt] in *. unfold range_lt in H2. destruct r, r'; cbn [fst snd] in *. lia.
  - auto.
Qed.

Lemma range_sorted_start (l : list (range * V)) :
  StronglySorted (le_keys range_lt) l -> StronglySorted start_le l.
Proof.
  induction 1 as [|x t Ht IH Hall]; constructor; [assumption|].
  rewrite Forall_forall in *. intros y Hy. specialize (Hall _ Hy).
  unfold le_keys, start_le, range_lt in *. destruct x as [[? ?] ?], y as [[? ?] ?]; cbn [fst snd] in *. lia.
Qed.

(* ------------------------------------------------------------ merge loop *)
(* [acc] is reversed output.  Strictly disjoint and increasing, read backwards. *)
Definition gap (later earlier : range * V) : Prop := snd (fst earlier) < fst (fst later).
(* no two neighbours that normalize would still merge *)
Definition no_touch (later earlier : range * V) : Prop :=
  ~ (fst (fst later) <= sat_add 64 (snd (fst earlier)) 1 /\ eqb (snd later) (snd earlier) = true).

Inductive acc_ok : list (range * V) -> Prop :=
| acc_nil : acc_ok []
| acc_one x : wf_range (fst x) -> acc_ok [x]
| acc_cons x y t : wf_range (fst x) -> gap x y -> no_touch x y -> acc_ok (y :: t) -> acc_ok (x :: y :: t).

Lemma acc_ok_tail x t : acc_ok (x :: t) -> acc_ok t.
Proof. inversion 1; subst; [constructor|assumption]. Qed.
Lemma acc_ok_head_wf x t : acc_ok (x :: t) -> wf_range (fst x).
Proof. inversion 1; subst; assumption. Qed.

Definition head_start_le (acc : list (range * V)) (s : Z) : Prop :=
  match acc with [] => True | (lr, _) :: _ => fst lr <= s end.

Lemma merge_step_ok acc rv :
  acc_ok acc -> wf_range (fst rv) -> head_start_le acc (fst (fst rv)) ->
  acc_ok (merge_step eqb acc rv) /\
  (forall s, fst (fst rv) <= s -> head_start_le (merge_step eqb acc rv) s).
Proof.
  intros Hok Hwf Hhd. destruct acc as [|[lr lv] acc']; cbn [merge_step].
  - split; [constructor; assumption|]. intros s Hs. destruct rv as [r v]; cbn in *. exact Hs.
  - destruct rv as [r v]. cbn [fst snd head_start_le] in *.
    pose proof (acc_ok_head_wf _ _ Hok) as Hlwf. cbn [fst] in Hlwf.
    destruct ((fst r <=? snd lr) && negb (eqb v lv)) eqn:E1.
    + split; [assumption|]. intros s Hs. cbn. lia.
    + destruct ((fst r <=? sat_add 64 (snd lr) 1) && eqb v lv) eqn:E2.
      * split.
        -- inversion Hok; subst.
           ++ constructor. unfold wf_range in *. cbn [fst snd] in *. lia.
           ++ constructor; try assumption.
              unfold wf_range in *; cbn [fst snd] in *; lia.
        -- intros s Hs. cbn. lia.
      * split.
        -- constructor; try assumption.
           ++ unfold gap; cbn [fst snd].
              destruct (eqb v lv) eqn:Ev.
              ** rewrite andb_true_r in E2. unfold sat_add in E2.
                 unfold wf_range in *. rewrite two64_val in *. lia.
              ** rewrite andb_true_r in E1. lia.
           ++ unfold no_touch; cbn [fst snd]. intros [Ha Hb]. rewrite Hb in E2.
              rewrite andb_true_r in E2. lia.
        -- intros s Hs. cbn. lia.
Qed.

Lemma fold_merge_ok l : forall acc,
  acc_ok acc -> wf_ranges l -> StronglySorted start_le l ->
  Forall (fun e => head_start_le acc (fst (fst e))) l ->
  acc_ok (fold_left (merge_step eqb) l acc).
Proof.
  induction l as [|rv t IH]; intros acc Hok Hwf Hs Hhd; cbn [fold_left]; [assumption|].
  inversion Hwf as [|? ? Hwf1 Hwf2]; subst. inversion Hs as [|? ? Hs1 Hs2]; subst.
  inversion Hhd as [|? ? Hhd1 Hhd2]; subst.
  destruct (merge_step_ok acc rv Hok Hwf1 Hhd1) as [Hok' Hhd'].
  apply IH; try assumption.
  rewrite Forall_forall in *. intros e He. apply Hhd'. apply Hs2. exact He.
Qed.

(* output order *)
Definition strictly_before (a b : range * V) : Prop := snd (fst a) < fst (fst b).

Lemma acc_ok_forall_gap x t : acc_ok (x :: t) -> Forall (fun y => gap x y) t.
Proof.
  revert x. induction t as [|y t IH]; intros x H; [constructor|].
  inversion H; subst. constructor; [assumption|].
  specialize (IH y H6). rewrite Forall_forall in *. intros z Hz. specialize (IH z Hz).
  unfold gap in *. pose proof (acc_ok_head_wf _ _ H6) as Hw. unfold wf_range in Hw. lia.
Qed.

Lemma acc_ok_rev_sorted acc : acc_ok acc -> StronglySorted strictly_before (rev acc).
Proof.
  induction acc as [|x t IH]; intros H; cbn [rev]; [constructor|].
  pose proof (acc_ok_forall_gap _ _ H) as Hg. apply acc_ok_tail in H. specialize (IH H).
  clear H. revert IH Hg. generalize (rev_involutive t). generalize (rev t) as u.
  intros u Hu. rewrite <- Hu. clear Hu t. intros Hs Hg.
  assert (Hg' : Forall (fun y => gap x y) u).
  { rewrite Forall_forall in *. intros y Hy. apply Hg. rewrite <- in_rev. exact Hy. }
  clear Hg. induction Hs as [|y u Hu IHu Hall]; cbn [app].
  - constructor; constructor.
  - inversion Hg'; subst. constructor; [auto|].
    rewrite Forall_forall in *. intros z Hz. apply in_app_or in Hz. destruct Hz as [Hz|[Hz|[]]].
    + auto.
    + subst z. assumption.
Qed.

Lemma acc_ok_wf acc : acc_ok acc -> wf_ranges acc.
Proof.
  induction acc as [|x t IH]; intros H; [constructor|].
  constructor; [eapply acc_ok_head_wf; eassumption|]. apply IH. eapply acc_ok_tail; eassumption.
Qed.

Theorem merge_sorted_disjoint l :
  wf_ranges l -> StronglySorted start_le l ->
  StronglySorted strictly_before (merge_sorted eqb l) /\ wf_ranges (merge_sorted eqb l).
Proof.
  intros Hwf Hs. unfold merge_sorted.
  assert (Hok : acc_ok (fold_left (merge_step eqb) l [])).
  { apply fold_merge_ok; try assumption; [constructor|]. rewrite Forall_forall. intros; exact I. }
  split; [apply acc_ok_rev_sorted; assumption|].
  unfold wf_ranges. apply Forall_rev. apply acc_ok_wf. assumption.
Qed.

(* ---------------------------------------------- try_from_iter is the identity *)
(* neighbours, in output order *)
Inductive out_ok : list (range * V) -> Prop :=
| out_nil : out_ok []
| out_one x : out_ok [x]
| out_cons x y t : gap y x -> no_touch y x -> out_ok (y :: t) -> out_ok (x :: y :: t).

Lemma acc_ok_out_ok_gen acc : acc_ok acc -> forall tl, out_ok tl ->
  (match acc, tl with x :: _, y :: _ => gap y x /\ no_touch y x | _, _ => True end) ->
  out_ok (rev acc ++ tl).
Proof.
  induction acc as [|x t IH]; intros Hok tl Htl Hj; cbn [rev app]; [assumption|].
  rewrite <- app_assoc. cbn [app]. apply IH.
  - eapply acc_ok_tail; eassumption.
  - destruct tl as [|y tl']; [constructor|]. destruct Hj. constructor; assumption.
  - destruct t as [|z t']; [exact I|]. inversion Hok; subst. split; assumption.
Qed.

Lemma acc_ok_out_ok acc : acc_ok acc -> out_ok (rev acc).
Proof.
  intros H. rewrite <- (app_nil_r (rev acc)). apply acc_ok_out_ok_gen; [assumption|constructor|].
  destruct acc; exact I.
Qed.

Lemma norm_id_gen l : forall acc,
  out_ok (rev acc ++ l) -> wf_ranges (rev acc ++ l) ->
  fold_left (norm_step eqb) l (acc, []) = (rev l ++ acc, []).
Proof.
  induction l as [|rv t IH]; intros acc Hok Hwf; cbn [fold_left rev app]; [reflexivity|].
  assert (Hstep : norm_step eqb (acc, []) rv = (rv :: acc, [])).
  { destruct acc as [|[lr lv] acc']; cbn [norm_step]; [reflexivity|].
    destruct rv as [r v]. cbn [rev] in Hok, Hwf. rewrite <- app_assoc in Hok, Hwf. cbn [app] in Hok, Hwf.
    assert (Hpair : gap (r, v) (lr, lv) /\ no_touch (r, v) (lr, lv)).
    { clear -Hok. induction (rev acc') as [|a u IHu]; cbn [app] in Hok.
      - inversion Hok; subst. split; assumption.
      - apply IHu. inversion Hok; subst; [destruct u; discriminate|assumption]. }
    destruct Hpair as [Hg Hn]. unfold gap, no_touch in *. cbn [fst snd] in *.
    destruct ((fst r <=? snd lr) && negb (eqb v lv)) eqn:E1; [lia|].
    destruct ((fst r <=? sat_add 64 (snd lr) 1) && eqb v lv) eqn:E2; [|reflexivity].
    exfalso. apply Hn. apply andb_prop in E2. destruct E2 as [E2a E2b]. split; [lia|assumption]. }
  rewrite Hstep. rewrite IH.
  - rewrite <- app_assoc. reflexivity.
  - cbn [rev]. rewrite <- app_assoc. exact Hok.
  - cbn [rev]. rewrite <- app_assoc. exact Hwf.
Qed.

Lemma normalize_id l : out_ok l -> wf_ranges l -> rm_normalize eqb l = (l, []).
Proof.
  intros Hok Hwf. unfold rm_normalize. rewrite (norm_id_gen l []); [|assumption|assumption].
  rewrite app_nil_r, rev_involutive. reflexivity.
Qed.

Lemma strictly_sorted_le l :
  wf_ranges l -> StronglySorted strictly_before l -> StronglySorted (le_keys range_lt) l.
Proof.
  intros Hwf Hs. induction Hs as [|x t Ht IH Hall]; constructor.
  - apply IH. inversion Hwf; assumption.
  - inversion Hwf; subst. rewrite Forall_forall in *. intros y Hy. specialize (Hall _ Hy).
    specialize (H2 _ Hy). unfold strictly_before, le_keys, range_lt, wf_range in *.
    destruct x as [[? ?] ?], y as [[? ?] ?]; cbn [fst snd] in *. lia.
Qed.

Theorem try_from_iter_id l :
  wf_ranges l -> StronglySorted start_le l ->
  rm_try_from_iter eqb (merge_sorted eqb l) = Ret (merge_sorted eqb l).
Proof.
  intros Hwf Hs. destruct (merge_sorted_disjoint l Hwf Hs) as [Hsd Hw].
  unfold rm_try_from_iter. rewrite sort_id.
  - rewrite normalize_id; [reflexivity| |assumption].
    unfold merge_sorted. apply acc_ok_out_ok.
    apply fold_merge_ok; try assumption; [constructor|]. rewrite Forall_forall. intros; exact I.
  - apply strictly_sorted_le; assumption.
Qed.

(* ------------------------------------------------------------- soundness *)
(* every point of every output range lies in an input range with that value *)
Definition covered (inp : list (range * V)) (e : range * V) : Prop :=
  forall x, contains (fst e) x = true -> exists r, In (r, snd e) inp /\ contains r x = true.

Lemma merge_step_covered inp acc rv :
  Forall (covered inp) acc -> In rv inp -> wf_range (fst rv) ->
  head_start_le acc (fst (fst rv)) ->
  Forall (covered inp) (merge_step eqb acc rv).
Proof.
  intros Hc Hin Hwf Hhd. assert (Hrv : covered inp rv).
  { intros x Hx. exists (fst rv). destruct rv; cbn [fst snd] in *. auto. }
  destruct acc as [|[lr lv] acc']; cbn [merge_step]; [constructor; [assumption|constructor]|].
  destruct rv as [r v].
  destruct ((fst r <=? snd lr) && negb (eqb v lv)) eqn:E1; [assumption|].
  destruct ((fst r <=? sat_add 64 (snd lr) 1) && eqb v lv) eqn:E2; [|constructor; assumption].
  inversion Hc; subst. constructor; [|assumption].
  apply andb_prop in E2. destruct E2 as [E2 Ev]. apply eqb_eq in Ev. subst lv.
  intros x Hx. unfold contains in Hx. cbn [fst snd] in Hx, Hhd.
  destruct (x <=? snd lr) eqn:Ex.
  - apply H1. unfold contains. cbn [fst snd]. lia.
  - apply Hrv. unfold contains. cbn [fst snd]. unfold sat_add in E2. lia.
Qed.

Lemma fold_merge_covered inp l : forall acc,
  acc_ok acc -> Forall (covered inp) acc -> incl l inp -> wf_ranges l -> StronglySorted start_le l ->
  Forall (fun e => head_start_le acc (fst (fst e))) l ->
  Forall (covered inp) (fold_left (merge_step eqb) l acc).
Proof.
  induction l as [|rv t IH]; intros acc Hok Hc Hincl Hwf Hs Hhd; cbn [fold_left]; [assumption|].
  inversion Hwf as [|? ? Hwf1 Hwf2]; subst. inversion Hs as [|? ? Hs1 Hs2]; subst.
  inversion Hhd as [|? ? Hhd1 Hhd2]; subst.
  destruct (merge_step_ok acc rv Hok Hwf1 Hhd1) as [Hok' Hhd'].
  apply IH; try assumption.
  - apply merge_step_covered; try assumption. apply Hincl. left. reflexivity.
  - intros e He. apply Hincl. right. exact He.
  - rewrite Forall_forall in *. intros e He. apply Hhd'. apply Hs2. exact He.
Qed.

Theorem merge_sorted_covered l :
  wf_ranges l -> StronglySorted start_le l -> Forall (covered l) (merge_sorted eqb l).
Proof.
  intros Hwf Hs. unfold merge_sorted. apply Forall_rev.
  apply fold_merge_covered; try assumption; try constructor.
  - apply incl_refl.
  - rewrite Forall_forall. intros; exact I.
Qed.

(* rm_get only ever answers from an element that contains the point *)
Lemma rm_get_in (elts : list (range * V)) x v :
  rm_get elts x = Some v -> exists r, In (r, v) elts /\ contains r x = true.
Proof.
  unfold rm_get. destruct elts as [|e0 t]; [discriminate|].
  set (b := bsearch_loop _ _ _ _ _). destruct (nth_error (e0 :: t) b) as [[r v']|] eqn:En; [|discriminate].
  unfold range_cmp_pt. destruct (snd r <? x) eqn:E1; [discriminate|].
  destruct (fst r >? x) eqn:E2; [discriminate|]. intros H; inversion H; subst.
  exists r. split; [eapply nth_error_In; eassumption|]. unfold contains. lia.
Qed.

(* ---------------------------------------------------------- binary search *)
Definition nth_sorted (elts : list (range * V)) : Prop :=
  forall i j ei ej, (i < j)%nat -> nth_error elts i = Some ei -> nth_error elts j = Some ej ->
                    snd (fst ei) < fst (fst ej).

Lemma sorted_nth (elts : list (range * V)) : StronglySorted strictly_before elts -> nth_sorted elts.
Proof.
  induction 1 as [|x t Ht IH Hall]; intros i j ei ej Hij Hi Hj.
  - destruct i; discriminate.
  - destruct j as [|j]; [lia|]. cbn [nth_error] in Hj. destruct i as [|i]; cbn [nth_error] in Hi.
    + inversion Hi; subst. rewrite Forall_forall in Hall. apply Hall. eapply nth_error_In; eassumption.
    + eapply IH; [|eassumption|eassumption]. lia.
Qed.

Lemma div2_bounds n : (2 <= n -> 1 <= Nat.div2 n /\ Nat.div2 n <= n - Nat.div2 n)%nat.
Proof.
  intros H. pose proof (Nat.div2_odd n) as Ho. destruct (Nat.odd n); cbn [Nat.b2n] in Ho; lia.
Qed.

Lemma bsearch_finds (elts : list (range * V)) x k ek :
  nth_sorted elts -> wf_ranges elts ->
  nth_error elts k = Some ek -> contains (fst ek) x = true ->
  forall fuel base size,
    (size <= fuel)%nat -> (1 <= size)%nat -> (base <= k < base + size)%nat ->
    (base + size <= length elts)%nat ->
    bsearch_loop fuel elts x base size = k.
Proof.
  intros Hs Hwf Hk Hc. induction fuel as [|fuel IH]; intros base size Hf H1 Hb Hlen; [lia|].
  cbn [bsearch_loop]. destruct (Nat.leb size 1) eqn:El.
  - apply Nat.leb_le in El. lia.
  - apply Nat.leb_gt in El. destruct (div2_bounds size) as [Hh1 Hh2]; [lia|].
    set (half := Nat.div2 size) in *. set (mid := (base + half)%nat).
    destruct (nth_error elts mid) as [[r v]|] eqn:Em.
    2:{ apply nth_error_None in Em. lia. }
    assert (Hwr : wf_range r).
    { unfold wf_ranges in Hwf. rewrite Forall_forall in Hwf.
      apply (Hwf (r, v)). eapply nth_error_In; eassumption. }
    assert (Hwk : wf_range (fst ek)).
    { unfold wf_ranges in Hwf. rewrite Forall_forall in Hwf. apply Hwf. eapply nth_error_In; eassumption. }
    unfold contains in Hc. unfold wf_range in *.
    unfold range_cmp_pt. destruct (snd r <? x) eqn:E1; [|destruct (fst r >? x) eqn:E2].
    + (* Less: k >= mid *)
      apply IH; try lia. destruct (Nat.lt_ge_cases k mid) as [Hlt|Hge]; [|lia].
      pose proof (Hs k mid ek (r, v) Hlt Hk Em) as Hord. cbn [fst snd] in Hord. lia.
    + (* Greater: k < mid *)
      apply IH; try lia. destruct (Nat.lt_ge_cases k mid) as [Hlt|Hge]; [lia|].
      destruct (Nat.eq_dec k mid) as [->|Hne].
      * rewrite Em in Hk. inversion Hk; subst. cbn [fst snd] in *. lia.
      * assert (Hlt : (mid < k)%nat) by lia.
        pose proof (Hs mid k (r, v) ek Hlt Em Hk) as Hord. cbn [fst snd] in Hord. lia.
    + (* Equal: mid contains x, so mid = k *)
      apply IH; try lia. destruct (Nat.lt_ge_cases k mid) as [Hlt|Hge]; [|lia].
      pose proof (Hs k mid ek (r, v) Hlt Hk Em) as Hord. cbn [fst snd] in Hord. lia.
Qed.

Theorem rm_get_complete (elts : list (range * V)) x r v :
  StronglySorted strictly_before elts -> wf_ranges elts ->
  In (r, v) elts -> contains r x = true -> rm_get elts x = Some v.
Proof.
  intros Hs Hwf Hin Hc. apply In_nth_error in Hin. destruct Hin as [k Hk].
  unfold rm_get. destruct elts as [|e0 t] eqn:Ee; [destruct k; discriminate|]. rewrite <- Ee in *.
  assert (Hlen : (k < length elts)%nat) by (apply nth_error_Some; congruence).
  rewrite (bsearch_finds elts x k (r, v)); try assumption; try lia.
  - rewrite Hk. unfold range_cmp_pt. unfold contains in Hc. cbn [fst snd] in *.
    destruct (snd r <? x) eqn:E1; [lia|]. destruct (fst r >? x) eqn:E2; [lia|]. reflexivity.
  - apply sorted_nth. assumption.
Qed.

Theorem rm_get_is_find (elts : list (range * V)) x :
  StronglySorted strictly_before elts -> wf_ranges elts ->
  rm_get elts x = find_linear elts x.
Proof.
  intros Hs Hwf. destruct (find_linear elts x) as [v|] eqn:Ef.
  - assert (exists r, In (r, v) elts /\ contains r x = true) as [r [Hin Hc]].
    { clear -Ef. induction elts as [|[r' v'] t IH]; cbn [find_linear] in Ef; [discriminate|].
      destruct (contains r' x) eqn:Ec.
      - inversion Ef; subst. exists r'. split; [left; reflexivity|assumption].
      - destruct (IH Ef) as [r [Hin Hc]]. exists r. split; [right; assumption|assumption]. }
    eapply rm_get_complete; eassumption.
  - destruct (rm_get elts x) as [v|] eqn:Eg; [|reflexivity].
    apply rm_get_in in Eg. destruct Eg as [r [Hin Hc]]. exfalso.
    clear -Ef Hin Hc. induction elts as [|[r' v'] t IH]; [destruct Hin|].
    cbn [find_linear] in Ef. destruct (contains r' x) eqn:Ec; [discriminate|].
    destruct Hin as [Hin|Hin]; [inversion Hin; subst; congruence|auto].
Qed.

(* ------------------------------------------------------------ completeness *)
(* [r] is present in the accumulator: some element with an equal value spans it *)
Definition spans (r : range) (v : V) (e : range * V) : Prop :=
  fst (fst e) <= fst r /\ snd r <= snd (fst e) /\ snd e = v.

Lemma merge_step_keeps r v acc rv :
  Exists (spans r v) acc -> Exists (spans r v) (merge_step eqb acc rv).
Proof.
  intros He. destruct acc as [|[lr lv] acc']; [inversion He|]. cbn [merge_step]. destruct rv as [r' v'].
  destruct ((fst r' <=? snd lr) && negb (eqb v' lv)); [assumption|].
  destruct ((fst r' <=? sat_add 64 (snd lr) 1) && eqb v' lv); [|right; assumption].
  inversion He as [? ? Hh|? ? Ht]; subst; [left|right; assumption].
  unfold spans in *. cbn [fst snd] in *. destruct Hh as (A & B & C). repeat split; [lia|lia|assumption].
Qed.

Lemma fold_merge_keeps r v l : forall acc,
  Exists (spans r v) acc -> Exists (spans r v) (fold_left (merge_step eqb) l acc).
Proof.
  induction l as [|rv t IH]; intros acc He; cbn [fold_left]; [assumption|].
  apply IH. apply merge_step_keeps. assumption.
Qed.

(* points of accumulator ranges come from the already-processed input (values ignored) *)
Definition pt_covered (inp : list (range * V)) (e : range * V) : Prop :=
  forall x, contains (fst e) x = true -> exists r' v', In (r', v') inp /\ contains r' x = true.

Lemma merge_step_pt inp acc rv :
  Forall (pt_covered inp) acc -> head_start_le acc (fst (fst rv)) ->
  Forall (pt_covered (rv :: inp)) (merge_step eqb acc rv).
Proof.
  intros Hc Hhd.
  assert (Hmono : Forall (pt_covered (rv :: inp)) acc).
  { rewrite Forall_forall in *. intros e He x Hx. destruct (Hc e He x Hx) as [r' [v' [Hi Hx']]].
    exists r', v'. split; [right; assumption|assumption]. }
  assert (Hrv : pt_covered (rv :: inp) rv).
  { intros x Hx. destruct rv as [r v]. exists r, v. split; [left; reflexivity|assumption]. }
  destruct acc as [|[lr lv] acc']; cbn [merge_step]; [constructor; [assumption|constructor]|].
  destruct rv as [r v].
  destruct ((fst r <=? snd lr) && negb (eqb v lv)); [assumption|].
  destruct ((fst r <=? sat_add 64 (snd lr) 1) && eqb v lv) eqn:E2; [|constructor; assumption].
  inversion Hmono as [|? ? Hm1 Hm2]; subst. constructor; [|assumption].
  intros x Hx. unfold contains in Hx. cbn [fst snd] in Hx, Hhd.
  destruct (x <=? snd lr) eqn:Ex.
  - apply Hm1. unfold contains. cbn [fst snd]. lia.
  - apply Hrv. unfold contains. cbn [fst snd]. unfold sat_add in E2. lia.
Qed.

Lemma fold_merge_pt l : forall acc inp,
  acc_ok acc -> Forall (pt_covered inp) acc -> wf_ranges l -> StronglySorted start_le l ->
  Forall (fun e => head_start_le acc (fst (fst e))) l ->
  let acc' := fold_left (merge_step eqb) l acc in
  acc_ok acc' /\ Forall (pt_covered (rev l ++ inp)) acc' /\
  (forall s, Forall (fun e => fst (fst e) <= s) l -> head_start_le acc s -> head_start_le acc' s).
Proof.
  induction l as [|rv t IH]; intros acc inp Hok Hc Hwf Hs Hhd; cbn [fold_left rev app].
  - split; [assumption|]. split; [assumption|]. auto.
  - inversion Hwf as [|? ? Hwf1 Hwf2]; subst. inversion Hs as [|? ? Hs1 Hs2]; subst.
    inversion Hhd as [|? ? Hhd1 Hhd2]; subst.
    destruct (merge_step_ok acc rv Hok Hwf1 Hhd1) as [Hok' Hhd'].
    destruct (IH (merge_step eqb acc rv) (rv :: inp)) as [A [B C]]; try assumption.
    + apply merge_step_pt; assumption.
    + rewrite Forall_forall in *. intros e He. apply Hhd'. apply Hs2. exact He.
    + split; [assumption|]. split.
      * rewrite <- app_assoc. exact B.
      * intros s Hall Hh. inversion Hall; subst. apply C; [assumption|]. apply Hhd'. assumption.
Qed.

Theorem merge_sorted_complete l1 r v l2 :
  let l := l1 ++ (r, v) :: l2 in
  wf_ranges l -> StronglySorted start_le l ->
  (forall r' v', In (r', v') (l1 ++ l2) -> intersects r r' = false) ->
  Exists (spans r v) (merge_sorted eqb l).
Proof.
  intros l Hwf Hs Hiso. unfold merge_sorted. apply Exists_rev. subst l.
  rewrite fold_left_app. cbn [fold_left].
  apply fold_merge_keeps.
  assert (Hwf1 : wf_ranges l1) by (unfold wf_ranges in *; apply Forall_app in Hwf; tauto).
  assert (Hwfr : wf_range r).
  { unfold wf_ranges in Hwf. apply Forall_app in Hwf. destruct Hwf as [_ Hw]. inversion Hw; assumption. }
  assert (Hs1 : StronglySorted start_le l1).
  { clear -Hs. induction l1 as [|a t IH]; [constructor|]. cbn [app] in Hs. inversion Hs; subst.
    constructor; [auto|]. apply Forall_app in H2. tauto. }
  assert (Hle : Forall (fun e => fst (fst e) <= fst r) l1).
  { clear -Hs. induction l1 as [|a t IH]; [constructor|]. cbn [app] in Hs. inversion Hs; subst.
    constructor; [|auto]. apply Forall_app in H2. destruct H2 as [_ H2]. inversion H2; subst.
    unfold start_le in *. cbn [fst] in *. assumption. }
  destruct (fold_merge_pt l1 [] [] acc_nil (Forall_nil _) Hwf1 Hs1) as [Hok [Hpt Hhd]].
  { rewrite Forall_forall. intros; exact I. }
  rewrite app_nil_r in Hpt.
  specialize (Hhd (fst r) Hle I).
  set (acc := fold_left (merge_step eqb) l1 []) in *.
  destruct acc as [|[lr lv] acc'] eqn:Eacc; cbn [merge_step].
  - left. unfold spans. cbn [fst snd]. repeat split; lia.
  - cbn [head_start_le] in Hhd.
    assert (Hgap : snd lr < fst r).
    { destruct (Z_lt_ge_dec (snd lr) (fst r)) as [Hlt|Hge]; [assumption|exfalso].
      inversion Hpt as [|? ? Hp1 Hp2]; subst.
      destruct (Hp1 (fst r)) as [r' [v' [Hin Hc]]].
      { unfold contains. cbn [fst snd]. lia. }
      rewrite <- in_rev in Hin.
      assert (Hi : intersects r r' = false) by (eapply Hiso; apply in_or_app; left; eassumption).
      unfold intersects, contains in *. unfold wf_range in Hwfr. lia. }
    destruct ((fst r <=? snd lr) && negb (eqb v lv)) eqn:E1; [lia|].
    destruct ((fst r <=? sat_add 64 (snd lr) 1) && eqb v lv) eqn:E2.
    + left. apply andb_prop in E2. destruct E2 as [_ Ev]. apply eqb_eq in Ev. subst lv.
      unfold spans. cbn [fst snd]. repeat split; lia.
    + left. unfold spans. cbn [fst snd]. repeat split; lia.
Qed.
End Build.

(* ============================================================ end-to-end *)
Section Top.
Context {V : Type} (eqb : V -> V -> bool).
Hypothesis eqb_eq : forall a b, eqb a b = true <-> a = b.

Lemma sorted_input_ok (l : list (option range * V)) :
  wf_entries l ->
  wf_ranges (drop_none (sort_stable okey_lt l)) /\
  StronglySorted start_le (drop_none (sort_stable okey_lt l)).
Proof.
  intros Hwf. split.
  - apply drop_none_wf. unfold wf_entries in *. eapply Permutation_Forall; [apply sort_perm|assumption].
  - apply drop_none_sorted. apply sort_sorted; [apply okey_lt_asym|apply okey_lt_negtrans].
Qed.

Lemma sorted_input_ok_p (l : list (range * V)) :
  wf_ranges l ->
  wf_ranges (sort_stable range_lt l) /\ StronglySorted start_le (sort_stable range_lt l).
Proof.
  intros Hwf. split.
  - unfold wf_ranges in *. eapply Permutation_Forall; [apply sort_perm|assumption].
  - apply range_sorted_start. apply sort_sorted; [apply range_lt_asym|apply range_lt_negtrans].
Qed.

Lemma build_total l : wf_entries l -> build eqb l = Ret (into_rangemap_safe eqb l).
Proof.
  intros Hwf. destruct (sorted_input_ok l Hwf) as [A B].
  unfold build, into_rangemap_safe. apply try_from_iter_id; assumption.
Qed.

Lemma build_total_p l : wf_ranges l -> build_p eqb l = Ret (into_rangemap_safe_p eqb l).
Proof.
  intros Hwf. destruct (sorted_input_ok_p l Hwf) as [A B].
  unfold build_p, into_rangemap_safe_p. apply try_from_iter_id; assumption.
Qed.

Lemma sorted_disjoint l : wf_entries l ->
  StronglySorted strictly_before (into_rangemap_safe eqb l) /\ wf_ranges (into_rangemap_safe eqb l).
Proof.
  intros Hwf. destruct (sorted_input_ok l Hwf) as [A B]. apply merge_sorted_disjoint; assumption.
Qed.

Lemma sorted_disjoint_p l : wf_ranges l ->
  StronglySorted strictly_before (into_rangemap_safe_p eqb l) /\ wf_ranges (into_rangemap_safe_p eqb l).
Proof.
  intros Hwf. destruct (sorted_input_ok_p l Hwf) as [A B]. apply merge_sorted_disjoint; assumption.
Qed.

Lemma lookup_sound l x v : wf_entries l ->
  rm_get (into_rangemap_safe eqb l) x = Some v ->
  exists r, In (Some r, v) l /\ contains r x = true.
Proof.
  intros Hwf Hg. destruct (sorted_input_ok l Hwf) as [A B].
  apply rm_get_in in Hg. destruct Hg as [R [Hin Hc]].
  pose proof (merge_sorted_covered eqb eqb_eq _ A B) as Hcov.
  unfold into_rangemap_safe in Hin. rewrite Forall_forall in Hcov.
  destruct (Hcov _ Hin x Hc) as [r [Hr Hx]]. cbn [snd] in Hr.
  exists r. split; [|assumption]. apply drop_none_in in Hr.
  eapply Permutation_in; [symmetry; apply sort_perm|]. exact Hr.
Qed.

Lemma lookup_sound_p l x v : wf_ranges l ->
  rm_get (into_rangemap_safe_p eqb l) x = Some v ->
  exists r, In (r, v) l /\ contains r x = true.
Proof.
  intros Hwf Hg. destruct (sorted_input_ok_p l Hwf) as [A B].
  apply rm_get_in in Hg. destruct Hg as [R [Hin Hc]].
  pose proof (merge_sorted_covered eqb eqb_eq _ A B) as Hcov.
  unfold into_rangemap_safe_p in Hin. rewrite Forall_forall in Hcov.
  destruct (Hcov _ Hin x Hc) as [r [Hr Hx]]. cbn [snd] in Hr.
  exists r. split; [|assumption].
  eapply Permutation_in; [symmetry; apply sort_perm|]. exact Hr.
Qed.

Lemma drop_none_app (a b : list (option range * V)) : drop_none (a ++ b) = drop_none a ++ drop_none b.
Proof.
  induction a as [|[[r|] v] t IH]; cbn [drop_none app]; [reflexivity| |assumption].
  rewrite IH. reflexivity.
Qed.

Lemma spans_get (t : list (range * V)) r v x :
  StronglySorted strictly_before t -> wf_ranges t ->
  Exists (spans r v) t -> contains r x = true -> rm_get t x = Some v.
Proof.
  intros Hs Hw He Hc. apply Exists_exists in He. destruct He as [[R v'] [Hin [H1 [H2 H3]]]].
  cbn [fst snd] in *. subst v'. eapply rm_get_complete; try eassumption.
  unfold contains in *. cbn [fst snd]. lia.
Qed.

Lemma isolated_complete l1 r v l2 x :
  let l := l1 ++ (Some r, v) :: l2 in
  wf_entries l ->
  (forall r' v', In (Some r', v') (l1 ++ l2) -> intersects r r' = false) ->
  contains r x = true ->
  rm_get (into_rangemap_safe eqb l) x = Some v.
Proof.
  intros l Hwf Hiso Hc. destruct (sorted_input_ok l Hwf) as [A B].
  destruct (sorted_disjoint l Hwf) as [Hsd Hw].
  assert (Hin : In (Some r, v) (sort_stable okey_lt l)).
  { eapply Permutation_in; [apply sort_perm|]. subst l. apply in_or_app. right. left. reflexivity. }
  apply in_split in Hin. destruct Hin as [s1 [s2 Hs]].
  assert (Hperm : Permutation (l1 ++ l2) (s1 ++ s2)).
  { eapply Permutation_app_inv. rewrite <- Hs. subst l. apply sort_perm. }
  eapply spans_get; try eassumption.
  unfold into_rangemap_safe. revert A B. rewrite Hs. rewrite drop_none_app. cbn [drop_none].
  intros A B. apply merge_sorted_complete; try assumption.
  intros r' v' Hin'. rewrite <- drop_none_app in Hin'. apply drop_none_in in Hin'.
  apply (Hiso r' v'). eapply Permutation_in; [symmetry; exact Hperm|exact Hin'].
Qed.

Lemma isolated_complete_p l1 r v l2 x :
  let l := l1 ++ (r, v) :: l2 in
  wf_ranges l ->
  (forall r' v', In (r', v') (l1 ++ l2) -> intersects r r' = false) ->
  contains r x = true ->
  rm_get (into_rangemap_safe_p eqb l) x = Some v.
Proof.
  intros l Hwf Hiso Hc. destruct (sorted_input_ok_p l Hwf) as [A B].
  destruct (sorted_disjoint_p l Hwf) as [Hsd Hw].
  assert (Hin : In (r, v) (sort_stable range_lt l)).
  { eapply Permutation_in; [apply sort_perm|]. subst l. apply in_or_app. right. left. reflexivity. }
  apply in_split in Hin. destruct Hin as [s1 [s2 Hs]].
  assert (Hperm : Permutation (l1 ++ l2) (s1 ++ s2)).
  { eapply Permutation_app_inv. rewrite <- Hs. subst l. apply sort_perm. }
  eapply spans_get; try eassumption.
  unfold into_rangemap_safe_p. revert A B. rewrite Hs.
  intros A B. apply merge_sorted_complete; try assumption.
  intros r' v' Hin'. apply (Hiso r' v'). eapply Permutation_in; [symmetry; exact Hperm|exact Hin'].
Qed.

Lemma get_is_find l x : wf_entries l ->
  rm_get (into_rangemap_safe eqb l) x = find_linear (into_rangemap_safe eqb l) x.
Proof. intros Hwf. destruct (sorted_disjoint l Hwf). apply rm_get_is_find; assumption. Qed.
End Top.

(* ------------------------------------------------- unloaded-module variant *)
Lemma filter_perm {A} (f : A -> bool) (a b : list A) :
  Permutation a b -> Permutation (filter f a) (filter f b).
Proof.
  induction 1 as [|x a b H IH|x y a|a b c H1 IH1 H2 IH2]; cbn [filter].
  - constructor.
  - destruct (f x); [constructor|]; assumption.
  - destruct (f x), (f y); try reflexivity. apply perm_swap.
  - etransitivity; eassumption.
Qed.

Lemma unloaded_exact (ranges : list (option range)) x :
  Permutation (unloaded_at (unloaded_build ranges) x)
              (map snd (filter (fun e => contains (fst e) x) (keep_some (enumerate_from 0 ranges)))) /\
  StronglySorted (le_keys range_lt) (unloaded_build ranges).
Proof.
  split.
  - unfold unloaded_at, unloaded_build. apply Permutation_map. apply filter_perm.
    symmetry. apply sort_perm.
  - apply sort_sorted; [apply range_lt_asym|apply range_lt_negtrans].
Qed.

(* an unloaded entry is listed iff its own range contains the address *)
Lemma keep_some_in (l : list (option range * Z)) r i :
  In (r, i) (keep_some l) <-> In (Some r, i) l.
Proof.
  induction l as [|[[r'|] v'] t IH]; cbn [keep_some In]; [tauto| |].
  - rewrite IH. split; (intros [H|H]; [left; inversion H; reflexivity|right; exact H]).
  - rewrite IH. split; [auto|]. intros [H|H]; [discriminate|exact H].
Qed.

Lemma unloaded_iff (ranges : list (option range)) x i :
  In i (unloaded_at (unloaded_build ranges) x) <->
  exists r, In (Some r, i) (enumerate_from 0 ranges) /\ contains r x = true.
Proof.
  unfold unloaded_at, unloaded_build. rewrite in_map_iff. split.
  - intros [[r i'] [Hi Hin]]. cbn [snd] in Hi. subst i'. apply filter_In in Hin. destruct Hin as [Hin Hc].
    exists r. split; [|assumption]. apply keep_some_in.
    eapply Permutation_in; [symmetry; apply sort_perm|exact Hin].
  - intros [r [Hin Hc]]. exists (r, i). split; [reflexivity|]. apply filter_In. split; [|assumption].
    eapply Permutation_in; [apply sort_perm|]. apply keep_some_in. exact Hin.
Qed.
