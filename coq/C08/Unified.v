(* C08/Unified.v — the forwarding views UnifiedMemoryList / UnifiedMemoryInfoList, as GENERATED from their source
   (Gen/C08Tables.v: which method every arm calls, which wrapper it applies, the order of the two halves of by_addr,
   which variant `new` prefers): every lookup / iteration through a view is the lookup / by-address iteration of the
   wrapped list under the wrapper of the same variant, so the table theorems carry over unchanged. *)
From Coq Require Import Lia Sorting.Sorted.
From RM Require Import C08.Model C08.Proofs C08.IndexProofs C08.WinModel C08.WinProofs C08.Driver Gen.C08Tables C08.Tie C08.EndToEnd.
Open Scope Z_scope.

Definition uml_lst (l : g_uml) : g_lst := match l with GUML_Memory t => t | GUML_Memory64 t => t end.
Definition uml_wrap (l : g_uml) : Z -> g_um := match l with GUML_Memory _ => GUM_Memory | GUML_Memory64 _ => GUM_Memory64 end.
Definition umil_lst (l : g_umil) : g_lst := match l with GUMIL_Maps t => t | GUMIL_Info t => t end.
Definition umil_wrap (l : g_umil) : Z -> g_umi := match l with GUMIL_Maps _ => GUMI_Map | GUMIL_Info _ => GUMI_Info end.

Lemma g_uml_forward l :
  (forall x, g_uml_memory_at_address l x = option_map (uml_wrap l) (rm_get (fst (uml_lst l)) x)) /\
  g_uml_by_addr l = map (uml_wrap l) (map snd (fst (uml_lst l))).
Proof.
  destruct l as [t|t]; (split; [reflexivity|]); unfold g_uml_by_addr, g_lst_by_addr, uml_wrap, uml_lst; cbn [app];
    rewrite ?app_nil_r; reflexivity.
Qed.

Lemma g_umil_forward l :
  (forall x, g_umil_memory_info_at_address l x = option_map (umil_wrap l) (rm_get (fst (umil_lst l)) x)) /\
  g_umil_by_addr l = map (umil_wrap l) (map snd (fst (umil_lst l))).
Proof.
  destruct l as [t|t]; (split; [reflexivity|]); unfold g_umil_by_addr, g_lst_by_addr, umil_wrap, umil_lst; cbn [app];
    rewrite ?app_nil_r; reflexivity.
Qed.

(* UnifiedMemoryInfoList::new: a view exists iff one of the sources does; the memory-info list wins over the maps *)
Lemma g_umil_new_spec info maps :
  g_umil_new info maps =
  match info with Some i => Some (GUMIL_Info i) | None => option_map GUMIL_Maps maps end.
Proof. destruct info, maps; reflexivity. Qed.

(* ---- end to end through the views ---- *)
Definition um_index (u : g_um) : Z := match u with GUM_Memory i => i | GUM_Memory64 i => i end.
Definition umi_index (u : g_umi) : Z := match u with GUMI_Info i => i | GUMI_Map i => i end.

Lemma unified_memory_end_to_end p ents (mk : g_lst -> g_uml) : In mk [GUML_Memory; GUML_Memory64] -> u64_ents ents ->
  exists t, g_indexed_table (g_mr_MinidumpMemoryBase p) ents = Ret t /\
    let l := mk (t, Z.of_nat (length ents)) in
    (forall x u, g_uml_memory_at_address l x = Some u ->
       u = uml_wrap l (um_index u) /\ 0 <= um_index u < Z.of_nat (length ents) /\
       exists b s, nth_error ents (Z.to_nat (um_index u)) = Some (b, s) /\ s <> 0 /\ b + s < two64 /\ b <= x < b + s) /\
    g_uml_by_addr l = map (uml_wrap l) (map snd t) /\
    StronglySorted (fun a b => snd (fst a) < fst (fst b)) t /\
    (forall e1 b s e2 x, ents = e1 ++ (b, s) :: e2 -> s <> 0 -> b + s < two64 -> b <= x < b + s ->
        (forall b' s', In (b', s') (e1 ++ e2) -> s' = 0 \/ two64 <= b' + s' \/ b' + s' <= b \/ b + s <= b') ->
        g_uml_memory_at_address l x = Some (uml_wrap l (Z.of_nat (length e1)))).
Proof.
  intros Hmk H.
  destruct (size_based_end_to_end g_mr_MinidumpMemoryBase (or_intror (or_introl eq_refl)) p ents H) as (t & Ht & Hs & _ & Hl & Hi).
  exists t. split; [exact Ht|]. cbv zeta.
  assert (Hsel : forall l, l = mk (t, Z.of_nat (length ents)) -> fst (uml_lst l) = t).
  { intros l ->. destruct Hmk as [<-|[<-|[]]]; reflexivity. }
  set (l := mk (t, Z.of_nat (length ents))). pose proof (Hsel l eq_refl) as Ht'.
  destruct (g_uml_forward l) as [Fa Fb]. rewrite Ht' in Fa, Fb.
  split; [|split; [exact Fb|split; [exact Hs|]]].
  - intros x u Hu. rewrite Fa in Hu. destruct (rm_get t x) as [i|] eqn:Eg; [|discriminate]. cbn [option_map] in Hu.
    inversion Hu; subst u. destruct (Hl x i Eg) as (H0 & b & s & Hn & R).
    assert (Hidx : um_index (uml_wrap l i) = i) by (destruct l; reflexivity). rewrite Hidx.
    split; [reflexivity|]. split.
    + split; [exact H0|]. assert ((Z.to_nat i < length ents)%nat) by (apply nth_error_Some; congruence). lia.
    + exists b, s. split; [exact Hn|exact R].
  - intros e1 b s e2 x He Hs0 Hlt Hx Hiso. rewrite Fa, (Hi e1 b s e2 x He Hs0 Hlt Hx Hiso). reflexivity.
Qed.

Lemma unified_info_end_to_end p ents : u64_ents ents ->
  (exists t, g_indexed_table (g_mr_MinidumpMemoryInfo p) ents = Ret t /\
     let l := GUMIL_Info (t, Z.of_nat (length ents)) in
     (forall x u, g_umil_memory_info_at_address l x = Some u ->
        u = GUMI_Info (umi_index u) /\ 0 <= umi_index u < Z.of_nat (length ents) /\
        exists b s, nth_error ents (Z.to_nat (umi_index u)) = Some (b, s) /\ s <> 0 /\ b + s < two64 /\ b <= x < b + s) /\
     g_umil_by_addr l = map GUMI_Info (map snd t) /\ StronglySorted (fun a b => snd (fst a) < fst (fst b)) t) /\
  (exists t, g_indexed_table g_mr_MinidumpLinuxMapInfo ents = Ret t /\
     let l := GUMIL_Maps (t, Z.of_nat (length ents)) in
     (forall x u, g_umil_memory_info_at_address l x = Some u ->
        u = GUMI_Map (umi_index u) /\ 0 <= umi_index u < Z.of_nat (length ents) /\
        exists lo hi, nth_error ents (Z.to_nat (umi_index u)) = Some (lo, hi) /\ lo <= x <= hi) /\
     g_umil_by_addr l = map GUMI_Map (map snd t) /\ StronglySorted (fun a b => snd (fst a) < fst (fst b)) t).
Proof.
  intros H. split.
  - destruct (size_based_end_to_end g_mr_MinidumpMemoryInfo (or_intror (or_intror (or_introl eq_refl))) p ents H) as (t & Ht & Hs & _ & Hl & _).
    exists t. split; [exact Ht|]. cbv zeta. destruct (g_umil_forward (GUMIL_Info (t, Z.of_nat (length ents)))) as [Fa Fb].
    cbn [umil_lst umil_wrap fst] in Fa, Fb. split; [|split; [exact Fb|exact Hs]].
    intros x u Hu. rewrite Fa in Hu. destruct (rm_get t x) as [i|] eqn:Eg; [|discriminate]. inversion Hu; subst u. cbn [umi_index].
    destruct (Hl x i Eg) as (H0 & b & s & Hn & R). split; [reflexivity|]. split.
    + split; [exact H0|]. assert ((Z.to_nat i < length ents)%nat) by (apply nth_error_Some; congruence). lia.
    + exists b, s. split; [exact Hn|exact R].
  - destruct (maps_end_to_end ents H) as (t & Ht & Hs & _ & Hl).
    exists t. split; [exact Ht|]. cbv zeta. destruct (g_umil_forward (GUMIL_Maps (t, Z.of_nat (length ents)))) as [Fa Fb].
    cbn [umil_lst umil_wrap fst] in Fa, Fb. split; [|split; [exact Fb|exact Hs]].
    intros x u Hu. rewrite Fa in Hu. destruct (rm_get t x) as [i|] eqn:Eg; [|discriminate]. inversion Hu; subst u. cbn [umi_index].
    destruct (Hl x i Eg) as (H0 & lo & hi & Hn & R). split; [reflexivity|]. split.
    + split; [exact H0|]. assert ((Z.to_nat i < length ents)%nat) by (apply nth_error_Some; congruence). lia.
    + exists lo, hi. split; [exact Hn|exact R].
Qed.

(* ================================================================== the *_at_address / by_addr of the four lists,
   as GENERATED from their bodies (shape -> g_lookup_index / g_lookup_get / g_iter_index): `&self.vector[index]` is a
   panic site of the model; it is unreachable because every index in the table is in bounds of the stored vector *)
Section Lookups.
Context {A : Type} (v : list A) (tbl : list (range * Z)).

Lemma g_lookup_ok :
  (forall x i, rm_get tbl x = Some i -> exists a, nth_error v (Z.to_nat i) = Some a) ->
  forall x, g_lookup_index v tbl x = Ret (match rm_get tbl x with Some i => nth_error v (Z.to_nat i) | None => None end) /\
            g_lookup_get v tbl x = Ret (match rm_get tbl x with Some i => nth_error v (Z.to_nat i) | None => None end).
Proof.
  intros H x. unfold g_lookup_index, g_lookup_get, g_idx. destruct (rm_get tbl x) as [i|] eqn:E; [|split; reflexivity].
  destruct (H x i E) as [a Ha]. rewrite Ha. split; reflexivity.
Qed.
End Lookups.

Lemma g_iter_ok {A : Type} (v : list A) : forall tbl : list (range * Z),
  (forall r i, In (r, i) tbl -> exists a, nth_error v (Z.to_nat i) = Some a) ->
  exists l, g_iter_index v tbl = Ret l /\ Forall2 (fun e a => nth_error v (Z.to_nat (snd e)) = Some a) tbl l.
Proof.
  induction tbl as [|[r i] t IH]; intros H; cbn [g_iter_index].
  - exists []. split; [reflexivity|constructor].
  - destruct (H r i (or_introl eq_refl)) as [a Ha]. unfold g_idx. cbn [snd]. rewrite Ha. cbn [obind].
    destruct IH as [l [El Fl]]; [intros r' i' Hin; apply (H r' i'); right; exact Hin|].
    rewrite El. cbn [obind]. exists (a :: l). split; [reflexivity|]. constructor; [exact Ha|exact Fl].
Qed.

(* any of the size-based lists: the three generated lookups and the three generated iterations on the table built from
   the raw entries — no panic; a returned entry contains the address; by_addr yields, for every table range in
   address order, the entry whose own range it is *)
Lemma lists_lookup_end_to_end (mr : profile -> Z -> Z -> outcome (option range)) :
  In mr [g_mr_MinidumpModule; g_mr_MinidumpMemoryBase; g_mr_MinidumpMemoryInfo] ->
  forall p ents, u64_ents ents ->
  exists t, g_indexed_table (mr p) ents = Ret t /\
    StronglySorted (fun a b => snd (fst a) < fst (fst b)) t /\
    (forall x, exists o,
        g_MinidumpModuleList_module_at_address ents t x = Ret o /\
        g_MinidumpMemoryListBase_memory_at_address ents t x = Ret o /\
        g_MinidumpMemoryInfoList_memory_info_at_address ents t x = Ret o /\
        forall b s, o = Some (b, s) -> s <> 0 /\ b + s < two64 /\ b <= x < b + s) /\
    exists l,
        g_MinidumpModuleList_by_addr ents t = Ret l /\ g_MinidumpMemoryListBase_by_addr ents t = Ret l /\
        g_MinidumpMemoryInfoList_by_addr ents t = Ret l /\
        Forall2 (fun e a => fst e = (fst a, fst a + snd a - 1) /\ snd a <> 0 /\ fst a + snd a < two64) t l.
Proof.
  intros Hmr p ents H.
  destruct (size_based_end_to_end mr Hmr p ents H) as (t & Ht & Hs & Hin & Hl & _).
  exists t. split; [exact Ht|]. split; [exact Hs|]. split.
  - intros x.
    assert (Hb : forall x i, rm_get t x = Some i -> exists a, nth_error ents (Z.to_nat i) = Some a).
    { intros x' i Hg. destruct (Hl x' i Hg) as (_ & b & s & Hn & _). exists (b, s). exact Hn. }
    destruct (g_lookup_ok ents t Hb x) as [E1 E2].
    exists (match rm_get t x with Some i => nth_error ents (Z.to_nat i) | None => None end).
    unfold g_MinidumpModuleList_module_at_address, g_MinidumpMemoryListBase_memory_at_address,
           g_MinidumpMemoryInfoList_memory_info_at_address.
    split; [exact E1|]. split; [exact E2|]. split; [exact E1|].
    intros b s Ho. destruct (rm_get t x) as [i|] eqn:Eg; [|discriminate].
    destruct (Hl x i Eg) as (_ & b' & s' & Hn & R). rewrite Hn in Ho. inversion Ho; subst. exact R.
  - assert (Hb : forall r i, In (r, i) t -> exists a, nth_error ents (Z.to_nat i) = Some a).
    { intros r i Hi. destruct (Hin r i Hi) as (_ & b & s & Hn & _). exists (b, s). exact Hn. }
    destruct (g_iter_ok ents t Hb) as [l [El Fl]]. exists l.
    unfold g_MinidumpModuleList_by_addr, g_MinidumpMemoryListBase_by_addr, g_MinidumpMemoryInfoList_by_addr.
    split; [exact El|]. split; [exact El|]. split; [exact El|].
    clear El Hb Hl Hs Ht. revert l Fl. induction t as [|[r i] t' IH]; intros l Fl; inversion Fl; subst; constructor.
    + destruct (Hin r i (or_introl eq_refl)) as (_ & b & s & Hn & N & O & R). cbn [snd fst] in *.
      rewrite Hn in H2. inversion H2; subst y. cbn [fst snd]. auto.
    + apply IH; [intros r' i' Hi; apply Hin; right; exact Hi|assumption].
Qed.

Lemma maps_lookup_end_to_end ents : u64_ents ents ->
  exists t, g_indexed_table g_mr_MinidumpLinuxMapInfo ents = Ret t /\
    StronglySorted (fun a b => snd (fst a) < fst (fst b)) t /\
    (forall x, exists o, g_MinidumpLinuxMaps_memory_info_at_address ents t x = Ret o /\
        forall lo hi, o = Some (lo, hi) -> lo <= x <= hi) /\
    exists l, g_MinidumpLinuxMaps_by_addr ents t = Ret l /\ Forall2 (fun e a => fst e = a /\ fst a <= snd a) t l.
Proof.
  intros H. destruct (maps_end_to_end ents H) as (t & Ht & Hs & Hin & Hl).
  exists t. split; [exact Ht|]. split; [exact Hs|]. split.
  - intros x.
    assert (Hb : forall x i, rm_get t x = Some i -> exists a, nth_error ents (Z.to_nat i) = Some a).
    { intros x' i Hg. destruct (Hl x' i Hg) as (_ & lo & hi & Hn & _). exists (lo, hi). exact Hn. }
    destruct (g_lookup_ok ents t Hb x) as [E1 E2]. eexists. split; [exact E1|].
    intros lo hi Ho. destruct (rm_get t x) as [i|] eqn:Eg; [|discriminate].
    destruct (Hl x i Eg) as (_ & lo' & hi' & Hn & R). rewrite Hn in Ho. inversion Ho; subst. exact R.
  - assert (Hb : forall r i, In (r, i) t -> exists a, nth_error ents (Z.to_nat i) = Some a).
    { intros r i Hi. destruct (Hin r i Hi) as (_ & lo & hi & Hn & _). exists (lo, hi). exact Hn. }
    destruct (g_iter_ok ents t Hb) as [l [El Fl]]. exists l. split; [exact El|].
    clear El Hb Hl Hs Ht. revert l Fl. induction t as [|[r i] t' IH]; intros l Fl; inversion Fl; subst; constructor.
    + destruct (Hin r i (or_introl eq_refl)) as (_ & lo & hi & Hn & N & R). cbn [snd fst] in *.
      rewrite Hn in H2. inversion H2; subst y. cbn [fst snd]. auto.
    + apply IH; [intros r' i' Hi; apply Hin; right; exact Hi|assumption].
Qed.
