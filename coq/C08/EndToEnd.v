(* C08/EndToEnd.v — from the raw (base, size) fields of the entries to the answers of the lookups, through the
   GENERATED memory_range() and the GENERATED builder, with hypotheses on the input domain only (every field is a u64):
   no well-formedness assumption about ranges is left to the reader. *)
From Coq Require Import Lia Sorting.Sorted.
From RM Require Import C08.Model C08.Proofs C08.IndexProofs C08.WinModel C08.WinProofs C08.Driver Gen.C08Tables C08.Tie.
Open Scope Z_scope.

Fixpoint omap {A B} (f : A -> outcome B) (l : list A) : outcome (list B) :=
  match l with
  | [] => Ret []
  | a :: t => do b <- f a; do r <- omap f t; Ret (b :: r)
  end.

(* an index-valued list as the code builds it: memory_range() of every entry in vector order, then the builder *)
Definition g_indexed_table (mr : Z -> Z -> outcome (option range)) (ents : list (Z * Z)) : outcome (list (range * Z)) :=
  do ranges <- omap (fun e => mr (fst e) (snd e)) ents; g_build_indexed ranges.

Definition u64_ents (ents : list (Z * Z)) : Prop := Forall (fun e => u64 (fst e) /\ u64 (snd e)) ents.

Lemma omap_pure {A B} (f : A -> outcome B) (g : A -> B) (P : A -> Prop) l :
  (forall a, P a -> f a = Ret (g a)) -> Forall P l -> omap f l = Ret (map g l).
Proof.
  intros Hf H. induction H as [|a t Ha Ht IH]; cbn [omap map]; [reflexivity|].
  rewrite (Hf a Ha). cbn [obind]. rewrite IH. reflexivity.
Qed.

Lemma wf_opt_map (mk : Z -> Z -> option range) ents :
  (forall b s r, u64 b -> u64 s -> mk b s = Some r -> wf_range r) ->
  u64_ents ents -> wf_opt_ranges (map (fun e => mk (fst e) (snd e)) ents).
Proof.
  intros Hmk H. unfold wf_opt_ranges. induction H as [|e t [Hb Hs] Ht IH]; cbn [map]; constructor; [|exact IH].
  destruct (mk (fst e) (snd e)) eqn:E; [|exact I]. exact (Hmk _ _ _ Hb Hs E).
Qed.

Lemma g_indexed_table_ok (mr : Z -> Z -> outcome (option range)) (mk : Z -> Z -> option range) ents :
  (forall b s, u64 b -> u64 s -> mr b s = Ret (mk b s)) ->
  (forall b s r, u64 b -> u64 s -> mk b s = Some r -> wf_range r) ->
  u64_ents ents ->
  g_indexed_table mr ents =
    Ret (into_rangemap_safe Z.eqb (enumerate_from 0 (map (fun e => mk (fst e) (snd e)) ents))).
Proof.
  intros Hmr Hmk H. unfold g_indexed_table.
  rewrite (omap_pure _ (fun e => mk (fst e) (snd e)) (fun e => u64 (fst e) /\ u64 (snd e))); [|intros a [Ha Hb]; auto|exact H].
  cbn [obind]. apply g_build_indexed_total. apply wf_opt_map; assumption.
Qed.

Lemma mk_range_wf64 b s r : u64 b -> u64 s -> mk_range b s = Some r -> wf_range r.
Proof. intros [Hb _] [Hs _]. apply mk_range_wf; assumption. Qed.
Lemma mk_range_maps_wf64 lo hi r : u64 lo -> u64 hi -> mk_range_maps lo hi = Some r -> wf_range r.
Proof. intros [Hb _] [_ Hs]. apply mk_range_maps_wf; assumption. Qed.

(* in plain arithmetic: what mk_range b s = Some r with contains r x says *)
Lemma mk_range_contains b s r x : mk_range b s = Some r -> contains r x = true ->
  s <> 0 /\ b + s < two64 /\ b <= x < b + s.
Proof.
  intros Hr Hc. apply mk_range_shape in Hr. destruct Hr as [Hr [Hn Hlt]]. subst r.
  unfold contains in Hc. cbn [fst snd] in Hc. apply andb_prop in Hc. destruct Hc as [C1 C2].
  apply Z.leb_le in C1, C2. lia.
Qed.

Lemma nth_error_map_inv {A B} (f : A -> B) l n y : nth_error (map f l) n = Some y ->
  exists a, nth_error l n = Some a /\ f a = y.
Proof.
  revert n. induction l as [|h t IH]; intros [|n] H; cbn in H; try discriminate.
  - inversion H. exists h. split; reflexivity.
  - apply IH in H. exact H.
Qed.

(* ---- the size-based lists: modules, memory regions (32/64), memory info ---- *)
Section SizeBased.
Variable mr : profile -> Z -> Z -> outcome (option range).
Hypothesis mr_ok : forall p b s, u64 b -> u64 s -> mr p b s = Ret (mk_range b s).

Lemma size_table_total p ents : u64_ents ents ->
  exists t, g_indexed_table (mr p) ents = Ret t /\
    StronglySorted (fun a b => snd (fst a) < fst (fst b)) t /\
    (forall r i, In (r, i) t -> 0 <= i /\ exists b s, nth_error ents (Z.to_nat i) = Some (b, s) /\
                                   s <> 0 /\ b + s < two64 /\ r = (b, b + s - 1)) /\
    (forall x i, rm_get t x = Some i -> 0 <= i /\ exists b s, nth_error ents (Z.to_nat i) = Some (b, s) /\
                                   s <> 0 /\ b + s < two64 /\ b <= x < b + s) /\
    (forall e1 b s e2 x, ents = e1 ++ (b, s) :: e2 -> s <> 0 -> b + s < two64 -> b <= x < b + s ->
        (forall b' s', In (b', s') (e1 ++ e2) -> s' = 0 \/ two64 <= b' + s' \/ b' + s' <= b \/ b + s <= b') ->
        rm_get t x = Some (Z.of_nat (length e1))).
Proof.
  intros H. set (ranges := map (fun e => mk_range (fst e) (snd e)) ents).
  exists (into_rangemap_safe Z.eqb (enumerate_from 0 ranges)).
  assert (Hwf : wf_opt_ranges ranges) by (apply wf_opt_map; [exact mk_range_wf64|exact H]).
  split; [apply (g_indexed_table_ok (mr p) mk_range); [intros; apply mr_ok; assumption|exact mk_range_wf64|exact H]|].
  split; [apply (sorted_disjoint Z.eqb); apply wf_enumerate; exact Hwf|].
  split; [|split].
  - intros r i Hin. apply indexed_table_exact in Hin. destruct Hin as [H0 Hn]. split; [exact H0|].
    apply nth_error_map_inv in Hn. destruct Hn as [[b s] [Hn Hr]]. cbn [fst snd] in Hr.
    exists b, s. split; [exact Hn|]. apply mk_range_shape in Hr. destruct Hr as [Hr [Hs Hlt]]. auto.
  - intros x i Hg. apply (indexed_lookup_in_bounds ranges x i Hwf) in Hg. destruct Hg as [r [H0 [Hn Hc]]].
    split; [exact H0|]. apply nth_error_map_inv in Hn. destruct Hn as [[b s] [Hn Hr]]. cbn [fst snd] in Hr.
    exists b, s. split; [exact Hn|]. eapply mk_range_contains; eassumption.
  - intros e1 b s e2 x He Hs Hlt Hx Hiso.
    assert (Hu : u64 b /\ u64 s).
    { unfold u64_ents in H. rewrite He in H. apply Forall_app in H. destruct H as [_ H]. inversion H; subst. assumption. }
    assert (Hr : mk_range b s = Some (b, b + s - 1)) by (apply mk_range_some; unfold u64 in Hu; lia).
    assert (Er : ranges = map (fun e => mk_range (fst e) (snd e)) e1 ++ Some (b, b + s - 1) :: map (fun e => mk_range (fst e) (snd e)) e2).
    { unfold ranges. rewrite He. rewrite map_app. cbn [map fst snd]. rewrite Hr. reflexivity. }
    revert Hwf. rewrite Er. intros Hwf.
    replace (length e1) with (length (map (fun e => mk_range (fst e) (snd e)) e1)) by apply map_length.
    apply indexed_isolated_complete; [exact Hwf| |unfold contains; cbn [fst snd]; apply andb_true_intro; split; apply Z.leb_le; lia].
    intros r' Hin. rewrite <- map_app in Hin. apply in_map_iff in Hin. destruct Hin as [[b' s'] [Hr' Hin]]. cbn [fst snd] in Hr'.
    apply mk_range_shape in Hr'. destruct Hr' as [Hr' [Hs' Hlt']]. subst r'.
    specialize (Hiso b' s' Hin). unfold intersects. cbn [fst snd]. apply andb_false_iff.
    destruct Hiso as [Hi|[Hi|[Hi|Hi]]]; [exfalso; lia|exfalso; lia|left; apply Z.leb_gt; lia|right; apply Z.leb_gt; lia].
Qed.
End SizeBased.

Lemma size_based_end_to_end (mr : profile -> Z -> Z -> outcome (option range)) :
  In mr [g_mr_MinidumpModule; g_mr_MinidumpMemoryBase; g_mr_MinidumpMemoryInfo] ->
  forall p ents, u64_ents ents ->
  exists t, g_indexed_table (mr p) ents = Ret t /\
    StronglySorted (fun a b => snd (fst a) < fst (fst b)) t /\
    (forall r i, In (r, i) t -> 0 <= i /\ exists b s, nth_error ents (Z.to_nat i) = Some (b, s) /\
                                   s <> 0 /\ b + s < two64 /\ r = (b, b + s - 1)) /\
    (forall x i, rm_get t x = Some i -> 0 <= i /\ exists b s, nth_error ents (Z.to_nat i) = Some (b, s) /\
                                   s <> 0 /\ b + s < two64 /\ b <= x < b + s) /\
    (forall e1 b s e2 x, ents = e1 ++ (b, s) :: e2 -> s <> 0 -> b + s < two64 -> b <= x < b + s ->
        (forall b' s', In (b', s') (e1 ++ e2) -> s' = 0 \/ two64 <= b' + s' \/ b' + s' <= b \/ b + s <= b') ->
        rm_get t x = Some (Z.of_nat (length e1))).
Proof.
  intros [<-|[<-|[<-|[]]]]; apply size_table_total; intros;
    [apply g_mr_MinidumpModule_eq|apply g_mr_MinidumpMemoryBase_eq|apply g_mr_MinidumpMemoryInfo_eq]; assumption.
Qed.

(* ---- Linux maps: entries are (first address, last address) ---- *)
Lemma maps_end_to_end ents : u64_ents ents ->
  exists t, g_indexed_table g_mr_MinidumpLinuxMapInfo ents = Ret t /\
    StronglySorted (fun a b => snd (fst a) < fst (fst b)) t /\
    (forall r i, In (r, i) t -> 0 <= i /\ exists lo hi, nth_error ents (Z.to_nat i) = Some (lo, hi) /\ lo <= hi /\ r = (lo, hi)) /\
    (forall x i, rm_get t x = Some i -> 0 <= i /\ exists lo hi, nth_error ents (Z.to_nat i) = Some (lo, hi) /\ lo <= x <= hi).
Proof.
  intros H. set (ranges := map (fun e => mk_range_maps (fst e) (snd e)) ents).
  exists (into_rangemap_safe Z.eqb (enumerate_from 0 ranges)).
  assert (Hwf : wf_opt_ranges ranges) by (apply wf_opt_map; [exact mk_range_maps_wf64|exact H]).
  split; [apply (g_indexed_table_ok g_mr_MinidumpLinuxMapInfo mk_range_maps);
          [intros; apply g_mr_maps_eq|exact mk_range_maps_wf64|exact H]|].
  split; [apply (sorted_disjoint Z.eqb); apply wf_enumerate; exact Hwf|].
  assert (Hshape : forall lo hi r, mk_range_maps lo hi = Some r -> lo <= hi /\ r = (lo, hi)).
  { intros lo hi r. unfold mk_range_maps. destruct (lo >? hi) eqn:E; [discriminate|].
    intros Hr; inversion Hr. rewrite Z.gtb_ltb in E. apply Z.ltb_ge in E. auto. }
  split.
  - intros r i Hin. apply indexed_table_exact in Hin. destruct Hin as [H0 Hn]. split; [exact H0|].
    apply nth_error_map_inv in Hn. destruct Hn as [[lo hi] [Hn Hr]]. cbn [fst snd] in Hr.
    exists lo, hi. split; [exact Hn|]. apply Hshape. exact Hr.
  - intros x i Hg. apply (indexed_lookup_in_bounds ranges x i Hwf) in Hg. destruct Hg as [r [H0 [Hn Hc]]].
    split; [exact H0|]. apply nth_error_map_inv in Hn. destruct Hn as [[lo hi] [Hn Hr]]. cbn [fst snd] in Hr.
    exists lo, hi. split; [exact Hn|]. apply Hshape in Hr. destruct Hr as [_ Hr]. subst r.
    unfold contains in Hc. cbn [fst snd] in Hc. apply andb_prop in Hc. destruct Hc as [C1 C2].
    apply Z.leb_le in C1, C2. lia.
Qed.

(* ---- unloaded modules: sorted vector + filter(contains); the lookup returns exactly the covering entries ---- *)
Definition g_unloaded_table (p : profile) (ents : list (Z * Z)) : outcome (list (range * Z)) :=
  do ranges <- omap (fun e => g_mr_MinidumpUnloadedModule p (fst e) (snd e)) ents; Ret (unloaded_build ranges).

Lemma enumerate_from_nth {A} (l : list A) : forall k n a,
  nth_error l n = Some a -> In (a, k + Z.of_nat n) (enumerate_from k l).
Proof.
  induction l as [|h t IH]; intros k [|n] a H; cbn in H; try discriminate.
  - inversion H; subst. cbn [enumerate_from]. left. rewrite Z.add_0_r. reflexivity.
  - cbn [enumerate_from]. right. replace (k + Z.of_nat (S n)) with (k + 1 + Z.of_nat n) by lia. apply IH. exact H.
Qed.

Lemma unloaded_end_to_end p ents : u64_ents ents ->
  exists t, g_unloaded_table p ents = Ret t /\
    StronglySorted (fun a b => range_lt (fst b) (fst a) = false) t /\
    forall x i, In i (unloaded_at t x) <->
      0 <= i /\ exists b s, nth_error ents (Z.to_nat i) = Some (b, s) /\ s <> 0 /\ b + s < two64 /\ b <= x < b + s.
Proof.
  intros H. set (ranges := map (fun e => mk_range (fst e) (snd e)) ents). exists (unloaded_build ranges).
  split.
  { unfold g_unloaded_table.
    rewrite (omap_pure _ (fun e => mk_range (fst e) (snd e)) (fun e => u64 (fst e) /\ u64 (snd e)));
      [reflexivity|intros a [Ha Hb]; apply g_mr_MinidumpUnloadedModule_eq; assumption|exact H]. }
  split; [apply (unloaded_exact ranges 0)|].
  intros x i. rewrite unloaded_iff. split.
  - intros [r [Hin Hc]]. apply enumerate_from_in in Hin. rewrite Z.sub_0_r in Hin. destruct Hin as [H0 Hn].
    split; [exact H0|]. apply nth_error_map_inv in Hn. destruct Hn as [[b s] [Hn Hr]]. cbn [fst snd] in Hr.
    exists b, s. split; [exact Hn|]. eapply mk_range_contains; eassumption.
  - intros [H0 [b [s [Hn [Hs [Hlt Hx]]]]]].
    assert (Hu : u64 b /\ u64 s).
    { unfold u64_ents in H. rewrite Forall_forall in H. apply (H (b, s)). eapply nth_error_In. exact Hn. }
    exists (b, b + s - 1). split.
    + replace i with (0 + Z.of_nat (Z.to_nat i)) by lia. apply enumerate_from_nth.
      unfold ranges. erewrite map_nth_error; [|exact Hn]. cbn [fst snd].
      rewrite mk_range_some; [reflexivity| |exact Hlt]. unfold u64 in Hu. lia.
    + unfold contains. cbn [fst snd]. apply andb_true_intro. split; apply Z.leb_le; lia.
Qed.

(* ---- symbol-file records (FUNC, STACK CFI INIT): a record goes to the vector only if memory_range() exists
   (finish_item), then the parser-local builder; the value is the whole record ---- *)
Section Records.
Context {V : Type} (eqb : V -> V -> bool).
Hypothesis eqb_eq : forall a b, eqb a b = true <-> a = b.

Fixpoint keep_ranged (l : list (option range * V)) : list (range * V) :=
  match l with
  | [] => []
  | (Some r, v) :: t => (r, v) :: keep_ranged t
  | (None, _) :: t => keep_ranged t
  end.

Definition g_record_table (mr : Z -> Z -> outcome (option range)) (recs : list (Z * Z * V)) : outcome (list (range * V)) :=
  do l <- omap (fun e => let '(b, s, v) := e in do r <- mr b s; Ret (r, v)) recs;
  g_build_parser eqb (keep_ranged l).

Definition u64_recs (recs : list (Z * Z * V)) : Prop := Forall (fun e => u64 (fst (fst e)) /\ u64 (snd (fst e))) recs.

Lemma keep_ranged_in l r v : In (r, v) (keep_ranged l) <-> In (Some r, v) l.
Proof.
  induction l as [|[[r'|] v'] t IH]; cbn [keep_ranged In]; [tauto| |].
  - rewrite IH. split; (intros [H|H]; [left; inversion H; reflexivity|right; exact H]).
  - rewrite IH. split; [auto|]. intros [H|H]; [discriminate|exact H].
Qed.

Lemma keep_ranged_app a b : keep_ranged (a ++ b) = keep_ranged a ++ keep_ranged b.
Proof.
  induction a as [|[[r|] v] t IH]; cbn [keep_ranged app]; [reflexivity| |assumption]. rewrite IH. reflexivity.
Qed.

Lemma record_table_ok (mr : Z -> Z -> outcome (option range)) recs :
  (forall b s, u64 b -> u64 s -> mr b s = Ret (mk_range b s)) -> u64_recs recs ->
  exists t, g_record_table mr recs = Ret t /\
    StronglySorted (fun a b => snd (fst a) < fst (fst b)) t /\
    (forall x v, rm_get t x = Some v ->
       exists b s, In (b, s, v) recs /\ s <> 0 /\ b + s < two64 /\ b <= x < b + s) /\
    (forall r1 b s v r2 x, recs = r1 ++ (b, s, v) :: r2 -> s <> 0 -> b + s < two64 -> b <= x < b + s ->
       (forall b' s' v', In (b', s', v') (r1 ++ r2) -> s' = 0 \/ two64 <= b' + s' \/ b' + s' <= b \/ b + s <= b') ->
       rm_get t x = Some v).
Proof.
  intros Hmr H.
  set (pure := fun e : Z * Z * V => let '(b, s, v) := e in (mk_range b s, v)).
  set (l := keep_ranged (map pure recs)).
  assert (Hl : omap (fun e => let '(b, s, v) := e in do r <- mr b s; Ret (r, v)) recs = Ret (map pure recs)).
  { apply (omap_pure _ pure (fun e => u64 (fst (fst e)) /\ u64 (snd (fst e)))); [|exact H].
    intros [[b s] v] [Hb Hs]. cbn [fst snd] in *. rewrite Hmr by assumption. reflexivity. }
  assert (Hwf : wf_ranges l).
  { unfold wf_ranges. apply Forall_forall. intros [r v] Hin. cbn [fst]. apply keep_ranged_in in Hin.
    apply in_map_iff in Hin. destruct Hin as [[[b s] v'] [E Hin]]. cbn in E. inversion E; subst.
    unfold u64_recs in H. rewrite Forall_forall in H. destruct (H _ Hin) as [Hb Hs]. cbn [fst snd] in *.
    exact (mk_range_wf64 b s r Hb Hs H1). }
  exists (into_rangemap_safe_p eqb l).
  split; [unfold g_record_table; rewrite Hl; cbn [obind]; apply g_build_parser_total; exact Hwf|].
  split; [apply (sorted_disjoint_p eqb l Hwf)|]. split.
  - intros x v Hg. destruct (lookup_sound_p eqb eqb_eq l x v Hwf Hg) as [r [Hin Hc]].
    apply keep_ranged_in in Hin. apply in_map_iff in Hin. destruct Hin as [[[b s] v'] [E Hin]]. cbn in E. inversion E; subst.
    exists b, s. split; [exact Hin|]. eapply mk_range_contains; eassumption.
  - intros r1 b s v r2 x He Hs Hlt Hx Hiso.
    assert (Hu : u64 b /\ u64 s).
    { unfold u64_recs in H. rewrite He in H. apply Forall_app in H. destruct H as [_ H]. inversion H; subst. assumption. }
    assert (Hr : mk_range b s = Some (b, b + s - 1)) by (apply mk_range_some; unfold u64 in Hu; lia).
    assert (El : l = keep_ranged (map pure r1) ++ ((b, b + s - 1), v) :: keep_ranged (map pure r2)).
    { unfold l. rewrite He. rewrite map_app. rewrite keep_ranged_app. cbn [map keep_ranged pure]. rewrite Hr. reflexivity. }
    revert Hwf. rewrite El. intros Hwf.
    apply (isolated_complete_p eqb eqb_eq); [exact Hwf| |unfold contains; cbn [fst snd]; apply andb_true_intro; split; apply Z.leb_le; lia].
    intros r' v' Hin. rewrite <- keep_ranged_app, <- map_app in Hin. apply keep_ranged_in in Hin.
    apply in_map_iff in Hin. destruct Hin as [[[b' s'] v''] [E Hin]]. cbn in E. inversion E as [[Hr' Hv']].
    apply mk_range_shape in Hr'. destruct Hr' as [Hr' [Hs' Hlt']]. subst r'.
    specialize (Hiso b' s' v'' Hin). unfold intersects. cbn [fst snd]. apply andb_false_iff.
    destruct Hiso as [Hi|[Hi|[Hi|Hi]]]; [exfalso; lia|exfalso; lia|left; apply Z.leb_gt; lia|right; apply Z.leb_gt; lia].
Qed.
End Records.

Lemma records_end_to_end (V : Type) (eqb : V -> V -> bool) (mr : profile -> Z -> Z -> outcome (option range)) :
  (forall a b, eqb a b = true <-> a = b) ->
  In mr [g_mr_Function; g_mr_StackInfoCfi] ->
  forall p (recs : list (Z * Z * V)), u64_recs recs ->
  exists t, g_record_table eqb (mr p) recs = Ret t /\
    StronglySorted (fun a b => snd (fst a) < fst (fst b)) t /\
    (forall x v, rm_get t x = Some v ->
       exists b s, In (b, s, v) recs /\ s <> 0 /\ b + s < two64 /\ b <= x < b + s) /\
    (forall r1 b s v r2 x, recs = r1 ++ (b, s, v) :: r2 -> s <> 0 -> b + s < two64 -> b <= x < b + s ->
       (forall b' s' v', In (b', s', v') (r1 ++ r2) -> s' = 0 \/ two64 <= b' + s' \/ b' + s' <= b \/ b + s <= b') ->
       rm_get t x = Some v).
Proof.
  intros Heq [<-|[<-|[]]] p recs H; apply (record_table_ok eqb Heq); try exact H; intros;
    [apply g_mr_Function_eq|apply g_mr_StackInfoCfi_eq]; assumption.
Qed.

(* ---- line records of a FUNC: zero-size lines are filtered, the range is (address, address + (size - 1)) if that
   does not overflow, then the trait's builder; the value is the whole line record ---- *)
Section Lines.
Context {V : Type} (eqb : V -> V -> bool).
Hypothesis eqb_eq : forall a b, eqb a b = true <-> a = b.

Definition g_line_table (p : profile) (lines : list (Z * Z * V)) : outcome (list (range * V)) :=
  do l <- omap (fun e => let '(b, s, v) := e in do r <- g_mr_line p b s; Ret (r, v))
               (filter (fun e => let '(b, s, v) := e in g_line_keep s) lines);
  g_build_traits eqb l.

Lemma line_table_ok p lines : u64_recs lines ->
  exists t, g_line_table p lines = Ret t /\
    StronglySorted (fun a b => snd (fst a) < fst (fst b)) t /\
    (forall x v, rm_get t x = Some v ->
       exists b s, In (b, s, v) lines /\ 0 < s /\ b + (s - 1) < two64 /\ b <= x <= b + (s - 1)).
Proof.
  intros H.
  set (kept := filter (fun e : Z * Z * V => let '(b, s, v) := e in g_line_keep s) lines).
  set (pure := fun e : Z * Z * V => let '(b, s, v) := e in (mk_range_line b s, v)).
  set (P := fun e : Z * Z * V => u64 (fst (fst e)) /\ u64 (snd (fst e)) /\ g_line_keep (snd (fst e)) = true).
  assert (HP : Forall P kept).
  { apply Forall_forall. intros [[b s] v] Hin. apply filter_In in Hin. destruct Hin as [Hin Hk].
    unfold u64_recs in H. rewrite Forall_forall in H. destruct (H _ Hin) as [Hb Hs]. unfold P. cbn [fst snd] in *. auto. }
  assert (Hl : omap (fun e => let '(b, s, v) := e in do r <- g_mr_line p b s; Ret (r, v)) kept = Ret (map pure kept)).
  { apply (omap_pure _ pure P); [|exact HP]. intros [[b s] v] [Hb [Hs Hk]]. cbn [fst snd] in *.
    rewrite g_mr_line_eq by assumption. reflexivity. }
  assert (Hshape : forall b s r, u64 b -> u64 s -> g_line_keep s = true -> mk_range_line b s = Some r ->
                   0 < s /\ b + (s - 1) < two64 /\ r = (b, b + (s - 1))).
  { intros b s r Hb Hs Hk. rewrite g_line_keep_eq in Hk. apply Z.ltb_lt in Hk.
    unfold mk_range_line, checked_add. destruct (b + (s - 1) <? 2 ^ 64) eqn:E; [|discriminate].
    apply Z.ltb_lt in E. rewrite <- two64_val in E. intros Hr; inversion Hr. auto. }
  assert (Hwf : wf_entries (map pure kept)).
  { unfold wf_entries. apply Forall_forall. intros [o v] Hin. cbn [fst]. destruct o as [r|]; [|exact I].
    apply in_map_iff in Hin. destruct Hin as [[[b s] v'] [E Hin]]. cbn in E. inversion E as [[Hr Hv]].
    rewrite Forall_forall in HP. destruct (HP _ Hin) as [Hb [Hs Hk]]. cbn [fst snd] in *.
    destruct (Hshape b s r Hb Hs Hk Hr) as [H0 [Hlt Er]]. subst r. unfold wf_range, u64 in *. cbn [fst snd]. lia. }
  exists (into_rangemap_safe eqb (map pure kept)).
  split; [unfold g_line_table; fold kept; rewrite Hl; cbn [obind]; apply g_build_traits_total; exact Hwf|].
  split; [apply (sorted_disjoint eqb _ Hwf)|].
  intros x v Hg. destruct (lookup_sound eqb eqb_eq _ x v Hwf Hg) as [r [Hin Hc]].
  apply in_map_iff in Hin. destruct Hin as [[[b s] v'] [E Hin]]. cbn in E. inversion E as [[Hr Hv]]. subst v'.
  rewrite Forall_forall in HP. destruct (HP _ Hin) as [Hb [Hs Hk]]. cbn [fst snd] in *.
  destruct (Hshape b s r Hb Hs Hk Hr) as [H0 [Hlt Er]]. subst r.
  apply filter_In in Hin. destruct Hin as [Hin _]. exists b, s. split; [exact Hin|]. split; [exact H0|]. split; [exact Hlt|].
  unfold contains in Hc. cbn [fst snd] in Hc. apply andb_prop in Hc. destruct Hc as [C1 C2]. apply Z.leb_le in C1, C2. lia.
Qed.
End Lines.

(* ---- STACK WIN tables, through the generated insert_win_stack_info and parser-local builder ---- *)
Lemma win_end_to_end p (l : list winrec) : wf_recs l ->
  exists t, g_win_table p l = Ret t /\
    StronglySorted (fun a b => snd (fst a) < fst (fst b)) t /\
    (forall x w, rm_get t x = Some w ->
       exists w0, In w0 l /\ wa w0 = wa w /\ wt w0 = wt w /\ 0 < ws w <= ws w0 /\
                  wa w + ws w < two64 /\ wa w <= x < wa w + ws w) /\
    (forall la w lb x, l = la ++ w :: lb -> ws w <> 0 -> wa w + ws w < two64 -> wa w <= x < wa w + ws w ->
       (forall w', In w' (la ++ lb) ->
          ws w' = 0 \/ two64 <= wa w' + ws w' \/ wa w' + ws w' <= wa w \/ wa w + ws w <= wa w') ->
       rm_get t x = Some w).
Proof.
  intros Hwf. destruct (win_table_total p l Hwf) as [t Ht]. exists t.
  split; [rewrite g_win_table_eq; exact Ht|].
  destruct (win_sorted_disjoint p l t Hwf Ht) as [Hs _]. split; [exact Hs|]. split.
  - intros x w Hg. destruct (win_lookup_sound p l t x w Hwf Ht Hg) as [Hr [Hc [w0 [Hin [Ha [Htg [Hsz _]]]]]]].
    exists w0. repeat split; try assumption; try lia.
    + unfold win_range in Hr. apply mk_range_shape in Hr. tauto.
    + unfold contains in Hc. cbn [fst snd] in Hc. apply andb_prop in Hc. destruct Hc as [C1 _]. apply Z.leb_le in C1. exact C1.
    + unfold contains in Hc. cbn [fst snd] in Hc. apply andb_prop in Hc. destruct Hc as [_ C2]. apply Z.leb_le in C2. lia.
  - intros la w lb x El Hs0 Hlt Hx Hiso. subst l.
    assert (Hw : wf_rec w) by (unfold wf_recs in Hwf; apply Forall_app in Hwf; destruct Hwf as [_ Hwf]; inversion Hwf; assumption).
    assert (Hr : win_range w = Some (wa w, wa w + ws w - 1)).
    { unfold win_range. apply mk_range_some; [|exact Hlt]. destruct Hw as [_ [Hw0 _]]. lia. }
    apply (win_isolated_complete p la w lb _ t x Hwf Hr); [|exact Ht|unfold contains; cbn [fst snd]; apply andb_true_intro; split; apply Z.leb_le; lia].
    intros w' r' Hin Hr'. unfold win_range in Hr'. apply mk_range_shape in Hr'. destruct Hr' as [Hr' [Hs' Hlt']]. subst r'.
    specialize (Hiso w' Hin). unfold intersects. cbn [fst snd]. apply andb_false_iff.
    destruct Hiso as [Hi|[Hi|[Hi|Hi]]]; [exfalso; lia|exfalso; lia|left; apply Z.leb_gt; lia|right; apply Z.leb_gt; lia].
Qed.
