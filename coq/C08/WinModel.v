(* C08/WinModel.v — executable model of the STACK WIN frame-data / FPO tables of a symbol file.
   Mirrors breakpad-symbols/src/sym_file/parser.rs:
     insert_win_stack_info   (overlap repair while the records are read, one call per record, in file order;
                              the frame-data and the FPO records go to two separate vectors)
     SymbolParser::finish    win_stack_*_info: into_rangemap_safe(vector)   (the parser-local copy, C08/Model.v build_p)
   and types.rs StackInfoWin::memory_range.
   A record is (address : u64, size : u32, tag): the tag stands for every other field of StackInfoWin (they take part
   in the derived `Eq` only).  Definitions only; proofs are in C08/WinProofs.v. *)
From RM Require Export C08.Model.
Open Scope Z_scope.

Record winrec := mkW { wa : Z; ws : Z; wt : Z }.

Definition win_eqb (a b : winrec) : bool := (wa a =? wa b) && (ws a =? ws b) && (wt a =? wt b).
(* StackInfoWin::memory_range *)
Definition win_range (w : winrec) : option range := mk_range (wa w) (ws w).
(* derived PartialEq on Range<u64> *)
Definition range_eqb (a b : range) : bool := (fst a =? fst b) && (snd a =? snd b).
Definition set_size (w : winrec) (sz : Z) : winrec := mkW (wa w) sz (wt w).

Definition PANIC_WIN_SUB : Z := 821.      (* info.address - last_info.address *)
Definition PANIC_WIN_UNWRAP : Z := 822.   (* last_info.memory_range().unwrap() *)

(* insert_win_stack_info; the vector is kept reversed (head = stack_win.last_mut()). *)
Definition insert_win (p : profile) (acc : list (range * winrec)) (w : winrec)
  : outcome (list (range * winrec)) :=
  match win_range w with
  | None => Ret acc                                   (* "invalid range, dropping it" *)
  | Some mr =>
      match acc with
      | (lr, lw) :: rest =>
          if intersects lr mr then
            if wa w >? wa lw then
              do d <- chk_sub p 64 PANIC_WIN_SUB (wa w) (wa lw);
              let lw' := set_size lw (wrap32 d) in    (* `as u32` *)
              match win_range lw' with
              | Some lr' => Ret ((mr, w) :: (lr', lw') :: rest)
              | None => Panic PANIC_WIN_UNWRAP
              end
            else if negb (range_eqb lr mr) then Ret acc   (* "bad intersections, dropping it" *)
            else Ret ((mr, w) :: acc)
          else Ret ((mr, w) :: acc)
      | [] => Ret [(mr, w)]
      end
  end.

Fixpoint insert_all (p : profile) (l : list winrec) (acc : list (range * winrec))
  : outcome (list (range * winrec)) :=
  match l with
  | [] => Ret acc
  | w :: r => do acc' <- insert_win p acc w; insert_all p r acc'
  end.

(* The finished table of one record type: records in file order -> RangeMap. *)
Definition win_table (p : profile) (l : list winrec) : outcome (list (range * winrec)) :=
  do acc <- insert_all p l [];
  build_p win_eqb (rev acc).
