(* C08/Model.v — executable model of the range tables built from untrusted input.
   Mirrors:
     minidump-common/src/traits.rs:76-110   IntoRangeMapSafe::into_rangemap_safe
     breakpad-symbols/src/sym_file/parser.rs:727-744  (parser-local copy; same body
        without the Option layer)
     range-map 0.2.0  RangeMap::try_from_iter / normalize / get
     minidump/src/minidump.rs  memory_range() constructors, from_modules/from_regions,
        MinidumpUnloadedModuleList::{from_modules, modules_at_address}
   Definitions only; proofs are in C08/Proofs.v. *)
From RM Require Export Base.Word.

Definition range := (Z * Z)%type.                 (* inclusive [start, end] *)
Definition contains (r : range) (x : Z) : bool := (fst r <=? x) && (x <=? snd r).
Definition intersects (a b : range) : bool := (fst a <=? snd b) && (fst b <=? snd a).

(* memory_range(): size = 0 -> None; base.checked_add(size)? - 1 *)
Definition mk_range (base size : Z) : option range :=
  if size =? 0 then None
  else match checked_add 64 base size with
       | Some e => Some (base, e - 1)
       | None => None
       end.
(* MinidumpLinuxMapInfo::memory_range: the pair is already (start, end) *)
Definition mk_range_maps (lo hi : Z) : option range :=
  if lo >? hi then None else Some (lo, hi).

(* derived Ord on Range<u64>: lexicographic (start, end) *)
Definition range_lt (a b : range) : bool :=
  (fst a <? fst b) || ((fst a =? fst b) && (snd a <? snd b)).
(* derived Ord on Option<Range<u64>>: None < Some *)
Definition okey_lt (a b : option range) : bool :=
  match a, b with
  | None, None => false
  | None, Some _ => true
  | Some _, None => false
  | Some x, Some y => range_lt x y
  end.

Section WithValue.
Context {V : Type} (eqb : V -> V -> bool).

(* sort_by_key is a stable sort.  Stable insertion sort: [x] is placed before the
   first element that is not strictly smaller, so it stays ahead of equal-keyed
   elements that followed it in the input. *)
Section Sort.
  Context {K : Type} (lt : K -> K -> bool).
  Fixpoint insert_stable (x : K * V) (l : list (K * V)) : list (K * V) :=
    match l with
    | [] => [x]
    | y :: t => if lt (fst y) (fst x) then y :: insert_stable x t else x :: y :: t
    end.
  Definition sort_stable (l : list (K * V)) : list (K * V) :=
    fold_right insert_stable [] l.
End Sort.

Fixpoint drop_none (l : list (option range * V)) : list (range * V) :=
  match l with
  | [] => []
  | (None, _) :: t => drop_none t
  | (Some r, v) :: t => (r, v) :: drop_none t
  end.

(* One iteration of the merge loop; [acc] is the output vector reversed, so its
   head is vec.last_mut(). *)
Definition merge_step (acc : list (range * V)) (rv : range * V) : list (range * V) :=
  match acc with
  | [] => [rv]
  | (lr, lv) :: acc' =>
      let '(r, v) := rv in
      if (fst r <=? snd lr) && negb (eqb v lv) then acc
      else if (fst r <=? sat_add 64 (snd lr) 1) && eqb v lv
           then ((fst lr, Z.max (snd r) (snd lr)), lv) :: acc'
           else rv :: acc
  end.

Definition merge_sorted (l : list (range * V)) : list (range * V) :=
  rev (fold_left merge_step l []).

(* traits.rs: IntoRangeMapSafe::into_rangemap_safe, before the final try_from_iter *)
Definition into_rangemap_safe (l : list (option range * V)) : list (range * V) :=
  merge_sorted (drop_none (sort_stable okey_lt l)).
(* parser.rs copy (no Option layer) *)
Definition into_rangemap_safe_p (l : list (range * V)) : list (range * V) :=
  merge_sorted (sort_stable range_lt l).

(* range-map: normalize, returning (elts, discarded), both in order *)
Definition norm_step (st : list (range * V) * list (range * V)) (rv : range * V) :=
  let '(acc, disc) := st in
  match acc with
  | [] => ([rv], disc)
  | (lr, lv) :: acc' =>
      let '(r, v) := rv in
      if (fst r <=? snd lr) && negb (eqb v lv) then (acc, rv :: disc)
      else if (fst r <=? sat_add 64 (snd lr) 1) && eqb v lv
           then (((fst lr, Z.max (snd r) (snd lr)), lv) :: acc', disc)
           else (rv :: acc, disc)
  end.
Definition rm_normalize (l : list (range * V)) : list (range * V) * list (range * V) :=
  let '(acc, disc) := fold_left norm_step l ([], []) in (rev acc, rev disc).

(* RangeMap::try_from_iter(vec).unwrap(): sort_by range cmp, normalize; a non-empty
   discarded list is the Err that the caller unwraps. *)
Definition PANIC_UNWRAP_OVERLAP : Z := 801.
Definition rm_try_from_iter (l : list (range * V)) : outcome (list (range * V)) :=
  let '(elts, disc) := rm_normalize (sort_stable range_lt l) in
  match disc with [] => Ret elts | _ => Panic PANIC_UNWRAP_OVERLAP end.

(* The complete builder as the Rust code runs it. *)
Definition build (l : list (option range * V)) : outcome (list (range * V)) :=
  rm_try_from_iter (into_rangemap_safe l).
Definition build_p (l : list (range * V)) : outcome (list (range * V)) :=
  rm_try_from_iter (into_rangemap_safe_p l).

(* Range<T>: PartialOrd<T>  (range vs point) *)
Inductive ordering := OLess | OEqual | OGreater.
Definition range_cmp_pt (r : range) (x : Z) : ordering :=
  if snd r <? x then OLess else if fst r >? x then OGreater else OEqual.

(* core::slice::binary_search_by (Rust >= 1.82): halve [size] around [base]. *)
Fixpoint bsearch_loop (fuel : nat) (elts : list (range * V)) (x : Z) (base size : nat) : nat :=
  match fuel with
  | O => base
  | S fuel' =>
      if Nat.leb size 1 then base
      else let half := Nat.div2 size in
           let mid := (base + half)%nat in
           let c := match nth_error elts mid with
                    | Some (r, _) => range_cmp_pt r x
                    | None => OGreater  (* unreachable: mid < len *)
                    end in
           let base' := match c with OGreater => base | _ => mid end in
           bsearch_loop fuel' elts x base' (size - half)%nat
  end.
Definition rm_get (elts : list (range * V)) (x : Z) : option V :=
  match elts with
  | [] => None
  | _ => let b := bsearch_loop (length elts) elts x 0%nat (length elts) in
         match nth_error elts b with
         | Some (r, v) => match range_cmp_pt r x with OEqual => Some v | _ => None end
         | None => None
         end
  end.

(* reference: linear scan *)
Fixpoint find_linear (elts : list (range * V)) (x : Z) : option V :=
  match elts with
  | [] => None
  | (r, v) :: t => if contains r x then Some v else find_linear t x
  end.
End WithValue.

(* Index-valued builders: from_modules / from_regions / memory-info / maps *)
Fixpoint enumerate_from {A} (i : Z) (l : list A) : list (A * Z) :=
  match l with [] => [] | a :: t => (a, i) :: enumerate_from (i + 1) t end.

Definition build_indexed (ranges : list (option range)) : outcome (list (range * Z)) :=
  build Z.eqb (enumerate_from 0 ranges).

(* MinidumpUnloadedModuleList: filter_map, sort_by_key(range), filter(contains) *)
Fixpoint keep_some (l : list (option range * Z)) : list (range * Z) :=
  match l with
  | [] => []
  | (None, _) :: t => keep_some t
  | (Some r, i) :: t => (r, i) :: keep_some t
  end.
Definition unloaded_build (ranges : list (option range)) : list (range * Z) :=
  sort_stable range_lt (keep_some (enumerate_from 0 ranges)).
Definition unloaded_at (tbl : list (range * Z)) (x : Z) : list Z :=
  map snd (filter (fun e => contains (fst e) x) tbl).
