(* C08/SymTextWin.v — completeness of the STACK WIN tables of a symbol file, from its TEXT: a STACK WIN line of one
   type (frame data / FPO) whose range meets the range of no other STACK WIN line of that type is found by
   `win_stack_*_info.get(x)` at every address of its range AS WRITTEN (the overlap repair of insert_win_stack_info
   leaves it alone).  insert_win_stack_info only ever looks at and changes the last vector element, so the records read
   before the line, the line's record, and the records read after it stay three separate blocks of the vector. *)
From Coq Require Import Lia ZArith List Bool Sorting.Sorted.
From RM Require Import Base.Word C08.Model C08.Proofs C11.Model C09.Model C09.Grammar C09.Driver C09.Proofs
                       C09.ProofsBytes C09.ProofsFinish C09.ProofsFinal C08.SymText C08.SymTextC C08.SymTextCfi.
Import ListNotations.
Open Scope Z_scope.

(* ------------------------------------------------------------------ insert_win_stack_info works on the last element *)
Lemma win_insert_app new rest w : new <> [] ->
  win_insert (new ++ rest) w =
  match win_insert new w with Ret n' => Ret (n' ++ rest) | Panic t => Panic t | Fail => Fail | OutOfFuel => OutOfFuel end.
Proof.
  intros Hne. destruct new as [|[lr lw] new']; [congruence|]. unfold win_insert. cbn [app].
  destruct (wi_range w) as [mr|]; [|reflexivity].
  destruct (intersects lr mr); [|reflexivity].
  destruct (wi_addr w >? wi_addr lw).
  - destruct (wi_range (wi_set_size lw (wrap32 (wi_addr w - wi_addr lw)))); reflexivity.
  - destruct (negb (range_eqb lr mr)); reflexivity.
Qed.

(* the range of a derived element lies inside the range of the record it comes from *)
Lemma wderived_sub l e : wderived l e ->
  exists w0 r0, In w0 l /\ wi_range w0 = Some r0 /\ fst r0 <= fst (fst e) /\ snd (fst e) <= snd r0.
Proof.
  intros (Hr & [W1 W2] & w0 & Hin & Hrg & Hset & Hsz). exists w0.
  assert (Ha : wi_addr (snd e) = wi_addr w0) by (rewrite Hset; destruct w0; reflexivity).
  destruct (wi_range w0) as [r0|] eqn:Er0; [|congruence]. exists r0. split; [exact Hin|]. split; [reflexivity|].
  unfold wi_range, mk_range, checked_add in Hr, Er0. rewrite <- two64_val in Hr, Er0.
  destruct (wi_size (snd e) =? 0) eqn:E0; [discriminate|].
  destruct (wi_addr (snd e) + wi_size (snd e) <? two64) eqn:E1; [|discriminate].
  destruct (wi_size w0 =? 0) eqn:E2; [discriminate|].
  destruct (wi_addr w0 + wi_size w0 <? two64) eqn:E3; [|discriminate].
  destruct e as [[e1 e2] ew]. cbn [fst snd] in *. inversion Hr; subst e1 e2. inversion Er0; subst r0. cbn [fst snd]. lia.
Qed.

Definition apart (r : range) (l : list win_info) : Prop :=
  forall w r', In w l -> wi_range w = Some r' -> intersects r r' = false.

Lemma wderived_apart r l e : wf_range r -> apart r l -> wderived l e -> intersects r (fst e) = false.
Proof.
  intros Hwf Ha Hd. pose proof Hd as (Hr & [W1 W2] & _).
  destruct (wderived_sub l e Hd) as (w0 & r0 & Hin & Hr0 & A & B). specialize (Ha w0 r0 Hin Hr0).
  assert (Hwe : fst (fst e) <= snd (fst e)).
  { unfold wi_range in Hr. pose proof (mk_range_wf _ _ _ W1 (proj1 W2) Hr) as (_ & C & _). exact C. }
  unfold intersects in *. apply andb_false_iff in Ha. apply andb_false_iff.
  destruct Ha as [Ha|Ha]; apply Z.leb_gt in Ha; [left|right]; apply Z.leb_gt; lia.
Qed.

(* records read after an isolated one never touch it *)
Lemma win_collect_after r w0 acc1 l2 : wf_range r -> apart r l2 -> Forall wi_wf l2 ->
  forall new v, Forall (wderived l2) new ->
    win_collect (new ++ (r, w0) :: acc1) l2 = Ret v ->
    exists new', v = rev acc1 ++ (r, w0) :: rev new' /\ Forall (wderived l2) new'.
Proof.
  intros Hwf Hap Hwfl.
  assert (Hgen : forall ws, incl ws l2 -> Forall wi_wf ws -> forall new v, Forall (wderived l2) new ->
            win_collect (new ++ (r, w0) :: acc1) ws = Ret v ->
            exists new', v = rev acc1 ++ (r, w0) :: rev new' /\ Forall (wderived l2) new').
  { induction ws as [|w t IH]; intros Hincl Hw new v Hnew H; cbn [win_collect] in H.
    - inversion H; subst. exists new. split; [|exact Hnew]. rewrite rev_app_distr. cbn [rev]. rewrite <- app_assoc. reflexivity.
    - inversion Hw as [|? ? Hw1 Hw2]; subst.
      assert (Hinw : In w l2) by (apply Hincl; left; reflexivity).
      assert (Hincl' : incl t l2) by (intros a Ha; apply Hincl; right; exact Ha).
      destruct new as [|h new'].
      + (* the isolated record is the last element: the new one does not meet it, it is pushed *)
        cbn [app] in H. unfold win_insert in H. destruct (wi_range w) as [mr|] eqn:Em.
        * rewrite (Hap w mr Hinw Em) in H. cbn [obind] in H.
          apply (IH Hincl' Hw2 [(mr, w)] v); [|exact H]. constructor; [|constructor].
          apply st_wderived_new; assumption.
        * cbn [obind] in H. apply (IH Hincl' Hw2 [] v); [constructor|exact H].
      + rewrite (win_insert_app (h :: new') ((r, w0) :: acc1) w) in H by discriminate.
        destruct (win_insert (h :: new') w) as [n'| | |] eqn:E; cbn [obind] in H; try discriminate.
        apply (IH Hincl' Hw2 n' v); [|exact H].
        exact (st_win_insert l2 (h :: new') w n' Hnew Hinw Hw1 E). }
  apply Hgen; [apply incl_refl|exact Hwfl].
Qed.

Lemma win_collect_app ws1 : forall acc ws2,
  win_collect acc (ws1 ++ ws2) =
  match win_collect acc ws1 with Ret v => win_collect (rev v) ws2 | Panic t => Panic t | Fail => Fail | OutOfFuel => OutOfFuel end.
Proof.
  induction ws1 as [|w t IH]; intros acc ws2; cbn [app win_collect].
  - rewrite rev_involutive. reflexivity.
  - destruct (win_insert acc w) as [acc'| | |]; cbn [obind]; [apply IH|reflexivity..].
Qed.

(* one table: an isolated record of the list is returned as written *)
Lemma win_table_isolated l1 w0 l2 r v t x :
  Forall wi_wf (l1 ++ w0 :: l2) -> wi_range w0 = Some r -> apart r l1 -> apart r l2 ->
  win_collect [] (l1 ++ w0 :: l2) = Ret v -> build_p wi_eqb v = Ret t -> contains r x = true ->
  rm_get t x = Some w0.
Proof.
  intros Hwf Hr Ha1 Ha2 Hc Hb Hx.
  apply Forall_app in Hwf. destruct Hwf as [Hwf1 Hwf2]. inversion Hwf2 as [|? ? Hw0 Hwf2']; subst.
  assert (Hrw : wf_range r) by (destruct Hw0 as [A [B _]]; exact (mk_range_wf _ _ _ A B Hr)).
  rewrite win_collect_app in Hc.
  destruct (win_collect [] l1) as [v1| | |] eqn:E1; try discriminate.
  assert (Hd1 : Forall (wderived l1) v1).
  { eapply st_win_collect; [constructor|apply incl_refl|exact Hwf1|exact E1]. }
  cbn [win_collect] in Hc.
  (* inserting the isolated record: the last element, if any, does not meet it *)
  assert (Hins : win_insert (rev v1) w0 = Ret ((r, w0) :: rev v1)).
  { unfold win_insert. rewrite Hr. destruct (rev v1) as [|[lr lw] rest] eqn:Erv; [reflexivity|].
    assert (Hin : In (lr, lw) v1) by (apply in_rev; rewrite Erv; left; reflexivity).
    rewrite Forall_forall in Hd1. pose proof (wderived_apart r l1 _ Hrw Ha1 (Hd1 _ Hin)) as Hn. cbn [fst] in Hn.
    assert (Hn' : intersects lr r = false).
    { unfold intersects in *. rewrite andb_comm. exact Hn. }
    rewrite Hn'. reflexivity. }
  rewrite Hins in Hc. cbn [obind] in Hc.
  destruct (win_collect_after r w0 (rev v1) l2 Hrw Ha2 Hwf2' [] v (Forall_nil _) Hc) as [new' [Hv Hnew]].
  rewrite rev_involutive in Hv. subst v.
  assert (Hwfv : wf_ranges (v1 ++ (r, w0) :: rev new')).
  { unfold wf_ranges. apply Forall_app. split; [exact (st_wderived_wf _ _ Hd1)|].
    constructor; [exact Hrw|]. apply Forall_rev. exact (st_wderived_wf _ _ Hnew). }
  rewrite (build_total_p wi_eqb _ Hwfv) in Hb. inversion Hb; subst t.
  apply (isolated_complete_p wi_eqb st_wi_eqb_eq v1 r w0 (rev new') x Hwfv); [|exact Hx].
  intros r' v' Hin. apply in_app_or in Hin. destruct Hin as [Hin|Hin].
  - rewrite Forall_forall in Hd1. exact (wderived_apart r l1 _ Hrw Ha1 (Hd1 _ Hin)).
  - apply in_rev in Hin. rewrite Forall_forall in Hnew. exact (wderived_apart r l2 _ Hrw Ha2 (Hnew _ Hin)).
Qed.

(* ------------------------------------------------------------------ a STACK WIN line is always a top-level line *)
Lemma win_line_is_top s w : line_top s = Some (IWin w) ->
  eol s = false /\ sub_func s = None /\ sub_cfi s = None.
Proof.
  intros H. apply line_top_kind in H. cbn [kind_ok] in H. unfold p_stack_win in H.
  destruct (hdr T_STACK_WIN s) as [s0|] eqn:E; [|discriminate]. clear H.
  unfold hdr in E. destruct (tag T_STACK_WIN s) as [s'|] eqn:Et; [|discriminate]. clear E.
  change T_STACK_WIN with ([83; 84; 65; 67; 75; 32] ++ [87; 73; 78]) in Et. rewrite tag_app in Et.
  destruct (tag [83; 84; 65; 67; 75; 32] s) as [s6|] eqn:E6; [|discriminate].
  assert (H0 : hd_byte s = Some 83).
  { apply tag_cons in E6. destruct E6 as [a [Ua _]]. eapply uncons_hd. exact Ua. }
  assert (H6 : hd_byte s6 = Some 87).
  { apply tag_cons in Et. destruct Et as [a [Ua _]]. eapply uncons_hd. exact Ua. }
  split; [|split].
  - unfold eol. destruct s as [|[b c] t]; [discriminate|]. cbn [hd_byte] in H0. inversion H0; subst b.
    cbn [skip_while]. unfold is_cr. cbn. reflexivity.
  - unfold sub_func, T_INLINE_ORIGIN_SP, T_INLINE_SP. rewrite !(tag_hd_ne 73 83 _ s H0) by lia.
    unfold sub_line_data. rewrite (hex64sp_nonhex s 83 H0 eq_refl). reflexivity.
  - unfold sub_cfi, hdr. change T_STACK_CFI with ([83; 84; 65; 67; 75; 32] ++ [67; 70; 73]).
    rewrite tag_app, E6. rewrite (tag_hd_ne 67 87 _ s6 H6) by lia. reflexivity.
Qed.

(* ------------------------------------------------------------------ the records the parser holds = the lines *)
Definition sel (fd : bool) (p : pst) : list win_info := if fd then p_win_fd p else p_win_fpo p.
Definition line_w (fd : bool) (s : rle) : list win_info :=
  match line_top s with
  | Some (IWin (FrameData i)) => if fd then [i] else []
  | Some (IWin (Fpo i)) => if fd then [] else [i]
  | _ => []
  end.

Lemma sel_close fd p : sel fd (close_cur p) = sel fd p.
Proof. unfold sel, close_cur. destruct (p_cur p), fd; reflexivity. Qed.

Lemma sel_top fd p s p' : top p s = inl p' -> sel fd p' = line_w fd s ++ sel fd p.
Proof.
  intros H. destruct (eol s) eqn:Ee.
  { assert (Hn : line_w fd s = []).
    { unfold line_w. destruct (line_top s) as [[| | | | | | |w|]|] eqn:El; try reflexivity.
      apply win_line_is_top in El. destruct El as [El _]. congruence. }
    rewrite Hn. unfold top in H. rewrite Ee in H. inversion H; subst. destruct fd; reflexivity. }
  unfold top in H. rewrite Ee in H. unfold sel, line_w.
  destruct (line_top s) as [it|] eqn:E; [|discriminate].
  destruct it as [id f|u| |id nm|id nm|pb|f|w|c].
  - destruct (p_lines p =? 0); [|discriminate]. inversion H; subst; destruct fd; reflexivity.
  - inversion H; subst; destruct fd; reflexivity.
  - inversion H; subst; destruct fd; reflexivity.
  - inversion H; subst; destruct fd; reflexivity.
  - inversion H; subst; destruct fd; reflexivity.
  - inversion H; subst; destruct fd; reflexivity.
  - inversion H; subst; destruct fd; reflexivity.
  - destruct w as [i|i|]; inversion H; subst; destruct fd; reflexivity.
  - inversion H; subst; destruct fd; reflexivity.
Qed.

Lemma sel_recog fd p s p' : recog_pst p s = inl p' -> sel fd p' = line_w fd s ++ sel fd p.
Proof.
  intros H. unfold recog_pst in H.
  assert (Hsub : (sub_func s <> None \/ sub_cfi s <> None) -> line_w fd s = []).
  { intros Hs. unfold line_w. destruct (line_top s) as [[| | | | | | |w|]|] eqn:El; try reflexivity.
    apply win_line_is_top in El. destruct El as [_ [A B]]. destruct Hs; congruence. }
  destruct (p_cur p) as [|f|c] eqn:Ec.
  - exact (sel_top fd p s p' H).
  - destruct (sub_func s) as [[id nm|l|l]|] eqn:Es.
    + rewrite Hsub by (left; discriminate). inversion H; subst. destruct fd; reflexivity.
    + rewrite Hsub by (left; discriminate). inversion H; subst. destruct fd; reflexivity.
    + rewrite Hsub by (left; discriminate). inversion H; subst. destruct fd; reflexivity.
    + rewrite (sel_top fd _ s p' H), sel_close. reflexivity.
  - destruct (sub_cfi s) as [r|] eqn:Es.
    + rewrite Hsub by (right; discriminate). inversion H; subst. destruct fd; reflexivity.
    + rewrite (sel_top fd _ s p' H), sel_close. reflexivity.
Qed.

Lemma sel_fold fd : forall ls p p',
  fold_recog rle pst recog_pst lineno_pst p ls = inl p' -> sel fd p' = rev (flat_map (line_w fd) ls) ++ sel fd p.
Proof.
  induction ls as [|s t IH]; intros p p' H; cbn [fold_recog] in H.
  - inversion H; subst. reflexivity.
  - destruct (recog_pst p s) as [p1|c] eqn:E; [|discriminate].
    assert (Hr : rev (line_w fd s) = line_w fd s).
    { unfold line_w. destruct (line_top s) as [[| | | | | | |[| |]|]|]; destruct fd; reflexivity. }
    rewrite (IH p1 p' H), (sel_recog fd p s p1 E). cbn [flat_map]. rewrite rev_app_distr, <- app_assoc, Hr. reflexivity.
Qed.

(* ------------------------------------------------------------------ the theorem *)
Definition tsel (fd : bool) (t : table) : list (range * win_info) := if fd then t_win_fd t else t_win_fpo t.

Lemma text_win_complete fd lines tail sch p s :
  Forall (fun l => cllen l <= HALF_CAP) lines ->
  drive_c lines tail sch = Ret (ROk p, s) ->
  exists t, table_of (ROk p) = Ret (Some t) /\
    forall L1 s0 L2 w0 x,
      lines = L1 ++ s0 :: L2 -> line_w fd s0 = [w0] ->
      let a := wi_addr w0 in let sz := wi_size w0 in
      sz <> 0 -> a + sz < two64 -> a <= x < a + sz ->
      (forall s' w', In s' (L1 ++ L2) -> In w' (line_w fd s') ->
         wi_size w' = 0 \/ two64 <= wi_addr w' + wi_size w' \/ wi_addr w' + wi_size w' <= a \/ a + sz <= wi_addr w') ->
      rm_get (tsel fd t) x = Some w0.
Proof.
  intros Hshort H.
  destruct (st_final_prov lines tail sch p s H) as [W _].
  pose proof (ok_is_fold rle cllen pst init_pst recog_pst bump_pst lineno_pst cllen_pos lines tail sch p s Hshort H) as Hfold.
  apply (sel_fold fd) in Hfold. assert (Hnil : sel fd init_pst = []) by (destruct fd; reflexivity).
  rewrite Hnil, app_nil_r in Hfold.
  destruct (finish_total p W) as [t Ht]. exists t. split; [cbn [table_of]; rewrite Ht; reflexivity|].
  unfold finish in Ht. cbv zeta in Ht.
  destruct (close_cur_wf p W) as [Wc _]. destruct Wc as (_ & _ & _ & Hfd & Hfpo).
  pose proof (sel_close fd p) as Hcl.
  intros L1 s0 L2 w0 x Hl Hs0 a sz Hnz Hlt Hx Hiso.
  assert (Hrecs : rev (sel fd (close_cur p)) = flat_map (line_w fd) L1 ++ w0 :: flat_map (line_w fd) L2).
  { rewrite Hcl, Hfold, rev_involutive, Hl, flat_map_app. cbn [flat_map]. rewrite Hs0. reflexivity. }
  assert (Hwfr : Forall wi_wf (rev (sel fd (close_cur p)))) by (apply Forall_rev; unfold sel; destruct fd; assumption).
  assert (Hw0 : wi_wf w0).
  { rewrite Hrecs in Hwfr. apply Forall_app in Hwfr. destruct Hwfr as [_ Hw]. inversion Hw; assumption. }
  assert (Hpos : 0 < sz) by (destruct Hw0 as [_ [B _]]; unfold sz in *; lia).
  assert (Hr : wi_range w0 = Some (a, a + sz - 1)) by (unfold wi_range; apply stc_mk_range_some; assumption).
  assert (Hap : forall L, incl L (L1 ++ L2) -> apart (a, a + sz - 1) (flat_map (line_w fd) L)).
  { intros L HL w r' Hin Hr'. apply in_flat_map in Hin. destruct Hin as [s' [Hs' Hw']].
    specialize (Hiso s' w (HL s' Hs') Hw').
    unfold wi_range, mk_range, checked_add in Hr'. destruct (wi_size w =? 0) eqn:E0; [discriminate|].
    rewrite <- two64_val in Hr'. destruct (wi_addr w + wi_size w <? two64) eqn:E1; [|discriminate].
    inversion Hr'; subst r'. unfold intersects. cbn [fst snd]. apply andb_false_iff. lia. }
  assert (Hc : contains (a, a + sz - 1) x = true).
  { unfold contains. cbn [fst snd]. apply andb_true_intro. split; apply Z.leb_le; lia. }
  assert (A1 : apart (a, a + sz - 1) (flat_map (line_w fd) L1)) by (apply Hap; intros y Hy; apply in_or_app; left; exact Hy).
  assert (A2 : apart (a, a + sz - 1) (flat_map (line_w fd) L2)) by (apply Hap; intros y Hy; apply in_or_app; right; exact Hy).
  rewrite Hrecs in Hwfr.
  destruct (finish_funcs _) as [fl| | |]; cbn [obind] in Ht; try discriminate.
  destruct (build_p sfunc_eqb fl) as [funcs| | |]; cbn [obind] in Ht; try discriminate.
  destruct (build_p scfi_eqb _) as [cfis| | |]; cbn [obind] in Ht; try discriminate.
  destruct (win_collect [] (rev (p_win_fd (close_cur p)))) as [wfd| | |] eqn:E4; cbn [obind] in Ht; try discriminate.
  destruct (build_p wi_eqb wfd) as [tfd| | |] eqn:E5; cbn [obind] in Ht; try discriminate.
  destruct (win_collect [] (rev (p_win_fpo (close_cur p)))) as [wfpo| | |] eqn:E6; cbn [obind] in Ht; try discriminate.
  destruct (build_p wi_eqb wfpo) as [tfpo| | |] eqn:E7; cbn [obind] in Ht; try discriminate.
  inversion Ht; subst t. unfold tsel, sel in *. destruct fd; cbn [t_win_fd t_win_fpo].
  - rewrite Hrecs in E4. exact (win_table_isolated _ w0 _ _ wfd tfd x Hwfr Hr A1 A2 E4 E5 Hc).
  - rewrite Hrecs in E6. exact (win_table_isolated _ w0 _ _ wfpo tfpo x Hwfr Hr A1 A2 E6 E7 Hc).
Qed.

Definition win_item (fd : bool) (w : win_info) : item := IWin (if fd then FrameData w else Fpo w).

Lemma line_w_in fd s w : In w (line_w fd s) -> line_top s = Some (win_item fd w).
Proof.
  unfold line_w, win_item. destruct (line_top s) as [[| | | | | | |[i|i|]|]|]; destruct fd; cbn [In]; intros H;
    try (destruct H; fail); destruct H as [<-|[]]; reflexivity.
Qed.

Lemma text_win_complete_both lines tail sch p s :
  Forall (fun l => cllen l <= HALF_CAP) lines ->
  drive_c lines tail sch = Ret (ROk p, s) ->
  exists t, table_of (ROk p) = Ret (Some t) /\
    forall fd L1 s0 L2 w0 x,
      lines = L1 ++ s0 :: L2 -> line_top s0 = Some (win_item fd w0) ->
      let a := wi_addr w0 in let sz := wi_size w0 in
      sz <> 0 -> a + sz < two64 -> a <= x < a + sz ->
      (forall s' w', In s' (L1 ++ L2) -> line_top s' = Some (win_item fd w') ->
         wi_size w' = 0 \/ two64 <= wi_addr w' + wi_size w' \/ wi_addr w' + wi_size w' <= a \/ a + sz <= wi_addr w') ->
      rm_get (tsel fd t) x = Some w0.
Proof.
  intros Hshort H.
  destruct (text_win_complete true lines tail sch p s Hshort H) as [t [Ht Ct]].
  destruct (text_win_complete false lines tail sch p s Hshort H) as [t' [Ht' Cf]].
  rewrite Ht in Ht'. inversion Ht'; subst t'. exists t. split; [exact Ht|].
  intros fd L1 s0 L2 w0 x Hl Hs0 a sz Hnz Hlt Hx Hiso.
  assert (Hlw : line_w fd s0 = [w0]) by (unfold line_w; rewrite Hs0; unfold win_item; destruct fd; reflexivity).
  assert (Hiso' : forall s' w', In s' (L1 ++ L2) -> In w' (line_w fd s') ->
            wi_size w' = 0 \/ two64 <= wi_addr w' + wi_size w' \/ wi_addr w' + wi_size w' <= a \/ a + sz <= wi_addr w').
  { intros s' w' Hin Hw'. apply (Hiso s' w' Hin). apply line_w_in. exact Hw'. }
  destruct fd; [exact (Ct L1 s0 L2 w0 x Hl Hlw Hnz Hlt Hx Hiso')|exact (Cf L1 s0 L2 w0 x Hl Hlw Hnz Hlt Hx Hiso')].
Qed.
