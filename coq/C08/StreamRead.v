(* C08/StreamRead.v — lists read from stream bytes whose reader does more than hand the entries to the builder:
   MinidumpUnloadedModuleList::read (one raw module without a valid range makes the whole read return Err; the
   guard is GENERATED from the source: g_unloaded_read_bad), then from_modules over the generated memory_range(). *)
From Coq Require Import Lia Sorting.Sorted.
From RM Require Import C08.Model C08.Proofs C08.WinModel C08.WinProofs C08.Driver Gen.C08Tables C08.Tie C08.EndToEnd.
Open Scope Z_scope.

(* the `for raw in raw_modules` loop: true = `return Err(Error::ModuleReadFailure)` at the first bad module *)
Fixpoint g_unloaded_read_loop (p : profile) (ents : list (Z * Z)) : outcome bool :=
  match ents with
  | [] => Ret false
  | e :: t => do bad <- g_unloaded_read_bad p (fst e) (snd e);
              if bad then Ret true else g_unloaded_read_loop p t
  end.
(* None = Err for the whole stream; Some t = Ok(from_modules(modules)) *)
Definition g_unloaded_read (p : profile) (ents : list (Z * Z)) : outcome (option (list (range * Z))) :=
  do err <- g_unloaded_read_loop p ents;
  if err then Ret None else do t <- g_unloaded_table p ents; Ret (Some t).

(* the hand-written model the correspondence run uses (Driver.run_case kind 9) *)
Definition unloaded_read (ents : list (Z * Z)) : option (list (range * Z)) :=
  if forallb (fun e => module_read_keep (fst e) (snd e)) ents
  then Some (unloaded_build (map (fun e => mk_range (fst e) (snd e)) ents)) else None.

Lemma g_unloaded_read_bad_eq p b s : u64 b -> u64 s ->
  g_unloaded_read_bad p b s = Ret (negb (module_read_keep b s)).
Proof. intros Hb Hs. exact (proj1 (g_module_read_drop_eq p b s Hb Hs)). Qed.

Lemma keep_iff b s : u64 b -> u64 s -> (module_read_keep b s = true <-> s <> 0 /\ b + s < two64).
Proof.
  intros Hb Hs. rewrite (proj2 (g_module_read_drop_eq Debug b s Hb Hs)). split.
  - intros [r Hr]. apply mk_range_shape in Hr. tauto.
  - intros [H0 H1]. exists (b, b + s - 1). apply mk_range_some; [destruct Hs; lia|exact H1].
Qed.

Lemma g_unloaded_read_loop_eq p ents : u64_ents ents ->
  g_unloaded_read_loop p ents = Ret (negb (forallb (fun e => module_read_keep (fst e) (snd e)) ents)).
Proof.
  induction 1 as [|e t [Hb Hs] Ht IH]; cbn [g_unloaded_read_loop forallb]; [reflexivity|].
  rewrite (g_unloaded_read_bad_eq p _ _ Hb Hs). cbn [obind].
  destruct (module_read_keep (fst e) (snd e)); cbn [negb andb]; [exact IH|reflexivity].
Qed.

Lemma g_unloaded_read_eq p ents : u64_ents ents -> g_unloaded_read p ents = Ret (unloaded_read ents).
Proof.
  intros H. unfold g_unloaded_read, unloaded_read. rewrite (g_unloaded_read_loop_eq p ents H). cbn [obind].
  destruct (forallb _ ents); cbn [negb]; [|reflexivity].
  unfold g_unloaded_table.
  rewrite (omap_pure _ (fun e => mk_range (fst e) (snd e)) (fun e => u64 (fst e) /\ u64 (snd e)));
    [reflexivity|intros a [Ha Hb]; apply g_mr_MinidumpUnloadedModule_eq; assumption|exact H].
Qed.

(* end to end, in plain arithmetic on the raw fields *)
Lemma unloaded_read_end_to_end p ents : u64_ents ents ->
  (g_unloaded_read p ents = Ret None /\ exists b s, In (b, s) ents /\ (s = 0 \/ two64 <= b + s)) \/
  (exists t, g_unloaded_read p ents = Ret (Some t) /\
     (forall b s, In (b, s) ents -> s <> 0 /\ b + s < two64) /\
     StronglySorted (fun a b => range_lt (fst b) (fst a) = false) t /\
     forall x i, In i (unloaded_at t x) <->
       0 <= i /\ exists b s, nth_error ents (Z.to_nat i) = Some (b, s) /\ b <= x < b + s).
Proof.
  intros H. destruct (forallb (fun e => module_read_keep (fst e) (snd e)) ents) eqn:E.
  - right. destruct (unloaded_end_to_end p ents H) as [t [Ht [Hs Hx]]]. exists t.
    assert (Hall : forall b s, In (b, s) ents -> s <> 0 /\ b + s < two64).
    { intros b s Hin. rewrite forallb_forall in E. specialize (E (b, s) Hin). cbn [fst snd] in E.
      unfold u64_ents in H. rewrite Forall_forall in H. destruct (H (b, s) Hin) as [Hb Hs']. cbn [fst snd] in Hb, Hs'.
      apply (keep_iff b s Hb Hs'). exact E. }
    split.
    { unfold g_unloaded_read. rewrite (g_unloaded_read_loop_eq p ents H), E. cbn [negb obind]. rewrite Ht. reflexivity. }
    split; [exact Hall|]. split; [exact Hs|].
    intros x i. rewrite Hx. split.
    + intros [H0 [b [s [Hn [_ [_ Hb]]]]]]. split; [exact H0|]. exists b, s. split; assumption.
    + intros [H0 [b [s [Hn Hb]]]]. split; [exact H0|]. exists b, s. split; [exact Hn|].
      destruct (Hall b s (nth_error_In _ _ Hn)) as [A B]. repeat split; try assumption; apply Hb.
  - left. split.
    { unfold g_unloaded_read. rewrite (g_unloaded_read_loop_eq p ents H), E. reflexivity. }
    assert (Hex : exists e, In e ents /\ module_read_keep (fst e) (snd e) = false).
    { clear H. induction ents as [|e t IH]; cbn [forallb] in E; [discriminate|].
      destruct (module_read_keep (fst e) (snd e)) eqn:K.
      - cbn [andb] in E. destruct (IH E) as [e' [Hin Hk]]. exists e'. split; [right; exact Hin|exact Hk].
      - exists e. split; [left; reflexivity|exact K]. }
    destruct Hex as [[b s] [Hin Hk]]. cbn [fst snd] in Hk. exists b, s. split; [exact Hin|].
    unfold u64_ents in H. rewrite Forall_forall in H. destruct (H (b, s) Hin) as [Hb Hs]. cbn [fst snd] in Hb, Hs.
    destruct (Z.eq_dec s 0) as [Z0|N0]; [left; exact Z0|right].
    destruct (Z_lt_le_dec (b + s) two64) as [L|G]; [|exact G].
    exfalso. assert (K : module_read_keep b s = true) by (apply keep_iff; auto). congruence.
Qed.

(* the driver's kind 9 is this model *)
Lemma run_case_9 ents qs :
  o_err (run_case 9 ents qs) = match unloaded_read (map (fun e => (fst (fst e), snd (fst e))) ents) with None => true | Some _ => false end.
Proof.
  unfold run_case, unloaded_read. cbn [Z.eqb Pos.eqb].
  replace (forallb (fun e => module_read_keep (fst e) (snd e)) (map (fun e => (fst (fst e), snd (fst e))) ents))
    with (forallb (fun e : Z * Z * Z => let '(b, s, _) := e in module_read_keep b s) ents).
  2:{ induction ents as [|[[b s] v] t IH]; cbn [map forallb fst snd]; [reflexivity|]. rewrite IH. reflexivity. }
  destruct (forallb _ ents); reflexivity.
Qed.

(* ================================================================== memory lists read from stream bytes *)
(* MinidumpMemoryList::read: a raw descriptor is (start_of_memory_range, data_size, rva); the regions the GENERATED
   MinidumpMemory::read accepts, in stream order, go to from_regions (indices are positions in the kept vector) *)
Definition g_memory_list_kept (len : Z) (descs : list (Z * Z * Z)) : list (Z * Z) :=
  flat_map (fun d => let '(b, s, r) := d in match g_memory_read len b s r with Some e => [e] | None => [] end) descs.
Definition g_memory_list_read (p : profile) (len : Z) (descs : list (Z * Z * Z)) : outcome (list (range * Z)) :=
  g_indexed_table (g_mr_MinidumpMemoryBase p) (g_memory_list_kept len descs).

Definition u32 (x : Z) : Prop := 0 <= x < two32.
Definition desc_ok (d : Z * Z * Z) : Prop := let '(b, s, r) := d in u64 b /\ u32 s /\ u32 r.

Lemma g_memory_read_eq len b s r : u32 s -> u32 r ->
  g_memory_read len b s r = if memory_read_keep len r s then Some (b, s) else None.
Proof.
  intros [Hs1 Hs2] [Hr1 Hr2]. unfold g_memory_read, g_memory_read_null, g_location_slice_ok, memory_read_keep, checked_add.
  destruct ((r =? 0) || (s =? 0)); cbn [negb andb]; [reflexivity|].
  assert (E : r + s <? 2 ^ 64 = true) by (apply Z.ltb_lt; unfold two32 in *; lia). rewrite E.
  assert (E2 : r <=? r + s = true) by (apply Z.leb_le; lia). rewrite E2. cbn [andb]. reflexivity.
Qed.

Lemma g_memory_list_kept_eq len descs : Forall desc_ok descs ->
  g_memory_list_kept len descs =
  map (fun d => (fst (fst d), snd (fst d))) (filter (fun d => memory_read_keep len (snd d) (snd (fst d))) descs) /\
  u64_ents (g_memory_list_kept len descs).
Proof.
  unfold g_memory_list_kept. induction 1 as [|[[b s] r] t (Hb & Hs & Hr) Ht [IH1 IH2]]; cbn [flat_map filter map fst snd].
  - split; [reflexivity|constructor].
  - rewrite (g_memory_read_eq len b s r Hs Hr). destruct (memory_read_keep len r s); cbn [app map fst snd].
    + split; [rewrite IH1; reflexivity|]. constructor; [|exact IH2]. cbn [fst snd]. split; [exact Hb|].
      destruct Hs as [S1 S2]. unfold u64, two32 in *. rewrite two64_val. lia.
    + split; assumption.
Qed.

Lemma memory_read_keep_iff len r s : memory_read_keep len r s = true <-> r <> 0 /\ s <> 0 /\ r + s <= len.
Proof.
  unfold memory_read_keep. rewrite andb_true_iff, negb_true_iff, orb_false_iff, !Z.eqb_neq, Z.leb_le. tauto.
Qed.

(* end to end: whatever the descriptors, the read never fails or traps; the table is the size-based table of the kept
   regions (a region is kept iff rva <> 0, data_size <> 0 and rva + data_size <= |file|) *)
Lemma memory_list_read_end_to_end p len descs : Forall desc_ok descs ->
  let kept := map (fun d => (fst (fst d), snd (fst d)))
                  (filter (fun d => memory_read_keep len (snd d) (snd (fst d))) descs) in
  g_memory_list_kept len descs = kept /\
  exists t, g_memory_list_read p len descs = Ret t /\
    StronglySorted (fun a b => snd (fst a) < fst (fst b)) t /\
    (forall x i, rm_get t x = Some i -> 0 <= i /\ exists b s, nth_error kept (Z.to_nat i) = Some (b, s) /\
                                   s <> 0 /\ b + s < two64 /\ b <= x < b + s) /\
    (forall e1 b s e2 x, kept = e1 ++ (b, s) :: e2 -> s <> 0 -> b + s < two64 -> b <= x < b + s ->
        (forall b' s', In (b', s') (e1 ++ e2) -> s' = 0 \/ two64 <= b' + s' \/ b' + s' <= b \/ b + s <= b') ->
        rm_get t x = Some (Z.of_nat (length e1))).
Proof.
  intros H. cbv zeta. destruct (g_memory_list_kept_eq len descs H) as [E U]. split; [exact E|].
  unfold g_memory_list_read. rewrite <- E.
  destruct (size_based_end_to_end g_mr_MinidumpMemoryBase (or_intror (or_introl eq_refl)) p _ U) as (t & Ht & Hs & _ & Hl & Hi).
  exists t. split; [exact Ht|]. split; [exact Hs|]. split; [exact Hl|exact Hi].
Qed.

(* MinidumpMemory64List::read: regions back to back from the base rva through the GENERATED loop body; None = Err *)
Fixpoint g_mem64_regions (len rva : Z) (descs : list (Z * Z)) : option (list (Z * Z)) :=
  match descs with
  | [] => Some []
  | d :: t => match g_mem64_step len rva (fst d) (snd d) with
              | None => None
              | Some (e, reg) => match g_mem64_regions len e t with None => None | Some l => Some (reg :: l) end
              end
  end.
Definition g_mem64_read (p : profile) (len rva : Z) (descs : list (Z * Z)) : outcome (option (list (range * Z))) :=
  match g_mem64_regions len rva descs with
  | None => Ret None
  | Some regs => do t <- g_indexed_table (g_mr_MinidumpMemoryBase p) regs; Ret (Some t)
  end.

Lemma g_mem64_regions_eq len descs : u64_ents descs -> forall rva, 0 <= rva ->
  g_mem64_regions len rva descs = if mem64_ok len rva (map snd descs) then Some descs else None.
Proof.
  induction 1 as [|[b s] t [Hb Hs] Ht IH]; intros rva Hr; cbn [g_mem64_regions mem64_ok map fst snd]; [reflexivity|].
  unfold g_mem64_step, checked_add. cbn [fst snd] in Hs. destruct (rva + s <? 2 ^ 64) eqn:E; [|reflexivity].
  assert (E2 : rva <=? rva + s = true) by (apply Z.leb_le; destruct Hs; lia). rewrite E2. cbn [andb].
  destruct (rva + s <=? len); cbn [andb]; [|reflexivity].
  rewrite IH; [|destruct Hs; lia]. destruct (mem64_ok len (rva + s) (map snd t)); reflexivity.
Qed.

Lemma sum_nonneg sizes : Forall (fun s => 0 <= s) sizes -> 0 <= fold_right Z.add 0 sizes.
Proof. induction 1; cbn [fold_right]; lia. Qed.

(* in plain arithmetic: the regions fit iff the last one ends inside the file (an empty list reads nothing) *)
Lemma mem64_ok_iff len sizes : len < two64 -> Forall (fun s => 0 <= s) sizes -> forall rva, 0 <= rva ->
  (mem64_ok len rva sizes = true <-> sizes = [] \/ rva + fold_right Z.add 0 sizes <= len).
Proof.
  intros Hlen. induction 1 as [|s t Hs Ht IH]; intros rva Hr; cbn [mem64_ok fold_right].
  - split; [intros _; left; reflexivity|reflexivity].
  - pose proof (sum_nonneg t Ht) as Hsum. unfold checked_add. rewrite <- two64_val.
    destruct (rva + s <? two64) eqn:E.
    + rewrite andb_true_iff, Z.leb_le, (IH (rva + s)); [|lia]. split.
      * intros [A [->|B]]; right; cbn [fold_right]; lia.
      * intros [C|C]; [discriminate|]. split; [lia|]. destruct t; [left; reflexivity|right; lia].
    + apply Z.ltb_ge in E. split; [discriminate|]. intros [C|C]; [discriminate|lia].
Qed.

Lemma memory64_read_end_to_end p len rva descs : u64_ents descs -> 0 <= rva -> len < two64 ->
  (g_mem64_read p len rva descs = Ret None /\ descs <> [] /\ len < rva + fold_right Z.add 0 (map snd descs)) \/
  (exists t, g_mem64_read p len rva descs = Ret (Some t) /\
     (descs = [] \/ rva + fold_right Z.add 0 (map snd descs) <= len) /\
     StronglySorted (fun a b => snd (fst a) < fst (fst b)) t /\
     (forall x i, rm_get t x = Some i -> 0 <= i /\ exists b s, nth_error descs (Z.to_nat i) = Some (b, s) /\
                                    s <> 0 /\ b + s < two64 /\ b <= x < b + s) /\
     (forall e1 b s e2 x, descs = e1 ++ (b, s) :: e2 -> s <> 0 -> b + s < two64 -> b <= x < b + s ->
         (forall b' s', In (b', s') (e1 ++ e2) -> s' = 0 \/ two64 <= b' + s' \/ b' + s' <= b \/ b + s <= b') ->
         rm_get t x = Some (Z.of_nat (length e1)))).
Proof.
  intros H Hr Hlen. unfold g_mem64_read. rewrite (g_mem64_regions_eq len descs H rva Hr).
  assert (Hnn : Forall (fun s => 0 <= s) (map snd descs)).
  { apply Forall_map. eapply Forall_impl; [|exact H]. intros a [_ [A _]]. exact A. }
  pose proof (mem64_ok_iff len (map snd descs) Hlen Hnn rva Hr) as Hiff.
  destruct (mem64_ok len rva (map snd descs)) eqn:E.
  - right. destruct (size_based_end_to_end g_mr_MinidumpMemoryBase (or_intror (or_introl eq_refl)) p descs H) as (t & Ht & Hs & _ & Hl & Hi).
    exists t. rewrite Ht. cbn [obind]. split; [reflexivity|]. split.
    + destruct (proj1 Hiff eq_refl) as [C|C]; [left; destruct descs; [reflexivity|discriminate]|right; exact C].
    + split; [exact Hs|]. split; [exact Hl|exact Hi].
  - left. split; [reflexivity|]. split.
    + intros ->. cbn in E. discriminate.
    + destruct (Z_lt_le_dec len (rva + fold_right Z.add 0 (map snd descs))) as [L|G]; [exact L|].
      exfalso. assert (F : false = true) by (apply Hiff; right; exact G). discriminate F.
Qed.

(* the driver's kinds 10 / 11 are these models *)
Lemma run_case_11_err ents qs :
  o_err (run_case 11 ents qs) = negb (mem64_ok ALL_LEN MEM64_BASE_RVA (map (fun e => snd (fst e)) ents)).
Proof.
  unfold run_case. cbn [Z.eqb Pos.eqb].
  replace (map (fun e : Z * Z * Z => let '(_, s, _) := e in s) ents) with (map (fun e : Z * Z * Z => snd (fst e)) ents).
  2:{ apply map_ext. intros [[b s] v]. reflexivity. }
  destruct (mem64_ok _ _ _); [|reflexivity]. unfold pack. destruct (build_indexed _); reflexivity.
Qed.
