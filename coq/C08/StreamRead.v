(* C08/StreamRead.v — lists read from stream bytes whose reader does more than hand the entries to the builder:
   MinidumpUnloadedModuleList::read (one raw module without a valid range makes the whole read return Err; the
   guard is GENERATED from the source: g_unloaded_read_bad), then from_modules over the generated memory_range(). *)
From Coq Require Import Lia Sorting.Sorted.
From RM Require Import C08.Model C08.Proofs C08.WinModel C08.WinProofs C08.Driver Gen.C08Tables C08.Tie C08.EndToEnd.
Open Scope Z_scope.

(* the `for raw in raw_modules` loop: true = `return Err(Error::ModuleReadFailure)` at the first bad module *)
Fixpoint g_unloaded_read_loop (p : profile) (ents : list (Z * Z)) : outcome bool :=
  match ents with
  | [] => Ret false
  | e :: t => do bad <- g_unloaded_read_bad p (fst e) (snd e);
              if bad then Ret true else g_unloaded_read_loop p t
  end.
(* None = Err for the whole stream; Some t = Ok(from_modules(modules)) *)
Definition g_unloaded_read (p : profile) (ents : list (Z * Z)) : outcome (option (list (range * Z))) :=
  do err <- g_unloaded_read_loop p ents;
  if err then Ret None else do t <- g_unloaded_table p ents; Ret (Some t).

(* the hand-written model the correspondence run uses (Driver.run_case kind 9) *)
Definition unloaded_read (ents : list (Z * Z)) : option (list (range * Z)) :=
  if forallb (fun e => module_read_keep (fst e) (snd e)) ents
  then Some (unloaded_build (map (fun e => mk_range (fst e) (snd e)) ents)) else None.

Lemma g_unloaded_read_bad_eq p b s : u64 b -> u64 s ->
  g_unloaded_read_bad p b s = Ret (negb (module_read_keep b s)).
Proof. intros Hb Hs. exact (proj1 (g_module_read_drop_eq p b s Hb Hs)). Qed.

Lemma keep_iff b s : u64 b -> u64 s -> (module_read_keep b s = true <-> s <> 0 /\ b + s < two64).
Proof.
  intros Hb Hs. rewrite (proj2 (g_module_read_drop_eq Debug b s Hb Hs)). split.
  - intros [r Hr]. apply mk_range_shape in Hr. tauto.
  - intros [H0 H1]. exists (b, b + s - 1). apply mk_range_some; [destruct Hs; lia|exact H1].
Qed.

Lemma g_unloaded_read_loop_eq p ents : u64_ents ents ->
  g_unloaded_read_loop p ents = Ret (negb (forallb (fun e => module_read_keep (fst e) (snd e)) ents)).
Proof.
  induction 1 as [|e t [Hb Hs] Ht IH]; cbn [g_unloaded_read_loop forallb]; [reflexivity|].
  rewrite (g_unloaded_read_bad_eq p _ _ Hb Hs). cbn [obind].
  destruct (module_read_keep (fst e) (snd e)); cbn [negb andb]; [exact IH|reflexivity].
Qed.

Lemma g_unloaded_read_eq p ents : u64_ents ents -> g_unloaded_read p ents = Ret (unloaded_read ents).
Proof.
  intros H. unfold g_unloaded_read, unloaded_read. rewrite (g_unloaded_read_loop_eq p ents H). cbn [obind].
  destruct (forallb _ ents); cbn [negb]; [|reflexivity].
  unfold g_unloaded_table.
  rewrite (omap_pure _ (fun e => mk_range (fst e) (snd e)) (fun e => u64 (fst e) /\ u64 (snd e)));
    [reflexivity|intros a [Ha Hb]; apply g_mr_MinidumpUnloadedModule_eq; assumption|exact H].
Qed.

(* end to end, in plain arithmetic on the raw fields *)
Lemma unloaded_read_end_to_end p ents : u64_ents ents ->
  (g_unloaded_read p ents = Ret None /\ exists b s, In (b, s) ents /\ (s = 0 \/ two64 <= b + s)) \/
  (exists t, g_unloaded_read p ents = Ret (Some t) /\
     (forall b s, In (b, s) ents -> s <> 0 /\ b + s < two64) /\
     StronglySorted (fun a b => range_lt (fst b) (fst a) = false) t /\
     forall x i, In i (unloaded_at t x) <->
       0 <= i /\ exists b s, nth_error ents (Z.to_nat i) = Some (b, s) /\ b <= x < b + s).
Proof.
  intros H. destruct (forallb (fun e => module_read_keep (fst e) (snd e)) ents) eqn:E.
  - right. destruct (unloaded_end_to_end p ents H) as [t [Ht [Hs Hx]]]. exists t.
    assert (Hall : forall b s, In (b, s) ents -> s <> 0 /\ b + s < two64).
    { intros b s Hin. rewrite forallb_forall in E. specialize (E (b, s) Hin). cbn [fst snd] in E.
      unfold u64_ents in H. rewrite Forall_forall in H. destruct (H (b, s) Hin) as [Hb Hs']. cbn [fst snd] in Hb, Hs'.
      apply (keep_iff b s Hb Hs'). exact E. }
    split.
    { unfold g_unloaded_read. rewrite (g_unloaded_read_loop_eq p ents H), E. cbn [negb obind]. rewrite Ht. reflexivity. }
    split; [exact Hall|]. split; [exact Hs|].
    intros x i. rewrite Hx. split.
    + intros [H0 [b [s [Hn [_ [_ Hb]]]]]]. split; [exact H0|]. exists b, s. split; assumption.
    + intros [H0 [b [s [Hn Hb]]]]. split; [exact H0|]. exists b, s. split; [exact Hn|].
      destruct (Hall b s (nth_error_In _ _ Hn)) as [A B]. repeat split; try assumption; apply Hb.
  - left. split.
    { unfold g_unloaded_read. rewrite (g_unloaded_read_loop_eq p ents H), E. reflexivity. }
    assert (Hex : exists e, In e ents /\ module_read_keep (fst e) (snd e) = false).
    { clear H. induction ents as [|e t IH]; cbn [forallb] in E; [discriminate|].
      destruct (module_read_keep (fst e) (snd e)) eqn:K.
      - cbn [andb] in E. destruct (IH E) as [e' [Hin Hk]]. exists e'. split; [right; exact Hin|exact Hk].
      - exists e. split; [left; reflexivity|exact K]. }
    destruct Hex as [[b s] [Hin Hk]]. cbn [fst snd] in Hk. exists b, s. split; [exact Hin|].
    unfold u64_ents in H. rewrite Forall_forall in H. destruct (H (b, s) Hin) as [Hb Hs]. cbn [fst snd] in Hb, Hs.
    destruct (Z.eq_dec s 0) as [Z0|N0]; [left; exact Z0|right].
    destruct (Z_lt_le_dec (b + s) two64) as [L|G]; [|exact G].
    exfalso. assert (K : module_read_keep b s = true) by (apply keep_iff; auto). congruence.
Qed.

(* the driver's kind 9 is this model *)
Lemma run_case_9 ents qs :
  o_err (run_case 9 ents qs) = match unloaded_read (map (fun e => (fst (fst e), snd (fst e))) ents) with None => true | Some _ => false end.
Proof.
  unfold run_case, unloaded_read. cbn [Z.eqb Pos.eqb].
  replace (forallb (fun e => module_read_keep (fst e) (snd e)) (map (fun e => (fst (fst e), snd (fst e))) ents))
    with (forallb (fun e : Z * Z * Z => let '(b, s, _) := e in module_read_keep b s) ents).
  2:{ induction ents as [|[[b s] v] t IH]; cbn [map forallb fst snd]; [reflexivity|]. rewrite IH. reflexivity. }
  destruct (forallb _ ents); reflexivity.
Qed.
