(* C08/SymText.v — the range tables of a symbol file, from its TEXT.
   C09/Grammar.v models SymbolFile::parse byte for byte: the line recognisers ([recog_pst]: FUNC / line records /
   STACK CFI INIT / STACK WIN ...), and SymbolParser::finish ([finish]), which builds the tables with C08's builders
   ([build], [build_p]) and insert_win_stack_info ([win_insert]).  C09 proves that the parse of ANY byte string ends
   with Ok or Err and that finish never panics.  This file composes that with the C08 table theorems:
   for every byte string, every way the reader may chunk it — if the parse is Ok, then in the finished symbol table
     * the FUNC, STACK CFI INIT, STACK WIN frame-data and FPO tables and the line table of every function are sorted
       and non-overlapping;
     * a lookup in any of them returns a record that was written on a line of the text (for STACK WIN: possibly
       shortened by the overlap repair) and whose own address range — address <= x < address + size, no overflow —
       contains the queried address.
   No well-formedness hypothesis is left: the bounds of the numeric fields come from the digit limits of the
   recognisers (C09.ProofsFinish.pst_wf), the provenance of the records from an invariant of the line loop ([prov]). *)
From Coq Require Import Lia ZArith List Bool Sorting.Sorted.
From RM Require Import Base.Word C08.Model C08.Proofs C11.Model C09.Model C09.Grammar C09.Driver C09.Proofs
                       C09.ProofsBytes C09.ProofsFinish C09.ProofsFinal.
Import ListNotations.
Open Scope Z_scope.

(* ------------------------------------------------------------------ == on the table values is Leibniz equality *)
Lemma st_list_eqb_eq {A} (eqb : A -> A -> bool) :
  (forall a b, eqb a b = true <-> a = b) -> forall a b, C11.Model.list_eqb eqb a b = true <-> a = b.
Proof.
  intros H a. induction a as [|x a IH]; intros [|y b]; cbn [C11.Model.list_eqb]; try (split; congruence).
  rewrite andb_true_iff, H, IH. split; [intros [-> ->]; reflexivity|intros E; inversion E; auto].
Qed.
Lemma st_rle_eqb_eq a : forall b, rle_eqb a b = true <-> a = b.
Proof.
  induction a as [|[x c] a IH]; intros [|[y d] b]; cbn [rle_eqb]; try (split; congruence).
  rewrite !andb_true_iff, !Z.eqb_eq, IH. split; [intros [[-> ->] ->]; reflexivity|intros E; inversion E; auto].
Qed.
Lemma st_line_eqb_eq a b : line_eqb a b = true <-> a = b.
Proof.
  destruct a as [a1 a2 a3 a4], b as [b1 b2 b3 b4]; unfold line_eqb; cbn [l_addr l_size l_file l_line].
  rewrite !andb_true_iff, !Z.eqb_eq.
  split; [intros [[[-> ->] ->] ->]; reflexivity|intros E; inversion E; auto].
Qed.
Lemma st_inl_eqb_eq a b : inl_eqb a b = true <-> a = b.
Proof.
  destruct a as [a1 a2 a3 a4 a5 a6], b as [b1 b2 b3 b4 b5 b6]; unfold inl_eqb; cbn [i_depth i_addr i_size i_cfile i_cline i_origin].
  rewrite !andb_true_iff, !Z.eqb_eq.
  split; [intros [[[[[-> ->] ->] ->] ->] ->]; reflexivity|intros E; inversion E; tauto].
Qed.
Lemma st_rline_eqb_eq a b : rline_eqb a b = true <-> a = b.
Proof.
  destruct a as [[r1 r2] l], b as [[q1 q2] l']; unfold rline_eqb, range_eqb; cbn [fst snd].
  rewrite !andb_true_iff, !Z.eqb_eq, st_line_eqb_eq.
  split; [intros [[-> ->] ->]; reflexivity|intros E; inversion E; auto].
Qed.
Lemma st_rule_eqb_eq a b : rule_eqb a b = true <-> a = b.
Proof.
  destruct a as [a1 a2], b as [b1 b2]; unfold rule_eqb; cbn [cr_addr cr_rules].
  rewrite andb_true_iff, Z.eqb_eq, st_rle_eqb_eq. split; [intros [-> ->]; reflexivity|intros E; inversion E; auto].
Qed.
Lemma st_scfi_eqb_eq a b : scfi_eqb a b = true <-> a = b.
Proof.
  destruct a as [a1 a2 a3], b as [b1 b2 b3]; unfold scfi_eqb; cbn [sc_init sc_size sc_add].
  rewrite !andb_true_iff, Z.eqb_eq, st_rule_eqb_eq, (st_list_eqb_eq _ st_rule_eqb_eq).
  split; [intros [[-> ->] ->]; reflexivity|intros E; inversion E; auto].
Qed.
Lemma st_sfunc_eqb_eq a b : sfunc_eqb a b = true <-> a = b.
Proof.
  destruct a as [a1 a2 a3 a4 a5 a6], b as [b1 b2 b3 b4 b5 b6]; unfold sfunc_eqb;
    cbn [sf_addr sf_size sf_psize sf_name sf_lines sf_inls].
  rewrite !andb_true_iff, !Z.eqb_eq, st_rle_eqb_eq, (st_list_eqb_eq _ st_rline_eqb_eq), (st_list_eqb_eq _ st_inl_eqb_eq).
  split; [intros [[[[[-> ->] ->] ->] ->] ->]; reflexivity|intros E; inversion E; tauto].
Qed.
Lemma st_thing_eqb_eq a b : thing_eqb a b = true <-> a = b.
Proof.
  destruct a as [x|x], b as [y|y]; cbn [thing_eqb]; try (split; congruence).
  - rewrite st_rle_eqb_eq. split; congruence.
  - rewrite Bool.eqb_true_iff. split; congruence.
Qed.
Lemma st_wi_eqb_eq a b : wi_eqb a b = true <-> a = b.
Proof.
  destruct a as [a1 a2 a3 a4 a5 a6 a7 a8 a9], b as [b1 b2 b3 b4 b5 b6 b7 b8 b9]; unfold wi_eqb;
    cbn [wi_addr wi_size wi_prolog wi_epilog wi_params wi_saved wi_locals wi_maxstack wi_thing].
  rewrite !andb_true_iff, !Z.eqb_eq, st_thing_eqb_eq.
  split; [intros [[[[[[[[-> ->] ->] ->] ->] ->] ->] ->] ->]; reflexivity|intros E; inversion E; tauto].
Qed.

(* ------------------------------------------------------------------ ranges in plain arithmetic *)
Lemma st_mk_range_arith b s r x : mk_range b s = Some r -> contains r x = true ->
  s <> 0 /\ b + s < two64 /\ b <= x < b + s.
Proof.
  unfold mk_range, checked_add, contains. destruct (s =? 0) eqn:E0; [discriminate|].
  destruct (b + s <? 2 ^ 64) eqn:E1; [|discriminate]. intros H; inversion H; subst; cbn [fst snd]. intros C.
  apply andb_prop in C. destruct C as [C1 C2]. apply Z.eqb_neq in E0. apply Z.ltb_lt in E1. apply Z.leb_le in C1, C2.
  rewrite two64_val. lia.
Qed.
Lemma st_mk_range_line_arith b s r x : mk_range_line b s = Some r -> contains r x = true ->
  b + s - 1 < two64 /\ b <= x <= b + s - 1.
Proof.
  unfold mk_range_line, checked_add, contains. destruct (b + (s - 1) <? 2 ^ 64) eqn:E1; [|discriminate].
  intros H; inversion H; subst; cbn [fst snd]. intros C.
  apply andb_prop in C. destruct C as [C1 C2]. apply Z.ltb_lt in E1. apply Z.leb_le in C1, C2. rewrite two64_val. lia.
Qed.

Definition sorted_table {V} (t : list (range * V)) : Prop :=
  StronglySorted (fun a b => snd (fst a) < fst (fst b)) t /\ wf_ranges t.

(* the parser-local builder on a well-formed vector: the unwrap is not reached, sorted, lookups sound *)
Lemma st_build_p {V} (eqb : V -> V -> bool) (l t : list (range * V)) :
  (forall a b, eqb a b = true <-> a = b) -> wf_ranges l -> build_p eqb l = Ret t ->
  sorted_table t /\ forall x v, rm_get t x = Some v -> exists r, In (r, v) l /\ contains r x = true.
Proof.
  intros He Hw Hb. rewrite (build_total_p eqb l Hw) in Hb. inversion Hb; subst t. split.
  - exact (sorted_disjoint_p eqb l Hw).
  - intros x v Hg. exact (lookup_sound_p eqb He l x v Hw Hg).
Qed.

(* ------------------------------------------------------------------ FUNC items and their line tables *)
Lemma st_finish_func fr r f : fr_wf fr -> finish_func fr = Ret (Some (r, f)) ->
  mk_range (Grammar.fr_addr fr) (Grammar.fr_size fr) = Some r /\
  sf_addr f = Grammar.fr_addr fr /\ sf_size f = Grammar.fr_size fr /\ sf_psize f = Grammar.fr_psize fr /\
  sf_name f = Grammar.fr_name fr /\
  sorted_table (sf_lines f) /\
  forall x l, rm_get (sf_lines f) x = Some l ->
    In l (Grammar.fr_lines fr) /\ 0 < l_size l /\ l_addr l + l_size l - 1 < two64 /\ l_addr l <= x <= l_addr l + l_size l - 1.
Proof.
  intros (A & B & C) H. unfold finish_func in H.
  assert (Hw : wf_entries (line_entries (rev (Grammar.fr_lines fr)))) by (apply line_entries_wf; apply Forall_rev; exact C).
  rewrite (build_total line_eqb _ Hw) in H. cbn [obind] in H.
  destruct (mk_range (Grammar.fr_addr fr) (Grammar.fr_size fr)) as [r0|] eqn:E; inversion H; subst r0 f; clear H.
  cbn [sf_addr sf_size sf_psize sf_name sf_lines]. repeat (split; [reflexivity|]). split.
  - exact (sorted_disjoint line_eqb _ Hw).
  - intros x l Hg. destruct (lookup_sound line_eqb st_line_eqb_eq _ x l Hw Hg) as [rl [Hin Hc]].
    unfold line_entries in Hin. apply in_map_iff in Hin. destruct Hin as [l0 [Hl0 Hf]]. inversion Hl0; subst l0.
    apply filter_In in Hf. destruct Hf as [Hin Hs]. apply in_rev in Hin. apply Z.ltb_lt in Hs.
    split; [exact Hin|]. split; [exact Hs|]. exact (st_mk_range_line_arith _ _ _ _ H0 Hc).
Qed.

Lemma st_finish_funcs l fl : finish_funcs l = Ret fl ->
  forall e, In e fl -> exists fr, In fr l /\ finish_func fr = Ret (Some e).
Proof.
  revert fl. induction l as [|fr t IH]; intros fl H e Hin; cbn [finish_funcs] in H.
  - inversion H; subst. destruct Hin.
  - destruct (finish_func fr) as [x| | |] eqn:E1; cbn [obind] in H; try discriminate.
    destruct (finish_funcs t) as [rest| | |] eqn:E2; cbn [obind] in H; try discriminate.
    inversion H; subst fl; clear H. destruct x as [e0|].
    + destruct Hin as [<-|Hin]; [exists fr; split; [left; reflexivity|exact E1]|].
      destruct (IH rest eq_refl e Hin) as [fr' [A B]]. exists fr'. split; [right; exact A|exact B].
    + destruct (IH rest eq_refl e Hin) as [fr' [A B]]. exists fr'. split; [right; exact A|exact B].
Qed.

Lemma st_keep_somes_in {A} (l : list (option A)) a : In a (keep_somes l) <-> In (Some a) l.
Proof.
  induction l as [|[x|] t IH]; cbn [keep_somes]; [tauto| |].
  - cbn [In]. rewrite IH. split; [intros [->|H]; auto|intros [H|H]; [inversion H; auto|auto]].
  - cbn [In]. rewrite IH. split; [auto|intros [H|H]; [discriminate|exact H]].
Qed.

(* ------------------------------------------------------------------ STACK WIN: insert_win_stack_info keeps every
   vector element a record of the file, possibly shortened, filed under its own range *)
Definition wderived (l : list win_info) (e : range * win_info) : Prop :=
  wi_range (snd e) = Some (fst e) /\ wi_wf (snd e) /\
  exists w0, In w0 l /\ wi_range w0 <> None /\
             snd e = wi_set_size w0 (wi_size (snd e)) /\ 0 < wi_size (snd e) <= wi_size w0.

Lemma st_set_size_id w : w = wi_set_size w (wi_size w).
Proof. destruct w; reflexivity. Qed.

Lemma st_wderived_new l w mr : In w l -> wi_wf w -> wi_range w = Some mr -> wderived l (mr, w).
Proof.
  intros Hin Hw Hr. split; [exact Hr|]. split; [exact Hw|]. exists w. cbn [snd]. split; [exact Hin|].
  split; [congruence|]. split; [apply st_set_size_id|]. unfold wi_range, mk_range in Hr. destruct Hw as [_ [W1 _]].
  destruct (wi_size w =? 0) eqn:E0; [discriminate|]. apply Z.eqb_neq in E0. lia.
Qed.

Lemma st_win_insert l acc w acc' : Forall (wderived l) acc -> In w l -> wi_wf w ->
  win_insert acc w = Ret acc' -> Forall (wderived l) acc'.
Proof.
  intros Hacc Hin Hw H. unfold win_insert in H.
  destruct (wi_range w) as [mr|] eqn:Em; [|inversion H; subst; exact Hacc].
  pose proof (st_wderived_new l w mr Hin Hw Em) as Hnew.
  destruct acc as [|[lr lw] rest]; [inversion H; subst; constructor; [exact Hnew|constructor]|].
  destruct (intersects lr mr) eqn:Ei; [|inversion H; subst; constructor; assumption].
  destruct (wi_addr w >? wi_addr lw) eqn:Eg.
  2:{ destruct (negb (range_eqb lr mr)); inversion H; subst; [exact Hacc|constructor; assumption]. }
  inversion Hacc as [|? ? Hhd Htl]; subst. destruct Hhd as (Hl & Hlw & w0 & Hw0 & Hrg0 & Hset & Hsz). cbn [fst snd] in *.
  assert (Hd : 0 < wi_addr w - wi_addr lw < wi_size lw /\ wi_addr w < two64).
  { unfold wi_range, mk_range, checked_add in Hl, Em. rewrite <- two64_val in Hl, Em.
    destruct (wi_size lw =? 0); [discriminate|].
    destruct (wi_addr lw + wi_size lw <? two64) eqn:E1; [|discriminate].
    destruct (wi_size w =? 0) eqn:E0; [discriminate|].
    destruct (wi_addr w + wi_size w <? two64) eqn:E2; [|discriminate].
    inversion Hl; subst lr. inversion Em; subst mr.
    unfold intersects in Ei. cbn [fst snd] in Ei. apply andb_true_iff in Ei. destruct Ei as [I1 I2].
    destruct Hw as [W1 W2]. apply Z.gtb_lt in Eg. apply Z.leb_le in I1, I2. apply Z.ltb_lt in E1, E2. lia. }
  destruct Hlw as [L1 L2].
  assert (Hwr : wrap32 (wi_addr w - wi_addr lw) = wi_addr w - wi_addr lw).
  { unfold wrap32, two32. apply Z.mod_small. lia. }
  rewrite Hwr in H.
  destruct (wi_range (wi_set_size lw (wi_addr w - wi_addr lw))) as [lr'|] eqn:El'; [|discriminate].
  inversion H; subst acc'; clear H. constructor; [exact Hnew|]. constructor; [|exact Htl].
  split; [exact El'|]. cbn [fst snd]. split.
  - unfold wi_wf, wi_set_size; cbn [wi_addr wi_size]. lia.
  - exists w0. split; [exact Hw0|]. split; [exact Hrg0|]. split.
    + rewrite Hset at 1. unfold wi_set_size; cbn [wi_addr wi_size wi_prolog wi_epilog wi_params wi_saved wi_locals wi_maxstack wi_thing].
      reflexivity.
    + unfold wi_set_size; cbn [wi_size]. lia.
Qed.

Lemma st_win_collect l ws : forall acc r, Forall (wderived l) acc -> incl ws l -> Forall wi_wf ws ->
  win_collect acc ws = Ret r -> Forall (wderived l) r.
Proof.
  induction ws as [|w t IH]; intros acc r Hacc Hincl Hwf H; cbn [win_collect] in H.
  - inversion H; subst. apply Forall_rev. exact Hacc.
  - destruct (win_insert acc w) as [acc'| | |] eqn:E; cbn [obind] in H; try discriminate.
    inversion Hwf; subst. eapply IH; [|intros a Ha; apply Hincl; right; exact Ha|assumption|exact H].
    eapply st_win_insert; [exact Hacc|apply Hincl; left; reflexivity|assumption|exact E].
Qed.

Lemma st_wderived_wf l v : Forall (wderived l) v -> wf_ranges v.
Proof.
  intros H. unfold wf_ranges. eapply Forall_impl; [|exact H]. intros [r w] (Hr & [W1 [W2 _]] & _). cbn [fst snd] in *.
  unfold wi_range in Hr. exact (mk_range_wf _ _ _ W1 W2 Hr).
Qed.

(* one STACK WIN table *)
Definition win_lookup_ok (recs : list win_info) (t : list (range * win_info)) : Prop :=
  sorted_table t /\
  forall x w, rm_get t x = Some w ->
    exists w0, In w0 recs /\ w = wi_set_size w0 (wi_size w) /\ 0 < wi_size w <= wi_size w0 /\
               wi_addr w + wi_size w < two64 /\ wi_addr w <= x < wi_addr w + wi_size w.

Lemma st_win_table recs v t : Forall wi_wf recs -> win_collect [] (rev recs) = Ret v -> build_p wi_eqb v = Ret t ->
  win_lookup_ok recs t.
Proof.
  intros Hwf Hc Hb.
  assert (Hd : Forall (wderived recs) v).
  { eapply st_win_collect; [constructor| |apply Forall_rev; exact Hwf|exact Hc]. intros a Ha. apply in_rev. exact Ha. }
  destruct (st_build_p wi_eqb v t st_wi_eqb_eq (st_wderived_wf _ _ Hd) Hb) as [Hs Hl]. split; [exact Hs|].
  intros x w Hg. destruct (Hl x w Hg) as [r [Hin Hcx]]. rewrite Forall_forall in Hd.
  destruct (Hd _ Hin) as (Hr & _ & w0 & Hw0 & _ & Hset & Hsz). cbn [fst snd] in *.
  exists w0. split; [exact Hw0|]. split; [exact Hset|]. split; [exact Hsz|].
  unfold wi_range in Hr. destruct (st_mk_range_arith _ _ _ _ Hr Hcx) as (_ & A & B). split; assumption.
Qed.

(* ------------------------------------------------------------------ SymbolParser::finish on a well-formed state *)
Definition func_lookup_ok (frs : list Grammar.func_raw) (t : list (range * sfunc)) : Prop :=
  sorted_table t /\
  (forall r f, In (r, f) t -> sorted_table (sf_lines f)) /\
  forall x f, rm_get t x = Some f ->
    exists fr, In fr frs /\
      sf_addr f = Grammar.fr_addr fr /\ sf_size f = Grammar.fr_size fr /\ sf_psize f = Grammar.fr_psize fr /\
      sf_name f = Grammar.fr_name fr /\
      sf_size f <> 0 /\ sf_addr f + sf_size f < two64 /\ sf_addr f <= x < sf_addr f + sf_size f /\
      sorted_table (sf_lines f) /\
      forall y l, rm_get (sf_lines f) y = Some l ->
        In l (Grammar.fr_lines fr) /\ 0 < l_size l /\ l_addr l + l_size l - 1 < two64 /\
        l_addr l <= y <= l_addr l + l_size l - 1.

Definition cfi_lookup_ok (cs : list cfi_raw) (t : list (range * scfi)) : Prop :=
  sorted_table t /\
  forall x c, rm_get t x = Some c ->
    exists c0, In c0 cs /\ sc_init c = ci_init c0 /\ sc_size c = ci_size c0 /\
      sc_size c <> 0 /\ cr_addr (sc_init c) + sc_size c < two64 /\
      cr_addr (sc_init c) <= x < cr_addr (sc_init c) + sc_size c.

Lemma st_finish p0 t : pst_wf p0 -> finish p0 = Ret t ->
  let p := close_cur p0 in
  func_lookup_ok (p_funcs p) (t_funcs t) /\ cfi_lookup_ok (p_cfis p) (t_cfi t) /\
  win_lookup_ok (p_win_fd p) (t_win_fd t) /\ win_lookup_ok (p_win_fpo p) (t_win_fpo t).
Proof.
  intros Hwf0 H. cbv zeta. unfold finish in H. cbv zeta in H.
  destruct (close_cur_wf p0 Hwf0) as [Hwf _]. set (p := close_cur p0) in *.
  destruct Hwf as (_ & Hf & Hc & Hfd & Hfpo).
  destruct (finish_funcs (rev (p_funcs p))) as [fl| | |] eqn:E1; cbn [obind] in H; try discriminate.
  destruct (build_p sfunc_eqb fl) as [funcs| | |] eqn:E2; cbn [obind] in H; try discriminate.
  destruct (build_p scfi_eqb (keep_somes (map finish_cfi (rev (p_cfis p))))) as [cfis| | |] eqn:E3; cbn [obind] in H; try discriminate.
  destruct (win_collect [] (rev (p_win_fd p))) as [wfd| | |] eqn:E4; cbn [obind] in H; try discriminate.
  destruct (build_p wi_eqb wfd) as [tfd| | |] eqn:E5; cbn [obind] in H; try discriminate.
  destruct (win_collect [] (rev (p_win_fpo p))) as [wfpo| | |] eqn:E6; cbn [obind] in H; try discriminate.
  destruct (build_p wi_eqb wfpo) as [tfpo| | |] eqn:E7; cbn [obind] in H; try discriminate.
  inversion H; subst t; clear H. cbn [t_funcs t_cfi t_win_fd t_win_fpo].
  split; [|split; [|split; [exact (st_win_table _ _ _ Hfd E4 E5)|exact (st_win_table _ _ _ Hfpo E6 E7)]]].
  - (* FUNC *)
    assert (Hfl : forall e, In e fl -> exists fr, In fr (p_funcs p) /\ fr_wf fr /\ finish_func fr = Ret (Some e)).
    { intros e He. destruct (st_finish_funcs _ _ E1 e He) as [fr [A B]]. apply in_rev in A.
      exists fr. split; [exact A|]. split; [|exact B]. rewrite Forall_forall in Hf. exact (Hf fr A). }
    assert (Hwfl : wf_ranges fl).
    { unfold wf_ranges. rewrite Forall_forall. intros [r f] He. destruct (Hfl _ He) as [fr [_ [W B]]].
      destruct (st_finish_func fr r f W B) as [Hr _]. destruct W as (A1 & A2 & _). cbn [fst]. exact (mk_range_wf _ _ _ A1 A2 Hr). }
    destruct (st_build_p sfunc_eqb fl funcs st_sfunc_eqb_eq Hwfl E2) as [Hs Hl].
    assert (Hval : forall r f, In (r, f) funcs -> exists r', In (r', f) fl).
    { intros r f Hin. rewrite (build_total_p sfunc_eqb fl Hwfl) in E2. inversion E2; subst funcs.
      pose proof (sorted_disjoint_p sfunc_eqb fl Hwfl) as [_ Hw]. unfold wf_ranges in Hw. rewrite Forall_forall in Hw.
      pose proof (Hw _ Hin) as Hr. cbn [fst] in Hr.
      assert (Hg : rm_get (into_rangemap_safe_p sfunc_eqb fl) (fst r) = Some f).
      { destruct (sorted_disjoint_p sfunc_eqb fl Hwfl) as [S1 S2].
        apply (rm_get_complete _ (fst r) r f S1 S2 Hin).
        unfold contains. destruct Hr as [R1 [R2 R3]]. apply andb_true_intro. split; apply Z.leb_le; lia. }
      destruct (lookup_sound_p sfunc_eqb st_sfunc_eqb_eq fl (fst r) f Hwfl Hg) as [r' [A _]]. exists r'. exact A. }
    split; [exact Hs|]. split.
    + intros r f Hin. destruct (Hval r f Hin) as [r' Hin']. destruct (Hfl _ Hin') as [fr [_ [W B]]].
      destruct (st_finish_func fr r' f W B) as (_ & _ & _ & _ & _ & S & _). exact S.
    + intros x f Hg. destruct (Hl x f Hg) as [r [Hin Hcx]]. destruct (Hfl _ Hin) as [fr [A [W B]]].
      destruct (st_finish_func fr r f W B) as (Hr & F1 & F2 & F3 & F4 & S & L).
      exists fr. split; [exact A|]. split; [exact F1|]. split; [exact F2|]. split; [exact F3|]. split; [exact F4|].
      rewrite F1, F2. destruct (st_mk_range_arith _ _ _ _ Hr Hcx) as (N & O & C).
      split; [exact N|]. split; [exact O|]. split; [exact C|]. split; [exact S|exact L].
  - (* STACK CFI INIT *)
    assert (Hcl : forall r c, In (r, c) (keep_somes (map finish_cfi (rev (p_cfis p)))) ->
                  exists c0, In c0 (p_cfis p) /\ mk_range (cr_addr (ci_init c0)) (ci_size c0) = Some r /\
                             sc_init c = ci_init c0 /\ sc_size c = ci_size c0).
    { intros r c Hin. apply st_keep_somes_in in Hin. apply in_map_iff in Hin. destruct Hin as [c0 [Hfc Hin]].
      apply in_rev in Hin. exists c0. split; [exact Hin|]. unfold finish_cfi in Hfc.
      destruct (mk_range (cr_addr (ci_init c0)) (ci_size c0)) as [r0|]; [|discriminate]. inversion Hfc; subst.
      cbn [sc_init sc_size]. auto. }
    assert (Hw : wf_ranges (keep_somes (map finish_cfi (rev (p_cfis p))))) by (apply finish_cfis_wf; apply Forall_rev; exact Hc).
    destruct (st_build_p scfi_eqb _ cfis st_scfi_eqb_eq Hw E3) as [Hs Hl]. split; [exact Hs|].
    intros x c Hg. destruct (Hl x c Hg) as [r [Hin Hcx]]. destruct (Hcl r c Hin) as [c0 [A [Hr [I1 I2]]]].
    exists c0. split; [exact A|]. split; [exact I1|]. split; [exact I2|]. rewrite I1, I2.
    exact (st_mk_range_arith _ _ _ _ Hr Hcx).
Qed.

(* ------------------------------------------------------------------ provenance: every record the parser holds was
   recognised on a line of the text *)
Section Prov.
Variable ls : list rle.

Definition func_from (fr : Grammar.func_raw) : Prop :=
  (exists s f0, In s ls /\ line_top s = Some (IFunc f0) /\
     Grammar.fr_addr fr = Grammar.fr_addr f0 /\ Grammar.fr_size fr = Grammar.fr_size f0 /\
     Grammar.fr_psize fr = Grammar.fr_psize f0 /\ Grammar.fr_name fr = Grammar.fr_name f0) /\
  Forall (fun l => exists s, In s ls /\ sub_func s = Some (SLine l)) (Grammar.fr_lines fr).
Definition cfi_from (c : cfi_raw) : Prop :=
  exists s c0, In s ls /\ line_top s = Some (ICfiInit c0) /\ ci_init c = ci_init c0 /\ ci_size c = ci_size c0.
Definition fd_from (i : win_info) : Prop := exists s, In s ls /\ line_top s = Some (IWin (FrameData i)).
Definition fpo_from (i : win_info) : Prop := exists s, In s ls /\ line_top s = Some (IWin (Fpo i)).

Definition prov (p : pst) : Prop :=
  match p_cur p with CFunc f => func_from f | CCfi c => cfi_from c | CNone => True end /\
  Forall func_from (p_funcs p) /\ Forall cfi_from (p_cfis p) /\
  Forall fd_from (p_win_fd p) /\ Forall fpo_from (p_win_fpo p).

Lemma prov_init : prov init_pst.
Proof. unfold prov, init_pst; cbn. auto. Qed.

Lemma prov_bump p : prov p -> prov (bump_pst p).
Proof. unfold prov, bump_pst, set_lines_cur; cbn. auto. Qed.

Lemma prov_close p : prov p -> prov (close_cur p).
Proof.
  unfold prov, close_cur. intros (Hc & Hf & Hci & Hfd & Hfpo).
  destruct (p_cur p) as [|f|c] eqn:E; [rewrite E; auto| |]; cbn; auto.
Qed.

Lemma prov_top p s p' : In s ls -> prov p -> top p s = inl p' -> prov p'.
Proof.
  unfold prov, top. intros Hin (_ & Hf & Hci & Hfd & Hfpo) H.
  destruct (eol s).
  { inversion H; subst; cbn; auto. }
  destruct (line_top s) as [it|] eqn:E; [|discriminate].
  pose proof (line_top_wf s it E) as Hwf.
  destruct it as [id f|u| |id nm|id nm|pb|f|w|c]; cbn in Hwf.
  - destruct (p_lines p =? 0); [|discriminate]. inversion H; subst; cbn; auto.
  - inversion H; subst; cbn; auto.
  - inversion H; subst; cbn; auto.
  - inversion H; subst; cbn; auto.
  - inversion H; subst; cbn; auto.
  - inversion H; subst; cbn; auto.
  - inversion H; subst; cbn. split; [|auto]. split.
    + exists s, f. auto 10.
    + destruct Hwf as [_ Hl]. rewrite Hl. constructor.
  - destruct w as [i|i|]; inversion H; subst; cbn; repeat split; auto; constructor; auto; exists s; auto.
  - inversion H; subst; cbn. split; [|auto]. exists s, c. auto.
Qed.

Lemma prov_recog p s p' : In s ls -> prov p -> recog_pst p s = inl p' -> prov p'.
Proof.
  intros Hin Hp H. unfold recog_pst in H.
  destruct (p_cur p) as [|f|c] eqn:Ec.
  - eapply prov_top; eauto.
  - destruct (sub_func s) as [[id nm|l|l]|] eqn:Es.
    + inversion H; subst. destruct Hp as (Hc & Hf & Hci & Hfd & Hfpo). rewrite Ec in Hc. unfold prov; cbn. auto.
    + inversion H; subst. destruct Hp as (Hc & Hf & Hci & Hfd & Hfpo). rewrite Ec in Hc. unfold prov; cbn.
      split; [|auto]. destruct Hc as [A B]. split; [exact A|exact B].
    + inversion H; subst. destruct Hp as (Hc & Hf & Hci & Hfd & Hfpo). rewrite Ec in Hc. unfold prov; cbn.
      split; [|auto]. destruct Hc as [A B]. split; [exact A|]. cbn. constructor; [|exact B]. exists s. auto.
    + eapply prov_top; [exact Hin| |exact H]. apply prov_close. exact Hp.
  - destruct (sub_cfi s) as [r|].
    + inversion H; subst. destruct Hp as (Hc & Hf & Hci & Hfd & Hfpo). rewrite Ec in Hc. unfold prov; cbn.
      split; [|auto]. exact Hc.
    + eapply prov_top; [exact Hin| |exact H]. apply prov_close. exact Hp.
Qed.

Lemma prov_replay : forall (ds : list (bool * rle)) p p',
  incl (map snd ds) ls -> prov p ->
  replay rle pst recog_pst bump_pst lineno_pst p ds = inl p' -> prov p'.
Proof.
  induction ds as [|[b l] t IH]; intros p p' Hi Hp H.
  - cbn in H. inversion H; subst. exact Hp.
  - cbn [replay] in H. cbn [map snd] in Hi. destruct b.
    + eapply IH; [|apply prov_bump; exact Hp|exact H]. intros a Ha. apply Hi. right. exact Ha.
    + destruct (recog_pst p l) as [p1|c] eqn:E; [|discriminate].
      eapply IH; [| |exact H]; [intros a Ha; apply Hi; right; exact Ha|].
      eapply prov_recog; [apply Hi; left; reflexivity|exact Hp|exact E].
Qed.
End Prov.

(* the parser state an Ok parse ends in *)
Lemma st_final_prov lines tail sch p s :
  drive_c lines tail sch = Ret (ROk p, s) -> pst_wf p /\ prov lines p.
Proof.
  intros H. destruct (final_pst_wf lines tail sch (ROk p) s H) as [W _].
  unfold drive_c in H.
  destruct (drive_shape rle cllen pst init_pst recog_pst bump_pst lineno_pst cllen_pos lines tail sch (ROk p) s H)
    as [ds [_ [Hl [Hr [Hp _]]]]]. subst p. split; [exact W|].
  eapply prov_replay; [|apply prov_init|exact Hr]. rewrite Hl. intros a Ha. apply in_or_app. left. exact Ha.
Qed.

(* ------------------------------------------------------------------ the theorem: from the text to the lookups *)
(* a FUNC / STACK CFI INIT / STACK WIN line of the text, with the fields the recogniser read from it *)
Definition func_line (lines : list rle) (a sz psz : Z) (nm : rle) : Prop :=
  exists s f0, In s lines /\ line_top s = Some (IFunc f0) /\
    Grammar.fr_addr f0 = a /\ Grammar.fr_size f0 = sz /\ Grammar.fr_psize f0 = psz /\ Grammar.fr_name f0 = nm.
Definition line_line (lines : list rle) (l : line_rec) : Prop :=
  exists s, In s lines /\ sub_func s = Some (SLine l).
Definition cfi_line (lines : list rle) (init : cfi_rule) (sz : Z) : Prop :=
  exists s c0, In s lines /\ line_top s = Some (ICfiInit c0) /\ ci_init c0 = init /\ ci_size c0 = sz.
Definition win_line (fd : bool) (lines : list rle) (w0 : win_info) : Prop :=
  exists s, In s lines /\ line_top s = Some (IWin (if fd then FrameData w0 else Fpo w0)).

Definition win_table_sound (fd : bool) (lines : list rle) (t : list (range * win_info)) : Prop :=
  sorted_table t /\
  forall x w, rm_get t x = Some w ->
    exists w0, win_line fd lines w0 /\ w = wi_set_size w0 (wi_size w) /\ 0 < wi_size w <= wi_size w0 /\
               wi_addr w + wi_size w < two64 /\ wi_addr w <= x < wi_addr w + wi_size w.

Definition tables_sound (lines : list rle) (t : table) : Prop :=
  (* FUNC table and the line table of every function in it *)
  (sorted_table (t_funcs t) /\
   (forall r f, In (r, f) (t_funcs t) -> sorted_table (sf_lines f)) /\
   forall x f, rm_get (t_funcs t) x = Some f ->
     func_line lines (sf_addr f) (sf_size f) (sf_psize f) (sf_name f) /\
     sf_size f <> 0 /\ sf_addr f + sf_size f < two64 /\ sf_addr f <= x < sf_addr f + sf_size f /\
     forall y l, rm_get (sf_lines f) y = Some l ->
       line_line lines l /\ 0 < l_size l /\ l_addr l + l_size l - 1 < two64 /\ l_addr l <= y <= l_addr l + l_size l - 1) /\
  (* STACK CFI INIT table *)
  (sorted_table (t_cfi t) /\
   forall x c, rm_get (t_cfi t) x = Some c ->
     cfi_line lines (sc_init c) (sc_size c) /\
     sc_size c <> 0 /\ cr_addr (sc_init c) + sc_size c < two64 /\
     cr_addr (sc_init c) <= x < cr_addr (sc_init c) + sc_size c) /\
  (* STACK WIN tables *)
  win_table_sound true lines (t_win_fd t) /\ win_table_sound false lines (t_win_fpo t).

Lemma st_tables_sound lines p t : pst_wf p -> prov lines p -> finish p = Ret t -> tables_sound lines t.
Proof.
  intros W P H. pose proof (prov_close lines p P) as Pc.
  destruct (st_finish p t W H) as ((F1 & F2 & F3) & (C1 & C2) & (D1 & D2) & (O1 & O2)).
  destruct Pc as (_ & Pf & Pci & Pfd & Pfpo). rewrite Forall_forall in Pf, Pci, Pfd, Pfpo.
  split; [|split; [|split]].
  - split; [exact F1|]. split; [exact F2|]. intros x f Hg.
    destruct (F3 x f Hg) as (fr & Hin & A1 & A2 & A3 & A4 & N & O & C & _ & L).
    destruct (Pf fr Hin) as [(s & f0 & Hs & Ht & B1 & B2 & B3 & B4) Hl].
    split; [exists s, f0; repeat split; congruence|]. split; [exact N|]. split; [exact O|]. split; [exact C|].
    intros y l Hy. destruct (L y l Hy) as (Li & L1 & L2 & L3). split; [|auto].
    rewrite Forall_forall in Hl. exact (Hl l Li).
  - split; [exact C1|]. intros x c Hg. destruct (C2 x c Hg) as (c0 & Hin & I1 & I2 & N & O & C).
    destruct (Pci c0 Hin) as (s & c1 & Hs & Ht & B1 & B2). split; [exists s, c1; repeat split; congruence|auto].
  - split; [exact D1|]. intros x w Hg. destruct (D2 x w Hg) as (w0 & Hin & R). exists w0. split; [|exact R].
    destruct (Pfd w0 Hin) as (s & Hs & Ht). exists s. auto.
  - split; [exact O1|]. intros x w Hg. destruct (O2 x w Hg) as (w0 & Hin & R). exists w0. split; [|exact R].
    destruct (Pfpo w0 Hin) as (s & Hs & Ht). exists s. auto.
Qed.

(* for every (lines, rest) input and every reader schedule *)
Lemma text_tables_sound lines tail sch p s :
  drive_c lines tail sch = Ret (ROk p, s) ->
  exists t, table_of (ROk p) = Ret (Some t) /\ tables_sound lines t.
Proof.
  intros H. destruct (st_final_prov lines tail sch p s H) as [W P].
  destruct (finish_total p W) as [t Ht]. exists t. split; [cbn [table_of]; rewrite Ht; reflexivity|].
  exact (st_tables_sound lines p t W P Ht).
Qed.

(* ... and for every byte string: its lines are the '\n'-terminated pieces of the bytes *)
Lemma text_tables_sound_bytes (bytes : list Z) (sch : list Z) p s :
  let lines := map to_rle (fst (split_bytes bytes [])) in
  drive_c lines (Z.of_nat (length (snd (split_bytes bytes [])))) sch = Ret (ROk p, s) ->
  join_bytes (fst (split_bytes bytes [])) (snd (split_bytes bytes [])) = bytes /\
  exists t, table_of (ROk p) = Ret (Some t) /\ tables_sound lines t.
Proof. cbv zeta. intros H. split; [apply split_join_id|]. exact (text_tables_sound _ _ sch p s H). Qed.
