(* C08/Driver.v — entry point used by the correspondence check (extracted to OCaml). *)
From RM Require Import C08.Model C08.WinModel.
Open Scope Z_scope.

Definition triple_eqb (a b : Z * Z * Z) : bool :=
  let '(a1, a2, a3) := a in let '(b1, b2, b3) := b in
  (a1 =? b1) && (a2 =? b2) && (a3 =? b3).

(* line records: address.checked_add(size - 1), zero-size lines filtered earlier *)
Definition mk_range_line (base size : Z) : option range :=
  match checked_add 64 base (size - 1) with
  | Some e => Some (base, e)
  | None => None
  end.

(* MinidumpModuleList::read: a raw module with a zero size, or one that would reach past the address space, is
   dropped before MinidumpModule::read; the rest go to from_modules in stream order *)
Definition module_read_keep (base size : Z) : bool := negb ((size =? 0) || (size >? U64MAX - base)).

(* o_err: the reader returned Err for the whole stream (kind 9 only) *)
(* memory lists read from stream bytes (harness kinds 21 / 22).  The harness hands the readers a file image `all` of
   ALL_LEN bytes; kind 21 (MinidumpMemoryList::read): the rva of entry i is 0 when its tag is 0, else 1 + i, and
   MinidumpMemory::read accepts a descriptor iff rva <> 0, data_size <> 0 and rva .. rva + data_size lies inside `all`
   (location_slice) — the others are skipped, from_regions runs over the kept ones; kind 22 (MinidumpMemory64List::read):
   the regions are laid out back to back from MEM64_BASE_RVA, one region running past `all` (or an overflowing sum)
   fails the whole read *)
Definition ALL_LEN : Z := 80.
Definition MEM64_BASE_RVA : Z := 16.
Definition mem_rva (i v : Z) : Z := if v =? 0 then 0 else 1 + i.
Definition memory_read_keep (len rva size : Z) : bool :=
  negb ((rva =? 0) || (size =? 0)) && (rva + size <=? len).
Fixpoint mem64_ok (len rva : Z) (sizes : list Z) : bool :=
  match sizes with
  | [] => true
  | s :: t => match checked_add 64 rva s with
              | None => false
              | Some e => (e <=? len) && mem64_ok len e t
              end
  end.

Record c08_out := { o_panic : bool; o_err : bool; o_table : list (Z * Z * Z); o_gets : list (list Z) }.

Definition pack {V} (tag : V -> Z) (qs : list Z) (r : outcome (list (range * V))) : c08_out :=
  match r with
  | Ret t => {| o_panic := false; o_err := false;
                o_table := map (fun e => (fst (fst e), snd (fst e), tag (snd e))) t;
                o_gets := map (fun x => match rm_get t x with Some v => [tag v] | None => [] end) qs |}
  | _ => {| o_panic := true; o_err := false; o_table := []; o_gets := [] |}
  end.

Definition third (t : Z * Z * Z) : Z := snd t.

(* kind 0: generic trait, V = u32, ranges by memory_range()
   kind 1: index-valued builder (modules / memory regions / memory info)
   kind 2: index-valued builder over Linux maps (lo, hi) pairs
   kind 3: unloaded modules (sorted vec + filter)
   kind 4: symbol-file records (FUNC, STACK CFI INIT): value carries (addr,size,tag)
   kind 5: line records of one FUNC: value carries (addr,size,tag), zero sizes filtered
   kind 8: MinidumpModuleList::read (the read-time filter, then the index-valued builder)
   kind 9: MinidumpUnloadedModuleList::read: one raw module with a zero size or reaching past the address space makes
           the whole read return Err (o_err); otherwise the unloaded table over all entries (kind 3)
   kind 10: MinidumpMemoryList::read (descriptors the region reader rejects are skipped; tags = positions in the stream)
   kind 11: MinidumpMemory64List::read (o_err when a region runs past the file image; else kind 1)
   kind 12: MinidumpLinuxMaps::read on a text whose address fields are written in the forms from_str_radix accepts (tag 0:
           lower-case hex, tag 1: '+', upper case, leading zeros) or do not fit a u64 (tag 2: 17 hex digits): the third-party
           line parser fails on the latter and the whole read is Err (o_err); otherwise kind 2
   kind 7: STACK WIN records of one type (frame data or FPO), file order: insert_win_stack_info for each, then the
           parser-local builder; a table entry / lookup answer is the record as stored: [tag; address; size] *)
Definition run_win (p : profile) (ents : list (Z * Z * Z)) (qs : list Z) : c08_out :=
  match win_table p (map (fun e => let '(b, s, v) := e in mkW b s v) ents) with
  | Ret t => {| o_panic := false; o_err := false;
                o_table := map (fun e => (fst (fst e), snd (fst e), wt (snd e))) t;
                o_gets := map (fun x => match rm_get t x with
                                        | Some w => [wt w; wa w; ws w]
                                        | None => [] end) qs |}
  | _ => {| o_panic := true; o_err := false; o_table := []; o_gets := [] |}
  end.

Definition run_case (kind : Z) (ents : list (Z * Z * Z)) (qs : list Z) : c08_out :=
  if kind =? 0 then
    pack (fun v => v) qs (build Z.eqb (map (fun e => let '(b, s, v) := e in (mk_range b s, v)) ents))
  else if kind =? 1 then
    pack (fun v => v) qs (build_indexed (map (fun e => let '(b, s, _) := e in mk_range b s) ents))
  else if kind =? 2 then
    pack (fun v => v) qs (build_indexed (map (fun e => let '(b, s, _) := e in mk_range_maps b s) ents))
  else if kind =? 3 then
    let t := unloaded_build (map (fun e => let '(b, s, _) := e in mk_range b s) ents) in
    {| o_panic := false; o_err := false;
       o_table := map (fun e => (fst (fst e), snd (fst e), snd e)) t;
       o_gets := map (fun x => unloaded_at t x) qs |}
  else if kind =? 9 then
    if forallb (fun e => let '(b, s, _) := e in module_read_keep b s) ents then
      let t := unloaded_build (map (fun e => let '(b, s, _) := e in mk_range b s) ents) in
      {| o_panic := false; o_err := false;
         o_table := map (fun e => (fst (fst e), snd (fst e), snd e)) t;
         o_gets := map (fun x => unloaded_at t x) qs |}
    else {| o_panic := false; o_err := true; o_table := []; o_gets := [] |}
  else if kind =? 10 then
    pack (fun v => v) qs (build Z.eqb
      (map (fun ei => let '((b, s, _), i) := ei in (mk_range b s, i))
           (filter (fun ei => let '((b, s, v), i) := ei in memory_read_keep ALL_LEN (mem_rva i v) s) (enumerate_from 0 ents))))
  else if kind =? 11 then
    if mem64_ok ALL_LEN MEM64_BASE_RVA (map (fun e => let '(b, s, _) := e in s) ents) then
      pack (fun v => v) qs (build_indexed (map (fun e => let '(b, s, _) := e in mk_range b s) ents))
    else {| o_panic := false; o_err := true; o_table := []; o_gets := [] |}
  else if kind =? 12 then
    if existsb (fun e => let '(_, _, v) := e in v =? 2) ents
    then {| o_panic := false; o_err := true; o_table := []; o_gets := [] |}
    else pack (fun v => v) qs (build_indexed (map (fun e => let '(b, s, _) := e in mk_range_maps b s) ents))
  else if kind =? 4 then
    pack third qs (build_p triple_eqb
      (drop_none (map (fun e => let '(b, s, v) := e in (mk_range b s, e)) ents)))
  else if kind =? 7 then run_win Debug ents qs
  else if kind =? 8 then
    (* module list read from a stream: the tag of an entry is its position in the stream (it rides in the checksum) *)
    pack (fun v => v) qs (build Z.eqb
      (map (fun ei => let '((b, s, _), i) := ei in (mk_range b s, i))
           (filter (fun ei => let '((b, s, _), i) := ei in module_read_keep b s) (enumerate_from 0 ents))))
  else
    pack third qs (build triple_eqb
      (map (fun e => let '(b, s, v) := e in (mk_range_line b s, e))
           (filter (fun e => let '(b, s, v) := e in 0 <? s) ents))).
