(* C08/IndexProofs.v — the index-valued tables (MinidumpModuleList, MinidumpMemoryList(64), MinidumpMemoryInfoList,
   MinidumpLinuxMaps: `(entry.memory_range(), index)` pairs): what a lookup / by_addr step indexes the stored vector
   with is in bounds, and the table range of an index is that entry's own range (indices are distinct, so the merge
   branch of the loop is never taken). *)
From Coq Require Import Lia Sorting.Sorted Sorting.Permutation.
From RM Require Import C08.Model C08.Proofs.
Open Scope Z_scope.

Lemma enumerate_from_in {A} (l : list A) : forall k a i,
  In (a, i) (enumerate_from k l) -> k <= i /\ nth_error l (Z.to_nat (i - k)) = Some a.
Proof.
  induction l as [|h t IH]; intros k a i H; cbn [enumerate_from In] in H; [contradiction|].
  destruct H as [H|H].
  - inversion H; subst. split; [lia|]. rewrite Z.sub_diag. reflexivity.
  - apply IH in H. destruct H as [H1 H2]. split; [lia|].
    replace (Z.to_nat (i - k)) with (S (Z.to_nat (i - (k + 1)))) by lia. exact H2.
Qed.

Lemma enumerate_from_nodup {A} (l : list A) : forall k, NoDup (map snd (enumerate_from k l)).
Proof.
  induction l as [|h t IH]; intros k; cbn [enumerate_from map snd]; constructor; [|apply IH].
  intros Hin. apply in_map_iff in Hin. destruct Hin as [[a i] [E Hin]]. cbn [snd] in E. subst i.
  apply enumerate_from_in in Hin. lia.
Qed.

Section Distinct.
Context {V : Type} (eqb : V -> V -> bool).
Hypothesis eqb_eq : forall a b, eqb a b = true <-> a = b.

(* with pairwise distinct values an iteration of the loop either drops the new entry or pushes it unchanged *)
Lemma merge_step_nodup (acc : list (range * V)) rv t :
  NoDup (map snd acc ++ snd rv :: t) -> merge_step eqb acc rv = acc \/ merge_step eqb acc rv = rv :: acc.
Proof.
  intros H. unfold merge_step. destruct acc as [|[lr lv] acc']; [right; reflexivity|]. destruct rv as [r v].
  destruct ((fst r <=? snd lr) && negb (eqb v lv)); [left; reflexivity|].
  destruct ((fst r <=? sat_add 64 (snd lr) 1) && eqb v lv) eqn:E; [|right; reflexivity].
  exfalso. apply andb_prop in E. destruct E as [_ E]. apply eqb_eq in E. subst v.
  cbn [map snd app] in H. inversion H as [|? ? Hn _]; subst. apply Hn. apply in_or_app. right. left. reflexivity.
Qed.

Lemma fold_merge_incl (l : list (range * V)) : forall acc,
  NoDup (map snd acc ++ map snd l) -> incl (fold_left (merge_step eqb) l acc) (acc ++ l).
Proof.
  induction l as [|rv t IH]; intros acc H; cbn [fold_left].
  - rewrite app_nil_r. apply incl_refl.
  - cbn [map] in H. destruct (merge_step_nodup acc rv (map snd t) H) as [E|E]; rewrite E.
    + assert (H' : NoDup (map snd acc ++ map snd t)) by (eapply NoDup_remove_1; exact H).
      intros e He. apply (IH acc H') in He. apply in_app_or in He. apply in_or_app.
      destruct He as [He|He]; [left; exact He|right; right; exact He].
    + assert (H' : NoDup (map snd (rv :: acc) ++ map snd t)).
      { cbn [map app]. eapply Permutation_NoDup; [|exact H]. symmetry. apply Permutation_middle. }
      intros e He. apply (IH (rv :: acc) H') in He. cbn [app] in He. apply in_or_app.
      destruct He as [He|He]; [right; left; exact He|]. apply in_app_or in He.
      destruct He as [He|He]; [left; exact He|right; right; exact He].
Qed.

Lemma merge_sorted_incl (l : list (range * V)) : NoDup (map snd l) -> incl (merge_sorted eqb l) l.
Proof.
  intros H e He. unfold merge_sorted in He. apply in_rev in He.
  apply (fold_merge_incl l [] H) in He. exact He.
Qed.

Lemma drop_none_nodup (l : list (option range * V)) : NoDup (map snd l) -> NoDup (map snd (drop_none l)).
Proof.
  induction l as [|[[r|] v] t IH]; cbn [drop_none map snd]; intros H; [constructor| |];
    inversion H as [|? ? Hn Ht]; subst; [|apply IH; exact Ht].
  constructor; [|apply IH; exact Ht]. intros Hin. apply Hn.
  apply in_map_iff in Hin. destruct Hin as [[r' v'] [E Hin]]. cbn [snd] in E. subst v'.
  apply drop_none_in in Hin. apply in_map_iff. exists (Some r', v). split; [reflexivity|exact Hin].
Qed.

(* with distinct values every table entry is an input entry, unchanged *)
Lemma table_incl_distinct (l : list (option range * V)) r v :
  NoDup (map snd l) -> In (r, v) (into_rangemap_safe eqb l) -> In (Some r, v) l.
Proof.
  intros Hnd Hin. unfold into_rangemap_safe in Hin.
  assert (Hs : NoDup (map snd (sort_stable okey_lt l))).
  { eapply Permutation_NoDup; [|exact Hnd]. apply Permutation_map. apply sort_perm. }
  apply (merge_sorted_incl _ (drop_none_nodup _ Hs)) in Hin. apply drop_none_in in Hin.
  eapply Permutation_in; [symmetry; apply sort_perm|exact Hin].
Qed.
End Distinct.

Definition wf_opt_ranges (ranges : list (option range)) : Prop :=
  Forall (fun o => match o with Some r => wf_range r | None => True end) ranges.

Lemma wf_enumerate ranges : forall k, wf_opt_ranges ranges -> wf_entries (enumerate_from k ranges).
Proof.
  induction ranges as [|o t IH]; intros k H; cbn [enumerate_from]; [constructor|].
  inversion H; subst. constructor; [cbn [fst]; assumption|apply IH; assumption].
Qed.

Lemma zeqb_eq a b : Z.eqb a b = true <-> a = b.
Proof. apply Z.eqb_eq. Qed.

(* by_addr: the index of every table entry is in bounds and the table range is that entry's own range *)
Lemma indexed_table_exact ranges r i :
  In (r, i) (into_rangemap_safe Z.eqb (enumerate_from 0 ranges)) ->
  0 <= i /\ nth_error ranges (Z.to_nat i) = Some (Some r).
Proof.
  intros H. apply (table_incl_distinct Z.eqb zeqb_eq) in H; [|apply enumerate_from_nodup].
  apply enumerate_from_in in H. rewrite Z.sub_0_r in H. exact H.
Qed.

(* *_at_address: the index a lookup returns is in bounds and that entry's own range contains the address *)
Lemma indexed_lookup_in_bounds ranges x i : wf_opt_ranges ranges ->
  rm_get (into_rangemap_safe Z.eqb (enumerate_from 0 ranges)) x = Some i ->
  exists r, 0 <= i /\ nth_error ranges (Z.to_nat i) = Some (Some r) /\ contains r x = true.
Proof.
  intros Hwf Hg.
  destruct (lookup_sound Z.eqb zeqb_eq (enumerate_from 0 ranges) x i (wf_enumerate ranges 0 Hwf) Hg) as [r [Hin Hc]].
  apply enumerate_from_in in Hin. rewrite Z.sub_0_r in Hin. exists r. tauto.
Qed.

(* an entry that intersects no other entry is found under its own index *)
Lemma indexed_isolated_complete (r1 : list (option range)) r r2 x : wf_opt_ranges (r1 ++ Some r :: r2) ->
  (forall r', In (Some r') (r1 ++ r2) -> intersects r r' = false) -> contains r x = true ->
  rm_get (into_rangemap_safe Z.eqb (enumerate_from 0 (r1 ++ Some r :: r2))) x = Some (Z.of_nat (length r1)).
Proof.
  intros Hwf Hiso Hc.
  assert (Hsplit : forall k (a : list (option range)) b,
            enumerate_from k (a ++ b) = enumerate_from k a ++ enumerate_from (k + Z.of_nat (length a)) b).
  { intros k a. revert k. induction a as [|h t IH]; intros k b; cbn [app enumerate_from length].
    - rewrite Z.add_0_r. reflexivity.
    - rewrite IH. replace (k + 1 + Z.of_nat (length t)) with (k + Z.of_nat (S (length t))) by lia. reflexivity. }
  pose proof (wf_enumerate _ 0 Hwf) as Hwe. revert Hwe. rewrite Hsplit. cbn [enumerate_from]. rewrite Z.add_0_l.
  intros Hwe. apply (isolated_complete Z.eqb zeqb_eq); [exact Hwe| |exact Hc].
  intros r' v' Hin. apply Hiso. apply in_app_or in Hin. apply in_or_app.
  destruct Hin as [Hin|Hin]; apply enumerate_from_in in Hin; destruct Hin as [_ Hin]; apply nth_error_In in Hin; auto.
Qed.
