(* C08/Tie.v — the definitions regenerated from the Rust source (Gen/C08Tables.v, translate/c08_tables.py) are equal
   to the hand-written model that the c08_* theorems are about.  An edit to a guard, operand, constant or operator of
   the source changes the generated definition and breaks one of these equalities. *)
From Coq Require Import Lia.
From RM Require Import C08.Model C08.Proofs C08.IndexProofs C08.WinModel C08.WinProofs C08.Driver Gen.C08Tables.
Open Scope Z_scope.

Definition u64 (x : Z) : Prop := 0 <= x < two64.

(* the seven size-based memory_range(): no panic in either profile (not the `- 1`, not Range::new's assertion) and the
   value is the model's mk_range *)
Lemma g_mr_size_generic (g : profile -> Z -> Z -> outcome (option range)) :
  (forall p base size, g p base size =
     if Z.eqb size 0 then Ret None
     else match checked_add 64 base size with
          | None => Ret None
          | Some t => do e <- chk_sub p 64 PANIC_G_MR_ARITH t 1; do r <- g_range_new base e; Ret (Some r)
          end) ->
  forall p base size, u64 base -> u64 size -> g p base size = Ret (mk_range base size).
Proof.
  intros Hg p base size [Hb1 Hb2] [Hs1 Hs2]. rewrite Hg. unfold mk_range, checked_add.
  destruct (size =? 0) eqn:E0; [reflexivity|]. apply Z.eqb_neq in E0.
  destruct (base + size <? 2 ^ 64) eqn:E1; [|reflexivity]. apply Z.ltb_lt in E1.
  unfold chk_sub, chk.
  assert (H : (0 <=? base + size - 1) && (base + size - 1 <? 2 ^ 64) = true).
  { apply andb_true_intro. split; [apply Z.leb_le|apply Z.ltb_lt]; lia. }
  rewrite H. cbn [obind]. unfold g_range_new.
  destruct (base >? base + size - 1) eqn:E2; [apply Z.gtb_lt in E2; lia|]. reflexivity.
Qed.

Lemma g_mr_Function_eq p b s : u64 b -> u64 s -> g_mr_Function p b s = Ret (mk_range b s).
Proof. apply (g_mr_size_generic g_mr_Function). reflexivity. Qed.
Lemma g_mr_StackInfoCfi_eq p b s : u64 b -> u64 s -> g_mr_StackInfoCfi p b s = Ret (mk_range b s).
Proof. apply (g_mr_size_generic g_mr_StackInfoCfi). reflexivity. Qed.
Lemma g_mr_StackInfoWin_eq p b s : u64 b -> u64 s -> g_mr_StackInfoWin p b s = Ret (mk_range b s).
Proof. apply (g_mr_size_generic g_mr_StackInfoWin). reflexivity. Qed.
Lemma g_mr_MinidumpModule_eq p b s : u64 b -> u64 s -> g_mr_MinidumpModule p b s = Ret (mk_range b s).
Proof. apply (g_mr_size_generic g_mr_MinidumpModule). reflexivity. Qed.
Lemma g_mr_MinidumpUnloadedModule_eq p b s : u64 b -> u64 s -> g_mr_MinidumpUnloadedModule p b s = Ret (mk_range b s).
Proof. apply (g_mr_size_generic g_mr_MinidumpUnloadedModule). reflexivity. Qed.
Lemma g_mr_MinidumpMemoryBase_eq p b s : u64 b -> u64 s -> g_mr_MinidumpMemoryBase p b s = Ret (mk_range b s).
Proof. apply (g_mr_size_generic g_mr_MinidumpMemoryBase). reflexivity. Qed.
Lemma g_mr_MinidumpMemoryInfo_eq p b s : u64 b -> u64 s -> g_mr_MinidumpMemoryInfo p b s = Ret (mk_range b s).
Proof. apply (g_mr_size_generic g_mr_MinidumpMemoryInfo). reflexivity. Qed.

Lemma g_mr_all_eq p b s : u64 b -> u64 s ->
  g_mr_Function p b s = Ret (mk_range b s) /\ g_mr_StackInfoCfi p b s = Ret (mk_range b s) /\
  g_mr_StackInfoWin p b s = Ret (mk_range b s) /\ g_mr_MinidumpModule p b s = Ret (mk_range b s) /\
  g_mr_MinidumpUnloadedModule p b s = Ret (mk_range b s) /\ g_mr_MinidumpMemoryBase p b s = Ret (mk_range b s) /\
  g_mr_MinidumpMemoryInfo p b s = Ret (mk_range b s).
Proof.
  intros Hb Hs. repeat split;
  [apply g_mr_Function_eq|apply g_mr_StackInfoCfi_eq|apply g_mr_StackInfoWin_eq|apply g_mr_MinidumpModule_eq
  |apply g_mr_MinidumpUnloadedModule_eq|apply g_mr_MinidumpMemoryBase_eq|apply g_mr_MinidumpMemoryInfo_eq]; assumption.
Qed.

Lemma g_mr_maps_eq lo hi : g_mr_MinidumpLinuxMapInfo lo hi = Ret (mk_range_maps lo hi).
Proof.
  unfold g_mr_MinidumpLinuxMapInfo, mk_range_maps, g_range_new. destruct (lo >? hi); reflexivity.
Qed.

(* line records of a FUNC: zero-size lines are filtered first, so `size as u64 - 1` cannot trap *)
Lemma g_mr_line_eq p b s : u64 b -> u64 s -> g_line_keep s = true -> g_mr_line p b s = Ret (mk_range_line b s).
Proof.
  intros [Hb1 Hb2] [Hs1 Hs2] Hk. unfold g_line_keep in Hk. apply Z.gtb_lt in Hk.
  unfold g_mr_line, mk_range_line, chk_sub, chk, checked_add.
  assert (H : (0 <=? s - 1) && (s - 1 <? 2 ^ 64) = true).
  { apply andb_true_intro. split; [apply Z.leb_le|apply Z.ltb_lt]; rewrite <- ?two64_val; lia. }
  rewrite H. cbn [obind]. destruct (b + (s - 1) <? 2 ^ 64); [|reflexivity].
  unfold g_range_new. destruct (b >? b + (s - 1)) eqn:E2; [apply Z.gtb_lt in E2; lia|]. reflexivity.
Qed.
Lemma g_line_keep_eq s : g_line_keep s = (0 <? s).
Proof. unfold g_line_keep. rewrite Z.gtb_ltb. reflexivity. Qed.

(* the two copies of the merge loop *)
Lemma g_merge_step_traits_eq {V} (eqb : V -> V -> bool) acc rv : g_merge_step_traits eqb acc rv = merge_step eqb acc rv.
Proof. reflexivity. Qed.
Lemma g_merge_step_parser_eq {V} (eqb : V -> V -> bool) acc rv : g_merge_step_parser eqb acc rv = merge_step eqb acc rv.
Proof. reflexivity. Qed.

Lemma fold_left_ext {A B} (f g : A -> B -> A) : (forall a b, f a b = g a b) ->
  forall l a, fold_left f l a = fold_left g l a.
Proof. intros H l. induction l as [|x t IH]; intros a; cbn [fold_left]; [reflexivity|]. rewrite H. apply IH. Qed.

Lemma g_build_traits_eq {V} (eqb : V -> V -> bool) l : g_build_traits eqb l = build eqb l.
Proof.
  unfold g_build_traits, build, into_rangemap_safe, merge_sorted.
  rewrite (fold_left_ext _ _ (g_merge_step_traits_eq eqb)). reflexivity.
Qed.
Lemma g_build_parser_eq {V} (eqb : V -> V -> bool) l : g_build_parser eqb l = build_p eqb l.
Proof.
  unfold g_build_parser, build_p, into_rangemap_safe_p, merge_sorted.
  rewrite (fold_left_ext _ _ (g_merge_step_parser_eq eqb)). reflexivity.
Qed.
Lemma g_build_indexed_eq ranges : g_build_indexed ranges = build_indexed ranges.
Proof. unfold g_build_indexed, build_indexed. apply g_build_traits_eq. Qed.

(* insert_win_stack_info *)
Lemma g_insert_win_eq p acc w : g_insert_win p acc w = insert_win p acc w.
Proof. reflexivity. Qed.

(* ---- the property theorems, for the generated builders ---- *)
Lemma g_build_traits_total {V} (eqb : V -> V -> bool) (l : list (option range * V)) :
  wf_entries l -> g_build_traits eqb l = Ret (into_rangemap_safe eqb l).
Proof. intros H. rewrite g_build_traits_eq. apply build_total. exact H. Qed.
Lemma g_build_parser_total {V} (eqb : V -> V -> bool) (l : list (range * V)) :
  wf_ranges l -> g_build_parser eqb l = Ret (into_rangemap_safe_p eqb l).
Proof. intros H. rewrite g_build_parser_eq. apply build_total_p. exact H. Qed.

(* the generated STACK WIN pipeline: g_insert_win for every record, then the generated parser-local builder *)
Fixpoint g_insert_all (p : profile) (l : list winrec) (acc : list (range * winrec)) : outcome (list (range * winrec)) :=
  match l with
  | [] => Ret acc
  | w :: r => do acc' <- g_insert_win p acc w; g_insert_all p r acc'
  end.
Definition g_win_table (p : profile) (l : list winrec) : outcome (list (range * winrec)) :=
  do acc <- g_insert_all p l []; g_build_parser win_eqb (rev acc).
Lemma g_win_table_eq p l : g_win_table p l = win_table p l.
Proof.
  unfold g_win_table, win_table.
  assert (H : forall l' acc, g_insert_all p l' acc = insert_all p l' acc).
  { intros l'. induction l' as [|w t IH]; intros acc; cbn [g_insert_all insert_all]; [reflexivity|].
    rewrite g_insert_win_eq. destruct (insert_win p acc w); cbn [obind]; auto. }
  rewrite H. destruct (insert_all p l []); cbn [obind]; reflexivity.
Qed.

(* ---- bundles stated in C08/Properties.v ---- *)
Lemma g_line_all p b s : u64 b -> u64 s ->
  g_line_keep s = (0 <? s) /\ (g_line_keep s = true -> g_mr_line p b s = Ret (mk_range_line b s)).
Proof. intros Hb Hs. split; [apply g_line_keep_eq|apply g_mr_line_eq; assumption]. Qed.

Lemma g_build_all (V : Type) (eqb : V -> V -> bool) :
  (forall l : list (option range * V), wf_entries l -> g_build_traits eqb l = Ret (into_rangemap_safe eqb l)) /\
  (forall l : list (range * V), wf_ranges l -> g_build_parser eqb l = Ret (into_rangemap_safe_p eqb l)) /\
  (forall acc rv, g_merge_step_traits eqb acc rv = merge_step eqb acc rv) /\
  (forall acc rv, g_merge_step_parser eqb acc rv = merge_step eqb acc rv).
Proof.
  split; [exact (g_build_traits_total eqb)|]. split; [exact (g_build_parser_total eqb)|].
  split; [exact (g_merge_step_traits_eq eqb)|exact (g_merge_step_parser_eq eqb)].
Qed.

Lemma g_builders_all :
  (forall ranges, g_build_indexed ranges = build_indexed ranges) /\
  (forall p acc w, g_insert_win p acc w = insert_win p acc w) /\
  (forall p l, g_win_table p l = win_table p l).
Proof. split; [exact g_build_indexed_eq|]. split; [exact g_insert_win_eq|exact g_win_table_eq]. Qed.

Lemma g_win_table_total p (l : list winrec) : wf_recs l -> exists t, g_win_table p l = Ret t.
Proof. intros H. rewrite g_win_table_eq. apply win_table_total. exact H. Qed.

(* the generated index-valued builder never fails and its table is the one the indexed_* lemmas are about *)
Lemma g_build_indexed_total ranges : wf_opt_ranges ranges ->
  g_build_indexed ranges = Ret (into_rangemap_safe Z.eqb (enumerate_from 0 ranges)).
Proof. intros H. unfold g_build_indexed. apply g_build_traits_total. apply wf_enumerate. exact H. Qed.

(* MinidumpModuleList::read: `u64::MAX - base` cannot trap, and a raw module is kept exactly when its memory_range()
   exists, so the read-time filter removes only entries the builder would have skipped anyway *)
Lemma g_module_read_drop_eq p b s : u64 b -> u64 s ->
  g_module_read_drop p b s = Ret (negb (module_read_keep b s)) /\
  (module_read_keep b s = true <-> exists r, mk_range b s = Some r).
Proof.
  intros [Hb1 Hb2] [Hs1 Hs2]. unfold g_module_read_drop, module_read_keep, chk_sub, chk, U64MAX. split.
  - destruct (s =? 0) eqn:E0; [reflexivity|].
    assert (H : (0 <=? 18446744073709551615 - b) && (18446744073709551615 - b <? 2 ^ 64) = true).
    { apply andb_true_intro. unfold two64 in *. split; [apply Z.leb_le|apply Z.ltb_lt]; lia. }
    rewrite H. cbn [obind orb]. rewrite negb_involutive. reflexivity.
  - unfold mk_range, checked_add. destruct (s =? 0) eqn:E0; cbn [orb negb].
    + split; [discriminate|]. intros [r Hr]. discriminate.
    + unfold two64 in *. destruct (s >? 18446744073709551615 - b) eqn:E1; cbn [negb].
      * apply Z.gtb_lt in E1. split; [discriminate|]. intros [r Hr].
        destruct (b + s <? 2 ^ 64) eqn:E2; [apply Z.ltb_lt in E2; lia|discriminate].
      * split; [|reflexivity]. intros _. rewrite Z.gtb_ltb in E1. apply Z.ltb_ge in E1.
        destruct (b + s <? 2 ^ 64) eqn:E2; [eauto|]. apply Z.ltb_ge in E2. lia.
Qed.

(* ---- the range-map crate (version of Cargo.lock), as generated from its source ---- *)
Lemma g_range_map_eq :
  (forall s e, g_range_new s e = if s >? e then Panic PANIC_G_RANGE_NEW else Ret (s, e)) /\
  (forall r x, g_contains r x = contains r x) /\
  (forall a b, g_intersects a b = intersects a b) /\
  (forall r x, g_range_cmp_pt r x = range_cmp_pt r x) /\
  (forall (V : Type) (eqb : V -> V -> bool) st rv, g_norm_step eqb st rv = norm_step eqb st rv).
Proof.
  split; [reflexivity|]. split; [reflexivity|]. split; [|split; reflexivity].
  intros a b. unfold g_intersects, intersects. rewrite Z.geb_leb. reflexivity.
Qed.
