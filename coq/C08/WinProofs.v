(* C08/WinProofs.v — lemmas about the STACK WIN table model (C08/WinModel.v). *)
From Coq Require Import Lia Sorting.Sorted Sorting.Permutation.
From RM Require Import C08.Model C08.Proofs C08.WinModel.
Open Scope Z_scope.

(* what the line parser can produce: a u64 address and a u32 size *)
Definition wf_rec (w : winrec) : Prop := 0 <= wa w < two64 /\ 0 <= ws w < two32.
Definition wf_recs (l : list winrec) : Prop := Forall wf_rec l.

Lemma win_eqb_eq a b : win_eqb a b = true <-> a = b.
Proof.
  unfold win_eqb. destruct a as [a1 a2 a3], b as [b1 b2 b3]; cbn [wa ws wt]. split.
  - intros H. apply andb_prop in H. destruct H as [H H3]. apply andb_prop in H. destruct H as [H1 H2].
    apply Z.eqb_eq in H1, H2, H3. subst. reflexivity.
  - intros H. inversion H; subst. rewrite !Z.eqb_refl. reflexivity.
Qed.

Lemma mk_range_some b s : 0 < s -> b + s < two64 -> mk_range b s = Some (b, b + s - 1).
Proof.
  intros Hs Hb. unfold mk_range, checked_add.
  destruct (s =? 0) eqn:E0; [apply Z.eqb_eq in E0; lia|].
  destruct (b + s <? 2 ^ 64) eqn:E1; [reflexivity|].
  apply Z.ltb_ge in E1. rewrite <- two64_val in E1.
  exfalso. lia.
Qed.

Lemma mk_range_inv b s r : mk_range b s = Some r -> 0 < s \/ s < 0.
Proof.
  unfold mk_range. destruct (s =? 0) eqn:E0; [discriminate|]. apply Z.eqb_neq in E0. lia.
Qed.

Lemma mk_range_shape b s r : mk_range b s = Some r -> r = (b, b + s - 1) /\ s <> 0 /\ b + s < two64.
Proof.
  unfold mk_range, checked_add. destruct (s =? 0) eqn:E0; [discriminate|].
  destruct (b + s <? 2 ^ 64) eqn:E1; [|discriminate].
  intros H; inversion H; subst. apply Z.eqb_neq in E0. apply Z.ltb_lt in E1. rewrite <- two64_val in E1. auto.
Qed.

(* An element of the vector is a record of the file, possibly shortened, filed under its own range. *)
Definition derived (l : list winrec) (e : range * winrec) : Prop :=
  exists w0, In w0 l /\ wa (snd e) = wa w0 /\ wt (snd e) = wt w0 /\
             0 < ws (snd e) <= ws w0 /\ wf_rec w0 /\ wa w0 + ws w0 < two64 /\
             fst e = (wa w0, wa w0 + ws (snd e) - 1).

Lemma derived_mono l l' e : (forall w, In w l -> In w l') -> derived l e -> derived l' e.
Proof. intros Hs [w0 [Hin H]]. exists w0. split; [auto|exact H]. Qed.

Lemma derived_range l e : derived l e -> win_range (snd e) = Some (fst e) /\ wf_range (fst e).
Proof.
  intros [w0 [_ [Ha [_ [Hs [[H0 H1] [Ht Hf]]]]]]]. unfold win_range. rewrite Ha, Hf. split.
  - apply mk_range_some; lia.
  - unfold wf_range; cbn [fst snd]. lia.
Qed.

Lemma derived_self w mr : wf_rec w -> win_range w = Some mr -> derived [w] (mr, w).
Proof.
  intros [Ha Hs] Hr. unfold win_range in Hr. apply mk_range_shape in Hr. destruct Hr as [Hr [Hn Hlt]].
  exists w. cbn [fst snd]. repeat split; try lia; try (left; reflexivity). exact Hr.
Qed.

(* one call of insert_win_stack_info: never panics (either build profile), keeps the invariant *)
Lemma insert_win_ok p l acc w :
  wf_rec w -> Forall (derived l) acc ->
  exists acc', insert_win p acc w = Ret acc' /\ Forall (derived (l ++ [w])) acc'.
Proof.
  intros Hw Hacc.
  assert (Hacc' : Forall (derived (l ++ [w])) acc).
  { eapply Forall_impl; [|exact Hacc]. intros e. apply derived_mono. intros; apply in_or_app; auto. }
  assert (Hself : forall mr, win_range w = Some mr -> derived (l ++ [w]) (mr, w)).
  { intros mr Hr. eapply derived_mono; [|apply derived_self; eassumption].
    intros x [Hx|[]]. subst. apply in_or_app. right. left. reflexivity. }
  unfold insert_win. destruct (win_range w) as [mr|] eqn:Emr; [|eauto].
  specialize (Hself mr eq_refl).
  destruct acc as [|[lr lw] rest]; [eexists; split; [reflexivity|repeat constructor; assumption]|].
  destruct (intersects lr mr) eqn:Ei; [|eexists; split; [reflexivity|constructor; assumption]].
  destruct (wa w >? wa lw) eqn:Eg.
  2:{ destruct (negb (range_eqb lr mr)); eexists; (split; [reflexivity|]); [assumption|constructor; assumption]. }
  (* the repair: shorten the previous record so that it ends where the new one starts *)
  inversion Hacc' as [|? ? Hd Hrest]; subst.
  destruct Hd as [w0 [Hin [Ha [Ht [Hs [[H0 H32] [Hlt Hf]]]]]]]. cbn [fst snd] in *.
  unfold win_range in Emr. apply mk_range_shape in Emr. destruct Emr as [Emr [Hn Hlt2]]. subst mr lr.
  unfold intersects in Ei. cbn [fst snd] in Ei. apply andb_prop in Ei. destruct Ei as [E1 E2].
  apply Z.leb_le in E1, E2. apply Z.gtb_lt in Eg.
  set (d := wa w - wa lw).
  assert (Hd : 0 < d <= ws lw - 1) by (unfold d; lia).
  destruct Hw as [Hwa Hws].
  assert (Hlw32 : ws lw < two32) by lia.
  unfold chk_sub, chk. fold d.
  assert (Hd64 : (0 <=? d) && (d <? 2 ^ 64) = true).
  { apply andb_true_intro. split; [apply Z.leb_le; lia|apply Z.ltb_lt; rewrite <- two64_val; lia]. }
  rewrite Hd64. cbn [obind].
  assert (Hwrap : wrap32 d = d).
  { unfold wrap32. apply Z.mod_small. lia. }
  rewrite Hwrap. unfold win_range, set_size; cbn [wa ws wt].
  rewrite (mk_range_some (wa lw) d) by lia.
  eexists; split; [reflexivity|]. constructor; [assumption|]. constructor; [|assumption].
  exists w0. cbn [fst snd wa ws wt]. repeat split; try lia; try assumption. rewrite Ha. reflexivity.
Qed.

Lemma insert_all_ok p l : forall done acc,
  wf_recs l -> Forall (derived done) acc ->
  exists acc', insert_all p l acc = Ret acc' /\ Forall (derived (done ++ l)) acc'.
Proof.
  induction l as [|w t IH]; intros done acc Hwf Hacc; cbn [insert_all].
  - exists acc. rewrite app_nil_r. auto.
  - inversion Hwf as [|? ? Hw Ht]; subst.
    destruct (insert_win_ok p done acc w Hw Hacc) as [acc1 [E1 H1]]. rewrite E1. cbn [obind].
    destruct (IH (done ++ [w]) acc1 Ht H1) as [acc2 [E2 H2]]. exists acc2. split; [exact E2|].
    rewrite <- app_assoc in H2. exact H2.
Qed.

Lemma derived_wf_ranges l acc : Forall (derived l) acc -> wf_ranges acc.
Proof.
  intros H. unfold wf_ranges. eapply Forall_impl; [|exact H]. intros e He. apply (derived_range l e He).
Qed.

(* the whole table: no panic in either profile; the result is the parser-local builder applied to the vector *)
Lemma win_table_ok p l : wf_recs l ->
  exists acc, insert_all p l [] = Ret acc /\ Forall (derived l) acc /\
              win_table p l = Ret (into_rangemap_safe_p win_eqb (rev acc)).
Proof.
  intros Hwf. destruct (insert_all_ok p l [] [] Hwf (Forall_nil _)) as [acc [E H]]. cbn [app] in H.
  exists acc. split; [exact E|]. split; [exact H|]. unfold win_table. rewrite E. cbn [obind].
  apply build_total_p. unfold wf_ranges. apply Forall_rev. apply (derived_wf_ranges l acc H).
Qed.

Lemma win_table_total p l : wf_recs l -> exists t, win_table p l = Ret t.
Proof. intros H. destruct (win_table_ok p l H) as [acc [_ [_ E]]]. eauto. Qed.

(* the build profile does not matter *)
Lemma insert_win_profile p acc w acc' : insert_win Debug acc w = Ret acc' -> insert_win p acc w = Ret acc'.
Proof.
  destruct p; [auto|]. unfold insert_win, chk_sub, chk.
  destruct (win_range w); [|auto]. destruct acc as [|[lr lw] rest]; [auto|].
  destruct (intersects lr r); [|auto]. destruct (wa w >? wa lw); [|auto].
  destruct ((0 <=? wa w - wa lw) && (wa w - wa lw <? 2 ^ 64)); [auto|]. cbn [obind]. discriminate.
Qed.

Lemma insert_all_profile p l : forall acc acc',
  insert_all Debug l acc = Ret acc' -> insert_all p l acc = Ret acc'.
Proof.
  induction l as [|w t IH]; intros acc acc'; cbn [insert_all]; [auto|].
  destruct (insert_win Debug acc w) as [a| | |] eqn:E; cbn [obind]; try discriminate.
  intros H. rewrite (insert_win_profile p _ _ _ E). cbn [obind]. auto.
Qed.

Lemma win_table_profile l : wf_recs l -> win_table Debug l = win_table Release l.
Proof.
  intros Hwf. destruct (win_table_ok Debug l Hwf) as [acc [E [_ Et]]].
  unfold win_table in *. rewrite (insert_all_profile Release _ _ _ E). rewrite E. reflexivity.
Qed.

(* every entry is filed under the range of the record it carries; the merge loop keeps that, because records that
   compare equal have equal ranges (so a "merge" of two of them is the identity) *)
Definition keyed (e : range * winrec) : Prop := win_range (snd e) = Some (fst e).

Lemma merge_step_keyed acc rv : Forall keyed acc -> keyed rv -> Forall keyed (merge_step win_eqb acc rv).
Proof.
  intros Ha Hr. unfold merge_step. destruct acc as [|[lr lv] acc']; [repeat constructor; exact Hr|].
  destruct rv as [r v].
  destruct ((fst r <=? snd lr) && negb (win_eqb v lv)); [exact Ha|].
  destruct ((fst r <=? sat_add 64 (snd lr) 1) && win_eqb v lv) eqn:E; [|constructor; assumption].
  apply andb_prop in E. destruct E as [_ E]. apply win_eqb_eq in E. subst v.
  inversion Ha as [|? ? Hl Ht]; subst. unfold keyed in *. cbn [fst snd] in *.
  rewrite Hl in Hr. inversion Hr; subst r. constructor; [|exact Ht]. cbn [fst snd].
  rewrite Z.max_id. destruct lr; exact Hl.
Qed.

Lemma merge_sorted_keyed l : Forall keyed l -> Forall keyed (merge_sorted win_eqb l).
Proof.
  intros H. unfold merge_sorted. apply Forall_rev.
  assert (G : forall acc, Forall keyed acc -> Forall keyed (fold_left (merge_step win_eqb) l acc)).
  { induction l as [|e t IH]; intros acc Ha; cbn [fold_left]; [exact Ha|].
    inversion H; subst. apply IH; [assumption|]. apply merge_step_keyed; assumption. }
  apply G. constructor.
Qed.

Lemma win_sorted_disjoint p l t : wf_recs l -> win_table p l = Ret t ->
  StronglySorted (fun a b => snd (fst a) < fst (fst b)) t /\ wf_ranges t /\
  Forall (fun e => win_range (snd e) = Some (fst e)) t.
Proof.
  intros Hwf Ht. destruct (win_table_ok p l Hwf) as [acc [E [H Et]]]. rewrite Et in Ht. inversion Ht; subst t.
  assert (Hw : wf_ranges (rev acc)) by (unfold wf_ranges; apply Forall_rev; apply (derived_wf_ranges l acc H)).
  destruct (sorted_disjoint_p win_eqb (rev acc) Hw) as [A B]. split; [exact A|]. split; [exact B|].
  (* every table entry is filed under the range of the record it carries: ranges never merge, because
     equal values have equal ranges *)
  apply Forall_forall. intros [r w] Hin. cbn [fst snd].
  pose proof (merge_sorted_keyed (sort_stable range_lt (rev acc))) as K.
  assert (K0 : Forall keyed (sort_stable range_lt (rev acc))).
  { apply Forall_forall. intros e He.
    assert (In e acc). { apply in_rev. eapply Permutation_in; [symmetry; apply sort_perm|exact He]. }
    rewrite Forall_forall in H. apply (derived_range l e (H e H0)). }
  specialize (K K0). rewrite Forall_forall in K. apply (K (r, w)). exact Hin.
Qed.

(* a lookup returns a (possibly shortened) record of the file whose own range contains the address *)
Lemma win_lookup_sound p l t x w : wf_recs l -> win_table p l = Ret t -> rm_get t x = Some w ->
  win_range w = Some (wa w, wa w + ws w - 1) /\ contains (wa w, wa w + ws w - 1) x = true /\
  exists w0, In w0 l /\ wa w0 = wa w /\ wt w0 = wt w /\ 0 < ws w <= ws w0 /\
             (exists r0, win_range w0 = Some r0 /\ contains r0 x = true).
Proof.
  intros Hwf Ht Hg. destruct (win_table_ok p l Hwf) as [acc [E [H Et]]]. rewrite Et in Ht. inversion Ht; subst t.
  assert (Hw : wf_ranges (rev acc)) by (unfold wf_ranges; apply Forall_rev; apply (derived_wf_ranges l acc H)).
  destruct (lookup_sound_p win_eqb win_eqb_eq (rev acc) x w Hw Hg) as [r [Hin Hc]].
  apply in_rev in Hin. rewrite Forall_forall in H. pose proof (H _ Hin) as Hd.
  destruct (derived_range l _ Hd) as [Hr _]. cbn [fst snd] in Hr.
  destruct Hd as [w0 [Hin0 [Ha [Htg [Hs [[H0 H32] [Hlt Hf]]]]]]]. cbn [fst snd] in *. subst r.
  rewrite <- Ha in *. split; [exact Hr|]. split; [exact Hc|].
  exists w0. repeat split; try lia; try assumption; try (symmetry; assumption).
  exists (wa w0, wa w0 + ws w0 - 1). split.
  - unfold win_range. apply mk_range_some; lia.
  - unfold contains in *. cbn [fst snd] in *. apply andb_prop in Hc. destruct Hc as [C1 C2].
    apply Z.leb_le in C1, C2. apply andb_true_intro. split; apply Z.leb_le; lia.
Qed.

(* ---- a record that intersects no other record of its type is found, unshortened, at every address in it ---- *)
Lemma insert_win_app p accb w accb' X :
  accb <> [] -> insert_win p accb w = Ret accb' -> insert_win p (accb ++ X) w = Ret (accb' ++ X).
Proof.
  intros Hne. destruct accb as [|[lr lw] rest]; [congruence|]. cbn [app]. unfold insert_win.
  destruct (win_range w); [|intros H; inversion H; reflexivity].
  destruct (intersects lr r); [|intros H; inversion H; reflexivity].
  destruct (wa w >? wa lw).
  - destruct (chk_sub p 64 PANIC_WIN_SUB (wa w) (wa lw)); cbn [obind]; try discriminate.
    destruct (win_range (set_size lw (wrap32 a))); [|discriminate]. intros H; inversion H; reflexivity.
  - destruct (negb (range_eqb lr r)); intros H; inversion H; reflexivity.
Qed.

Definition apart (r : range) (l : list winrec) : Prop :=
  forall w' r', In w' l -> win_range w' = Some r' -> intersects r r' = false.

Lemma derived_apart r l e : apart r l -> derived l e -> intersects r (fst e) = false /\ intersects (fst e) r = false.
Proof.
  intros Hap [w0 [Hin [Ha [Htg [Hs [[H0 H32] [Hlt Hf]]]]]]].
  assert (Hr0 : win_range w0 = Some (wa w0, wa w0 + ws w0 - 1)) by (unfold win_range; apply mk_range_some; lia).
  specialize (Hap w0 _ Hin Hr0). rewrite Hf. unfold intersects in *. cbn [fst snd] in *.
  apply andb_false_iff in Hap. split; apply andb_false_iff.
  - destruct Hap as [Hap|Hap]; apply Z.leb_gt in Hap; [left|right]; apply Z.leb_gt; lia.
  - destruct Hap as [Hap|Hap]; apply Z.leb_gt in Hap; [right|left]; apply Z.leb_gt; lia.
Qed.

Lemma insert_win_iso p done accb acca r w w' :
  wf_rec w' -> apart r (done ++ [w']) -> Forall (derived done) accb ->
  exists accb', insert_win p (accb ++ (r, w) :: acca) w' = Ret (accb' ++ (r, w) :: acca) /\
                Forall (derived (done ++ [w'])) accb'.
Proof.
  intros Hw Hap Hb. destruct accb as [|e rest].
  - cbn [app]. unfold insert_win. destruct (win_range w') as [mr|] eqn:Emr.
    + assert (Hi : intersects r mr = false).
      { apply (Hap w' mr); [apply in_or_app; right; left; reflexivity|exact Emr]. }
      rewrite Hi. exists [(mr, w')]. split; [reflexivity|]. constructor; [|constructor].
      eapply derived_mono; [|apply derived_self; eassumption].
      intros x [Hx|[]]; subst. apply in_or_app. right. left. reflexivity.
    + exists []. split; [reflexivity|constructor].
  - destruct (insert_win_ok p done (e :: rest) w' Hw Hb) as [accb' [E H]].
    exists accb'. split; [|exact H]. apply insert_win_app; [discriminate|exact E].
Qed.

Lemma insert_all_iso p acca r w lb : forall done accb,
  wf_recs lb -> apart r (done ++ lb) -> Forall (derived done) accb ->
  exists accb', insert_all p lb (accb ++ (r, w) :: acca) = Ret (accb' ++ (r, w) :: acca) /\
                Forall (derived (done ++ lb)) accb'.
Proof.
  induction lb as [|w' t IH]; intros done accb Hwf Hap Hb; cbn [insert_all].
  - exists accb. rewrite app_nil_r. auto.
  - inversion Hwf as [|? ? Hw Ht]; subst.
    assert (Hap1 : apart r (done ++ [w'])).
    { intros x rx Hin. apply Hap. apply in_app_or in Hin. apply in_or_app.
      destruct Hin as [Hin|[Hin|[]]]; [left; exact Hin|right; left; exact Hin]. }
    destruct (insert_win_iso p done accb acca r w w' Hw Hap1 Hb) as [accb1 [E1 H1]]. rewrite E1. cbn [obind].
    assert (Hap2 : apart r ((done ++ [w']) ++ t)) by (rewrite <- app_assoc; exact Hap).
    destruct (IH (done ++ [w']) accb1 Ht Hap2 H1) as [accb2 [E2 H2]]. exists accb2. split; [exact E2|].
    rewrite <- app_assoc in H2. exact H2.
Qed.

Lemma insert_all_app p l1 : forall l2 acc,
  insert_all p (l1 ++ l2) acc = obind (insert_all p l1 acc) (fun a => insert_all p l2 a).
Proof.
  induction l1 as [|w t IH]; intros l2 acc; cbn [app insert_all obind]; [reflexivity|].
  destruct (insert_win p acc w); cbn [obind]; auto.
Qed.

Lemma win_isolated_complete p la w lb r t x :
  wf_recs (la ++ w :: lb) -> win_range w = Some r -> apart r (la ++ lb) ->
  win_table p (la ++ w :: lb) = Ret t -> contains r x = true -> rm_get t x = Some w.
Proof.
  intros Hwf Hr Hap Ht Hc.
  assert (Hwfa : wf_recs la) by (unfold wf_recs in *; apply Forall_app in Hwf; tauto).
  assert (Hwfb : wf_recs (w :: lb)) by (unfold wf_recs in *; apply Forall_app in Hwf; tauto).
  inversion Hwfb as [|? ? Hw Hwfb']; subst.
  assert (Hapa : apart r la) by (intros a b Hin; apply Hap; apply in_or_app; auto).
  assert (Hapb : apart r ([] ++ lb)) by (intros a b Hin; apply Hap; apply in_or_app; auto).
  destruct (insert_all_ok p la [] [] Hwfa (Forall_nil _)) as [acca [Ea Ha]]. cbn [app] in Ha.
  (* the isolated record is pushed as it is *)
  assert (Ew : insert_win p acca w = Ret ((r, w) :: acca)).
  { unfold insert_win. rewrite Hr. destruct acca as [|[lr lw] rest]; [reflexivity|].
    inversion Ha as [|? ? Hd _]; subst. destruct (derived_apart r la _ Hapa Hd) as [_ Hi]. cbn [fst] in Hi.
    rewrite Hi. reflexivity. }
  destruct (insert_all_iso p acca r w lb [] [] Hwfb' Hapb (Forall_nil _)) as [accb [Eb Hb]]. cbn [app] in Eb, Hb.
  assert (Eall : insert_all p (la ++ w :: lb) [] = Ret (accb ++ (r, w) :: acca)).
  { rewrite insert_all_app. rewrite Ea. cbn [obind insert_all]. rewrite Ew. cbn [obind]. exact Eb. }
  unfold win_table in Ht. rewrite Eall in Ht. cbn [obind] in Ht.
  assert (Hrev : rev (accb ++ (r, w) :: acca) = rev acca ++ (r, w) :: rev accb).
  { rewrite rev_app_distr. cbn [rev]. rewrite <- app_assoc. reflexivity. }
  rewrite Hrev in Ht.
  assert (Hwr : wf_range r).
  { unfold win_range in Hr. destruct Hw as [Hw1 Hw2]. eapply mk_range_wf; [| |exact Hr]; lia. }
  assert (Hwfall : wf_ranges (rev acca ++ (r, w) :: rev accb)).
  { unfold wf_ranges. apply Forall_app. split; [apply Forall_rev; apply (derived_wf_ranges la acca Ha)|].
    constructor; [exact Hwr|apply Forall_rev; apply (derived_wf_ranges lb accb Hb)]. }
  rewrite (build_total_p win_eqb _ Hwfall) in Ht. inversion Ht; subst t.
  apply (isolated_complete_p win_eqb win_eqb_eq); [exact Hwfall| |exact Hc].
  intros r' v' Hin. apply in_app_or in Hin. destruct Hin as [Hin|Hin]; apply in_rev in Hin.
  - rewrite Forall_forall in Ha. apply (derived_apart r la _ Hapa (Ha _ Hin)).
  - rewrite Forall_forall in Hb. apply (derived_apart r lb _ Hapb (Hb _ Hin)).
Qed.

(* the real binary search equals a linear scan on every table of the parser-local builder and on the WIN tables *)
Lemma get_is_find_p {V} (eqb : V -> V -> bool) (l : list (range * V)) x : wf_ranges l ->
  rm_get (into_rangemap_safe_p eqb l) x = find_linear (into_rangemap_safe_p eqb l) x.
Proof. intros Hwf. destruct (sorted_disjoint_p eqb l Hwf). apply rm_get_is_find; assumption. Qed.

Lemma win_get_is_find p l t x : wf_recs l -> win_table p l = Ret t -> rm_get t x = find_linear t x.
Proof.
  intros Hwf Ht. destruct (win_sorted_disjoint p l t Hwf Ht) as [A [B _]]. apply rm_get_is_find; assumption.
Qed.
