(* C08/Properties.v — property theorems only.  Each is closed by [exact lemma],
   pinned by [Check name : statement] and followed by [Print Assumptions]. *)
From Coq Require Import Sorting.Sorted Sorting.Permutation Strings.String Strings.Ascii.
From RM Require C09.Model C09.Grammar C09.Driver.
From RM Require Import C08.SymText C08.SymTextC C08.SymTextCfi C08.SymTextWin.
From RM Require Import C08.Model C08.Proofs C08.IndexProofs C08.WinModel C08.WinProofs C08.Driver Gen.C08Tables C08.Tie C08.EndToEnd C08.StreamRead C08.Unified.
Open Scope Z_scope.

(* Building never fails: the final RangeMap::try_from_iter(vec).unwrap() discards
   nothing (no Panic), for every finite list of entries over u64. *)
Theorem c08_build_total :
  forall (V : Type) (eqb : V -> V -> bool),
  forall l : list (option range * V), wf_entries l ->
    build eqb l = Ret (into_rangemap_safe eqb l).
Proof. exact (@build_total). Qed.
Print Assumptions c08_build_total.

Theorem c08_build_total_parser :
  forall (V : Type) (eqb : V -> V -> bool),
  forall l : list (range * V), wf_ranges l ->
    build_p eqb l = Ret (into_rangemap_safe_p eqb l).
Proof. exact (@build_total_p). Qed.
Print Assumptions c08_build_total_parser.

(* every memory_range() constructor yields None or a well-formed range *)
Theorem c08_mk_range_wf : forall base size r,
  0 <= base -> 0 <= size -> mk_range base size = Some r -> wf_range r.
Proof. exact mk_range_wf. Qed.
Print Assumptions c08_mk_range_wf.
Theorem c08_mk_range_maps_wf : forall lo hi r,
  0 <= lo -> hi < two64 -> mk_range_maps lo hi = Some r -> wf_range r.
Proof. exact mk_range_maps_wf. Qed.
Print Assumptions c08_mk_range_maps_wf.

(* iteration by address is sorted and non-overlapping *)
Theorem c08_sorted_disjoint :
  forall (V : Type) (eqb : V -> V -> bool),
  forall l : list (option range * V), wf_entries l ->
    StronglySorted (fun a b => snd (fst a) < fst (fst b)) (into_rangemap_safe eqb l) /\
    wf_ranges (into_rangemap_safe eqb l).
Proof. exact (@sorted_disjoint). Qed.
Print Assumptions c08_sorted_disjoint.

Theorem c08_sorted_disjoint_parser :
  forall (V : Type) (eqb : V -> V -> bool),
  forall l : list (range * V), wf_ranges l ->
    StronglySorted (fun a b => snd (fst a) < fst (fst b)) (into_rangemap_safe_p eqb l) /\
    wf_ranges (into_rangemap_safe_p eqb l).
Proof. exact (@sorted_disjoint_p). Qed.
Print Assumptions c08_sorted_disjoint_parser.

(* a lookup only returns a value whose own input range contains the address *)
Theorem c08_lookup_sound :
  forall (V : Type) (eqb : V -> V -> bool), (forall a b, eqb a b = true <-> a = b) ->
  forall (l : list (option range * V)) x v, wf_entries l ->
    rm_get (into_rangemap_safe eqb l) x = Some v ->
    exists r, In (Some r, v) l /\ contains r x = true.
Proof. exact (@lookup_sound). Qed.
Print Assumptions c08_lookup_sound.

Theorem c08_lookup_sound_parser :
  forall (V : Type) (eqb : V -> V -> bool), (forall a b, eqb a b = true <-> a = b) ->
  forall (l : list (range * V)) x v, wf_ranges l ->
    rm_get (into_rangemap_safe_p eqb l) x = Some v ->
    exists r, In (r, v) l /\ contains r x = true.
Proof. exact (@lookup_sound_p). Qed.
Print Assumptions c08_lookup_sound_parser.

(* an entry that intersects no other entry is returned for every address in it *)
Theorem c08_isolated_complete :
  forall (V : Type) (eqb : V -> V -> bool), (forall a b, eqb a b = true <-> a = b) ->
  forall (l1 : list (option range * V)) r v l2 x,
    wf_entries (l1 ++ (Some r, v) :: l2) ->
    (forall r' v', In (Some r', v') (l1 ++ l2) -> intersects r r' = false) ->
    contains r x = true ->
    rm_get (into_rangemap_safe eqb (l1 ++ (Some r, v) :: l2)) x = Some v.
Proof. exact (@isolated_complete). Qed.
Print Assumptions c08_isolated_complete.

Theorem c08_isolated_complete_parser :
  forall (V : Type) (eqb : V -> V -> bool), (forall a b, eqb a b = true <-> a = b) ->
  forall (l1 : list (range * V)) r v l2 x,
    wf_ranges (l1 ++ (r, v) :: l2) ->
    (forall r' v', In (r', v') (l1 ++ l2) -> intersects r r' = false) ->
    contains r x = true ->
    rm_get (into_rangemap_safe_p eqb (l1 ++ (r, v) :: l2)) x = Some v.
Proof. exact (@isolated_complete_p). Qed.
Print Assumptions c08_isolated_complete_parser.

(* the real binary search equals a linear scan on every table the builder makes *)
Theorem c08_bsearch_is_find :
  forall (V : Type) (eqb : V -> V -> bool),
  forall (l : list (option range * V)) x, wf_entries l ->
    rm_get (into_rangemap_safe eqb l) x = find_linear (into_rangemap_safe eqb l) x.
Proof. exact (@get_is_find). Qed.
Print Assumptions c08_bsearch_is_find.

Theorem c08_bsearch_is_find_parser :
  forall (V : Type) (eqb : V -> V -> bool),
  forall (l : list (range * V)) x, wf_ranges l ->
    rm_get (into_rangemap_safe_p eqb l) x = find_linear (into_rangemap_safe_p eqb l) x.
Proof. exact (@get_is_find_p). Qed.
Print Assumptions c08_bsearch_is_find_parser.

Theorem c08_bsearch_is_find_win : forall p (l : list winrec) t x, wf_recs l ->
  win_table p l = Ret t -> rm_get t x = find_linear t x.
Proof. exact win_get_is_find. Qed.
Print Assumptions c08_bsearch_is_find_win.

(* unloaded modules: exactly the entries covering the address, in (start,end) order *)
Theorem c08_unloaded_exact : forall (ranges : list (option range)) x i,
  In i (unloaded_at (unloaded_build ranges) x) <->
  exists r, In (Some r, i) (enumerate_from 0 ranges) /\ contains r x = true.
Proof. exact unloaded_iff. Qed.
Print Assumptions c08_unloaded_exact.

Theorem c08_unloaded_sorted : forall (ranges : list (option range)) x,
  Permutation (unloaded_at (unloaded_build ranges) x)
              (map snd (filter (fun e => contains (fst e) x) (keep_some (enumerate_from 0 ranges)))) /\
  StronglySorted (fun a b => range_lt (fst b) (fst a) = false) (unloaded_build ranges).
Proof. exact unloaded_exact. Qed.
Print Assumptions c08_unloaded_sorted.

(* ---- index-valued tables (module list, memory lists, memory-info list, Linux maps): the table holds
   (entry.memory_range(), index) pairs and the lookups / by_addr index the stored vector with what they find. ---- *)

(* by_addr: every table entry's index is in bounds of the vector and the table range is that entry's own range
   (each entry is yielded at most once, never with a merged or foreign range) *)
Theorem c08_indexed_table_exact : forall (ranges : list (option range)) r i,
  In (r, i) (into_rangemap_safe Z.eqb (enumerate_from 0 ranges)) ->
  0 <= i /\ nth_error ranges (Z.to_nat i) = Some (Some r).
Proof. exact indexed_table_exact. Qed.
Print Assumptions c08_indexed_table_exact.

(* *_at_address: `&self.modules[index]` cannot be out of bounds, and the entry it names contains the address *)
Theorem c08_indexed_lookup_in_bounds : forall (ranges : list (option range)) x i, wf_opt_ranges ranges ->
  rm_get (into_rangemap_safe Z.eqb (enumerate_from 0 ranges)) x = Some i ->
  exists r, 0 <= i /\ nth_error ranges (Z.to_nat i) = Some (Some r) /\ contains r x = true.
Proof. exact indexed_lookup_in_bounds. Qed.
Print Assumptions c08_indexed_lookup_in_bounds.

Theorem c08_indexed_isolated_complete : forall (r1 : list (option range)) r r2 x,
  wf_opt_ranges (r1 ++ Some r :: r2) ->
  (forall r', In (Some r') (r1 ++ r2) -> intersects r r' = false) -> contains r x = true ->
  rm_get (into_rangemap_safe Z.eqb (enumerate_from 0 (r1 ++ Some r :: r2))) x = Some (Z.of_nat (length r1)).
Proof. exact indexed_isolated_complete. Qed.
Print Assumptions c08_indexed_isolated_complete.

(* ---- STACK WIN frame-data / FPO tables: insert_win_stack_info for every record in file order, then the
   parser-local builder.  Records are (u64 address, u32 size, everything else). ---- *)

(* building never fails, in either build profile: not the address subtraction, not
   last_info.memory_range().unwrap() after the repair, not the final try_from_iter(..).unwrap() *)
Theorem c08_win_build_total : forall p (l : list winrec), wf_recs l ->
  exists t, win_table p l = Ret t.
Proof. exact win_table_total. Qed.
Print Assumptions c08_win_build_total.

Theorem c08_win_profile_independent : forall l : list winrec, wf_recs l ->
  win_table Debug l = win_table Release l.
Proof. exact win_table_profile. Qed.
Print Assumptions c08_win_profile_independent.

(* iteration by address is sorted and non-overlapping, and every entry is filed under the range of the record
   it carries (the repair shortens the record and its range together) *)
Theorem c08_win_sorted_disjoint : forall p (l : list winrec) t, wf_recs l -> win_table p l = Ret t ->
  StronglySorted (fun a b => snd (fst a) < fst (fst b)) t /\ wf_ranges t /\
  Forall (fun e => win_range (snd e) = Some (fst e)) t.
Proof. exact win_sorted_disjoint. Qed.
Print Assumptions c08_win_sorted_disjoint.

(* a lookup returns a record whose own (possibly shortened) range contains the address; it is a record of the
   file with the same address and other fields, never longer than written, and the range of the record as
   written contains the address too *)
Theorem c08_win_lookup_sound : forall p (l : list winrec) t x w, wf_recs l ->
  win_table p l = Ret t -> rm_get t x = Some w ->
  win_range w = Some (wa w, wa w + ws w - 1) /\ contains (wa w, wa w + ws w - 1) x = true /\
  exists w0, In w0 l /\ wa w0 = wa w /\ wt w0 = wt w /\ 0 < ws w <= ws w0 /\
             (exists r0, win_range w0 = Some r0 /\ contains r0 x = true).
Proof. exact win_lookup_sound. Qed.
Print Assumptions c08_win_lookup_sound.

(* a record that intersects no other record of the list is returned, as written, for every address inside it *)
Theorem c08_win_isolated_complete : forall p (la : list winrec) w lb r t x,
  wf_recs (la ++ w :: lb) -> win_range w = Some r ->
  (forall w' r', In w' (la ++ lb) -> win_range w' = Some r' -> intersects r r' = false) ->
  win_table p (la ++ w :: lb) = Ret t -> contains r x = true -> rm_get t x = Some w.
Proof. exact win_isolated_complete. Qed.
Print Assumptions c08_win_isolated_complete.

(* ---- the tie to the source: Gen/C08Tables.v is regenerated from the Rust code on every run
   (translate/c08_tables.py); these theorems are about the generated definitions. ---- *)

(* all seven size-based memory_range() constructors: for every u64 base and size, in either build profile, neither
   the `- 1` nor Range::new's ordering assertion can fire, and the result is the model's mk_range *)
Theorem c08_gen_memory_ranges : forall p base size, u64 base -> u64 size ->
  g_mr_Function p base size = Ret (mk_range base size) /\
  g_mr_StackInfoCfi p base size = Ret (mk_range base size) /\
  g_mr_StackInfoWin p base size = Ret (mk_range base size) /\
  g_mr_MinidumpModule p base size = Ret (mk_range base size) /\
  g_mr_MinidumpUnloadedModule p base size = Ret (mk_range base size) /\
  g_mr_MinidumpMemoryBase p base size = Ret (mk_range base size) /\
  g_mr_MinidumpMemoryInfo p base size = Ret (mk_range base size).
Proof. exact g_mr_all_eq. Qed.
Print Assumptions c08_gen_memory_ranges.

Theorem c08_gen_memory_range_maps : forall lo hi,
  g_mr_MinidumpLinuxMapInfo lo hi = Ret (mk_range_maps lo hi).
Proof. exact g_mr_maps_eq. Qed.
Print Assumptions c08_gen_memory_range_maps.

(* line records: the filter keeps exactly the non-empty ones, and for those `size as u64 - 1` cannot trap *)
Theorem c08_gen_memory_range_line : forall p base size, u64 base -> u64 size ->
  g_line_keep size = (0 <? size) /\
  (g_line_keep size = true -> g_mr_line p base size = Ret (mk_range_line base size)).
Proof. exact g_line_all. Qed.
Print Assumptions c08_gen_memory_range_line.

(* both copies of into_rangemap_safe, as generated, never reach the unwrap and compute the model's table *)
Theorem c08_gen_build_total :
  forall (V : Type) (eqb : V -> V -> bool),
  (forall l : list (option range * V), wf_entries l ->
     g_build_traits eqb l = Ret (into_rangemap_safe eqb l)) /\
  (forall l : list (range * V), wf_ranges l ->
     g_build_parser eqb l = Ret (into_rangemap_safe_p eqb l)) /\
  (forall acc rv, g_merge_step_traits eqb acc rv = merge_step eqb acc rv) /\
  (forall acc rv, g_merge_step_parser eqb acc rv = merge_step eqb acc rv).
Proof. exact g_build_all. Qed.
Print Assumptions c08_gen_build_total.

(* the index-valued builders and the STACK WIN pipeline, as generated, are the model's *)
Theorem c08_gen_builders : 
  (forall ranges, g_build_indexed ranges = build_indexed ranges) /\
  (forall p acc w, g_insert_win p acc w = insert_win p acc w) /\
  (forall p l, g_win_table p l = win_table p l).
Proof. exact g_builders_all. Qed.
Print Assumptions c08_gen_builders.

Theorem c08_gen_indexed_total : forall ranges : list (option range), wf_opt_ranges ranges ->
  g_build_indexed ranges = Ret (into_rangemap_safe Z.eqb (enumerate_from 0 ranges)).
Proof. exact g_build_indexed_total. Qed.
Print Assumptions c08_gen_indexed_total.

(* the read-time filter of MinidumpModuleList::read, as generated: no trap, and it keeps exactly the raw modules
   that have a memory_range() *)
Theorem c08_gen_module_read_filter : forall p base size, u64 base -> u64 size ->
  g_module_read_drop p base size = Ret (negb (module_read_keep base size)) /\
  (module_read_keep base size = true <-> exists r, mk_range base size = Some r).
Proof. exact g_module_read_drop_eq. Qed.
Print Assumptions c08_gen_module_read_filter.

(* the range-map crate at the version of Cargo.lock, as generated from its source (Range::new's assertion,
   contains, intersects, range-vs-point ordering, one iteration of normalize) is what the model uses; try_from_iter's
   and get's structure are pinned literally by the translator *)
Theorem c08_gen_range_map :
  (forall s e, g_range_new s e = if s >? e then Panic PANIC_G_RANGE_NEW else Ret (s, e)) /\
  (forall r x, g_contains r x = contains r x) /\
  (forall a b, g_intersects a b = intersects a b) /\
  (forall r x, g_range_cmp_pt r x = range_cmp_pt r x) /\
  (forall (V : Type) (eqb : V -> V -> bool) st rv, g_norm_step eqb st rv = norm_step eqb st rv).
Proof. exact g_range_map_eq. Qed.
Print Assumptions c08_gen_range_map.

(* hence: the generated STACK WIN pipeline never fails, for every list of records, in either profile *)
Theorem c08_gen_win_total : forall p (l : list winrec), wf_recs l -> exists t, g_win_table p l = Ret t.
Proof. exact g_win_table_total. Qed.
Print Assumptions c08_gen_win_total.

(* ---- end to end, in plain arithmetic: from the raw u64 (base, size) fields of ANY entry list, through the generated
   memory_range() and the generated builder (module list, memory lists, memory-info list), in either profile:
   the build succeeds; the table is sorted and non-overlapping; every table entry is (base, base+size-1) of the entry
   at its (in-bounds) index; the index a lookup returns is in bounds and base <= x < base + size holds for that entry
   without overflow (so `x - base` downstream cannot underflow); an entry that no other entry with a range intersects
   is found at every address in it. ---- *)
Theorem c08_end_to_end_size_based : forall mr : profile -> Z -> Z -> outcome (option range),
  In mr [g_mr_MinidumpModule; g_mr_MinidumpMemoryBase; g_mr_MinidumpMemoryInfo] ->
  forall p ents, u64_ents ents ->
  exists t, g_indexed_table (mr p) ents = Ret t /\
    StronglySorted (fun a b => snd (fst a) < fst (fst b)) t /\
    (forall r i, In (r, i) t -> 0 <= i /\ exists b s, nth_error ents (Z.to_nat i) = Some (b, s) /\
                                   s <> 0 /\ b + s < two64 /\ r = (b, b + s - 1)) /\
    (forall x i, rm_get t x = Some i -> 0 <= i /\ exists b s, nth_error ents (Z.to_nat i) = Some (b, s) /\
                                   s <> 0 /\ b + s < two64 /\ b <= x < b + s) /\
    (forall e1 b s e2 x, ents = e1 ++ (b, s) :: e2 -> s <> 0 -> b + s < two64 -> b <= x < b + s ->
        (forall b' s', In (b', s') (e1 ++ e2) -> s' = 0 \/ two64 <= b' + s' \/ b' + s' <= b \/ b + s <= b') ->
        rm_get t x = Some (Z.of_nat (length e1))).
Proof. exact size_based_end_to_end. Qed.
Print Assumptions c08_end_to_end_size_based.

(* Linux maps: entries are (first, last) addresses *)
Theorem c08_end_to_end_maps : forall ents, u64_ents ents ->
  exists t, g_indexed_table g_mr_MinidumpLinuxMapInfo ents = Ret t /\
    StronglySorted (fun a b => snd (fst a) < fst (fst b)) t /\
    (forall r i, In (r, i) t -> 0 <= i /\ exists lo hi, nth_error ents (Z.to_nat i) = Some (lo, hi) /\ lo <= hi /\ r = (lo, hi)) /\
    (forall x i, rm_get t x = Some i -> 0 <= i /\ exists lo hi, nth_error ents (Z.to_nat i) = Some (lo, hi) /\ lo <= x <= hi).
Proof. exact maps_end_to_end. Qed.
Print Assumptions c08_end_to_end_maps.

(* unloaded modules: modules_at_address returns exactly the indices of the entries whose [base, base+size) contains
   the address (entries with size 0 or reaching past the address space have no range and are never returned) *)
Theorem c08_end_to_end_unloaded : forall p ents, u64_ents ents ->
  exists t, g_unloaded_table p ents = Ret t /\
    StronglySorted (fun a b => range_lt (fst b) (fst a) = false) t /\
    forall x i, In i (unloaded_at t x) <->
      0 <= i /\ exists b s, nth_error ents (Z.to_nat i) = Some (b, s) /\ s <> 0 /\ b + s < two64 /\ b <= x < b + s.
Proof. exact unloaded_end_to_end. Qed.
Print Assumptions c08_end_to_end_unloaded.

(* symbol-file FUNC and STACK CFI INIT records (value = the whole record, any type with a decidable equality): filed
   only if memory_range() exists, then the parser-local builder.  A lookup returns a record of the file with
   address <= x < address + size (no overflow); a record no other ranged record intersects is found everywhere in it. *)
Theorem c08_end_to_end_records :
  forall (V : Type) (eqb : V -> V -> bool) (mr : profile -> Z -> Z -> outcome (option range)),
  (forall a b, eqb a b = true <-> a = b) ->
  In mr [g_mr_Function; g_mr_StackInfoCfi] ->
  forall p (recs : list (Z * Z * V)), u64_recs recs ->
  exists t, g_record_table eqb (mr p) recs = Ret t /\
    StronglySorted (fun a b => snd (fst a) < fst (fst b)) t /\
    (forall x v, rm_get t x = Some v ->
       exists b s, In (b, s, v) recs /\ s <> 0 /\ b + s < two64 /\ b <= x < b + s) /\
    (forall r1 b s v r2 x, recs = r1 ++ (b, s, v) :: r2 -> s <> 0 -> b + s < two64 -> b <= x < b + s ->
       (forall b' s' v', In (b', s', v') (r1 ++ r2) -> s' = 0 \/ two64 <= b' + s' \/ b' + s' <= b \/ b + s <= b') ->
       rm_get t x = Some v).
Proof. exact records_end_to_end. Qed.
Print Assumptions c08_end_to_end_records.

(* line records of a FUNC (value = the whole line record): zero-size lines filtered, `size - 1` cannot trap, the
   trait's builder never fails; a lookup returns a line of the file with address <= x <= address + (size - 1), no overflow *)
Theorem c08_end_to_end_lines :
  forall (V : Type) (eqb : V -> V -> bool), (forall a b, eqb a b = true <-> a = b) ->
  forall p (lines : list (Z * Z * V)), u64_recs lines ->
  exists t, g_line_table eqb p lines = Ret t /\
    StronglySorted (fun a b => snd (fst a) < fst (fst b)) t /\
    (forall x v, rm_get t x = Some v ->
       exists b s, In (b, s, v) lines /\ 0 < s /\ b + (s - 1) < two64 /\ b <= x <= b + (s - 1)).
Proof. exact (@line_table_ok). Qed.
Print Assumptions c08_end_to_end_lines.

(* STACK WIN tables through the generated insert_win_stack_info + parser-local builder, in plain arithmetic, for any
   list of (u64 address, u32 size, rest) records and either profile: a lookup returns a record of the file, possibly
   shortened, with address <= x < address + size (no overflow); a record that no other ranged record of its type
   intersects is returned as written *)
Theorem c08_end_to_end_win : forall p (l : list winrec), wf_recs l ->
  exists t, g_win_table p l = Ret t /\
    StronglySorted (fun a b => snd (fst a) < fst (fst b)) t /\
    (forall x w, rm_get t x = Some w ->
       exists w0, In w0 l /\ wa w0 = wa w /\ wt w0 = wt w /\ 0 < ws w <= ws w0 /\
                  wa w + ws w < two64 /\ wa w <= x < wa w + ws w) /\
    (forall la w lb x, l = la ++ w :: lb -> ws w <> 0 -> wa w + ws w < two64 -> wa w <= x < wa w + ws w ->
       (forall w', In w' (la ++ lb) ->
          ws w' = 0 \/ two64 <= wa w' + ws w' \/ wa w' + ws w' <= wa w \/ wa w + ws w <= wa w') ->
       rm_get t x = Some w).
Proof. exact win_end_to_end. Qed.
Print Assumptions c08_end_to_end_win.

(* ---- non-vacuity: the hypotheses are met by concrete, non-trivial inputs ---- *)
Example c08_nonvacuous_wf :
  wf_entries [(mk_range 18446744073709551610 6, 1); (mk_range 0 0, 2); (mk_range 5 10, 3);
              (mk_range 7 2, 4); (mk_range 18446744073709551615 1, 5); (mk_range 18446744073709551615 2, 6)].
Proof. repeat constructor; cbn; try discriminate. Qed.

Example c08_nonvacuous_run :
  build Z.eqb [(mk_range 18446744073709551610 6, 1); (mk_range 0 0, 2); (mk_range 5 10, 3);
               (mk_range 7 2, 4); (mk_range 15 3, 3); (mk_range 18446744073709551615 2, 6);
               (mk_range 18446744073709551610 5, 9)]
  = Ret [((5, 17), 3); ((18446744073709551610, 18446744073709551614), 9)].
Proof. vm_compute. reflexivity. Qed.

Example c08_nonvacuous_isolated :
  let l1 := [(mk_range 0 4, 1)] in let l2 := [(mk_range 2 4, 2)] in
  (forall r' v', In (Some r', v') (l1 ++ l2) -> intersects (100, 199) r' = false) /\
  rm_get (into_rangemap_safe Z.eqb (l1 ++ (Some (100, 199), 7) :: l2)) 150 = Some 7.
Proof.
  split; [|vm_compute; reflexivity].
  intros r' v' [H|[H|[]]]; inversion H; reflexivity.
Qed.

(* the commented example of parser.rs (0+10, 1+9, 4+6 -> 0+1, 1+3, 4+6), a duplicate, a conflicting earlier start,
   a zero size and a record reaching past the address space *)
Example c08_nonvacuous_win :
  let l := [mkW 0 10 1; mkW 1 9 2; mkW 4 6 3; mkW 4 6 3; mkW 2 20 4; mkW 50 0 5;
            mkW 18446744073709551615 1 6; mkW 18446744073709551610 5 7] in
  wf_recs l /\
  win_table Debug l = Ret [((0, 0), mkW 0 1 1); ((1, 3), mkW 1 3 2); ((4, 9), mkW 4 6 3);
                           ((18446744073709551610, 18446744073709551614), mkW 18446744073709551610 5 7)] /\
  win_table Release l = win_table Debug l.
Proof.
  cbv zeta. split; [|split; vm_compute; reflexivity].
  repeat constructor; cbn; try discriminate.
Qed.

Example c08_nonvacuous_gen :
  g_mr_MinidumpModule Debug 18446744073709551610 5 = Ret (Some (18446744073709551610, 18446744073709551614)) /\
  g_mr_MinidumpModule Debug 18446744073709551610 6 = Ret None /\
  g_mr_line Release 18446744073709551610 6 = Ret (Some (18446744073709551610, 18446744073709551615)) /\
  g_build_indexed [mk_range 5 10; mk_range 0 0; mk_range 7 2; mk_range 20 1] = Ret [((5, 14), 0); ((20, 20), 3)] /\
  g_win_table Release [mkW 0 10 1; mkW 1 9 2; mkW 4 6 3] = Ret [((0, 0), mkW 0 1 1); ((1, 3), mkW 1 3 2); ((4, 9), mkW 4 6 3)].
Proof. repeat split; vm_compute; reflexivity. Qed.

Example c08_nonvacuous_indexed :
  let ranges := [mk_range 5 10; mk_range 0 0; mk_range 7 2; mk_range 20 1; mk_range 18446744073709551615 1] in
  wf_opt_ranges ranges /\
  into_rangemap_safe Z.eqb (enumerate_from 0 ranges) = [((5, 14), 0); ((20, 20), 3)] /\
  rm_get (into_rangemap_safe Z.eqb (enumerate_from 0 ranges)) 20 = Some 3.
Proof. cbv zeta. split; [repeat constructor; cbn; discriminate|split; vm_compute; reflexivity]. Qed.

Example c08_nonvacuous_end_to_end :
  let ents := [(5, 10); (0, 0); (7, 2); (20, 1); (18446744073709551615, 1); (18446744073709551600, 15)] in
  u64_ents ents /\
  g_indexed_table (g_mr_MinidumpModule Debug) ents = Ret [((5, 14), 0); ((20, 20), 3); ((18446744073709551600, 18446744073709551614), 5)].
Proof. cbv zeta. split; [repeat constructor; cbn; discriminate|vm_compute; reflexivity]. Qed.

(* ================================================================== round 5, second pass *)

(* MinidumpUnloadedModuleList::read from the raw (base_of_image, size_of_image) fields of the stream, through the guard
   GENERATED from its source (g_unloaded_read_bad), the generated memory_range() and from_modules: never a trap in either
   profile; the read returns Err exactly when some raw module has a zero size or reaches past the address space (and
   then names such a module); otherwise every module has a valid range, the table is sorted and modules_at_address
   returns exactly the indices of the modules with base <= x < base + size. *)
Theorem c08_end_to_end_unloaded_read : forall p ents, u64_ents ents ->
  (g_unloaded_read p ents = Ret None /\ exists b s, In (b, s) ents /\ (s = 0 \/ two64 <= b + s)) \/
  (exists t, g_unloaded_read p ents = Ret (Some t) /\
     (forall b s, In (b, s) ents -> s <> 0 /\ b + s < two64) /\
     StronglySorted (fun a b => range_lt (fst b) (fst a) = false) t /\
     forall x i, In i (unloaded_at t x) <->
       0 <= i /\ exists b s, nth_error ents (Z.to_nat i) = Some (b, s) /\ b <= x < b + s).
Proof. exact unloaded_read_end_to_end. Qed.
Print Assumptions c08_end_to_end_unloaded_read.

(* ... and it is the hand-written model that the correspondence run compares with the code (Driver.run_case kind 9) *)
Theorem c08_gen_unloaded_read : forall p ents, u64_ents ents ->
  g_unloaded_read p ents = Ret (unloaded_read ents) /\
  (forall b s, u64 b -> u64 s -> g_unloaded_read_bad p b s = Ret (negb (module_read_keep b s))).
Proof. intros p ents H. split; [exact (g_unloaded_read_eq p ents H)|exact (g_unloaded_read_bad_eq p)]. Qed.
Print Assumptions c08_gen_unloaded_read.

Example c08_nonvacuous_unloaded_read :
  let good := [(5, 10); (7, 2); (18446744073709551600, 15)] in
  u64_ents good /\ u64_ents ((0, 0) :: good) /\
  g_unloaded_read Debug good = Ret (Some [((5, 14), 0); ((7, 8), 1); ((18446744073709551600, 18446744073709551614), 2)]) /\
  g_unloaded_read Debug ((0, 0) :: good) = Ret None /\
  g_unloaded_read Release (good ++ [(18446744073709551615, 1)]) = Ret None.
Proof. cbv zeta. split; [|split]; [repeat constructor; cbn; discriminate..|repeat split; vm_compute; reflexivity]. Qed.

(* ---- symbol-file tables from the TEXT.  C09/Grammar.v is the byte-level model of SymbolFile::parse (line recognisers
   + SymbolParser::finish, which calls C08's builders); C09 proves that the parse of any byte string ends with Ok or
   Err and that finish never panics.  Composed with the table theorems above (C08/SymText.v):
   for EVERY byte string and EVERY way the reader may chunk it, if the parse is Ok then the finished symbol table
   exists and (SymText.tables_sound)
     - the FUNC table, the line table of every function in it, the STACK CFI INIT table and the two STACK WIN tables
       are sorted and non-overlapping (sorted_table);
     - `functions.get(x) = Some f`: a line of the text is a FUNC record with f's address, size, parameter size and
       name (func_line), size <> 0, address + size < 2^64 and address <= x < address + size; and `f.lines.get(y) =
       Some l`: a line of the text is the line record l (line_line), 0 < l.size, no overflow,
       l.address <= y <= l.address + l.size - 1;
     - `cfi_stack_info.get(x) = Some c`: a line of the text is a STACK CFI INIT record with c's init rule and size
       (cfi_line), and init.address <= x < init.address + size without overflow;
     - `win_stack_{framedata,fpo}_info.get(x) = Some w`: a line of the text is a STACK WIN record w0 of that type with
       w = w0 except for a size shortened by the overlap repair (0 < w.size <= w0.size), and
       w.address <= x < w.address + w.size without overflow.
   No hypothesis about the text is left: every numeric bound comes from the digit limits of the recognisers. *)
Theorem c08_text_tables_sound :
  forall (bytes : list Z) (sch : list Z) p s,
    let lines := map C09.Grammar.to_rle (fst (C09.Grammar.split_bytes bytes [])) in
    C09.Driver.drive_c lines (Z.of_nat (length (snd (C09.Grammar.split_bytes bytes [])))) sch = Ret (C09.Model.ROk p, s) ->
    C09.Grammar.join_bytes (fst (C09.Grammar.split_bytes bytes [])) (snd (C09.Grammar.split_bytes bytes [])) = bytes /\
    exists t, C09.Driver.table_of (C09.Model.ROk p) = Ret (Some t) /\ tables_sound lines t.
Proof. exact text_tables_sound_bytes. Qed.
Print Assumptions c08_text_tables_sound.

(* the same for an input given as complete lines + an unterminated rest, and what SymbolParser::finish guarantees on
   every parser state the recognisers can build (pst_wf) whose records come from the lines (prov) *)
Theorem c08_text_finish_sound :
  (forall lines tail sch p s, C09.Driver.drive_c lines tail sch = Ret (C09.Model.ROk p, s) ->
     exists t, C09.Driver.table_of (C09.Model.ROk p) = Ret (Some t) /\ tables_sound lines t) /\
  (forall lines p t, C09.ProofsFinish.pst_wf p -> prov lines p -> C09.Grammar.finish p = Ret t -> tables_sound lines t) /\
  (forall lines, prov lines C09.Grammar.init_pst) /\
  (forall lines p s p', In s lines -> prov lines p -> C09.Grammar.recog_pst p s = inl p' -> prov lines p').
Proof.
  split; [exact text_tables_sound|]. split; [exact st_tables_sound|]. split; [exact prov_init|exact prov_recog].
Qed.
Print Assumptions c08_text_finish_sound.

(* ... and COMPLETENESS from the text (C08/SymTextC.v): if no complete line is longer than 80 KiB (such a line would be
   dropped as corrupt) and the parse is Ok, a FUNC line whose range [address, address + size) meets the range of no
   OTHER FUNC line of the text (lines without a range - size 0, or reaching past 2^64 - do not count) is found by
   `functions.get(x)` at every address x in it, and the function found carries the address, size, parameter size and
   name written on that line.  (A FUNC line is never taken for a sub-line of the open group nor for a blank line, so
   the FUNC items the parser holds are, in file order, exactly the FUNC lines of the text: hdrs_fold.) *)
Theorem c08_text_func_complete :
  forall lines tail sch p s,
  Forall (fun l => C09.Grammar.cllen l <= C09.Model.HALF_CAP) lines ->
  C09.Driver.drive_c lines tail sch = Ret (C09.Model.ROk p, s) ->
  exists t, C09.Driver.table_of (C09.Model.ROk p) = Ret (Some t) /\
    forall L1 s0 L2 f0 x,
      lines = L1 ++ s0 :: L2 -> C09.Grammar.line_top s0 = Some (C09.Grammar.IFunc f0) ->
      let a := C09.Grammar.fr_addr f0 in let sz := C09.Grammar.fr_size f0 in
      sz <> 0 -> a + sz < two64 -> a <= x < a + sz ->
      (forall s' f', In s' (L1 ++ L2) -> C09.Grammar.line_top s' = Some (C09.Grammar.IFunc f') ->
         C09.Grammar.fr_size f' = 0 \/ two64 <= C09.Grammar.fr_addr f' + C09.Grammar.fr_size f' \/
         C09.Grammar.fr_addr f' + C09.Grammar.fr_size f' <= a \/ a + sz <= C09.Grammar.fr_addr f') ->
      exists f, rm_get (C09.Grammar.t_funcs t) x = Some f /\
        C09.Grammar.sf_addr f = a /\ C09.Grammar.sf_size f = sz /\
        C09.Grammar.sf_psize f = C09.Grammar.fr_psize f0 /\ C09.Grammar.sf_name f = C09.Grammar.fr_name f0.
Proof. exact text_func_complete_arith. Qed.
Print Assumptions c08_text_func_complete.

(* the same for `cfi_stack_info` (C08/SymTextCfi.v): a STACK CFI INIT line is never taken for a sub-line - in particular
   not for a `STACK CFI` delta line of the open group: after "STACK CFI " comes "INIT", which is no hex address - so an
   isolated STACK CFI INIT line is found at every address of its range, with its init rule and size *)
Theorem c08_text_cfi_complete :
  forall lines tail sch p s,
  Forall (fun l => C09.Grammar.cllen l <= C09.Model.HALF_CAP) lines ->
  C09.Driver.drive_c lines tail sch = Ret (C09.Model.ROk p, s) ->
  exists t, C09.Driver.table_of (C09.Model.ROk p) = Ret (Some t) /\
    forall L1 s0 L2 c0 x,
      lines = L1 ++ s0 :: L2 -> C09.Grammar.line_top s0 = Some (C09.Grammar.ICfiInit c0) ->
      let a := C09.Grammar.cr_addr (C09.Grammar.ci_init c0) in let sz := C09.Grammar.ci_size c0 in
      sz <> 0 -> a + sz < two64 -> a <= x < a + sz ->
      (forall s' c', In s' (L1 ++ L2) -> C09.Grammar.line_top s' = Some (C09.Grammar.ICfiInit c') ->
         C09.Grammar.ci_size c' = 0 \/
         two64 <= C09.Grammar.cr_addr (C09.Grammar.ci_init c') + C09.Grammar.ci_size c' \/
         C09.Grammar.cr_addr (C09.Grammar.ci_init c') + C09.Grammar.ci_size c' <= a \/
         a + sz <= C09.Grammar.cr_addr (C09.Grammar.ci_init c')) ->
      exists c, rm_get (C09.Grammar.t_cfi t) x = Some c /\
        C09.Grammar.sc_init c = C09.Grammar.ci_init c0 /\ C09.Grammar.sc_size c = sz.
Proof. exact text_cfi_complete_arith. Qed.
Print Assumptions c08_text_cfi_complete.

(* ... and for the two STACK WIN tables (C08/SymTextWin.v; fd = true: frame data, false: FPO; win_item fd w is the item
   of a STACK WIN line of that type): a STACK WIN line is always a top-level line, and a line whose range meets the
   range of no other STACK WIN line of its type is returned AS WRITTEN (the overlap repair leaves it alone: it only
   ever looks at and changes the last vector element) at every address of its range *)
Theorem c08_text_win_complete :
  forall lines tail sch p s,
  Forall (fun l => C09.Grammar.cllen l <= C09.Model.HALF_CAP) lines ->
  C09.Driver.drive_c lines tail sch = Ret (C09.Model.ROk p, s) ->
  exists t, C09.Driver.table_of (C09.Model.ROk p) = Ret (Some t) /\
    forall fd L1 s0 L2 w0 x,
      lines = L1 ++ s0 :: L2 -> C09.Grammar.line_top s0 = Some (win_item fd w0) ->
      let a := C09.Grammar.wi_addr w0 in let sz := C09.Grammar.wi_size w0 in
      sz <> 0 -> a + sz < two64 -> a <= x < a + sz ->
      (forall s' w', In s' (L1 ++ L2) -> C09.Grammar.line_top s' = Some (win_item fd w') ->
         C09.Grammar.wi_size w' = 0 \/ two64 <= C09.Grammar.wi_addr w' + C09.Grammar.wi_size w' \/
         C09.Grammar.wi_addr w' + C09.Grammar.wi_size w' <= a \/ a + sz <= C09.Grammar.wi_addr w') ->
      rm_get (if fd then C09.Grammar.t_win_fd t else C09.Grammar.t_win_fpo t) x = Some w0.
Proof. exact text_win_complete_both. Qed.
Print Assumptions c08_text_win_complete.

(* non-vacuity: a text with two overlapping FUNCs (the second is dropped), line records (one empty, one conflicting),
   a STACK CFI INIT record, two overlapping STACK WIN records (the first is shortened) and a FUNC reaching past the
   address space, read 3 and 5 bytes at a time and then whole: the parse is Ok and the lookups answer *)
Fixpoint bytes_of_string (s : string) : list Z :=
  match s with EmptyString => [] | String c r => Z.of_N (N_of_ascii c) :: bytes_of_string r end.
Definition nl : string := String (ascii_of_nat 10) EmptyString.
Definition ex_text : list Z := bytes_of_string
  ("MODULE windows x86 ABCD m" ++ nl ++ "FUNC 10 8 0 f" ++ nl ++ "10 4 7 1" ++ nl ++ "14 0 8 1" ++ nl ++ "12 9 9 1" ++ nl ++
   "FUNC 14 8 0 g" ++ nl ++ "STACK CFI INIT 10 8 .cfa: $esp 4 +" ++ nl ++
   "STACK WIN 4 0 a 0 0 0 0 0 0 1 $eip" ++ nl ++ "STACK WIN 4 1 9 0 0 0 0 0 0 1 $eip" ++ nl ++
   "FUNC ffffffffffffffff 2 0 h" ++ nl)%string.
Example c08_nonvacuous_text :
  match C09.Driver.drive_c (map C09.Grammar.to_rle (fst (C09.Grammar.split_bytes ex_text [])))
                           (Z.of_nat (length (snd (C09.Grammar.split_bytes ex_text [])))) [3; 5] with
  | Ret (C09.Model.ROk p, s) =>
      match C09.Driver.table_of (C09.Model.ROk p) with
      | Ret (Some t) =>
          (map (fun e => (fst e, map fst (C09.Grammar.sf_lines (snd e)))) (C09.Grammar.t_funcs t),
           map fst (C09.Grammar.t_cfi t),
           map (fun e => (fst e, C09.Grammar.wi_size (snd e))) (C09.Grammar.t_win_fd t),
           match rm_get (C09.Grammar.t_funcs t) 18 with
           | Some f => Some (C09.Grammar.sf_addr f, C09.Grammar.sf_size f,
                             option_map C11.Model.l_line (rm_get (C09.Grammar.sf_lines f) 19))
           | None => None end)
          = ([((16, 23), [(16, 19)])], [(16, 23)], [((0, 0), 1); ((1, 9), 9)], Some (16, 8, Some 7))
      | _ => False
      end
  | _ => False
  end.
Proof. vm_compute. reflexivity. Qed.

(* ---- the forwarding views UnifiedMemoryList / UnifiedMemoryInfoList, GENERATED from their source (which method every
   arm calls, which wrapper it applies, the two halves of by_addr, which source `new` prefers): a lookup / iteration
   through a view is the lookup / by-address iteration of the wrapped list under the wrapper of the same variant ---- *)
Theorem c08_gen_unified_views :
  (forall l, (forall x, g_uml_memory_at_address l x = option_map (uml_wrap l) (rm_get (fst (uml_lst l)) x)) /\
             g_uml_by_addr l = map (uml_wrap l) (map snd (fst (uml_lst l)))) /\
  (forall l, (forall x, g_umil_memory_info_at_address l x = option_map (umil_wrap l) (rm_get (fst (umil_lst l)) x)) /\
             g_umil_by_addr l = map (umil_wrap l) (map snd (fst (umil_lst l)))) /\
  (forall info maps, g_umil_new info maps =
     match info with Some i => Some (GUMIL_Info i) | None => option_map GUMIL_Maps maps end).
Proof. split; [exact g_uml_forward|]. split; [exact g_umil_forward|exact g_umil_new_spec]. Qed.
Print Assumptions c08_gen_unified_views.

(* end to end through UnifiedMemoryList (either variant), from the raw (base, size) fields: the region a lookup returns
   is of the list's own variant, its index is in bounds, base <= x < base + size without overflow; by_addr is the
   wrapped table in address order; an isolated region is found *)
Theorem c08_end_to_end_unified_memory : forall p ents (mk : g_lst -> g_uml),
  In mk [GUML_Memory; GUML_Memory64] -> u64_ents ents ->
  exists t, g_indexed_table (g_mr_MinidumpMemoryBase p) ents = Ret t /\
    let l := mk (t, Z.of_nat (length ents)) in
    (forall x u, g_uml_memory_at_address l x = Some u ->
       u = uml_wrap l (um_index u) /\ 0 <= um_index u < Z.of_nat (length ents) /\
       exists b s, nth_error ents (Z.to_nat (um_index u)) = Some (b, s) /\ s <> 0 /\ b + s < two64 /\ b <= x < b + s) /\
    g_uml_by_addr l = map (uml_wrap l) (map snd t) /\
    StronglySorted (fun a b => snd (fst a) < fst (fst b)) t /\
    (forall e1 b s e2 x, ents = e1 ++ (b, s) :: e2 -> s <> 0 -> b + s < two64 -> b <= x < b + s ->
        (forall b' s', In (b', s') (e1 ++ e2) -> s' = 0 \/ two64 <= b' + s' \/ b' + s' <= b \/ b + s <= b') ->
        g_uml_memory_at_address l x = Some (uml_wrap l (Z.of_nat (length e1)))).
Proof. exact unified_memory_end_to_end. Qed.
Print Assumptions c08_end_to_end_unified_memory.

(* ... and through UnifiedMemoryInfoList: over a memory-info list (size-based) and over Linux maps ((first, last) pairs) *)
Theorem c08_end_to_end_unified_info : forall p ents, u64_ents ents ->
  (exists t, g_indexed_table (g_mr_MinidumpMemoryInfo p) ents = Ret t /\
     let l := GUMIL_Info (t, Z.of_nat (length ents)) in
     (forall x u, g_umil_memory_info_at_address l x = Some u ->
        u = GUMI_Info (umi_index u) /\ 0 <= umi_index u < Z.of_nat (length ents) /\
        exists b s, nth_error ents (Z.to_nat (umi_index u)) = Some (b, s) /\ s <> 0 /\ b + s < two64 /\ b <= x < b + s) /\
     g_umil_by_addr l = map GUMI_Info (map snd t) /\ StronglySorted (fun a b => snd (fst a) < fst (fst b)) t) /\
  (exists t, g_indexed_table g_mr_MinidumpLinuxMapInfo ents = Ret t /\
     let l := GUMIL_Maps (t, Z.of_nat (length ents)) in
     (forall x u, g_umil_memory_info_at_address l x = Some u ->
        u = GUMI_Map (umi_index u) /\ 0 <= umi_index u < Z.of_nat (length ents) /\
        exists lo hi, nth_error ents (Z.to_nat (umi_index u)) = Some (lo, hi) /\ lo <= x <= hi) /\
     g_umil_by_addr l = map GUMI_Map (map snd t) /\ StronglySorted (fun a b => snd (fst a) < fst (fst b)) t).
Proof. exact unified_info_end_to_end. Qed.
Print Assumptions c08_end_to_end_unified_info.

Example c08_nonvacuous_unified :
  let ents := [(5, 10); (0, 0); (7, 2); (20, 1); (18446744073709551600, 15)] in
  u64_ents ents /\
  match g_indexed_table (g_mr_MinidumpMemoryBase Debug) ents with
  | Ret t => let l := GUML_Memory64 (t, 5) in
             (g_uml_memory_at_address l 20, g_uml_memory_at_address l 16, g_uml_by_addr l)
             = (Some (GUM_Memory64 3), None, [GUM_Memory64 0; GUM_Memory64 3; GUM_Memory64 4])
  | _ => False
  end /\
  g_umil_new (Some ([], 0)) (Some ([((1, 2), 0)], 1)) = Some (GUMIL_Info ([], 0)).
Proof. cbv zeta. split; [repeat constructor; cbn; discriminate|split; vm_compute; reflexivity]. Qed.

(* ---- the *_at_address / by_addr of the index-valued lists, GENERATED from their bodies (`.map(|&index| &self.v[index])`
   -> g_lookup_index with the index as a panic site, `.and_then(|&index| self.v.get(index))` -> g_lookup_get,
   `.ranges_values().map(.. &self.v[index])` -> g_iter_index), on the table the generated builder makes from the raw
   entries: no index panic in any of them; the entry a lookup returns has base <= x < base + size without overflow;
   by_addr yields, for every table range in (sorted, non-overlapping) address order, the entry whose own range it is ---- *)
Theorem c08_gen_lookups_total : forall mr : profile -> Z -> Z -> outcome (option range),
  In mr [g_mr_MinidumpModule; g_mr_MinidumpMemoryBase; g_mr_MinidumpMemoryInfo] ->
  forall p ents, u64_ents ents ->
  exists t, g_indexed_table (mr p) ents = Ret t /\
    StronglySorted (fun a b => snd (fst a) < fst (fst b)) t /\
    (forall x, exists o,
        g_MinidumpModuleList_module_at_address ents t x = Ret o /\
        g_MinidumpMemoryListBase_memory_at_address ents t x = Ret o /\
        g_MinidumpMemoryInfoList_memory_info_at_address ents t x = Ret o /\
        forall b s, o = Some (b, s) -> s <> 0 /\ b + s < two64 /\ b <= x < b + s) /\
    exists l,
        g_MinidumpModuleList_by_addr ents t = Ret l /\ g_MinidumpMemoryListBase_by_addr ents t = Ret l /\
        g_MinidumpMemoryInfoList_by_addr ents t = Ret l /\
        Forall2 (fun e a => fst e = (fst a, fst a + snd a - 1) /\ snd a <> 0 /\ fst a + snd a < two64) t l.
Proof. exact lists_lookup_end_to_end. Qed.
Print Assumptions c08_gen_lookups_total.

Theorem c08_gen_lookups_total_maps : forall ents, u64_ents ents ->
  exists t, g_indexed_table g_mr_MinidumpLinuxMapInfo ents = Ret t /\
    StronglySorted (fun a b => snd (fst a) < fst (fst b)) t /\
    (forall x, exists o, g_MinidumpLinuxMaps_memory_info_at_address ents t x = Ret o /\
        forall lo hi, o = Some (lo, hi) -> lo <= x <= hi) /\
    exists l, g_MinidumpLinuxMaps_by_addr ents t = Ret l /\ Forall2 (fun e a => fst e = a /\ fst a <= snd a) t l.
Proof. exact maps_lookup_end_to_end. Qed.
Print Assumptions c08_gen_lookups_total_maps.

Example c08_nonvacuous_lookups :
  let ents := [(5, 10); (0, 0); (7, 2); (20, 1); (18446744073709551600, 15)] in
  match g_indexed_table (g_mr_MinidumpModule Release) ents with
  | Ret t => (g_MinidumpModuleList_module_at_address ents t 14, g_MinidumpMemoryListBase_memory_at_address ents t 15,
              g_MinidumpModuleList_by_addr ents t, g_MinidumpModuleList_module_at_address [(5, 10)] t 20)
             = (Ret (Some (5, 10)), Ret None, Ret [(5, 10); (20, 1); (18446744073709551600, 15)], Panic PANIC_G_INDEX)
  | _ => False
  end.
Proof. vm_compute. reflexivity. Qed.

(* ---- memory lists read from stream bytes.  MinidumpMemoryList::read: a raw descriptor (start_of_memory_range,
   data_size: u32, rva: u32) is kept iff the GENERATED MinidumpMemory::read accepts it — rva <> 0, data_size <> 0 and
   rva + data_size <= |file| (location_slice; no overflow) — the others are skipped and from_regions runs over the kept
   ones: the read never fails or traps, and the table is the size-based table of the kept regions (indices are
   positions in the kept vector).  MinidumpMemory64List::read: the regions lie back to back from the base rva; the
   read is Err exactly when the list is non-empty and the last region ends past the file; otherwise the table is the
   size-based table of all descriptors. ---- *)
Theorem c08_gen_memory_readers :
  (forall len b s r, u32 s -> u32 r ->
     g_memory_read len b s r = if memory_read_keep len r s then Some (b, s) else None) /\
  (forall len r s, memory_read_keep len r s = true <-> r <> 0 /\ s <> 0 /\ r + s <= len) /\
  (forall len descs, u64_ents descs -> forall rva, 0 <= rva ->
     g_mem64_regions len rva descs = if mem64_ok len rva (map snd descs) then Some descs else None).
Proof. split; [exact g_memory_read_eq|]. split; [exact memory_read_keep_iff|exact g_mem64_regions_eq]. Qed.
Print Assumptions c08_gen_memory_readers.

Theorem c08_end_to_end_memory_list_read : forall p len descs, Forall desc_ok descs ->
  let kept := map (fun d => (fst (fst d), snd (fst d)))
                  (filter (fun d => memory_read_keep len (snd d) (snd (fst d))) descs) in
  g_memory_list_kept len descs = kept /\
  exists t, g_memory_list_read p len descs = Ret t /\
    StronglySorted (fun a b => snd (fst a) < fst (fst b)) t /\
    (forall x i, rm_get t x = Some i -> 0 <= i /\ exists b s, nth_error kept (Z.to_nat i) = Some (b, s) /\
                                   s <> 0 /\ b + s < two64 /\ b <= x < b + s) /\
    (forall e1 b s e2 x, kept = e1 ++ (b, s) :: e2 -> s <> 0 -> b + s < two64 -> b <= x < b + s ->
        (forall b' s', In (b', s') (e1 ++ e2) -> s' = 0 \/ two64 <= b' + s' \/ b' + s' <= b \/ b + s <= b') ->
        rm_get t x = Some (Z.of_nat (length e1))).
Proof. exact memory_list_read_end_to_end. Qed.
Print Assumptions c08_end_to_end_memory_list_read.

Theorem c08_end_to_end_memory64_read : forall p len rva descs, u64_ents descs -> 0 <= rva -> len < two64 ->
  (g_mem64_read p len rva descs = Ret None /\ descs <> [] /\ len < rva + fold_right Z.add 0 (map snd descs)) \/
  (exists t, g_mem64_read p len rva descs = Ret (Some t) /\
     (descs = [] \/ rva + fold_right Z.add 0 (map snd descs) <= len) /\
     StronglySorted (fun a b => snd (fst a) < fst (fst b)) t /\
     (forall x i, rm_get t x = Some i -> 0 <= i /\ exists b s, nth_error descs (Z.to_nat i) = Some (b, s) /\
                                    s <> 0 /\ b + s < two64 /\ b <= x < b + s) /\
     (forall e1 b s e2 x, descs = e1 ++ (b, s) :: e2 -> s <> 0 -> b + s < two64 -> b <= x < b + s ->
         (forall b' s', In (b', s') (e1 ++ e2) -> s' = 0 \/ two64 <= b' + s' \/ b' + s' <= b \/ b + s <= b') ->
         rm_get t x = Some (Z.of_nat (length e1)))).
Proof. exact memory64_read_end_to_end. Qed.
Print Assumptions c08_end_to_end_memory64_read.

Example c08_nonvacuous_memory_read :
  let descs := [(5, 10, 1); (100, 4, 0); (7, 2, 3); (20, 0, 4); (30, 70, 20); (18446744073709551600, 15, 6)] in
  Forall desc_ok descs /\
  g_memory_list_kept 80 descs = [(5, 10); (7, 2); (18446744073709551600, 15)] /\
  g_memory_list_read Debug 80 descs = Ret [((5, 14), 0); ((18446744073709551600, 18446744073709551614), 2)] /\
  g_mem64_read Release 80 16 [(5, 10); (7, 2); (40, 52)] = Ret (Some [((5, 14), 0); ((40, 91), 2)]) /\
  g_mem64_read Release 80 16 [(5, 10); (7, 2); (40, 53)] = Ret None.
Proof.
  cbv zeta. split; [|repeat split; vm_compute; reflexivity].
  repeat constructor; unfold u64, u32, two64, two32; cbn; try discriminate; reflexivity.
Qed.
