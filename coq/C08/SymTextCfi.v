(* C08/SymTextCfi.v — completeness of the STACK CFI INIT table of a symbol file, from its TEXT (the analogue of
   C08/SymTextC.v for `cfi_stack_info`): a STACK CFI INIT line is never taken for a sub-line (not for a `STACK CFI`
   delta line either: after "STACK CFI " comes "INIT", which is not a hex address) nor for a blank line; the CFI items
   the parser holds are, in file order, exactly the STACK CFI INIT lines; finish_item keeps init rule, size and range. *)
From Coq Require Import Lia ZArith List Bool Sorting.Sorted.
From RM Require Import Base.Word C08.Model C08.Proofs C11.Model C09.Model C09.Grammar C09.Driver C09.Proofs
                       C09.ProofsBytes C09.ProofsFinish C09.ProofsFinal C08.SymText C08.SymTextC.
Import ListNotations.
Open Scope Z_scope.

Lemma tag_app a : forall b s, tag (a ++ b) s = match tag a s with Some s1 => tag b s1 | None => None end.
Proof.
  induction a as [|x a IH]; intros b s; cbn [app tag]; [reflexivity|].
  destruct (uncons s) as [[y s1]|]; [|reflexivity]. destruct (y =? x); [apply IH|reflexivity].
Qed.

(* a run of blanks followed by a byte that is not a blank: space1 stops in front of it *)
Lemma space1_then s sa b : uncons s = Some (32, sa) -> hd_byte sa = Some b -> is_sp b = false -> space1 s = Some sa.
Proof.
  destruct s as [|[b0 c] t]; cbn [uncons]; [discriminate|]. intros U Hh Hb.
  destruct (c <=? 1); inversion U; subst b0 sa.
  - cbn [space1]. unfold is_sp at 1. cbn. f_equal. destruct t as [|[b1 c1] t1]; [discriminate|].
    cbn [hd_byte] in Hh. inversion Hh; subst b1. cbn [skip_while]. rewrite Hb. reflexivity.
  - cbn [hd_byte] in Hh. inversion Hh; subst b. discriminate Hb.
Qed.

Lemma hex64sp_nonhex s b : hd_byte s = Some b -> hexval b = None -> hex64sp s = None.
Proof.
  intros Hh Hv. destruct (hd_uncons s b Hh) as [s' U]. unfold hex64sp, hex_str. cbn [digits]. rewrite U, Hv. reflexivity.
Qed.

(* a line that starts with "STACK CFI INIT" *)
Lemma cfi_init_line_facts s s1 : hdr T_STACK_CFI_INIT s = Some s1 ->
  eol s = false /\ sub_func s = None /\ sub_cfi s = None.
Proof.
  unfold hdr. destruct (tag T_STACK_CFI_INIT s) as [s'|] eqn:E; [|discriminate]. intros _.
  change T_STACK_CFI_INIT with (T_STACK_CFI ++ [32; 73; 78; 73; 84]) in E. rewrite tag_app in E.
  destruct (tag T_STACK_CFI s) as [s9|] eqn:E9; [|discriminate].
  assert (H0 : hd_byte s = Some 83).
  { unfold T_STACK_CFI in E9. apply tag_cons in E9. destruct E9 as [a [Ua _]]. eapply uncons_hd. exact Ua. }
  apply tag_cons in E. destruct E as [sa [Ua Ta]]. apply tag_cons in Ta. destruct Ta as [sb [Ub _]].
  pose proof (uncons_hd _ _ _ Ub) as Hsa.
  split; [|split].
  - unfold eol. destruct s as [|[b c] t]; [discriminate|]. cbn [hd_byte] in H0. inversion H0; subst b.
    cbn [skip_while]. unfold is_cr. cbn. reflexivity.
  - unfold sub_func, T_INLINE_ORIGIN_SP, T_INLINE_SP. rewrite !(tag_hd_ne 73 83 _ s H0) by lia.
    unfold sub_line_data. rewrite (hex64sp_nonhex s 83 H0 eq_refl). reflexivity.
  - unfold sub_cfi, hdr. rewrite E9. rewrite (space1_then s9 sa 73 Ua Hsa eq_refl).
    rewrite (hex64sp_nonhex sa 73 Hsa eq_refl). reflexivity.
Qed.

Lemma cfi_line_is_top s c : line_top s = Some (ICfiInit c) ->
  eol s = false /\ sub_func s = None /\ sub_cfi s = None.
Proof.
  intros H. apply line_top_kind in H. cbn [kind_ok] in H. unfold p_stack_cfi_init in H.
  destruct (hdr T_STACK_CFI_INIT s) as [s1|] eqn:E; [|discriminate]. eapply cfi_init_line_facts. exact E.
Qed.

(* ------------------------------------------------------------------ the CFI items the parser holds = the INIT lines *)
Definition chdr : Type := (cfi_rule * Z)%type.
Definition chdr_raw (c : cfi_raw) : chdr := (ci_init c, ci_size c).
Definition chdr_sc (c : scfi) : chdr := (sc_init c, sc_size c).
Definition chdr_range (h : chdr) : option range := mk_range (cr_addr (fst h)) (snd h).

Definition allcfis (p : pst) : list cfi_raw :=
  (match p_cur p with CCfi c => [c] | _ => [] end) ++ p_cfis p.
Definition chdrs (p : pst) : list chdr := map chdr_raw (allcfis p).
Definition line_chdr (s : rle) : list chdr :=
  match line_top s with Some (ICfiInit c) => [chdr_raw c] | _ => [] end.

Lemma allcfis_close p : p_cfis (close_cur p) = allcfis p.
Proof. unfold allcfis, close_cur. destruct (p_cur p) eqn:E; cbn; rewrite ?E; cbn; auto. Qed.

Lemma chdrs_top p s p' : top p s = inl p' -> chdrs p' = line_chdr s ++ map chdr_raw (p_cfis p).
Proof.
  intros H. destruct (eol s) eqn:Ee.
  { assert (Hn : line_chdr s = []).
    { unfold line_chdr. destruct (line_top s) as [[]|] eqn:El; try reflexivity.
      apply cfi_line_is_top in El. destruct El as [El _]. congruence. }
    rewrite Hn. unfold top in H. rewrite Ee in H. inversion H; subst. reflexivity. }
  unfold top in H. rewrite Ee in H. unfold chdrs, allcfis, line_chdr.
  destruct (line_top s) as [it|] eqn:E; [|discriminate].
  destruct it as [id f|u| |id nm|id nm|pb|f|w|c].
  - destruct (p_lines p =? 0); [|discriminate]. inversion H; subst; reflexivity.
  - inversion H; subst; reflexivity.
  - inversion H; subst; reflexivity.
  - inversion H; subst; reflexivity.
  - inversion H; subst; reflexivity.
  - inversion H; subst; reflexivity.
  - inversion H; subst; reflexivity.
  - destruct w as [i|i|]; inversion H; subst; reflexivity.
  - inversion H; subst; reflexivity.
Qed.

Lemma chdrs_recog p s p' : recog_pst p s = inl p' -> chdrs p' = line_chdr s ++ chdrs p.
Proof.
  intros H. unfold recog_pst in H.
  assert (Hsub : (sub_func s <> None \/ sub_cfi s <> None) -> line_chdr s = []).
  { intros Hs. unfold line_chdr. destruct (line_top s) as [[]|] eqn:El; try reflexivity.
    apply cfi_line_is_top in El. destruct El as [_ [A B]]. destruct Hs; congruence. }
  destruct (p_cur p) as [|f|c] eqn:Ec.
  - rewrite (chdrs_top p s p' H). unfold chdrs, allcfis. rewrite Ec. reflexivity.
  - destruct (sub_func s) as [[id nm|l|l]|] eqn:Es.
    + rewrite Hsub by (left; discriminate). inversion H; subst. unfold chdrs, allcfis; cbn. rewrite Ec. reflexivity.
    + rewrite Hsub by (left; discriminate). inversion H; subst. unfold chdrs, allcfis; cbn. rewrite Ec. reflexivity.
    + rewrite Hsub by (left; discriminate). inversion H; subst. unfold chdrs, allcfis; cbn. rewrite Ec. reflexivity.
    + rewrite (chdrs_top _ s p' H), allcfis_close. reflexivity.
  - destruct (sub_cfi s) as [r|] eqn:Es.
    + rewrite Hsub by (right; discriminate). inversion H; subst. unfold chdrs, allcfis; cbn. rewrite Ec. reflexivity.
    + rewrite (chdrs_top _ s p' H), allcfis_close. reflexivity.
Qed.

Lemma chdrs_fold : forall ls p p',
  fold_recog rle pst recog_pst lineno_pst p ls = inl p' -> chdrs p' = rev (flat_map line_chdr ls) ++ chdrs p.
Proof.
  induction ls as [|s t IH]; intros p p' H; cbn [fold_recog] in H.
  - inversion H; subst. reflexivity.
  - destruct (recog_pst p s) as [p1|c] eqn:E; [|discriminate].
    assert (Hr : rev (line_chdr s) = line_chdr s) by (unfold line_chdr; destruct (line_top s) as [[]|]; reflexivity).
    rewrite (IH p1 p' H), (chdrs_recog p s p1 E). cbn [flat_map]. rewrite rev_app_distr, <- app_assoc, Hr. reflexivity.
Qed.

(* ------------------------------------------------------------------ finish_item keeps init rule, size and range *)
Definition cranged (h : chdr) : list (range * chdr) := match chdr_range h with Some r => [(r, h)] | None => [] end.
Definition cent_hdr (e : range * scfi) : range * chdr := (fst e, chdr_sc (snd e)).

Lemma finish_cfis_hdrs : forall l, map cent_hdr (keep_somes (map finish_cfi l)) = flat_map cranged (map chdr_raw l).
Proof.
  induction l as [|c t IH]; cbn [map keep_somes flat_map]; [reflexivity|].
  unfold finish_cfi at 1. unfold cranged at 1. unfold chdr_range, chdr_raw. cbn [fst snd].
  destruct (mk_range (cr_addr (ci_init c)) (ci_size c)); cbn [keep_somes map app]; rewrite IH; reflexivity.
Qed.

Definition cfi_line_range (s : rle) : list range :=
  match line_top s with
  | Some (ICfiInit c) => match mk_range (cr_addr (ci_init c)) (ci_size c) with Some r => [r] | None => [] end
  | _ => []
  end.

Lemma cranged_line_in ls r h : In (r, h) (flat_map cranged (flat_map line_chdr ls)) ->
  exists s, In s ls /\ In r (cfi_line_range s).
Proof.
  intros H. apply in_flat_map in H. destruct H as [h' [Hh Hr]]. apply in_flat_map in Hh. destruct Hh as [s [Hs Hl]].
  exists s. split; [exact Hs|]. unfold line_chdr in Hl. unfold cfi_line_range.
  destruct (line_top s) as [[| | | | | | | |c]|]; try (destruct Hl; fail).
  destruct Hl as [Hl|[]]. rewrite <- Hl in Hr.
  unfold cranged, chdr_range, chdr_raw in Hr. cbn [fst snd] in Hr.
  destruct (mk_range (cr_addr (ci_init c)) (ci_size c)); [|destruct Hr].
  destruct Hr as [Hr|[]]. inversion Hr; subst. left. reflexivity.
Qed.

Lemma text_cfi_complete lines tail sch p s :
  Forall (fun l => cllen l <= HALF_CAP) lines ->
  drive_c lines tail sch = Ret (ROk p, s) ->
  exists t, table_of (ROk p) = Ret (Some t) /\
    forall L1 s0 L2 c0 r x,
      lines = L1 ++ s0 :: L2 -> line_top s0 = Some (ICfiInit c0) ->
      mk_range (cr_addr (ci_init c0)) (ci_size c0) = Some r ->
      (forall s' r', In s' (L1 ++ L2) -> In r' (cfi_line_range s') -> intersects r r' = false) ->
      contains r x = true ->
      exists c, rm_get (t_cfi t) x = Some c /\ sc_init c = ci_init c0 /\ sc_size c = ci_size c0.
Proof.
  intros Hshort H.
  destruct (st_final_prov lines tail sch p s H) as [W _].
  pose proof (ok_is_fold rle cllen pst init_pst recog_pst bump_pst lineno_pst cllen_pos lines tail sch p s Hshort H) as Hfold.
  apply chdrs_fold in Hfold. rewrite app_nil_r in Hfold.
  destruct (finish_total p W) as [t Ht]. exists t. split; [cbn [table_of]; rewrite Ht; reflexivity|].
  unfold finish in Ht. cbv zeta in Ht.
  destruct (close_cur_wf p W) as [Wc _]. destruct Wc as (_ & _ & Hc & _).
  rewrite (allcfis_close p) in Ht, Hc.
  set (cl := keep_somes (map finish_cfi (rev (allcfis p)))) in *.
  assert (Wcl : wf_ranges cl) by (apply finish_cfis_wf; apply Forall_rev; exact Hc).
  assert (Htc : t_cfi t = into_rangemap_safe_p scfi_eqb cl).
  { destruct (finish_funcs _) as [fl| | |]; cbn [obind] in Ht; try discriminate.
    destruct (build_p sfunc_eqb fl) as [funcs| | |]; cbn [obind] in Ht; try discriminate.
    rewrite (build_total_p scfi_eqb cl Wcl) in Ht. cbn [obind] in Ht.
    repeat match type of Ht with
           | obind ?e _ = Ret _ => destruct e; cbn [obind] in Ht; try discriminate
           end.
    inversion Ht; subst t. reflexivity. }
  pose proof (finish_cfis_hdrs (rev (allcfis p))) as Hmap. fold cl in Hmap.
  rewrite map_rev in Hmap. fold (chdrs p) in Hmap. rewrite Hfold, rev_involutive in Hmap.
  intros L1 s0 L2 c0 r x Hl Hs0 Hr Hiso Hx. subst lines.
  rewrite !flat_map_app in Hmap. cbn [flat_map] in Hmap. rewrite flat_map_app in Hmap.
  unfold line_chdr at 2 in Hmap. rewrite Hs0 in Hmap. cbn [flat_map app] in Hmap.
  unfold cranged at 2 in Hmap. unfold chdr_range, chdr_raw in Hmap. cbn [fst snd] in Hmap. rewrite Hr in Hmap.
  fold (chdr_raw c0) in Hmap. cbn [app] in Hmap.
  apply map_eq_app in Hmap. destruct Hmap as (l1 & l2' & Hcl & M1 & M2).
  apply map_eq_cons in M2. destruct M2 as (e & l2 & Hl2 & He & M2). subst l2'.
  destruct e as [re c]. unfold cent_hdr in He. cbn [fst snd] in He. assert (re = r) by (inversion He; reflexivity). subst re.
  exists c. split; [|pose proof (f_equal snd He) as Hh; cbn [snd] in Hh; unfold chdr_sc, chdr_raw in Hh; inversion Hh; auto].
  rewrite Htc, Hcl. rewrite Hcl in Wcl.
  apply (isolated_complete_p scfi_eqb st_scfi_eqb_eq l1 r c l2 x Wcl); [|exact Hx].
  intros r' v' Hin.
  assert (Hin' : In (r', chdr_sc v') (flat_map cranged (flat_map line_chdr (L1 ++ L2)))).
  { rewrite !flat_map_app. rewrite <- M1, <- M2. rewrite <- map_app. apply (in_map cent_hdr _ (r', v')). exact Hin. }
  apply cranged_line_in in Hin'. destruct Hin' as [s' [Hs' Hr']]. exact (Hiso s' r' Hs' Hr').
Qed.

Lemma text_cfi_complete_arith lines tail sch p s :
  Forall (fun l => cllen l <= HALF_CAP) lines ->
  drive_c lines tail sch = Ret (ROk p, s) ->
  exists t, table_of (ROk p) = Ret (Some t) /\
    forall L1 s0 L2 c0 x,
      lines = L1 ++ s0 :: L2 -> line_top s0 = Some (ICfiInit c0) ->
      let a := cr_addr (ci_init c0) in let sz := ci_size c0 in
      sz <> 0 -> a + sz < two64 -> a <= x < a + sz ->
      (forall s' c', In s' (L1 ++ L2) -> line_top s' = Some (ICfiInit c') ->
         ci_size c' = 0 \/ two64 <= cr_addr (ci_init c') + ci_size c' \/
         cr_addr (ci_init c') + ci_size c' <= a \/ a + sz <= cr_addr (ci_init c')) ->
      exists c, rm_get (t_cfi t) x = Some c /\ sc_init c = ci_init c0 /\ sc_size c = sz.
Proof.
  intros Hshort H. destruct (text_cfi_complete lines tail sch p s Hshort H) as [t [Ht Hc]].
  exists t. split; [exact Ht|]. intros L1 s0 L2 c0 x Hl Hs0 a sz Hnz Hlt Hx Hiso.
  assert (Hpos : 0 < sz).
  { pose proof (line_top_wf s0 _ Hs0) as Hw. cbn in Hw. destruct Hw as [_ B]. unfold sz in *. lia. }
  destruct (Hc L1 s0 L2 c0 (a, a + sz - 1) x Hl Hs0 (stc_mk_range_some a sz Hpos Hlt)) as [c [Hg Hh]].
  - intros s' r' Hin Hr'. unfold cfi_line_range in Hr'.
    destruct (line_top s') as [[| | | | | | | |c']|] eqn:El; try (destruct Hr'; fail).
    destruct (mk_range (cr_addr (ci_init c')) (ci_size c')) as [r0|] eqn:Er; [|destruct Hr'].
    destruct Hr' as [<-|[]]. specialize (Hiso s' c' Hin El).
    unfold mk_range, checked_add in Er. destruct (ci_size c' =? 0) eqn:E0; [discriminate|].
    rewrite <- two64_val in Er. destruct (cr_addr (ci_init c') + ci_size c' <? two64) eqn:E1; [|discriminate].
    inversion Er; subst r0. apply Z.eqb_neq in E0. apply Z.ltb_lt in E1.
    unfold intersects. cbn [fst snd]. apply andb_false_iff.
    destruct Hiso as [C|[C|[C|C]]]; lia.
  - unfold contains. cbn [fst snd]. apply andb_true_intro. split; apply Z.leb_le; lia.
  - exists c. split; [exact Hg|exact Hh].
Qed.
