(* C03/Model.v — executable models of the anchored arithmetic / index sites of the
   processing pipeline that lie outside the unwinder (the unwinder and the frame bound are
   C05's; STACK WIN / CFI evaluation is C06/C07's).  Every Rust `+`/`-` is a chk_add/chk_sub
   (Debug = Panic), every slice index is an explicit Panic, exactly where the Rust has them.

   Mirrors (line numbers of the tree the model was written against):
     minidump-processor/src/process_state.rs  LinuxProcLimits::from (164-201), parse_limit (157)
     minidump-processor/src/processor.rs      check_for_guard_pages (786-835),
                                              requesting_thread selection (1031-1060), unloaded offsets (1186-1200)
     minidump-processor/src/op_analysis.rs    add_derivable_opcode_implicit_access (514-556)
     minidump/src/minidump.rs                 MinidumpModuleList / MinidumpUnloadedModuleList ::read size filter (1555, 1663)
     minidump-processor/src/process_state.rs  print_internal (module table 795/820), print_json (end_addr 1043/1123,
                                              module_offset 1098, function_offset 1112, threads[requesting_thread] 741/1144)
     minidump-unwind/src/lib.rs               CallStack::print (addr - src_base / func_base / module base, 474-482)
   `_v0` definitions are the code as it was before the fix commits (kept for the refutations).
   Definitions only. *)
From RM Require Export Base.Word C08.Model.
Open Scope Z_scope.

Definition PANIC_INDEX : Z := 301.      (* slice index out of bounds *)
Definition PANIC_ARITH : Z := 302.      (* overflow check *)

(* ------------------------------------------------------------------ byte strings *)
Definition bytes := list Z.
Definition nonempty (l : bytes) : bool := match l with [] => false | _ => true end.

(* slice::split(|b| b == c): pieces between separators, final piece included *)
Fixpoint split_on (c : Z) (cur : bytes) (l : bytes) : list bytes :=
  match l with
  | [] => [rev cur]
  | a :: t => if a =? c then rev cur :: split_on c [] t else split_on c (a :: cur) t
  end.

(* str::split("  "): non-overlapping occurrences of two spaces, left to right *)
Fixpoint split2 (cur : bytes) (l : bytes) : list bytes :=
  match l with
  | [] => [rev cur]
  | a :: t =>
      match t with
      | b :: t' => if (a =? 32) && (b =? 32) then rev cur :: split2 [] t' else split2 (a :: cur) t
      | [] => [rev (a :: cur)]
      end
  end.

(* str::trim on ASCII input: White_Space = 9..13, 32 *)
Definition is_ws (c : Z) : bool := ((9 <=? c) && (c <=? 13)) || (c =? 32).
Fixpoint trim_start (l : bytes) : bytes :=
  match l with [] => [] | c :: t => if is_ws c then trim_start t else l end.
Definition trim (l : bytes) : bytes := rev (trim_start (rev (trim_start l))).

Fixpoint bytes_eqb (a b : bytes) : bool :=
  match a, b with
  | [], [] => true
  | x :: a', y :: b' => (x =? y) && bytes_eqb a' b'
  | _, _ => false
  end.
(* bytewise lexicographic order (String's Ord) *)
Fixpoint bytes_ltb (a b : bytes) : bool :=
  match a, b with
  | _, [] => false
  | [], _ :: _ => true
  | x :: a', y :: b' => (x <? y) || ((x =? y) && bytes_ltb a' b')
  end.

(* u64::from_str: optional '+', at least one digit, digits only, no overflow *)
Fixpoint parse_digits (acc : Z) (l : bytes) : option Z :=
  match l with
  | [] => Some acc
  | c :: t => if (48 <=? c) && (c <=? 57)
              then let acc' := acc * 10 + (c - 48) in
                   if acc' <? two64 then parse_digits acc' t else None
              else None
  end.
Definition parse_u64 (l : bytes) : option Z :=
  match l with
  | [] => None
  | 43 :: t => match t with [] => None | _ => parse_digits 0 t end
  | _ => parse_digits 0 l
  end.

(* ------------------------------------------------------------------ LinuxProcLimits::from *)
Inductive limit := Unlimited | Limited (v : Z).
Definition UNLIMITED : bytes := [117; 110; 108; 105; 109; 105; 116; 101; 100].
Definition NA : bytes := [110; 47; 97].
Definition parse_limit (s : bytes) : limit :=
  let t := trim s in
  if bytes_eqb t UNLIMITED then Unlimited
  else Limited (match parse_u64 t with Some v => v | None => 0 end).

Definition entry := (bytes * limit * limit * bytes)%type.   (* name, soft, hard, unit *)

Definition idx {A} (l : list A) (i : nat) : outcome A :=
  match nth_error l i with Some a => Ret a | None => Panic PANIC_INDEX end.

Definition fields (line : bytes) : list bytes := filter nonempty (split2 [] line).

(* the closure of the final map, before the fix: indexes m[3] (unless len = 3), m[0], m[1], m[2] *)
Definition limit_entry_v0 (m : list bytes) : outcome entry :=
  do u <- (if Nat.eqb (length m) 3 then Ret NA else do x <- idx m 3; Ret (trim x));
  do name <- idx m 0;
  do s <- idx m 1;
  do h <- idx m 2;
  Ret (trim name, parse_limit s, parse_limit h, u).

(* after the fix: filter_map, lines with fewer than three fields are skipped *)
Definition limit_entry (m : list bytes) : outcome (option entry) :=
  if Nat.ltb (length m) 3 then Ret None
  else do e <- limit_entry_v0 m; Ret (Some e).

Fixpoint collect {A} (l : list (outcome A)) : outcome (list A) :=
  match l with
  | [] => Ret []
  | x :: t => do a <- x; do r <- collect t; Ret (a :: r)
  end.
Fixpoint somes {A} (l : list (option A)) : list A :=
  match l with [] => [] | Some a :: t => a :: somes t | None :: t => somes t end.

(* lines(): split on '\n'; filter(!is_empty); skip(1) *)
Definition limit_lines (data : bytes) : list bytes := tl (filter nonempty (split_on 10 [] data)).

Definition limits_from_v0 (data : bytes) : outcome (list entry) :=
  collect (map (fun l => limit_entry_v0 (fields l)) (limit_lines data)).
Definition limits_from (data : bytes) : outcome (list entry) :=
  do l <- collect (map (fun l => limit_entry (fields l)) (limit_lines data)); Ret (somes l).

(* HashMap<String, _>::from_iter then iteration in key order (what the harness observes):
   a later entry with the same name replaces the earlier one *)
Fixpoint insert_sorted (e : entry) (l : list entry) : list entry :=
  let name := fst (fst (fst e)) in
  match l with
  | [] => [e]
  | x :: t => let xn := fst (fst (fst x)) in
              if bytes_eqb name xn then e :: t
              else if bytes_ltb name xn then e :: x :: t
              else x :: insert_sorted e t
  end.
Definition to_map (l : list entry) : list entry := fold_left (fun acc e => insert_sorted e acc) l [].

(* ------------------------------------------------------------------ check_for_guard_pages *)
(* a region of the unified memory info list: its own memory_range() and is_accessible() *)
Definition minfo := (option range * bool)%type.
Definition GUARD_MEMORY_MAX_SIZE : Z := 32768.

(* memory_info_at_address: the C08 index-valued table *)
Definition info_table (rs : list minfo) : list (range * Z) :=
  into_rangemap_safe Z.eqb (enumerate_from 0 (map fst rs)).
Definition info_at (rs : list minfo) (x : Z) : option minfo :=
  match rm_get (info_table rs) x with
  | Some i => nth_error rs (Z.to_nat i)
  | None => None
  end.
(* by_addr(): the regions behind the table entries, in address order *)
Definition by_addr (rs : list minfo) : list minfo :=
  somes (map (fun e => nth_error rs (Z.to_nat (snd e))) (info_table rs)).

(* the closure is_adjacent_to_accessible_memory, before the fix: `end + 1` twice *)
Fixpoint adjacent_v0 (p : profile) (l : list minfo) (r : range) : outcome bool :=
  match l with
  | [] => Ret false
  | (None, _) :: t => adjacent_v0 p t r
  | (Some o, acc) :: t =>
      do e1 <- chk_add p 64 PANIC_ARITH (snd o) 1;
      if (e1 =? fst r) && acc then Ret true
      else do e2 <- chk_add p 64 PANIC_ARITH (snd r) 1;
           if e2 =? fst o then Ret acc else adjacent_v0 p t r
  end.
(* after the fix: checked_add(1) == Some(start) *)
Definition succ_is (e s : Z) : bool :=
  match checked_add 64 e 1 with Some x => x =? s | None => false end.
Fixpoint adjacent (l : list minfo) (r : range) : bool :=
  match l with
  | [] => false
  | (None, _) :: t => adjacent t r
  | (Some o, acc) :: t =>
      if succ_is (snd o) (fst r) && acc then true
      else if succ_is (snd r) (fst o) then acc else adjacent t r
  end.

(* one access of the access list: Ret (is_likely_guard_page) *)
Definition guard_site_v0 (p : profile) (rs : list minfo) (addr : Z) : outcome bool :=
  match info_at rs addr with
  | None => Ret false
  | Some (None, _) => Ret false
  | Some (Some r, acc) =>
      if acc then Ret false
      else do d <- chk_sub p 64 PANIC_ARITH (snd r) (fst r);
           if d <? GUARD_MEMORY_MAX_SIZE then adjacent_v0 p (by_addr rs) r else Ret false
  end.
Definition guard_site (p : profile) (rs : list minfo) (addr : Z) : outcome bool :=
  match info_at rs addr with
  | None => Ret false
  | Some (None, _) => Ret false
  | Some (Some r, acc) =>
      if acc then Ret false
      else do d <- chk_sub p 64 PANIC_ARITH (snd r) (fst r);
           if d <? GUARD_MEMORY_MAX_SIZE then Ret (adjacent (by_addr rs) r) else Ret false
  end.

(* ------------------------------------------------------------------ op_analysis implicit access *)
Inductive opclass := OpCallPush | OpPopRet | OpOther.
Definition implicit_access_v0 (p : profile) (c : opclass) (rsp : Z) : outcome (option Z) :=
  match c with
  | OpCallPush => do a <- chk_sub p 64 PANIC_ARITH rsp 8; Ret (Some a)
  | OpPopRet => Ret (Some rsp)
  | OpOther => Ret None
  end.
Definition implicit_access (c : opclass) (rsp : Z) : option Z :=
  match c with
  | OpCallPush => Some (wrap64 (rsp - 8))
  | OpPopRet => Some rsp
  | OpOther => None
  end.

(* ------------------------------------------------------------------ module tables in the printers *)
(* the readers drop (module list) or reject (unloaded list) entries failing this test *)
Definition module_read_ok (base size : Z) : bool := negb (size =? 0) && (size <=? U64MAX - base).
(* print_json: base_of_image + size_of_image as u64 *)
Definition json_end_addr (p : profile) (base size : Z) : outcome Z := chk_add p 64 PANIC_ARITH base size.
(* print: base_address() + size() - 1 *)
Definition text_end_addr (p : profile) (base size : Z) : outcome Z :=
  do s <- chk_add p 64 PANIC_ARITH base size; chk_sub p 64 PANIC_ARITH s 1.

(* ------------------------------------------------------------------ frames in the printers *)
Record frame := {
  f_instr : Z;
  f_module : option Z;        (* base address of frame.module *)
  f_fname : bool;             (* function_name present *)
  f_fbase : option Z;         (* function_base *)
  f_srcfl : bool;             (* source_file_name and source_line present *)
  f_sbase : option Z;         (* source_line_base *)
}.
(* CallStack::print: the offset printed for the real frame (None: raw address) *)
Definition text_frame_offset (p : profile) (f : frame) : outcome (option Z) :=
  match f_module f with
  | None => Ret None
  | Some mb =>
      match f_fname f, f_fbase f with
      | true, Some fb =>
          match f_srcfl f, f_sbase f with
          | true, Some sb => do o <- chk_sub p 64 PANIC_ARITH (f_instr f) sb; Ret (Some o)
          | _, _ => do o <- chk_sub p 64 PANIC_ARITH (f_instr f) fb; Ret (Some o)
          end
      | _, _ => do o <- chk_sub p 64 PANIC_ARITH (f_instr f) mb; Ret (Some o)
      end
  end.
(* print_json: module_offset and function_offset *)
Definition json_frame_offsets (p : profile) (f : frame) : outcome (option Z * option Z) :=
  do mo <- match f_module f with
           | Some mb => do o <- chk_sub p 64 PANIC_ARITH (f_instr f) mb; Ret (Some o)
           | None => Ret None
           end;
  do fo <- match f_fbase f with
           | Some fb => do o <- chk_sub p 64 PANIC_ARITH (f_instr f) fb; Ret (Some o)
           | None => Ret None
           end;
  Ret (mo, fo).

(* processor.rs: for unloaded in modules_at_address(instruction): instruction - base_of_image *)
Definition unloaded_offsets (p : profile) (mods : list (Z * Z)) (instr : Z) : outcome (list Z) :=
  let tbl := unloaded_build (map (fun m => mk_range (fst m) (snd m)) mods) in
  collect (map (fun i => match nth_error mods (Z.to_nat i) with
                         | Some m => chk_sub p 64 PANIC_ARITH instr (fst m)
                         | None => Panic PANIC_INDEX
                         end) (unloaded_at tbl instr)).

(* fill_source_line_info: frame.module = module_at_address(instruction); its printed offset *)
Definition module_table (mods : list (Z * Z)) : list (range * Z) :=
  into_rangemap_safe Z.eqb (enumerate_from 0 (map (fun m => mk_range (fst m) (snd m)) mods)).
Definition module_offset (p : profile) (mods : list (Z * Z)) (instr : Z) : outcome (option Z) :=
  match rm_get (module_table mods) instr with
  | None => Ret None
  | Some i => match nth_error mods (Z.to_nat i) with
              | Some m => do o <- chk_sub p 64 PANIC_ARITH instr (fst m); Ret (Some o)
              | None => Panic PANIC_INDEX
              end
  end.

(* ------------------------------------------------------------------ requesting_thread *)
(* into_process_state: enumerate the thread list; the dump-writer thread returns early;
   a thread whose id is the crashing (else requesting) id records its index *)
Fixpoint requesting_from (ids : list Z) (i : nat) (dump_tid want : option Z) (acc : option nat) : option nat :=
  match ids with
  | [] => acc
  | id :: t =>
      let skip := match dump_tid with Some d => d =? id | None => false end in
      let hit := match want with Some w => w =? id | None => false end in
      requesting_from t (S i) dump_tid want (if skip then acc else if hit then Some i else acc)
  end.
Definition requesting_thread (ids : list Z) (dump_tid want : option Z) : option nat :=
  requesting_from ids 0 dump_tid want None.
(* print / print_json: self.threads[requesting_thread] (one call stack per thread-list entry) *)
Definition index_requesting {A} (threads : list A) (ids : list Z) (dump_tid want : option Z) : outcome (option A) :=
  match requesting_thread ids dump_tid want with
  | None => Ret None
  | Some i => do t <- idx threads i; Ret (Some t)
  end.
