(* C03/Driver.v — entry points for the correspondence run (sites L, G, S, J of harness/src/bin/c03.rs) *)
From RM Require Import C08.Model C03.Model C03.ArgModel C03.FetchModel C03.ProcessModel C03.RenderModel.
From RM Require C05.Model C05.Driver.
Open Scope Z_scope.

Definition lim_z (l : limit) : Z := match l with Unlimited => -1 | Limited v => v end.
(* None = panic *)
Definition run_limits (data : bytes) : option (list (bytes * Z * Z * bytes)) :=
  match limits_from data with
  | Ret l => Some (map (fun e => let '(n, s, h, u) := e in (n, lim_z s, lim_z h, u)) (to_map l))
  | _ => None
  end.

(* kind 0: memory info (base, size, protection); kind 1: Linux maps (lo, hi, rwx bits) *)
Definition mk_minfo (kind : Z) (e : Z * Z * Z) : minfo :=
  let '(a, b, p) := e in
  if kind =? 0 then (mk_range a b, negb (Z.land p 254 =? 0))
  else (mk_range_maps a b, negb (Z.land p 7 =? 0)).
(* 0 / 1 = is_likely_guard_page, 3 = panic *)
Definition run_guard (addr kind : Z) (regs : list (Z * Z * Z)) : Z :=
  match guard_site Debug (map (mk_minfo kind) regs) addr with
  | Ret true => 1
  | Ret false => 0
  | _ => 3
  end.

(* operand facts of the eight planted instructions (observed from the disassembler, pinned by the
   correspondence): does the instruction have an explicit memory operand [rax], and its class *)
Definition op_facts (op : Z) : bool * opclass :=
  if op =? 0 then (true, OpCallPush) else if op =? 1 then (true, OpCallPush)
  else if op =? 2 then (true, OpPopRet) else if op =? 3 then (false, OpPopRet)
  else if op =? 4 then (false, OpCallPush) else if op =? 5 then (false, OpCallPush)
  else if op =? 6 then (false, OpPopRet) else (true, OpOther).
Definition run_stack_access (rsp op rax : Z) : list Z :=
  let '(ex, c) := op_facts op in
  (if ex then [rax] else []) ++ match implicit_access c rsp with Some a => [a] | None => [] end.

(* module list: bad entries are dropped; unloaded list: one bad entry rejects the stream *)
Definition ends (l : list (Z * Z)) : option (list Z) :=
  match collect (map (fun m => json_end_addr Debug (fst m) (snd m)) l) with
  | Ret r => match collect (map (fun m => text_end_addr Debug (fst m) (snd m)) l) with Ret _ => Some r | _ => None end
  | _ => None
  end.
Definition run_json_modules (mods unl : list (Z * Z)) : option (list Z * list Z) :=
  let ok := fun m : Z * Z => module_read_ok (fst m) (snd m) in
  let mods' := filter ok mods in
  let unl' := if forallb ok unl then unl else [] in
  match ends mods', ends unl' with
  | Some a, Some b => Some (a, b)
  | _, _ => None
  end.

(* A cases: parse_x86_arg_list on a function name (code points).  None = panic; Some None = no argument list;
   Some (Some (cc, names)): cc 0 cdecl, 1 thiscall (the harness then sees an extra leading "this") *)
Definition run_args (name : list Z) : option (option (Z * list (list Z))) :=
  match parse_x86_arg_list Debug name with
  | Ret None => Some None
  | Ret (Some (cc, args)) => Some (Some (match cc with Cdecl => 0 | WindowsThisCall => 1 end, args))
  | _ => None
  end.

(* I cases: get_thread_instruction_bytes over the dump's regions (base, length; contents do not matter for the count).
   Fact about the planted instruction pinned by the correspondence: it decodes iff all its L <= 15 bytes are there,
   and only amd64 contexts are disassembled.  1 = decoded, 0 = not, 3 = panic *)
Definition run_fetch (cpu : Z) (regs : list (Z * Z)) (ip l : Z) : Z :=
  let rs := map (fun e => {| r_base := fst e; r_size := snd e; r_bytes := repeat 0 (Z.to_nat (snd e)) |}) regs in
  match fetch_instruction_bytes Debug rs ip with
  | Ret None => 0
  | Ret (Some b) => if (cpu =? 0) && (l <=? Z.of_nat (length b)) && (l <=? MAX_INSTRUCTION_LENGTH) then 1 else 0
  | _ => 3
  end.

(* U cases: amd64 crash at `jmp [rbx]` (ff 23 at 0x400000); the regions arrive with their bytes.  Pinned by the
   correspondence: the instruction decodes iff both of its bytes are fetched.  Some v = Update to v, None = no update *)
Definition run_read_u64 (regs : list (Z * list Z)) (addr : Z) : option Z :=
  let rs := map (fun e => {| r_base := fst e; r_size := Z.of_nat (length (snd e)); r_bytes := snd e |}) regs in
  match fetch_instruction_bytes Debug rs 4194304 with
  | Ret (Some b) => if 2 <=? Z.of_nat (length b) then read_u64_at rs addr else None
  | _ => None
  end.

(* T cases (round 5): the thread loop of into_process_state on a synthesized dump without symbol files.
   archid as in C05/Driver.v (0 x86, 1 amd64, 2 arm, 3 arm64, 4 mips, 5 mips64, 6 arm64-old), 7 = a CPU whose context decodes but
   has no unwinder (ppc, ppc64, sparc).  A context is (ip, sp, fp, lr), all registers valid (what a context read from a dump
   is); a thread = (id, context, its own stack memory (base, bytes), raw.stack.start_of_memory_range).
   Walker oracles: module lookup / max module address / instruction_seems_valid_by_symbols as C05/Driver.v instantiates them
   for modules WITHOUT symbols (walk_frame of the provider answers None: no CFI).
   Result per thread: (thread id, CallStackInfo 0 Ok | 1 MissingContext | 2 DumpThreadSkipped,
   [(instruction, trust code of C05/Driver.v)], unloaded-module offsets per frame); None = Panic / OutOfFuel. *)
Definition t_ctx (c : Z * Z * Z * Z) : ctx :=
  let '(ip, sp, fp, lr) := c in
  ({| C05.Model.r_ip := ip; C05.Model.r_sp := sp; C05.Model.r_fp := fp; C05.Model.r_lr := lr; C05.Model.r_gp := [] |}, C05.Model.VAll).
Definition t_region (e : Z * list Z) : region :=
  {| r_base := fst e; r_size := Z.of_nat (length (snd e)); r_bytes := snd e |}.
Definition info_code (i : stack_info) : Z :=
  match i with InfoOk => 0 | InfoMissingContext => 1 | InfoDumpThreadSkipped => 2 end.
Definition run_process (archid os : Z)
    (threads : list (Z * option (Z * Z * Z * Z) * option (Z * list Z) * Z))
    (dump_tid crash_tid req_tid : option Z) (exc : option (Z * Z * Z * Z))
    (mem : list (Z * list Z)) (mods unl : list (Z * Z))
  : option (list (Z * Z * list (Z * Z) * list (list Z)) * option Z) :=
  let pi := {| pi_threads := map (fun t => let '(id, c, st, start) := t in
                                    {| th_id := id; th_ctx := option_map t_ctx c; th_stack := option_map t_region st;
                                       th_stack_start := start |}) threads;
               pi_dump_tid := dump_tid; pi_crash_tid := crash_tid; pi_req_tid := req_tid;
               pi_exc_ctx := option_map t_ctx exc; pi_memory := map t_region mem; pi_unloaded := unl |} in
  let ms : list C05.Driver.modspec := map (fun m => (fst m, snd m, None)) mods in
  let cpu := if archid =? 0 then CpuX86 else if archid =? 1 then CpuAmd64 else if archid =? 2 then CpuArm
             else if archid =? 3 then CpuArm64 else if (archid =? 4) || (archid =? 5) then CpuMips
             else if archid =? 6 then CpuArm64Old else CpuPpc in
  match process_threads Debug cpu (C05.Driver.arch_of archid) os (C05.Driver.d_module_at ms) (C05.Driver.d_max_module_addr ms)
          (fun _ _ _ _ => None) (C05.Driver.d_instr_valid ms) pi with
  | Ret (outs, req) =>
      Some (map (fun o => (o_id o, info_code (o_info o),
                           map (fun f => (C05.Model.f_instr f, C05.Driver.trust_code (C05.Model.f_trust f))) (o_frames o),
                           o_unloaded o)) outs,
            option_map Z.of_nat req)
  | _ => None
  end.

(* B cases (round 5): an amd64 crash one flipped bit away from a mapped page; [regs] = the values of the context's valid registers.
   (count of nearby registers, index into NEARBY_REGISTER | -1 for no access); None = panic *)
Definition run_nearby (good : Z) (regs : list Z) : option (Z * Z) :=
  match nearby_site Debug good regs with
  | Ret (n, Some i) => Some (n, i)
  | Ret (n, None) => Some (n, -1)
  | _ => None
  end.

(* N cases (round 5): MinidumpInfo::new with some streams made unreadable: 0 = Ok, 1 = MissingThreadList, 2 = MissingSystemInfo *)
Definition run_info_new (thread_list_ok system_info_ok : bool) : Z :=
  match info_new thread_list_ok system_info_ok with
  | None => 0 | Some MissingThreadList => 1 | Some MissingSystemInfo => 2
  end.

(* T cases (round 5, second pass): the three printers on the state the thread loop produced, for a dump WITHOUT symbol files
   (every frame has at most a module: CallStack::print writes `module + offset` or the raw address with the unloaded-module offsets).
   The module of a frame is the C08 lookup over the module list (C03/Model.module_table = MinidumpModuleList::module_at_address).
   Items as triples: (0, thread index, 0) thread header | (1,0,0) <no frames> | (2, frame number, offset or -1) | (3, number, 0)
   inline | (4, frames, 0) JSON thread, followed by (5, frame index, module_offset or -1) per frame | (6, threads_index, 0) JSON
   crashing_thread | (7, base, end) text module line | (8, base, end) JSON module.  None = Panic / OutOfFuel. *)
Definition d_rframe (mods : list (Z * Z)) (f : C05.Model.frame) (unl : list Z) : rframe :=
  let instr := C05.Model.f_instr f in
  let mb := match rm_get (module_table mods) instr with
            | Some i => option_map fst (nth_error mods (Z.to_nat i))
            | None => None
            end in
  {| rf_frame := {| f_instr := instr; f_module := mb; f_fname := false; f_fbase := None; f_srcfl := false; f_sbase := None |};
     rf_inlines := 0; rf_unloaded := match mb with Some _ => [] | None => [unl] end |}.
Definition opt_z (o : option Z) : Z := match o with Some x => x | None => -1 end.
Definition item_code (it : item) : list (Z * Z * Z) :=
  match it with
  | IThread i => [(0, Z.of_nat i, 0)]
  | INoFrames => [(1, 0, 0)]
  | IFrame n off _ => [(2, n, opt_z off)]
  | IInline n => [(3, n, 0)]
  | IJsonThread fs => (4, Z.of_nat (length fs), 0) :: map (fun f => (5, Z.of_nat (fst (fst f)), opt_z (snd (fst f)))) fs
  | IJsonCrashingThread i => [(6, Z.of_nat i, 0)]
  | IModule b e => [(7, b, e)]
  | IUnloaded b e => [(7, b, e)]
  | IJsonModule b e => [(8, b, e)]
  | IJsonUnloaded b e => [(8, b, e)]
  | ISection _ => []
  end.
Definition run_render (archid os : Z)
    (threads : list (Z * option (Z * Z * Z * Z) * option (Z * list Z) * Z))
    (dump_tid crash_tid req_tid : option Z) (exc : option (Z * Z * Z * Z))
    (mem : list (Z * list Z)) (mods unl : list (Z * Z))
  : option (list (Z * Z * Z) * list (Z * Z * Z) * list (Z * Z * Z)) :=
  let pi := {| pi_threads := map (fun t => let '(id, c, st, start) := t in
                                    {| th_id := id; th_ctx := option_map t_ctx c; th_stack := option_map t_region st;
                                       th_stack_start := start |}) threads;
               pi_dump_tid := dump_tid; pi_crash_tid := crash_tid; pi_req_tid := req_tid;
               pi_exc_ctx := option_map t_ctx exc; pi_memory := map t_region mem; pi_unloaded := unl |} in
  let ms : list C05.Driver.modspec := map (fun m => (fst m, snd m, None)) mods in
  let cpu := if archid =? 0 then CpuX86 else if archid =? 1 then CpuAmd64 else if archid =? 2 then CpuArm
             else if archid =? 3 then CpuArm64 else if (archid =? 4) || (archid =? 5) then CpuMips
             else if archid =? 6 then CpuArm64Old else CpuPpc in
  match process_threads Debug cpu (C05.Driver.arch_of archid) os (C05.Driver.d_module_at ms) (C05.Driver.d_max_module_addr ms)
          (fun _ _ _ _ => None) (C05.Driver.d_instr_valid ms) pi with
  | Ret (outs, req) =>
      let st := {| st_threads := map (fun o => {| rs_info := o_info o;
                                                  rs_frames := map (fun fu => d_rframe mods (fst fu) (snd fu))
                                                                   (combine (o_frames o) (o_unloaded o)) |}) outs;
                   st_requesting := req; st_modules := mods; st_unloaded := unl |} in
      match render_all Debug st with
      | Ret (full, brief, json) => Some (flat_map item_code full, flat_map item_code brief, flat_map item_code json)
      | _ => None
      end
  | _ => None
  end.
