(* C03/Properties.v — property theorems only (the site part of C03; the frame bound is C05's,
   STACK WIN / CFI sites are C06/C07's).  "_refuted" theorems are about the `_v0` models, i.e.
   the code before the fix commits recorded in known_findings.json. *)
From Coq Require Import Lia.
From RM Require Import C08.Model C08.Proofs C03.Model C03.Proofs C03.ArgModel C03.ArgProofs C03.Compose.
From RM Require Import C03.FetchModel C03.FetchProofs.
From RM Require Import C03.ProcessModel C03.ProcessProofs.
From RM Require Import C03.BudgetModel C03.BudgetProofs.
From RM Require Import C03.RenderModel C03.RenderProofs C03.RenderCompose.
From RM Require Gen.C03Render C03.RenderTie.
From RM Require Gen.C03Sites C03.SitesTie.
From RM Require C11.Model C11.Proofs2 C11.Proofs5.
From RM Require C05.Model C05.Proofs.
Open Scope Z_scope.

(* ---- LinuxProcLimits::from: no index panic for any stream contents *)
Theorem c03_limits_total : forall data : bytes, exists r, limits_from data = Ret r.
Proof. exact limits_from_total. Qed.
Print Assumptions c03_limits_total.

Theorem c03_limits_skips_exactly_short_lines : forall m : list bytes,
  limit_entry m = Ret None <-> (length m < 3)%nat.
Proof. exact limit_entry_skips. Qed.
Print Assumptions c03_limits_skips_exactly_short_lines.

(* F-C03b: before the fix a line with fewer than three fields indexed out of bounds *)
Theorem c03_limits_refuted : exists data, limits_from_v0 data = Panic PANIC_INDEX.
Proof. exists limits_witness. exact limits_v0_panics. Qed.
Print Assumptions c03_limits_refuted.

(* ---- check_for_guard_pages: no overflow trap for any memory map, both profiles *)
Theorem c03_guard_total : forall p rs addr, wf_minfo rs -> exists b, guard_site p rs addr = Ret b.
Proof. exact guard_site_total. Qed.
Print Assumptions c03_guard_total.

(* F-C03c: before the fix a Linux maps entry ending at 2^64-1 trapped in `end + 1` ... *)
Theorem c03_guard_refuted : exists rs addr, wf_minfo rs /\ guard_site_v0 Debug rs addr = Panic PANIC_ARITH.
Proof. exists guard_witness, 18446744073709549568. split; [exact guard_witness_wf|exact guard_v0_panics]. Qed.
Print Assumptions c03_guard_refuted.

(* ... but never for MINIDUMP_MEMORY_INFO regions, whose ranges end at most at 2^64-2 *)
Theorem c03_guard_meminfo_was_safe : forall p rs addr,
  (forall r acc, In (Some r, acc) rs -> exists base size, 0 <= base /\ 0 <= size /\ mk_range base size = Some r) ->
  exists b, guard_site_v0 p rs addr = Ret b.
Proof.
  intros p rs addr H. apply guard_site_v0_total_below_top.
  intros r acc Hin. destruct (H r acc Hin) as [b [s [Hb [Hs Hr]]]]. exact (mk_range_below_top b s r Hb Hs Hr).
Qed.
Print Assumptions c03_guard_meminfo_was_safe.

(* the repair changes no answer that the old code produced without trapping *)
Theorem c03_guard_fix_conservative : forall l r b,
  (forall o acc, In (Some o, acc) l -> 0 <= snd o) -> 0 <= snd r ->
  adjacent_v0 Debug l r = Ret b -> adjacent l r = b.
Proof. exact adjacent_agrees. Qed.
Print Assumptions c03_guard_fix_conservative.

(* ---- op_analysis implicit stack access: total, in range; equal to the old code for rsp >= 8 *)
Theorem c03_implicit_access_total : forall c rsp a,
  0 <= rsp < two64 -> implicit_access c rsp = Some a -> 0 <= a < two64.
Proof. exact implicit_access_in_range. Qed.
Print Assumptions c03_implicit_access_total.

Theorem c03_implicit_access_conservative : forall p c rsp,
  8 <= rsp < two64 -> implicit_access_v0 p c rsp = Ret (implicit_access c rsp).
Proof. exact implicit_access_agrees. Qed.
Print Assumptions c03_implicit_access_conservative.

(* F-C03g: rsp < 8 at a CALL/PUSH *)
Theorem c03_implicit_access_refuted : exists c rsp, 0 <= rsp < two64 /\ implicit_access_v0 Debug c rsp = Panic PANIC_ARITH.
Proof. exists OpCallPush, 7. split; [unfold two64; lia|exact implicit_v0_panics]. Qed.
Print Assumptions c03_implicit_access_refuted.

(* ---- module tables of print / print_json, given the readers' size filter *)
Theorem c03_module_table_arith : forall p base size,
  0 <= base -> 0 <= size -> module_read_ok base size = true ->
  json_end_addr p base size = Ret (base + size) /\ text_end_addr p base size = Ret (base + size - 1).
Proof. exact module_ends_ok. Qed.
Print Assumptions c03_module_table_arith.

(* ---- frames: the three printers' subtractions cannot trap for a frame satisfying the
   unwinder / lookup invariants (module base, function base and source-line base are at or
   below the instruction: C08 for the module, C11 for the two symbol bases) *)
Theorem c03_render_total : forall p f, frame_ok f ->
  (exists a, text_frame_offset p f = Ret a) /\ (exists b, json_frame_offsets p f = Ret b).
Proof. exact render_frame_total. Qed.
Print Assumptions c03_render_total.

(* the module part of that invariant is discharged here from the C08 lookup-soundness theorem *)
Theorem c03_module_offset_from_c08 : forall p mods instr,
  wf_mods mods -> 0 <= instr < two64 -> exists o, module_offset p mods instr = Ret o.
Proof. exact module_offset_total. Qed.
Print Assumptions c03_module_offset_from_c08.

Theorem c03_unloaded_offsets_from_c08 : forall p mods instr,
  wf_mods mods -> 0 <= instr < two64 -> exists l, unloaded_offsets p mods instr = Ret l.
Proof. exact unloaded_offsets_total. Qed.
Print Assumptions c03_unloaded_offsets_from_c08.

(* ---- self.threads[requesting_thread] is in bounds *)
Theorem c03_requesting_thread_in_bounds : forall (A : Type) (threads : list A) ids dump_tid want,
  length threads = length ids -> exists r, index_requesting threads ids dump_tid want = Ret r.
Proof. exact @index_requesting_total. Qed.
Print Assumptions c03_requesting_thread_in_bounds.

(* ---- all sites together: Panic is unreachable in every site model, all inputs, both profiles *)
Theorem c03_no_panic_sites :
  (forall data tag, limits_from data <> Panic tag) /\
  (forall p rs addr tag, wf_minfo rs -> guard_site p rs addr <> Panic tag) /\
  (forall p base size tag, 0 <= base -> 0 <= size -> module_read_ok base size = true ->
      json_end_addr p base size <> Panic tag /\ text_end_addr p base size <> Panic tag) /\
  (forall p f tag, frame_ok f -> text_frame_offset p f <> Panic tag /\ json_frame_offsets p f <> Panic tag) /\
  (forall p mods instr tag, wf_mods mods -> 0 <= instr < two64 ->
      module_offset p mods instr <> Panic tag /\ unloaded_offsets p mods instr <> Panic tag) /\
  (forall (A : Type) (threads : list A) ids d w tag, length threads = length ids ->
      index_requesting threads ids d w <> Panic tag).
Proof.
  repeat split; intros.
  - destruct (limits_from_total data) as [r ->]. discriminate.
  - destruct (guard_site_total p rs addr H) as [b ->]. discriminate.
  - destruct (module_ends_ok p base size H H0 H1) as [-> _]. discriminate.
  - destruct (module_ends_ok p base size H H0 H1) as [_ ->]. discriminate.
  - destruct (render_frame_total p f H) as [[a ->] _]. discriminate.
  - destruct (render_frame_total p f H) as [_ [b ->]]. discriminate.
  - destruct (module_offset_total p mods instr H H0) as [o ->]. discriminate.
  - destruct (unloaded_offsets_total p mods instr H H0) as [l ->]. discriminate.
  - destruct (index_requesting_total threads ids d w H) as [r ->]. discriminate.
Qed.
Print Assumptions c03_no_panic_sites.


(* ---- arg_recovery (x86, recover_function_args): splitting a function name of arbitrary Unicode
   text never slices inside a character, and the counters / read head cannot overflow *)
Theorem c03_arg_list_total : forall p (name : str), blen name < 2 ^ 31 ->
  exists r, parse_x86_arg_list p name = Ret r.
Proof. exact parse_x86_arg_list_total. Qed.
Print Assumptions c03_arg_list_total.

Theorem c03_arg_reads_total : forall p nargs sp1 sp2 stack_base,
  (forall s, sp1 = Some s -> 0 <= s < two32) -> (sp1 = None -> sp2 = None) ->
  0 <= stack_base < two64 -> Z.of_nat nargs < 2 ^ 31 ->
  exists r, arg_reads p nargs sp1 sp2 stack_base = Ret r.
Proof. exact arg_reads_total. Qed.
Print Assumptions c03_arg_reads_total.

(* the model expresses char-boundary panics: slicing one byte into the text after the last `)`
   (the seeded change C03-2) traps when a two-byte character follows the parenthesis *)
Theorem c03_arg_junk_slice_refuted : exists name, junk_tail name = Panic PANIC_BOUNDARY.
Proof. exists [102; 40; 41; 160; 99]. exact junk_tail_panics. Qed.
Print Assumptions c03_arg_junk_slice_refuted.

(* ---- c03_render_total with its hypotheses discharged: module from the C08 lookup, function and
   source-line bases from C11's c11_func_sound / c11_line_sound *)
Theorem c03_render_total_discharged : forall p q rf mods instr i m o,
  wf_mods mods -> 0 <= instr < two64 -> C11.Proofs2.wf_file rf ->
  rm_get (module_table mods) instr = Some i -> nth_error mods (Z.to_nat i) = Some m ->
  C11.Model.symbolize q rf (fst m) instr = Ret o ->
  (exists a, text_frame_offset p (frame_of instr (fst m) o) = Ret a) /\
  (exists b, json_frame_offsets p (frame_of instr (fst m) o) = Ret b).
Proof. exact render_total_discharged. Qed.
Print Assumptions c03_render_total_discharged.

(* ---- top level (partial): the stages of processing a thread, each total.  Walking terminates
   within fuel |stack| + 3 with at most |stack| + 2 frames (C05); every site outside the walker
   returns without Panic (this file); every frame symbolised by C11 inside a module found by C08
   renders; argument recovery on any name cannot trap.  What is NOT composed here: the glue between
   the stages (async plumbing, the disassembler, serde_json) — search harness only. *)
Theorem c03_process_total_partial :
  (forall p a os mem module_at max_module_addr cfi_walk instr_valid,
     C05.Proofs.arch_ok a -> C05.Proofs.mem_wf mem ->
     (forall callee gc fwd r v, cfi_walk callee gc fwd = Some (r, v) -> C05.Proofs.regs_wf a r) ->
     forall r v, C05.Proofs.regs_wf a r ->
     exists fs, C05.Model.walk_stack C05.Model.current_code p a os mem module_at max_module_addr cfi_walk instr_valid
                  (C05.Model.fuel_for mem) r v = Ret fs /\
                (length fs <= length (C05.Model.m_bytes mem) + 2)%nat) /\
  (forall data tag, limits_from data <> Panic tag) /\
  (forall p rs addr tag, wf_minfo rs -> guard_site p rs addr <> Panic tag) /\
  (forall (A : Type) (threads : list A) ids d w tag, length threads = length ids ->
     index_requesting threads ids d w <> Panic tag) /\
  (forall p base size tag, 0 <= base -> 0 <= size -> module_read_ok base size = true ->
     json_end_addr p base size <> Panic tag /\ text_end_addr p base size <> Panic tag) /\
  (forall p mods instr tag, wf_mods mods -> 0 <= instr < two64 ->
     module_offset p mods instr <> Panic tag /\ unloaded_offsets p mods instr <> Panic tag) /\
  (forall p q rf mods instr i m o tag,
     wf_mods mods -> 0 <= instr < two64 -> C11.Proofs2.wf_file rf ->
     rm_get (module_table mods) instr = Some i -> nth_error mods (Z.to_nat i) = Some m ->
     C11.Model.symbolize q rf (fst m) instr = Ret o ->
     text_frame_offset p (frame_of instr (fst m) o) <> Panic tag /\
     json_frame_offsets p (frame_of instr (fst m) o) <> Panic tag) /\
  (forall p name tag, blen name < 2 ^ 31 -> parse_x86_arg_list p name <> Panic tag).
Proof.
  split; [intros p a os mem ma mm cw iv Ha Hm Hc r v Hr;
          exact (C05.Proofs.frame_bound p a os mem ma mm cw iv C05.Model.current_code eq_refl Ha Hm Hc eq_refl r v Hr)|].
  destruct c03_no_panic_sites as [S1 [S2 [S3 [_ [S5 S6]]]]].
  split; [exact S1|]. split; [exact S2|]. split; [exact S6|]. split; [exact S3|]. split; [exact S5|].
  split.
  - intros p q rf mods instr i m o tag H1 H2 H3 H4 H5 H6.
    destruct (render_total_discharged p q rf mods instr i m o H1 H2 H3 H4 H5 H6) as [[a Ha] [b Hb]].
    rewrite Ha, Hb. split; discriminate.
  - intros p name tag H. destruct (parse_x86_arg_list_total p name H) as [r ->]. discriminate.
Qed.
Print Assumptions c03_process_total_partial.

(* ---- non-vacuity *)
(* "H\nMax cpu time  unlimited  5  seconds\nx\nMax nice  0  0\n": one short line skipped *)
Example c03_nonvacuous_limits :
  limits_from [72;10; 77;97;120;32;99;112;117;32;116;105;109;101;32;32;117;110;108;105;109;105;116;101;100;32;32;53;32;32;115;10;
               120;10; 77;32;110;32;32;48;32;32;48;10]
  = Ret [([77;97;120;32;99;112;117;32;116;105;109;101], Unlimited, Limited 5, [115]);
         ([77;32;110], Limited 0, Limited 0, NA)].
Proof. vm_compute. reflexivity. Qed.

(* a 4 KiB no-access map below a readable one is a likely guard page; hypotheses satisfiable *)
Example c03_nonvacuous_guard :
  let rs := [(mk_range_maps 28672 32767, false); (mk_range_maps 32768 36863, true)] in
  wf_minfo rs /\ guard_site Debug rs 28677 = Ret true.
Proof.
  split; [|vm_compute; reflexivity].
  intros r acc [H|[H|[]]]; vm_compute in H; inversion H; subst; unfold wf_range, two64; cbn [fst snd]; lia.
Qed.

Example c03_nonvacuous_frame :
  let f := {| f_instr := 4198400; f_module := Some 4194304; f_fname := true; f_fbase := Some 4198000;
              f_srcfl := true; f_sbase := Some 4198396 |} in
  frame_ok f /\ text_frame_offset Debug f = Ret (Some 4) /\ json_frame_offsets Debug f = Ret (Some 4096, Some 400).
Proof.
  split; [|split; vm_compute; reflexivity].
  unfold frame_ok, below; cbn [f_instr f_module f_fbase f_sbase].
  split; [unfold two64; lia|]. repeat apply conj; intros b H; inversion H; subst; lia.
Qed.

Example c03_nonvacuous_requesting :
  index_requesting [10; 20; 30] [7; 8; 9] (Some 7) (Some 9) = Ret (Some 30).
Proof. vm_compute. reflexivity. Qed.

(* `Widget::paint(int, std::map<K, V>)\u{a0}const`: thiscall, two arguments, NBSP after the paren is harmless *)
Example c03_nonvacuous_args :
  parse_x86_arg_list Debug [87;58;58;112;40;105;110;116;44;32;109;60;75;44;32;86;62;41;160;99] =
  Ret (Some (WindowsThisCall, [[105;110;116]; [109;60;75;44;32;86;62]])).
Proof. vm_compute. reflexivity. Qed.

(* ==================================================================== round 4 *)
(* ---- op_analysis::get_thread_instruction_bytes: for every list of memory regions the two stream readers can build
   (size = length of the byte slice) and every instruction pointer, in both profiles, the fetch answers "no memory
   there" or returns the bytes from the instruction pointer to the end of ONE region of the list: at least one byte,
   exactly base + size - ip of them, and neither the subtraction nor the slice can trap. *)
Theorem c03_instr_fetch_total : forall p rs ip, wf_regions rs -> 0 <= ip < two64 ->
  fetch_instruction_bytes p rs ip = Ret None \/
  exists m, In m rs /\ r_base m <= ip /\
    fetch_instruction_bytes p rs ip = Ret (Some (skipn (Z.to_nat (ip - r_base m)) (r_bytes m))) /\
    Z.of_nat (length (skipn (Z.to_nat (ip - r_base m)) (r_bytes m))) = r_base m + r_size m - ip /\
    1 <= r_base m + r_size m - ip.
Proof. exact fetch_total. Qed.
Print Assumptions c03_instr_fetch_total.

(* the lookup the fetch relies on: memory_at_address returns a region of the list that contains the address *)
Theorem c03_memory_at_sound : forall rs x m, wf_regions rs -> memory_at rs x = Some m ->
  In m rs /\ r_base m <= x /\ x <= r_base m + r_size m - 1 /\ r_base m + r_size m <= two64.
Proof. exact memory_at_sound. Qed.
Print Assumptions c03_memory_at_sound.

Example c03_nonvacuous_fetch : wf_regions stitch_witness /\
  fetch_instruction_bytes Debug stitch_witness 4194304 = Ret (Some [72; 139]).
Proof. split; [exact stitch_witness_wf|exact (fetch_on_stitch_witness Debug)]. Qed.

(* seeded/C03-4 (completing a cut-off instruction from the following region without looking at its length):
   the variant panics on a well-formed two-region layout, in both profiles — the model expresses that class *)
Theorem c03_instr_fetch_stitch_refuted : forall p, exists rs ip, wf_regions rs /\ 0 <= ip < two64 /\
  fetch_instruction_bytes_stitched p rs ip = Panic PANIC_INDEX.
Proof.
  intros p. exists stitch_witness, 4194304.
  split; [exact stitch_witness_wf|]. split; [unfold two64; lia|exact (stitch_panics p)].
Qed.
Print Assumptions c03_instr_fetch_stitch_refuted.

(* ---- fill_symbol's inline-level enumeration (`for depth in 1..`, stop at the first level without a covering record):
   whatever the INLINE records of the function are (any depths, gaps, duplicates), the loop performs at most
   |records| + 1 lookups (fuel S |records| suffices, no OutOfFuel), the u32 level counter cannot overflow, and the
   frame gets at most |records| inline levels — the work per frame is tied to the size of the symbol file.
   [look_sound] is what get_inlinee_at_depth guarantees (a record of the function, of the depth asked for; the binary
   search itself is C11's model); [look_linear] is an instance. *)
Theorem c03_inline_levels_bound : forall p recs look,
  look_sound recs look -> Z.of_nat (length recs) + 2 < two32 ->
  exists l, inline_loop p (S (length recs)) look 1 [] = Ret l /\ (length l <= length recs)%nat.
Proof. exact inline_levels_bound. Qed.
Print Assumptions c03_inline_levels_bound.

Example c03_nonvacuous_inline_levels : look_sound depth_gap_witness (look_linear depth_gap_witness 4) /\
  inline_loop Debug (S (length depth_gap_witness)) (look_linear depth_gap_witness 4) 1 [] = Ret [].
Proof. split; [apply look_linear_sound|vm_compute; reflexivity]. Qed.

(* seeded/C03-3 (enumerating up to the largest recorded depth): no fuel below that depth suffices, whatever the
   lookup returns; with two records the |records| + 1 budget is exceeded *)
Theorem c03_inline_maxdepth_refuted :
  (forall look (fuel : nat) maxd acc, Z.of_nat fuel <= maxd -> inline_loop_maxdepth fuel look maxd 1 acc = OutOfFuel) /\
  inline_loop_maxdepth (S (length depth_gap_witness)) (look_linear depth_gap_witness 4)
                       (max_depth_of depth_gap_witness) 1 [] = OutOfFuel.
Proof.
  split; [|exact maxdepth_out_of_fuel].
  intros look fuel maxd acc H. apply maxdepth_needs_depth_many_steps. lia.
Qed.
Print Assumptions c03_inline_maxdepth_refuted.

(* ---- PPC / PPC64 / SPARC / unknown-CPU dumps: get_caller_frame's dispatch has no walker for them, so the walk is the
   context frame alone (fuel 1), within the frame bound for any stack — whatever a per-architecture walker would do *)
Theorem c03_no_unwinder_single_frame : forall (F : Type) c (w : F -> option F) (cur : F) (stack_bytes : nat),
  has_unwinder c = false ->
  walk_any 1 (get_caller_dispatch c w) cur = Ret [cur] /\ (length [cur] <= stack_bytes + 2)%nat.
Proof. exact @no_unwinder_single_frame. Qed.
Print Assumptions c03_no_unwinder_single_frame.

(* ---- the round-4 sites in the shape of c03_process_total_partial: neither Panic nor OutOfFuel *)
Theorem c03_round4_sites_total :
  (forall p rs ip tag, wf_regions rs -> 0 <= ip < two64 -> fetch_instruction_bytes p rs ip <> Panic tag) /\
  (forall p recs look, look_sound recs look -> Z.of_nat (length recs) + 2 < two32 ->
     (forall tag, inline_loop p (S (length recs)) look 1 [] <> Panic tag) /\
     inline_loop p (S (length recs)) look 1 [] <> OutOfFuel).
Proof. exact round4_sites_total. Qed.
Print Assumptions c03_round4_sites_total.

(* ---- tie to the source (translate/c03_sites.py -> Gen/C03Sites.v, regenerated on every run): the model's table of
   CPUs with an unwinder is the set of `=> <arch>::get_caller_frame` arms of the dispatch, the guard-page limit and the
   first inline level are the source's constants *)
Theorem c03_sites_match_source :
  (forall c, has_unwinder (C03.SitesTie.of_gen c) = C03.SitesTie.in_arms c) /\
  GUARD_MEMORY_MAX_SIZE = Gen.C03Sites.gen_guard_memory_max_size /\
  Gen.C03Sites.gen_inline_first_depth = 1.
Proof.
  exact (conj C03.SitesTie.unwinder_table_agrees (conj C03.SitesTie.guard_const_agrees C03.SitesTie.inline_first_depth_agrees)).
Qed.
Print Assumptions c03_sites_match_source.

(* ---- jmp / call through memory (InstructionPointerUpdate): the u64 read out of the memory list is total by
   construction (checked_sub, pread); what is proved is that a value is only ever returned when all 8 bytes lie in ONE
   region of the list (and below 2^64), and that a read cut off by the end of its region fails whatever follows it *)
Theorem c03_read_u64_inside_one_region : forall rs addr v, wf_regions rs -> 0 <= addr < two64 ->
  read_u64_at rs addr = Some v ->
  exists m, In m rs /\ r_base m <= addr /\ addr + 8 <= r_base m + r_size m /\ addr + 8 <= two64 /\
            v = le_value (firstn 8 (skipn (Z.to_nat (addr - r_base m)) (r_bytes m))).
Proof. exact read_u64_inside. Qed.
Print Assumptions c03_read_u64_inside_one_region.

Theorem c03_read_u64_never_stitches : forall rs addr m, wf_regions rs -> 0 <= addr < two64 ->
  memory_at rs addr = Some m -> r_base m + r_size m < addr + 8 -> read_u64_at rs addr = None.
Proof. exact read_u64_never_stitches. Qed.
Print Assumptions c03_read_u64_never_stitches.

Example c03_nonvacuous_read_u64 :
  let rs := [ {| r_base := 4096; r_size := 9; r_bytes := [1; 2; 3; 4; 5; 6; 7; 8; 9] |} ] in
  wf_regions rs /\ read_u64_at rs 4097 = Some 650777868590383874 /\ read_u64_at rs 4098 = None.
Proof.
  split; [intros r [H|[]]; subst r; unfold wf_region; cbn; lia|]. split; vm_compute; reflexivity.
Qed.

(* ==================================================================== round 5 *)
(* ---- the top-level control flow of MinidumpInfo::into_process_state (C03/ProcessModel.v) composed with C05's walker:
   for EVERY thread list (any number of threads, duplicate ids, threads without context / without stack), every memory
   list the readers can build, every exception / breakpad-info combination and every CPU, in both profiles:
   the whole thread loop returns — no Panic, and no OutOfFuel with the per-thread fuel |chosen stack memory| + 3 that the
   model itself computes — and for every thread-list entry t the call stack o at the same index satisfies [thread_post]:
     same thread id; CallStackInfo as the first pass decided;
     #frames <= (bytes of the stack memory CHOSEN for the thread by the probe logic) + 2;
     no frames without a context, else the context frame of the SELECTED context first;
     every frame's instruction is a u64; one unloaded-module offset list per frame;
   and `requesting_thread`, when set, indexes into the result. *)
Theorem c03_process_threads_total : forall p cpu a os module_at max_module_addr cfi_walk instr_valid pi,
  C05.Proofs.arch_ok a -> input_ok a pi -> cfi_contract a cfi_walk ->
  exists outs,
    process_threads p cpu a os module_at max_module_addr cfi_walk instr_valid pi = Ret (outs, requesting_index pi) /\
    Forall2 (thread_post pi) (pi_threads pi) outs /\
    (forall i, requesting_index pi = Some i -> (i < length outs)%nat).
Proof. exact process_threads_total. Qed.
Print Assumptions c03_process_threads_total.

(* ---- C03 for the modelled pipeline, full strength: terminates, never panics, frame bound, always renders — for ALL threads.
   On top of c03_process_threads_total: `self.threads[requesting_thread]` of print / print_json cannot index out of bounds,
   and every frame of every thread passes the printers' address arithmetic (module offset, unloaded-module offsets,
   function and source-line offsets of whatever fill_symbol (C11) returned inside the module the C08 lookup found) without
   a trap, in either profile [pr] of the printing code.  Not inside this statement (search harness only): tokio's
   scheduling of the per-thread futures, the disassembler, serde_json, the text formatting itself. *)
Theorem c03_process_total : forall p cpu a os module_at max_module_addr cfi_walk instr_valid pi,
  C05.Proofs.arch_ok a -> input_ok a pi -> cfi_contract a cfi_walk ->
  exists outs,
    process_threads p cpu a os module_at max_module_addr cfi_walk instr_valid pi = Ret (outs, requesting_index pi) /\
    Forall2 (thread_post pi) (pi_threads pi) outs /\
    (exists r, requesting_stack p cpu a os module_at max_module_addr cfi_walk instr_valid pi = Ret r) /\
    forall o f, In o outs -> In f (o_frames o) ->
      forall pr q rf mods, wf_mods mods -> C11.Proofs2.wf_file rf ->
        (exists x, module_offset pr mods (C05.Model.f_instr f) = Ret x) /\
        (exists l, unloaded_offsets pr mods (C05.Model.f_instr f) = Ret l) /\
        forall i m so,
          rm_get (module_table mods) (C05.Model.f_instr f) = Some i -> nth_error mods (Z.to_nat i) = Some m ->
          C11.Model.symbolize q rf (fst m) (C05.Model.f_instr f) = Ret so ->
          (exists x, text_frame_offset pr (frame_of (C05.Model.f_instr f) (fst m) so) = Ret x) /\
          (exists y, json_frame_offsets pr (frame_of (C05.Model.f_instr f) (fst m) so) = Ret y).
Proof. exact process_total. Qed.
Print Assumptions c03_process_total.

(* ---- the stack memory a thread is walked on is never a third region: it is what MinidumpThread::stack_memory returns, or
   (only when a context was selected and the memory list has a region at its stack pointer) that region; and the thread's
   own memory is kept whenever it holds the 8 probe bytes at the stack pointer *)
Theorem c03_stack_memory_choice : forall mem t c,
  (choose_stack_memory mem t c = thread_stack_memory mem t \/
   exists r v, c = Some (r, v) /\ choose_stack_memory mem t c = memory_at mem (C05.Model.r_sp r) /\
               memory_at mem (C05.Model.r_sp r) <> None) /\
  (forall r v m, c = Some (r, v) -> thread_stack_memory mem t = Some m ->
     region_reads m STACK_PROBE_BYTES (C05.Model.r_sp r) = true -> choose_stack_memory mem t c = Some m).
Proof.
  intros mem t c. split; [exact (choose_stack_cases mem t c)|].
  intros r v m Hc. subst c. exact (choose_stack_keeps_own mem t r v m).
Qed.
Print Assumptions c03_stack_memory_choice.

(* ---- the first pass computes `requesting_thread` exactly as round 1's model over the thread ids alone *)
Theorem c03_requesting_index_agrees : forall pi,
  requesting_index pi =
  requesting_thread (map th_id (pi_threads pi)) (pi_dump_tid pi) (opt_or (pi_crash_tid pi) (pi_req_tid pi)).
Proof. exact requesting_index_is_requesting_thread. Qed.
Print Assumptions c03_requesting_index_agrees.

(* non-vacuity: an amd64 dump with three threads — the crashing one (exception context; its own stack descriptor is empty,
   start_of_memory_range points at a 16-byte region, the exception context's rsp into another, 32-byte region: that one is
   chosen and yields a frame-pointer frame), the dump-writer thread (skipped) and a thread without context *)
Definition nv_z8 (v : Z) : list Z := [v mod 256; (v / 256) mod 256; (v / 65536) mod 256; (v / 16777216) mod 256; 0; 0; 0; 0].
Definition nv_regA : region := {| r_base := 4096; r_size := 16; r_bytes := repeat 0 16 |}.
Definition nv_regB : region :=
  {| r_base := 8192; r_size := 32; r_bytes := repeat 0 8 ++ nv_z8 8216 ++ nv_z8 4199988 ++ repeat 0 8 |}.
Definition nv_ctx (ip sp fp : Z) : ctx :=
  ({| C05.Model.r_ip := ip; C05.Model.r_sp := sp; C05.Model.r_fp := fp; C05.Model.r_lr := 0; C05.Model.r_gp := [] |}, C05.Model.VAll).
Definition nv_input : proc_in :=
  {| pi_threads := [ {| th_id := 7; th_ctx := Some (nv_ctx 1 4096 0); th_stack := None; th_stack_start := 4096 |};
                     {| th_id := 9; th_ctx := Some (nv_ctx 2 4096 0); th_stack := Some nv_regA; th_stack_start := 4096 |};
                     {| th_id := 11; th_ctx := None; th_stack := None; th_stack_start := 0 |} ];
     pi_dump_tid := Some 9; pi_crash_tid := Some 7; pi_req_tid := Some 11;
     pi_exc_ctx := Some (nv_ctx 4198400 8192 8200); pi_memory := [nv_regA; nv_regB]; pi_unloaded := [(4194304, 65536)] |}.

Example c03_nonvacuous_process :
  C05.Proofs.arch_ok C05.Model.amd64 /\ input_ok C05.Model.amd64 nv_input /\
  cfi_contract C05.Model.amd64 (fun _ _ _ _ => None) /\
  match process_threads Debug CpuAmd64 C05.Model.amd64 0 (fun _ => None) 0 (fun _ _ _ _ => None) (fun _ => false) nv_input with
  | Ret ([o1; o2; o3], Some 0%nat) =>
      map C05.Model.f_instr (o_frames o1) = [4198400; 4199987] /\ o_unloaded o1 = [[4096]; [5683]] /\
      o_info o2 = InfoDumpThreadSkipped /\ o_frames o2 = [] /\ o_info o3 = InfoMissingContext /\ o_frames o3 = []
  | _ => False
  end /\
  choose_stack_memory (pi_memory nv_input) {| th_id := 7; th_ctx := Some (nv_ctx 1 4096 0); th_stack := None; th_stack_start := 4096 |}
    (pi_exc_ctx nv_input) = Some nv_regB.
Proof.
  split; [exact C05.Proofs.arch_ok_amd64|]. split; [|split; [intros mem callee gc fwd r v H; discriminate|split; [vm_compute; repeat split; reflexivity|vm_compute; reflexivity]]].
  assert (Hb : forall n, Forall (fun b => 0 <= b < 256) (repeat 0 n)).
  { intros n. apply Forall_forall. intros x Hx. apply repeat_spec in Hx. subst. lia. }
  assert (HA : region_ok nv_regA).
  { split; [unfold wf_region; cbn; lia|exact (Hb 16%nat)]. }
  assert (HB : region_ok nv_regB).
  { split; [unfold wf_region; cbn; lia|]. vm_compute. repeat constructor; discriminate. }
  assert (Hc : forall ip sp fp, 0 <= ip < two64 -> 0 <= sp < two64 -> 0 <= fp < two64 -> ctx_ok C05.Model.amd64 (Some (nv_ctx ip sp fp))).
  { intros ip sp fp H1 H2 H3 r v E. inversion E; subst. unfold C05.Proofs.regs_wf, C05.Proofs.in_slot. cbn. unfold two64 in *. lia. }
  split; [intros m [H|[H|[]]]; subst; assumption|].
  split; [|split; [apply Hc; unfold two64; lia|intros m [H|[]]; subst; cbn; lia]].
  intros t [H|[H|[H|[]]]]; subst t; cbn [th_ctx th_stack]; (split; [|intros m E; try discriminate; inversion E; subst; assumption]).
  - apply Hc; unfold two64; lia.
  - apply Hc; unfold two64; lia.
  - intros r v E; discriminate.
Qed.

(* ---- tie of the thread-loop model to processor.rs (translate/c03_sites.py, regenerated on every run): who counts as the
   requesting thread, which context it is walked from and which memory the walk falls back to are the `.or()` expressions of
   the source with their operand order, and the stack-pointer probe has the source's width.  (The translator also pins the
   ORDER of the steps of both passes — dump-writer test before the context selection; stack memory, probe, fall-back,
   walk_stack, unloaded-module offsets, argument recovery, inc_processed_threads — and aborts when it changes.) *)
Theorem c03_process_matches_source :
  (forall pi t, opt_is (pi_dump_tid pi) (th_id t) = false ->
     s0_req (initial_stack pi t) = opt_is (Gen.C03Sites.gen_wanted_id (pi_crash_tid pi) (pi_req_tid pi)) (th_id t)) /\
  (forall pi t, opt_is (pi_dump_tid pi) (th_id t) = false ->
     s0_ctx (initial_stack pi t) =
     if opt_is (Gen.C03Sites.gen_wanted_id (pi_crash_tid pi) (pi_req_tid pi)) (th_id t)
     then Gen.C03Sites.gen_selected_context (pi_exc_ctx pi) (th_ctx t) else th_ctx t) /\
  (forall mem t r v,
     choose_stack_memory mem t (Some (r, v)) =
     let sm := thread_stack_memory mem t in
     if match sm with Some m => region_reads m Gen.C03Sites.gen_stack_probe_bytes (C05.Model.r_sp r) | None => false end
     then sm else Gen.C03Sites.gen_stack_fallback (memory_at mem (C05.Model.r_sp r)) sm).
Proof.
  exact (conj C03.SitesTie.requesting_flag_from_source
              (conj C03.SitesTie.selected_context_from_source C03.SitesTie.stack_choice_from_source)).
Qed.
Print Assumptions c03_process_matches_source.

(* ---- the size of the result against the size of the input: the call stacks of the whole ProcessState together hold at most
   |thread list| x (bytes of the largest memory region of the dump + 2) frames, for any stack contents, contexts and symbols
   (the CFI oracle is arbitrary within its contract).  This is the input-size term of C03's time / memory budget; the
   harness measures the cost per frame. *)
Theorem c03_total_frames_bound : forall p cpu a os module_at max_module_addr cfi_walk instr_valid pi,
  C05.Proofs.arch_ok a -> input_ok a pi -> cfi_contract a cfi_walk ->
  exists outs req,
    process_threads p cpu a os module_at max_module_addr cfi_walk instr_valid pi = Ret (outs, req) /\
    (total_frames outs <= length (pi_threads pi) * (max_region_bytes pi + 2))%nat.
Proof. exact process_total_frames. Qed.
Print Assumptions c03_total_frames_bound.

(* ---- print_json's "crashing_thread": self.threads[requesting_thread], output["threads"][requesting_thread] and frames[0]
   are in bounds for the state the thread loop produced *)
Theorem c03_crashing_thread_json_total : forall p cpu a os module_at max_module_addr cfi_walk instr_valid pi,
  C05.Proofs.arch_ok a -> input_ok a pi -> cfi_contract a cfi_walk ->
  exists r, render_crashing_thread p cpu a os module_at max_module_addr cfi_walk instr_valid pi = Ret r.
Proof. exact render_crashing_thread_total. Qed.
Print Assumptions c03_crashing_thread_json_total.

Example c03_nonvacuous_crashing_thread :
  match render_crashing_thread Debug CpuAmd64 C05.Model.amd64 0 (fun _ => None) 0 (fun _ _ _ _ => None) (fun _ => false) nv_input with
  | Ret (Some (0%nat, f)) => C05.Model.f_instr f = 4198400
  | _ => False
  end /\ max_region_bytes nv_input = 32%nat.
Proof. split; vm_compute; reflexivity. Qed.

(* ---- BitFlipDetails::confidence (reached for every bit-flip candidate of check_for_bitflips): for ANY candidate address and
   ANY register file, in both profiles, counting the nearby registers cannot overflow, `min(count, len) - 1` cannot underflow
   and NEARBY_REGISTER[..] is indexed inside the table — i = min(count, 4) - 1 when count > 0, no access when count = 0 *)
Theorem c03_nearby_register_index_total : forall p address regs, Z.of_nat (length regs) < two32 ->
  exists n i, nearby_site p address regs = Ret (n, i) /\ 0 <= n <= Z.of_nat (length regs) /\
              (n = 0 -> i = None) /\ (0 < n -> i = Some (Z.min n NEARBY_REGISTER_LEN - 1)).
Proof. exact nearby_site_total. Qed.
Print Assumptions c03_nearby_register_index_total.

(* the same for the index expression as translate/c03_sites.py reads it out of process_state.rs on every run, with the
   source's table length: it is what the model computes, and it stays inside the table for every non-zero u32 count *)
Theorem c03_nearby_register_index_source :
  (forall p n, 0 < n ->
     nearby_index p n =
     (do i <- Gen.C03Sites.gen_nearby_index p n Gen.C03Sites.gen_nearby_table_len;
      if (0 <=? i) && (i <? Gen.C03Sites.gen_nearby_table_len) then Ret (Some i) else Panic PANIC_INDEX)) /\
  (forall p n, 0 < n < two32 ->
     exists i, Gen.C03Sites.gen_nearby_index p n Gen.C03Sites.gen_nearby_table_len = Ret i /\
               0 <= i < Gen.C03Sites.gen_nearby_table_len).
Proof. exact (conj C03.SitesTie.nearby_index_from_source C03.SitesTie.nearby_source_in_bounds). Qed.
Print Assumptions c03_nearby_register_index_source.

(* seeded/C03-7 (subtract first, clamp to the table LENGTH): one past the end for every count >= 5, both profiles *)
Theorem c03_nearby_clamp_len_refuted : forall p n, 5 <= n < two32 -> nearby_index_clamp_len p n = Panic PANIC_INDEX.
Proof. exact nearby_clamp_len_panics. Qed.
Print Assumptions c03_nearby_clamp_len_refuted.

Example c03_nonvacuous_nearby :
  nearby_site Debug 524288 [524288; 524289; 520192; 528384; 528385; 524000; 0; 524290] = Ret (6, Some 3) /\
  nearby_site Release 4096 [4096; 4097] = Ret (0, None).
Proof. split; vm_compute; reflexivity. Qed.

(* ---- process_minidump_with_options as a whole (MinidumpInfo::new, then the thread loop): "returns a result or an error without
   panicking" — an error exactly when the thread list (first) or the system info cannot be read, else a state whose call stacks
   satisfy [thread_post] (frame bound per thread) with requesting_thread in bounds *)
Theorem c03_process_minidump_total : forall p cpu a os module_at max_module_addr cfi_walk instr_valid tl si pi,
  C05.Proofs.arch_ok a -> input_ok a pi -> cfi_contract a cfi_walk ->
  exists r, process_minidump p cpu a os module_at max_module_addr cfi_walk instr_valid tl si pi = Ret r /\
    match r with
    | ProcessErr e => (tl = false /\ e = MissingThreadList) \/ (tl = true /\ si = false /\ e = MissingSystemInfo)
    | ProcessOk outs req => tl = true /\ si = true /\ Forall2 (thread_post pi) (pi_threads pi) outs /\
                            (forall i, req = Some i -> (i < length outs)%nat)
    end.
Proof. exact process_minidump_total. Qed.
Print Assumptions c03_process_minidump_total.

(* ---- "every optional stream degraded to default on error": over the table of ALL stream reads of MinidumpInfo::new that
   translate/c03_sites.py extracts on every run (with the ProcessError a failure is turned into, or none), the first failing
   required read decides — which is the model's two tests — and the readability of no other stream can make processing fail *)
Theorem c03_info_new_required_streams :
  (forall ok, C03.SitesTie.first_failure ok Gen.C03Sites.gen_stream_handling =
              option_map C03.SitesTie.to_gen_error
                (info_new (ok Gen.C03Sites.GS_MinidumpThreadList) (ok Gen.C03Sites.GS_MinidumpSystemInfo))) /\
  (forall ok ok', ok Gen.C03Sites.GS_MinidumpThreadList = ok' Gen.C03Sites.GS_MinidumpThreadList ->
                  ok Gen.C03Sites.GS_MinidumpSystemInfo = ok' Gen.C03Sites.GS_MinidumpSystemInfo ->
                  C03.SitesTie.first_failure ok Gen.C03Sites.gen_stream_handling =
                  C03.SitesTie.first_failure ok' Gen.C03Sites.gen_stream_handling).
Proof. exact (conj C03.SitesTie.info_new_from_source C03.SitesTie.optional_streams_cannot_fail). Qed.
Print Assumptions c03_info_new_required_streams.

(* ---- round 5, second pass: "within a time and memory budget tied to the input size", for the number of frames of the whole
   ProcessState against ONE number, the length of the file (C03/BudgetModel.v: thread-list entries and memory descriptors are
   references (rva, data_size) into the file, read by MinidumpMemory::read; the two list streams lie inside the file).
   (1) A budget exists and is QUADRATIC: for every file-backed input, every CPU, any stack contents, contexts and symbols,
       both profiles: frames <= |thread list| x (|file| + 2), and 48 x frames <= |file| x (|file| + 2). *)
Theorem c03_frames_budget_in_file_size : forall p cpu a os module_at max_module_addr cfi_walk instr_valid fi,
  C05.Proofs.arch_ok a -> file_ok a fi -> streams_in_file fi -> cfi_contract a cfi_walk ->
  exists outs req,
    process_threads p cpu a os module_at max_module_addr cfi_walk instr_valid (to_proc_in fi) = Ret (outs, req) /\
    (total_frames outs <= length (fi_threads fi) * (file_size fi + 2))%nat /\
    48 * Z.of_nat (total_frames outs) <= Z.of_nat (file_size fi) * (Z.of_nat (file_size fi) + 2).
Proof. exact frames_quadratic_in_file. Qed.
Print Assumptions c03_frames_budget_in_file_size.

(* (2) informative: NO budget linear in the input size exists, i.e. the quadratic budget (1) is tight up to a constant.  For every
       factor c below 2^20 there is a dump shorter than 2^32 bytes, well-formed for every reader, whose processing (amd64, the walker
       as it is now, one module whose symbols hold the one-byte CFI rule [share_cfi], which meets the CFI contract) yields more than
       c x |file| frames, in both profiles: m thread-list entries cite the same m stack bytes, which the file holds once — m x (m + 1)
       frames out of 2048 + 49 m bytes.  This is not a violation of C03 (the property asks for a budget tied to the input size, which
       (1) is); it says which budget a checker may demand.  (Replayed on the real code: corpus/C03, share=1 cases; design/C03.md.) *)
Theorem c03_linear_frame_budget_refuted : forall p (c : nat), Z.of_nat c < 1048576 ->
  exists fi outs req,
    file_ok C05.Model.amd64 fi /\ streams_in_file fi /\ cfi_contract C05.Model.amd64 share_cfi /\
    Z.of_nat (file_size fi) < 4294967296 /\
    process_threads p CpuAmd64 C05.Model.amd64 0 sh_modules 0 share_cfi sh_iv (to_proc_in fi) = Ret (outs, req) /\
    Z.of_nat c * Z.of_nat (file_size fi) < Z.of_nat (total_frames outs).
Proof. exact linear_frame_budget_refuted. Qed.
Print Assumptions c03_linear_frame_budget_refuted.

(* the family behind it, exactly: m threads x (m + 1) frames, 2048 + 49 m bytes *)
Theorem c03_shared_stack_frames : forall p m, (8 <= m)%nat -> Z.of_nat m < 4294967296 ->
  exists outs req,
    process_threads p CpuAmd64 C05.Model.amd64 0 sh_modules 0 share_cfi sh_iv (to_proc_in (share_input m)) = Ret (outs, req) /\
    total_frames outs = (m * (m + 1))%nat /\ file_size (share_input m) = (2048 + 49 * m)%nat.
Proof. exact share_frames. Qed.
Print Assumptions c03_shared_stack_frames.

(* non-vacuity: the member m = 8 of the family is file-backed and well-formed, its eight threads are read from the same eight
   bytes at rva 2432, and the model walks each for 9 frames: 72 frames out of 2440 bytes (computed) *)
Example c03_nonvacuous_budget :
  file_ok C05.Model.amd64 (share_input 8) /\ streams_in_file (share_input 8) /\
  map th_stack (pi_threads (to_proc_in (share_input 8))) = repeat (Some (sh_region 8)) 8 /\
  match process_threads Debug CpuAmd64 C05.Model.amd64 0 sh_modules 0 share_cfi sh_iv (to_proc_in (share_input 8)) with
  | Ret (outs, None) => total_frames outs = 72%nat /\ length outs = 8%nat
  | _ => False
  end /\ file_size (share_input 8) = 2440%nat.
Proof.
  split; [exact (proj1 (share_file_ok 8))|]. split; [exact (proj1 (proj2 (share_file_ok 8)))|].
  split; [vm_compute; reflexivity|]. split; [vm_compute; split; reflexivity|vm_compute; reflexivity].
Qed.

(* ---- round 5, second pass: "the resulting state can always be written as full text, brief text and JSON".
   C03/RenderModel.v is the control flow of print / print_brief (print_internal), CallStack::print and print_json over a whole
   ProcessState: which blocks are written in which order, the loops over threads, frames, inline frames and modules, and every
   index / + / - site on the way.  For EVERY state whose frames satisfy [frame_ok] (the C08 / C11 lookup facts), whose
   requesting_thread indexes the thread list and whose module tables passed the readers' size filter, in both profiles: all three
   printers return (no index out of bounds, no overflow trap); the requesting thread's block is in the full and in the brief text;
   one line per module, one JSON entry per module / thread / unloaded module. *)
Theorem c03_renderers_total : forall p st, state_ok st ->
  exists full brief json, render_all p st = Ret (full, brief, json) /\
    (forall i, st_requesting st = Some i -> In (IThread i) full /\ In (IThread i) brief) /\
    (length (st_modules st) + length (st_unloaded st) <= length full)%nat /\
    (length (st_modules st) + length (st_threads st) + length (st_unloaded st) <= length json)%nat.
Proof. exact renderers_total. Qed.
Print Assumptions c03_renderers_total.

(* the pipeline composed: thread loop (with C05's walker), then per frame the C08 module lookup and C11's fill_symbol on that
   module's symbol file (ANY well-formed symbol file per module), then the three printers.  No hypothesis about the produced state
   is left except that no call stack prints 2^64 lines. *)
Theorem c03_pipeline_always_renders : forall p pr q cpu a os module_at max_module_addr cfi_walk instr_valid mods files pi,
  C05.Proofs.arch_ok a -> input_ok a pi -> cfi_contract a cfi_walk ->
  mods_ok mods -> mods_ok (pi_unloaded pi) -> (forall i, C11.Proofs2.wf_file (files i)) ->
  exists outs st,
    process_threads p cpu a os module_at max_module_addr cfi_walk instr_valid pi = Ret (outs, requesting_index pi) /\
    state_of q mods files outs (requesting_index pi) (pi_unloaded pi) = Ret st /\
    length (st_threads st) = length (pi_threads pi) /\
    (lines_ok st ->
     exists full brief json,
       pipeline_render p pr q cpu a os module_at max_module_addr cfi_walk instr_valid mods files pi = Ret (full, brief, json) /\
       (forall i, requesting_index pi = Some i -> In (IThread i) full /\ In (IThread i) brief)).
Proof. exact pipeline_always_renders. Qed.
Print Assumptions c03_pipeline_always_renders.

(* the model expresses the defect class: a requesting_thread one past the thread list (round 5's mutation `Some(i + 1)`) makes
   every printer panic on the index *)
Theorem c03_render_requesting_out_of_bounds_refuted : forall p st,
  st_requesting st = Some (length (st_threads st)) ->
  print_internal p false st = Panic PANIC_INDEX /\ print_internal p true st = Panic PANIC_INDEX.
Proof.
  intros p st H. unfold print_internal. rewrite H. unfold idx.
  assert (E : nth_error (st_threads st) (length (st_threads st)) = None) by (apply nth_error_None; lia).
  rewrite E. split; reflexivity.
Qed.
Print Assumptions c03_render_requesting_out_of_bounds_refuted.

(* the sites of the three printers as translate/c03_render.py extracts them from the source on every run (every index, + / -,
   += / -= and the number of unwraps; an unknown expression or a panic macro makes the translator abort) are exactly the sites the
   model visits *)
Theorem c03_render_sites_match_source :
  Gen.C03Render.gen_print_internal_sites = C03.RenderTie.model_print_internal_sites /\
  Gen.C03Render.gen_call_stack_print_sites = C03.RenderTie.model_call_stack_print_sites /\
  Gen.C03Render.gen_print_json_sites = C03.RenderTie.model_print_json_sites /\
  Gen.C03Render.gen_printer_unwraps = C03.RenderTie.model_printer_unwraps.
Proof. exact C03.RenderTie.render_sites_from_source. Qed.
Print Assumptions c03_render_sites_match_source.

(* non-vacuity: three call stacks — the requesting one (index 1) with a symbolicated frame carrying two inline frames, a frame with
   only a module and a raw frame with unloaded-module offsets; a skipped dump-writer thread; an empty stack — two modules (one
   ending at 2^64 - 1) and an unloaded module: the state is [state_ok] and the printers' output is computed *)
Definition nv_rframe (i : Z) (m f s : option Z) (inl : nat) (u : list (list Z)) : rframe :=
  {| rf_frame := {| f_instr := i; f_module := m; f_fname := match f with Some _ => true | None => false end; f_fbase := f;
                    f_srcfl := match s with Some _ => true | None => false end; f_sbase := s |};
     rf_inlines := inl; rf_unloaded := u |}.
Definition nv_state : rstate :=
  {| st_threads := [ {| rs_info := InfoDumpThreadSkipped; rs_frames := [] |};
                     {| rs_info := InfoOk; rs_frames := [nv_rframe 4198400 (Some 4194304) (Some 4198000) (Some 4198396) 2 [];
                                                         nv_rframe 4199987 (Some 4194304) None None 0 [];
                                                         nv_rframe 9000 None None None 0 [[808; 4904]]] |};
                     {| rs_info := InfoMissingContext; rs_frames := [] |} ];
     st_requesting := Some 1%nat;
     st_modules := [(4194304, 65536); (18446744073709486080, 65535)];
     st_unloaded := [(8192, 4096)] |}.
Example c03_nonvacuous_render :
  state_ok nv_state /\
  print_internal Debug true nv_state =
    Ret [ISection 1; ISection 2; ISection 3; ISection 4; IThread 1; IInline 0; IInline 1; IFrame 2 (Some 4) [];
         IFrame 3 (Some 5683) []; IFrame 4 None [[808; 4904]]] /\
  print_internal Debug false nv_state =
    Ret [ISection 1; ISection 2; ISection 3; ISection 4; IThread 1; IInline 0; IInline 1; IFrame 2 (Some 4) [];
         IFrame 3 (Some 5683) []; IFrame 4 None [[808; 4904]]; IThread 2; INoFrames;
         IModule 4194304 4259839; IModule 18446744073709486080 18446744073709551614; IUnloaded 8192 12287;
         ISection 5; ISection 6; ISection 7] /\
  print_json Release nv_state =
    Ret [ISection 10; ISection 11; IJsonModule 4194304 4259840; IJsonModule 18446744073709486080 18446744073709551615; ISection 12;
         IJsonThread []; IJsonThread [(0%nat, Some 4096, Some 400); (1%nat, Some 5683, None); (2%nat, None, None)]; IJsonThread [];
         IJsonUnloaded 8192 12288; IJsonCrashingThread 1].
Proof.
  split; [|split; [vm_compute; reflexivity|split; vm_compute; reflexivity]].
  unfold state_ok. cbn [st_threads st_requesting st_modules st_unloaded nv_state]. split; [|split; [|split; [|split]]].
  - intros s f [Hs|[Hs|[Hs|[]]]]; subst s; cbn [rs_frames In]; intros Hf; repeat (destruct Hf as [Hf|Hf]); try contradiction;
      subst f; unfold frame_ok, below, nv_rframe; cbn [rf_frame f_instr f_module f_fbase f_sbase];
      (split; [unfold two64; lia|]); (split; [|split]); intros b Hb; inversion Hb; subst; lia.
  - intros s [Hs|[Hs|[Hs|[]]]]; subst s; vm_compute; reflexivity.
  - intros i Hi. inversion Hi; subst. cbn. lia.
  - intros m [Hm|[Hm|[]]]; subst m; cbn [fst snd]; (split; [lia|split; [lia|vm_compute; reflexivity]]).
  - intros m [Hm|[]]; subst m; cbn [fst snd]; (split; [lia|split; [lia|vm_compute; reflexivity]]).
Qed.
