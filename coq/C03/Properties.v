(* C03/Properties.v — property theorems only (the site part of C03; the frame bound is C05's,
   STACK WIN / CFI sites are C06/C07's).  "_refuted" theorems are about the `_v0` models, i.e.
   the code before the fix commits recorded in known_findings.json. *)
From Coq Require Import Lia.
From RM Require Import C08.Model C08.Proofs C03.Model C03.Proofs.
Open Scope Z_scope.

(* ---- LinuxProcLimits::from: no index panic for any stream contents *)
Theorem c03_limits_total : forall data : bytes, exists r, limits_from data = Ret r.
Proof. exact limits_from_total. Qed.
Print Assumptions c03_limits_total.

Theorem c03_limits_skips_exactly_short_lines : forall m : list bytes,
  limit_entry m = Ret None <-> (length m < 3)%nat.
Proof. exact limit_entry_skips. Qed.
Print Assumptions c03_limits_skips_exactly_short_lines.

(* F-C03b: before the fix a line with fewer than three fields indexed out of bounds *)
Theorem c03_limits_refuted : exists data, limits_from_v0 data = Panic PANIC_INDEX.
Proof. exists limits_witness. exact limits_v0_panics. Qed.
Print Assumptions c03_limits_refuted.

(* ---- check_for_guard_pages: no overflow trap for any memory map, both profiles *)
Theorem c03_guard_total : forall p rs addr, wf_minfo rs -> exists b, guard_site p rs addr = Ret b.
Proof. exact guard_site_total. Qed.
Print Assumptions c03_guard_total.

(* F-C03c: before the fix a Linux maps entry ending at 2^64-1 trapped in `end + 1` ... *)
Theorem c03_guard_refuted : exists rs addr, wf_minfo rs /\ guard_site_v0 Debug rs addr = Panic PANIC_ARITH.
Proof. exists guard_witness, 18446744073709549568. split; [exact guard_witness_wf|exact guard_v0_panics]. Qed.
Print Assumptions c03_guard_refuted.

(* ... but never for MINIDUMP_MEMORY_INFO regions, whose ranges end at most at 2^64-2 *)
Theorem c03_guard_meminfo_was_safe : forall p rs addr,
  (forall r acc, In (Some r, acc) rs -> exists base size, 0 <= base /\ 0 <= size /\ mk_range base size = Some r) ->
  exists b, guard_site_v0 p rs addr = Ret b.
Proof.
  intros p rs addr H. apply guard_site_v0_total_below_top.
  intros r acc Hin. destruct (H r acc Hin) as [b [s [Hb [Hs Hr]]]]. exact (mk_range_below_top b s r Hb Hs Hr).
Qed.
Print Assumptions c03_guard_meminfo_was_safe.

(* the repair changes no answer that the old code produced without trapping *)
Theorem c03_guard_fix_conservative : forall l r b,
  (forall o acc, In (Some o, acc) l -> 0 <= snd o) -> 0 <= snd r ->
  adjacent_v0 Debug l r = Ret b -> adjacent l r = b.
Proof. exact adjacent_agrees. Qed.
Print Assumptions c03_guard_fix_conservative.

(* ---- op_analysis implicit stack access: total, in range; equal to the old code for rsp >= 8 *)
Theorem c03_implicit_access_total : forall c rsp a,
  0 <= rsp < two64 -> implicit_access c rsp = Some a -> 0 <= a < two64.
Proof. exact implicit_access_in_range. Qed.
Print Assumptions c03_implicit_access_total.

Theorem c03_implicit_access_conservative : forall p c rsp,
  8 <= rsp < two64 -> implicit_access_v0 p c rsp = Ret (implicit_access c rsp).
Proof. exact implicit_access_agrees. Qed.
Print Assumptions c03_implicit_access_conservative.

(* F-C03g: rsp < 8 at a CALL/PUSH *)
Theorem c03_implicit_access_refuted : exists c rsp, 0 <= rsp < two64 /\ implicit_access_v0 Debug c rsp = Panic PANIC_ARITH.
Proof. exists OpCallPush, 7. split; [unfold two64; lia|exact implicit_v0_panics]. Qed.
Print Assumptions c03_implicit_access_refuted.

(* ---- module tables of print / print_json, given the readers' size filter *)
Theorem c03_module_table_arith : forall p base size,
  0 <= base -> 0 <= size -> module_read_ok base size = true ->
  json_end_addr p base size = Ret (base + size) /\ text_end_addr p base size = Ret (base + size - 1).
Proof. exact module_ends_ok. Qed.
Print Assumptions c03_module_table_arith.

(* ---- frames: the three printers' subtractions cannot trap for a frame satisfying the
   unwinder / lookup invariants (module base, function base and source-line base are at or
   below the instruction: C08 for the module, C11 for the two symbol bases) *)
Theorem c03_render_total : forall p f, frame_ok f ->
  (exists a, text_frame_offset p f = Ret a) /\ (exists b, json_frame_offsets p f = Ret b).
Proof. exact render_frame_total. Qed.
Print Assumptions c03_render_total.

(* the module part of that invariant is discharged here from the C08 lookup-soundness theorem *)
Theorem c03_module_offset_from_c08 : forall p mods instr,
  wf_mods mods -> 0 <= instr < two64 -> exists o, module_offset p mods instr = Ret o.
Proof. exact module_offset_total. Qed.
Print Assumptions c03_module_offset_from_c08.

Theorem c03_unloaded_offsets_from_c08 : forall p mods instr,
  wf_mods mods -> 0 <= instr < two64 -> exists l, unloaded_offsets p mods instr = Ret l.
Proof. exact unloaded_offsets_total. Qed.
Print Assumptions c03_unloaded_offsets_from_c08.

(* ---- self.threads[requesting_thread] is in bounds *)
Theorem c03_requesting_thread_in_bounds : forall (A : Type) (threads : list A) ids dump_tid want,
  length threads = length ids -> exists r, index_requesting threads ids dump_tid want = Ret r.
Proof. exact @index_requesting_total. Qed.
Print Assumptions c03_requesting_thread_in_bounds.

(* ---- all sites together: Panic is unreachable in every site model, all inputs, both profiles *)
Theorem c03_no_panic_sites :
  (forall data tag, limits_from data <> Panic tag) /\
  (forall p rs addr tag, wf_minfo rs -> guard_site p rs addr <> Panic tag) /\
  (forall p base size tag, 0 <= base -> 0 <= size -> module_read_ok base size = true ->
      json_end_addr p base size <> Panic tag /\ text_end_addr p base size <> Panic tag) /\
  (forall p f tag, frame_ok f -> text_frame_offset p f <> Panic tag /\ json_frame_offsets p f <> Panic tag) /\
  (forall p mods instr tag, wf_mods mods -> 0 <= instr < two64 ->
      module_offset p mods instr <> Panic tag /\ unloaded_offsets p mods instr <> Panic tag) /\
  (forall (A : Type) (threads : list A) ids d w tag, length threads = length ids ->
      index_requesting threads ids d w <> Panic tag).
Proof.
  repeat split; intros.
  - destruct (limits_from_total data) as [r ->]. discriminate.
  - destruct (guard_site_total p rs addr H) as [b ->]. discriminate.
  - destruct (module_ends_ok p base size H H0 H1) as [-> _]. discriminate.
  - destruct (module_ends_ok p base size H H0 H1) as [_ ->]. discriminate.
  - destruct (render_frame_total p f H) as [[a ->] _]. discriminate.
  - destruct (render_frame_total p f H) as [_ [b ->]]. discriminate.
  - destruct (module_offset_total p mods instr H H0) as [o ->]. discriminate.
  - destruct (unloaded_offsets_total p mods instr H H0) as [l ->]. discriminate.
  - destruct (index_requesting_total threads ids d w H) as [r ->]. discriminate.
Qed.
Print Assumptions c03_no_panic_sites.

(* ---- non-vacuity *)
(* "H\nMax cpu time  unlimited  5  seconds\nx\nMax nice  0  0\n": one short line skipped *)
Example c03_nonvacuous_limits :
  limits_from [72;10; 77;97;120;32;99;112;117;32;116;105;109;101;32;32;117;110;108;105;109;105;116;101;100;32;32;53;32;32;115;10;
               120;10; 77;32;110;32;32;48;32;32;48;10]
  = Ret [([77;97;120;32;99;112;117;32;116;105;109;101], Unlimited, Limited 5, [115]);
         ([77;32;110], Limited 0, Limited 0, NA)].
Proof. vm_compute. reflexivity. Qed.

(* a 4 KiB no-access map below a readable one is a likely guard page; hypotheses satisfiable *)
Example c03_nonvacuous_guard :
  let rs := [(mk_range_maps 28672 32767, false); (mk_range_maps 32768 36863, true)] in
  wf_minfo rs /\ guard_site Debug rs 28677 = Ret true.
Proof.
  split; [|vm_compute; reflexivity].
  intros r acc [H|[H|[]]]; vm_compute in H; inversion H; subst; unfold wf_range, two64; cbn [fst snd]; lia.
Qed.

Example c03_nonvacuous_frame :
  let f := {| f_instr := 4198400; f_module := Some 4194304; f_fname := true; f_fbase := Some 4198000;
              f_srcfl := true; f_sbase := Some 4198396 |} in
  frame_ok f /\ text_frame_offset Debug f = Ret (Some 4) /\ json_frame_offsets Debug f = Ret (Some 4096, Some 400).
Proof.
  split; [|split; vm_compute; reflexivity].
  unfold frame_ok, below; cbn [f_instr f_module f_fbase f_sbase].
  split; [unfold two64; lia|]. repeat apply conj; intros b H; inversion H; subst; lia.
Qed.

Example c03_nonvacuous_requesting :
  index_requesting [10; 20; 30] [7; 8; 9] (Some 7) (Some 9) = Ret (Some 30).
Proof. vm_compute. reflexivity. Qed.
