From Coq Require Extraction.
From Coq Require Import ExtrOcamlBasic.
From RM Require Import C03.Driver.
Extraction "c03_model.ml" run_limits run_guard run_stack_access run_json_modules run_args run_fetch run_read_u64 run_process run_render run_nearby run_info_new.
