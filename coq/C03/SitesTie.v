(* C03/SitesTie.v — round 4: the hand-written site models agree with what translate/c03_sites.py reads out of the
   source on every run (coq/Gen/C03Sites.v): the set of CPU contexts that have an unwinder, the guard-page size
   limit, the first inline level of fill_symbol's loop.  (The translator additionally pins the shape of each modelled
   function and aborts when it changes; that part is a checked tie, not a theorem.) *)
From Coq Require Import ZArith List Bool.
From RM Require Import Gen.C03Sites C03.Model C03.FetchModel C03.ProcessModel.
From RM Require C05.Model C05.Proofs.
From Coq Require Import Lia.
Import ListNotations.
Open Scope Z_scope.

Definition of_gen (c : gen_cpu) : cpu_kind :=
  match c with
  | GCpuX86 => CpuX86 | GCpuAmd64 => CpuAmd64 | GCpuArm => CpuArm | GCpuArm64 => CpuArm64 | GCpuArm64Old => CpuArm64Old
  | GCpuMips => CpuMips | GCpuPpc => CpuPpc | GCpuPpc64 => CpuPpc64 | GCpuSparc => CpuSparc | GCpuUnknown => CpuUnknown
  end.
Definition gen_idx (c : gen_cpu) : Z :=
  match c with
  | GCpuX86 => 0 | GCpuAmd64 => 1 | GCpuArm => 2 | GCpuArm64 => 3 | GCpuArm64Old => 4
  | GCpuMips => 5 | GCpuPpc => 6 | GCpuPpc64 => 7 | GCpuSparc => 8 | GCpuUnknown => 9
  end.
Definition in_arms (c : gen_cpu) : bool := existsb (fun a => gen_idx a =? gen_idx c) gen_unwinder_arms.

Lemma unwinder_table_agrees : forall c, has_unwinder (of_gen c) = in_arms c.
Proof. destruct c; vm_compute; reflexivity. Qed.
Lemma guard_const_agrees : GUARD_MEMORY_MAX_SIZE = gen_guard_memory_max_size.
Proof. reflexivity. Qed.
Lemma inline_first_depth_agrees : gen_inline_first_depth = 1.
Proof. reflexivity. Qed.

(* ---- round 5: into_process_state.  The model's context selection and stack-memory choice, rewritten over the
   expressions the translator reads out of processor.rs (operand order of the three `.or()`s, width of the probe) *)
Lemma requesting_flag_from_source : forall pi t, opt_is (pi_dump_tid pi) (th_id t) = false ->
  s0_req (initial_stack pi t) = opt_is (gen_wanted_id (pi_crash_tid pi) (pi_req_tid pi)) (th_id t).
Proof.
  intros pi t H. unfold initial_stack. rewrite H. unfold gen_wanted_id, gen_or.
  change (match pi_crash_tid pi with Some _ => pi_crash_tid pi | None => pi_req_tid pi end) with (opt_or (pi_crash_tid pi) (pi_req_tid pi)).
  destruct (opt_is (opt_or (pi_crash_tid pi) (pi_req_tid pi)) (th_id t)); reflexivity.
Qed.
Lemma selected_context_from_source : forall pi t, opt_is (pi_dump_tid pi) (th_id t) = false ->
  s0_ctx (initial_stack pi t) =
  if opt_is (gen_wanted_id (pi_crash_tid pi) (pi_req_tid pi)) (th_id t)
  then gen_selected_context (pi_exc_ctx pi) (th_ctx t) else th_ctx t.
Proof.
  intros pi t H. unfold initial_stack. rewrite H. unfold gen_wanted_id, gen_selected_context, gen_or.
  change (match pi_crash_tid pi with Some _ => pi_crash_tid pi | None => pi_req_tid pi end) with (opt_or (pi_crash_tid pi) (pi_req_tid pi)).
  destruct (opt_is (opt_or (pi_crash_tid pi) (pi_req_tid pi)) (th_id t)); reflexivity.
Qed.
Lemma stack_choice_from_source : forall mem t r v,
  choose_stack_memory mem t (Some (r, v)) =
  let sm := thread_stack_memory mem t in
  if match sm with Some m => region_reads m gen_stack_probe_bytes (C05.Model.r_sp r) | None => false end
  then sm else gen_stack_fallback (memory_at mem (C05.Model.r_sp r)) sm.
Proof. reflexivity. Qed.

(* ---- round 5: BitFlipDetails::confidence.  The model's index is the source's expression (as the translator reads it),
   followed by the bounds check of the table access; and that expression, for the table length of the source, stays inside
   the table for every non-zero u32 count, in both profiles. *)
Lemma nearby_index_from_source : forall p n, 0 < n ->
  nearby_index p n =
  (do i <- gen_nearby_index p n gen_nearby_table_len;
   if (0 <=? i) && (i <? gen_nearby_table_len) then Ret (Some i) else Panic PANIC_INDEX).
Proof.
  intros p n H. unfold nearby_index. replace (0 <? n) with true by (symmetry; apply Z.ltb_lt; exact H). reflexivity.
Qed.
Lemma nearby_source_in_bounds : forall p n, 0 < n < two32 ->
  exists i, gen_nearby_index p n gen_nearby_table_len = Ret i /\ 0 <= i < gen_nearby_table_len.
Proof.
  intros p n H. unfold gen_nearby_index, gen_nearby_table_len.
  rewrite C05.Proofs.chk_sub_ok by (change (2 ^ 64) with 18446744073709551616; unfold two32 in H; lia).
  eexists. split; [reflexivity|lia].
Qed.

(* ---- round 5: MinidumpInfo::new.  Run over the table of stream reads the translator extracts (source order): the first failed
   read that is turned into a ProcessError decides; the model's two tests are exactly that, whatever the other streams do. *)
Fixpoint first_failure (ok : gen_stream -> bool) (l : list (gen_stream * option gen_process_error)) : option gen_process_error :=
  match l with
  | [] => None
  | (s, Some e) :: t => if ok s then first_failure ok t else Some e
  | (_, None) :: t => first_failure ok t
  end.
Definition to_gen_error (e : process_error) : gen_process_error :=
  match e with MissingThreadList => GE_MissingThreadList | MissingSystemInfo => GE_MissingSystemInfo end.
Lemma info_new_from_source : forall ok,
  first_failure ok gen_stream_handling =
  option_map to_gen_error (info_new (ok GS_MinidumpThreadList) (ok GS_MinidumpSystemInfo)).
Proof. intros ok. cbn. unfold info_new. destruct (ok GS_MinidumpThreadList), (ok GS_MinidumpSystemInfo); reflexivity. Qed.
Lemma optional_streams_cannot_fail : forall ok ok',
  ok GS_MinidumpThreadList = ok' GS_MinidumpThreadList -> ok GS_MinidumpSystemInfo = ok' GS_MinidumpSystemInfo ->
  first_failure ok gen_stream_handling = first_failure ok' gen_stream_handling.
Proof. intros ok ok' H1 H2. rewrite !info_new_from_source, H1, H2. reflexivity. Qed.
