(* C03/Compose.v — the hypotheses of c03_render_total discharged from the lookup theorems of C08
   (module) and C11 (function base, source-line base), and the top-level composition with C05's
   frame bound.  C05 / C11 are imported qualified (their models reuse names such as [frame]). *)
From Coq Require Import Lia.
From RM Require Import C08.Model C08.Proofs C03.Model C03.Proofs.
From RM Require Import C03.FetchModel C03.ProcessModel C03.ProcessProofs.
(* c11_func_sound / c11_line_sound are `exact func_sound` / `exact line_sound` of C11.Proofs5, and C05's c03_frame_bound is
   `frame_bound` of C05.Proofs: the lemmas are imported from the proof files, so that this build does not depend on the
   other owners' Properties.v (still being extended). *)
From RM Require C11.Model C11.Proofs2 C11.Proofs5.
From RM Require C05.Model C05.Proofs.
Open Scope Z_scope.

(* the StackFrame fields the printers read, as fill_source_line_info leaves them for a frame at
   [instr] inside a module loaded at [mbase], after SymbolFile::fill_symbol returned [o] *)
Definition frame_of (instr mbase : Z) (o : C11.Model.sym_out) : frame :=
  {| f_instr := instr;
     f_module := Some mbase;
     f_fname := match C11.Model.o_func o with Some _ => true | None => false end;
     f_fbase := match C11.Model.o_func o with Some (_, b, _) => Some b | None => None end;
     f_srcfl := match C11.Model.o_src o with Some _ => true | None => false end;
     f_sbase := match C11.Model.o_src o with Some (_, _, b) => Some b | None => None end |}.

Lemma in_forall {A} (P : A -> Prop) l x : Forall P l -> In x l -> P x.
Proof. intros H. rewrite Forall_forall in H. apply H. Qed.

Lemma frame_of_ok p rf mbase instr o :
  C11.Proofs2.wf_file rf -> 0 <= mbase -> mbase <= instr -> instr < two64 ->
  C11.Model.symbolize p rf mbase instr = Ret o -> frame_ok (frame_of instr mbase o).
Proof.
  intros Hwf Hm Hmi Hi Hs.
  destruct (C11.Proofs5.func_sound p rf mbase instr Hwf Hm Hi) as [o1 [E1 [_ F]]].
  destruct (C11.Proofs5.line_sound p rf mbase instr Hwf Hm Hi) as [o2 [E2 L]].
  rewrite Hs in E1, E2. inversion E1; inversion E2; subst o1 o2. clear E1 E2.
  destruct Hwf as [Wf [Wp _]].
  unfold frame_ok, frame_of, below; cbn [f_instr f_module f_fbase f_sbase].
  split; [lia|]. split; [intros b H; inversion H; subst; lia|]. split.
  - intros b H. destruct (C11.Model.o_func o) as [[[n b0] ps]|] eqn:E; [|discriminate].
    inversion H; subst b0. destruct (F n b ps eq_refl) as [_ [Hb [[fr [Hin [_ [_ [Hbase _]]]]]|[pb [Hin [_ [_ [Hbase _]]]]]]]].
    + pose proof (in_forall _ _ _ Wf Hin) as [[A _] _]. lia.
    + pose proof (in_forall _ _ _ Wp Hin) as [A _]. lia.
  - intros b H. destruct (C11.Model.o_src o) as [[[f l] b0]|] eqn:E; [|discriminate].
    inversion H; subst b0. destruct (L f l b eq_refl) as [Hb [fr [Hin [_ [[e0 [He [_ [_ [_ Hbase]]]]]|[_ [ln [Hl [_ [_ [_ Hbase]]]]]]]]]]].
    + pose proof (in_forall _ _ _ Wf Hin) as [_ [_ [_ [Wi _]]]].
      pose proof (in_forall _ _ _ Wi He) as [_ [[A _] _]]. lia.
    + pose proof (in_forall _ _ _ Wf Hin) as [_ [_ [Wl _]]].
      pose proof (in_forall _ _ _ Wl Hl) as [[A _] _]. lia.
Qed.

(* the printers cannot trap on a frame whose module came from the C08 lookup and whose symbol
   fields came from fill_symbol — no hypothesis about the frame itself is left *)
Lemma render_total_discharged p q rf mods instr i m o :
  wf_mods mods -> 0 <= instr < two64 -> C11.Proofs2.wf_file rf ->
  rm_get (module_table mods) instr = Some i -> nth_error mods (Z.to_nat i) = Some m ->
  C11.Model.symbolize q rf (fst m) instr = Ret o ->
  (exists a, text_frame_offset p (frame_of instr (fst m) o) = Ret a) /\
  (exists b, json_frame_offsets p (frame_of instr (fst m) o) = Ret b).
Proof.
  intros Hm Hi Hwf Hg Hn Hs. apply render_frame_total.
  unfold module_table in Hg.
  apply (lookup_sound Z.eqb Z.eqb_eq) in Hg; [|apply mods_wf_entries; exact Hm].
  destruct Hg as [r [Hin Hc]]. apply mods_entry in Hin. destruct Hin as [m' [Hn' Hr]].
  rewrite Hn in Hn'. inversion Hn'; subst m'. apply mk_range_start in Hr.
  unfold contains in Hc. apply andb_prop in Hc. destruct Hc as [Hc _]. apply Z.leb_le in Hc.
  destruct (Hm m (nth_error_In _ _ Hn)) as [Hb _].
  eapply frame_of_ok; eauto; lia.
Qed.

(* ------------------------------------------------------------------ round 5: the whole thread list, walked and rendered *)
Lemma Forall2_in_r {A B} (P : A -> B -> Prop) l r y : Forall2 P l r -> In y r -> exists x, In x l /\ P x y.
Proof.
  induction 1 as [|a b l r Hab HF IH]; intros Hy; [destruct Hy|].
  destruct Hy as [Hy|Hy]; [subst; exists a; split; [left; reflexivity|exact Hab]|].
  destruct (IH Hy) as [x [Hx Px]]. exists x. split; [right; exact Hx|exact Px].
Qed.

(* into_process_state over the whole thread list returns (no Panic, no OutOfFuel with the fuel |chosen stack| + 3 per thread);
   every call stack satisfies [thread_post] (frame bound for the memory chosen for it, context frame first);
   `threads[requesting_thread]` is in bounds; and EVERY frame of EVERY thread goes through the printers' arithmetic
   without a trap: module offset and unloaded-module offsets for any module lists, function / source-line offsets for
   whatever SymbolFile::fill_symbol (C11) returned for the frame inside the module the C08 lookup found. *)
Lemma process_total p cpu a os module_at mma cfi_walk iv pi :
  C05.Proofs.arch_ok a -> input_ok a pi -> cfi_contract a cfi_walk ->
  exists outs,
    process_threads p cpu a os module_at mma cfi_walk iv pi = Ret (outs, requesting_index pi) /\
    Forall2 (thread_post pi) (pi_threads pi) outs /\
    (exists r, requesting_stack p cpu a os module_at mma cfi_walk iv pi = Ret r) /\
    forall o f, In o outs -> In f (o_frames o) ->
      forall pr q rf mods, wf_mods mods -> C11.Proofs2.wf_file rf ->
        (exists x, module_offset pr mods (C05.Model.f_instr f) = Ret x) /\
        (exists l, unloaded_offsets pr mods (C05.Model.f_instr f) = Ret l) /\
        forall i m so,
          rm_get (module_table mods) (C05.Model.f_instr f) = Some i -> nth_error mods (Z.to_nat i) = Some m ->
          C11.Model.symbolize q rf (fst m) (C05.Model.f_instr f) = Ret so ->
          (exists x, text_frame_offset pr (frame_of (C05.Model.f_instr f) (fst m) so) = Ret x) /\
          (exists y, json_frame_offsets pr (frame_of (C05.Model.f_instr f) (fst m) so) = Ret y).
Proof.
  intros Ha Hin Hcfi.
  destruct (process_threads_total p cpu a os module_at mma cfi_walk iv pi Ha Hin Hcfi) as [outs [E [F _]]].
  exists outs. split; [exact E|]. split; [exact F|].
  split; [exact (requesting_stack_total p cpu a os module_at mma cfi_walk iv pi Ha Hin Hcfi)|].
  intros o f Ho Hf pr q rf mods Hm Hwf.
  destruct (Forall2_in_r _ _ _ _ F Ho) as [t [_ [_ [_ [_ [_ [Hi _]]]]]]].
  rewrite Forall_forall in Hi. specialize (Hi f Hf). unfold instr_u64 in Hi.
  split; [exact (module_offset_total pr mods _ Hm Hi)|].
  split; [exact (unloaded_offsets_total pr mods _ Hm Hi)|].
  intros i m so Hg Hn Hs. exact (render_total_discharged pr q rf mods _ i m so Hm Hi Hwf Hg Hn Hs).
Qed.
