(* C03/Compose.v — the hypotheses of c03_render_total discharged from the lookup theorems of C08
   (module) and C11 (function base, source-line base), and the top-level composition with C05's
   frame bound.  C05 / C11 are imported qualified (their models reuse names such as [frame]). *)
From Coq Require Import Lia.
From RM Require Import C08.Model C08.Proofs C03.Model C03.Proofs.
(* c11_func_sound / c11_line_sound are `exact func_sound` / `exact line_sound` of C11.Proofs5, and C05's c03_frame_bound is
   `frame_bound` of C05.Proofs: the lemmas are imported from the proof files, so that this build does not depend on the
   other owners' Properties.v (still being extended). *)
From RM Require C11.Model C11.Proofs2 C11.Proofs5.
From RM Require C05.Model C05.Proofs.
Open Scope Z_scope.

(* the StackFrame fields the printers read, as fill_source_line_info leaves them for a frame at
   [instr] inside a module loaded at [mbase], after SymbolFile::fill_symbol returned [o] *)
Definition frame_of (instr mbase : Z) (o : C11.Model.sym_out) : frame :=
  {| f_instr := instr;
     f_module := Some mbase;
     f_fname := match C11.Model.o_func o with Some _ => true | None => false end;
     f_fbase := match C11.Model.o_func o with Some (_, b, _) => Some b | None => None end;
     f_srcfl := match C11.Model.o_src o with Some _ => true | None => false end;
     f_sbase := match C11.Model.o_src o with Some (_, _, b) => Some b | None => None end |}.

Lemma in_forall {A} (P : A -> Prop) l x : Forall P l -> In x l -> P x.
Proof. intros H. rewrite Forall_forall in H. apply H. Qed.

Lemma frame_of_ok p rf mbase instr o :
  C11.Proofs2.wf_file rf -> 0 <= mbase -> mbase <= instr -> instr < two64 ->
  C11.Model.symbolize p rf mbase instr = Ret o -> frame_ok (frame_of instr mbase o).
Proof.
  intros Hwf Hm Hmi Hi Hs.
  destruct (C11.Proofs5.func_sound p rf mbase instr Hwf Hm Hi) as [o1 [E1 [_ F]]].
  destruct (C11.Proofs5.line_sound p rf mbase instr Hwf Hm Hi) as [o2 [E2 L]].
  rewrite Hs in E1, E2. inversion E1; inversion E2; subst o1 o2. clear E1 E2.
  destruct Hwf as [Wf [Wp _]].
  unfold frame_ok, frame_of, below; cbn [f_instr f_module f_fbase f_sbase].
  split; [lia|]. split; [intros b H; inversion H; subst; lia|]. split.
  - intros b H. destruct (C11.Model.o_func o) as [[[n b0] ps]|] eqn:E; [|discriminate].
    inversion H; subst b0. destruct (F n b ps eq_refl) as [_ [Hb [[fr [Hin [_ [_ [Hbase _]]]]]|[pb [Hin [_ [_ [Hbase _]]]]]]]].
    + pose proof (in_forall _ _ _ Wf Hin) as [[A _] _]. lia.
    + pose proof (in_forall _ _ _ Wp Hin) as [A _]. lia.
  - intros b H. destruct (C11.Model.o_src o) as [[[f l] b0]|] eqn:E; [|discriminate].
    inversion H; subst b0. destruct (L f l b eq_refl) as [Hb [fr [Hin [_ [[e0 [He [_ [_ [_ Hbase]]]]]|[_ [ln [Hl [_ [_ [_ Hbase]]]]]]]]]]].
    + pose proof (in_forall _ _ _ Wf Hin) as [_ [_ [_ [Wi _]]]].
      pose proof (in_forall _ _ _ Wi He) as [_ [[A _] _]]. lia.
    + pose proof (in_forall _ _ _ Wf Hin) as [_ [_ [Wl _]]].
      pose proof (in_forall _ _ _ Wl Hl) as [[A _] _]. lia.
Qed.

(* the printers cannot trap on a frame whose module came from the C08 lookup and whose symbol
   fields came from fill_symbol — no hypothesis about the frame itself is left *)
Lemma render_total_discharged p q rf mods instr i m o :
  wf_mods mods -> 0 <= instr < two64 -> C11.Proofs2.wf_file rf ->
  rm_get (module_table mods) instr = Some i -> nth_error mods (Z.to_nat i) = Some m ->
  C11.Model.symbolize q rf (fst m) instr = Ret o ->
  (exists a, text_frame_offset p (frame_of instr (fst m) o) = Ret a) /\
  (exists b, json_frame_offsets p (frame_of instr (fst m) o) = Ret b).
Proof.
  intros Hm Hi Hwf Hg Hn Hs. apply render_frame_total.
  unfold module_table in Hg.
  apply (lookup_sound Z.eqb Z.eqb_eq) in Hg; [|apply mods_wf_entries; exact Hm].
  destruct Hg as [r [Hin Hc]]. apply mods_entry in Hin. destruct Hin as [m' [Hn' Hr]].
  rewrite Hn in Hn'. inversion Hn'; subst m'. apply mk_range_start in Hr.
  unfold contains in Hc. apply andb_prop in Hc. destruct Hc as [Hc _]. apply Z.leb_le in Hc.
  destruct (Hm m (nth_error_In _ _ Hn)) as [Hb _].
  eapply frame_of_ok; eauto; lia.
Qed.
