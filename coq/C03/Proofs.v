(* C03/Proofs.v — lemmas about the site models. *)
From Coq Require Import Lia.
From RM Require Import C08.Model C08.Proofs C03.Model.
Open Scope Z_scope.

(* ------------------------------------------------------------------ arithmetic helpers *)
Lemma chk_in_range p w t x : 0 <= x < 2 ^ w -> chk p w t x = Ret x.
Proof.
  intros H. unfold chk.
  destruct (0 <=? x) eqn:E1; [|apply Z.leb_gt in E1; lia].
  destruct (x <? 2 ^ w) eqn:E2; [reflexivity|apply Z.ltb_ge in E2; lia].
Qed.

Lemma chk_debug_ret w t x y : chk Debug w t x = Ret y -> y = x /\ 0 <= x < 2 ^ w.
Proof.
  unfold chk. destruct (0 <=? x) eqn:E1; destruct (x <? 2 ^ w) eqn:E2; cbn [andb]; intros H;
    try discriminate. inversion H; subst.
  apply Z.leb_le in E1. apply Z.ltb_lt in E2. lia.
Qed.

Lemma chk_never_fuel p w t x : chk p w t x <> OutOfFuel /\ chk p w t x <> Fail.
Proof. unfold chk. destruct ((0 <=? x) && (x <? 2 ^ w)); [|destruct p]; split; discriminate. Qed.

Lemma pow64 : 2 ^ 64 = two64. Proof. reflexivity. Qed.

Lemma collect_ok {A} (l : list (outcome A)) :
  (forall x, In x l -> exists a, x = Ret a) -> exists r, collect l = Ret r.
Proof.
  induction l as [|x t IH]; intros H; cbn [collect]; [eexists; reflexivity|].
  destruct (H x (or_introl eq_refl)) as [a Ha]. subst x.
  destruct IH as [r Hr]; [intros y Hy; apply H; right; exact Hy|].
  rewrite Hr. cbn [obind]. eexists; reflexivity.
Qed.

(* ------------------------------------------------------------------ LinuxProcLimits::from *)
Lemma limit_entry_ok (m : list bytes) : exists r, limit_entry m = Ret r.
Proof.
  unfold limit_entry.
  destruct m as [|a [|b [|c [|d t]]]]; cbn; eexists; reflexivity.
Qed.

Lemma limits_from_total (data : bytes) : exists r, limits_from data = Ret r.
Proof.
  unfold limits_from.
  destruct (collect_ok (map (fun l => limit_entry (fields l)) (limit_lines data))) as [r Hr].
  - intros x Hx. apply in_map_iff in Hx. destruct Hx as [l [Hl _]]. subst x. apply limit_entry_ok.
  - rewrite Hr. cbn [obind]. eexists; reflexivity.
Qed.

(* a skipped line is exactly one with fewer than three fields; every other line yields an entry *)
Lemma limit_entry_skips (m : list bytes) :
  limit_entry m = Ret None <-> (length m < 3)%nat.
Proof.
  unfold limit_entry.
  destruct m as [|a [|b [|c [|d t]]]]; cbn; split; intros H; try reflexivity; try lia; try discriminate.
Qed.

(* "H\nMax cpu time\n" *)
Definition limits_witness : bytes := [72; 10; 77; 97; 120; 32; 99; 112; 117; 32; 116; 105; 109; 101; 10].
Lemma limits_v0_panics : limits_from_v0 limits_witness = Panic PANIC_INDEX.
Proof. vm_compute. reflexivity. Qed.
(* a line of blanks has no field at all *)
Lemma limits_v0_panics_blank : limits_from_v0 [72; 10; 32; 32; 10] = Panic PANIC_INDEX.
Proof. vm_compute. reflexivity. Qed.

(* ------------------------------------------------------------------ guard pages *)
Definition wf_minfo (rs : list minfo) : Prop :=
  forall r acc, In (Some r, acc) rs -> wf_range r.

Lemma somes_in {A} (l : list (option A)) a : In a (somes l) -> In (Some a) l.
Proof.
  induction l as [|[x|] t IH]; cbn [somes]; intros H; [destruct H| |].
  - destruct H as [H|H]; [left; congruence|right; auto].
  - right; auto.
Qed.

Lemma by_addr_in rs x : In x (by_addr rs) -> In x rs.
Proof.
  unfold by_addr. intros H. apply somes_in in H. apply in_map_iff in H.
  destruct H as [e [He _]]. eapply nth_error_In. exact He.
Qed.

Lemma info_at_in rs x m : info_at rs x = Some m -> In m rs.
Proof.
  unfold info_at. destruct (rm_get (info_table rs) x); [|discriminate].
  intros H. eapply nth_error_In. exact H.
Qed.

Lemma guard_site_total p rs addr : wf_minfo rs -> exists b, guard_site p rs addr = Ret b.
Proof.
  intros Hwf. unfold guard_site.
  destruct (info_at rs addr) as [[[r|] acc]|] eqn:E; try (eexists; reflexivity).
  destruct acc; [eexists; reflexivity|].
  apply info_at_in in E. apply Hwf in E. destruct E as [A [B C]].
  unfold chk_sub. rewrite chk_in_range by (rewrite pow64; lia). cbn [obind].
  destruct (snd r - fst r <? GUARD_MEMORY_MAX_SIZE); eexists; reflexivity.
Qed.

(* before the fix: fine as long as no region ends at the last address (true for
   MINIDUMP_MEMORY_INFO regions: memory_range() is base.checked_add(size)? - 1 <= 2^64 - 2) *)
Definition below_top (l : list minfo) : Prop :=
  forall r acc, In (Some r, acc) l -> wf_range r /\ snd r < U64MAX.

Lemma adjacent_v0_total p l r :
  below_top l -> wf_range r -> snd r < U64MAX -> exists b, adjacent_v0 p l r = Ret b.
Proof.
  intros Hl [R1 [R2 R3]] Rt. induction l as [|[[o|] acc] t IH]; cbn [adjacent_v0].
  - eexists; reflexivity.
  - destruct (Hl o acc (or_introl eq_refl)) as [[O1 [O2 O3]] Ot].
    unfold chk_add. assert (HU : U64MAX = two64 - 1) by reflexivity.
    rewrite (chk_in_range p 64 _ (snd o + 1)) by (rewrite pow64; lia). cbn [obind].
    destruct ((snd o + 1 =? fst r) && acc); [eexists; reflexivity|].
    rewrite (chk_in_range p 64 _ (snd r + 1)) by (rewrite pow64; lia). cbn [obind].
    destruct (snd r + 1 =? fst o); [eexists; reflexivity|].
    apply IH. intros r' a' H. apply (Hl r' a'). right. exact H.
  - apply IH. intros r' a' H. apply (Hl r' a'). right. exact H.
Qed.

Lemma guard_site_v0_total_below_top p rs addr :
  below_top rs -> exists b, guard_site_v0 p rs addr = Ret b.
Proof.
  intros Hb. unfold guard_site_v0.
  destruct (info_at rs addr) as [[[r|] acc]|] eqn:E; try (eexists; reflexivity).
  destruct acc; [eexists; reflexivity|].
  apply info_at_in in E. destruct (Hb _ _ E) as [[A [B C]] D].
  unfold chk_sub. rewrite chk_in_range by (rewrite pow64; lia). cbn [obind].
  destruct (snd r - fst r <? GUARD_MEMORY_MAX_SIZE); [|eexists; reflexivity].
  apply adjacent_v0_total; [|repeat split; assumption|assumption].
  intros r' a' H. apply (Hb r' a'). apply by_addr_in. exact H.
Qed.

(* memory-info regions are below the top *)
Lemma mk_range_below_top base size r :
  0 <= base -> 0 <= size -> mk_range base size = Some r -> wf_range r /\ snd r < U64MAX.
Proof.
  intros Hb Hs H. split; [exact (mk_range_wf base size r Hb Hs H)|].
  unfold mk_range, checked_add in H.
  destruct (size =? 0); [discriminate|].
  destruct (base + size <? 2 ^ 64) eqn:E; [|discriminate].
  inversion H; subst; cbn [snd]. apply Z.ltb_lt in E. rewrite pow64 in E. unfold two64, U64MAX in *. lia.
Qed.

(* a Linux maps entry ending at 0xffffffffffffffff, no permissions, 4 KiB *)
Definition guard_witness : list minfo := [(mk_range_maps 18446744073709547520 18446744073709551615, false)].
Lemma guard_witness_wf : wf_minfo guard_witness.
Proof.
  intros r acc [H|[]]. inversion H; subst. unfold wf_range; cbn. unfold two64. lia.
Qed.
Lemma guard_v0_panics : guard_site_v0 Debug guard_witness 18446744073709549568 = Panic PANIC_ARITH.
Proof. vm_compute. reflexivity. Qed.
Lemma guard_fixed_on_witness p : guard_site p guard_witness 18446744073709549568 = Ret false.
Proof. destruct p; vm_compute; reflexivity. Qed.

(* the fix does not change any answer the old code gave without trapping *)
Lemma succ_is_spec e s : 0 <= e -> succ_is e s = (e + 1 <? two64) && (e + 1 =? s).
Proof.
  intros He. unfold succ_is, checked_add. rewrite pow64.
  destruct (e + 1 <? two64); reflexivity.
Qed.

Lemma adjacent_agrees l r b :
  (forall o acc, In (Some o, acc) l -> 0 <= snd o) -> 0 <= snd r ->
  adjacent_v0 Debug l r = Ret b -> adjacent l r = b.
Proof.
  intros Hl Hr. induction l as [|[[o|] acc] t IH]; cbn [adjacent_v0 adjacent]; intros H.
  - inversion H; reflexivity.
  - pose proof (Hl o acc (or_introl eq_refl)) as Ho.
    unfold chk_add in H.
    destruct (chk Debug 64 PANIC_ARITH (snd o + 1)) as [e1| | |] eqn:E1; cbn [obind] in H; try discriminate.
    apply chk_debug_ret in E1. destruct E1 as [-> B1]. rewrite pow64 in B1.
    rewrite (succ_is_spec (snd o)) by assumption.
    replace (snd o + 1 <? two64) with true by (symmetry; apply Z.ltb_lt; lia). cbn [andb].
    destruct ((snd o + 1 =? fst r) && acc); [inversion H; reflexivity|].
    destruct (chk Debug 64 PANIC_ARITH (snd r + 1)) as [e2| | |] eqn:E2; cbn [obind] in H; try discriminate.
    apply chk_debug_ret in E2. destruct E2 as [-> B2]. rewrite pow64 in B2.
    rewrite (succ_is_spec (snd r)) by assumption.
    replace (snd r + 1 <? two64) with true by (symmetry; apply Z.ltb_lt; lia). cbn [andb].
    destruct (snd r + 1 =? fst o); [inversion H; reflexivity|].
    apply IH; [|exact H]. intros o' a' Hin. eapply Hl. right. exact Hin.
  - apply IH; [|exact H]. intros o' a' Hin. eapply Hl. right. exact Hin.
Qed.

(* ------------------------------------------------------------------ implicit stack access *)
Lemma implicit_access_in_range c rsp a :
  0 <= rsp < two64 -> implicit_access c rsp = Some a -> 0 <= a < two64.
Proof.
  intros H. destruct c; cbn [implicit_access]; intros E; inversion E; subst; [|assumption].
  unfold wrap64. apply Z.mod_pos_bound. reflexivity.
Qed.

Lemma implicit_access_agrees p c rsp :
  8 <= rsp < two64 -> implicit_access_v0 p c rsp = Ret (implicit_access c rsp).
Proof.
  intros H. destruct c; cbn [implicit_access_v0 implicit_access]; try reflexivity.
  unfold chk_sub. rewrite chk_in_range by (rewrite pow64; lia). cbn [obind].
  unfold wrap64. rewrite Z.mod_small by lia. reflexivity.
Qed.

Lemma implicit_v0_panics : implicit_access_v0 Debug OpCallPush 7 = Panic PANIC_ARITH.
Proof. vm_compute. reflexivity. Qed.

(* ------------------------------------------------------------------ module tables *)
Lemma module_ends_ok p base size :
  0 <= base -> 0 <= size -> module_read_ok base size = true ->
  json_end_addr p base size = Ret (base + size) /\ text_end_addr p base size = Ret (base + size - 1).
Proof.
  intros Hb Hs H. unfold module_read_ok in H. apply andb_prop in H. destruct H as [H0 H1].
  apply Z.leb_le in H1. apply negb_true_iff in H0. apply Z.eqb_neq in H0. unfold U64MAX in H1.
  unfold json_end_addr, text_end_addr, chk_add, chk_sub.
  rewrite (chk_in_range p 64 _ (base + size)) by (rewrite pow64; unfold two64; lia).
  split; [reflexivity|]. cbn [obind].
  rewrite chk_in_range by (rewrite pow64; unfold two64; lia). reflexivity.
Qed.

(* ------------------------------------------------------------------ frames *)
Definition below (o : option Z) (x : Z) : Prop := forall b, o = Some b -> 0 <= b <= x.
Definition frame_ok (f : frame) : Prop :=
  0 <= f_instr f < two64 /\ below (f_module f) (f_instr f) /\ below (f_fbase f) (f_instr f) /\
  below (f_sbase f) (f_instr f).

Lemma sub_ok p x b : 0 <= x < two64 -> 0 <= b <= x -> chk_sub p 64 PANIC_ARITH x b = Ret (x - b).
Proof. intros Hx Hb. unfold chk_sub. apply chk_in_range. rewrite pow64. lia. Qed.

Lemma render_frame_total p f : frame_ok f ->
  (exists a, text_frame_offset p f = Ret a) /\ (exists b, json_frame_offsets p f = Ret b).
Proof.
  intros [Hi [Hm [Hf Hs]]]. unfold text_frame_offset, json_frame_offsets. split.
  - destruct (f_module f) as [mb|]; [|eexists; reflexivity].
    destruct (f_fname f); destruct (f_fbase f) as [fb|];
      try (rewrite (sub_ok p _ mb Hi (Hm _ eq_refl)); cbn [obind]; eexists; reflexivity).
    destruct (f_srcfl f); destruct (f_sbase f) as [sb|];
      try (rewrite (sub_ok p _ fb Hi (Hf _ eq_refl)); cbn [obind]; eexists; reflexivity).
    rewrite (sub_ok p _ sb Hi (Hs _ eq_refl)); cbn [obind]; eexists; reflexivity.
  - destruct (f_module f) as [mb|]; destruct (f_fbase f) as [fb|];
      repeat (first [rewrite (sub_ok p _ mb Hi (Hm _ eq_refl)) | rewrite (sub_ok p _ fb Hi (Hf _ eq_refl))]);
      cbn [obind]; eexists; reflexivity.
Qed.

(* the hypotheses of frame_ok are necessary: a function base above the instruction traps *)
Lemma render_needs_invariant :
  text_frame_offset Debug {| f_instr := 4096; f_module := Some 0; f_fname := true; f_fbase := Some 8192;
                             f_srcfl := false; f_sbase := None |} = Panic PANIC_ARITH.
Proof. vm_compute. reflexivity. Qed.

(* ---- where the module / unloaded-module invariants come from: C08 *)
Lemma enumerate_from_in {A} (l : list A) : forall i a k,
  In (a, k) (enumerate_from i l) -> i <= k /\ nth_error l (Z.to_nat (k - i)) = Some a.
Proof.
  induction l as [|x t IH]; intros i a k Hin; cbn [enumerate_from] in Hin; [destruct Hin|].
  destruct Hin as [H|H].
  - inversion H; subst. split; [lia|]. replace (k - k) with 0 by lia. reflexivity.
  - apply IH in H. destruct H as [H1 H2]. split; [lia|].
    replace (k - i) with (Z.succ (k - (i + 1))) by lia. rewrite Z2Nat.inj_succ by lia. exact H2.
Qed.

Definition wf_mods (mods : list (Z * Z)) : Prop := forall m, In m mods -> 0 <= fst m /\ 0 <= snd m.

Lemma mods_entry mods r i :
  In (Some r, i) (enumerate_from 0 (map (fun m => mk_range (fst m) (snd m)) mods)) ->
  exists m, nth_error mods (Z.to_nat i) = Some m /\ mk_range (fst m) (snd m) = Some r.
Proof.
  intros H. apply enumerate_from_in in H. destruct H as [_ H]. rewrite Z.sub_0_r in H.
  rewrite nth_error_map in H. destruct (nth_error mods (Z.to_nat i)) as [m|]; [|discriminate].
  exists m. split; [reflexivity|]. cbn in H. congruence.
Qed.

Lemma mk_range_start base size r : mk_range base size = Some r -> fst r = base.
Proof.
  unfold mk_range. destruct (size =? 0); [discriminate|].
  destruct (checked_add 64 base size); [|discriminate]. intros H; inversion H; reflexivity.
Qed.

Lemma mods_wf_entries mods : wf_mods mods ->
  forall i, wf_entries (enumerate_from i (map (fun m => mk_range (fst m) (snd m)) mods)).
Proof.
  unfold wf_entries. induction mods as [|m t IH]; intros H i; cbn [map enumerate_from]; constructor.
  - cbn [fst]. destruct (mk_range (fst m) (snd m)) as [r|] eqn:E; [|exact I].
    destruct (H m (or_introl eq_refl)) as [Hb Hs]. exact (mk_range_wf _ _ r Hb Hs E).
  - apply IH. intros m' Hm. apply H. right. exact Hm.
Qed.

Lemma module_offset_total p mods instr :
  wf_mods mods -> 0 <= instr < two64 -> exists o, module_offset p mods instr = Ret o.
Proof.
  intros Hm Hi. unfold module_offset.
  destruct (rm_get (module_table mods) instr) as [i|] eqn:E; [|eexists; reflexivity].
  unfold module_table in E.
  apply (lookup_sound Z.eqb Z.eqb_eq) in E; [|apply mods_wf_entries; exact Hm].
  destruct E as [r [Hin Hc]]. apply mods_entry in Hin. destruct Hin as [m [Hn Hr]].
  rewrite Hn. apply mk_range_start in Hr.
  unfold contains in Hc. apply andb_prop in Hc. destruct Hc as [Hc _]. apply Z.leb_le in Hc.
  destruct (Hm m (nth_error_In _ _ Hn)) as [Hb _].
  rewrite sub_ok by lia. cbn [obind]. eexists; reflexivity.
Qed.

Lemma unloaded_offsets_total p mods instr :
  wf_mods mods -> 0 <= instr < two64 -> exists l, unloaded_offsets p mods instr = Ret l.
Proof.
  intros Hm Hi. unfold unloaded_offsets. apply collect_ok.
  intros x Hx. apply in_map_iff in Hx. destruct Hx as [i [Hx Hin]]. subst x.
  apply unloaded_iff in Hin. destruct Hin as [r [Hin Hc]].
  apply mods_entry in Hin. destruct Hin as [m [Hn Hr]]. rewrite Hn.
  apply mk_range_start in Hr.
  unfold contains in Hc. apply andb_prop in Hc. destruct Hc as [Hc _]. apply Z.leb_le in Hc.
  destruct (Hm m (nth_error_In _ _ Hn)) as [Hb _].
  eexists. apply sub_ok; lia.
Qed.

(* ------------------------------------------------------------------ requesting_thread *)
Lemma requesting_from_bound ids : forall i dump_tid want acc r,
  (forall a, acc = Some a -> (a < i)%nat) ->
  requesting_from ids i dump_tid want acc = Some r -> (r < i + length ids)%nat.
Proof.
  induction ids as [|id t IH]; intros i d w acc r Hacc H; cbn [requesting_from length] in *.
  - subst acc. specialize (Hacc r eq_refl). lia.
  - apply IH in H; [lia|].
    intros a Ha.
    destruct (match d with Some d0 => d0 =? id | None => false end).
    + specialize (Hacc a Ha). lia.
    + destruct (match w with Some w0 => w0 =? id | None => false end).
      * inversion Ha; subst. lia.
      * specialize (Hacc a Ha). lia.
Qed.

Lemma index_requesting_total {A} (threads : list A) ids dump_tid want :
  length threads = length ids -> exists r, index_requesting threads ids dump_tid want = Ret r.
Proof.
  intros Hlen. unfold index_requesting.
  destruct (requesting_thread ids dump_tid want) as [i|] eqn:E; [|eexists; reflexivity].
  unfold requesting_thread in E. apply requesting_from_bound in E; [|intros a Ha; discriminate].
  unfold idx. destruct (nth_error threads i) as [t|] eqn:En.
  - cbn [obind]. eexists; reflexivity.
  - apply nth_error_None in En. lia.
Qed.
