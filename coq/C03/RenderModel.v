(* C03/RenderModel.v — round 5, second pass: the top-level control flow of the three printers over a whole ProcessState
     minidump-processor/src/process_state.rs  print / print_brief (print_internal, 561-876), print_json (882-1184)
     minidump-unwind/src/lib.rs               CallStack::print (384-551)
   Which sections are written in which order, the per-thread / per-frame / per-inline / per-module loops, and EVERY index,
   `+` and `-` site on the way:
     print_internal   self.threads[requesting_thread]; the `brief` early return; the thread loop skipping the requesting
                      thread and DumpThreadSkipped stacks; `base_address() + size() - 1` for every loaded and unloaded module;
     CallStack::print `<no frames>`; `frame_count += 1` (usize) per inline and per real frame; the
                      `addr - src_base | addr - func_base | addr - module.base_address()` cascade (C03/Model.text_frame_offset);
     print_json       `base_of_image + size_of_image` for every loaded and unloaded module; per frame
                      `instruction - base_of_image`, `instruction - func_base` (C03/Model.json_frame_offsets);
                      self.threads[requesting_thread], output["threads"][requesting_thread], frames[0].
   Text formatting, serde_json and the sections that only format fields (system info, crash reason, memory accesses, bit flips,
   mac crash info, streams, soft errors) contain no index / arithmetic site; they appear as section markers only.
   The output is a list of items: what was written, in order.  Definitions only. *)
From RM Require Export C03.Model C03.ProcessModel.
Open Scope Z_scope.

(* a StackFrame as the printers see it *)
Record rframe := {
  rf_frame : frame;               (* instruction, module base, function / source-line bases (C03/Model.v) *)
  rf_inlines : nat;               (* frame.inlines.len() *)
  rf_unloaded : list (list Z)     (* frame.unloaded_modules: per module name its offsets *)
}.
Record rstack := { rs_info : stack_info; rs_frames : list rframe }.
Record rstate := {
  st_threads : list rstack;
  st_requesting : option nat;
  st_modules : list (Z * Z);      (* (base_of_image, size_of_image) of the module list *)
  st_unloaded : list (Z * Z)
}.

Inductive item :=
| ISection (n : Z)                       (* a block that only formats fields *)
| IThread (index : nat)                  (* "Thread <i> ..." header *)
| INoFrames
| IInline (number : Z)
| IFrame (number : Z) (offset : option Z) (unloaded : list (list Z))
| IModule (base end_addr : Z)
| IUnloaded (base end_addr : Z)
| IJsonModule (base end_addr : Z)
| IJsonUnloaded (base end_addr : Z)
| IJsonThread (frames : list (nat * option Z * option Z))   (* "frame": idx, module_offset, function_offset *)
| IJsonCrashingThread (threads_index : nat).

(* ------------------------------------------------------------------ CallStack::print *)
(* `for inline in &frame.inlines { let frame_idx = frame_count; frame_count += 1; .. }` *)
Fixpoint print_inlines (p : profile) (n : nat) (count : Z) : outcome (list item * Z) :=
  match n with
  | O => Ret ([], count)
  | S k => do c <- chk_add p 64 PANIC_ARITH count 1;
           do r <- print_inlines p k c;
           Ret (IInline count :: fst r, snd r)
  end.

Fixpoint print_frames (p : profile) (fs : list rframe) (count : Z) : outcome (list item) :=
  match fs with
  | [] => Ret []
  | f :: t =>
      do r <- print_inlines p (rf_inlines f) count;
      let idx := snd r in
      do c <- chk_add p 64 PANIC_ARITH idx 1;
      do off <- text_frame_offset p (rf_frame f);
      do rest <- print_frames p t c;
      Ret (fst r ++ IFrame idx off (match f_module (rf_frame f) with Some _ => [] | None => rf_unloaded f end) :: rest)
  end.

Definition call_stack_print (p : profile) (s : rstack) : outcome (list item) :=
  do fr <- print_frames p (rs_frames s) 0;
  Ret ((match rs_frames s with [] => [INoFrames] | _ => [] end) ++ fr).

(* ------------------------------------------------------------------ print_internal *)
Definition is_skipped (s : rstack) : bool := match rs_info s with InfoDumpThreadSkipped => true | _ => false end.
Definition eq_some (o : option nat) (i : nat) : bool := match o with Some x => Nat.eqb x i | None => false end.

(* `for (i, stack) in self.threads.iter().enumerate() { if eq_some(requesting, i) { continue } if DumpThreadSkipped { continue } .. }` *)
Fixpoint print_other_threads (p : profile) (req : option nat) (ts : list rstack) (i : nat) : outcome (list item) :=
  match ts with
  | [] => Ret []
  | s :: t =>
      do rest <- print_other_threads p req t (S i);
      if eq_some req i then Ret rest
      else if is_skipped s then Ret rest
      else do body <- call_stack_print p s; Ret (IThread i :: body ++ rest)
  end.

Definition print_module_table (p : profile) (mk : Z -> Z -> item) (mods : list (Z * Z)) : outcome (list item) :=
  collect (map (fun m => do e <- text_end_addr p (fst m) (snd m); Ret (mk (fst m) e)) mods).

(* sections 1..4: system info, crash info, assertion / mac info / uptime, linux memory map count *)
Definition text_prologue : list item := [ISection 1; ISection 2; ISection 3; ISection 4].

Definition print_internal (p : profile) (brief : bool) (st : rstate) : outcome (list item) :=
  do reqpart <- match st_requesting st with
                | None => Ret []
                | Some i => do s <- idx (st_threads st) i;               (* &self.threads[requesting_thread] *)
                            do body <- call_stack_print p s;
                            Ret (IThread i :: body)
                end;
  if brief then Ret (text_prologue ++ reqpart)
  else
    do others <- print_other_threads p (st_requesting st) (st_threads st) 0;
    do mods <- print_module_table p IModule (st_modules st);
    do unl <- print_module_table p IUnloaded (st_unloaded st);
    (* sections 5..7: unimplemented streams, unknown streams, soft errors *)
    Ret (text_prologue ++ reqpart ++ others ++ mods ++ unl ++ [ISection 5; ISection 6; ISection 7]).

(* ------------------------------------------------------------------ print_json *)
Definition json_module_table (p : profile) (mk : Z -> Z -> item) (mods : list (Z * Z)) : outcome (list item) :=
  collect (map (fun m => do e <- json_end_addr p (fst m) (snd m); Ret (mk (fst m) e)) mods).

(* `thread.frames.iter().enumerate().map(|(idx, frame)| json!({ "frame": idx, "module_offset": .., "function_offset": .. }))` *)
Fixpoint json_frames (p : profile) (fs : list rframe) (i : nat) : outcome (list (nat * option Z * option Z)) :=
  match fs with
  | [] => Ret []
  | f :: t => do o <- json_frame_offsets p (rf_frame f);
              do rest <- json_frames p t (S i);
              Ret ((i, fst o, snd o) :: rest)
  end.
Definition json_threads (p : profile) (ts : list rstack) : outcome (list (list (nat * option Z * option Z))) :=
  collect (map (fun s => json_frames p (rs_frames s) 0) ts).

(* the block after json!({..}): `if let Some(requesting_thread) = .. { if let Some(f) = self.threads[requesting_thread].frames.first() {
     output["threads"].as_array().unwrap()[requesting_thread].clone() .. frames[0] .. } }` *)
Definition json_crashing (st : rstate) (jthreads : list (list (nat * option Z * option Z))) : outcome (list item) :=
  match st_requesting st with
  | None => Ret []
  | Some i =>
      do s <- idx (st_threads st) i;
      match rs_frames s with
      | [] => Ret []
      | _ :: _ => do jt <- idx jthreads i; do f0 <- idx jt 0; Ret [IJsonCrashingThread i]
      end
  end.

Definition print_json (p : profile) (st : rstate) : outcome (list item) :=
  (* sections 10..12: status / system_info / crash_info, lsb_release .. linux_memory_map_count, pid / thread_count / handles *)
  do mods <- json_module_table p IJsonModule (st_modules st);
  do jthreads <- json_threads p (st_threads st);
  do unl <- json_module_table p IJsonUnloaded (st_unloaded st);
  do crashing <- json_crashing st jthreads;
  Ret ([ISection 10; ISection 11] ++ mods ++ [ISection 12] ++ map IJsonThread jthreads ++ unl ++ crashing).

(* what the harness does with every state: print, print_brief, print_json *)
Definition render_all (p : profile) (st : rstate) : outcome (list item * list item * list item) :=
  do a <- print_internal p false st;
  do b <- print_internal p true st;
  do c <- print_json p st;
  Ret (a, b, c).
