(* C03/ProcessProofs.v — round 5: the top-level control flow of into_process_state (C03/ProcessModel.v) is total for
   every thread list / memory list / option of contexts: no Panic, no OutOfFuel with the fuel the model computes from the
   stack memory it chose, every thread within the frame bound for THAT memory, every frame's instruction a u64 (so the
   printers' hypotheses hold), `threads[requesting_thread]` in bounds. *)
From Coq Require Import Lia ZArith List Bool.
From RM Require Import C08.Model C08.Proofs C03.Model C03.Proofs C03.FetchModel C03.FetchProofs C03.ProcessModel.
From RM Require C05.Model C05.Proofs.
Import ListNotations.
Open Scope Z_scope.

Module M5 := C05.Model.
Module P5 := C05.Proofs.

(* ------------------------------------------------------------------ vocabulary *)
(* what both memory-list readers and MinidumpMemory::read establish: size = length of the byte slice; bytes are bytes *)
Definition region_ok (m : region) : Prop := wf_region m /\ Forall (fun b => 0 <= b < 256) (r_bytes m).
(* a decoded context holds register values of the context's slot width *)
Definition ctx_ok (a : M5.arch) (c : option ctx) : Prop := forall r v, c = Some (r, v) -> P5.regs_wf a r.
Definition input_ok (a : M5.arch) (pi : proc_in) : Prop :=
  (forall m, In m (pi_memory pi) -> region_ok m) /\
  (forall t, In t (pi_threads pi) -> ctx_ok a (th_ctx t) /\ (forall m, th_stack t = Some m -> region_ok m)) /\
  ctx_ok a (pi_exc_ctx pi) /\ wf_mods (pi_unloaded pi).
Definition cfi_contract (a : M5.arch)
  (cfi_walk : M5.memory -> M5.frame -> option M5.frame -> list Z -> option (M5.regs * list Z)) : Prop :=
  forall mem callee gc fwd r v, cfi_walk mem callee gc fwd = Some (r, v) -> P5.regs_wf a r.

Definition instr_u64 (f : M5.frame) : Prop := 0 <= M5.f_instr f < two64.

(* what into_process_state guarantees about the call stack of thread-list entry [t] *)
Definition thread_post (pi : proc_in) (t : thread_in) (o : thread_out) : Prop :=
  let s0 := initial_stack pi t in
  o_id o = th_id t /\ o_info o = s0_info s0 /\
  (length (o_frames o) <= stack_bytes (choose_stack_memory (pi_memory pi) t (s0_ctx s0)) + 2)%nat /\
  match s0_ctx s0 with
  | None => o_frames o = []
  | Some (r, v) => exists rest, o_frames o = M5.from_context r v M5.TContext :: rest
  end /\
  Forall instr_u64 (o_frames o) /\
  length (o_unloaded o) = length (o_frames o).

(* ------------------------------------------------------------------ helpers *)
Lemma collect_map_spec {A B} (f : A -> outcome B) (P : A -> B -> Prop) l :
  (forall x, In x l -> exists y, f x = Ret y /\ P x y) ->
  exists r, collect (map f l) = Ret r /\ Forall2 P l r.
Proof.
  induction l as [|x t IH]; intros H; cbn [map collect]; [eexists; split; [reflexivity|constructor]|].
  destruct (H x (or_introl eq_refl)) as [y [Hy Py]]. rewrite Hy. cbn [obind].
  destruct IH as [r [Hr Fr]]; [intros z Hz; apply H; right; exact Hz|].
  rewrite Hr. cbn [obind]. eexists; split; [reflexivity|constructor; assumption].
Qed.

Lemma Forall2_length' {A B} (P : A -> B -> Prop) l r : Forall2 P l r -> length r = length l.
Proof. induction 1; cbn; congruence. Qed.

Lemma slot_le_64 a : P5.arch_ok a -> 2 ^ M5.a_slot_bits a <= two64.
Proof.
  intros [_ [[_ H] _]]. change two64 with (2 ^ 64). apply Z.pow_le_mono_r; lia.
Qed.

(* ------------------------------------------------------------------ the chosen stack memory is a region the readers built *)
Lemma memory_at_ok mem x m : (forall r, In r mem -> region_ok r) -> memory_at mem x = Some m -> region_ok m.
Proof.
  intros H E. apply memory_at_sound in E; [|intros r Hr; exact (proj1 (H r Hr))].
  apply H. exact (proj1 E).
Qed.

Lemma thread_stack_ok mem t m :
  (forall r, In r mem -> region_ok r) -> (forall r, th_stack t = Some r -> region_ok r) ->
  thread_stack_memory mem t = Some m -> region_ok m.
Proof.
  intros Hm Ht. unfold thread_stack_memory. destruct (th_stack t) as [s|]; cbn [opt_or]; intros E.
  - inversion E; subst. apply Ht. reflexivity.
  - eapply memory_at_ok; eauto.
Qed.

Lemma chosen_stack_ok mem t c m :
  (forall r, In r mem -> region_ok r) -> (forall r, th_stack t = Some r -> region_ok r) ->
  choose_stack_memory mem t c = Some m -> region_ok m.
Proof.
  intros Hm Ht. unfold choose_stack_memory. destruct c as [[r v]|]; [|apply thread_stack_ok; assumption].
  destruct (match thread_stack_memory mem t with Some m0 => region_reads m0 STACK_PROBE_BYTES (M5.r_sp r) | None => false end);
    [apply thread_stack_ok; assumption|].
  destruct (memory_at mem (M5.r_sp r)) as [s|] eqn:E; cbn [opt_or]; intros H.
  - inversion H; subst. eapply memory_at_ok; eauto.
  - eapply thread_stack_ok; eauto.
Qed.

(* the memory the walk runs on is the one chosen, or none: never a third region *)
Lemma choose_stack_cases mem t c :
  choose_stack_memory mem t c = thread_stack_memory mem t \/
  exists r v, c = Some (r, v) /\ choose_stack_memory mem t c = memory_at mem (M5.r_sp r) /\
              memory_at mem (M5.r_sp r) <> None.
Proof.
  unfold choose_stack_memory. destruct c as [[r v]|]; [|left; reflexivity].
  destruct (match thread_stack_memory mem t with Some m0 => region_reads m0 STACK_PROBE_BYTES (M5.r_sp r) | None => false end);
    [left; reflexivity|].
  destruct (memory_at mem (M5.r_sp r)) as [s|] eqn:E; cbn [opt_or]; [|left; reflexivity].
  right. exists r, v. rewrite E. split; [reflexivity|]. split; [reflexivity|discriminate].
Qed.

(* the probe: when the thread's own stack memory holds 8 bytes at the stack pointer it is kept *)
Lemma choose_stack_keeps_own mem t r v m :
  thread_stack_memory mem t = Some m -> region_reads m STACK_PROBE_BYTES (M5.r_sp r) = true ->
  choose_stack_memory mem t (Some (r, v)) = Some m.
Proof. intros E H. unfold choose_stack_memory. rewrite E, H. reflexivity. Qed.

Lemma selected_ctx_ok a pi t : ctx_ok a (pi_exc_ctx pi) -> ctx_ok a (th_ctx t) -> ctx_ok a (s0_ctx (initial_stack pi t)).
Proof.
  intros He Ht. unfold initial_stack.
  destruct (opt_is (pi_dump_tid pi) (th_id t)); cbn [s0_ctx]; [intros r v H; discriminate|].
  destruct (opt_is (opt_or (pi_crash_tid pi) (pi_req_tid pi)) (th_id t)); cbn [s0_ctx]; [|exact Ht].
  destruct (pi_exc_ctx pi) as [c|] eqn:E; cbn [opt_or]; [|exact Ht]. exact He.
Qed.

(* ------------------------------------------------------------------ every frame's instruction is a u64 *)
Lemma walked_instr_u64 a f : P5.arch_ok a -> P5.frame_wf a f -> P5.later_frame_ok a f -> instr_u64 f.
Proof.
  intros Ha Hwf [Hc [Hi [Hr _]]]. pose proof (slot_le_64 a Ha) as Hs.
  destruct Hwf as [[H0 H1] _]. destruct Ha as [_ [_ [_ [_ [_ [_ [_ [_ [_ [Hadj _]]]]]]]]]].
  unfold instr_u64. rewrite Hi, Hr in *. lia.
Qed.

Lemma walk_stack_instr_u64 p a os mem module_at mma cfi_walk iv fuel r v fs :
  P5.arch_ok a -> P5.mem_wf mem ->
  (forall callee gc fwd r v, cfi_walk callee gc fwd = Some (r, v) -> P5.regs_wf a r) ->
  P5.regs_wf a r ->
  M5.walk_stack M5.current_code p a os mem module_at mma cfi_walk iv fuel r v = Ret fs ->
  Forall instr_u64 fs.
Proof.
  intros Ha Hm Hc Hr H. pose proof (slot_le_64 a Ha) as Hs.
  assert (H0 : instr_u64 (M5.from_context r v M5.TContext)).
  { unfold instr_u64, M5.from_context; cbn [M5.f_instr]. destruct Hr as [[A B] _]. lia. }
  unfold M5.walk_stack in H. destruct (M5.mem_ok mem).
  - destruct (M5.walk M5.current_code p a os mem module_at mma cfi_walk iv fuel (M5.from_context r v M5.TContext) None)
      as [rest| |t|] eqn:E; cbn [obind] in H; try discriminate.
    inversion H; subst; clear H. constructor; [exact H0|].
    assert (Hf : P5.frame_wf a (M5.from_context r v M5.TContext)) by exact Hr.
    destruct (P5.walk_shape M5.current_code p a os mem module_at mma cfi_walk iv eq_refl Ha Hm Hc _ _ _ _ Hf E) as [W _].
    eapply Forall_impl; [|exact W]. intros f [Hwf [Hl _]]. eapply walked_instr_u64; eauto.
  - inversion H; subst. constructor; [exact H0|constructor].
Qed.

(* ------------------------------------------------------------------ one thread's walk *)
Lemma walk_memory_some sm m : walk_memory sm = Some m -> sm = Some m.
Proof. unfold walk_memory. destruct sm as [s|]; [|discriminate]. destruct (region_range_ok s); [congruence|discriminate]. Qed.

Lemma to_mem_wf m : region_ok m -> P5.mem_wf (to_mem m).
Proof. intros [[Hb _] Hy]. split; [exact Hb|exact Hy]. Qed.

Lemma walk_thread_spec p cpu a os module_at mma cfi_walk iv c sm :
  P5.arch_ok a -> ctx_ok a c -> (forall m, sm = Some m -> region_ok m) -> cfi_contract a cfi_walk ->
  exists fs, walk_thread p cpu a os module_at mma cfi_walk iv c sm = Ret fs /\
    (length fs <= stack_bytes sm + 2)%nat /\
    match c with None => fs = [] | Some (r, v) => exists rest, fs = M5.from_context r v M5.TContext :: rest end /\
    Forall instr_u64 fs.
Proof.
  intros Ha Hc Hsm Hcfi. destruct c as [[r v]|]; cbn [walk_thread].
  2:{ exists []. split; [reflexivity|]. split; [cbn; lia|]. split; [reflexivity|constructor]. }
  assert (Hr : P5.regs_wf a r) by (apply (Hc r v); reflexivity).
  pose proof (slot_le_64 a Ha) as Hs.
  assert (H0 : instr_u64 (M5.from_context r v M5.TContext)).
  { unfold instr_u64, M5.from_context; cbn [M5.f_instr]. destruct Hr as [[A B] _]. lia. }
  destruct (walk_memory sm) as [m|] eqn:Ew.
  - apply walk_memory_some in Ew. subst sm. cbn [stack_bytes].
    pose proof (to_mem_wf m (Hsm m eq_refl)) as Hm.
    destruct (has_unwinder cpu) eqn:Eu.
    + destruct (P5.frame_bound p a os (to_mem m) module_at mma (cfi_walk (to_mem m)) iv M5.current_code eq_refl Ha Hm
                  (Hcfi (to_mem m)) eq_refl r v Hr) as [fs [E Hlen]].
      exists fs. split; [exact E|]. split; [exact Hlen|]. split.
      * pose proof E as E2. eapply P5.first_frame in E2. exact E2.
      * eapply walk_stack_instr_u64; eauto.
    + destruct (no_unwinder_single_frame cpu (fun _ : M5.frame => None) (M5.from_context r v M5.TContext)
                  (length (r_bytes m)) Eu) as [E Hlen].
      eexists. split; [exact E|]. split; [exact Hlen|]. split; [exists []; reflexivity|].
      constructor; [exact H0|constructor].
  - eexists. split; [reflexivity|]. split; [cbn; lia|]. split; [exists []; reflexivity|].
    constructor; [exact H0|constructor].
Qed.

Lemma frame_unloaded_total p module_at unl f :
  wf_mods unl -> instr_u64 f -> exists l, frame_unloaded p module_at unl f = Ret l.
Proof.
  intros Hu Hi. unfold frame_unloaded. destruct (module_at (M5.f_instr f)); [eexists; reflexivity|].
  apply unloaded_offsets_total; assumption.
Qed.

Lemma process_thread_spec p cpu a os module_at mma cfi_walk iv pi t :
  P5.arch_ok a -> input_ok a pi -> cfi_contract a cfi_walk -> In t (pi_threads pi) ->
  exists o, process_thread p cpu a os module_at mma cfi_walk iv pi t = Ret o /\ thread_post pi t o.
Proof.
  intros Ha [Hmem [Hth [Hexc Hunl]]] Hcfi Hin. destruct (Hth t Hin) as [Htc Hts].
  unfold process_thread.
  destruct (walk_thread_spec p cpu a os module_at mma cfi_walk iv (s0_ctx (initial_stack pi t))
              (choose_stack_memory (pi_memory pi) t (s0_ctx (initial_stack pi t))) Ha
              (selected_ctx_ok a pi t Hexc Htc)
              (fun m E => chosen_stack_ok _ _ _ m Hmem Hts E) Hcfi) as [fs [E [Hlen [Hshape Hinstr]]]].
  rewrite E. cbn [obind].
  destruct (collect_map_spec (frame_unloaded p module_at (pi_unloaded pi)) (fun _ _ => True) fs) as [offs [Eo Fo]].
  { intros f Hf. rewrite Forall_forall in Hinstr.
    destruct (frame_unloaded_total p module_at (pi_unloaded pi) f Hunl (Hinstr f Hf)) as [l El].
    exists l. split; [exact El|exact I]. }
  rewrite Eo. cbn [obind]. eexists. split; [reflexivity|].
  unfold thread_post; cbn [o_id o_info o_frames o_unloaded].
  split; [reflexivity|]. split; [reflexivity|]. split; [exact Hlen|]. split; [exact Hshape|].
  split; [exact Hinstr|]. exact (Forall2_length' _ _ _ Fo).
Qed.

(* ------------------------------------------------------------------ requesting_thread *)
Lemma last_flag_bound flags : forall i acc r,
  (forall x, acc = Some x -> (x < i)%nat) -> last_flag flags i acc = Some r -> (r < i + length flags)%nat.
Proof.
  induction flags as [|b t IH]; intros i acc r Hacc H; cbn [last_flag length] in *.
  - apply Hacc in H. lia.
  - apply IH in H; [lia|]. intros x Hx. destruct b; [inversion Hx; lia|apply Hacc in Hx; lia].
Qed.

Lemma requesting_index_bound pi i : requesting_index pi = Some i -> (i < length (pi_threads pi))%nat.
Proof.
  unfold requesting_index. intros H. apply last_flag_bound in H; [rewrite map_length in H; lia|].
  intros x Hx; discriminate.
Qed.

(* the first pass sets `requesting_thread` exactly as round 1's model of it (Model.requesting_thread, over the ids alone) *)
Lemma last_flag_is_requesting_from pi ts : forall i acc,
  last_flag (map (fun t => s0_req (initial_stack pi t)) ts) i acc =
  requesting_from (map th_id ts) i (pi_dump_tid pi) (opt_or (pi_crash_tid pi) (pi_req_tid pi)) acc.
Proof.
  induction ts as [|t ts IH]; intros i acc; cbn [map last_flag requesting_from]; [reflexivity|].
  rewrite IH. f_equal. unfold initial_stack, opt_is.
  destruct (pi_dump_tid pi) as [d|]; [destruct (d =? th_id t); cbn [s0_req]; [reflexivity|]|];
    (destruct (opt_or (pi_crash_tid pi) (pi_req_tid pi)) as [w|]; [destruct (w =? th_id t)|]; reflexivity).
Qed.

Lemma requesting_index_is_requesting_thread pi :
  requesting_index pi =
  requesting_thread (map th_id (pi_threads pi)) (pi_dump_tid pi) (opt_or (pi_crash_tid pi) (pi_req_tid pi)).
Proof. apply last_flag_is_requesting_from. Qed.

(* ------------------------------------------------------------------ the whole thread list *)
Lemma process_threads_total p cpu a os module_at mma cfi_walk iv pi :
  P5.arch_ok a -> input_ok a pi -> cfi_contract a cfi_walk ->
  exists outs, process_threads p cpu a os module_at mma cfi_walk iv pi = Ret (outs, requesting_index pi) /\
    Forall2 (thread_post pi) (pi_threads pi) outs /\
    (forall i, requesting_index pi = Some i -> (i < length outs)%nat).
Proof.
  intros Ha Hin Hcfi. unfold process_threads.
  destruct (collect_map_spec (process_thread p cpu a os module_at mma cfi_walk iv pi) (thread_post pi) (pi_threads pi))
    as [outs [E F]].
  { intros t Ht. apply process_thread_spec; assumption. }
  rewrite E. cbn [obind]. exists outs. split; [reflexivity|]. split; [exact F|].
  intros i Hi. rewrite (Forall2_length' _ _ _ F). apply requesting_index_bound. exact Hi.
Qed.

Lemma requesting_stack_total p cpu a os module_at mma cfi_walk iv pi :
  P5.arch_ok a -> input_ok a pi -> cfi_contract a cfi_walk ->
  exists r, requesting_stack p cpu a os module_at mma cfi_walk iv pi = Ret r.
Proof.
  intros Ha Hin Hcfi. unfold requesting_stack.
  destruct (process_threads_total p cpu a os module_at mma cfi_walk iv pi Ha Hin Hcfi) as [outs [E [_ Hb]]].
  rewrite E. cbn [obind fst snd]. destruct (requesting_index pi) as [i|]; [|eexists; reflexivity].
  specialize (Hb i eq_refl). unfold idx. destruct (nth_error outs i) as [o|] eqn:En.
  - cbn [obind]. eexists; reflexivity.
  - apply nth_error_None in En. lia.
Qed.

(* ------------------------------------------------------------------ print_json's crashing_thread indexes are in bounds *)
Lemma json_crashing_thread_total outs req :
  (forall i, req = Some i -> (i < length outs)%nat) -> exists r, json_crashing_thread outs req = Ret r.
Proof.
  intros Hb. unfold json_crashing_thread. destruct req as [i|]; [|eexists; reflexivity].
  specialize (Hb i eq_refl). unfold idx. destruct (nth_error outs i) as [t|] eqn:En.
  2:{ apply nth_error_None in En. lia. }
  cbn [obind]. destruct (o_frames t) as [|f fs] eqn:Ef; [eexists; reflexivity|].
  rewrite nth_error_map, En. cbn [option_map obind]. rewrite Ef. cbn [nth_error obind]. eexists; reflexivity.
Qed.

Lemma render_crashing_thread_total p cpu a os module_at mma cfi_walk iv pi :
  P5.arch_ok a -> input_ok a pi -> cfi_contract a cfi_walk ->
  exists r, render_crashing_thread p cpu a os module_at mma cfi_walk iv pi = Ret r.
Proof.
  intros Ha Hin Hcfi. unfold render_crashing_thread.
  destruct (process_threads_total p cpu a os module_at mma cfi_walk iv pi Ha Hin Hcfi) as [outs [E [_ Hb]]].
  rewrite E. cbn [obind fst snd]. apply json_crashing_thread_total. exact Hb.
Qed.

(* ------------------------------------------------------------------ all frames of the state against the size of the input *)
Lemma chosen_stack_from mem t c m :
  wf_regions mem -> choose_stack_memory mem t c = Some m -> In m mem \/ th_stack t = Some m.
Proof.
  intros Hwf.
  assert (Hat : forall x, memory_at mem x = Some m -> In m mem).
  { intros x E. apply memory_at_sound in E; [exact (proj1 E)|exact Hwf]. }
  assert (Hts : thread_stack_memory mem t = Some m -> In m mem \/ th_stack t = Some m).
  { unfold thread_stack_memory. destruct (th_stack t) as [s|]; cbn [opt_or]; intros E; [right; exact E|left; eapply Hat; eauto]. }
  unfold choose_stack_memory. destruct c as [[r v]|]; [|exact Hts].
  destruct (match thread_stack_memory mem t with Some m0 => region_reads m0 STACK_PROBE_BYTES (M5.r_sp r) | None => false end);
    [exact Hts|].
  destruct (memory_at mem (M5.r_sp r)) as [s|] eqn:E; cbn [opt_or]; [|exact Hts].
  intros H. inversion H; subst. left. eapply Hat; eauto.
Qed.

Lemma list_max_in l x : In x l -> (x <= list_max l)%nat.
Proof.
  intros H. assert (Hle : (list_max l <= list_max l)%nat) by lia.
  apply list_max_le in Hle. rewrite Forall_forall in Hle. exact (Hle x H).
Qed.

Lemma chosen_stack_bytes_le pi t c :
  wf_regions (pi_memory pi) -> In t (pi_threads pi) ->
  (stack_bytes (choose_stack_memory (pi_memory pi) t c) <= max_region_bytes pi)%nat.
Proof.
  intros Hwf Hin. destruct (choose_stack_memory (pi_memory pi) t c) as [m|] eqn:E; cbn [stack_bytes]; [|lia].
  unfold max_region_bytes. apply list_max_in. apply in_map_iff. exists m. split; [reflexivity|].
  apply in_or_app. destruct (chosen_stack_from _ _ _ _ Hwf E) as [H|H]; [left; exact H|right].
  unfold own_stacks. apply in_flat_map. exists t. split; [exact Hin|]. rewrite H. left; reflexivity.
Qed.

Lemma total_frames_le (B : nat) ts outs :
  Forall2 (fun (_ : thread_in) o => (length (o_frames o) <= B)%nat) ts outs -> (total_frames outs <= length ts * B)%nat.
Proof. induction 1; cbn [total_frames fold_right length]; [lia|]. fold (total_frames l'). lia. Qed.

Lemma Forall2_impl_in {A B} (P Q : A -> B -> Prop) l r :
  (forall x y, In x l -> P x y -> Q x y) -> Forall2 P l r -> Forall2 Q l r.
Proof.
  intros H F. induction F; constructor.
  - apply H; [left; reflexivity|assumption].
  - apply IHF. intros a b Ha. apply H. right; exact Ha.
Qed.

(* the number of frames of the whole ProcessState is at most |threads| x (largest region + 2): processing is bounded by a
   function of the input alone, whatever the stacks and symbols contain *)
Lemma process_total_frames p cpu a os module_at mma cfi_walk iv pi :
  P5.arch_ok a -> input_ok a pi -> cfi_contract a cfi_walk ->
  exists outs req, process_threads p cpu a os module_at mma cfi_walk iv pi = Ret (outs, req) /\
    (total_frames outs <= length (pi_threads pi) * (max_region_bytes pi + 2))%nat.
Proof.
  intros Ha Hin Hcfi.
  destruct (process_threads_total p cpu a os module_at mma cfi_walk iv pi Ha Hin Hcfi) as [outs [E [F _]]].
  exists outs, (requesting_index pi). split; [exact E|]. apply total_frames_le.
  eapply Forall2_impl_in; [|exact F]. intros t o Ht [_ [_ [Hlen _]]]. cbn beta.
  destruct Hin as [Hmem _].
  pose proof (chosen_stack_bytes_le pi t (s0_ctx (initial_stack pi t)) (fun r Hr => proj1 (Hmem r Hr)) Ht). lia.
Qed.

(* ------------------------------------------------------------------ BitFlipDetails::confidence: NEARBY_REGISTER[..] *)
Lemma nearby_index_total p n : 0 <= n < two32 ->
  exists r, nearby_index p n = Ret r /\
    (n = 0 -> r = None) /\ (0 < n -> r = Some (Z.min n NEARBY_REGISTER_LEN - 1) /\ 0 <= Z.min n NEARBY_REGISTER_LEN - 1 < NEARBY_REGISTER_LEN).
Proof.
  intros Hn. unfold nearby_index, NEARBY_REGISTER_LEN. destruct (0 <? n) eqn:E.
  - apply Z.ltb_lt in E. rewrite P5.chk_sub_ok by (change (2 ^ 64) with 18446744073709551616; lia). cbn [obind].
    replace ((0 <=? Z.min n 4 - 1) && (Z.min n 4 - 1 <? 4)) with true
      by (symmetry; apply andb_true_intro; split; [apply Z.leb_le|apply Z.ltb_lt]; lia).
    eexists. split; [reflexivity|]. split; [lia|]. intros _. split; [reflexivity|lia].
  - apply Z.ltb_ge in E. eexists. split; [reflexivity|]. split; [reflexivity|lia].
Qed.

Lemma nearby_count_from p address regs : forall acc, 0 <= acc -> acc + Z.of_nat (length regs) < two32 ->
  exists n, fold_left (fun a r => do k <- a;
                                  if (LOW_ADDRESS_CUTOFF <? address) && (Z.abs (address - r) <=? NEARBY_REGISTER_DISTANCE)
                                  then chk_add p 32 PANIC_ARITH k 1 else Ret k) regs (Ret acc) = Ret n /\
            acc <= n <= acc + Z.of_nat (length regs).
Proof.
  induction regs as [|r t IH]; intros acc H0 H1; cbn [fold_left length] in *.
  - exists acc. split; [reflexivity|lia].
  - cbn [obind]. destruct ((LOW_ADDRESS_CUTOFF <? address) && (Z.abs (address - r) <=? NEARBY_REGISTER_DISTANCE)).
    + rewrite P5.chk_add_ok by (change (2 ^ 32) with two32; lia).
      destruct (IH (acc + 1)) as [n [E Hn]]; [lia|lia|]. exists n. split; [exact E|lia].
    + destruct (IH acc) as [n [E Hn]]; [lia|lia|]. exists n. split; [exact E|lia].
Qed.

(* for any candidate address and any register file (fewer than 2^32 registers), in both profiles: the count cannot overflow,
   the subtraction cannot underflow and the table index is in bounds *)
Lemma nearby_site_total p address regs : Z.of_nat (length regs) < two32 ->
  exists n i, nearby_site p address regs = Ret (n, i) /\ 0 <= n <= Z.of_nat (length regs) /\
              (n = 0 -> i = None) /\ (0 < n -> i = Some (Z.min n NEARBY_REGISTER_LEN - 1)).
Proof.
  intros H. unfold nearby_site, nearby_count.
  destruct (nearby_count_from p address regs 0) as [n [E Hn]]; [lia|lia|]. rewrite E. cbn [obind].
  destruct (nearby_index_total p n) as [i [Ei [H0 H1]]]; [lia|]. rewrite Ei. cbn [obind].
  exists n, i. split; [reflexivity|]. split; [lia|]. split; [exact H0|]. intros Hp. exact (proj1 (H1 Hp)).
Qed.

(* seeded/C03-7: clamping to the table length after the subtraction indexes one past the end for every count >= 5 *)
Lemma nearby_clamp_len_panics p n : 5 <= n < two32 -> nearby_index_clamp_len p n = Panic PANIC_INDEX.
Proof.
  intros H. unfold nearby_index_clamp_len, NEARBY_REGISTER_LEN.
  replace (0 <? n) with true by (symmetry; apply Z.ltb_lt; lia).
  rewrite P5.chk_sub_ok by (change (2 ^ 64) with 18446744073709551616; unfold two32 in H; lia). cbn [obind].
  replace (Z.min (n - 1) 4) with 4 by lia. reflexivity.
Qed.

(* ------------------------------------------------------------------ process_minidump_with_options: a result or an error *)
Lemma process_minidump_total p cpu a os module_at mma cfi_walk iv tl si pi :
  P5.arch_ok a -> input_ok a pi -> cfi_contract a cfi_walk ->
  exists r, process_minidump p cpu a os module_at mma cfi_walk iv tl si pi = Ret r /\
    match r with
    | ProcessErr e => (tl = false /\ e = MissingThreadList) \/ (tl = true /\ si = false /\ e = MissingSystemInfo)
    | ProcessOk outs req => tl = true /\ si = true /\ Forall2 (thread_post pi) (pi_threads pi) outs /\
                            (forall i, req = Some i -> (i < length outs)%nat)
    end.
Proof.
  intros Ha Hin Hcfi. unfold process_minidump, info_new.
  destruct tl; cbn [negb]; [|eexists; split; [reflexivity|left; split; reflexivity]].
  destruct si; cbn [negb]; [|eexists; split; [reflexivity|right; repeat split; reflexivity]].
  destruct (process_threads_total p cpu a os module_at mma cfi_walk iv pi Ha Hin Hcfi) as [outs [E [F Hb]]].
  rewrite E. cbn [obind fst snd]. eexists. split; [reflexivity|]. repeat split; assumption.
Qed.
