(* C03/RenderTie.v — round 5, second pass: the index / arithmetic sites of the three printers as translate/c03_render.py reads
   them out of the source on every run (Gen/C03Render.v) against the sites the model coq/C03/RenderModel.v visits. *)
From Coq Require Import ZArith List.
From RM Require Import Gen.C03Render C03.RenderModel.
Import ListNotations.
Open Scope Z_scope.

(* print_internal: `idx (st_threads st) i`; print_module_table over the loaded, then the unloaded modules (text_end_addr) *)
Definition model_print_internal_sites : list gen_rsite := [GR_threads_index; GR_module_end_text; GR_module_end_text].
(* CallStack::print: print_registers' line-length test (no model: two String lengths, usize); print_inlines' and print_frames'
   `chk_add count 1`; the three arms of text_frame_offset *)
Definition model_call_stack_print_sites : list gen_rsite :=
  [GR_register_line_len; GR_frame_count_inc; GR_frame_count_inc; GR_addr_minus_src_base; GR_addr_minus_func_base; GR_addr_minus_module_base].
(* print_json: three `map["key"] = ..` on a freshly built json!({..}) object (insertions); json_module_table (loaded), the two
   subtractions of json_frame_offsets, json_module_table (unloaded); json_crashing: idx threads, idx jthreads, idx frames 0 *)
Definition model_print_json_sites : list gen_rsite :=
  [GR_json_object_insert; GR_json_object_insert; GR_json_object_insert; GR_module_end_json; GR_instr_minus_module_base;
   GR_instr_minus_func_base; GR_module_end_json; GR_threads_index; GR_json_threads_index; GR_json_frame0].
(* the seven .unwrap() of print_json's crashing-thread block read back what json!({..}) just built: "threads" is an array with one
   object per call stack, its "frames" an array with one object per frame (json_threads: a list of lists, by construction) *)
Definition model_printer_unwraps : list Z := [0; 0; 7].

Lemma render_sites_from_source :
  gen_print_internal_sites = model_print_internal_sites /\ gen_call_stack_print_sites = model_call_stack_print_sites /\
  gen_print_json_sites = model_print_json_sites /\ gen_printer_unwraps = model_printer_unwraps.
Proof. repeat split; reflexivity. Qed.
