(* C03/RenderCompose.v — round 5, second pass: the ProcessState the pipeline model produces is always rendered.
   [state_of] builds the printers' view of the state from the thread loop's output (C03/ProcessModel.process_threads, which
   runs C05's walker): per frame the module of the C08 lookup, the function / source-line bases and the inline frames
   SymbolFile::fill_symbol (C11's model) returns for that module's symbol file, or the unloaded-module offsets the thread loop
   recorded when there is no module.  [pipeline_render] = process_threads, then state_of, then the three printers. *)
From Coq Require Import Lia ZArith List Bool.
From RM Require Import C08.Model C08.Proofs C03.Model C03.Proofs C03.FetchModel C03.ProcessModel C03.ProcessProofs C03.Compose
  C03.RenderModel C03.RenderProofs.
From RM Require C11.Model C11.Proofs2 C11.Proofs5.
From RM Require C05.Model C05.Proofs.
Import ListNotations.
Open Scope Z_scope.

Section Build.
Variable q : profile.                         (* build profile of breakpad-symbols *)
Variable mods : list (Z * Z).                 (* the module list: (base_of_image, size_of_image) *)
Variable files : Z -> C11.Model.raw_file.     (* the symbol file served for module i *)

Definition raw_frame (instr : Z) : frame :=
  {| f_instr := instr; f_module := None; f_fname := false; f_fbase := None; f_srcfl := false; f_sbase := None |}.

(* fill_source_line_info: frame.module = modules.module_at_address(instruction); fill_symbol on that module *)
Definition rframe_of (f : M5.frame) (unl : list Z) : outcome rframe :=
  let instr := M5.f_instr f in
  match rm_get (module_table mods) instr with
  | None => Ret {| rf_frame := raw_frame instr; rf_inlines := 0; rf_unloaded := [unl] |}
  | Some i =>
      match nth_error mods (Z.to_nat i) with
      | None => Panic PANIC_INDEX
      | Some m => do o <- C11.Model.symbolize q (files i) (fst m) instr;
                  Ret {| rf_frame := frame_of instr (fst m) o; rf_inlines := length (C11.Model.o_inl o); rf_unloaded := [] |}
      end
  end.

Definition rstack_of (o : thread_out) : outcome rstack :=
  do fs <- collect (map (fun fu => rframe_of (fst fu) (snd fu)) (combine (o_frames o) (o_unloaded o)));
  Ret {| rs_info := o_info o; rs_frames := fs |}.

Definition state_of (outs : list thread_out) (req : option nat) (unloaded : list (Z * Z)) : outcome rstate :=
  do ts <- collect (map rstack_of outs);
  Ret {| st_threads := ts; st_requesting := req; st_modules := mods; st_unloaded := unloaded |}.
End Build.

(* process_minidump_with_options followed by print, print_brief and print_json, for the modelled pipeline *)
Definition pipeline_render (p pr q : profile) cpu a os module_at mma cfi_walk iv mods files (pi : proc_in)
  : outcome (list item * list item * list item) :=
  do r <- process_threads p cpu a os module_at mma cfi_walk iv pi;
  do st <- state_of q mods files (fst r) (snd r) (pi_unloaded pi);
  render_all pr st.

Definition lines_ok (st : rstate) : Prop := forall s, In s (st_threads st) -> Z.of_nat (stack_lines (rs_frames s)) < two64.

Lemma mods_ok_wf mods : mods_ok mods -> wf_mods mods.
Proof. intros H m Hm. destruct (H m Hm) as [A [B _]]. split; assumption. Qed.

Lemma rframe_of_total q mods files f unl :
  wf_mods mods -> (forall i, C11.Proofs2.wf_file (files i)) -> instr_u64 f ->
  exists r, rframe_of q mods files f unl = Ret r /\ frame_ok (rf_frame r).
Proof.
  intros Hm Hwf Hi. unfold instr_u64 in Hi. unfold rframe_of.
  destruct (rm_get (module_table mods) (M5.f_instr f)) as [i|] eqn:Hg.
  - pose proof Hg as Hg'. unfold module_table in Hg'.
    apply (lookup_sound Z.eqb Z.eqb_eq) in Hg'; [|apply mods_wf_entries; exact Hm].
    destruct Hg' as [r [Hin Hc]]. apply mods_entry in Hin. destruct Hin as [m [Hn Hr]].
    rewrite Hn. apply mk_range_start in Hr.
    unfold contains in Hc. apply andb_prop in Hc. destruct Hc as [Hc _]. apply Z.leb_le in Hc.
    destruct (Hm m (nth_error_In _ _ Hn)) as [Hb _].
    destruct (C11.Proofs5.func_sound q (files i) (fst m) (M5.f_instr f) (Hwf i) Hb (proj2 Hi)) as [o [Eo _]].
    rewrite Eo. cbn [obind]. eexists. split; [reflexivity|]. cbn [rf_frame].
    eapply frame_of_ok; eauto; lia.
  - eexists. split; [reflexivity|]. cbn [rf_frame]. unfold frame_ok, raw_frame, below; cbn [f_instr f_module f_fbase f_sbase].
    split; [exact Hi|]. split; [|split]; intros b0 H0; discriminate.
Qed.

Lemma Forall2_in_both {A B} (P : A -> B -> Prop) l r y : Forall2 P l r -> In y r -> exists x, In x l /\ P x y.
Proof. exact (Forall2_in_r P l r y). Qed.

Lemma rstack_of_total q mods files o :
  wf_mods mods -> (forall i, C11.Proofs2.wf_file (files i)) -> Forall instr_u64 (o_frames o) ->
  exists s, rstack_of q mods files o = Ret s /\ rs_info s = o_info o /\
            (forall f, In f (rs_frames s) -> frame_ok (rf_frame f)) /\
            (length (rs_frames s) <= length (o_frames o))%nat.
Proof.
  intros Hm Hwf Hi. unfold rstack_of.
  destruct (collect_map_spec (fun fu => rframe_of q mods files (fst fu) (snd fu)) (fun _ r => frame_ok (rf_frame r))
              (combine (o_frames o) (o_unloaded o))) as [fs [E F]].
  - intros [f u] Hfu. apply in_combine_l in Hfu. rewrite Forall_forall in Hi.
    exact (rframe_of_total q mods files f u Hm Hwf (Hi f Hfu)).
  - rewrite E. cbn [obind]. eexists. split; [reflexivity|]. cbn [rs_info rs_frames]. split; [reflexivity|]. split.
    + intros f Hf. destruct (Forall2_in_both _ _ _ _ F Hf) as [x [_ Hx]]. exact Hx.
    + rewrite (Forall2_length' _ _ _ F), combine_length. lia.
Qed.

(* for every input of the thread loop, every module list the readers can build and every well-formed symbol file per module:
   the pipeline produces a state (no Panic / OutOfFuel), and all three printers write it, in every combination of build
   profiles — provided only that no call stack prints 2^64 lines (a Vec cannot hold that many frames) *)
Lemma pipeline_always_renders p pr q cpu a os module_at mma cfi_walk iv mods files pi :
  C05.Proofs.arch_ok a -> input_ok a pi -> cfi_contract a cfi_walk ->
  mods_ok mods -> mods_ok (pi_unloaded pi) -> (forall i, C11.Proofs2.wf_file (files i)) ->
  exists outs st,
    process_threads p cpu a os module_at mma cfi_walk iv pi = Ret (outs, requesting_index pi) /\
    state_of q mods files outs (requesting_index pi) (pi_unloaded pi) = Ret st /\
    length (st_threads st) = length (pi_threads pi) /\
    (lines_ok st ->
     exists full brief json,
       pipeline_render p pr q cpu a os module_at mma cfi_walk iv mods files pi = Ret (full, brief, json) /\
       (forall i, requesting_index pi = Some i -> In (IThread i) full /\ In (IThread i) brief)).
Proof.
  intros Ha Hin Hcfi Hm Hu Hwf.
  destruct (process_threads_total p cpu a os module_at mma cfi_walk iv pi Ha Hin Hcfi) as [outs [E [F Hreq]]].
  destruct (collect_map_spec (rstack_of q mods files)
              (fun o s => rs_info s = o_info o /\ forall f, In f (rs_frames s) -> frame_ok (rf_frame f)) outs) as [ts [Et Ft]].
  { intros o Ho. destruct (Forall2_in_r _ _ _ _ F Ho) as [t [_ [_ [_ [_ [_ [Hi _]]]]]]].
    destruct (rstack_of_total q mods files o (mods_ok_wf _ Hm) Hwf Hi) as [s [Es [H1 [H2 _]]]]. exists s. split; [exact Es|split; assumption]. }
  set (st := {| st_threads := ts; st_requesting := requesting_index pi; st_modules := mods; st_unloaded := pi_unloaded pi |}).
  assert (Est : state_of q mods files outs (requesting_index pi) (pi_unloaded pi) = Ret st).
  { unfold state_of. rewrite Et. reflexivity. }
  assert (Hlen : length ts = length (pi_threads pi)).
  { rewrite (Forall2_length' _ _ _ Ft). exact (Forall2_length' _ _ _ F). }
  exists outs, st. split; [exact E|]. split; [exact Est|]. split; [exact Hlen|].
  intros Hl.
  assert (Hok : state_ok st).
  { unfold state_ok; cbn [st_threads st_requesting st_modules st_unloaded st]. split; [|split; [exact Hl|split; [|split; assumption]]].
    - intros s f Hs Hf. destruct (Forall2_in_r _ _ _ _ Ft Hs) as [o [_ [_ H2]]]. exact (H2 f Hf).
    - intros i Hi. rewrite Hlen. exact (requesting_index_bound pi i Hi). }
  destruct (renderers_total pr st Hok) as [full [brief [json [Er [Hthr _]]]]].
  exists full, brief, json. split; [|exact Hthr].
  unfold pipeline_render. rewrite E. cbn [obind fst snd]. rewrite Est. cbn [obind]. exact Er.
Qed.
