(* C03/FetchModel.v — round 4: executable models of
     minidump-processor/src/op_analysis.rs   get_thread_instruction_bytes (207-221): region lookup,
                                             `instruction_pointer - memory.base_address()`, `&memory.bytes()[offset..]`
     minidump/src/minidump.rs                MinidumpMemoryListBase::{from_regions, memory_at_address} (2186-2212),
                                             MinidumpMemoryBase::memory_range (2111)
     breakpad-symbols/src/sym_file/mod.rs    SymbolFile::fill_symbol, the inline-level enumeration `for depth in 1..` (412-428)
   plus the two seeded variants of these sites (stitching the instruction from the following region; enumerating the
   levels up to the largest recorded depth), kept so that the class of defect is expressible and refuted.
   Definitions only. *)
From RM Require Export Base.Word C08.Model C03.Model.
Open Scope Z_scope.

(* ------------------------------------------------------------------ memory regions *)
(* a region as MinidumpMemory::read / MinidumpMemory64List::read build it: base_address, size, bytes *)
Record region := { r_base : Z; r_size : Z; r_bytes : list Z }.

(* &l[off..] : panics iff off > len *)
Definition slice_from {A} (l : list A) (off : Z) : outcome (list A) :=
  if (0 <=? off) && (off <=? Z.of_nat (length l)) then Ret (skipn (Z.to_nat off) l) else Panic PANIC_INDEX.
(* &l[lo..hi] : panics iff lo > hi or hi > len *)
Definition slice_range {A} (l : list A) (lo hi : Z) : outcome (list A) :=
  if (0 <=? lo) && (lo <=? hi) && (hi <=? Z.of_nat (length l))
  then Ret (firstn (Z.to_nat (hi - lo)) (skipn (Z.to_nat lo) l)) else Panic PANIC_INDEX.

(* regions_by_addr: (memory_range(), index) through into_rangemap_safe — the C08 table *)
Definition region_table (rs : list region) : list (range * Z) :=
  into_rangemap_safe Z.eqb (enumerate_from 0 (map (fun r => mk_range (r_base r) (r_size r)) rs)).
(* memory_at_address: regions_by_addr.get(address).and_then(|&index| self.regions.get(index)) *)
Definition memory_at (rs : list region) (x : Z) : option region :=
  match rm_get (region_table rs) x with
  | Some i => nth_error rs (Z.to_nat i)
  | None => None
  end.

(* get_thread_instruction_bytes: Ret None = Err(ReadThreadInstructionFailed) *)
Definition fetch_instruction_bytes (p : profile) (rs : list region) (ip : Z) : outcome (option (list Z)) :=
  match memory_at rs ip with
  | None => Ret None
  | Some m =>
      do off <- chk_sub p 64 PANIC_ARITH ip (r_base m);
      do b <- slice_from (r_bytes m) off;
      Ret (Some b)
  end.

(* the seeded variant (seeded/C03-4): an instruction cut off by the end of its region is completed from the region
   that starts right behind it — `&next.bytes()[next_offset..next_offset + missing]` *)
Definition MAX_INSTRUCTION_LENGTH : Z := 15.
Definition fetch_instruction_bytes_stitched (p : profile) (rs : list region) (ip : Z) : outcome (option (list Z)) :=
  match memory_at rs ip with
  | None => Ret None
  | Some m =>
      do off <- chk_sub p 64 PANIC_ARITH ip (r_base m);
      do b <- slice_from (r_bytes m) off;
      if MAX_INSTRUCTION_LENGTH <=? Z.of_nat (length b) then Ret (Some b)
      else
        let missing := MAX_INSTRUCTION_LENGTH - Z.of_nat (length b) in
        match checked_add 64 (r_base m) (r_size m) with
        | None => Ret (Some b)
        | Some next =>
            match memory_at rs next with
            | None => Ret (Some b)
            | Some nx =>
                do noff <- chk_sub p 64 PANIC_ARITH next (r_base nx);
                do e <- chk_add p 64 PANIC_ARITH noff missing;
                do c <- slice_range (r_bytes nx) noff e;
                Ret (Some (b ++ c))
            end
        end
  end.

(* ------------------------------------------------------------------ inline levels of one frame *)
(* an INLINE record range: nesting depth (u32 from the file), address, size, origin *)
Record inlinee := { i_depth : Z; i_addr : Z; i_size : Z; i_origin : Z }.

(* Function::get_inlinee_at_depth, as a specification-level search: a record of exactly that depth covering addr.
   (The binary search of the real code, and that it agrees with a linear scan, is C11's model and theorem.) *)
Definition covers (r : inlinee) (depth addr : Z) : bool :=
  (i_depth r =? depth) && (i_addr r <=? addr) &&
  match checked_add 64 (i_addr r) (i_size r) with Some e => addr <? e | None => false end.
Definition look_linear (recs : list inlinee) (addr depth : Z) : option inlinee :=
  find (fun r => covers r depth addr) recs.

(* `for depth in 1.. { match func.get_inlinee_at_depth(depth, addr) { Some(..) => .., None => break } }`
   RangeFrom<u32>::next computes depth + 1 before it yields depth (Step::forward: traps in a debug build). *)
Fixpoint inline_loop (p : profile) (fuel : nat) (look : Z -> option inlinee) (depth : Z) (acc : list inlinee)
  : outcome (list inlinee) :=
  match fuel with
  | O => OutOfFuel
  | S f =>
      do next <- chk_add p 32 PANIC_ARITH depth 1;
      match look depth with
      | Some r => inline_loop p f look next (r :: acc)
      | None => Ret (rev acc)
      end
  end.

(* the seeded variant (seeded/C03-3): `for depth in 1..=max_depth` where max_depth is the largest depth any INLINE
   record of the function carries; a level without a covering record is skipped *)
Fixpoint inline_loop_maxdepth (fuel : nat) (look : Z -> option inlinee) (max_depth depth : Z) (acc : list inlinee)
  : outcome (list inlinee) :=
  match fuel with
  | O => OutOfFuel
  | S f =>
      if max_depth <? depth then Ret (rev acc)
      else match look depth with
           | Some r => inline_loop_maxdepth f look max_depth (depth + 1) (r :: acc)
           | None => inline_loop_maxdepth f look max_depth (depth + 1) acc
           end
  end.
Definition max_depth_of (recs : list inlinee) : Z := fold_left (fun a r => Z.max a (i_depth r)) recs 0.

(* ------------------------------------------------------------------ walk_stack over an arbitrary caller function *)
(* the loop of minidump-unwind/src/lib.rs walk_stack (756-830) with get_caller_frame abstracted: the context frame,
   then callers while get_caller_frame returns Some.  For PPC / PPC64 / SPARC / unknown contexts the dispatch
   (lib.rs 666-679) is the `_ => None` arm. *)
Fixpoint walk_any {F} (fuel : nat) (get_caller : F -> option F) (cur : F) : outcome (list F) :=
  match fuel with
  | O => OutOfFuel
  | S f => match get_caller cur with
           | None => Ret [cur]
           | Some c => do r <- walk_any f get_caller c; Ret (cur :: r)
           end
  end.
Inductive cpu_kind := CpuX86 | CpuAmd64 | CpuArm | CpuArm64 | CpuArm64Old | CpuMips | CpuPpc | CpuPpc64 | CpuSparc | CpuUnknown.
Definition has_unwinder (c : cpu_kind) : bool :=
  match c with CpuPpc | CpuPpc64 | CpuSparc | CpuUnknown => false | _ => true end.
Definition get_caller_dispatch {F} (c : cpu_kind) (arch_walker : F -> option F) : F -> option F :=
  if has_unwinder c then arch_walker else fun _ => None.

(* ------------------------------------------------------------------ reading a u64 out of the memory list *)
(* InstructionPointerUpdate::from_instruction (op_analysis.rs 635-646), jmp/call through memory:
   memory_list.memory_at_address(a).and_then(|mem| mem.get_memory_at_address::<u64>(a));
   get_memory_at_address (minidump.rs 2072): addr.checked_sub(base)? as usize, then scroll pread_with::<u64>, which
   fails unless 8 bytes are left in THIS region's slice.  Little endian. *)
Fixpoint le_value (l : list Z) : Z := match l with [] => 0 | b :: t => b + 256 * le_value t end.
Definition region_read_u64 (m : region) (addr : Z) : option Z :=
  match checked_sub addr (r_base m) with
  | None => None
  | Some start =>
      if start + 8 <=? Z.of_nat (length (r_bytes m))
      then Some (le_value (firstn 8 (skipn (Z.to_nat start) (r_bytes m))))
      else None
  end.
Definition read_u64_at (rs : list region) (addr : Z) : option Z :=
  match memory_at rs addr with
  | None => None
  | Some m => region_read_u64 m addr
  end.
