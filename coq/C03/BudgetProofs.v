(* C03/BudgetProofs.v — round 5, second pass: the frames of the whole ProcessState against the LENGTH OF THE FILE.
   (1) quadratic budget: for every file-backed input, 48 x frames <= |file| x (|file| + 2);
   (2) no linear budget: for every c there is a dump whose processing yields more than c x |file| frames (thread-list
       entries citing the same stack bytes): the quadratic budget is tight up to a constant. *)
From Coq Require Import Lia ZArith List Bool.
From RM Require Import C08.Model C08.Proofs C03.Model C03.Proofs C03.FetchModel C03.FetchProofs C03.ProcessModel C03.ProcessProofs
  C03.BudgetModel.
From RM Require C05.Model C05.Proofs.
Import ListNotations.
Open Scope Z_scope.

(* what the readers establish about a file-backed input: bytes are bytes, start_of_memory_range is a u64 (>= 0 is all that is
   used), decoded contexts hold values of the slot width, the unloaded-module list is what its reader keeps *)
Definition file_ok (a : M5.arch) (fi : file_input) : Prop :=
  Forall (fun b => 0 <= b < 256) (fi_file fi) /\
  (forall d, In d (fi_memory fi) -> 0 <= d_start d) /\
  (forall t, In t (fi_threads fi) -> 0 <= d_start (rt_stack t) /\ ctx_ok a (rt_ctx t)) /\
  ctx_ok a (fi_exc_ctx fi) /\ wf_mods (fi_unloaded fi).

(* the two list streams lie inside the file *)
Definition streams_in_file (fi : file_input) : Prop :=
  THREAD_ENTRY_BYTES * Z.of_nat (length (fi_threads fi)) <= Z.of_nat (file_size fi) /\
  MEMORY_ENTRY_BYTES * Z.of_nat (length (fi_memory fi)) <= Z.of_nat (file_size fi).

Lemma read_desc_spec file d m :
  read_desc file d = Some m ->
  r_base m = d_start d /\ r_size m = d_size d /\ 0 < d_size d /\ 0 < d_rva d /\
  d_rva d + d_size d <= Z.of_nat (length file) /\
  r_bytes m = firstn (Z.to_nat (d_size d)) (skipn (Z.to_nat (d_rva d)) file).
Proof.
  unfold read_desc. destruct ((d_rva d =? 0) || (d_size d =? 0)); [discriminate|].
  destruct ((0 <? d_rva d) && (0 <? d_size d) && (d_rva d + d_size d <=? Z.of_nat (length file))) eqn:E; [|discriminate].
  apply andb_prop in E. destruct E as [E E3]. apply andb_prop in E. destruct E as [E1 E2].
  apply Z.ltb_lt in E1, E2. apply Z.leb_le in E3.
  intros H. inversion H; subst m; cbn. repeat split; try assumption; try lia.
Qed.

Lemma read_desc_len file d m : read_desc file d = Some m -> length (r_bytes m) = Z.to_nat (d_size d) /\ (length (r_bytes m) <= length file)%nat.
Proof.
  intros H. destruct (read_desc_spec _ _ _ H) as [_ [_ [Hs [Hr [Hle Hb]]]]]. rewrite Hb.
  rewrite firstn_length, skipn_length. split; lia.
Qed.

Lemma read_desc_ok file d m :
  Forall (fun b => 0 <= b < 256) file -> 0 <= d_start d -> read_desc file d = Some m -> region_ok m.
Proof.
  intros Hf Hs H. pose proof (read_desc_len _ _ _ H) as [Hl _].
  destruct (read_desc_spec _ _ _ H) as [Hb [Hsz [Hp [_ [_ Hbytes]]]]].
  split.
  - unfold wf_region. rewrite Hb, Hsz, Hl. lia.
  - rewrite Hbytes. apply P5.Forall_firstn, P5.Forall_skipn. exact Hf.
Qed.

Lemma in_keep_some {A} (l : list (option A)) x : In x (keep_some l) <-> In (Some x) l.
Proof.
  induction l as [|[y|] t IH]; cbn; [tauto| |].
  - rewrite IH. split; intros [H|H]; auto; [left; congruence|left; congruence].
  - rewrite IH. split; [auto|intros [H|H]; [discriminate|exact H]].
Qed.

Lemma to_proc_in_ok a fi : file_ok a fi -> input_ok a (to_proc_in fi).
Proof.
  intros [Hf [Hm [Ht [He Hu]]]]. unfold input_ok, to_proc_in; cbn [pi_memory pi_threads pi_exc_ctx pi_unloaded].
  split; [|split; [|split; assumption]].
  - intros m H. apply in_keep_some in H. apply in_map_iff in H. destruct H as [d [E Hd]].
    exact (read_desc_ok _ _ _ Hf (Hm d Hd) E).
  - intros t H. apply in_map_iff in H. destruct H as [rt [E Hrt]]. subst t. cbn [to_thread th_ctx th_stack]. split.
    + exact (proj2 (Ht rt Hrt)).
    + intros m Em. exact (read_desc_ok _ _ _ Hf (proj1 (Ht rt Hrt)) Em).
Qed.

Lemma list_max_le_all l B : (forall x, In x l -> (x <= B)%nat) -> (list_max l <= B)%nat.
Proof. intros H. apply list_max_le. apply Forall_forall. exact H. Qed.

(* no region a thread can be walked on is longer than the file *)
Lemma max_region_le_file fi : (max_region_bytes (to_proc_in fi) <= file_size fi)%nat.
Proof.
  unfold max_region_bytes. apply list_max_le_all. intros x Hx. apply in_map_iff in Hx. destruct Hx as [m [E Hm]]. subst x.
  apply in_app_or in Hm. destruct Hm as [Hm|Hm].
  - cbn in Hm. apply in_keep_some in Hm. apply in_map_iff in Hm. destruct Hm as [d [Ed _]].
    exact (proj2 (read_desc_len _ _ _ Ed)).
  - unfold own_stacks in Hm. apply in_flat_map in Hm. destruct Hm as [t [Ht Hm]]. cbn in Ht.
    apply in_map_iff in Ht. destruct Ht as [rt [E _]]. subst t. cbn in Hm.
    destruct (read_desc (fi_file fi) (rt_stack rt)) as [s|] eqn:Ed; [|destruct Hm].
    destruct Hm as [Hm|[]]. subst s. exact (proj2 (read_desc_len _ _ _ Ed)).
Qed.

(* (1) the budget tied to the input size: quadratic in the length of the file *)
Lemma frames_quadratic_in_file p cpu a os module_at mma cfi_walk iv fi :
  P5.arch_ok a -> file_ok a fi -> streams_in_file fi -> cfi_contract a cfi_walk ->
  exists outs req, process_threads p cpu a os module_at mma cfi_walk iv (to_proc_in fi) = Ret (outs, req) /\
    (total_frames outs <= length (fi_threads fi) * (file_size fi + 2))%nat /\
    48 * Z.of_nat (total_frames outs) <= Z.of_nat (file_size fi) * (Z.of_nat (file_size fi) + 2).
Proof.
  intros Ha Hok [Hs _] Hcfi.
  destruct (process_total_frames p cpu a os module_at mma cfi_walk iv (to_proc_in fi) Ha (to_proc_in_ok a fi Hok) Hcfi)
    as [outs [req [E Hle]]].
  exists outs, req. split; [exact E|].
  pose proof (max_region_le_file fi) as Hmax.
  assert (Hlen : length (pi_threads (to_proc_in fi)) = length (fi_threads fi)) by (cbn; apply map_length).
  rewrite Hlen in Hle.
  assert (H1 : (total_frames outs <= length (fi_threads fi) * (file_size fi + 2))%nat) by nia.
  split; [exact H1|]. unfold THREAD_ENTRY_BYTES in Hs. nia.
Qed.

(* ------------------------------------------------------------------ (2) no budget linear in the length of the file *)
(* the walker (C05's model, amd64, the code as it is now) on [m] zero bytes at 65536 with the one-byte CFI rule of
   BudgetModel.share_cfi: one frame per stack byte *)
Definition sh_mem (m : nat) : M5.memory := {| M5.m_base := share_stack_start; M5.m_bytes := repeat 0 m |}.
Definition sh_valid : list Z := [RM.Gen.UnwindConsts.amd64_sp_name; RM.Gen.UnwindConsts.amd64_ip_name].
Definition sh_regs (sp : Z) : M5.regs := {| M5.r_ip := 8192; M5.r_sp := sp; M5.r_fp := 0; M5.r_lr := 0; M5.r_gp := [] |}.
Definition sh_frame (sp : Z) : M5.frame := M5.set_instr (M5.from_context (sh_regs sp) (M5.VSome sh_valid) M5.TCfi) 8191.
Definition sh_modules (_ : Z) : option Z := Some 0.
Definition sh_iv (_ : Z) : bool := false.

Lemma sh_step p m sp gc : 0 <= sp -> sp + 1 < two64 ->
  M5.get_caller_frame M5.current_code p M5.amd64 0 (sh_mem m) sh_modules 0 (share_cfi (sh_mem m)) sh_iv (sh_frame sp) gc
  = Ret (Some (sh_frame (sp + 1))).
Proof.
  intros H0 H1. unfold M5.get_caller_frame, M5.cascade, M5.by_cfi. cbn.
  rewrite (Z.mod_small (sp + 1) two64) by lia.
  unfold M5.sp_progress, M5.cfi_post. cbn.
  destruct (sp + 1 <=? sp) eqn:E; [apply Z.leb_le in E; lia|]. cbn. reflexivity.
Qed.

Lemma sh_in_stack m sp : share_stack_start <= sp < share_stack_start + Z.of_nat m ->
  M5.sp_in_stack (sh_mem m) (sh_frame sp) = true.
Proof.
  intros H. unfold M5.sp_in_stack.
  destruct (proj2 (P5.read_is_some_iff1 (sh_mem m) (M5.r_sp (M5.f_regs (sh_frame sp))))) as [v Hv].
  - unfold M5.mem_len. cbn. rewrite repeat_length. lia.
  - rewrite Hv. reflexivity.
Qed.

Lemma sh_out_of_stack m sp : sp = share_stack_start + Z.of_nat m -> M5.sp_in_stack (sh_mem m) (sh_frame sp) = false.
Proof.
  intros H. unfold M5.sp_in_stack. destruct (M5.read (sh_mem m) 1 (M5.r_sp (M5.f_regs (sh_frame sp)))) as [v|] eqn:E; [|reflexivity].
  apply P5.read_some in E. unfold M5.mem_len in E. cbn in E. rewrite repeat_length in E. lia.
Qed.

Lemma sh_walk p m : forall k fuel sp gc,
  sp = share_stack_start + Z.of_nat m - Z.of_nat k -> (k <= m)%nat -> (k < fuel)%nat -> Z.of_nat m < 4294967296 ->
  exists l, M5.walk M5.current_code p M5.amd64 0 (sh_mem m) sh_modules 0 (share_cfi (sh_mem m)) sh_iv fuel (sh_frame sp) gc = Ret l /\
            length l = k.
Proof.
  induction k as [|k IH]; intros fuel sp gc Hsp Hk Hf Hm; (destruct fuel as [|fuel]; [lia|]); cbn [M5.walk].
  - unfold M5.stop_here. rewrite sh_out_of_stack by lia. cbn. eexists; split; reflexivity.
  - unfold M5.stop_here. rewrite sh_in_stack by (unfold share_stack_start in *; lia). cbn [M5.fx_sp_guard M5.current_code negb andb M5.is_context sh_frame M5.set_instr M5.from_context M5.f_trust].
    rewrite sh_step by (unfold share_stack_start, two64 in *; lia). cbn [obind].
    destruct (IH fuel (sp + 1) (Some (sh_frame sp))) as [l [El Hl]]; try lia.
    rewrite El. cbn [obind]. eexists; split; [reflexivity|cbn; lia].
Qed.

Lemma sh_step_ctx p m gc :
  M5.get_caller_frame M5.current_code p M5.amd64 0 (sh_mem m) sh_modules 0 (share_cfi (sh_mem m)) sh_iv
    (M5.from_context (sh_regs share_stack_start) M5.VAll M5.TContext) gc
  = Ret (Some (sh_frame (share_stack_start + 1))).
Proof.
  unfold M5.get_caller_frame, M5.cascade, M5.by_cfi. cbn. reflexivity.
Qed.

Lemma sh_walk_stack p m : (1 <= m)%nat -> Z.of_nat m < 4294967296 ->
  exists fs, M5.walk_stack M5.current_code p M5.amd64 0 (sh_mem m) sh_modules 0 (share_cfi (sh_mem m)) sh_iv
               (M5.fuel_for (sh_mem m)) (sh_regs share_stack_start) M5.VAll = Ret fs /\
             length fs = S m /\ Forall (fun f => sh_modules (M5.f_instr f) <> None) fs.
Proof.
  intros H1 H2. unfold M5.walk_stack.
  assert (Hok : M5.mem_ok (sh_mem m) = true).
  { unfold M5.mem_ok, M5.mem_len. cbn [M5.m_bytes M5.m_base sh_mem]. rewrite repeat_length.
    destruct (Z.of_nat m =? 0) eqn:E; [apply Z.eqb_eq in E; lia|]. cbn [negb andb].
    apply Z.ltb_lt. change two64 with 18446744073709551616. unfold share_stack_start. lia. }
  rewrite Hok. unfold M5.fuel_for. cbn [M5.m_bytes sh_mem]. rewrite repeat_length.
  replace (m + 3)%nat with (S (m + 2)) by lia. cbn [M5.walk].
  unfold M5.stop_here. cbn [M5.is_context M5.f_trust M5.from_context negb andb].
  rewrite Bool.andb_false_r. cbn [andb]. rewrite sh_step_ctx. cbn [obind].
  destruct (sh_walk p m (m - 1) (m + 2) (share_stack_start + 1)
              (Some (M5.from_context (sh_regs share_stack_start) M5.VAll M5.TContext))) as [l [El Hl]]; try lia.
  rewrite El. cbn [obind]. eexists. split; [reflexivity|]. split; [cbn; lia|].
  apply Forall_forall. intros f _. unfold sh_modules. discriminate.
Qed.

(* ---- the thread loop on [share_input m] *)
Lemma skipn_repeat {A} (x : A) : forall a n, skipn a (repeat x n) = repeat x (n - a).
Proof.
  induction a as [|a IH]; intros n; [rewrite Nat.sub_0_r; reflexivity|].
  destruct n as [|n]; [reflexivity|]. cbn [repeat skipn]. rewrite IH. reflexivity.
Qed.
Lemma firstn_repeat' {A} (x : A) : forall b n, (b <= n)%nat -> firstn b (repeat x n) = repeat x b.
Proof.
  induction b as [|b IH]; intros n H; [reflexivity|].
  destruct n as [|n]; [lia|]. cbn [repeat firstn]. rewrite IH by lia. reflexivity.
Qed.

Lemma map_repeat' {A B} (f : A -> B) x : forall n, map f (repeat x n) = repeat (f x) n.
Proof. induction n as [|n IH]; [reflexivity|]. cbn [repeat map]. rewrite IH. reflexivity. Qed.

Definition sh_region (m : nat) : region := {| r_base := share_stack_start; r_size := Z.of_nat m; r_bytes := repeat 0 m |}.

Lemma share_read_desc m : (1 <= m)%nat -> read_desc (fi_file (share_input m)) (share_desc m) = Some (sh_region m).
Proof.
  intros H. unfold read_desc, share_desc, share_input. cbn [d_rva d_size d_start fi_file].
  rewrite repeat_length.
  destruct (2048 + 48 * Z.of_nat m =? 0) eqn:E1; [apply Z.eqb_eq in E1; lia|].
  destruct (Z.of_nat m =? 0) eqn:E2; [apply Z.eqb_eq in E2; lia|]. cbn [orb].
  destruct (0 <? 2048 + 48 * Z.of_nat m) eqn:E3; [|apply Z.ltb_ge in E3; lia].
  destruct (0 <? Z.of_nat m) eqn:E4; [|apply Z.ltb_ge in E4; lia].
  destruct (2048 + 48 * Z.of_nat m + Z.of_nat m <=? Z.of_nat (2048 + 48 * m + m)) eqn:E5; [|apply Z.leb_gt in E5; lia].
  cbn [andb]. unfold sh_region. f_equal. f_equal.
  rewrite skipn_repeat, firstn_repeat'; [rewrite Nat2Z.id; reflexivity|lia].
Qed.

Definition share_thread (m : nat) : thread_in :=
  {| th_id := 1; th_ctx := Some share_ctx; th_stack := Some (sh_region m); th_stack_start := share_stack_start |}.

Lemma share_proc_in m : (1 <= m)%nat ->
  to_proc_in (share_input m) =
  {| pi_threads := repeat (share_thread m) m; pi_dump_tid := None; pi_crash_tid := None; pi_req_tid := None;
     pi_exc_ctx := None; pi_memory := [sh_region m]; pi_unloaded := [] |}.
Proof.
  intros H. unfold to_proc_in. cbn [fi_threads fi_memory share_input fi_dump_tid fi_crash_tid fi_req_tid fi_exc_ctx fi_unloaded map].
  change (fi_file (share_input m)) with (repeat 0 (2048 + 48 * m + m)).
  pose proof (share_read_desc m H) as R. change (fi_file (share_input m)) with (repeat 0 (2048 + 48 * m + m)) in R.
  rewrite R. cbn [keep_some]. f_equal.
  rewrite map_repeat'. unfold to_thread. cbn [rt_id rt_ctx rt_stack]. rewrite R. reflexivity.
Qed.

Lemma collect_no_unloaded p module_at unl fs :
  Forall (fun f => module_at (M5.f_instr f) <> None) fs ->
  collect (map (frame_unloaded p module_at unl) fs) = Ret (map (fun _ => []) fs).
Proof.
  induction 1 as [|f t Hf _ IH]; [reflexivity|]. cbn [map collect]. unfold frame_unloaded at 1.
  destruct (module_at (M5.f_instr f)); [|congruence]. cbn [obind]. rewrite IH. reflexivity.
Qed.

Lemma share_process_thread p pi m :
  (8 <= m)%nat -> Z.of_nat m < 4294967296 ->
  pi_dump_tid pi = None -> pi_crash_tid pi = None -> pi_req_tid pi = None -> pi_memory pi = [sh_region m] ->
  exists o, process_thread p CpuAmd64 M5.amd64 0 sh_modules 0 share_cfi sh_iv pi (share_thread m) = Ret o /\
            length (o_frames o) = S m.
Proof.
  intros H8 H32 Hd Hc Hr Hm. unfold process_thread.
  assert (E0 : initial_stack pi (share_thread m) =
               {| s0_info := InfoOk; s0_ctx := Some share_ctx; s0_req := false |}).
  { unfold initial_stack. rewrite Hd, Hc, Hr. reflexivity. }
  rewrite E0. cbn [s0_ctx s0_info].
  assert (E1 : choose_stack_memory (pi_memory pi) (share_thread m) (Some share_ctx) = Some (sh_region m)).
  { unfold choose_stack_memory, thread_stack_memory, share_ctx. cbn [th_stack share_thread opt_or M5.r_sp].
    unfold region_reads, checked_sub, STACK_PROBE_BYTES. cbn [r_base r_bytes sh_region]. rewrite repeat_length.
    rewrite Z.sub_diag. cbn [Z.leb Z.compare].
    destruct (0 + 8 <=? Z.of_nat m) eqn:E; [reflexivity|apply Z.leb_gt in E; lia]. }
  rewrite E1. unfold walk_thread, share_ctx.
  assert (E2 : walk_memory (Some (sh_region m)) = Some (sh_region m)).
  { unfold walk_memory, region_range_ok. cbn [r_size r_base sh_region].
    destruct (Z.of_nat m =? 0) eqn:E; [apply Z.eqb_eq in E; lia|]. cbn [negb andb].
    destruct (share_stack_start + Z.of_nat m <? two64) eqn:E'; [reflexivity|].
    apply Z.ltb_ge in E'. change two64 with 18446744073709551616 in E'. unfold share_stack_start in E'. lia. }
  rewrite E2. change (has_unwinder CpuAmd64) with true. cbn iota.
  change (to_mem (sh_region m)) with (sh_mem m).
  destruct (sh_walk_stack p m) as [fs [Efs [Hlen Hmods]]]; [lia|lia|].
  change {| M5.r_ip := 8192; M5.r_sp := share_stack_start; M5.r_fp := 0; M5.r_lr := 0; M5.r_gp := [] |}
    with (sh_regs share_stack_start).
  rewrite Efs. cbn [obind]. rewrite (collect_no_unloaded p sh_modules (pi_unloaded pi) fs Hmods). cbn [obind].
  eexists. split; [reflexivity|exact Hlen].
Qed.

Lemma collect_repeat {A B} (f : A -> outcome B) x y : f x = Ret y -> forall n, collect (map f (repeat x n)) = Ret (repeat y n).
Proof. intros H. induction n as [|n IH]; [reflexivity|]. cbn [repeat map collect]. rewrite H. cbn [obind]. rewrite IH. reflexivity. Qed.

Lemma total_frames_repeat o : forall n, total_frames (repeat o n) = (n * length (o_frames o))%nat.
Proof. induction n as [|n IH]; [reflexivity|]. cbn [repeat total_frames fold_right]. fold (total_frames (repeat o n)). lia. Qed.

(* [m] threads x ([m] + 1) frames out of a file of 2048 + 49 [m] bytes *)
Lemma share_frames p m : (8 <= m)%nat -> Z.of_nat m < 4294967296 ->
  exists outs req, process_threads p CpuAmd64 M5.amd64 0 sh_modules 0 share_cfi sh_iv (to_proc_in (share_input m)) = Ret (outs, req) /\
    total_frames outs = (m * (m + 1))%nat /\ file_size (share_input m) = (2048 + 49 * m)%nat.
Proof.
  intros H8 H32. rewrite share_proc_in by lia. unfold process_threads. cbn [pi_threads].
  set (pi := {| pi_threads := repeat (share_thread m) m; pi_dump_tid := None; pi_crash_tid := None; pi_req_tid := None;
                pi_exc_ctx := None; pi_memory := [sh_region m]; pi_unloaded := [] |}).
  destruct (share_process_thread p pi m H8 H32 eq_refl eq_refl eq_refl eq_refl) as [o [Eo Ho]].
  rewrite (collect_repeat _ _ _ Eo). cbn [obind]. eexists; eexists. split; [reflexivity|]. split.
  - rewrite total_frames_repeat, Ho. lia.
  - unfold file_size. cbn [fi_file share_input]. rewrite repeat_length. lia.
Qed.

Lemma share_file_ok m : file_ok M5.amd64 (share_input m) /\ streams_in_file (share_input m) /\ cfi_contract M5.amd64 share_cfi.
Proof.
  split; [|split].
  - unfold file_ok. cbn [fi_file fi_memory fi_threads fi_exc_ctx fi_unloaded share_input]. split; [|split; [|split; [|split]]].
    + apply Forall_forall. intros x Hx. apply repeat_spec in Hx. subst. lia.
    + intros d [Hd|[]]. subst d. cbn. unfold share_stack_start. lia.
    + intros t Ht. apply repeat_spec in Ht. subst t. cbn [rt_stack rt_ctx share_desc d_start]. split; [unfold share_stack_start; lia|].
      intros r v E. inversion E; subst. unfold P5.regs_wf, P5.in_slot. cbn. unfold share_stack_start. lia.
    + intros r v E. discriminate.
    + intros b [].    
  - unfold streams_in_file, file_size, THREAD_ENTRY_BYTES, MEMORY_ENTRY_BYTES.
    cbn [fi_file fi_threads fi_memory share_input length]. rewrite !repeat_length. lia.
  - intros mem callee gc fwd r v E. unfold share_cfi in E. inversion E; subst. unfold P5.regs_wf, P5.in_slot. cbn.
    pose proof (Z.mod_pos_bound (M5.r_sp (M5.f_regs callee) + 1) two64 ltac:(unfold two64; lia)) as Hb.
    change (2 ^ 64) with two64. unfold two64 in *. lia.
Qed.

(* for every factor c (up to 2^20 frames per input byte) there is a dump shorter than 2^32 bytes, well-formed for every reader,
   whose processing yields more than c x |file| frames: no budget linear in the input size holds for the number of frames *)
Lemma linear_frame_budget_refuted p (c : nat) : Z.of_nat c < 1048576 ->
  exists fi outs req,
    file_ok M5.amd64 fi /\ streams_in_file fi /\ cfi_contract M5.amd64 share_cfi /\ Z.of_nat (file_size fi) < 4294967296 /\
    process_threads p CpuAmd64 M5.amd64 0 sh_modules 0 share_cfi sh_iv (to_proc_in fi) = Ret (outs, req) /\
    Z.of_nat c * Z.of_nat (file_size fi) < Z.of_nat (total_frames outs).
Proof.
  intros Hc. set (m := (49 * c + 2056)%nat).
  assert (Hm : Z.of_nat m = 49 * Z.of_nat c + 2056) by (unfold m; lia).
  destruct (share_frames p m) as [outs [req [E [Ht Hs]]]]; [unfold m; lia|lia|].
  destruct (share_file_ok m) as [H1 [H2 H3]].
  exists (share_input m), outs, req. repeat (split; [assumption|]).
  assert (Hs' : Z.of_nat (file_size (share_input m)) = 2048 + 49 * Z.of_nat m) by (rewrite Hs; lia).
  assert (Ht' : Z.of_nat (total_frames outs) = Z.of_nat m * (Z.of_nat m + 1)) by (rewrite Ht; lia).
  split; [lia|]. split; [exact E|]. rewrite Hs', Ht', Hm. nia.
Qed.
