(* C03/RenderProofs.v — round 5, second pass: "the resulting state can always be written as full text, brief text and JSON":
   the printers' control flow (C03/RenderModel.v) returns for every state whose frames satisfy [frame_ok] (C08 / C11 lookup
   facts), whose requesting_thread is an index of the thread list and whose module tables passed the readers' filter. *)
From Coq Require Import Lia ZArith List Bool.
From RM Require Import C08.Model C08.Proofs C03.Model C03.Proofs C03.FetchModel C03.ProcessModel C03.ProcessProofs C03.RenderModel.
Import ListNotations.
Open Scope Z_scope.

(* lines written by CallStack::print for one stack: one per inline and one per real frame *)
Definition stack_lines (fs : list rframe) : nat := fold_right (fun f n => (rf_inlines f + 1 + n)%nat) 0%nat fs.

Definition mods_ok (mods : list (Z * Z)) : Prop :=
  forall m, In m mods -> 0 <= fst m /\ 0 <= snd m /\ module_read_ok (fst m) (snd m) = true.

Definition state_ok (st : rstate) : Prop :=
  (forall s f, In s (st_threads st) -> In f (rs_frames s) -> frame_ok (rf_frame f)) /\
  (* the frame numbers are usize values: a Vec cannot hold 2^64 elements *)
  (forall s, In s (st_threads st) -> Z.of_nat (stack_lines (rs_frames s)) < two64) /\
  (forall i, st_requesting st = Some i -> (i < length (st_threads st))%nat) /\
  mods_ok (st_modules st) /\ mods_ok (st_unloaded st).

Lemma add1_ok p c : 0 <= c -> c + 1 < two64 -> chk_add p 64 PANIC_ARITH c 1 = Ret (c + 1).
Proof. intros H0 H1. unfold chk_add. apply chk_in_range. rewrite pow64. lia. Qed.

Lemma print_inlines_total p : forall n c, 0 <= c -> c + Z.of_nat n < two64 ->
  exists l, print_inlines p n c = Ret (l, c + Z.of_nat n) /\ length l = n.
Proof.
  induction n as [|n IH]; intros c H0 H1; cbn [print_inlines].
  - exists []. rewrite Z.add_0_r. split; reflexivity.
  - rewrite add1_ok by lia. cbn [obind].
    destruct (IH (c + 1)) as [l [E Hl]]; [lia|lia|]. rewrite E. cbn [obind fst snd].
    eexists. split; [f_equal; f_equal; lia|cbn; lia].
Qed.

Lemma print_frames_total p : forall fs c, 0 <= c -> c + Z.of_nat (stack_lines fs) < two64 ->
  (forall f, In f fs -> frame_ok (rf_frame f)) ->
  exists l, print_frames p fs c = Ret l /\ length l = stack_lines fs.
Proof.
  induction fs as [|f t IH]; intros c H0 H1 Hok; cbn [print_frames].
  - exists []. split; reflexivity.
  - cbn [stack_lines fold_right] in H1. fold (stack_lines t) in H1.
    destruct (print_inlines_total p (rf_inlines f) c) as [li [Ei Hli]]; [lia|lia|].
    rewrite Ei. cbn [obind fst snd]. rewrite add1_ok by lia. cbn [obind].
    destruct (proj1 (render_frame_total p (rf_frame f) (Hok f (or_introl eq_refl)))) as [off Eo]. rewrite Eo. cbn [obind].
    destruct (IH (c + Z.of_nat (rf_inlines f) + 1)) as [lr [Er Hlr]]; [lia|lia|intros g Hg; apply Hok; right; exact Hg|].
    rewrite Er. cbn [obind]. eexists. split; [reflexivity|].
    rewrite app_length. cbn [length stack_lines fold_right]. fold (stack_lines t). lia.
Qed.

Lemma call_stack_print_total p s :
  Z.of_nat (stack_lines (rs_frames s)) < two64 -> (forall f, In f (rs_frames s) -> frame_ok (rf_frame f)) ->
  exists l, call_stack_print p s = Ret l /\
            (rs_frames s = [] -> l = [INoFrames]) /\ (rs_frames s <> [] -> length l = stack_lines (rs_frames s)).
Proof.
  intros H1 Hok. unfold call_stack_print.
  destruct (print_frames_total p (rs_frames s) 0) as [l [E Hl]]; [lia|lia|exact Hok|].
  rewrite E. cbn [obind]. eexists. split; [reflexivity|]. split.
  - intros Hn. rewrite Hn in *. cbn in Hl. destruct l; [reflexivity|discriminate].
  - intros Hn. destruct (rs_frames s); [congruence|]. exact Hl.
Qed.

Lemma print_other_threads_total p req : forall ts i,
  (forall s, In s ts -> Z.of_nat (stack_lines (rs_frames s)) < two64 /\ forall f, In f (rs_frames s) -> frame_ok (rf_frame f)) ->
  exists l, print_other_threads p req ts i = Ret l.
Proof.
  induction ts as [|s t IH]; intros i H; cbn [print_other_threads]; [eexists; reflexivity|].
  destruct (IH (S i)) as [rest Er]; [intros x Hx; apply H; right; exact Hx|]. rewrite Er. cbn [obind].
  destruct (eq_some req i); [eexists; reflexivity|]. destruct (is_skipped s); [eexists; reflexivity|].
  destruct (H s (or_introl eq_refl)) as [H1 H2].
  destruct (call_stack_print_total p s H1 H2) as [body [Eb _]]. rewrite Eb. cbn [obind]. eexists; reflexivity.
Qed.

Lemma collect_total {A B} (f : A -> outcome B) l : (forall x, In x l -> exists y, f x = Ret y) ->
  exists r, collect (map f l) = Ret r /\ length r = length l.
Proof.
  intros H. destruct (collect_map_spec f (fun _ _ => True) l) as [r [E F]].
  - intros x Hx. destruct (H x Hx) as [y Ey]. exists y. split; [exact Ey|exact I].
  - exists r. split; [exact E|]. exact (Forall2_length' _ _ _ F).
Qed.

Lemma module_tables_total p mk mods : mods_ok mods ->
  (exists l, print_module_table p mk mods = Ret l /\ length l = length mods) /\
  (exists l, json_module_table p mk mods = Ret l /\ length l = length mods).
Proof.
  intros H. split; apply collect_total; intros m Hm; destruct (H m Hm) as [H0 [H1 H2]];
    destruct (module_ends_ok p (fst m) (snd m) H0 H1 H2) as [Ej Et].
  - rewrite Et. cbn [obind]. eexists; reflexivity.
  - rewrite Ej. cbn [obind]. eexists; reflexivity.
Qed.

Lemma json_frames_total p : forall fs i, (forall f, In f fs -> frame_ok (rf_frame f)) ->
  exists l, json_frames p fs i = Ret l /\ length l = length fs.
Proof.
  induction fs as [|f t IH]; intros i H; cbn [json_frames]; [exists []; split; reflexivity|].
  destruct (proj2 (render_frame_total p (rf_frame f) (H f (or_introl eq_refl)))) as [o Eo]. rewrite Eo. cbn [obind].
  destruct (IH (S i)) as [r [Er Hr]]; [intros g Hg; apply H; right; exact Hg|]. rewrite Er. cbn [obind].
  eexists. split; [reflexivity|cbn; lia].
Qed.

Lemma json_threads_total p ts : (forall s f, In s ts -> In f (rs_frames s) -> frame_ok (rf_frame f)) ->
  exists l, json_threads p ts = Ret l /\ Forall2 (fun s jt => length jt = length (rs_frames s)) ts l.
Proof.
  intros H. unfold json_threads. apply collect_map_spec. intros s Hs.
  destruct (json_frames_total p (rs_frames s) 0 (fun f Hf => H s f Hs Hf)) as [l [E Hl]]. exists l. split; assumption.
Qed.

Lemma idx_in_bounds {A} (l : list A) i : (i < length l)%nat -> exists x, idx l i = Ret x /\ nth_error l i = Some x.
Proof.
  intros H. unfold idx. destruct (nth_error l i) as [x|] eqn:E; [exists x; split; reflexivity|].
  apply nth_error_None in E. lia.
Qed.

Lemma Forall2_nth {A B} (P : A -> B -> Prop) l r i x : Forall2 P l r -> nth_error l i = Some x ->
  exists y, nth_error r i = Some y /\ P x y.
Proof.
  intros F. revert i. induction F; intros i E; destruct i; cbn in *; try discriminate.
  - inversion E; subst. eexists; split; [reflexivity|assumption].
  - apply IHF. exact E.
Qed.

Lemma json_crashing_total st jt :
  (forall i, st_requesting st = Some i -> (i < length (st_threads st))%nat) ->
  Forall2 (fun s j => length j = length (rs_frames s)) (st_threads st) jt ->
  exists l, json_crashing st jt = Ret l.
Proof.
  intros Hreq F. unfold json_crashing. destruct (st_requesting st) as [i|]; [|eexists; reflexivity].
  destruct (idx_in_bounds (st_threads st) i (Hreq i eq_refl)) as [s [Es Hn]]. rewrite Es. cbn [obind].
  destruct (rs_frames s) as [|f0 t] eqn:Ef; [eexists; reflexivity|].
  destruct (Forall2_nth _ _ _ _ _ F Hn) as [j [Ej Hj]]. unfold idx at 1. rewrite Ej. cbn [obind].
  rewrite Ef in Hj. destruct j as [|j0 jr]; [discriminate|]. cbn. eexists; reflexivity.
Qed.

(* every one of the three printers returns: no index out of bounds, no overflow trap, in both profiles *)
Lemma renderers_total p st : state_ok st ->
  exists full brief json, render_all p st = Ret (full, brief, json) /\
    (forall i, st_requesting st = Some i -> In (IThread i) full /\ In (IThread i) brief) /\
    (length (st_modules st) + length (st_unloaded st) <= length full)%nat /\
    (length (st_modules st) + length (st_threads st) + length (st_unloaded st) <= length json)%nat.
Proof.
  intros [Hfr [Hlines [Hreq [Hm Hu]]]].
  assert (Hst : forall s, In s (st_threads st) ->
            Z.of_nat (stack_lines (rs_frames s)) < two64 /\ forall f, In f (rs_frames s) -> frame_ok (rf_frame f)).
  { intros s Hs. split; [exact (Hlines s Hs)|intros f Hf; exact (Hfr s f Hs Hf)]. }
  assert (Hreqpart : exists l, match st_requesting st with
                | None => Ret []
                | Some i => do s <- idx (st_threads st) i; do body <- call_stack_print p s; Ret (IThread i :: body)
                end = Ret l /\ forall i, st_requesting st = Some i -> In (IThread i) l).
  { destruct (st_requesting st) as [i|] eqn:Er; [|exists []; split; [reflexivity|intros i H; discriminate]].
    destruct (idx_in_bounds (st_threads st) i (Hreq i eq_refl)) as [s [Es Hn]]. rewrite Es. cbn [obind].
    destruct (Hst s (nth_error_In _ _ Hn)) as [H1 H2].
    destruct (call_stack_print_total p s H1 H2) as [body [Eb _]]. rewrite Eb. cbn [obind].
    eexists. split; [reflexivity|]. intros j Hj. inversion Hj; subst. left; reflexivity. }
  destruct Hreqpart as [reqpart [Ereq Hin]].
  destruct (print_other_threads_total p (st_requesting st) (st_threads st) 0 Hst) as [others Eo].
  destruct (module_tables_total p IModule (st_modules st) Hm) as [[tm [Etm Ltm]] _].
  destruct (module_tables_total p IUnloaded (st_unloaded st) Hu) as [[tu [Etu Ltu]] _].
  destruct (module_tables_total p IJsonModule (st_modules st) Hm) as [_ [jm [Ejm Ljm]]].
  destruct (module_tables_total p IJsonUnloaded (st_unloaded st) Hu) as [_ [ju [Eju Lju]]].
  destruct (json_threads_total p (st_threads st) Hfr) as [jt [Ejt Fjt]].
  destruct (json_crashing_total st jt Hreq Fjt) as [cr Ecr].
  unfold render_all, print_internal, print_json.
  rewrite Ereq. cbn [obind]. rewrite Eo. cbn [obind]. rewrite Etm. cbn [obind]. rewrite Etu. cbn [obind].
  rewrite Ejm. cbn [obind]. rewrite Ejt. cbn [obind]. rewrite Eju. cbn [obind]. rewrite Ecr. cbn [obind].
  eexists; eexists; eexists. split; [reflexivity|]. split; [|split].
  - intros i Hi. split; apply in_or_app; right; [apply in_or_app; left|]; exact (Hin i Hi).
  - rewrite !app_length. lia.
  - rewrite !app_length, map_length. rewrite (Forall2_length' _ _ _ Fjt). cbn [length]. lia.
Qed.
