(* C03/BudgetModel.v — round 5, second pass: the input of into_process_state as a FILE.
   A MINIDUMP_MEMORY_DESCRIPTOR / MINIDUMP_LOCATION_DESCRIPTOR is a reference (rva, data_size) into the bytes of the
   dump; nothing in the readers forbids two descriptors from naming the same bytes.  This file models
     minidump/src/minidump.rs  MinidumpMemory::read (2002-2022): `rva == 0 || data_size == 0 -> Err`, then
                               location_slice (rva + data_size within the file) — used for the thread's own stack
                               (MinidumpThreadList::read) and for every entry of the MemoryList stream, which skips the
                               entries that fail (2349-2356);
   and the sizes the two list streams occupy in the file (size_of MINIDUMP_THREAD = 48, MINIDUMP_MEMORY_DESCRIPTOR = 16;
   read_stream_list checks count x entry size against the stream, which is a slice of the file), so that the number of
   frames of the whole ProcessState can be stated against ONE number: the length of the file.
   Definitions only. *)
From RM Require Export C03.ProcessModel.
Open Scope Z_scope.

Record mem_desc := { d_start : Z;      (* start_of_memory_range *)
                     d_size : Z;       (* memory.data_size *)
                     d_rva : Z }.      (* memory.rva *)

Definition THREAD_ENTRY_BYTES : Z := 48.
Definition MEMORY_ENTRY_BYTES : Z := 16.

(* MinidumpMemory::read over the whole file *)
Definition read_desc (file : list Z) (d : mem_desc) : option region :=
  if (d_rva d =? 0) || (d_size d =? 0) then None
  else if (0 <? d_rva d) && (0 <? d_size d) && (d_rva d + d_size d <=? Z.of_nat (length file))
  then Some {| r_base := d_start d; r_size := d_size d;
               r_bytes := firstn (Z.to_nat (d_size d)) (skipn (Z.to_nat (d_rva d)) file) |}
  else None.

(* one MINIDUMP_THREAD entry: the context is decoded from its own location (abstract here: any decoded context or none) *)
Record raw_thread := { rt_id : Z; rt_ctx : option ctx; rt_stack : mem_desc }.

Record file_input := {
  fi_file : list Z;                    (* every byte of the dump *)
  fi_threads : list raw_thread;        (* the entries of the ThreadList stream *)
  fi_memory : list mem_desc;           (* the entries of the MemoryList stream *)
  fi_dump_tid : option Z; fi_crash_tid : option Z; fi_req_tid : option Z;
  fi_exc_ctx : option ctx;
  fi_unloaded : list (Z * Z)
}.

Definition to_thread (file : list Z) (rt : raw_thread) : thread_in :=
  {| th_id := rt_id rt; th_ctx := rt_ctx rt; th_stack := read_desc file (rt_stack rt);
     th_stack_start := d_start (rt_stack rt) |}.

Fixpoint keep_some {A} (l : list (option A)) : list A :=
  match l with [] => [] | Some x :: t => x :: keep_some t | None :: t => keep_some t end.

Definition to_proc_in (fi : file_input) : proc_in :=
  {| pi_threads := map (to_thread (fi_file fi)) (fi_threads fi);
     pi_dump_tid := fi_dump_tid fi; pi_crash_tid := fi_crash_tid fi; pi_req_tid := fi_req_tid fi;
     pi_exc_ctx := fi_exc_ctx fi;
     pi_memory := keep_some (map (read_desc (fi_file fi)) (fi_memory fi));
     pi_unloaded := fi_unloaded fi |}.

Definition file_size (fi : file_input) : nat := length (fi_file fi).

(* ------------------------------------------------------------------ the family of dumps that shows the quadratic budget is tight *)
(* [m] thread-list entries that all cite the same [m] stack bytes (zeros), which the file holds once behind 2048 bytes of
   header / directory / system info / context / module list and the thread list itself; every thread has the same context:
   ip = 8192, sp = start of the stack *)
Definition share_stack_start : Z := 65536.
Definition share_ctx : ctx :=
  ({| C05.Model.r_ip := 8192; C05.Model.r_sp := share_stack_start; C05.Model.r_fp := 0; C05.Model.r_lr := 0;
      C05.Model.r_gp := [] |}, C05.Model.VAll).
Definition share_desc (m : nat) : mem_desc :=
  {| d_start := share_stack_start; d_size := Z.of_nat m; d_rva := 2048 + 48 * Z.of_nat m |}.
Definition share_input (m : nat) : file_input :=
  {| fi_file := repeat 0 (2048 + 48 * m + m);
     fi_threads := repeat {| rt_id := 1; rt_ctx := Some share_ctx; rt_stack := share_desc m |} m;
     fi_memory := [share_desc m];
     fi_dump_tid := None; fi_crash_tid := None; fi_req_tid := None; fi_exc_ctx := None; fi_unloaded := [] |}.
(* symbols of the one module: a STACK CFI rule that moves the CFA by one byte and yields a constant return address
   (`.cfa: $rsp 1 + .ra: 8192`); every value it writes is a u64 *)
Definition share_cfi (_ : C05.Model.memory) (callee : C05.Model.frame) (_ : option C05.Model.frame) (_ : list Z)
  : option (C05.Model.regs * list Z) :=
  Some ({| C05.Model.r_ip := 8192; C05.Model.r_sp := (C05.Model.r_sp (C05.Model.f_regs callee) + 1) mod two64;
           C05.Model.r_fp := 0; C05.Model.r_lr := 0; C05.Model.r_gp := [] |},
        [RM.Gen.UnwindConsts.amd64_sp_name; RM.Gen.UnwindConsts.amd64_ip_name]).
