(* C03/ProcessModel.v — round 5: executable model of the top-level control flow of
     minidump-processor/src/processor.rs  MinidumpInfo::into_process_state (1017-1226):
       first pass over the thread list (dump-writer thread skipped, choice of the CPU context between the exception
       stream's and the thread's own, `requesting_thread`, CallStackInfo, the context frame),
       second pass (`join_all` over the threads — the per-thread futures share no mutable state, so their
       interleaving is unobservable and the model is a plain map): choice of the stack memory
       (thread.stack_memory, the `get_memory_at_address::<u64>(stack_ptr)` probe, the fall-back to the region the
       stack pointer lies in), walk_stack, the unloaded-module offsets of every frame without a module;
     minidump/src/minidump.rs  MinidumpThread::stack_memory (2889-2902), MinidumpMemory::read's "rva == 0 ||
       data_size == 0 -> Err" (2008), get_memory_at_address (checked_sub + pread), memory_range;
     minidump-unwind/src/lib.rs  walk_stack's prologue (`stack_memory.and_then(memory_range)`, `has_new_frame =
       !frames.is_empty()`, the `let Some(stack_memory) = stack_memory else { break }` exit) composed with C05's model
       of the loop itself (C05.Model.walk_stack: the `while has_new_frame` loop, get_caller_frame, all techniques).
   The walker's external behaviour (module lookup, CFI evaluation, instruction validity) stays a parameter with the
   contract of C05; the fuel of every thread's walk is computed here from the stack memory chosen for it.
   Definitions only. *)
From RM Require Export Base.Word C08.Model C03.Model C03.FetchModel.
From RM Require C05.Model.
Open Scope Z_scope.

Inductive stack_info := InfoOk | InfoMissingContext | InfoDumpThreadSkipped.

(* a decoded CPU context: the registers the walker reads + MinidumpContextValidity *)
Definition ctx := (C05.Model.regs * C05.Model.validity)%type.

(* one entry of the thread list as MinidumpThreadList::read leaves it *)
Record thread_in := {
  th_id : Z;                      (* raw.thread_id *)
  th_ctx : option ctx;            (* thread.context(system_info, misc_info): None when it cannot be decoded *)
  th_stack : option region;       (* MinidumpMemory::read(&raw.stack): None when rva == 0, data_size == 0 or out of the file *)
  th_stack_start : Z              (* raw.stack.start_of_memory_range *)
}.

Record proc_in := {
  pi_threads : list thread_in;
  pi_dump_tid : option Z;         (* breakpad info: dump_thread_id *)
  pi_crash_tid : option Z;        (* exception stream: get_crashing_thread_id() *)
  pi_req_tid : option Z;          (* breakpad info: requesting_thread_id *)
  pi_exc_ctx : option ctx;        (* the exception stream's own context *)
  pi_memory : list region;        (* UnifiedMemoryList (MemoryList or Memory64List), in stream order *)
  pi_unloaded : list (Z * Z)      (* unloaded modules (base, size), as the reader kept them *)
}.

Definition opt_or {A} (a b : option A) : option A := match a with Some _ => a | None => b end.
Definition opt_is (a : option Z) (id : Z) : bool := match a with Some x => x =? id | None => false end.

(* ------------------------------------------------------------------ first pass: `.enumerate().map(|(i, thread)| ..)` *)
Record stack0 := { s0_info : stack_info; s0_ctx : option ctx; s0_req : bool }.

Definition info_of (c : option ctx) : stack_info := match c with Some _ => InfoOk | None => InfoMissingContext end.

(* order of the tests as in the source: dump-writer thread first (early return: `requesting_thread` is not touched),
   then `crashing_thread_id.or(self.requesting_thread_id) == Some(id)` with
   `exception_context.as_deref().or(thread_context.as_deref())` *)
Definition initial_stack (pi : proc_in) (t : thread_in) : stack0 :=
  if opt_is (pi_dump_tid pi) (th_id t)
  then {| s0_info := InfoDumpThreadSkipped; s0_ctx := None; s0_req := false |}
  else if opt_is (opt_or (pi_crash_tid pi) (pi_req_tid pi)) (th_id t)
  then let c := opt_or (pi_exc_ctx pi) (th_ctx t) in {| s0_info := info_of c; s0_ctx := c; s0_req := true |}
  else {| s0_info := info_of (th_ctx t); s0_ctx := th_ctx t; s0_req := false |}.

(* `requesting_thread = Some(i)` is an assignment inside the closure: the last thread that takes it wins *)
Fixpoint last_flag (flags : list bool) (i : nat) (acc : option nat) : option nat :=
  match flags with
  | [] => acc
  | b :: t => last_flag t (S i) (if b then Some i else acc)
  end.
Definition requesting_index (pi : proc_in) : option nat :=
  last_flag (map (fun t => s0_req (initial_stack pi t)) (pi_threads pi)) 0 None.

(* ------------------------------------------------------------------ second pass: the stack memory of a thread *)
(* MinidumpThread::stack_memory: the thread's own descriptor, else the region of the memory list at start_of_memory_range *)
Definition thread_stack_memory (mem : list region) (t : thread_in) : option region :=
  opt_or (th_stack t) (memory_at mem (th_stack_start t)).

(* get_memory_at_address::<T>(addr).is_some(), size_of::<T>() = n: addr.checked_sub(base)?, then scroll's pread bounds *)
Definition region_reads (m : region) (n addr : Z) : bool :=
  match checked_sub addr (r_base m) with
  | None => false
  | Some start => start + n <=? Z.of_nat (length (r_bytes m))
  end.

(* the probe is `get_memory_at_address::<u64>` on every CPU: 8 bytes (Gen/C03Sites.gen_stack_probe_bytes) *)
Definition STACK_PROBE_BYTES : Z := 8.

(* `if let Some(stack_ptr) = stack.frames.first().map(get_stack_pointer) { if !contains_stack_ptr {
      stack_memory = memory_list.memory_at_address(stack_ptr).or(stack_memory) } }` *)
Definition choose_stack_memory (mem : list region) (t : thread_in) (c : option ctx) : option region :=
  let sm := thread_stack_memory mem t in
  match c with
  | None => sm
  | Some (r, _) =>
      let sp := C05.Model.r_sp r in
      if match sm with Some m => region_reads m STACK_PROBE_BYTES sp | None => false end
      then sm
      else opt_or (memory_at mem sp) sm
  end.

(* walk_stack's prologue: `stack_memory.and_then(|m| m.memory_range().map(|_| m))`;
   memory_range: size == 0 -> None; base.checked_add(size)? *)
Definition region_range_ok (m : region) : bool :=
  negb (r_size m =? 0) && (r_base m + r_size m <? two64).
Definition walk_memory (sm : option region) : option region :=
  match sm with
  | Some m => if region_range_ok m then Some m else None
  | None => None
  end.

Definition to_mem (m : region) : C05.Model.memory := {| C05.Model.m_base := r_base m; C05.Model.m_bytes := r_bytes m |}.
Definition stack_bytes (sm : option region) : nat := match sm with Some m => length (r_bytes m) | None => 0%nat end.

Record thread_out := {
  o_id : Z;
  o_info : stack_info;
  o_frames : list C05.Model.frame;
  o_unloaded : list (list Z)      (* per frame: the offsets recorded in frame.unloaded_modules (empty when the frame has a module) *)
}.

Section Process.
Variable p : profile.
Variable cpu : cpu_kind.
(* the walker's description of the dump's CPU (used only when [has_unwinder cpu]) *)
Variable a : C05.Model.arch.
Variable os : Z.
(* external behaviour of the walker, contracts as in C05/Model.v; the CFI oracle reads the stack memory it is given *)
Variable module_at : Z -> option Z.
Variable max_module_addr : Z.
Variable cfi_walk : C05.Model.memory -> C05.Model.frame -> option C05.Model.frame -> list Z -> option (C05.Model.regs * list Z).
Variable instr_valid : Z -> bool.

(* walk_stack(i, cb, stack, stack_memory, ..) for a call stack holding the context frame (or nothing) *)
Definition walk_thread (c : option ctx) (sm : option region) : outcome (list C05.Model.frame) :=
  match c with
  | None => Ret []                                   (* has_new_frame = !stack.frames.is_empty() = false *)
  | Some (r, v) =>
      let f0 := C05.Model.from_context r v C05.Model.TContext in
      match walk_memory sm with
      | None => Ret [f0]                             (* symbolicate, then `let Some(..) = stack_memory else { break }` *)
      | Some m =>
          if has_unwinder cpu
          then C05.Model.walk_stack C05.Model.current_code p a os (to_mem m) module_at max_module_addr
                 (cfi_walk (to_mem m)) instr_valid (C05.Model.fuel_for (to_mem m)) r v
          else walk_any 1 (get_caller_dispatch cpu (fun _ : C05.Model.frame => None)) f0
      end
  end.

(* `for frame in &mut stack.frames { if frame.module.is_none() { for unloaded in modules_at_address(..) {
      let offset = frame.instruction - unloaded.raw.base_of_image; .. } } }` *)
Definition frame_unloaded (unl : list (Z * Z)) (f : C05.Model.frame) : outcome (list Z) :=
  match module_at (C05.Model.f_instr f) with
  | Some _ => Ret []
  | None => unloaded_offsets p unl (C05.Model.f_instr f)
  end.

(* one thread, in the order of the source: context choice, stack memory, walk, unloaded-module offsets *)
Definition process_thread (pi : proc_in) (t : thread_in) : outcome thread_out :=
  let s0 := initial_stack pi t in
  let sm := choose_stack_memory (pi_memory pi) t (s0_ctx s0) in
  do fs <- walk_thread (s0_ctx s0) sm;
  do offs <- collect (map (frame_unloaded (pi_unloaded pi)) fs);
  Ret {| o_id := th_id t; o_info := s0_info s0; o_frames := fs; o_unloaded := offs |}.

(* the call stacks of ProcessState.threads (one per thread-list entry, same order) and ProcessState.requesting_thread *)
Definition process_threads (pi : proc_in) : outcome (list thread_out * option nat) :=
  do outs <- collect (map (process_thread pi) (pi_threads pi));
  Ret (outs, requesting_index pi).

(* print / print_json: `self.threads[requesting_thread]` *)
Definition requesting_stack (pi : proc_in) : outcome (option thread_out) :=
  do r <- process_threads pi;
  match snd r with
  | None => Ret None
  | Some i => do t <- idx (fst r) i; Ret (Some t)
  end.

(* print_json's "crashing_thread" (process_state.rs 1140-1171): `if let Some(f) = self.threads[requesting_thread].frames.first()`,
   then `output["threads"].as_array().unwrap()[requesting_thread]` (one array entry per call stack) and `frames[0]` of its
   "frames" array (one entry per frame).  Some (threads_index, the frame that gets the registers). *)
Definition json_crashing_thread (outs : list thread_out) (req : option nat) : outcome (option (nat * C05.Model.frame)) :=
  match req with
  | None => Ret None
  | Some i =>
      do t <- idx outs i;
      match o_frames t with
      | [] => Ret None
      | _ :: _ =>
          do jt <- idx (map o_frames outs) i;
          do f0 <- idx jt 0;
          Ret (Some (i, f0))
      end
  end.
Definition render_crashing_thread (pi : proc_in) : outcome (option (nat * C05.Model.frame)) :=
  do r <- process_threads pi; json_crashing_thread (fst r) (snd r).
End Process.

(* ------------------------------------------------------------------ BitFlipDetails::confidence: the NEARBY_REGISTER table *)
(* process_state.rs 329-332, reached from check_for_bitflips -> try_bit_flips -> calculate_heuristics for every candidate address:
     if self.nearby_registers > 0 {
         let nearby = std::cmp::min(self.nearby_registers as usize, NEARBY_REGISTER.len()) - 1;
         values.push(NEARBY_REGISTER[nearby]);
     }
   nearby_registers: u32 (one count per valid register of the exception context within 4096 bytes of the candidate).
   Ret None: no entry pushed; Ret (Some i): NEARBY_REGISTER[i]; the subtraction is a usize `-`, the index is bounds-checked. *)
Definition NEARBY_REGISTER_LEN : Z := 4.
Definition nearby_index (p : profile) (n : Z) : outcome (option Z) :=
  if 0 <? n then
    do i <- chk_sub p 64 PANIC_ARITH (Z.min n NEARBY_REGISTER_LEN) 1;
    if (0 <=? i) && (i <? NEARBY_REGISTER_LEN) then Ret (Some i) else Panic PANIC_INDEX
  else Ret None.
(* the seeded variant (seeded/C03-7): subtract first, clamp to the table LENGTH afterwards *)
Definition nearby_index_clamp_len (p : profile) (n : Z) : outcome (option Z) :=
  if 0 <? n then
    do d <- chk_sub p 64 PANIC_ARITH n 1;
    let i := Z.min d NEARBY_REGISTER_LEN in
    if (0 <=? i) && (i <? NEARBY_REGISTER_LEN) then Ret (Some i) else Panic PANIC_INDEX
  else Ret None.
(* calculate_heuristics' count: `if should_calculate_nearby_registers && self.address.0.abs_diff(addr) <= NEARBY_REGISTER_DISTANCE
   { self.details.nearby_registers += 1 }` over context.valid_registers(); should_calculate = address > LOW_ADDRESS_CUTOFF *)
Definition NEARBY_REGISTER_DISTANCE : Z := 4096.
Definition LOW_ADDRESS_CUTOFF : Z := 8192.
Definition nearby_count (p : profile) (address : Z) (regs : list Z) : outcome Z :=
  fold_left (fun acc r => do n <- acc;
                          if (LOW_ADDRESS_CUTOFF <? address) && (Z.abs (address - r) <=? NEARBY_REGISTER_DISTANCE)
                          then chk_add p 32 PANIC_ARITH n 1 else Ret n) regs (Ret 0).
Definition nearby_site (p : profile) (address : Z) (regs : list Z) : outcome (Z * option Z) :=
  do n <- nearby_count p address regs; do i <- nearby_index p n; Ret (n, i).

(* ------------------------------------------------------------------ MinidumpInfo::new and process_minidump_with_options *)
(* processor.rs 495-632: the thread list and the system info are required (`.or(Err(ProcessError::..))?`, in this order); the failure
   of every other stream read is degraded to a default / None (Gen/C03Sites.gen_stream_handling lists them all).  Some e = Err(e). *)
Inductive process_error := MissingThreadList | MissingSystemInfo.
Definition info_new (thread_list_ok system_info_ok : bool) : option process_error :=
  if negb thread_list_ok then Some MissingThreadList
  else if negb system_info_ok then Some MissingSystemInfo
  else None.

(* process_minidump_with_options (442-462): MinidumpInfo::new(..)?, the exception analyses, into_process_state *)
Inductive process_result := ProcessErr (e : process_error) | ProcessOk (threads : list thread_out) (requesting : option nat).
Section Pipeline.
Variable p : profile.
Variable cpu : cpu_kind.
Variable a : C05.Model.arch.
Variable os : Z.
Variable module_at : Z -> option Z.
Variable max_module_addr : Z.
Variable cfi_walk : C05.Model.memory -> C05.Model.frame -> option C05.Model.frame -> list Z -> option (C05.Model.regs * list Z).
Variable instr_valid : Z -> bool.
Definition process_minidump (thread_list_ok system_info_ok : bool) (pi : proc_in) : outcome process_result :=
  match info_new thread_list_ok system_info_ok with
  | Some e => Ret (ProcessErr e)
  | None =>
      do r <- process_threads p cpu a os module_at max_module_addr cfi_walk instr_valid pi;
      Ret (ProcessOk (fst r) (snd r))
  end.
End Pipeline.

(* all frames of a ProcessState, and the largest stack memory any thread can be given *)
Definition total_frames (outs : list thread_out) : nat := fold_right (fun o n => (length (o_frames o) + n)%nat) 0%nat outs.
Definition own_stacks (pi : proc_in) : list region :=
  flat_map (fun t => match th_stack t with Some m => [m] | None => [] end) (pi_threads pi).
Definition max_region_bytes (pi : proc_in) : nat :=
  list_max (map (fun m => length (r_bytes m)) (pi_memory pi ++ own_stacks pi)).
