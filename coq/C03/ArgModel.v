(* C03/ArgModel.v — site model of minidump-processor/src/arg_recovery.rs (x86 argument recovery,
   only under ProcessorOptions::recover_function_args): parse_x86_arg_list (170-241) and the
   stack reads of fill_arguments (103-160).  Definitions only.

   A Rust `str` is a list of Unicode scalar values; [utf8_len] is the byte width of each, so byte
   offsets, char boundaries and the panic of slicing inside a character are expressible:
   `&s[a..b]` panics unless a <= b <= len and both offsets fall between characters.
   The loop `for (idx, c) in arg_list.bytes().enumerate()` compares every *byte* with `<` `>` `(` `)`
   `,`; all bytes of a multi-byte character are >= 0x80, so walking the characters with a running
   byte offset visits the same events at the same offsets (the correspondence run checks this step). *)
From RM Require Export Base.Word.
From RM Require Import C03.Model.
Open Scope Z_scope.

Definition PANIC_BOUNDARY : Z := 303.   (* byte index is not a char boundary / out of range *)
Definition str := list Z.
Definition utf8_len (c : Z) : Z := if c <? 128 then 1 else if c <? 2048 then 2 else if c <? 65536 then 3 else 4.
Fixpoint blen (s : str) : Z := match s with [] => 0 | c :: t => utf8_len c + blen t end.

(* &s[..b] *)
Fixpoint take_bytes (s : str) (b : Z) : outcome str :=
  if b =? 0 then Ret []
  else match s with
       | [] => Panic PANIC_BOUNDARY
       | c :: t => if b <? utf8_len c then Panic PANIC_BOUNDARY
                   else do r <- take_bytes t (b - utf8_len c); Ret (c :: r)
       end.
(* &s[a..] *)
Fixpoint drop_bytes (s : str) (a : Z) : outcome str :=
  if a =? 0 then Ret s
  else match s with
       | [] => Panic PANIC_BOUNDARY
       | c :: t => if a <? utf8_len c then Panic PANIC_BOUNDARY else drop_bytes t (a - utf8_len c)
       end.
(* &s[a..b] *)
Definition slice (s : str) (a b : Z) : outcome str :=
  if (a <? 0) || (b <? a) then Panic PANIC_BOUNDARY
  else do p <- take_bytes s b; drop_bytes p a.

(* char::is_whitespace (White_Space) and str::trim *)
Definition is_uws (c : Z) : bool :=
  ((9 <=? c) && (c <=? 13)) || (c =? 32) || (c =? 133) || (c =? 160) || (c =? 5760) ||
  ((8192 <=? c) && (c <=? 8202)) || (c =? 8232) || (c =? 8233) || (c =? 8239) || (c =? 8287) || (c =? 12288).
Fixpoint utrim_start (l : str) : str := match l with [] => [] | c :: t => if is_uws c then utrim_start t else l end.
Definition utrim (l : str) : str := rev (utrim_start (rev (utrim_start l))).

(* str::split_once(c) / rsplit_once(c) for a one-byte pattern *)
Fixpoint split_first (c : Z) (pre : str) (s : str) : option (str * str) :=
  match s with
  | [] => None
  | x :: t => if x =? c then Some (rev pre, t) else split_first c (x :: pre) t
  end.
Definition split_last (c : Z) (s : str) : option (str * str) :=
  match split_first c [] (rev s) with
  | Some (a, b) => Some (rev b, rev a)
  | None => None
  end.
Fixpoint contains_colons (s : str) : bool :=
  match s with
  | 58 :: ((58 :: _) as t) => true
  | _ :: t => contains_colons t
  | [] => false
  end.

Inductive callconv := Cdecl | WindowsThisCall.

(* the byte loop; [rest] = characters not yet visited, [idx] = byte offset of the next one.
   None = "parser is lost".  template_depth / paren_depth are i32 counters (`+= 1`). *)
Fixpoint arg_loop (p : profile) (whole rest : str) (idx arg_start td pd : Z) (acc : list str)
  : outcome (option (list str * Z * Z * Z)) :=
  match rest with
  | [] => Ret (Some (acc, arg_start, td, pd))
  | c :: t =>
      let next := idx + utf8_len c in
      if c =? 60 then do td' <- chk_add p 31 PANIC_ARITH td 1; arg_loop p whole t next arg_start td' pd acc
      else if c =? 62 then (if 0 <? td then arg_loop p whole t next arg_start (td - 1) pd acc else Ret None)
      else if c =? 40 then do pd' <- chk_add p 31 PANIC_ARITH pd 1; arg_loop p whole t next arg_start td pd' acc
      else if c =? 41 then (if 0 <? pd then arg_loop p whole t next arg_start td (pd - 1) acc else Ret None)
      else if c =? 44 then
        (if (td =? 0) && (pd =? 0)
         then do a <- slice whole arg_start idx; arg_loop p whole t next (idx + 1) td pd (acc ++ [utrim a])
         else arg_loop p whole t next arg_start td pd acc)
      else arg_loop p whole t next arg_start td pd acc
  end.

Definition parse_x86_arg_list (p : profile) (name : str) : outcome (option (callconv * list str)) :=
  match split_first 40 [] name with
  | None => Ret None
  | Some (fname, after) =>
      match split_last 41 after with
      | None => Ret None
      | Some (arg_list, _junk) =>
          let cc := if contains_colons fname then WindowsThisCall else Cdecl in
          do r <- arg_loop p arg_list arg_list 0 0 0 0 [];
          match r with
          | None => Ret None
          | Some (acc, arg_start, td, pd) =>
              do last <- slice arg_list arg_start (blen arg_list);
              if (td =? 0) && (pd =? 0) then Ret (Some (cc, acc ++ [utrim last])) else Ret None
          end
      end
  end.

(* the seeded variant of the check's round 2 (`&junk[1..]` on the text after the last `)`), to show
   that the model expresses that panic *)
Definition junk_tail (name : str) : outcome (option str) :=
  match split_first 40 [] name with
  | None => Ret None
  | Some (_, after) =>
      match split_last 41 after with
      | None => Ret None
      | Some (_, junk) => if 1 <? blen junk then do t <- drop_bytes junk 1; Ret (Some t) else Ret None
      end
  end.

(* fill_arguments: read_head starts at the caller's stack pointer (frame idx+1) or at stack_base;
   the limit is the stack pointer of frame idx+2 or stack_base; each pop: if read_head < limit
   { read; read_head += 4 }.  Returns the final read_head. *)
Fixpoint pops (p : profile) (n : nat) (read_head limit : Z) : outcome Z :=
  match n with
  | O => Ret read_head
  | S n' => if read_head <? limit
            then do rh <- chk_add p 64 PANIC_ARITH read_head 4; pops p n' rh limit
            else pops p n' read_head limit
  end.
Definition arg_reads (p : profile) (nargs : nat) (sp1 sp2 : option Z) (stack_base : Z) : outcome Z :=
  let rh := match sp1 with Some s => s | None => stack_base end in
  let lim := match sp2 with Some s => s | None => stack_base end in
  pops p nargs rh lim.
