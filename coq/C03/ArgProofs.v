(* C03/ArgProofs.v — parse_x86_arg_list and the argument reads cannot panic. *)
From Coq Require Import Lia.
From RM Require Import C03.Model C03.Proofs C03.ArgModel.
Open Scope Z_scope.

Lemma utf8_len_pos c : 1 <= utf8_len c <= 4.
Proof. unfold utf8_len. destruct (c <? 128); [lia|]. destruct (c <? 2048); [lia|]. destruct (c <? 65536); lia. Qed.

Lemma blen_nonneg s : 0 <= blen s.
Proof. induction s as [|c t IH]; cbn [blen]; [lia|]. pose proof (utf8_len_pos c). lia. Qed.

Lemma blen_app a b : blen (a ++ b) = blen a + blen b.
Proof. induction a as [|c t IH]; cbn [blen app]; [lia|]. rewrite IH. lia. Qed.

Lemma take_bytes_prefix pre : forall post, take_bytes (pre ++ post) (blen pre) = Ret pre.
Proof.
  induction pre as [|c t IH]; intros post; cbn [blen app].
  - destruct post; reflexivity.
  - pose proof (utf8_len_pos c). pose proof (blen_nonneg t).
    cbn [take_bytes].
    replace (utf8_len c + blen t =? 0) with false by (symmetry; apply Z.eqb_neq; lia).
    replace (utf8_len c + blen t <? utf8_len c) with false by (symmetry; apply Z.ltb_ge; lia).
    replace (utf8_len c + blen t - utf8_len c) with (blen t) by lia.
    rewrite IH. reflexivity.
Qed.

Lemma drop_bytes_prefix pre : forall post, drop_bytes (pre ++ post) (blen pre) = Ret post.
Proof.
  induction pre as [|c t IH]; intros post; cbn [blen app].
  - destruct post; reflexivity.
  - pose proof (utf8_len_pos c). pose proof (blen_nonneg t).
    cbn [drop_bytes].
    replace (utf8_len c + blen t =? 0) with false by (symmetry; apply Z.eqb_neq; lia).
    replace (utf8_len c + blen t <? utf8_len c) with false by (symmetry; apply Z.ltb_ge; lia).
    replace (utf8_len c + blen t - utf8_len c) with (blen t) by lia.
    apply IH.
Qed.

(* slicing between two char boundaries yields the characters in between *)
Lemma slice_boundaries a b c : slice (a ++ b ++ c) (blen a) (blen a + blen b) = Ret b.
Proof.
  unfold slice. pose proof (blen_nonneg a). pose proof (blen_nonneg b).
  replace ((blen a <? 0) || (blen a + blen b <? blen a)) with false
    by (symmetry; apply orb_false_iff; split; apply Z.ltb_ge; lia).
  rewrite app_assoc. rewrite <- blen_app. rewrite take_bytes_prefix. cbn [obind].
  apply drop_bytes_prefix.
Qed.

(* loop invariant: whole = pre ++ mid ++ rest, arg_start = |pre|, idx = |pre ++ mid| *)
Lemma arg_loop_total p whole : forall rest pre mid td pd acc,
  whole = pre ++ mid ++ rest -> 0 <= td -> 0 <= pd -> td + pd + blen rest < 2 ^ 31 ->
  exists r, arg_loop p whole rest (blen pre + blen mid) (blen pre) td pd acc = Ret r /\
    match r with
    | None => True
    | Some (_, arg_start, td', pd') => exists pre' mid', whole = pre' ++ mid' /\ arg_start = blen pre' /\ 0 <= td' /\ 0 <= pd'
    end.
Proof.
  induction rest as [|c t IH]; intros pre mid td pd acc Hw Htd Hpd Hb; cbn [arg_loop].
  - eexists. split; [reflexivity|]. exists pre, mid. rewrite app_nil_r in Hw. auto.
  - cbn [blen] in Hb. pose proof (utf8_len_pos c) as Hc. pose proof (blen_nonneg t) as Ht.
    assert (Hnext : forall m', whole = pre ++ m' ++ t -> blen pre + blen mid + utf8_len c = blen pre + blen m' -> True) by auto.
    assert (Hw' : whole = pre ++ (mid ++ [c]) ++ t) by (rewrite Hw, <- !app_assoc; reflexivity).
    assert (Hl : blen pre + blen mid + utf8_len c = blen pre + blen (mid ++ [c])) by (rewrite blen_app; cbn [blen]; lia).
    destruct (c =? 60) eqn:E60.
    { unfold chk_add. rewrite chk_in_range by lia. cbn [obind]. rewrite Hl. apply IH; auto; lia. }
    destruct (c =? 62) eqn:E62.
    { destruct (0 <? td) eqn:Et; [|eexists; split; [reflexivity|exact I]].
      apply Z.ltb_lt in Et. rewrite Hl. apply IH; auto; lia. }
    destruct (c =? 40) eqn:E40.
    { unfold chk_add. rewrite chk_in_range by lia. cbn [obind]. rewrite Hl. apply IH; auto; lia. }
    destruct (c =? 41) eqn:E41.
    { destruct (0 <? pd) eqn:Et; [|eexists; split; [reflexivity|exact I]].
      apply Z.ltb_lt in Et. rewrite Hl. apply IH; auto; lia. }
    destruct (c =? 44) eqn:E44.
    { destruct ((td =? 0) && (pd =? 0)); [|rewrite Hl; apply IH; auto; lia].
      assert (Hsl : slice whole (blen pre) (blen pre + blen mid) = Ret mid) by (rewrite Hw; apply slice_boundaries).
      rewrite Hsl. cbn [obind].
      apply Z.eqb_eq in E44. subst c. change (utf8_len 44) with 1 in *.
      replace (blen pre + blen mid + 1) with (blen (pre ++ mid ++ [44]))
        by (rewrite !blen_app; cbn [blen]; change (utf8_len 44) with 1; lia).
      assert (G := IH (pre ++ mid ++ [44]) [] td pd (acc ++ [utrim mid])).
      cbn [blen app] in G. rewrite Z.add_0_r in G. apply G; auto; [|lia].
      rewrite Hw, <- !app_assoc. reflexivity. }
    rewrite Hl. apply IH; auto; lia.
Qed.

Lemma split_first_blen c : forall s pre a b, split_first c pre s = Some (a, b) -> blen b <= blen s.
Proof.
  induction s as [|x t IH]; intros pre a b H; cbn [split_first] in H; [discriminate|].
  cbn [blen]. pose proof (utf8_len_pos x).
  destruct (x =? c); [inversion H; subst; lia|]. apply IH in H. lia.
Qed.

Lemma blen_rev s : blen (rev s) = blen s.
Proof. induction s as [|c t IH]; cbn [rev blen]; [reflexivity|]. rewrite blen_app. cbn [blen]. lia. Qed.

Lemma split_first_parts c : forall s pre a b, split_first c pre s = Some (a, b) -> blen a + blen b < blen pre + blen s.
Proof.
  induction s as [|x t IH]; intros pre a b H; cbn [split_first] in H; [discriminate|].
  cbn [blen]. pose proof (utf8_len_pos x).
  destruct (x =? c).
  - inversion H; subst. rewrite blen_rev. lia.
  - apply IH in H. cbn [blen] in H. lia.
Qed.

Theorem parse_x86_arg_list_total p name : blen name < 2 ^ 31 ->
  exists r, parse_x86_arg_list p name = Ret r.
Proof.
  intros Hn. unfold parse_x86_arg_list.
  destruct (split_first 40 [] name) as [[fname after]|] eqn:E1; [|eexists; reflexivity].
  destruct (split_last 41 after) as [[arg_list junk]|] eqn:E2; [|eexists; reflexivity].
  assert (Hal : blen arg_list < 2 ^ 31).
  { apply split_first_blen in E1. unfold split_last in E2.
    destruct (split_first 41 [] (rev after)) as [[a b]|] eqn:E3; [|discriminate].
    inversion E2; subst. apply split_first_parts in E3. cbn [blen] in E3. rewrite blen_rev in *.
    pose proof (blen_nonneg a). lia. }
  destruct (arg_loop_total p arg_list arg_list [] [] 0 0 []) as [r [Hr Hinv]]; [reflexivity|lia|lia|lia|].
  cbn [blen] in Hr. change (0 + 0) with 0 in Hr. rewrite Hr. cbn [obind].
  destruct r as [[[[acc arg_start] td] pd]|]; [|eexists; reflexivity].
  destruct Hinv as [pre' [mid' [Hw [Hs _]]]]. subst arg_start.
  assert (Hsl : slice arg_list (blen pre') (blen arg_list) = Ret mid').
  { pose proof (slice_boundaries pre' mid' []) as X. rewrite app_nil_r in X.
    rewrite <- blen_app in X. rewrite <- Hw in X. exact X. }
  rewrite Hsl. cbn [obind]. destruct ((td =? 0) && (pd =? 0)); eexists; reflexivity.
Qed.

(* the seeded `&junk[1..]`: a two-byte character right after the last `)` *)
Lemma junk_tail_panics : junk_tail [102; 40; 41; 160; 99] = Panic PANIC_BOUNDARY.
Proof. vm_compute. reflexivity. Qed.

(* ---- argument reads *)
Lemma pops_total p : forall n rh lim, 0 <= rh -> rh + 4 * Z.of_nat n < two64 -> exists r, pops p n rh lim = Ret r.
Proof.
  induction n as [|n IH]; intros rh lim H0 H1; cbn [pops]; [eexists; reflexivity|].
  destruct (rh <? lim).
  - unfold chk_add. rewrite chk_in_range by (rewrite pow64; lia). cbn [obind]. apply IH; lia.
  - apply IH; lia.
Qed.

Lemma pops_idle p : forall n rh lim, lim <= rh -> pops p n rh lim = Ret rh.
Proof.
  induction n as [|n IH]; intros rh lim H; cbn [pops]; [reflexivity|].
  replace (rh <? lim) with false by (symmetry; apply Z.ltb_ge; lia). apply IH. exact H.
Qed.

(* x86: stack pointers are u32; frame idx+2 exists only if frame idx+1 does; the argument count is
   at most the byte length of the function name *)
Theorem arg_reads_total p nargs sp1 sp2 stack_base :
  (forall s, sp1 = Some s -> 0 <= s < two32) -> (sp1 = None -> sp2 = None) ->
  0 <= stack_base < two64 -> Z.of_nat nargs < 2 ^ 31 ->
  exists r, arg_reads p nargs sp1 sp2 stack_base = Ret r.
Proof.
  intros H1 H2 Hb Hn. unfold arg_reads. destruct sp1 as [s|].
  - specialize (H1 s eq_refl). apply pops_total; [lia|]. unfold two32, two64 in *. lia.
  - rewrite (H2 eq_refl). eexists. apply pops_idle. lia.
Qed.
