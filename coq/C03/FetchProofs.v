(* C03/FetchProofs.v — round 4: the instruction-bytes fetch never slices out of range (any region layout, both
   profiles) and returns at least one byte; the inline-level enumeration stops within |INLINE records| + 1 lookups. *)
From Coq Require Import Lia List.
From RM Require Import C08.Model C08.Proofs C03.Model C03.Proofs C03.FetchModel.
Import ListNotations.
Open Scope Z_scope.

(* what the two stream readers guarantee: size is the length of the byte slice (location_slice / all.get(start..end)) *)
Definition wf_region (r : region) : Prop :=
  0 <= r_base r /\ 0 <= r_size r /\ r_size r = Z.of_nat (length (r_bytes r)).
Definition wf_regions (rs : list region) : Prop := forall r, In r rs -> wf_region r.

Lemma regions_entry rs r i :
  In (Some r, i) (enumerate_from 0 (map (fun m => mk_range (r_base m) (r_size m)) rs)) ->
  exists m, nth_error rs (Z.to_nat i) = Some m /\ mk_range (r_base m) (r_size m) = Some r.
Proof.
  intros H. apply enumerate_from_in in H. destruct H as [_ H]. rewrite Z.sub_0_r in H.
  rewrite nth_error_map in H. destruct (nth_error rs (Z.to_nat i)) as [m|]; [|discriminate].
  exists m. split; [reflexivity|]. cbn in H. congruence.
Qed.

Lemma regions_wf_entries rs : wf_regions rs ->
  forall i, wf_entries (enumerate_from i (map (fun m => mk_range (r_base m) (r_size m)) rs)).
Proof.
  unfold wf_entries. induction rs as [|m t IH]; intros H i; cbn [map enumerate_from]; constructor.
  - cbn [fst]. destruct (mk_range (r_base m) (r_size m)) as [r|] eqn:E; [|exact I].
    destruct (H m (or_introl eq_refl)) as [Hb [Hs _]]. exact (mk_range_wf _ _ r Hb Hs E).
  - apply IH. intros m' Hm. apply H. right. exact Hm.
Qed.

Lemma mk_range_end base size r : mk_range base size = Some r -> snd r = base + size - 1 /\ base + size <= two64.
Proof.
  unfold mk_range. destruct (size =? 0); [discriminate|].
  unfold checked_add. destruct (base + size <? 2 ^ 64) eqn:E; [|discriminate].
  intros H; inversion H; subst. cbn [snd]. apply Z.ltb_lt in E. rewrite pow64 in E. lia.
Qed.

(* memory_at_address only returns a region of the list whose own range contains the address *)
Lemma memory_at_sound rs x m : wf_regions rs -> memory_at rs x = Some m ->
  In m rs /\ r_base m <= x /\ x <= r_base m + r_size m - 1 /\ r_base m + r_size m <= two64.
Proof.
  intros Hwf H. unfold memory_at in H.
  destruct (rm_get (region_table rs) x) as [i|] eqn:E; [|discriminate].
  unfold region_table in E.
  apply (lookup_sound Z.eqb Z.eqb_eq) in E; [|apply regions_wf_entries; exact Hwf].
  destruct E as [r [Hin Hc]]. apply regions_entry in Hin. destruct Hin as [m' [Hn Hr]].
  rewrite Hn in H. inversion H; subst m'. split; [exact (nth_error_In _ _ Hn)|].
  pose proof (mk_range_start _ _ _ Hr) as Hs. destruct (mk_range_end _ _ _ Hr) as [He Ht].
  unfold contains in Hc. apply andb_prop in Hc. destruct Hc as [H1 H2].
  apply Z.leb_le in H1. apply Z.leb_le in H2. lia.
Qed.

Lemma slice_from_ok {A} (l : list A) off : 0 <= off <= Z.of_nat (length l) ->
  slice_from l off = Ret (skipn (Z.to_nat off) l).
Proof.
  intros H. unfold slice_from.
  destruct (0 <=? off) eqn:E1; [|apply Z.leb_gt in E1; lia].
  destruct (off <=? Z.of_nat (length l)) eqn:E2; [reflexivity|apply Z.leb_gt in E2; lia].
Qed.

(* the property-level statement: for every region layout the readers can produce and every instruction pointer,
   the fetch either reports "no memory at the instruction pointer" or returns the bytes from the instruction
   pointer to the end of one region of the list — at least one byte, never a panic, in both profiles *)
Lemma fetch_total p rs ip : wf_regions rs -> 0 <= ip < two64 ->
  fetch_instruction_bytes p rs ip = Ret None \/
  exists m, In m rs /\ r_base m <= ip /\
    fetch_instruction_bytes p rs ip = Ret (Some (skipn (Z.to_nat (ip - r_base m)) (r_bytes m))) /\
    Z.of_nat (length (skipn (Z.to_nat (ip - r_base m)) (r_bytes m))) = r_base m + r_size m - ip /\
    1 <= r_base m + r_size m - ip.
Proof.
  intros Hwf Hip. unfold fetch_instruction_bytes.
  destruct (memory_at rs ip) as [m|] eqn:E; [right|left; reflexivity].
  destruct (memory_at_sound _ _ _ Hwf E) as [Hin [Hlo [Hhi Htop]]].
  destruct (Hwf m Hin) as [Hb [Hs Hlen]].
  exists m. split; [exact Hin|]. split; [exact Hlo|].
  rewrite sub_ok by lia. cbn [obind].
  rewrite slice_from_ok by lia. cbn [obind].
  split; [reflexivity|]. split; [|lia].
  rewrite skipn_length. rewrite Nat2Z.inj_sub by lia. rewrite Z2Nat.id by lia. lia.
Qed.

(* the seeded variant panics on a two-region layout: the class of defect is expressible in the model *)
Definition stitch_witness : list region :=
  [ {| r_base := 4194304; r_size := 2; r_bytes := [72; 139] |};
    {| r_base := 4194306; r_size := 3; r_bytes := [3; 144; 144] |} ].
Lemma stitch_witness_wf : wf_regions stitch_witness.
Proof.
  intros r [H|[H|[]]]; subst r; unfold wf_region; cbn; lia.
Qed.
Lemma stitch_panics p : fetch_instruction_bytes_stitched p stitch_witness 4194304 = Panic PANIC_INDEX.
Proof. destruct p; vm_compute; reflexivity. Qed.
Lemma fetch_on_stitch_witness p : fetch_instruction_bytes p stitch_witness 4194304 = Ret (Some [72; 139]).
Proof. destruct p; vm_compute; reflexivity. Qed.

(* ------------------------------------------------------------------ inline levels *)
(* what get_inlinee_at_depth guarantees about its result: a record of the function, of exactly the depth asked for *)
Definition look_sound (recs : list inlinee) (look : Z -> option inlinee) : Prop :=
  forall d r, look d = Some r -> In r recs /\ i_depth r = d.

Lemma look_linear_sound recs addr : look_sound recs (look_linear recs addr).
Proof.
  intros d r H. unfold look_linear in H. apply find_some in H. destruct H as [Hin Hc].
  split; [exact Hin|]. unfold covers in Hc.
  apply andb_prop in Hc. destruct Hc as [Hc _]. apply andb_prop in Hc. destruct Hc as [Hc _].
  apply Z.eqb_eq in Hc. exact Hc.
Qed.

Lemma nodup_depth_length (recs acc : list inlinee) :
  NoDup (map i_depth acc) -> (forall r, In r acc -> In r recs) -> (length acc <= length recs)%nat.
Proof.
  intros Hnd Hin. apply NoDup_incl_length; [|exact Hin].
  apply NoDup_map_inv with (f := i_depth). exact Hnd.
Qed.

Lemma pow32 : 2 ^ 32 = two32. Proof. reflexivity. Qed.

Lemma inline_loop_bound p recs look : look_sound recs look ->
  forall fuel depth acc,
    1 <= depth -> depth = Z.of_nat (length acc) + 1 ->
    NoDup (map i_depth acc) ->
    (forall r, In r acc -> In r recs /\ i_depth r < depth) ->
    Z.of_nat (length recs) + 2 < two32 ->
    (length recs < fuel + length acc)%nat ->
    exists l, inline_loop p fuel look depth acc = Ret l /\ (length l <= length recs)%nat.
Proof.
  intros Hl. induction fuel as [|f IH]; intros depth acc Hd Hda Hnd Hacc Hsz Hfuel.
  - exfalso. assert (length acc <= length recs)%nat by (apply nodup_depth_length; [exact Hnd|intros r Hr; apply Hacc; exact Hr]). lia.
  - assert (Hle : (length acc <= length recs)%nat) by (apply nodup_depth_length; [exact Hnd|intros r Hr; apply Hacc; exact Hr]).
    cbn [inline_loop]. unfold chk_add. rewrite chk_in_range by (rewrite pow32; lia). cbn [obind].
    destruct (look depth) as [r|] eqn:E.
    + destruct (Hl _ _ E) as [Hin Hdep].
      apply IH.
      * lia.
      * cbn [length]. lia.
      * cbn [map]. constructor; [|exact Hnd].
        intros Hc. apply in_map_iff in Hc. destruct Hc as [r' [He Hr']].
        destruct (Hacc r' Hr') as [_ Hlt]. lia.
      * intros r' [Hr'|Hr']; [subst r'; split; [exact Hin|lia]|].
        destruct (Hacc r' Hr') as [H1 H2]. split; [exact H1|lia].
      * exact Hsz.
      * cbn [length]. lia.
    + exists (rev acc). split; [reflexivity|]. rewrite rev_length. exact Hle.
Qed.

(* fuel |records| + 1 suffices: the enumeration performs at most one lookup per INLINE record of the function,
   plus the one that misses; the result has at most |records| levels *)
Lemma inline_levels_bound p recs look :
  look_sound recs look -> Z.of_nat (length recs) + 2 < two32 ->
  exists l, inline_loop p (S (length recs)) look 1 [] = Ret l /\ (length l <= length recs)%nat.
Proof.
  intros Hl Hsz. apply (inline_loop_bound p recs look Hl); cbn [length map]; try lia.
  - constructor.
  - intros r [].
Qed.

(* the seeded enumeration is not bounded by the number of records: two records, 4 294 967 295 levels *)
Definition depth_gap_witness : list inlinee :=
  [ {| i_depth := 0; i_addr := 0; i_size := 16; i_origin := 0 |};
    {| i_depth := 4294967295; i_addr := 0; i_size := 16; i_origin := 1 |} ].
Lemma maxdepth_out_of_fuel :
  inline_loop_maxdepth (S (length depth_gap_witness)) (look_linear depth_gap_witness 4)
                       (max_depth_of depth_gap_witness) 1 [] = OutOfFuel.
Proof. vm_compute. reflexivity. Qed.
Lemma maxdepth_needs_depth_many_steps look : forall (fuel : nat) maxd depth acc,
  (Z.of_nat fuel <= maxd - depth + 1) -> inline_loop_maxdepth fuel look maxd depth acc = OutOfFuel.
Proof.
  induction fuel as [|f IH]; intros maxd depth acc H; [reflexivity|].
  cbn [inline_loop_maxdepth]. destruct (maxd <? depth) eqn:E; [apply Z.ltb_lt in E; lia|].
  destruct (look depth); apply IH; lia.
Qed.

(* ------------------------------------------------------------------ CPUs without an unwinder *)
Lemma no_unwinder_single_frame {F} c (w : F -> option F) (cur : F) (stack_bytes : nat) :
  has_unwinder c = false ->
  walk_any 1 (get_caller_dispatch c w) cur = Ret [cur] /\ (length [cur] <= stack_bytes + 2)%nat.
Proof.
  intros H. unfold get_caller_dispatch. rewrite H. cbn. split; [reflexivity|lia].
Qed.

(* ------------------------------------------------------------------ round-4 sites together *)
Lemma round4_sites_total :
  (forall p rs ip tag, wf_regions rs -> 0 <= ip < two64 -> fetch_instruction_bytes p rs ip <> Panic tag) /\
  (forall p recs look, look_sound recs look -> Z.of_nat (length recs) + 2 < two32 ->
     (forall tag, inline_loop p (S (length recs)) look 1 [] <> Panic tag) /\
     inline_loop p (S (length recs)) look 1 [] <> OutOfFuel).
Proof.
  split.
  - intros p rs ip tag Hwf Hip. destruct (fetch_total p rs ip Hwf Hip) as [H|[m [_ [_ [H _]]]]]; rewrite H; discriminate.
  - intros p recs look Hl Hsz. destruct (inline_levels_bound p recs look Hl Hsz) as [l [H _]].
    rewrite H. split; [intros tag|]; discriminate.
Qed.

(* ------------------------------------------------------------------ u64 reads stay inside one region *)
Lemma read_u64_inside rs addr v : wf_regions rs -> 0 <= addr < two64 -> read_u64_at rs addr = Some v ->
  exists m, In m rs /\ r_base m <= addr /\ addr + 8 <= r_base m + r_size m /\ addr + 8 <= two64 /\
            v = le_value (firstn 8 (skipn (Z.to_nat (addr - r_base m)) (r_bytes m))).
Proof.
  intros Hwf Ha H. unfold read_u64_at in H.
  destruct (memory_at rs addr) as [m|] eqn:E; [|discriminate].
  destruct (memory_at_sound _ _ _ Hwf E) as [Hin [Hlo [Hhi Htop]]].
  destruct (Hwf m Hin) as [Hb [Hs Hlen]].
  unfold region_read_u64, checked_sub in H.
  destruct (0 <=? addr - r_base m) eqn:E0; [|discriminate].
  destruct (addr - r_base m + 8 <=? Z.of_nat (length (r_bytes m))) eqn:E1; [|discriminate].
  apply Z.leb_le in E1. inversion H; subst v.
  exists m. repeat split; try assumption; try lia.
Qed.

(* a read that would need bytes of the following region fails, however the regions are laid out *)
Lemma read_u64_never_stitches rs addr m : wf_regions rs -> 0 <= addr < two64 ->
  memory_at rs addr = Some m -> r_base m + r_size m < addr + 8 -> read_u64_at rs addr = None.
Proof.
  intros Hwf Ha E Hcut. unfold read_u64_at. rewrite E.
  destruct (memory_at_sound _ _ _ Hwf E) as [Hin [Hlo [Hhi Htop]]].
  destruct (Hwf m Hin) as [Hb [Hs Hlen]].
  unfold region_read_u64, checked_sub.
  destruct (0 <=? addr - r_base m); [|reflexivity].
  destruct (addr - r_base m + 8 <=? Z.of_nat (length (r_bytes m))) eqn:E1; [|reflexivity].
  apply Z.leb_le in E1. lia.
Qed.
