(* C02/Proofs11.v — the Linux maps text: what the kernel writes (show_map_vma) reads back as exactly the mappings written *)
From Coq Require Import ZArith List Bool Lia.
From RM Require Import Base.Word C02.Model C02.ModelR5 C02.ModelR6 C02.Proofs1 C02.Proofs4 C02.Proofs10.
Import ListNotations.
Open Scope Z_scope.

(* ------------------------------------------------------------------ digits *)
Definition dval (radix : Z) (ds : list Z) (acc : Z) : Z := fold_left (fun a d => a * radix + d) ds acc.
Definition dchar (c : Z) : bool := ((48 <=? c) && (c <=? 57)) || ((97 <=? c) && (c <=? 102)).
Definition rdx (radix : Z) : Prop := radix = 10 \/ radix = 16.

Lemma digit_val_char : forall radix d, rdx radix -> 0 <= d < radix -> digit_val radix (digit_char d) = Some d.
Proof.
  intros radix d R H. unfold digit_val, digit_char.
  destruct (Z.ltb_spec d 10).
  - replace ((48 <=? 48 + d) && (48 + d <=? 57)) with true by (symmetry; apply andb_true_iff; split; apply Z.leb_le; lia).
    f_equal. lia.
  - destruct R as [R|R]; [lia|]. subst radix.
    replace ((48 <=? 87 + d) && (87 + d <=? 57)) with false by (symmetry; apply andb_false_iff; right; apply Z.leb_gt; lia).
    cbn [Z.eqb Pos.eqb].
    replace ((97 <=? 87 + d) && (87 + d <=? 102)) with true by (symmetry; apply andb_true_iff; split; apply Z.leb_le; lia).
    f_equal. lia.
Qed.

Lemma dchar_char : forall d, 0 <= d < 16 -> dchar (digit_char d) = true.
Proof.
  intros d H. unfold dchar, digit_char. destruct (Z.ltb_spec d 10); apply orb_true_iff; [left|right];
    apply andb_true_iff; split; apply Z.leb_le; lia.
Qed.

Lemma dval_ge : forall radix ds acc, 1 <= radix -> Forall (fun d => 0 <= d < radix) ds -> 0 <= acc -> acc <= dval radix ds acc.
Proof.
  intros radix ds. induction ds as [|d ds IH]; intros acc R F A; cbn [dval fold_left]; [lia|].
  inversion F; subst. specialize (IH (acc * radix + d) R H2). unfold dval in IH. nia.
Qed.

Lemma parse_digits_num : forall radix lo hi ds acc, rdx radix -> Forall (fun d => 0 <= d < radix) ds -> lo <= 0 -> 0 <= acc ->
  dval radix ds acc <= hi -> parse_digits radix 1 lo hi acc (map digit_char ds) = Some (dval radix ds acc).
Proof.
  intros radix lo hi ds. induction ds as [|d ds IH]; intros acc R F L A H; cbn [map parse_digits dval fold_left]; [reflexivity|].
  inversion F; subst. rewrite digit_val_char by assumption. cbv zeta.
  assert (R1 : 1 <= radix) by (destruct R; lia).
  assert (A' : 0 <= acc * radix + 1 * d) by nia.
  pose proof (dval_ge radix ds (acc * radix + 1 * d) R1 H3 A') as G.
  cbn [dval fold_left] in H. replace (acc * radix + d) with (acc * radix + 1 * d) in H by lia. unfold dval in G.
  replace ((lo <=? acc * radix + 1 * d) && (acc * radix + 1 * d <=? hi)) with true
    by (symmetry; apply andb_true_iff; split; apply Z.leb_le; lia).
  rewrite IH by assumption. unfold dval. replace (acc * radix + 1 * d) with (acc * radix + d) by lia. reflexivity.
Qed.

Lemma dval_app : forall radix a b acc, dval radix (a ++ b) acc = dval radix b (dval radix a acc).
Proof. intros. unfold dval. apply fold_left_app. Qed.

Lemma to_digits_range : forall radix n x, 0 < radix -> Forall (fun d => 0 <= d < radix) (to_digits radix n x).
Proof.
  intros radix n. induction n as [|n IH]; intros x R; cbn [to_digits]; [constructor|].
  apply Forall_app. split; [apply IH; assumption|]. constructor; [|constructor]. apply Z.mod_pos_bound. assumption.
Qed.

Lemma to_digits_val : forall radix n x, 0 < radix -> dval radix (to_digits radix n x) 0 = x mod radix ^ Z.of_nat n.
Proof.
  intros radix n. induction n as [|n IH]; intros x R.
  - cbn. symmetry. apply Z.mod_1_r.
  - cbn [to_digits]. rewrite dval_app, IH by assumption. cbn [dval fold_left].
    rewrite Nat2Z.inj_succ, Z.pow_succ_r by lia.
    rewrite Z.rem_mul_r by (try lia; apply Z.pow_pos_nonneg; lia). lia.
Qed.

Lemma to_digits_length : forall radix n x, length (to_digits radix n x) = n.
Proof.
  intros radix n. induction n as [|n IH]; intros x; cbn [to_digits]; [reflexivity|].
  rewrite app_length, IH. cbn. lia.
Qed.

Lemma num_str_dchar : forall radix w x, rdx radix -> forallb dchar (num_str radix w x) = true.
Proof.
  intros radix w x R. unfold num_str. apply forallb_forall. intros c Hc. apply in_map_iff in Hc. destruct Hc as [d [E I]]. subst c.
  pose proof (to_digits_range radix w x ltac:(destruct R; lia)) as F. rewrite Forall_forall in F. specialize (F d I).
  apply dchar_char. destruct R; lia.
Qed.

Lemma from_str_radix_digits : forall signed radix lo hi c t, c <> 43 -> c <> 45 ->
  from_str_radix signed radix lo hi (c :: t) = parse_digits radix 1 lo hi 0 (c :: t).
Proof.
  intros signed radix lo hi c t H1 H2. unfold from_str_radix.
  apply Z.eqb_neq in H1. apply Z.eqb_neq in H2. rewrite H1, H2. destruct t; reflexivity.
Qed.

Lemma parse_num_str : forall signed radix lo hi w x, rdx radix -> fits radix w x = true -> lo <= 0 -> x <= hi ->
  from_str_radix signed radix lo hi (num_str radix w x) = Some x.
Proof.
  intros signed radix lo hi w x R F L H. unfold fits in F. bdestr.
  apply Z.ltb_lt in H0. apply Z.leb_le in H2. apply Z.ltb_lt in H1.
  assert (R0 : 0 < radix) by (destruct R; lia).
  pose proof (to_digits_range radix w x R0) as FD. pose proof (to_digits_val radix w x R0) as V.
  pose proof (to_digits_length radix w x) as LN. rewrite Z.mod_small in V by lia.
  unfold num_str. destruct (to_digits radix w x) as [|d ds] eqn:E; [cbn in LN; lia|].
  cbn [map]. inversion FD; subst.
  rewrite from_str_radix_digits.
  - change (digit_char d :: map digit_char ds) with (map digit_char (d :: ds)).
    rewrite parse_digits_num; try assumption; try lia. reflexivity.
  - pose proof (dchar_char d ltac:(destruct R; lia)) as D. unfold dchar in D. intro Q. rewrite Q in D. discriminate.
  - pose proof (dchar_char d ltac:(destruct R; lia)) as D. unfold dchar in D. intro Q. rewrite Q in D. discriminate.
Qed.

(* ------------------------------------------------------------------ splitting *)
Definition nosep (sep : Z) (l : list Z) : bool := forallb (fun c => negb (c =? sep)) l.

Lemma span_sep_app : forall sep a r, nosep sep a = true -> span_sep sep (a ++ sep :: r) = (a, Some r).
Proof.
  intros sep a r. induction a as [|c a IH]; intro H; cbn [app span_sep].
  - rewrite Z.eqb_refl. reflexivity.
  - cbn [nosep forallb] in H. bdestr. apply negb_true_iff in H. rewrite H, IH by assumption. reflexivity.
Qed.
Lemma span_sep_none : forall sep a, nosep sep a = true -> span_sep sep a = (a, None).
Proof.
  intros sep a. induction a as [|c a IH]; intro H; cbn [span_sep]; [reflexivity|].
  cbn [nosep forallb] in H. bdestr. apply negb_true_iff in H. rewrite H, IH by assumption. reflexivity.
Qed.
Lemma nosep_app : forall sep a b, nosep sep (a ++ b) = nosep sep a && nosep sep b.
Proof. intros. unfold nosep. apply forallb_app. Qed.
Lemma dchar_nosep : forall sep l, dchar sep = false -> forallb dchar l = true -> nosep sep l = true.
Proof.
  intros sep l S H. unfold nosep. apply forallb_forall. intros c I. rewrite forallb_forall in H. specialize (H c I).
  apply negb_true_iff. apply Z.eqb_neq. intro Q. subst c. rewrite S in H. discriminate.
Qed.

Lemma splitn6 : forall A P O D I rest, nosep 32 A = true -> nosep 32 P = true -> nosep 32 O = true -> nosep 32 D = true ->
  nosep 32 I = true -> splitn 6 32 (A ++ [32] ++ P ++ [32] ++ O ++ [32] ++ D ++ [32] ++ I ++ [32] ++ rest) = [A; P; O; D; I; rest].
Proof.
  intros. cbn [splitn app]. repeat (rewrite span_sep_app by assumption). reflexivity.
Qed.

(* ------------------------------------------------------------------ permission letters *)
Lemma perms_all : forallb (fun p => implb (negb (Z.testbit p 3 && Z.testbit p 4)) (parse_perms (perms_str p) =? p))
                          (map Z.of_nat (seq 0 32)) = true.
Proof. vm_compute. reflexivity. Qed.
Lemma perms_roundtrip : forall p, 0 <= p < 32 -> negb (Z.testbit p 3 && Z.testbit p 4) = true -> parse_perms (perms_str p) = p.
Proof.
  intros p R H. pose proof perms_all as A. rewrite forallb_forall in A.
  specialize (A p). rewrite H in A. cbn [implb] in A. apply Z.eqb_eq. apply A.
  apply in_map_iff. exists (Z.to_nat p). split; [lia|]. apply in_seq. lia.
Qed.
Lemma perms_nosep : forall p, nosep 32 (perms_str p) = true /\ nosep 10 (perms_str p) = true /\ nosep 13 (perms_str p) = true
                              /\ forallb (fun c => (0 <=? c) && (c <? 128)) (perms_str p) = true.
Proof.
  intro p. unfold perms_str, nosep. cbn [forallb].
  destruct (Z.testbit p 0), (Z.testbit p 1), (Z.testbit p 2), (Z.testbit p 3), (Z.testbit p 4); cbn; repeat split; reflexivity.
Qed.

(* ------------------------------------------------------------------ trimming *)
Lemma utrim_left_pad : forall n s, utrim_left (repeat 32 n ++ s) = utrim_left s.
Proof. induction n as [|n IH]; intro s; [reflexivity|]. cbn [repeat app utrim_left]. apply IH. Qed.

Lemma utrim_left_id : forall s, starts_ws s = false -> utrim_left s = s.
Proof.
  intros s H. destruct s as [|a [|b [|c t]]]; cbn [starts_ws utrim_left] in *; try reflexivity.
  - rewrite orb_false_r in H. rewrite H. reflexivity.
  - apply orb_false_iff in H as [H1 H2]. rewrite orb_false_r in H2. rewrite H1, H2. reflexivity.
  - apply orb_false_iff in H as [H1 H2]. apply orb_false_iff in H2 as [H2 H3]. rewrite H1, H2, H3. reflexivity.
Qed.
Lemma utrim_right_id : forall s, ends_ws s = false -> utrim_right s = s.
Proof.
  intros s H. destruct s as [|a [|b [|c t]]]; cbn [ends_ws utrim_right] in *; try reflexivity.
  - rewrite orb_false_r in H. rewrite H. reflexivity.
  - apply orb_false_iff in H as [H1 H2]. rewrite orb_false_r in H2. rewrite H1, H2. reflexivity.
  - apply orb_false_iff in H as [H1 H2]. apply orb_false_iff in H2 as [H2 H3]. rewrite H1, H2, H3. reflexivity.
Qed.
Lemma utrim_pad_id : forall n s, starts_ws s = false -> ends_ws (rev s) = false -> utrim (repeat 32 n ++ s) = s.
Proof.
  intros n s H1 H2. unfold utrim. rewrite utrim_left_pad, utrim_left_id, utrim_right_id, rev_involutive by assumption. reflexivity.
Qed.
Lemma utrim_pad_nil : forall n, utrim (repeat 32 n ++ []) = [].
Proof. intro n. unfold utrim. rewrite utrim_left_pad. reflexivity. Qed.

(* an ASCII byte that is not white space is a character of its own: nothing is trimmed past it *)
Lemma starts_ws_ascii : forall a t, ws1 a = false -> a < 128 -> starts_ws (a :: t) = false.
Proof.
  intros a t W A. cbn [starts_ws]. rewrite W. cbn [orb].
  assert (E1 : (a =? 194) = false) by (apply Z.eqb_neq; lia).
  assert (E2 : (a =? 225) = false) by (apply Z.eqb_neq; lia).
  assert (E3 : (a =? 226) = false) by (apply Z.eqb_neq; lia).
  assert (E4 : (a =? 227) = false) by (apply Z.eqb_neq; lia).
  destruct t as [|b [|c t]]; try reflexivity; unfold ws2, ws3; rewrite ?E1, ?E2, ?E3, ?E4; reflexivity.
Qed.
Lemma ends_ws_ascii : forall a t, ws1 a = false -> a < 128 -> ends_ws (a :: t) = false.
Proof.
  intros a t W A. cbn [ends_ws]. rewrite W. cbn [orb].
  assert (E1 : (a =? 133) = false) by (apply Z.eqb_neq; lia).
  assert (E2 : (a =? 160) = false) by (apply Z.eqb_neq; lia).
  assert (E3 : (a =? 128) = false) by (apply Z.eqb_neq; lia).
  assert (E4 : (a =? 159) = false) by (apply Z.eqb_neq; lia).
  assert (E5 : (128 <=? a) = false) by (apply Z.leb_gt; lia).
  assert (E6 : (a =? 168) = false) by (apply Z.eqb_neq; lia).
  assert (E7 : (a =? 169) = false) by (apply Z.eqb_neq; lia).
  assert (E8 : (a =? 175) = false) by (apply Z.eqb_neq; lia).
  destruct t as [|b [|c t]]; try reflexivity; unfold ws2, ws3; rewrite ?E1, ?E2, ?E3, ?E4, ?E5, ?E6, ?E7, ?E8;
    cbn [andb orb]; rewrite ?andb_false_r; reflexivity.
Qed.

Lemma list_eqb_eq : forall a b, list_eqb a b = true -> a = b.
Proof.
  induction a as [|x a IH]; intros [|y b] H; cbn [list_eqb] in H; try discriminate; [reflexivity|].
  apply andb_true_iff in H as [H1 H2]. apply Z.eqb_eq in H1. subst. f_equal. apply IH. assumption.
Qed.
Lemma last_byte_snoc : forall l a, last_byte (l ++ [a]) = a.
Proof. intros. unfold last_byte. apply last_last. Qed.
Lemma last_byte_rev : forall s a t, rev s = a :: t -> last_byte s = a.
Proof.
  intros s a t H. assert (E : s = rev t ++ [a]) by (rewrite <- (rev_involutive s), H; reflexivity).
  rewrite E. apply last_byte_snoc.
Qed.

Definition SPECIALS := [S_HEAP; S_STACK; S_VDSO; S_VVAR; S_VSYSCALL; S_ROLLUP].

(* the tail of classify once the special names are out of the way *)
Lemma classify_not_special : forall n x, utrim (repeat 32 n ++ x) = x -> list_eqb x [] = false -> existsb (list_eqb x) SPECIALS = false ->
  classify (repeat 32 n ++ x) =
  if is_prefix S_TSTACK x then
    if 128 <=? last_byte x then Panic 1
    else match span_sep 58 (inner x) with
         | (_, Some r) => match parse_u32 10 (fst (span_sep 58 r)) with Some tid => Ret (PTStack tid) | None => Fail end
         | (_, None) => Fail
         end
  else if (nth 0 x 0 =? 91) && (last_byte x =? 93) then Ret (POther (inner x))
  else if is_prefix S_SYSV x then
    if (length x <? 13)%nat || negb (char_boundary x 13) then Panic 2
    else match parse_u32 16 (firstn 8 (skipn 5 x)) with
         | Some v => Ret (PVsys (if v <? 2147483648 then v else v - 4294967296))
         | None => Fail
         end
  else Ret (PPath x).
Proof.
  intros n x U E S. unfold classify. rewrite U. cbv zeta. rewrite E.
  unfold SPECIALS in S. cbn [existsb] in S. repeat (apply orb_false_iff in S; destruct S as [?H S]).
  rewrite H, H0, H1, H2, H3, H4. reflexivity.
Qed.

Lemma classify_special : forall n x p, In (x, p) [(S_HEAP, PHeap); (S_STACK, PStack); (S_VDSO, PVdso); (S_VVAR, PVvar);
                                                  (S_VSYSCALL, PVsyscall); (S_ROLLUP, PRollup)] ->
  classify (repeat 32 n ++ x) = Ret p.
Proof.
  intros n x p I. unfold classify.
  assert (U : utrim (repeat 32 n ++ x) = x).
  { cbn [In] in I. repeat (destruct I as [I|I]; [inversion I; subst; apply utrim_pad_id; reflexivity|]). contradiction. }
  rewrite U. cbn [In] in I. repeat (destruct I as [I|I]; [inversion I; subst; reflexivity|]). contradiction.
Qed.

Lemma classify_anon : forall n, classify (repeat 32 n ++ []) = Ret PAnon.
Proof. intro n. unfold classify. rewrite utrim_pad_nil. reflexivity. Qed.

Lemma classify_path : forall n s, plain_name s = true -> list_eqb s [] = false -> (nth 0 s 0 =? 91) && (last_byte s =? 93) = false ->
  is_prefix S_TSTACK s = false -> is_prefix S_SYSV s = false -> classify (repeat 32 n ++ s) = Ret (PPath s).
Proof.
  intros n s P E B T V. unfold plain_name in P. bdestr. apply negb_true_iff in H0, H1.
  rewrite classify_not_special.
  - rewrite T, B, V. reflexivity.
  - apply utrim_pad_id; assumption.
  - assumption.
  - apply not_true_is_false. intro X. apply existsb_exists in X. destruct X as [y [I Q]]. apply list_eqb_eq in Q. subst y.
    unfold SPECIALS in I. cbn [In] in I.
    repeat (destruct I as [I|I]; [subst s; cbn in B; discriminate|]). contradiction.
Qed.

Lemma classify_other : forall n s, negb (is_prefix S_TSTACK ([91] ++ s ++ [93])) = true ->
  negb (existsb (list_eqb ([91] ++ s ++ [93])) SPECIALS) = true -> classify (repeat 32 n ++ [91] ++ s ++ [93]) = Ret (POther s).
Proof.
  intros n s T S. apply negb_true_iff in T, S.
  assert (L : last_byte ([91] ++ s ++ [93]) = 93) by (rewrite app_assoc; apply last_byte_snoc).
  rewrite classify_not_special.
  - rewrite T, L. cbn [app nth]. cbn. unfold inner. cbn [tl]. rewrite removelast_last. reflexivity.
  - apply utrim_pad_id.
    + apply starts_ws_ascii; [reflexivity|lia].
    + rewrite app_assoc, rev_app_distr. cbn [rev app]. apply ends_ws_ascii; [reflexivity|lia].
  - reflexivity.
  - assumption.
Qed.

Lemma num_str_last : forall radix w x, rdx radix -> (0 < w)%nat -> exists l d, num_str radix w x = l ++ [d] /\ dchar d = true.
Proof.
  intros radix w x R W. destruct w as [|w]; [lia|]. unfold num_str. cbn [to_digits]. rewrite map_app. cbn [map].
  eexists. eexists. split; [reflexivity|]. apply dchar_char. pose proof (Z.mod_pos_bound x radix). destruct R; lia.
Qed.
Lemma dchar_ascii : forall d, dchar d = true -> ws1 d = false /\ d < 128 /\ 0 <= d.
Proof.
  intros d H. unfold dchar in H. unfold ws1.
  assert (R : 48 <= d <= 102).
  { apply orb_true_iff in H. destruct H as [H|H]; apply andb_true_iff in H as [H1 H2]; apply Z.leb_le in H1, H2; lia. }
  split; [|lia]. apply orb_false_iff. split; [apply andb_false_iff; right; apply Z.leb_gt; lia|apply Z.eqb_neq; lia].
Qed.

Lemma classify_tstack : forall n w tid, fits 10 w tid = true -> tid <= U32MAX ->
  classify (repeat 32 n ++ S_TSTACK ++ num_str 10 w tid ++ [93]) = Ret (PTStack tid).
Proof.
  intros n w tid F M.
  assert (R : rdx 10) by (left; reflexivity).
  pose proof (num_str_dchar 10 w tid R) as D.
  set (x := S_TSTACK ++ num_str 10 w tid ++ [93]).
  assert (L : last_byte x = 93) by (unfold x; rewrite !app_assoc; apply last_byte_snoc).
  rewrite classify_not_special.
  - fold x.
    assert (PF : is_prefix S_TSTACK x = true) by reflexivity.
    assert (IN : inner x = [115; 116; 97; 99; 107] ++ 58 :: num_str 10 w tid).
    { unfold inner, x. cbn [S_TSTACK app tl].
      change (115 :: 116 :: 97 :: 99 :: 107 :: 58 :: num_str 10 w tid ++ [93]) with ([115; 116; 97; 99; 107; 58] ++ num_str 10 w tid ++ [93]).
      rewrite app_assoc, removelast_last. reflexivity. }
    rewrite PF, L, IN. change (128 <=? 93) with false. cbv iota.
    rewrite span_sep_app by reflexivity.
    rewrite span_sep_none by (apply dchar_nosep; [reflexivity|assumption]). cbn [fst].
    unfold parse_u32. rewrite parse_num_str; try assumption; try lia. reflexivity.
  - apply utrim_pad_id.
    + apply starts_ws_ascii; [reflexivity|lia].
    + unfold x. rewrite !app_assoc, rev_app_distr. cbn [rev app]. apply ends_ws_ascii; [reflexivity|lia].
  - reflexivity.
  - reflexivity.
Qed.

Lemma classify_vsys : forall n v (del : bool), -2147483648 <= v <= 2147483647 ->
  classify (repeat 32 n ++ S_SYSV ++ num_str 16 8 (v mod 4294967296) ++ (if del then S_DELETED else [])) = Ret (PVsys v).
Proof.
  intros n v del V.
  assert (R : rdx 16) by (right; reflexivity).
  set (y := v mod 4294967296).
  assert (Y : 0 <= y < 4294967296) by (apply Z.mod_pos_bound; lia).
  assert (F : fits 16 8 y = true).
  { unfold fits. apply andb_true_iff. split; [apply andb_true_iff; split|]; [reflexivity|apply Z.leb_le; lia|apply Z.ltb_lt].
    change (16 ^ Z.of_nat 8) with 4294967296. lia. }
  assert (P : from_str_radix false 16 0 U32MAX (num_str 16 8 y) = Some y) by (apply parse_num_str; try assumption; unfold U32MAX; lia).
  pose proof (num_str_dchar 16 8 y R) as D.
  assert (LN : length (num_str 16 8 y) = 8%nat) by (unfold num_str; rewrite map_length; apply to_digits_length).
  destruct (num_str 16 8 y) as [|d0 [|d1 [|d2 [|d3 [|d4 [|d5 [|d6 [|d7 [|d8 t]]]]]]]]]; cbn [length] in LN; try discriminate.
  cbn [forallb] in D. bdestr.
  set (x := S_SYSV ++ [d0; d1; d2; d3; d4; d5; d6; d7] ++ (if del then S_DELETED else [])).
  assert (VV : (if y <? 2147483648 then y else y - 4294967296) = v).
  { unfold y. destruct (Z.ltb_spec v 0).
    - rewrite <- (Z_mod_plus_full v 1 4294967296). rewrite Z.mod_small by lia.
      destruct (Z.ltb_spec (v + 1 * 4294967296) 2147483648); lia.
    - rewrite Z.mod_small by lia. destruct (Z.ltb_spec v 2147483648); lia. }
  rewrite classify_not_special.
  - unfold x. cbn [S_SYSV app is_prefix]. cbn -[parse_u32 Z.ltb Z.sub].
    destruct del; cbn -[parse_u32 Z.ltb Z.sub]; unfold parse_u32; rewrite P, VV; reflexivity.
  - apply utrim_pad_id.
    + apply starts_ws_ascii; [reflexivity|lia].
    + destruct del.
      * unfold x. cbn [S_SYSV S_DELETED app]. cbn [rev app]. apply ends_ws_ascii; [reflexivity|lia].
      * unfold x. cbn [S_SYSV app rev]. apply dchar_ascii in H6. destruct H6 as [W [A _]]. apply ends_ws_ascii; assumption.
  - reflexivity.
  - reflexivity.
Qed.

(* ------------------------------------------------------------------ UTF-8 validity of a concatenation *)
Lemma valid_utf8_app : forall a b, valid_utf8 a = true -> valid_utf8 b = true -> valid_utf8 (a ++ b) = true.
Proof.
  fix IH 1. intros a b Ha Hb. destruct a as [|b0 t]; [exact Hb|].
  cbn [app]. cbn [valid_utf8] in Ha |- *.
  destruct ((0 <=? b0) && (b0 <? 128)); [apply IH; assumption|].
  destruct ((194 <=? b0) && (b0 <=? 223)).
  { destruct t as [|b1 t]; [discriminate|]. cbn [app]. apply andb_true_iff in Ha as [H1 H2]. rewrite H1. apply IH; assumption. }
  destruct (b0 =? 224).
  { destruct t as [|b1 [|b2 t]]; try discriminate. cbn [app]. apply andb_true_iff in Ha as [H1 H2]. rewrite H1. apply IH; assumption. }
  destruct ((225 <=? b0) && (b0 <=? 236) || (b0 =? 238) || (b0 =? 239)).
  { destruct t as [|b1 [|b2 t]]; try discriminate. cbn [app]. apply andb_true_iff in Ha as [H1 H2]. rewrite H1. apply IH; assumption. }
  destruct (b0 =? 237).
  { destruct t as [|b1 [|b2 t]]; try discriminate. cbn [app]. apply andb_true_iff in Ha as [H1 H2]. rewrite H1. apply IH; assumption. }
  destruct (b0 =? 240).
  { destruct t as [|b1 [|b2 [|b3 t]]]; try discriminate. cbn [app]. apply andb_true_iff in Ha as [H1 H2]. rewrite H1. apply IH; assumption. }
  destruct ((241 <=? b0) && (b0 <=? 243)).
  { destruct t as [|b1 [|b2 [|b3 t]]]; try discriminate. cbn [app]. apply andb_true_iff in Ha as [H1 H2]. rewrite H1. apply IH; assumption. }
  destruct (b0 =? 244).
  { destruct t as [|b1 [|b2 [|b3 t]]]; try discriminate. cbn [app]. apply andb_true_iff in Ha as [H1 H2]. rewrite H1. apply IH; assumption. }
  discriminate.
Qed.

Definition ascii (l : list Z) : bool := forallb (fun c => (0 <=? c) && (c <? 128)) l.
Lemma ascii_valid : forall l, ascii l = true -> valid_utf8 l = true.
Proof.
  induction l as [|c l IH]; intro H; [reflexivity|]. cbn [ascii forallb] in H. apply andb_true_iff in H as [H1 H2].
  cbn [valid_utf8]. rewrite H1. apply IH. exact H2.
Qed.
Lemma ascii_app : forall a b, ascii (a ++ b) = ascii a && ascii b.
Proof. intros. apply forallb_app. Qed.
Lemma dchar_ascii_list : forall l, forallb dchar l = true -> ascii l = true.
Proof.
  intros l H. apply forallb_forall. intros c I. rewrite forallb_forall in H. specialize (H c I). apply dchar_ascii in H.
  apply andb_true_iff. split; [apply Z.leb_le|apply Z.ltb_lt]; lia.
Qed.
Lemma repeat_sp_ascii : forall n, ascii (repeat 32 n) = true.
Proof. induction n; [reflexivity|]. cbn [repeat ascii forallb]. exact IHn. Qed.

(* no line break *)
Definition noeol (l : list Z) : bool := no_eol l.
Lemma no_eol_app : forall a b, no_eol (a ++ b) = no_eol a && no_eol b.
Proof. intros. apply forallb_app. Qed.
Lemma dchar_no_eol : forall l, forallb dchar l = true -> no_eol l = true.
Proof.
  intros l H. apply forallb_forall. intros c I. rewrite forallb_forall in H. specialize (H c I). apply dchar_ascii in H.
  unfold dchar in *. destruct H as [W [A B]]. unfold ws1 in W. apply orb_false_iff in W as [W1 W2].
  apply andb_true_iff. split; apply negb_true_iff; apply Z.eqb_neq; intro Q; subst c; discriminate.
Qed.
Lemma repeat_sp_no_eol : forall n, no_eol (repeat 32 n) = true.
Proof. induction n; [reflexivity|]. cbn [repeat no_eol forallb]. exact IHn. Qed.

Lemma path_ok : forall f p, wf_path f p = true ->
  classify (repeat 32 (n_pad f) ++ path_str f p) = Ret p /\ valid_utf8 (path_str f p) = true /\ no_eol (path_str f p) = true.
Proof.
  intros f p W. destruct p; cbn [wf_path path_str] in *.
  - (* path *) bdestr. apply negb_true_iff in H3, H2, H1, H0. split; [apply classify_path; assumption|].
    unfold plain_name in H. bdestr. split; assumption.
  - split; [apply classify_special; cbn; tauto|split; reflexivity].
  - split; [apply classify_special; cbn; tauto|split; reflexivity].
  - (* thread stack *) bdestr. apply Z.leb_le in H0. split; [apply classify_tstack; assumption|].
    pose proof (num_str_dchar 10 (w_tid f) tid (or_introl eq_refl)) as D.
    split.
    + apply ascii_valid. rewrite !ascii_app. rewrite (dchar_ascii_list _ D). reflexivity.
    + rewrite !no_eol_app. rewrite (dchar_no_eol _ D). reflexivity.
  - split; [apply classify_special; cbn; tauto|split; reflexivity].
  - split; [apply classify_special; cbn; tauto|split; reflexivity].
  - split; [apply classify_special; cbn; tauto|split; reflexivity].
  - split; [apply classify_special; cbn; tauto|split; reflexivity].
  - split; [apply classify_anon|split; reflexivity].
  - (* SysV *) bdestr. apply Z.leb_le in H, H0. split; [apply classify_vsys; lia|].
    pose proof (num_str_dchar 16 8 (v mod 4294967296) (or_intror eq_refl)) as D.
    split.
    + apply ascii_valid. rewrite !ascii_app. rewrite (dchar_ascii_list _ D). destruct (deleted f); reflexivity.
    + rewrite !no_eol_app. rewrite (dchar_no_eol _ D). destruct (deleted f); reflexivity.
  - (* other *) bdestr. split; [apply classify_other; assumption|]. split.
    + apply valid_utf8_app; [reflexivity|]. apply valid_utf8_app; [assumption|reflexivity].
    + rewrite !no_eol_app. rewrite H2. reflexivity.
Qed.

Definition entry_line (fm : mfmt * mmap) : list Z := fmt_entry (fst fm) (snd fm).

Lemma line_ok : forall fm, wf_entry fm = true ->
  from_line (entry_line fm) = Ret (snd fm) /\ valid_utf8 (entry_line fm) = true /\ no_eol (entry_line fm) = true
  /\ match entry_line fm with c :: _ => is_upper c | [] => false end = false.
Proof.
  intros [f m] W. unfold entry_line. cbn [fst snd]. unfold wf_entry in W. cbn [fst snd] in W.
  apply andb_true_iff in W as [W WP]. apply andb_true_iff in W as [W I2]. apply andb_true_iff in W as [W I1].
  apply andb_true_iff in W as [W N2]. apply andb_true_iff in W as [W N1]. apply andb_true_iff in W as [W J2].
  apply andb_true_iff in W as [W J1]. apply andb_true_iff in W as [W O2]. apply andb_true_iff in W as [W O1].
  apply andb_true_iff in W as [W PX]. apply andb_true_iff in W as [W P2]. apply andb_true_iff in W as [W P1].
  apply andb_true_iff in W as [W B2]. apply andb_true_iff in W as [W B1]. apply andb_true_iff in W as [A1 A2].
  apply Z.leb_le in I2, N2, J2, O2, P1, B2, A2. apply Z.ltb_lt in P2.
  destruct (path_ok f (mm_path m) WP) as [PC [PV PE]].
  assert (R16 : rdx 16) by (right; reflexivity). assert (R10 : rdx 10) by (left; reflexivity).
  pose proof (num_str_dchar 16 (w_addr f) (mm_lo m) R16) as D1. pose proof (num_str_dchar 16 (w_addr f) (mm_hi m) R16) as D2.
  pose proof (num_str_dchar 16 (w_off f) (mm_off m) R16) as D3. pose proof (num_str_dchar 16 (w_dev f) (mm_maj m) R16) as D4.
  pose proof (num_str_dchar 16 (w_dev f) (mm_min m) R16) as D5. pose proof (num_str_dchar 10 (w_ino f) (mm_inode m) R10) as D6.
  destruct (perms_nosep (mm_perms m)) as [PS [PL [PR PA]]].
  split; [|split; [|split]].
  - unfold from_line, fmt_entry. rewrite splitn6.
    + unfold split_into_num. cbn [app].
      rewrite span_sep_app by (apply dchar_nosep; [reflexivity|assumption]).
      rewrite span_sep_none by (apply dchar_nosep; [reflexivity|assumption]). cbn [fst].
      unfold parse_u64. rewrite !parse_num_str; try assumption; try lia; try (unfold U64MAX in *; lia).
      rewrite span_sep_app by (apply dchar_nosep; [reflexivity|assumption]).
      rewrite span_sep_none by (apply dchar_nosep; [reflexivity|assumption]). cbn [fst].
      unfold parse_i32. rewrite !parse_num_str; try assumption; try lia.
      rewrite PC. cbn [obind]. rewrite perms_roundtrip by (try lia; assumption). destruct m; reflexivity.
    + rewrite nosep_app. cbn [app]. rewrite (dchar_nosep 32 _ eq_refl D1). cbn [nosep forallb]. cbn [andb negb Z.eqb].
      change (forallb (fun c => negb (c =? 32)) (num_str 16 (w_addr f) (mm_hi m))) with (nosep 32 (num_str 16 (w_addr f) (mm_hi m))).
      rewrite (dchar_nosep 32 _ eq_refl D2). reflexivity.
    + exact PS.
    + apply dchar_nosep; [reflexivity|assumption].
    + rewrite nosep_app. cbn [app]. rewrite (dchar_nosep 32 _ eq_refl D4). cbn [nosep forallb]. cbn [andb negb Z.eqb].
      change (forallb (fun c => negb (c =? 32)) (num_str 16 (w_dev f) (mm_min m))) with (nosep 32 (num_str 16 (w_dev f) (mm_min m))).
      rewrite (dchar_nosep 32 _ eq_refl D5). reflexivity.
    + apply dchar_nosep; [reflexivity|assumption].
  - unfold fmt_entry. apply valid_utf8_app; [|exact PV] || idtac.
    repeat (apply valid_utf8_app); try reflexivity; try (apply ascii_valid; apply dchar_ascii_list; assumption);
      try (apply ascii_valid; assumption); try (apply ascii_valid; apply repeat_sp_ascii); try exact PV.
  - unfold fmt_entry. rewrite !no_eol_app. rewrite (dchar_no_eol _ D1), (dchar_no_eol _ D2), (dchar_no_eol _ D3), (dchar_no_eol _ D4),
      (dchar_no_eol _ D5), (dchar_no_eol _ D6), repeat_sp_no_eol, PE.
    assert (PN : no_eol (perms_str (mm_perms m)) = true).
    { unfold perms_str, no_eol. cbn [forallb].
      destruct (Z.testbit (mm_perms m) 0), (Z.testbit (mm_perms m) 1), (Z.testbit (mm_perms m) 2), (Z.testbit (mm_perms m) 3), (Z.testbit (mm_perms m) 4); reflexivity. }
    rewrite PN. reflexivity.
  - unfold fmt_entry. unfold fits in A1. bdestr. apply Z.ltb_lt in H.
    destruct (w_addr f) as [|w]; [cbn in H; lia|].
    unfold num_str at 1. pose proof (to_digits_length 16 (S w) (mm_lo m)) as LN. pose proof (to_digits_range 16 (S w) (mm_lo m) ltac:(lia)) as FR.
    destruct (to_digits 16 (S w) (mm_lo m)) as [|d ds]; [cbn in LN; lia|]. inversion FR; subst. cbn [map app].
    match goal with Hd : 0 <= d < 16 |- _ => pose proof (dchar_char d Hd) as DC end. unfold dchar in DC. unfold is_upper.
    apply andb_false_iff. apply orb_true_iff in DC. destruct DC as [DC|DC]; apply andb_true_iff in DC as [Q1 Q2]; apply Z.leb_le in Q1, Q2;
      [left|right]; apply Z.leb_gt; lia.
Qed.

Lemma no_eol_lf : forall l, no_eol l = true -> forallb (fun c => negb (c =? 10)) l = true.
Proof.
  intros l H. apply forallb_forall. intros c I. unfold no_eol in H. rewrite forallb_forall in H. specialize (H c I).
  apply andb_true_iff in H. tauto.
Qed.
Lemma strip_cr_id : forall l, no_eol l = true -> strip_cr l = l.
Proof.
  intros l H. unfold strip_cr. destruct (rev l) as [|a r] eqn:E; [reflexivity|].
  assert (I : In a l) by (apply in_rev; rewrite E; left; reflexivity).
  unfold no_eol in H. rewrite forallb_forall in H. specialize (H a I). apply andb_true_iff in H as [_ H].
  apply negb_true_iff in H. apply Z.eqb_neq in H.
  destruct a as [|a|a]; try reflexivity. repeat (destruct a as [a|a|]; try reflexivity). contradiction.
Qed.

Lemma split_on_lines : forall ls, Forall (fun l => no_eol l = true) ls ->
  split_on 10 (flat_map (fun l => l ++ [10]) ls) = ls ++ [[]].
Proof.
  induction ls as [|l ls IH]; intro F; [reflexivity|]. inversion F; subst. cbn [flat_map].
  unfold split_on. rewrite <- app_assoc. cbn [app]. rewrite split_on_aux_line by (apply no_eol_lf; assumption).
  cbn [rev app]. fold (split_on 10 (flat_map (fun l0 => l0 ++ [10]) ls)). rewrite IH by assumption. reflexivity.
Qed.
Lemma lines_of_snoc : forall ls, lines_of (ls ++ [[]]) = map strip_cr ls.
Proof.
  induction ls as [|l ls IH]; [reflexivity|]. cbn [app lines_of map]. rewrite <- IH.
  destruct ls; reflexivity.
Qed.
Lemma buf_lines_text : forall ls, Forall (fun l => no_eol l = true) ls -> buf_lines (flat_map (fun l => l ++ [10]) ls) = ls.
Proof.
  intros ls F. unfold buf_lines. rewrite split_on_lines, lines_of_snoc by assumption.
  induction F; [reflexivity|]. cbn [map]. rewrite strip_cr_id, IHF by assumption. reflexivity.
Qed.

Lemma maps_loop_ok : forall p l cur acc, Forall (fun fm => wf_entry fm = true) l ->
  maps_loop p (map entry_line l) cur acc = Ret (rev acc ++ match cur with Some m => [m] | None => [] end ++ map snd l).
Proof.
  intros p l. induction l as [|fm l IH]; intros cur acc F.
  - cbn [map maps_loop]. destruct cur; cbn [rev app]; rewrite ?app_nil_r; reflexivity.
  - inversion F; subst. destruct (line_ok fm H1) as [FL [VU [NE UP]]].
    cbn [map maps_loop]. rewrite VU, UP, FL. cbn [negb obind]. rewrite IH by assumption.
    destruct cur; cbn [rev app]; rewrite <- ?app_assoc; reflexivity.
Qed.

Lemma maps_text_lines : forall l, maps_text l = flat_map (fun ln => ln ++ [10]) (map entry_line l).
Proof. induction l as [|fm l IH]; [reflexivity|]. cbn [maps_text flat_map map]. unfold maps_text in IH. rewrite IH. reflexivity. Qed.

(* what the kernel writes for any list of mappings reads back as exactly these mappings, in both build profiles *)
Theorem maps_roundtrip : forall p l, forallb wf_entry l = true -> parse_maps p (maps_text l) = Ret (map snd l).
Proof.
  intros p l W. assert (F : Forall (fun fm => wf_entry fm = true) l) by (apply Forall_forall; apply forallb_forall; exact W).
  unfold parse_maps. rewrite maps_text_lines, buf_lines_text.
  - rewrite maps_loop_ok by assumption. reflexivity.
  - apply Forall_forall. intros ln I. apply in_map_iff in I. destruct I as [fm [E I]]. subst ln.
    rewrite Forall_forall in F. destruct (line_ok fm (F fm I)) as [_ [_ [NE _]]]. exact NE.
Qed.

(* ... and inside a whole dump: a model whose LinuxMaps stream is such a listing, serialized in either byte order with any other
   streams around it, read back with Minidump::read, get_stream::<MinidumpLinuxMaps> yields exactly the mappings *)
Theorem maps_in_dump : forall p e m l, wf_model e m = true -> m_lx_maps m = Some (maps_text l) -> forallb wf_entry l = true ->
  option_map (linux_maps_of p) (decode_dump (encode_dump e m)) = Some (SOk (Ret (map snd l))).
Proof.
  intros p e m l W M F. rewrite dump_roundtrip by exact W. cbn [option_map]. unfold linux_maps_of, view_of. cbn [v_lx_maps].
  rewrite M. cbn [sres_of]. rewrite maps_roundtrip by exact F. reflexivity.
Qed.

(* the regions keep their order and their address pair: memory_range() is Some exactly for lo <= hi *)
Lemma maps_range : forall m, mm_range_ok m = true <-> mm_lo m <= mm_hi m.
Proof. intro m. unfold mm_range_ok. apply Z.leb_le. Qed.

(* non-vacuity: a four-line listing with a path containing blanks and non-ASCII characters, a thread stack, a deleted SysV segment
   with a negative key and an anonymous mapping at the top of the address space *)
Definition ex_fmt := {| w_addr := 16; w_off := 8; w_dev := 2; w_ino := 7; w_tid := 3; n_pad := 5; deleted := true |}.
Definition ex_maps : list (mfmt * mmap) :=
  [ (ex_fmt, {| mm_lo := 4194304; mm_hi := 4530176; mm_perms := 21; mm_off := 0; mm_maj := 8; mm_min := 2; mm_inode := 173521;
                mm_path := PPath [47; 117; 115; 114; 47; 195; 169; 32; 120] |});
    (ex_fmt, {| mm_lo := 140737488347136; mm_hi := 140737488351232; mm_perms := 19; mm_off := 0; mm_maj := 0; mm_min := 0; mm_inode := 0;
                mm_path := PTStack 42 |});
    (ex_fmt, {| mm_lo := 65536; mm_hi := 131072; mm_perms := 11; mm_off := 4096; mm_maj := 0; mm_min := 5; mm_inode := 32769;
                mm_path := PVsys (-2) |});
    ({| w_addr := 16; w_off := 8; w_dev := 2; w_ino := 1; w_tid := 1; n_pad := 0; deleted := false |},
     {| mm_lo := 18446744073709547520; mm_hi := 18446744073709551615; mm_perms := 16; mm_off := 0; mm_maj := 0; mm_min := 0; mm_inode := 0;
        mm_path := PAnon |}) ].
Example maps_nonvacuous : forallb wf_entry ex_maps = true /\ parse_maps Debug (maps_text ex_maps) = Ret (map snd ex_maps)
                          /\ zlen (maps_text ex_maps) = 304.
Proof. vm_compute. repeat split; reflexivity. Qed.
