(* C02/Layout.v — generic layout codec for the `#[derive(Pread, SizeWith)]` structs of
   minidump-common/src/format.rs.  scroll's derive reads the fields in declaration order,
   without padding, each with the context's endianness; arrays element by element; nested
   structs recursively.  Definitions only; coq/Gen/Layouts.v (regenerated from format.rs on
   every run) instantiates [layout] for every struct the dump model uses. *)
From RM Require Export Base.Word.

Inductive endian := LE | BE.

(* w = width in bytes *)
Inductive layout :=
| LU (w : nat)                    (* u8/u16/u32/u64 *)
| LI (w : nat)                    (* i8/i16/i32/i64, two's complement *)
| LArr (n : nat) (t : layout)     (* [t; n] *)
| LNil                            (* end of struct *)
| LSeq (t rest : layout).         (* field of type t, then the remaining fields *)

(* value trees: a struct or an array is a right-nested VSeq chain ending in VNil *)
Inductive value := VInt (z : Z) | VNil | VSeq (v rest : value).

Definition zlen {A} (l : list A) : Z := Z.of_nat (length l).

Fixpoint ule_enc (w : nat) (z : Z) : list Z :=
  match w with O => [] | S w' => (z mod 256) :: ule_enc w' (z / 256) end.
Fixpoint ule_dec (l : list Z) : Z :=
  match l with [] => 0 | b :: t => b + 256 * ule_dec t end.
Definition enc_uint (e : endian) (w : nat) (z : Z) : list Z :=
  match e with LE => ule_enc w z | BE => rev (ule_enc w z) end.
Definition dec_uint (e : endian) (l : list Z) : Z :=
  match e with LE => ule_dec l | BE => ule_dec (rev l) end.

Definition wbits (w : nat) : Z := 256 ^ Z.of_nat w.

(* gread: None when fewer than n bytes are left *)
Definition take (n : nat) (l : list Z) : option (list Z * list Z) :=
  if (n <=? length l)%nat then Some (firstn n l, skipn n l) else None.

Fixpoint lsize (L : layout) : Z :=
  match L with
  | LU w => Z.of_nat w
  | LI w => Z.of_nat w
  | LArr n t => Z.of_nat n * lsize t
  | LNil => 0
  | LSeq t r => lsize t + lsize r
  end.

Fixpoint enc (e : endian) (L : layout) (v : value) {struct L} : list Z :=
  match L with
  | LU w => match v with VInt z => enc_uint e w z | _ => [] end
  | LI w => match v with VInt z => enc_uint e w (z mod wbits w) | _ => [] end
  | LNil => []
  | LSeq t r => match v with VSeq a b => enc e t a ++ enc e r b | _ => [] end
  | LArr n t =>
      (fix arr (n : nat) (v : value) {struct n} : list Z :=
         match n, v with
         | S n', VSeq a b => enc e t a ++ arr n' b
         | _, _ => []
         end) n v
  end.

Fixpoint dec (e : endian) (L : layout) (bs : list Z) {struct L} : option (value * list Z) :=
  match L with
  | LU w => match take w bs with
            | Some (h, r) => Some (VInt (dec_uint e h), r)
            | None => None
            end
  | LI w => match take w bs with
            | Some (h, r) => let u := dec_uint e h in
                             Some (VInt (if 2 * u <? wbits w then u else u - wbits w), r)
            | None => None
            end
  | LNil => Some (VNil, bs)
  | LSeq t r => match dec e t bs with
                | Some (a, bs1) => match dec e r bs1 with
                                   | Some (b, bs2) => Some (VSeq a b, bs2)
                                   | None => None
                                   end
                | None => None
                end
  | LArr n t =>
      (fix arr (n : nat) (bs : list Z) {struct n} : option (value * list Z) :=
         match n with
         | O => Some (VNil, bs)
         | S n' => match dec e t bs with
                   | Some (a, bs1) => match arr n' bs1 with
                                      | Some (b, bs2) => Some (VSeq a b, bs2)
                                      | None => None
                                      end
                   | None => None
                   end
         end) n bs
  end.

(* well-typed values: every integer in the range of its field, every array of its length *)
Fixpoint wt (L : layout) (v : value) {struct L} : bool :=
  match L with
  | LU w => match v with VInt z => (0 <=? z) && (z <? wbits w) | _ => false end
  | LI w => match v with VInt z => (- wbits w <=? 2 * z) && (2 * z <? wbits w) | _ => false end
  | LNil => match v with VNil => true | _ => false end
  | LSeq t r => match v with VSeq a b => wt t a && wt r b | _ => false end
  | LArr n t =>
      (fix arr (n : nat) (v : value) {struct n} : bool :=
         match n, v with
         | O, VNil => true
         | S n', VSeq a b => wt t a && arr n' b
         | _, _ => false
         end) n v
  end.

(* helpers to build and take apart value trees *)
Fixpoint vtuple (l : list value) : value :=
  match l with [] => VNil | v :: t => VSeq v (vtuple t) end.
Definition varr (l : list Z) : value := vtuple (map VInt l).
Fixpoint unvarr (v : value) : option (list Z) :=
  match v with
  | VNil => Some []
  | VSeq (VInt z) r => match unvarr r with Some l => Some (z :: l) | None => None end
  | _ => None
  end.
(* all integers of a value tree, left to right (used for structs kept as flat integer lists) *)
Fixpoint vflat (v : value) : list Z :=
  match v with VInt z => [z] | VNil => [] | VSeq a b => vflat a ++ vflat b end.
(* rebuild a value of layout L from a flat integer list; returns the unused integers *)
Fixpoint unflat (L : layout) (l : list Z) {struct L} : option (value * list Z) :=
  match L with
  | LU _ | LI _ => match l with z :: t => Some (VInt z, t) | [] => None end
  | LNil => Some (VNil, l)
  | LSeq t r => match unflat t l with
                | Some (a, l1) => match unflat r l1 with
                                  | Some (b, l2) => Some (VSeq a b, l2)
                                  | None => None
                                  end
                | None => None
                end
  | LArr n t =>
      (fix arr (n : nat) (l : list Z) {struct n} : option (value * list Z) :=
         match n with
         | O => Some (VNil, l)
         | S n' => match unflat t l with
                   | Some (a, l1) => match arr n' l1 with
                                     | Some (b, l2) => Some (VSeq a b, l2)
                                     | None => None
                                     end
                   | None => None
                   end
         end) n l
  end.

(* location_slice / <[u8]>::get(start..end) *)
Definition slice (all : list Z) (off n : Z) : option (list Z) :=
  if (0 <=? off) && (0 <=? n) && (off + n <=? zlen all)
  then Some (firstn (Z.to_nat n) (skipn (Z.to_nat off) all))
  else None.
