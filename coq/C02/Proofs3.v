(* C02/Proofs3.v — the concrete item codecs and single-struct streams *)
From Coq Require Import Lia.
From RM Require Import C02.Model C02.Proofs1 C02.Proofs2.
Open Scope Z_scope.

Ltac lsize_tac :=
  match goal with
  | |- 1 <= ?x < _ => let v := eval vm_compute in x in change x with v; lia
  end.
Ltac ubits := unfold u32b, u16b, u64b in *; rewrite ?wbits4, ?wbits8, ?wbits2 in *.
Ltac wtsolve := unfold vloc; wt_open; rewrite ?wt_seq, ?wt_lu, ?wt_nil; rewrite ?wbits4, ?wbits8, ?wbits2, ?wbits1;
  bsplit; try reflexivity; try assumption; try (apply Z.leb_le; unfold U32M in *; lia); try (apply Z.ltb_lt; unfold U32M in *; lia).
Ltac hyps := ubits; bdestr; b2z; rewrite ?zlen_app in *; change (zlen (@nil Z)) with 0 in *.
Ltac rng := apply andb_true_intro; split; [apply Z.leb_le | apply Z.ltb_lt]; unfold U32M in *; try lia.

(* ------------------------------------------------------------------ memory regions *)
Definition wf_region (r : mregion) : bool := u64b (mr_base r) && (0 <? zlen (mr_bytes r)).

Lemma region_ok : forall e, icodec_ok region_codec e wf_region.
Proof.
  intro e. constructor.
  - cbn [ic_layout region_codec]. lsize_tac.
  - intros r off H. reflexivity.
  - intros [base bytes] off H Hoff Hb. unfold wf_region in H. cbn [mr_base mr_bytes ic_aux region_codec] in *.
    hyps.
    cbn [ic_layout ic_value region_codec mr_base mr_bytes]. unfold L_MINIDUMP_MEMORY_DESCRIPTOR, L_MINIDUMP_LOCATION_DESCRIPTOR.
    wtsolve.
  - intros [base bytes] pre post H Hpre Hb. unfold wf_region in H. cbn [mr_base mr_bytes ic_aux region_codec] in *.
    bdestr. b2z.
    cbn [ic_read ic_value region_codec vtuple vloc mr_base mr_bytes].
    replace (zlen pre =? 0) with false by (symmetry; apply Z.eqb_neq; lia).
    replace (zlen bytes =? 0) with false by (symmetry; apply Z.eqb_neq; lia).
    cbn [orb]. rewrite slice_mid. reflexivity.
Qed.

(* ------------------------------------------------------------------ threads *)
Definition wf_thread (t : mthread) : bool :=
  u32b (th_id t) && u32b (th_suspend t) && u32b (th_pclass t) && u32b (th_prio t) && u64b (th_teb t)
  && u64b (th_stack_base t)
  && match th_stack t with Some b => 0 <? zlen b | None => true end
  && match th_ctx t with Some _ => true | None => false end.

Lemma thread_ok : forall e, icodec_ok thread_codec e wf_thread.
Proof.
  intro e. constructor.
  - cbn [ic_layout thread_codec]. lsize_tac.
  - intros t off H. destruct t as [id su pc pr teb sb st cx]. cbn [ic_layout ic_value thread_codec th_stack th_ctx].
    destruct st, cx; reflexivity.
  - intros [id su pc pr teb sb st cx] off H Hoff Hb. unfold wf_thread in H.
    cbn [th_id th_suspend th_pclass th_prio th_teb th_stack_base th_stack th_ctx ic_aux thread_codec] in *.
    destruct cx as [cx|]; [|bdestr; discriminate].
    cbn [ic_layout ic_value thread_codec th_id th_suspend th_pclass th_prio th_teb th_stack_base th_stack th_ctx].
    unfold L_MINIDUMP_THREAD, L_MINIDUMP_MEMORY_DESCRIPTOR, L_MINIDUMP_LOCATION_DESCRIPTOR.
    pose proof (zlen_nonneg _ cx).
    destruct st as [st|]; cbn [obytes] in *; [pose proof (zlen_nonneg _ st)|]; hyps; wtsolve.
  - intros [id su pc pr teb sb st cx] pre post H Hpre Hb. unfold wf_thread in H.
    cbn [th_id th_suspend th_pclass th_prio th_teb th_stack_base th_stack th_ctx ic_aux thread_codec] in *.
    destruct cx as [cx|]; [|bdestr; discriminate].
    cbn [ic_read ic_value thread_codec vtuple vloc th_id th_suspend th_pclass th_prio th_teb th_stack_base th_stack th_ctx].
    destruct st as [st|]; cbn [obytes] in *.
    + bdestr. b2z.
      replace (zlen pre =? 0) with false by (symmetry; apply Z.eqb_neq; lia).
      replace (zlen st =? 0) with false by (symmetry; apply Z.eqb_neq; lia).
      cbn [orb].
      rewrite <- (app_assoc st). rewrite slice_mid.
      replace (pre ++ st ++ cx ++ post) with ((pre ++ st) ++ cx ++ post) by (rewrite <- app_assoc; reflexivity).
      rewrite (slice_mid' (pre ++ st) cx post) by (rewrite ?zlen_app; reflexivity).
      reflexivity.
    + cbn [zlen length Z.of_nat]. rewrite Z.eqb_refl. rewrite orb_true_r. cbn [app].
      rewrite (slice_mid' pre cx post) by lia. reflexivity.
Qed.

(* ------------------------------------------------------------------ modules *)
Definition wf_module (e : endian) (m : mmodule) : bool :=
  u64b (md_base m) && u32b (md_size m) && negb (bad_image (md_base m) (md_size m))
  && u32b (md_checksum m) && u32b (md_time m) && wf_string (md_name m)
  && wt L_VS_FIXEDFILEINFO (varr (md_ver m)) && wf_cv e (md_cv m)
  && u32b (fst (md_misc m)) && u32b (snd (md_misc m))
  && (length (md_res m) =? 4)%nat && all_in 4 (md_res m).

Lemma enc_cv_pos : forall e c, wf_cv e c = true -> c <> CvNone -> 0 < zlen (enc_cv e c).
Proof.
  intros e c H Hne. destruct c as [|d1 d2 d3 d4 age file|off s age file|bid|raw]; [congruence| | | |]; cbn [enc_cv].
  - rewrite zlen_app, (enc_zlen_endian e LE). pose proof (zlen_nonneg _ file).
    cbn [wf_cv] in H. bdestr.
    assert (Hd4 : length d4 = 8%nat) by (apply Nat.eqb_eq; assumption).
    rewrite enc_zlen_shape.
    + let v := eval vm_compute in (lsize L_CV_INFO_PDB70) in change (lsize L_CV_INFO_PDB70) with v. lia.
    + unfold L_CV_INFO_PDB70, L_GUID. cbn [vtuple]. rewrite !shape_seq.
      rewrite (wt_shape (LArr 8 (LU 1)) (varr d4)) by (apply wt_varr'; assumption). reflexivity.
  - rewrite zlen_app. pose proof (zlen_nonneg _ file).
    rewrite enc_zlen_shape by reflexivity.
    let v := eval vm_compute in (lsize L_CV_INFO_PDB20) in change (lsize L_CV_INFO_PDB20) with v. lia.
  - rewrite zlen_app. pose proof (zlen_nonneg _ bid).
    rewrite enc_zlen_shape by reflexivity.
    let v := eval vm_compute in (lsize L_CV_INFO_ELF) in change (lsize L_CV_INFO_ELF) with v. lia.
  - cbn [wf_cv] in H. destruct (take 4 raw) as [[h r]|] eqn:E; [|discriminate].
    apply take_some in E. destruct E as [E1 E2]. subst raw. rewrite zlen_app. unfold zlen. lia.
Qed.

Lemma module_ok : forall e, icodec_ok module_codec e (wf_module e).
Proof.
  intro e. constructor.
  - cbn [ic_layout module_codec]. lsize_tac.
  - intros [base size ck tm name ver cv misc res] off H. unfold wf_module in H.
    cbn [md_base md_size md_checksum md_time md_name md_ver md_cv md_misc md_res] in *. bdestr.
    cbn [ic_layout ic_value module_codec md_base md_size md_checksum md_time md_name md_ver md_cv md_misc md_res].
    match goal with H : (length res =? 4)%nat = true |- _ => apply Nat.eqb_eq in H end.
    destruct res as [|r0 [|r1 [|r2 [|r3 [|]]]]]; try discriminate.
    unfold L_MINIDUMP_MODULE. cbn [vtuple]. rewrite !shape_seq.
    rewrite (wt_shape L_VS_FIXEDFILEINFO (varr ver)) by assumption. reflexivity.
  - intros [base size ck tm name ver cv misc res] off H Hoff Hb. unfold wf_module in H.
    cbn [md_base md_size md_checksum md_time md_name md_ver md_cv md_misc md_res ic_aux module_codec] in *. bdestr.
    cbn [ic_layout ic_value module_codec md_base md_size md_checksum md_time md_name md_ver md_cv md_misc md_res].
    match goal with H : (length res =? 4)%nat = true |- _ => apply Nat.eqb_eq in H end.
    destruct res as [|r0 [|r1 [|r2 [|r3 [|]]]]]; try discriminate.
    rewrite zlen_app, zlen_enc_string in Hb. rewrite (enc_cv_zlen_endian LE e).
    pose proof (zlen_nonneg _ name). pose proof (zlen_nonneg _ (enc_cv e cv)).
    unfold L_MINIDUMP_MODULE, L_MINIDUMP_LOCATION_DESCRIPTOR, vloc. cbn [vtuple firstn skipn varr map]. 
    rewrite !wt_seq.
    match goal with H : wt L_VS_FIXEDFILEINFO _ = true |- _ => rewrite H end.
    cbn [all_in] in *. bdestr. ubits.
    rewrite !wt_lu, ?wt_nil. cbn [wt]. rewrite ?wbits4, ?wbits8.
    bsplit; try assumption; try reflexivity; try (apply Z.leb_le; lia); try (apply Z.ltb_lt; unfold U32M in *; lia).
  - intros [base size ck tm name ver cv [ms mr] res] pre post H Hpre Hb. unfold wf_module in H.
    cbn [md_base md_size md_checksum md_time md_name md_ver md_cv md_misc md_res ic_aux module_codec fst snd] in *. bdestr.
    match goal with H : (length res =? 4)%nat = true |- _ => apply Nat.eqb_eq in H end.
    cbn [ic_read ic_value module_codec vtuple vloc md_base md_size md_checksum md_time md_name md_ver md_cv md_misc md_res fst snd].
    match goal with H : negb (bad_image _ _) = true |- _ => apply negb_true_iff in H; rewrite H end.
    rewrite <- app_assoc. rewrite read_string_enc by assumption. cbn [obnd].
    rewrite (enc_cv_zlen_endian LE e).
    assert (Hcv : (if zlen (enc_cv e cv) =? 0 then Some CvNone
                   else obnd (slice (pre ++ enc_string e name ++ enc_cv e cv ++ post) (zlen pre + (4 + 2 * zlen name)) (zlen (enc_cv e cv))) (dec_cv e))
                  = Some cv).
    { destruct (cvrec_none_dec cv) as [Hn|Hn].
      - subst cv. reflexivity.
      - pose proof (enc_cv_pos e cv ltac:(assumption) Hn).
        replace (zlen (enc_cv e cv) =? 0) with false by (symmetry; apply Z.eqb_neq; lia).
        replace (pre ++ enc_string e name ++ enc_cv e cv ++ post) with ((pre ++ enc_string e name) ++ enc_cv e cv ++ post)
          by (rewrite <- app_assoc; reflexivity).
        rewrite (slice_mid' (pre ++ enc_string e name) (enc_cv e cv) post) by (rewrite ?zlen_app, ?zlen_enc_string; lia).
        cbn [obnd]. apply dec_cv_enc; assumption. }
    rewrite Hcv. cbn [obnd]. rewrite !unvarr_varr. cbn [obnd].
    rewrite firstn_skipn. reflexivity.
Qed.

(* ------------------------------------------------------------------ unloaded modules, thread names, memory info *)
Definition wf_unloaded (m : munloaded) : bool :=
  u64b (um_base m) && u32b (um_size m) && negb (bad_image (um_base m) (um_size m))
  && u32b (um_checksum m) && u32b (um_time m) && wf_string (um_name m).

Lemma unloaded_ok : forall e, icodec_ok unloaded_codec e wf_unloaded.
Proof.
  intro e. constructor.
  - cbn [ic_layout unloaded_codec]. lsize_tac.
  - intros m off H. reflexivity.
  - intros [base size ck tm name] off H Hoff Hb. unfold wf_unloaded in H.
    cbn [um_base um_size um_checksum um_time um_name ic_aux unloaded_codec] in *.
    cbn [ic_layout ic_value unloaded_codec um_base um_size um_checksum um_time um_name].
    rewrite zlen_enc_string in Hb. pose proof (zlen_nonneg _ name).
    unfold L_MINIDUMP_UNLOADED_MODULE. hyps. wtsolve.
  - intros [base size ck tm name] pre post H Hpre Hb. unfold wf_unloaded in H.
    cbn [um_base um_size um_checksum um_time um_name ic_aux unloaded_codec] in *. bdestr.
    cbn [ic_read ic_value unloaded_codec vtuple um_base um_size um_checksum um_time um_name].
    match goal with H : negb (bad_image _ _) = true |- _ => apply negb_true_iff in H; rewrite H end.
    rewrite read_string_enc by assumption. reflexivity.
Qed.

Definition wf_tname (n : Z * list Z) : bool := u32b (fst n) && wf_string (snd n).

Lemma tname_ok : forall e, icodec_ok tname_codec e wf_tname.
Proof.
  intro e. constructor.
  - cbn [ic_layout tname_codec]. lsize_tac.
  - intros m off H. reflexivity.
  - intros [id name] off H Hoff Hb. unfold wf_tname in H. cbn [fst snd ic_aux tname_codec] in *.
    cbn [ic_layout ic_value tname_codec fst snd].
    rewrite zlen_enc_string in Hb. pose proof (zlen_nonneg _ name).
    unfold L_MINIDUMP_THREAD_NAME. hyps. wtsolve.
  - intros [id name] pre post H Hpre Hb. unfold wf_tname in H. cbn [fst snd ic_aux tname_codec] in *. bdestr.
    cbn [ic_read ic_value tname_codec vtuple fst snd].
    rewrite read_string_enc by assumption. reflexivity.
Qed.

Definition wf_meminfo (row : list Z) : bool := wt L_MINIDUMP_MEMORY_INFO (varr row).

Lemma meminfo_ok : forall e, icodec_ok meminfo_codec e wf_meminfo.
Proof.
  intro e. constructor.
  - cbn [ic_layout meminfo_codec]. lsize_tac.
  - intros row off H. apply wt_shape. exact H.
  - intros row off H _ _. exact H.
  - intros row pre post H _ _. cbn [ic_read ic_value meminfo_codec]. rewrite unvarr_varr. reflexivity.
Qed.

(* ------------------------------------------------------------------ Memory64List *)
Definition wf_region64 (r : mregion) : bool := u64b (mr_base r).

Lemma zlen_flat_desc64 : forall e l, forallb wf_region64 l = true ->
  zlen (flat_map (enc_desc64 e) l) = zlen l * 16.
Proof.
  intros e. induction l as [|r l IH]; intro H; [reflexivity|].
  cbn [forallb] in H. apply andb_prop in H. destruct H as [Hr Hl].
  cbn [flat_map]. rewrite zlen_app, zlen_cons, IH by exact Hl.
  unfold enc_desc64. rewrite enc_zlen_shape by reflexivity.
  let v := eval vm_compute in (lsize L_MINIDUMP_MEMORY_DESCRIPTOR64) in change (lsize L_MINIDUMP_MEMORY_DESCRIPTOR64) with v. lia.
Qed.

Lemma dec_mem64_regions_enc : forall e l pre post rest, forallb wf_region64 l = true ->
  zlen pre + zlen (flat_map mr_bytes l) < wbits 8 ->
  dec_mem64_regions e (pre ++ flat_map mr_bytes l ++ post) (length l) (zlen pre) (flat_map (enc_desc64 e) l ++ rest) = Some l.
Proof.
  intros e. induction l as [|[base bytes] l IH]; intros pre post rest H Hb; [reflexivity|].
  cbn [forallb] in H. apply andb_prop in H. destruct H as [Hr Hl]. unfold wf_region64 in Hr. cbn [mr_base] in Hr.
  cbn [flat_map length dec_mem64_regions mr_bytes] in *. rewrite zlen_app in Hb.
  pose proof (zlen_nonneg _ bytes). pose proof (zlen_nonneg _ pre). pose proof (zlen_nonneg _ (flat_map mr_bytes l)).
  unfold enc_desc64 at 1. cbn [mr_base mr_bytes]. rewrite <- app_assoc.
  rewrite dec_enc.
  2:{ unfold L_MINIDUMP_MEMORY_DESCRIPTOR64. hyps. wtsolve. }
  cbn [vtuple].
  unfold checked_add. change (2 ^ 64) with 18446744073709551616. rewrite wbits8 in Hb.
  replace (zlen pre + zlen bytes <? 18446744073709551616) with true by (symmetry; apply Z.ltb_lt; lia).
  cbn [obnd]. rewrite <- app_assoc. rewrite slice_mid. cbn [obnd].
  specialize (IH (pre ++ bytes) post rest Hl). rewrite zlen_app, <- app_assoc in IH.
  rewrite IH by (rewrite wbits8; lia). reflexivity.
Qed.

Lemma dec_mem64_regions_enc' : forall e l pre post off, off = zlen pre -> forallb wf_region64 l = true ->
  off + zlen (flat_map mr_bytes l) < wbits 8 ->
  dec_mem64_regions e (pre ++ flat_map mr_bytes l ++ post) (length l) off (flat_map (enc_desc64 e) l) = Some l.
Proof.
  intros e l pre post off Hoff H Hb. subst off. rewrite <- (app_nil_r (flat_map (enc_desc64 e) l)).
  apply dec_mem64_regions_enc; assumption.
Qed.

Theorem mem64_roundtrip : forall e, sec_ok (enc_mem64 e) (dec_mem64 e) (forallb wf_region64).
Proof.
  intros e l pre post Hwf Hpre Hb. unfold enc_mem64 in *. cbn [fst snd] in *.
  change (lsize L_MINIDUMP_MEMORY_DESCRIPTOR64) with 16 in *.
  rewrite !zlen_app, !zlen_enc_uint, zlen_flat_desc64 in Hb by assumption.
  pose proof (zlen_nonneg _ l). pose proof (zlen_nonneg _ (flat_map mr_bytes l)). pose proof (zlen_nonneg _ pre).
  split.
  { rewrite !zlen_app, !zlen_enc_uint, zlen_flat_desc64 by assumption. lia. }
  set (h1 := enc_uint e 8 (zlen l)). set (h2 := enc_uint e 8 (zlen pre + (16 + zlen l * 16))).
  set (ds := flat_map (enc_desc64 e) l). set (data := flat_map mr_bytes l).
  exists (h1 ++ h2 ++ ds). split.
  - replace (pre ++ (h1 ++ h2 ++ ds ++ data) ++ post) with (pre ++ (h1 ++ h2 ++ ds) ++ (data ++ post))
      by (rewrite <- !app_assoc; reflexivity).
    apply slice_mid'; [reflexivity|]. unfold h1, h2, ds. rewrite !zlen_app, !zlen_enc_uint, zlen_flat_desc64 by assumption. lia.
  - unfold dec_mem64. unfold h1 at 1. rewrite take_app by apply length_enc_uint. cbn [obnd fst snd].
    unfold h2 at 1. rewrite take_app by apply length_enc_uint. cbn [obnd fst snd].
    unfold U32M in *.
    rewrite !dec_enc_uint by (rewrite wbits8; lia).
    change (lsize L_MINIDUMP_MEMORY_DESCRIPTOR64) with 16.
    unfold h1, h2, ds. rewrite !zlen_app, !zlen_enc_uint, zlen_flat_desc64 by assumption.
    replace (Z.of_nat 8 + (Z.of_nat 8 + zlen l * 16) =? 16 + zlen l * 16) with true by (symmetry; apply Z.eqb_eq; lia).
    cbn [negb]. rewrite zlen_to_nat.
    fold ds. fold h1. fold h2.
    replace (pre ++ (h1 ++ h2 ++ ds ++ data) ++ post) with ((pre ++ h1 ++ h2 ++ ds) ++ data ++ post)
      by (rewrite <- !app_assoc; reflexivity).
    assert (Hoff : zlen pre + (16 + zlen l * 16) = zlen (pre ++ h1 ++ h2 ++ ds)).
    { unfold h1, h2, ds. rewrite !zlen_app, !zlen_enc_uint, zlen_flat_desc64 by assumption. lia. }
    apply dec_mem64_regions_enc'; [exact Hoff|assumption|]. rewrite wbits8. unfold data. lia.
Qed.

(* ------------------------------------------------------------------ exception *)
Definition wf_exception (x : mexception) : bool :=
  u32b (ex_thread_id x) && u32b (ex_align x) && u32b (ex_code x) && u32b (ex_flags x) && u64b (ex_record x)
  && u64b (ex_address x) && u32b (ex_nparams x) && u32b (ex_align2 x)
  && wt (LArr 15 (LU 8)) (varr (ex_info x))
  && match ex_ctx x with Some _ => true | None => false end.

Theorem exception_roundtrip : forall e, sec_ok (enc_exception e) (dec_exception e) wf_exception.
Proof.
  intros e [tid al code fl rec addr np al2 info cx] pre post H Hpre Hb. unfold wf_exception in H.
  cbn [ex_thread_id ex_align ex_code ex_flags ex_record ex_address ex_nparams ex_align2 ex_info ex_ctx] in H.
  destruct cx as [cx|]; [|bdestr; discriminate].
  unfold enc_exception in *.
  cbn [fst snd ex_thread_id ex_align ex_code ex_flags ex_record ex_address ex_nparams ex_align2 ex_info ex_ctx obytes] in *.
  set (ss := lsize L_MINIDUMP_EXCEPTION_STREAM) in *.
  assert (Hss : ss = 168) by reflexivity.
  set (v := vtuple [VInt tid; VInt al; vtuple [VInt code; VInt fl; VInt rec; VInt addr; VInt np; VInt al2; varr info];
                    vloc (zlen cx) (zlen pre + ss)]) in *.
  pose proof (zlen_nonneg _ cx). pose proof (zlen_nonneg _ pre).
  assert (Hshape : shape L_MINIDUMP_EXCEPTION_STREAM v = true).
  { unfold v, L_MINIDUMP_EXCEPTION_STREAM, L_MINIDUMP_EXCEPTION. cbn [vtuple]. rewrite !shape_seq.
    bdestr. rewrite (wt_shape (LArr 15 (LU 8)) (varr info)) by assumption. reflexivity. }
  assert (Hlen : zlen (enc e L_MINIDUMP_EXCEPTION_STREAM v) = ss) by (apply enc_zlen_shape; exact Hshape).
  rewrite zlen_app, Hlen in Hb.
  assert (Hwt : wt L_MINIDUMP_EXCEPTION_STREAM v = true).
  { unfold v, L_MINIDUMP_EXCEPTION_STREAM, L_MINIDUMP_EXCEPTION, L_MINIDUMP_LOCATION_DESCRIPTOR. cbn [vtuple]. rewrite !wt_seq.
    bdestr. match goal with H : wt (LArr 15 (LU 8)) _ = true |- _ => rewrite H end.
    hyps. wtsolve. }
  assert (Hdec : dec e L_MINIDUMP_EXCEPTION_STREAM (enc e L_MINIDUMP_EXCEPTION_STREAM v) = Some (v, [])) by (apply dec_enc_nil; exact Hwt).
  set (bs := enc e L_MINIDUMP_EXCEPTION_STREAM v) in *.
  split; [rewrite zlen_app, Hlen; lia|].
  exists bs. split.
  - rewrite <- app_assoc. apply slice_mid'; [reflexivity|]. symmetry. exact Hlen.
  - unfold dec_exception. rewrite Hdec.
    unfold v. cbn [vtuple vloc]. rewrite unvarr_varr. cbn [obnd].
    replace (pre ++ (bs ++ cx) ++ post) with ((pre ++ bs) ++ cx ++ post) by (rewrite <- !app_assoc; reflexivity).
    rewrite (slice_mid' (pre ++ bs) cx post) by (rewrite ?zlen_app, ?Hlen; reflexivity).
    reflexivity.
Qed.

(* ------------------------------------------------------------------ system info *)
Definition wf_sysinfo (s : msysinfo) : bool :=
  u16b (si_arch s) && u16b (si_level s) && u16b (si_revision s)
  && ((0 <=? si_nproc s) && (si_nproc s <? 256)) && ((0 <=? si_ptype s) && (si_ptype s <? 256))
  && u32b (si_major s) && u32b (si_minor s) && u32b (si_build s) && u32b (si_platform s)
  && u16b (si_suite s) && u16b (si_reserved2 s)
  && wt (LArr 24 (LU 1)) (varr (si_cpu s))
  && match si_csd s with Some u => wf_string u | None => false end.

Theorem sysinfo_roundtrip : forall e, sec_ok (enc_sysinfo e) (dec_sysinfo e) wf_sysinfo.
Proof.
  intros e [ar lv rv np pt mj mn bn pf su r2 cpu csd] pre post H Hpre Hb. unfold wf_sysinfo in H.
  cbn [si_arch si_level si_revision si_nproc si_ptype si_major si_minor si_build si_platform si_suite si_reserved2 si_cpu si_csd] in H.
  destruct csd as [csd|]; [|bdestr; discriminate].
  unfold enc_sysinfo in *.
  cbn [fst snd si_arch si_level si_revision si_nproc si_ptype si_major si_minor si_build si_platform si_suite si_reserved2 si_cpu si_csd] in *.
  set (ss := lsize L_MINIDUMP_SYSTEM_INFO) in *.
  assert (Hss : ss = 56) by reflexivity.
  set (v := vtuple [VInt ar; VInt lv; VInt rv; VInt np; VInt pt; VInt mj; VInt mn; VInt bn; VInt pf; VInt (zlen pre + ss);
                    VInt su; VInt r2; vtuple [varr cpu]]) in *.
  pose proof (zlen_nonneg _ csd). pose proof (zlen_nonneg _ pre).
  assert (Hshape : shape L_MINIDUMP_SYSTEM_INFO v = true).
  { unfold v, L_MINIDUMP_SYSTEM_INFO, L_CPU_INFORMATION. cbn [vtuple]. rewrite !shape_seq.
    bdestr. rewrite (wt_shape (LArr 24 (LU 1)) (varr cpu)) by assumption. reflexivity. }
  assert (Hlen : zlen (enc e L_MINIDUMP_SYSTEM_INFO v) = ss) by (apply enc_zlen_shape; exact Hshape).
  rewrite zlen_app, Hlen, zlen_enc_string in Hb.
  assert (Hwt : wt L_MINIDUMP_SYSTEM_INFO v = true).
  { unfold v, L_MINIDUMP_SYSTEM_INFO, L_CPU_INFORMATION. cbn [vtuple]. rewrite !wt_seq.
    bdestr. match goal with H : wt (LArr 24 (LU 1)) _ = true |- _ => rewrite H end.
    hyps. wtsolve. }
  assert (Hdec : dec e L_MINIDUMP_SYSTEM_INFO (enc e L_MINIDUMP_SYSTEM_INFO v) = Some (v, [])) by (apply dec_enc_nil; exact Hwt).
  set (bs := enc e L_MINIDUMP_SYSTEM_INFO v) in *.
  split; [rewrite zlen_app, Hlen; pose proof (zlen_nonneg _ (enc_string e csd)); lia|].
  exists bs. split.
  - rewrite <- app_assoc. apply slice_mid'; [reflexivity|]. symmetry. exact Hlen.
  - unfold dec_sysinfo. rewrite Hdec.
    unfold v. cbn [vtuple]. rewrite unvarr_varr. cbn [obnd].
    replace (pre ++ (bs ++ enc_string e csd) ++ post) with ((pre ++ bs) ++ enc_string e csd ++ post) by (rewrite <- !app_assoc; reflexivity).
    replace (zlen pre + ss) with (zlen (pre ++ bs)) by (rewrite zlen_app, Hlen; reflexivity).
    bdestr. rewrite read_string_enc by assumption. reflexivity.
Qed.

(* ------------------------------------------------------------------ misc info *)
Lemma unflat_vflat : forall L l v r, unflat L l = Some (v, r) -> l = vflat v ++ r.
Proof.
  induction L as [w|w|n t IHt| |t IHt r0 IHr]; intros l v r H.
  - cbn in H. destruct l; inversion H; subst. reflexivity.
  - cbn in H. destruct l; inversion H; subst. reflexivity.
  - cbn [unflat] in H. revert l v r H. induction n as [|n IHn]; intros l v r H.
    + inversion H; subst. reflexivity.
    + destruct (unflat t l) as [[a l1]|] eqn:E1; [|discriminate].
      match type of H with match ?X with _ => _ end = _ => destruct X as [[b l2]|] eqn:E2; [|discriminate] end.
      inversion H; subst. apply IHt in E1. apply IHn in E2. subst. cbn [vflat]. rewrite <- app_assoc. reflexivity.
  - cbn in H. inversion H; subst. reflexivity.
  - cbn [unflat] in H. destruct (unflat t l) as [[a l1]|] eqn:E1; [|discriminate].
    destruct (unflat r0 l1) as [[b l2]|] eqn:E2; [|discriminate].
    inversion H; subst. apply IHt in E1. apply IHr in E2. subst. cbn [vflat]. rewrite <- app_assoc. reflexivity.
Qed.

Definition wf_misc (m : Z * list Z) : bool :=
  (1 <=? fst m) && (fst m <=? 5) &&
  match unflat (misc_layout (fst m)) (snd m) with
  | Some (v, []) => wt (misc_layout (fst m)) v
  | _ => false
  end.

Lemma misc_try_small : forall e bs j, zlen bs < lsize (misc_layout j) -> misc_try e bs j = None.
Proof. intros e bs j H. unfold misc_try. replace (lsize (misc_layout j) <=? zlen bs) with false by (symmetry; apply Z.leb_gt; lia). reflexivity. Qed.

Lemma misc_try_hit : forall e k v, wt (misc_layout k) v = true ->
  misc_try e (enc e (misc_layout k) v) k = Some (k, vflat v).
Proof.
  intros e k v H. unfold misc_try. rewrite enc_zlen by exact H. rewrite Z.leb_refl. rewrite dec_enc_nil by exact H. reflexivity.
Qed.

Theorem misc_roundtrip : forall e, sec_ok (enc_misc e) (dec_misc e) wf_misc.
Proof.
  intros e [k ints] pre post H Hpre Hb. unfold wf_misc in H. cbn [fst snd] in H.
  apply andb_prop in H. destruct H as [H Hu]. apply andb_prop in H. destruct H as [H1 H2]. b2z.
  unfold enc_misc in *. cbn [fst snd] in *.
  destruct (unflat (misc_layout k) ints) as [[v [|x r]]|] eqn:E; try discriminate.
  apply unflat_vflat in E. rewrite app_nil_r in E. subst ints.
  cbn [fst snd] in *.
  assert (Hlen : zlen (enc e (misc_layout k) v) = lsize (misc_layout k)) by (apply enc_zlen; exact Hu).
  split; [rewrite Hlen; pose proof (lsize_nonneg (misc_layout k)); lia|].
  exists (enc e (misc_layout k) v). split.
  - apply slice_mid'; [reflexivity|]. symmetry. exact Hlen.
  - unfold dec_misc.
    assert (Hk : k = 1 \/ k = 2 \/ k = 3 \/ k = 4 \/ k = 5) by lia.
    destruct Hk as [Hk|[Hk|[Hk|[Hk|Hk]]]]; subst k;
      rewrite ?(misc_try_small e _ 5) by (rewrite Hlen; vm_compute; reflexivity);
      rewrite ?(misc_try_small e _ 4) by (rewrite Hlen; vm_compute; reflexivity);
      rewrite ?(misc_try_small e _ 3) by (rewrite Hlen; vm_compute; reflexivity);
      rewrite ?(misc_try_small e _ 2) by (rewrite Hlen; vm_compute; reflexivity);
      rewrite misc_try_hit by exact Hu; reflexivity.
Qed.

(* ------------------------------------------------------------------ flat structs, flat list items, raw streams *)
Definition wf_flat (L : layout) (ints : list Z) : bool :=
  match unflat L ints with
  | Some (v, []) => wt L v
  | _ => false
  end.

Theorem flat_roundtrip : forall L e, sec_ok (enc_flat L e) (dec_flat L e) (wf_flat L).
Proof.
  intros L e ints pre post H Hpre Hb. unfold wf_flat in H. unfold enc_flat in *.
  destruct (unflat L ints) as [[v [|x r]]|] eqn:E; try discriminate.
  apply unflat_vflat in E. rewrite app_nil_r in E. subst ints. cbn [fst snd] in *.
  assert (Hlen : zlen (enc e L v) = lsize L) by (apply enc_zlen; exact H).
  split; [rewrite Hlen; pose proof (lsize_nonneg L); lia|].
  exists (enc e L v). split.
  - apply slice_mid'; [reflexivity|]. symmetry. exact Hlen.
  - unfold dec_flat. rewrite dec_enc_nil by exact H. reflexivity.
Qed.

Lemma flat_codec_ok : forall L e, 1 <= lsize L < 4294967296 -> icodec_ok (flat_codec L) e (wf_flat L).
Proof.
  intros L e Hs. constructor.
  - exact Hs.
  - intros ints off H. unfold wf_flat in H. cbn [ic_layout ic_value flat_codec].
    destruct (unflat L ints) as [[v [|x r]]|]; try discriminate. apply wt_shape. exact H.
  - intros ints off H _ _. unfold wf_flat in H. cbn [ic_layout ic_value flat_codec].
    destruct (unflat L ints) as [[v [|x r]]|]; try discriminate. exact H.
  - intros ints pre post H _ _. unfold wf_flat in H. cbn [ic_read ic_value flat_codec].
    destruct (unflat L ints) as [[v [|x r]]|] eqn:E; try discriminate.
    apply unflat_vflat in E. rewrite app_nil_r in E. subst ints. reflexivity.
Qed.

Theorem raw_roundtrip : forall e, sec_ok (enc_raw e) (dec_raw e) (fun _ => true).
Proof.
  intros e b pre post _ Hpre Hb. unfold enc_raw. cbn [fst snd]. pose proof (zlen_nonneg _ b).
  split; [lia|]. exists b. split; [apply slice_mid|reflexivity].
Qed.

(* ------------------------------------------------------------------ handle data stream *)
Definition wf_ostring (o : option (list Z)) : bool := match o with Some u => wf_string u | None => true end.
Definition wf_handle (h : mhandle) : bool :=
  u64b (h_handle h) && wf_ostring (h_type h) && wf_ostring (h_object h)
  && u32b (h_attr h) && u32b (h_access h) && u32b (h_hcount h) && u32b (h_pcount h).

Lemma zlen_ostring : forall e o, zlen (ostring e o) = ostring_len o.
Proof. intros e [u|]; cbn [ostring ostring_len]; [apply zlen_enc_string|reflexivity]. Qed.

Lemma read_ostring_enc : forall e o pre post, wf_ostring o = true -> 0 < zlen pre ->
  read_ostring e (pre ++ ostring e o ++ post) (orva o (zlen pre)) = o.
Proof.
  intros e [u|] pre post H Hpre; cbn [ostring orva wf_ostring] in *; unfold read_ostring.
  - replace (zlen pre =? 0) with false by (symmetry; apply Z.eqb_neq; lia). apply read_string_enc. exact H.
  - reflexivity.
Qed.

Lemma handle_ok : forall v2 e, icodec_ok (handle_codec v2) e wf_handle.
Proof.
  intros v2 e. constructor.
  - destruct v2; cbn [ic_layout handle_codec]; lsize_tac.
  - intros h off H. destruct v2; reflexivity.
  - intros [hd ty ob at_ ac hc pc] off H Hoff Hb. unfold wf_handle in H.
    cbn [h_handle h_type h_object h_attr h_access h_hcount h_pcount ic_aux handle_codec] in *.
    rewrite zlen_app, !zlen_ostring in Hb.
    assert (Ht : 0 <= ostring_len ty) by (destruct ty; cbn [ostring_len]; [pose proof (zlen_nonneg _ l); lia|lia]).
    assert (Ho : 0 <= ostring_len ob) by (destruct ob; cbn [ostring_len]; [pose proof (zlen_nonneg _ l); lia|lia]).
    assert (Hr1 : 0 <= orva ty off <= off) by (destruct ty; cbn [orva]; lia).
    assert (Hr2 : 0 <= orva ob (off + ostring_len ty) <= off + ostring_len ty) by (destruct ob; cbn [orva]; lia).
    destruct v2; cbn [ic_layout ic_value handle_codec h_handle h_type h_object h_attr h_access h_hcount h_pcount app];
      unfold L_MINIDUMP_HANDLE_DESCRIPTOR_2, L_MINIDUMP_HANDLE_DESCRIPTOR; hyps; wtsolve.
  - intros [hd ty ob at_ ac hc pc] pre post H Hpre Hb. unfold wf_handle in H.
    cbn [h_handle h_type h_object h_attr h_access h_hcount h_pcount ic_aux handle_codec] in *. bdestr.
    assert (E1 : read_ostring e (pre ++ (ostring e ty ++ ostring e ob) ++ post) (orva ty (zlen pre)) = ty).
    { rewrite <- app_assoc. apply read_ostring_enc; assumption. }
    assert (E2 : read_ostring e (pre ++ (ostring e ty ++ ostring e ob) ++ post) (orva ob (zlen pre + ostring_len ty)) = ob).
    { replace (pre ++ (ostring e ty ++ ostring e ob) ++ post) with ((pre ++ ostring e ty) ++ ostring e ob ++ post)
        by (rewrite <- !app_assoc; reflexivity).
      replace (zlen pre + ostring_len ty) with (zlen (pre ++ ostring e ty)) by (rewrite zlen_app, zlen_ostring; reflexivity).
      apply read_ostring_enc; [assumption|]. rewrite zlen_app. pose proof (zlen_nonneg _ (ostring e ty)). lia. }
    destruct v2; cbn [ic_read ic_value handle_codec vtuple app h_handle h_type h_object h_attr h_access h_hcount h_pcount];
      rewrite E1, E2; reflexivity.
Qed.

Lemma handle_esize_vals : handle_esize false = 32 /\ handle_esize true = 40 /\ HANDLE_HDR = 16.
Proof. repeat split. Qed.

Lemma dec_handle_hdr_enc : forall e v2 n ents, 0 <= n < wbits 4 -> zlen ents = n * handle_esize v2 ->
  dec_handle_hdr e (enc_exlist_hdr e HANDLE_HDR 4 (handle_esize v2) n ++ ents) = Some (handle_esize v2, (n, ents)).
Proof.
  intros e v2 n ents Hn Hlen. destruct handle_esize_vals as [E0 [E1 EH]].
  unfold dec_handle_hdr, enc_exlist_hdr. rewrite EH.
  assert (Hes : 0 <= handle_esize v2 < wbits 4) by (destruct v2; rewrite ?E0, ?E1, wbits4; lia).
  assert (Hz : zlen (enc_uint e 4 16 ++ enc_uint e 4 (handle_esize v2) ++ enc_uint e 4 n) = 12) by (zl; lia).
  rewrite Hz. change (Z.to_nat (16 - 12)) with 4%nat. cbn [repeat].
  rewrite <- !app_assoc.
  rewrite take_app by apply length_enc_uint. cbn [obnd fst snd].
  rewrite take_app by apply length_enc_uint. cbn [obnd fst snd].
  rewrite take_app by apply length_enc_uint. cbn [obnd fst snd].
  rewrite !dec_enc_uint by (rewrite ?wbits4 in *; lia).
  replace ((handle_esize v2 =? handle_esize false) || (handle_esize v2 =? handle_esize true)) with true
    by (destruct v2; rewrite ?E0, ?E1; reflexivity).
  cbn [negb]. zl. cbn [app]. rewrite Hlen.
  match goal with |- context [?a <? ?b] => replace (a <? b) with false by (symmetry; apply Z.ltb_ge; lia) end.
  change (Z.to_nat 16) with 16%nat.
  match goal with |- context [skipn 16 ?x] =>
    replace x with ((enc_uint e 4 16 ++ enc_uint e 4 (handle_esize v2) ++ enc_uint e 4 n ++ [0; 0; 0; 0]) ++ ents)
      by (rewrite <- !app_assoc; reflexivity) end.
  rewrite skipn_app.
  assert (Hl : length (enc_uint e 4 16 ++ enc_uint e 4 (handle_esize v2) ++ enc_uint e 4 n ++ [0; 0; 0; 0]) = 16%nat)
    by (rewrite !app_length, !length_enc_uint; reflexivity).
  rewrite Hl, Nat.sub_diag. rewrite <- Hl at 1. rewrite skipn_all. reflexivity.
Qed.

Definition wf_handles (x : bool * list mhandle) : bool := forallb wf_handle (snd x).

Theorem handles_roundtrip : forall e, sec_ok (enc_handles e) (dec_handles e) wf_handles.
Proof.
  intros e [v2 l] pre post Hwf Hpre Hb. unfold wf_handles in Hwf. unfold enc_handles, enc_exlist in *. cbn [fst snd] in *.
  set (c := handle_codec v2) in *.
  set (hdr := enc_exlist_hdr e HANDLE_HDR 4 (lsize (ic_layout c)) (zlen l)) in *.
  assert (Hx : zlen hdr + zlen l * lsize (ic_layout c) <= U32M).
  { rewrite !zlen_app in Hb. rewrite (enc_items_fst_len c e wf_handle (handle_ok v2 e)) in Hb by assumption.
    pose proof (zlen_nonneg _ pre). pose proof (zlen_nonneg _ (snd (enc_items c e (zlen pre + (zlen hdr + zlen l * lsize (ic_layout c))) l))). lia. }
  assert (Hn : 0 <= zlen l < wbits 4).
  { eapply (count_bound c e wf_handle (handle_ok v2 e)) with (hdr := hdr); [apply Z.le_refl|exact Hx]. }
  destruct (framed_roundtrip c e wf_handle (handle_ok v2 e) hdr
              (fun bs => match dec_handle_hdr e bs with Some r => Some (snd r) | None => None end) l pre post) as [Hs [body [Hsl Hd]]];
    try assumption.
  { intros ents Hents. unfold hdr. change (lsize (ic_layout c)) with (handle_esize v2) in *. rewrite dec_handle_hdr_enc by assumption. reflexivity. }
  split; [exact Hs|]. exists body. split; [exact Hsl|].
  unfold dec_handles.
  destruct (dec_handle_hdr e body) as [[ds [n ents]]|] eqn:E; [|discriminate].
  cbn [obnd fst snd] in *.
  (* the descriptor size read back is that of the codec used *)
  assert (Hds : ds = handle_esize v2).
  { (* body = hdr ++ entries, by the slice *)
    assert (Hbody : exists ents0, body = hdr ++ ents0 /\ zlen ents0 = zlen l * handle_esize v2).
    { exists (fst (enc_items c e (zlen pre + (zlen hdr + zlen l * lsize (ic_layout c))) l)). split.
      - match type of Hsl with slice ?a ?o ?n = _ =>
          replace a with (pre ++ (hdr ++ fst (enc_items c e (zlen pre + (zlen hdr + zlen l * lsize (ic_layout c))) l))
                              ++ (snd (enc_items c e (zlen pre + (zlen hdr + zlen l * lsize (ic_layout c))) l) ++ post)) in Hsl
            by (rewrite <- !app_assoc; reflexivity) end.
        rewrite slice_mid' in Hsl; [inversion Hsl; reflexivity|reflexivity|].
        rewrite zlen_app, (enc_items_fst_len c e wf_handle (handle_ok v2 e)) by assumption. reflexivity.
      - apply (enc_items_fst_len c e wf_handle (handle_ok v2 e)). assumption. }
    destruct Hbody as [ents0 [Hb1 Hb2]]. subst body. unfold hdr in E. change (lsize (ic_layout c)) with (handle_esize v2) in E.
    rewrite dec_handle_hdr_enc in E by assumption. inversion E. reflexivity. }
  subst ds. destruct handle_esize_vals as [E0 [E1 _]].
  replace (handle_esize v2 =? handle_esize true) with v2 by (destruct v2; rewrite ?E0, ?E1; reflexivity).
  fold c. rewrite Hd. reflexivity.
Qed.
