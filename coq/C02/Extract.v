From Coq Require Extraction.
From Coq Require Import ExtrOcamlBasic.
From RM Require Import C02.Driver.
Extraction "c02_model.ml" run_encode run_observe run_encode_stream.
