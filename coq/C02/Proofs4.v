(* C02/Proofs4.v — the whole dump: header, directory, placement, every stream *)
From Coq Require Import Lia.
From RM Require Import C02.Model C02.Proofs1 C02.Proofs2 C02.Proofs3.
Open Scope Z_scope.

Definition is_some {A} (o : option A) : bool := match o with Some _ => true | None => false end.
Definition present (x : Z * option (Z -> section)) : bool := is_some (snd x).
Definition sbytes (p : Z * (Z * section)) : list Z := snd (snd (snd p)).
Definition dirent (p : Z * (Z * section)) : Z * (Z * Z) := (fst p, (fst (snd (snd p)), fst (snd p))).

Definition modelled_types : list Z :=
  [ST_SystemInfoStream; ST_ThreadListStream; ST_ModuleListStream; ST_MemoryListStream; ST_Memory64ListStream;
   ST_ExceptionStream; ST_ThreadNamesStream; ST_UnloadedModuleListStream; ST_MemoryInfoListStream; ST_MiscInfoStream;
   ST_BreakpadInfoStream; ST_AssertionInfoStream; ST_ThreadInfoListStream; ST_LinuxCpuInfo; ST_LinuxProcStatus;
   ST_LinuxLsbRelease; ST_LinuxEnviron; ST_LinuxMaps; ST_MozLinuxLimits; ST_HandleDataStream].
Definition zmem (x : Z) (l : list Z) : bool := existsb (Z.eqb x) l.
Definition present_types (e : endian) (m : model) : list Z := map fst (filter present (table e m)).
Definition u32_entry (d : Z * (Z * Z)) : bool := u32b (fst d) && u32b (fst (snd d)) && u32b (snd (snd d)).
Definition oall {A} (f : A -> bool) (o : option A) : bool := match o with Some a => f a | None => true end.

(* a model the serializer can write and the property speaks about *)
Definition wf_model (e : endian) (m : model) : bool :=
  u32b (m_version m) && (m_version m mod 65536 =? MINIDUMP_VERSION) && u32b (m_checksum m) && u32b (m_time m) && u64b (m_flags m)
  && forallb u32_entry (m_extra_dir m)
  && forallb (fun d => negb (zmem (fst d) modelled_types) || zmem (fst d) (present_types e m)) (m_extra_dir m)
  && oall wf_sysinfo (m_sysinfo m)
  && oall (forallb wf_thread) (m_threads m)
  && oall (forallb (wf_module e)) (m_modules m)
  && oall (forallb wf_region) (m_memory m)
  && oall (forallb wf_region64) (m_memory64 m)
  && oall wf_exception (m_exception m)
  && oall (forallb wf_tname) (m_tnames m)
  && oall (forallb wf_unloaded) (m_unloaded m)
  && oall (forallb wf_meminfo) (m_meminfo m)
  && oall wf_misc (m_misc m)
  && oall (wf_flat L_MINIDUMP_BREAKPAD_INFO) (m_breakpad m)
  && oall (wf_flat L_MINIDUMP_ASSERTION_INFO) (m_assertion m)
  && oall (forallb (wf_flat L_MINIDUMP_THREAD_INFO)) (m_thread_info m)
  && oall wf_handles (m_handles m)
  && (zlen (encode_dump e m) <=? U32M).

(* ------------------------------------------------------------------ directory *)
Lemma dir_lookup_none : forall d ty, ~ In ty (map fst d) -> dir_lookup d ty = None.
Proof.
  induction d as [|[t loc] d IH]; intros ty H; [reflexivity|].
  cbn [map fst In] in H. cbn [dir_lookup]. rewrite IH by tauto.
  replace (t =? ty) with false by (symmetry; apply Z.eqb_neq; tauto). reflexivity.
Qed.

Lemma dir_lookup_app : forall a b ty,
  dir_lookup (a ++ b) ty = match dir_lookup b ty with Some l => Some l | None => dir_lookup a ty end.
Proof.
  induction a as [|[t loc] a IH]; intros b ty.
  - cbn [app dir_lookup]. destruct (dir_lookup b ty); reflexivity.
  - cbn [app dir_lookup]. rewrite IH. destruct (dir_lookup b ty); reflexivity.
Qed.

Lemma dir_lookup_real : forall placed ty off s, NoDup (map fst placed) -> In (ty, (off, s)) placed ->
  dir_lookup (map dirent placed) ty = Some (fst s, off).
Proof.
  induction placed as [|[t0 [o0 s0]] r IH]; intros ty off s Hnd Hin; [destruct Hin|].
  cbn [map fst] in Hnd. inversion Hnd as [|x l Hnot Hnd']; subst.
  cbn [map dir_lookup dirent fst snd]. destruct Hin as [Heq|Hin].
  - inversion Heq; subst. rewrite dir_lookup_none.
    + rewrite Z.eqb_refl. reflexivity.
    + rewrite map_map. cbn [dirent fst]. exact Hnot.
  - rewrite (IH ty off s Hnd' Hin). reflexivity.
Qed.

Lemma zlen_dir_entry : forall e d, zlen (enc_dir_entry e d) = 12.
Proof. intros e d. unfold enc_dir_entry. rewrite enc_zlen_shape by reflexivity. reflexivity. Qed.

Lemma zlen_dir : forall e d, zlen (flat_map (enc_dir_entry e) d) = 12 * zlen d.
Proof.
  intros e. induction d as [|x d IH]; [reflexivity|].
  cbn [flat_map]. rewrite zlen_app, zlen_dir_entry, IH, zlen_cons. lia.
Qed.

Lemma dec_dir_enc : forall e d rest, forallb u32_entry d = true ->
  dec_dir e (length d) (flat_map (enc_dir_entry e) d ++ rest) = Some d.
Proof.
  intros e. induction d as [|[ty [size rva]] d IH]; intros rest H; [reflexivity|].
  cbn [forallb] in H. apply andb_prop in H. destruct H as [Hx Hd]. unfold u32_entry in Hx. cbn [fst snd] in Hx.
  cbn [length flat_map dec_dir]. rewrite <- app_assoc. unfold enc_dir_entry at 1. cbn [fst snd].
  rewrite dec_enc.
  2:{ unfold L_MINIDUMP_DIRECTORY, L_MINIDUMP_LOCATION_DESCRIPTOR. hyps. wtsolve. }
  cbn [vtuple vloc]. rewrite IH by exact Hd. reflexivity.
Qed.

(* ------------------------------------------------------------------ placement *)
Lemma place_types : forall t off, map fst (place t off) = map fst (filter present t).
Proof.
  induction t as [|[ty [b|]] t IH]; intro off.
  - reflexivity.
  - cbn [place filter present is_some snd map fst]. rewrite IH. reflexivity.
  - cbn [place filter present is_some snd map fst]. apply IH.
Qed.

Lemma place_length : forall t off, zlen (place t off) = count_present t.
Proof.
  intros t off. unfold count_present. unfold zlen.
  rewrite <- (map_length fst (place t off)), place_types, map_length.
  reflexivity.
Qed.

Lemma place_complete : forall t off0 ty b, In (ty, Some b) t -> exists off, In (ty, (off, b off)) (place t off0).
Proof.
  induction t as [|[ty0 [b0|]] t IH]; intros off0 ty b Hin; [destruct Hin| |].
  - cbn [place]. destruct Hin as [Heq|Hin].
    + inversion Heq; subst. exists off0. left. reflexivity.
    + destruct (IH (off0 + zlen (snd (b0 off0))) ty b Hin) as [off Hoff]. exists off. right. exact Hoff.
  - cbn [place]. destruct Hin as [Heq|Hin]; [discriminate|]. apply IH. exact Hin.
Qed.

Lemma place_sound : forall t off0 ty off s, In (ty, (off, s)) (place t off0) ->
  exists b, In (ty, Some b) t /\ s = b off.
Proof.
  induction t as [|[ty0 [b0|]] t IH]; intros off0 ty off s Hin; [destruct Hin| |].
  - cbn [place] in Hin. destruct Hin as [Heq|Hin].
    + inversion Heq; subst. exists b0. split; [left; reflexivity|reflexivity].
    + destruct (IH _ _ _ _ Hin) as [b [H1 H2]]. exists b. split; [right; exact H1|exact H2].
  - cbn [place] in Hin. destruct (IH _ _ _ _ Hin) as [b [H1 H2]]. exists b. split; [right; exact H1|exact H2].
Qed.

Lemma place_split : forall t off0 ty off s, In (ty, (off, s)) (place t off0) ->
  exists pre post, flat_map sbytes (place t off0) = pre ++ snd s ++ post /\ off = off0 + zlen pre.
Proof.
  induction t as [|[ty0 [b0|]] t IH]; intros off0 ty off s Hin; [destruct Hin| |].
  - cbn [place] in Hin. cbn [place flat_map]. destruct Hin as [Heq|Hin].
    + inversion Heq; subst. exists [], (flat_map sbytes (place t (off + zlen (snd (b0 off))))).
      split; [reflexivity|]. cbn. lia.
    + destruct (IH _ _ _ _ Hin) as [pre [post [H1 H2]]].
      exists (snd (b0 off0) ++ pre), post. split.
      * unfold sbytes at 1. cbn [snd]. rewrite H1, <- app_assoc. reflexivity.
      * rewrite zlen_app. lia.
  - cbn [place] in Hin. cbn [place]. apply (IH _ _ _ _ Hin).
Qed.

Lemma NoDup_map_filter : forall (t : list (Z * option (Z -> section))) p, NoDup (map fst t) -> NoDup (map fst (filter p t)).
Proof.
  induction t as [|x t IH]; intros p H; [constructor|].
  cbn [map] in H. inversion H as [|y l Hnot Hnd]; subst.
  cbn [filter]. destruct (p x); [|apply IH; exact Hnd].
  cbn [map]. constructor; [|apply IH; exact Hnd].
  intro Hin. apply Hnot. apply in_map_iff in Hin. destruct Hin as [z [Hz1 Hz2]].
  apply filter_In in Hz2. destruct Hz2 as [Hz2 _]. apply in_map_iff. exists z. split; assumption.
Qed.

Lemma NoDup_fst_inj : forall (t : list (Z * option (Z -> section))) k v1 v2,
  NoDup (map fst t) -> In (k, v1) t -> In (k, v2) t -> v1 = v2.
Proof.
  induction t as [|[k0 v0] t IH]; intros k v1 v2 Hnd H1 H2; [destruct H1|].
  cbn [map fst] in Hnd. inversion Hnd as [|y l Hnot Hnd']; subst.
  destruct H1 as [E1|H1], H2 as [E2|H2].
  - congruence.
  - inversion E1; subst. exfalso. apply Hnot. apply in_map_iff. exists (k, v2). split; [reflexivity|exact H2].
  - inversion E2; subst. exfalso. apply Hnot. apply in_map_iff. exists (k, v1). split; [reflexivity|exact H1].
  - eapply IH; eassumption.
Qed.

Lemma table_types : forall e m, map fst (table e m) = modelled_types.
Proof. reflexivity. Qed.

Lemma modelled_nodup : NoDup modelled_types.
Proof.
  unfold modelled_types.
  repeat (constructor; [cbn [In]; unfold ST_SystemInfoStream, ST_ThreadListStream, ST_ModuleListStream, ST_MemoryListStream,
                        ST_Memory64ListStream, ST_ExceptionStream, ST_ThreadNamesStream, ST_UnloadedModuleListStream,
                        ST_MemoryInfoListStream, ST_MiscInfoStream, ST_BreakpadInfoStream, ST_AssertionInfoStream,
                        ST_ThreadInfoListStream, ST_LinuxCpuInfo, ST_LinuxProcStatus, ST_LinuxLsbRelease, ST_LinuxEnviron,
                        ST_LinuxMaps, ST_MozLinuxLimits, ST_HandleDataStream; intuition lia|]).
  constructor.
Qed.

Lemma modelled_u32 : forall ty, In ty modelled_types -> u32b ty = true.
Proof.
  intros ty H. unfold modelled_types in H. cbn [In] in H.
  repeat (destruct H as [H|H]; [subst ty; reflexivity|]). destruct H.
Qed.

Lemma zmem_In : forall x l, zmem x l = true <-> In x l.
Proof.
  intros x l. unfold zmem. rewrite existsb_exists. split.
  - intros [y [H1 H2]]. apply Z.eqb_eq in H2. subst. exact H1.
  - intro H. exists x. split; [exact H|apply Z.eqb_refl].
Qed.

(* ------------------------------------------------------------------ the whole dump *)
Section Dump.
Variables (e : endian) (m : model).
Hypothesis Hwf : wf_model e m = true.

Let t := table e m.
Let ndir := zlen (m_extra_dir m) + count_present t.
Let off0 := HEADER_SIZE + ndir * DIR_ENTRY_SIZE.
Let placed := place t off0.
Let dir := m_extra_dir m ++ map dirent placed.
Let hv := vtuple [VInt MINIDUMP_SIGNATURE; VInt (m_version m); VInt ndir; VInt HEADER_SIZE;
                  VInt (m_checksum m); VInt (m_time m); VInt (m_flags m)].
Let Hd := enc e L_MINIDUMP_HEADER hv.
Let Dr := flat_map (enc_dir_entry e) dir.
Let Bd := flat_map sbytes placed.

Lemma encode_eq : encode_dump e m = Hd ++ Dr ++ Bd.
Proof. reflexivity. Qed.

Lemma zlen_Hd : zlen Hd = 32.
Proof. unfold Hd. rewrite enc_zlen_shape by reflexivity. reflexivity. Qed.

Lemma zlen_dir_ndir : zlen dir = ndir.
Proof.
  unfold dir, ndir. rewrite zlen_app. f_equal.
  rewrite <- (place_length t off0). unfold zlen. rewrite map_length. reflexivity.
Qed.

Lemma zlen_Dr : zlen Dr = 12 * ndir.
Proof. unfold Dr. rewrite zlen_dir, zlen_dir_ndir. reflexivity. Qed.

Lemma off0_eq : off0 = zlen (Hd ++ Dr).
Proof. rewrite zlen_app, zlen_Hd, zlen_Dr. unfold off0. change HEADER_SIZE with 32. change DIR_ENTRY_SIZE with 12. lia. Qed.

Lemma total_bound : zlen (Hd ++ Dr ++ Bd) <= U32M.
Proof.
  pose proof Hwf as H. unfold wf_model in H. apply andb_prop in H. destruct H as [_ H].
  apply Z.leb_le in H. rewrite encode_eq in H. exact H.
Qed.

Lemma ndir_nonneg : 0 <= ndir.
Proof. rewrite <- zlen_dir_ndir. apply zlen_nonneg. Qed.

Lemma types_nodup : NoDup (map fst placed).
Proof.
  unfold placed. rewrite place_types. apply NoDup_map_filter. unfold t. rewrite table_types. apply modelled_nodup.
Qed.

(* every placed section sits in the file at its recorded offset *)
Lemma placed_split : forall ty off s, In (ty, (off, s)) placed ->
  exists pre post, Hd ++ Dr ++ Bd = pre ++ snd s ++ post /\ off = zlen pre /\ 0 < zlen pre /\
                   zlen pre + zlen (snd s) <= U32M.
Proof.
  intros ty off s Hin. unfold placed in Hin.
  destruct (place_split _ _ _ _ _ Hin) as [pre [post [H1 H2]]].
  fold placed in H1. fold Bd in H1.
  exists ((Hd ++ Dr) ++ pre), post.
  assert (Hz : zlen ((Hd ++ Dr) ++ pre) = off) by (rewrite zlen_app, <- off0_eq; lia).
  split; [rewrite H1, <- !app_assoc; reflexivity|]. split; [symmetry; exact Hz|].
  pose proof total_bound as Hb. rewrite H1 in Hb. rewrite !zlen_app in Hb. rewrite zlen_app in Hz.
  pose proof zlen_Hd. pose proof ndir_nonneg. pose proof zlen_Dr.
  pose proof (zlen_nonneg _ pre). pose proof (zlen_nonneg _ post). pose proof (zlen_nonneg _ (snd s)).
  rewrite !zlen_app. split; lia.
Qed.

(* pieces of the well-formedness predicate *)
Ltac wfparts := pose proof Hwf as Hwf'; unfold wf_model in Hwf'; bdestr.

Ltac sane_case :=
  match goal with
  | Heq : ob _ ?o _ = (_, Some _) |- _ =>
      unfold ob in Heq; destruct o as [a|] eqn:E; [|discriminate]; inversion Heq; subst; clear Heq;
      wfparts;
      repeat match goal with Hx : oall _ ?o' = true |- _ => match o' with o => rewrite E in Hx; cbn [oall] in Hx end end
  end.

Lemma thread_info_size : 1 <= lsize L_MINIDUMP_THREAD_INFO < 4294967296.
Proof. let v := eval vm_compute in (lsize L_MINIDUMP_THREAD_INFO) in change (lsize L_MINIDUMP_THREAD_INFO) with v. lia. Qed.

Lemma table_sane : forall ty b, In (ty, Some b) t ->
  forall pre post, 0 < zlen pre -> zlen pre + zlen (snd (b (zlen pre))) <= U32M ->
  0 <= fst (b (zlen pre)) <= zlen (snd (b (zlen pre))) /\ (pre ++ snd (b (zlen pre)) ++ post = pre ++ snd (b (zlen pre)) ++ post).
Proof.
  intros ty b Hin pre post Hpre Hb. split; [|reflexivity].
  unfold t, table in Hin. cbn [In] in Hin.
  destruct Hin as [Heq|[Heq|[Heq|[Heq|[Heq|[Heq|[Heq|[Heq|[Heq|[Heq|[Heq|[Heq|[Heq|[Heq|[Heq|[Heq|[Heq|[Heq|[Heq|[Heq|[]]]]]]]]]]]]]]]]]]]]]; sane_case.
  - apply (sysinfo_roundtrip e a pre post); assumption.
  - apply (list_roundtrip thread_codec e wf_thread (thread_ok e) (m_pad_lists m) a pre post); assumption.
  - apply (list_roundtrip module_codec e (wf_module e) (module_ok e) (m_pad_lists m) a pre post); assumption.
  - apply (list_roundtrip region_codec e wf_region (region_ok e) (m_pad_lists m) a pre post); assumption.
  - apply (mem64_roundtrip e a pre post); assumption.
  - apply (exception_roundtrip e a pre post); assumption.
  - apply (list_roundtrip tname_codec e wf_tname (tname_ok e) (m_pad_lists m) a pre post); assumption.
  - apply (exlist_roundtrip unloaded_codec e wf_unloaded (unloaded_ok e) false UNLOADED_HDR 4 (or_intror (conj eq_refl (conj eq_refl eq_refl))) a pre post); assumption.
  - apply (exlist_roundtrip meminfo_codec e wf_meminfo (meminfo_ok e) true MEMINFO_HDR 8 (or_introl (conj eq_refl (conj eq_refl eq_refl))) a pre post); assumption.
  - apply (misc_roundtrip e a pre post); assumption.
  - apply (flat_roundtrip L_MINIDUMP_BREAKPAD_INFO e a pre post); assumption.
  - apply (flat_roundtrip L_MINIDUMP_ASSERTION_INFO e a pre post); assumption.
  - apply (exlist_roundtrip (flat_codec L_MINIDUMP_THREAD_INFO) e (wf_flat L_MINIDUMP_THREAD_INFO) (flat_codec_ok _ e thread_info_size) false THREADINFO_HDR 4 (or_intror (conj eq_refl (conj eq_refl eq_refl))) a pre post); assumption.
  - apply (raw_roundtrip e a pre post); [reflexivity|assumption..].
  - apply (raw_roundtrip e a pre post); [reflexivity|assumption..].
  - apply (raw_roundtrip e a pre post); [reflexivity|assumption..].
  - apply (raw_roundtrip e a pre post); [reflexivity|assumption..].
  - apply (raw_roundtrip e a pre post); [reflexivity|assumption..].
  - apply (raw_roundtrip e a pre post); [reflexivity|assumption..].
  - apply (handles_roundtrip e a pre post); assumption.
Qed.

Lemma dir_u32 : forallb u32_entry dir = true.
Proof.
  unfold dir. rewrite forallb_app. apply andb_true_intro. split.
  - wfparts. assumption.
  - apply forallb_forall. intros d Hd'. apply in_map_iff in Hd'. destruct Hd' as [[ty [off s]] [Hd1 Hd2]]. subst d.
    destruct (placed_split ty off s Hd2) as [pre [post [H1 [H2 [H3 H4]]]]].
    unfold placed in Hd2. destruct (place_sound _ _ _ _ _ Hd2) as [b [Hb1 Hb2]].
    subst s. subst off.
    destruct (table_sane ty b Hb1 pre post H3 H4) as [Hs _].
    assert (Hty : In ty modelled_types).
    { rewrite <- (table_types e m). apply in_map_iff. exists (ty, Some b). split; [reflexivity|exact Hb1]. }
    unfold u32_entry, dirent. cbn [fst snd]. rewrite (modelled_u32 ty Hty). cbn [andb].
    pose proof (zlen_nonneg _ (snd (b (zlen pre)))). pose proof (zlen_nonneg _ pre).
    unfold u32b. rewrite wbits4. unfold U32M in *. bsplit; try (apply Z.leb_le; lia); apply Z.ltb_lt; lia.
Qed.

Lemma header_wt : wt L_MINIDUMP_HEADER hv = true.
Proof.
  unfold hv, L_MINIDUMP_HEADER. wfparts.
  pose proof ndir_nonneg. pose proof total_bound as Hb. rewrite !zlen_app, zlen_Hd, zlen_Dr in Hb. pose proof (zlen_nonneg _ Bd).
  hyps. change HEADER_SIZE with 32. unfold MINIDUMP_SIGNATURE. wtsolve.
Qed.

Lemma detect_ok : detect_endian (Hd ++ Dr ++ Bd) = Some e.
Proof.
  unfold detect_endian.
  pose proof (zlen_nonneg _ (Dr ++ Bd)). change HEADER_SIZE with 32.
  replace (zlen (Hd ++ Dr ++ Bd) <? 32) with false by (symmetry; apply Z.ltb_ge; rewrite zlen_app, zlen_Hd; lia).
  assert (Hf : exists X, Hd ++ Dr ++ Bd = enc_uint e 4 MINIDUMP_SIGNATURE ++ X).
  { unfold Hd, hv, L_MINIDUMP_HEADER. cbn [vtuple enc]. rewrite <- !app_assoc. eauto. }
  destruct Hf as [X HX]. rewrite HX. clear HX. destruct e.
  - let v := eval vm_compute in (enc_uint LE 4 MINIDUMP_SIGNATURE) in change (enc_uint LE 4 MINIDUMP_SIGNATURE) with v.
    reflexivity.
  - let v := eval vm_compute in (enc_uint BE 4 MINIDUMP_SIGNATURE) in change (enc_uint BE 4 MINIDUMP_SIGNATURE) with v.
    reflexivity.
Qed.

Lemma header_ok : dec_header e (Hd ++ Dr ++ Bd) =
  Some [MINIDUMP_SIGNATURE; m_version m; ndir; HEADER_SIZE; m_checksum m; m_time m; m_flags m].
Proof. unfold dec_header, Hd. rewrite dec_enc by apply header_wt. reflexivity. Qed.

Lemma dir_ok : dec_dir e (Z.to_nat ndir) (skipn (Z.to_nat HEADER_SIZE) (Hd ++ Dr ++ Bd)) = Some dir.
Proof.
  change (Z.to_nat HEADER_SIZE) with 32%nat.
  assert (Hl : length Hd = 32%nat) by (pose proof zlen_Hd as Hz; unfold zlen in Hz; lia).
  rewrite skipn_app, Hl, Nat.sub_diag. rewrite <- Hl, skipn_all. cbn [app skipn].
  rewrite <- zlen_dir_ndir, zlen_to_nat. unfold Dr. apply dec_dir_enc. apply dir_u32.
Qed.

(* a stream the model has is served from its own section, whatever precedes it in the directory *)
Lemma stream_present : forall (A : Type) (enc : Z -> A -> section) (dec : endian -> list Z -> list Z -> option A)
    (wf : A -> bool) (a : A) ty,
  sec_ok enc (dec e) wf -> wf a = true -> In (ty, Some (fun off => enc off a)) t ->
  get_stream dec e (Hd ++ Dr ++ Bd) dir ty = SOk a.
Proof.
  intros A enc dec wf a ty Hok Hwfa Hin.
  destruct (place_complete t off0 ty _ Hin) as [off Hpl]. fold placed in Hpl.
  destruct (placed_split ty off _ Hpl) as [pre [post [H1 [H2 [H3 H4]]]]].
  unfold get_stream. unfold dir. rewrite dir_lookup_app.
  rewrite (dir_lookup_real placed ty off _ types_nodup Hpl).
  subst off. rewrite H1.
  destruct (Hok a pre post Hwfa H3 H4) as [_ [body [Hs Hdec]]].
  rewrite Hs, Hdec. reflexivity.
Qed.

Lemma stream_absent : forall (A : Type) (dec : endian -> list Z -> list Z -> option A) ty,
  In (ty, None) t -> get_stream dec e (Hd ++ Dr ++ Bd) dir ty = SMissing.
Proof.
  intros A dec ty Hin. unfold get_stream. rewrite dir_lookup_none; [reflexivity|].
  assert (Hnd : NoDup (map fst t)) by (unfold t; rewrite table_types; apply modelled_nodup).
  assert (Hnp : ~ In ty (map fst (filter present t))).
  { intro H. apply in_map_iff in H. destruct H as [[ty' o] [H1 H2]]. cbn [fst] in H1. subst ty'.
    apply filter_In in H2. destruct H2 as [H2 H3]. unfold present in H3. cbn [snd] in H3.
    destruct o as [b|]; [|discriminate]. pose proof (NoDup_fst_inj t ty _ _ Hnd H2 Hin). discriminate. }
  unfold dir. rewrite map_app, in_app_iff. intros [H|H].
  - wfparts.
    apply in_map_iff in H. destruct H as [d [Hd1 Hd2]].
    assert (Hx : negb (zmem ty modelled_types) || zmem ty (present_types e m) = true).
    { match goal with Hy : forallb (fun d => negb (zmem (fst d) modelled_types) || _) _ = true |- _ =>
        rewrite forallb_forall in Hy; specialize (Hy d Hd2); rewrite Hd1 in Hy; exact Hy end. }
    apply orb_prop in Hx. destruct Hx as [Hx|Hx].
    + apply negb_true_iff in Hx. assert (Hm : zmem ty modelled_types = true).
      { apply zmem_In. rewrite <- (table_types e m). apply in_map_iff. exists (ty, None). split; [reflexivity|exact Hin]. }
      congruence.
    + apply zmem_In in Hx. apply Hnp. exact Hx.
  - apply Hnp. rewrite map_map in H. cbn [dirent fst] in H. unfold placed in H. rewrite place_types in H. exact H.
Qed.
End Dump.

Ltac wf_piece Hwf E :=
  let Hw := fresh "Hw" in
  pose proof Hwf as Hw; unfold wf_model in Hw; bdestr;
  repeat match goal with Hx : oall _ ?o' = true |- _ => rewrite E in Hx; cbn [oall] in Hx end;
  assumption.
Ltac in_table E := unfold table, ob; rewrite E; cbn [In]; repeat (first [left; reflexivity | right]).
Ltac in_table_none E := unfold table, ob; rewrite E; cbn [In]; repeat (first [left; reflexivity | right]).

Lemma dview_ext : forall a b : dview,
  v_endian a = v_endian b ->
  v_version a = v_version b ->
  v_checksum a = v_checksum b ->
  v_time a = v_time b ->
  v_flags a = v_flags b ->
  v_sysinfo a = v_sysinfo b ->
  v_threads a = v_threads b ->
  v_modules a = v_modules b ->
  v_memory a = v_memory b ->
  v_memory64 a = v_memory64 b ->
  v_exception a = v_exception b ->
  v_tnames a = v_tnames b ->
  v_unloaded a = v_unloaded b ->
  v_meminfo a = v_meminfo b ->
  v_misc a = v_misc b ->
  v_breakpad a = v_breakpad b ->
  v_assertion a = v_assertion b ->
  v_thread_info a = v_thread_info b ->
  v_lx_cpuinfo a = v_lx_cpuinfo b ->
  v_lx_status a = v_lx_status b ->
  v_lx_lsb a = v_lx_lsb b ->
  v_lx_environ a = v_lx_environ b ->
  v_lx_maps a = v_lx_maps b ->
  v_lx_limits a = v_lx_limits b ->
  v_handles a = v_handles b -> a = b.
Proof. intros [] []; cbn; intros; subst; reflexivity. Qed.

Theorem dump_roundtrip : forall e m, wf_model e m = true ->
  decode_dump (encode_dump e m) = Some (view_of e m).
Proof.
  intros e m Hwf. rewrite (encode_eq e m). unfold decode_dump.
  rewrite (detect_ok e m Hwf). cbn [obnd]. rewrite (header_ok e m Hwf). cbn [obnd].
  assert (Hv : (m_version m mod 65536 =? MINIDUMP_VERSION) = true).
  { pose proof Hwf as Hw. unfold wf_model in Hw. bdestr. assumption. }
  rewrite Hv. cbn [negb].
  pose proof (total_bound e m Hwf) as Hb. pose proof (zlen_Hd e m) as Hh.
  match goal with |- context [HEADER_SIZE <=? ?z] => replace (HEADER_SIZE <=? z) with true end.
  2:{ symmetry. apply Z.leb_le. rewrite zlen_app. rewrite Hh.
      match goal with |- _ <= 32 + zlen ?x => pose proof (zlen_nonneg _ x) end.
      assert (HEADER_SIZE = 32) by reflexivity. lia. }
  rewrite (dir_ok e m Hwf). cbn [obnd]. unfold view_of. apply f_equal. apply dview_ext;
    cbn [v_endian v_version v_checksum v_time v_flags v_sysinfo v_threads v_modules v_memory v_memory64 v_exception v_tnames v_unloaded v_meminfo v_misc v_breakpad v_assertion v_thread_info v_lx_cpuinfo v_lx_status v_lx_lsb v_lx_environ v_lx_maps v_lx_limits v_handles]; try reflexivity.
  - destruct (m_sysinfo m) as [a|] eqn:E; cbn [sres_of].
    + apply (stream_present e m Hwf _ (enc_sysinfo e) dec_sysinfo wf_sysinfo a); [apply sysinfo_roundtrip|wf_piece Hwf E|in_table E].
    + apply (stream_absent e m Hwf). in_table_none E.
  - destruct (m_threads m) as [a|] eqn:E; cbn [sres_of].
    + apply (stream_present e m Hwf _ (enc_list thread_codec e (m_pad_lists m)) (dec_list thread_codec) (forallb wf_thread) a);
        [apply (list_roundtrip thread_codec e wf_thread (thread_ok e))|wf_piece Hwf E|in_table E].
    + apply (stream_absent e m Hwf). in_table_none E.
  - destruct (m_modules m) as [a|] eqn:E; cbn [sres_of].
    + apply (stream_present e m Hwf _ (enc_list module_codec e (m_pad_lists m)) (dec_list module_codec) (forallb (wf_module e)) a);
        [apply (list_roundtrip module_codec e (wf_module e) (module_ok e))|wf_piece Hwf E|in_table E].
    + apply (stream_absent e m Hwf). in_table_none E.
  - destruct (m_memory m) as [a|] eqn:E; cbn [sres_of].
    + apply (stream_present e m Hwf _ (enc_list region_codec e (m_pad_lists m)) (dec_list region_codec) (forallb wf_region) a);
        [apply (list_roundtrip region_codec e wf_region (region_ok e))|wf_piece Hwf E|in_table E].
    + apply (stream_absent e m Hwf). in_table_none E.
  - destruct (m_memory64 m) as [a|] eqn:E; cbn [sres_of].
    + apply (stream_present e m Hwf _ (enc_mem64 e) dec_mem64 (forallb wf_region64) a); [apply mem64_roundtrip|wf_piece Hwf E|in_table E].
    + apply (stream_absent e m Hwf). in_table_none E.
  - destruct (m_exception m) as [a|] eqn:E; cbn [sres_of].
    + apply (stream_present e m Hwf _ (enc_exception e) dec_exception wf_exception a); [apply exception_roundtrip|wf_piece Hwf E|in_table E].
    + apply (stream_absent e m Hwf). in_table_none E.
  - destruct (m_tnames m) as [a|] eqn:E; cbn [sres_of].
    + apply (stream_present e m Hwf _ (enc_list tname_codec e (m_pad_lists m)) (dec_list tname_codec) (forallb wf_tname) a);
        [apply (list_roundtrip tname_codec e wf_tname (tname_ok e))|wf_piece Hwf E|in_table E].
    + apply (stream_absent e m Hwf). in_table_none E.
  - destruct (m_unloaded m) as [a|] eqn:E; cbn [sres_of].
    + apply (stream_present e m Hwf _ (enc_exlist unloaded_codec e UNLOADED_HDR 4) (fun e => dec_exlist unloaded_codec e false) (forallb wf_unloaded) a);
        [apply (exlist_roundtrip unloaded_codec e wf_unloaded (unloaded_ok e) false UNLOADED_HDR 4); right; repeat split
        |wf_piece Hwf E|in_table E].
    + apply (stream_absent e m Hwf). in_table_none E.
  - destruct (m_meminfo m) as [a|] eqn:E; cbn [sres_of].
    + apply (stream_present e m Hwf _ (enc_exlist meminfo_codec e MEMINFO_HDR 8) (fun e => dec_exlist meminfo_codec e true) (forallb wf_meminfo) a);
        [apply (exlist_roundtrip meminfo_codec e wf_meminfo (meminfo_ok e) true MEMINFO_HDR 8); left; repeat split
        |wf_piece Hwf E|in_table E].
    + apply (stream_absent e m Hwf). in_table_none E.
  - destruct (m_misc m) as [a|] eqn:E; cbn [sres_of].
    + apply (stream_present e m Hwf _ (enc_misc e) dec_misc wf_misc a); [apply misc_roundtrip|wf_piece Hwf E|in_table E].
    + apply (stream_absent e m Hwf). in_table_none E.
  - destruct (m_breakpad m) as [a|] eqn:E; cbn [sres_of].
    + apply (stream_present e m Hwf _ (enc_flat L_MINIDUMP_BREAKPAD_INFO e) (dec_flat L_MINIDUMP_BREAKPAD_INFO) (wf_flat L_MINIDUMP_BREAKPAD_INFO) a);
        [apply flat_roundtrip|wf_piece Hwf E|in_table E].
    + apply (stream_absent e m Hwf). in_table_none E.
  - destruct (m_assertion m) as [a|] eqn:E; cbn [sres_of].
    + apply (stream_present e m Hwf _ (enc_flat L_MINIDUMP_ASSERTION_INFO e) (dec_flat L_MINIDUMP_ASSERTION_INFO) (wf_flat L_MINIDUMP_ASSERTION_INFO) a);
        [apply flat_roundtrip|wf_piece Hwf E|in_table E].
    + apply (stream_absent e m Hwf). in_table_none E.
  - destruct (m_thread_info m) as [a|] eqn:E; cbn [sres_of].
    + apply (stream_present e m Hwf _ (enc_exlist (flat_codec L_MINIDUMP_THREAD_INFO) e THREADINFO_HDR 4)
               (fun e => dec_exlist (flat_codec L_MINIDUMP_THREAD_INFO) e false) (forallb (wf_flat L_MINIDUMP_THREAD_INFO)) a);
        [apply (exlist_roundtrip (flat_codec L_MINIDUMP_THREAD_INFO) e (wf_flat L_MINIDUMP_THREAD_INFO) (flat_codec_ok _ e (thread_info_size e m)) false THREADINFO_HDR 4); right; repeat split
        |wf_piece Hwf E|in_table E].
    + apply (stream_absent e m Hwf). in_table_none E.
  - destruct (m_lx_cpuinfo m) as [a|] eqn:E; cbn [sres_of].
    + apply (stream_present e m Hwf _ (enc_raw e) dec_raw (fun _ => true) a); [apply raw_roundtrip|reflexivity|in_table E].
    + apply (stream_absent e m Hwf). in_table_none E.
  - destruct (m_lx_status m) as [a|] eqn:E; cbn [sres_of].
    + apply (stream_present e m Hwf _ (enc_raw e) dec_raw (fun _ => true) a); [apply raw_roundtrip|reflexivity|in_table E].
    + apply (stream_absent e m Hwf). in_table_none E.
  - destruct (m_lx_lsb m) as [a|] eqn:E; cbn [sres_of].
    + apply (stream_present e m Hwf _ (enc_raw e) dec_raw (fun _ => true) a); [apply raw_roundtrip|reflexivity|in_table E].
    + apply (stream_absent e m Hwf). in_table_none E.
  - destruct (m_lx_environ m) as [a|] eqn:E; cbn [sres_of].
    + apply (stream_present e m Hwf _ (enc_raw e) dec_raw (fun _ => true) a); [apply raw_roundtrip|reflexivity|in_table E].
    + apply (stream_absent e m Hwf). in_table_none E.
  - destruct (m_lx_maps m) as [a|] eqn:E; cbn [sres_of].
    + apply (stream_present e m Hwf _ (enc_raw e) dec_raw (fun _ => true) a); [apply raw_roundtrip|reflexivity|in_table E].
    + apply (stream_absent e m Hwf). in_table_none E.
  - destruct (m_lx_limits m) as [a|] eqn:E; cbn [sres_of].
    + apply (stream_present e m Hwf _ (enc_raw e) dec_raw (fun _ => true) a); [apply raw_roundtrip|reflexivity|in_table E].
    + apply (stream_absent e m Hwf). in_table_none E.
  - destruct (m_handles m) as [a|] eqn:E; cbn [sres_of].
    + apply (stream_present e m Hwf _ (enc_handles e) dec_handles wf_handles a); [apply handles_roundtrip|wf_piece Hwf E|in_table E].
    + apply (stream_absent e m Hwf). in_table_none E.
Qed.
