(* C02/Proofs5.v — memory lookups (through the C08 range-table theorems), endianness independence,
   duplicate directory entries, list-header strictness *)
From Coq Require Import Lia.
From RM Require Import C08.Model C08.Proofs.
From RM Require Import C02.Model C02.Proofs1 C02.Proofs2 C02.Proofs3 C02.Proofs4.
Open Scope Z_scope.

Lemma enumerate_from_app : forall A (a b : list A) k,
  enumerate_from k (a ++ b) = enumerate_from k a ++ enumerate_from (k + zlen a) b.
Proof.
  intros A. induction a as [|x a IH]; intros b k.
  - cbn. rewrite Z.add_0_r. reflexivity.
  - cbn [app enumerate_from]. rewrite IH, zlen_cons. f_equal. f_equal. f_equal. lia.
Qed.

Lemma enumerate_from_in : forall A (l : list A) k a i, In (a, i) (enumerate_from k l) -> In a l.
Proof.
  intros A. induction l as [|x l IH]; intros k a i H; [destruct H|].
  cbn [enumerate_from] in H. destruct H as [H|H]; [inversion H; left; reflexivity|right; eapply IH; exact H].
Qed.

Lemma region_ranges_wf : forall rs k, Forall (fun q => 0 <= mr_base q) rs ->
  wf_entries (enumerate_from k (map region_range rs)).
Proof.
  induction rs as [|q rs IH]; intros k H; [constructor|].
  inversion H as [|y l Hq Hrs]; subst. cbn [map enumerate_from]. constructor; [|apply IH; exact Hrs].
  cbn [fst]. destruct (region_range q) as [r|] eqn:E; [|exact I].
  unfold region_range in E. eapply mk_range_wf; [exact Hq|apply zlen_nonneg|exact E].
Qed.

Theorem memory_bytes : forall rs1 r rs2 rg x,
  Forall (fun q => 0 <= mr_base q) (rs1 ++ r :: rs2) ->
  region_range r = Some rg ->
  (forall q rq, In q (rs1 ++ rs2) -> region_range q = Some rq -> intersects rg rq = false) ->
  contains rg x = true ->
  memory_at (rs1 ++ r :: rs2) x = Some r /\
  exists b, memory_byte (rs1 ++ r :: rs2) x = Some b /\ nth_error (mr_bytes r) (Z.to_nat (x - mr_base r)) = Some b.
Proof.
  intros rs1 r rs2 rg x Hnn Hrg Hiso Hc.
  assert (Hat : memory_at (rs1 ++ r :: rs2) x = Some r).
  { unfold memory_at, build_indexed.
    rewrite (@build_total Z Z.eqb) by (apply region_ranges_wf; exact Hnn).
    rewrite map_app. cbn [map]. rewrite enumerate_from_app. cbn [enumerate_from]. rewrite Hrg.
    rewrite (@isolated_complete Z Z.eqb Z.eqb_eq).
    - unfold zlen. rewrite map_length, Z.add_0_l, Nat2Z.id.
      rewrite nth_error_app2 by lia. rewrite Nat.sub_diag. reflexivity.
    - rewrite <- Hrg. change ((region_range r, 0 + zlen (map region_range rs1)) :: enumerate_from (0 + zlen (map region_range rs1) + 1) (map region_range rs2))
        with (enumerate_from (0 + zlen (map region_range rs1)) (map region_range (r :: rs2))).
      rewrite <- enumerate_from_app, <- map_app. apply region_ranges_wf. exact Hnn.
    - intros r' v' Hin. apply in_app_or in Hin.
      assert (Hq : In (Some r') (map region_range (rs1 ++ rs2))).
      { rewrite map_app. apply in_or_app. destruct Hin as [Hin|Hin]; [left|right]; eapply enumerate_from_in; exact Hin. }
      apply in_map_iff in Hq. destruct Hq as [q [Hq1 Hq2]]. eapply Hiso; eassumption.
    - exact Hc. }
  split; [exact Hat|].
  unfold memory_byte. rewrite Hat. cbn [obnd]. unfold region_byte.
  unfold region_range, mk_range, checked_add in Hrg.
  destruct (zlen (mr_bytes r) =? 0) eqn:E0; [discriminate|].
  destruct (mr_base r + zlen (mr_bytes r) <? 2 ^ 64) eqn:E1; [|discriminate].
  inversion Hrg; subst rg. unfold contains in Hc. cbn [fst snd] in Hc.
  apply andb_prop in Hc. destruct Hc as [H1 H2]. apply Z.leb_le in H1. apply Z.leb_le in H2.
  replace (x <? mr_base r) with false by (symmetry; apply Z.ltb_ge; lia).
  destruct (nth_error (mr_bytes r) (Z.to_nat (x - mr_base r))) as [b|] eqn:En.
  - exists b. split; reflexivity.
  - exfalso. apply nth_error_None in En. unfold zlen in *. lia.
Qed.

(* ------------------------------------------------------------------ byte order *)
Definition set_endian (e : endian) (v : dview) : dview :=
  {| v_endian := e; v_version := v_version v; v_checksum := v_checksum v; v_time := v_time v; v_flags := v_flags v;
     v_sysinfo := v_sysinfo v; v_threads := v_threads v; v_modules := v_modules v; v_memory := v_memory v;
     v_memory64 := v_memory64 v; v_exception := v_exception v; v_tnames := v_tnames v; v_unloaded := v_unloaded v;
     v_meminfo := v_meminfo v; v_misc := v_misc v;
     v_breakpad := v_breakpad v; v_assertion := v_assertion v; v_thread_info := v_thread_info v;
     v_lx_cpuinfo := v_lx_cpuinfo v; v_lx_status := v_lx_status v; v_lx_lsb := v_lx_lsb v;
     v_lx_environ := v_lx_environ v; v_lx_maps := v_lx_maps v; v_lx_limits := v_lx_limits v; v_handles := v_handles v |}.

Theorem endian_independent : forall m, wf_model LE m = true -> wf_model BE m = true ->
  option_map (set_endian LE) (decode_dump (encode_dump LE m)) =
  option_map (set_endian LE) (decode_dump (encode_dump BE m)) /\
  option_map v_endian (decode_dump (encode_dump LE m)) = Some LE /\
  option_map v_endian (decode_dump (encode_dump BE m)) = Some BE.
Proof.
  intros m H1 H2. rewrite (dump_roundtrip LE m H1), (dump_roundtrip BE m H2). repeat split.
Qed.

(* ------------------------------------------------------------------ duplicate directory entries *)
Theorem last_entry_wins : forall l1 ty loc l3, ~ In ty (map fst l3) ->
  dir_lookup (l1 ++ (ty, loc) :: l3) ty = Some loc.
Proof.
  intros l1 ty loc l3 H. rewrite dir_lookup_app. cbn [dir_lookup]. rewrite dir_lookup_none by exact H.
  rewrite Z.eqb_refl. reflexivity.
Qed.

Definition set_extra (m : model) (x : list (Z * (Z * Z))) : model :=
  {| m_version := m_version m; m_checksum := m_checksum m; m_time := m_time m; m_flags := m_flags m;
     m_extra_dir := x; m_pad_lists := m_pad_lists m; m_sysinfo := m_sysinfo m; m_threads := m_threads m;
     m_modules := m_modules m; m_memory := m_memory m; m_memory64 := m_memory64 m; m_exception := m_exception m;
     m_tnames := m_tnames m; m_unloaded := m_unloaded m; m_meminfo := m_meminfo m; m_misc := m_misc m;
     m_breakpad := m_breakpad m; m_assertion := m_assertion m; m_thread_info := m_thread_info m;
     m_lx_cpuinfo := m_lx_cpuinfo m; m_lx_status := m_lx_status m; m_lx_lsb := m_lx_lsb m;
     m_lx_environ := m_lx_environ m; m_lx_maps := m_lx_maps m; m_lx_limits := m_lx_limits m; m_handles := m_handles m |}.

(* whatever entries precede the real ones in the directory (including entries of the same types
   pointing anywhere), the reader serves the later, real ones *)
Theorem leading_duplicates_ignored : forall e m x, wf_model e (set_extra m x) = true -> wf_model e (set_extra m []) = true ->
  decode_dump (encode_dump e (set_extra m x)) = decode_dump (encode_dump e (set_extra m [])).
Proof.
  intros e m x H1 H2. rewrite (dump_roundtrip e _ H1), (dump_roundtrip e _ H2). reflexivity.
Qed.

(* ------------------------------------------------------------------ list header strictness *)
Theorem list_hdr_strict : forall e esize bs n r, dec_list_hdr e esize bs = Some (n, r) ->
  zlen bs = 4 + n * esize \/ zlen bs = 8 + n * esize.
Proof.
  intros e esize bs n r H. unfold dec_list_hdr in H.
  destruct (take 4 bs) as [[h t]|]; [|discriminate]. cbn [obnd fst snd] in H.
  destruct (zlen bs <? 4 + dec_uint e h * esize); [discriminate|].
  destruct (zlen bs - (4 + dec_uint e h * esize) =? 0) eqn:E0.
  - inversion H; subst. apply Z.eqb_eq in E0. left. lia.
  - destruct (zlen bs - (4 + dec_uint e h * esize) =? 4) eqn:E4; [|discriminate].
    inversion H; subst. apply Z.eqb_eq in E4. right. lia.
Qed.

(* ------------------------------------------------------------------ statements used by Properties.v *)
From RM Require Import C02.Documented.
Lemma layouts_documented :
  N_MINIDUMP_HEADER = DN_MINIDUMP_HEADER /\
  N_MINIDUMP_LOCATION_DESCRIPTOR = DN_MINIDUMP_LOCATION_DESCRIPTOR /\
  N_MINIDUMP_MEMORY_DESCRIPTOR = DN_MINIDUMP_MEMORY_DESCRIPTOR /\
  N_MINIDUMP_MEMORY_DESCRIPTOR64 = DN_MINIDUMP_MEMORY_DESCRIPTOR64 /\
  N_MINIDUMP_DIRECTORY = DN_MINIDUMP_DIRECTORY /\
  N_MINIDUMP_THREAD_NAME = DN_MINIDUMP_THREAD_NAME /\
  N_VS_FIXEDFILEINFO = DN_VS_FIXEDFILEINFO /\
  N_MINIDUMP_MODULE = DN_MINIDUMP_MODULE /\
  N_MINIDUMP_UNLOADED_MODULE = DN_MINIDUMP_UNLOADED_MODULE /\
  N_CV_INFO_PDB20 = DN_CV_INFO_PDB20 /\
  N_GUID = DN_GUID /\
  N_CV_INFO_PDB70 = DN_CV_INFO_PDB70 /\
  N_CV_INFO_ELF = DN_CV_INFO_ELF /\
  N_IMAGE_DEBUG_MISC = DN_IMAGE_DEBUG_MISC /\
  N_MINIDUMP_THREAD = DN_MINIDUMP_THREAD /\
  N_MINIDUMP_EXCEPTION = DN_MINIDUMP_EXCEPTION /\
  N_MINIDUMP_EXCEPTION_STREAM = DN_MINIDUMP_EXCEPTION_STREAM /\
  N_XMM_SAVE_AREA32 = DN_XMM_SAVE_AREA32 /\
  N_SSE_REGISTERS = DN_SSE_REGISTERS /\
  N_CONTEXT_AMD64 = DN_CONTEXT_AMD64 /\
  N_FLOATING_SAVE_AREA_ARM = DN_FLOATING_SAVE_AREA_ARM /\
  N_CONTEXT_ARM = DN_CONTEXT_ARM /\
  N_CONTEXT_ARM64_OLD = DN_CONTEXT_ARM64_OLD /\
  N_CONTEXT_ARM64 = DN_CONTEXT_ARM64 /\
  N_FLOATING_SAVE_AREA_MIPS = DN_FLOATING_SAVE_AREA_MIPS /\
  N_CONTEXT_MIPS = DN_CONTEXT_MIPS /\
  N_FLOATING_SAVE_AREA_PPC = DN_FLOATING_SAVE_AREA_PPC /\
  N_VECTOR_SAVE_AREA_PPC = DN_VECTOR_SAVE_AREA_PPC /\
  N_CONTEXT_PPC = DN_CONTEXT_PPC /\
  N_CONTEXT_PPC64 = DN_CONTEXT_PPC64 /\
  N_FLOATING_SAVE_AREA_SPARC = DN_FLOATING_SAVE_AREA_SPARC /\
  N_CONTEXT_SPARC = DN_CONTEXT_SPARC /\
  N_FLOATING_SAVE_AREA_X86 = DN_FLOATING_SAVE_AREA_X86 /\
  N_CONTEXT_X86 = DN_CONTEXT_X86 /\
  N_CPU_INFORMATION = DN_CPU_INFORMATION /\
  N_X86CpuInfo = DN_X86CpuInfo /\
  N_ARMCpuInfo = DN_ARMCpuInfo /\
  N_OtherCpuInfo = DN_OtherCpuInfo /\
  N_MINIDUMP_SYSTEM_INFO = DN_MINIDUMP_SYSTEM_INFO /\
  N_SYSTEMTIME = DN_SYSTEMTIME /\
  N_TIME_ZONE_INFORMATION = DN_TIME_ZONE_INFORMATION /\
  N_XSTATE_FEATURE = DN_XSTATE_FEATURE /\
  N_XSTATE_CONFIG_FEATURE_MSC_INFO = DN_XSTATE_CONFIG_FEATURE_MSC_INFO /\
  N_MINIDUMP_MEMORY_INFO_LIST = DN_MINIDUMP_MEMORY_INFO_LIST /\
  N_MINIDUMP_MEMORY_INFO = DN_MINIDUMP_MEMORY_INFO /\
  N_MINIDUMP_BREAKPAD_INFO = DN_MINIDUMP_BREAKPAD_INFO /\
  N_MINIDUMP_ASSERTION_INFO = DN_MINIDUMP_ASSERTION_INFO /\
  N_LINK_MAP_32 = DN_LINK_MAP_32 /\
  N_DSO_DEBUG_32 = DN_DSO_DEBUG_32 /\
  N_LINK_MAP_64 = DN_LINK_MAP_64 /\
  N_DSO_DEBUG_64 = DN_DSO_DEBUG_64 /\
  N_MINIDUMP_SIMPLE_STRING_DICTIONARY_ENTRY = DN_MINIDUMP_SIMPLE_STRING_DICTIONARY_ENTRY /\
  N_MINIDUMP_SIMPLE_STRING_DICTIONARY = DN_MINIDUMP_SIMPLE_STRING_DICTIONARY /\
  N_MINIDUMP_RVA_LIST = DN_MINIDUMP_RVA_LIST /\
  N_MINIDUMP_ANNOTATION = DN_MINIDUMP_ANNOTATION /\
  N_MINIDUMP_MODULE_CRASHPAD_INFO = DN_MINIDUMP_MODULE_CRASHPAD_INFO /\
  N_MINIDUMP_MODULE_CRASHPAD_INFO_LINK = DN_MINIDUMP_MODULE_CRASHPAD_INFO_LINK /\
  N_MINIDUMP_MODULE_CRASHPAD_INFO_LIST = DN_MINIDUMP_MODULE_CRASHPAD_INFO_LIST /\
  N_MINIDUMP_CRASHPAD_INFO = DN_MINIDUMP_CRASHPAD_INFO /\
  N_MINIDUMP_MAC_CRASH_INFO = DN_MINIDUMP_MAC_CRASH_INFO /\
  N_MINIDUMP_MAC_BOOTARGS = DN_MINIDUMP_MAC_BOOTARGS /\
  N_MINIDUMP_HANDLE_OBJECT_INFORMATION = DN_MINIDUMP_HANDLE_OBJECT_INFORMATION /\
  N_MINIDUMP_HANDLE_DESCRIPTOR = DN_MINIDUMP_HANDLE_DESCRIPTOR /\
  N_MINIDUMP_HANDLE_DESCRIPTOR_2 = DN_MINIDUMP_HANDLE_DESCRIPTOR_2 /\
  N_MINIDUMP_HANDLE_DATA_STREAM = DN_MINIDUMP_HANDLE_DATA_STREAM /\
  N_MINIDUMP_THREAD_INFO = DN_MINIDUMP_THREAD_INFO /\
  N_MINIDUMP_MISC_INFO = DN_MINIDUMP_MISC_INFO /\
  N_MINIDUMP_MISC_INFO_2 = DN_MINIDUMP_MISC_INFO_2 /\
  N_MINIDUMP_MISC_INFO_3 = DN_MINIDUMP_MISC_INFO_3 /\
  N_MINIDUMP_MISC_INFO_4 = DN_MINIDUMP_MISC_INFO_4 /\
  N_MINIDUMP_MISC_INFO_5 = DN_MINIDUMP_MISC_INFO_5 /\
  N_MINIDUMP_MAC_CRASH_INFO_RECORD = DN_MINIDUMP_MAC_CRASH_INFO_RECORD /\
  N_MINIDUMP_MAC_CRASH_INFO_RECORD_4 = DN_MINIDUMP_MAC_CRASH_INFO_RECORD_4 /\
  N_MINIDUMP_MAC_CRASH_INFO_RECORD_5 = DN_MINIDUMP_MAC_CRASH_INFO_RECORD_5 /\
  ALL_LAYOUTS = D_ALL_LAYOUTS /\
  MINIDUMP_SIGNATURE = DOC_MINIDUMP_SIGNATURE /\
  MINIDUMP_VERSION = DOC_MINIDUMP_VERSION /\
  VS_FFI_SIGNATURE = DOC_VS_FFI_SIGNATURE /\
  VS_FFI_STRUCVERSION = DOC_VS_FFI_STRUCVERSION /\
  ST_UnusedStream = DOC_ST_UnusedStream /\
  ST_ThreadListStream = DOC_ST_ThreadListStream /\
  ST_ModuleListStream = DOC_ST_ModuleListStream /\
  ST_MemoryListStream = DOC_ST_MemoryListStream /\
  ST_ExceptionStream = DOC_ST_ExceptionStream /\
  ST_SystemInfoStream = DOC_ST_SystemInfoStream /\
  ST_Memory64ListStream = DOC_ST_Memory64ListStream /\
  ST_UnloadedModuleListStream = DOC_ST_UnloadedModuleListStream /\
  ST_MiscInfoStream = DOC_ST_MiscInfoStream /\
  ST_MemoryInfoListStream = DOC_ST_MemoryInfoListStream /\
  ST_ThreadNamesStream = DOC_ST_ThreadNamesStream /\
  ST_HandleDataStream = DOC_ST_HandleDataStream /\
  ST_ThreadInfoListStream = DOC_ST_ThreadInfoListStream /\
  ST_BreakpadInfoStream = DOC_ST_BreakpadInfoStream /\
  ST_AssertionInfoStream = DOC_ST_AssertionInfoStream /\
  ST_LinuxCpuInfo = DOC_ST_LinuxCpuInfo /\
  ST_LinuxProcStatus = DOC_ST_LinuxProcStatus /\
  ST_LinuxLsbRelease = DOC_ST_LinuxLsbRelease /\
  ST_LinuxCmdLine = DOC_ST_LinuxCmdLine /\
  ST_LinuxEnviron = DOC_ST_LinuxEnviron /\
  ST_LinuxAuxv = DOC_ST_LinuxAuxv /\
  ST_LinuxMaps = DOC_ST_LinuxMaps /\
  ST_LinuxDsoDebug = DOC_ST_LinuxDsoDebug /\
  ST_CrashpadInfoStream = DOC_ST_CrashpadInfoStream /\
  ST_MozMacosCrashInfoStream = DOC_ST_MozMacosCrashInfoStream /\
  ST_MozMacosBootargsStream = DOC_ST_MozMacosBootargsStream /\
  ST_MozLinuxLimits = DOC_ST_MozLinuxLimits /\
  ST_MozSoftErrors = DOC_ST_MozSoftErrors /\
  CF_CONTEXT_X86 = DOC_CF_CONTEXT_X86 /\
  CF_CONTEXT_AMD64 = DOC_CF_CONTEXT_AMD64 /\
  CF_CONTEXT_ARM = DOC_CF_CONTEXT_ARM /\
  CF_CONTEXT_ARM64 = DOC_CF_CONTEXT_ARM64 /\
  CF_CONTEXT_ARM64_OLD = DOC_CF_CONTEXT_ARM64_OLD /\
  CF_CONTEXT_MIPS = DOC_CF_CONTEXT_MIPS /\
  CF_CONTEXT_PPC = DOC_CF_CONTEXT_PPC /\
  CF_CONTEXT_PPC64 = DOC_CF_CONTEXT_PPC64 /\
  CF_CONTEXT_SPARC = DOC_CF_CONTEXT_SPARC /\
  CF_ALL_BITS = DOC_CF_ALL_BITS /\
  CONTEXT_CPU_MASK = DOC_CONTEXT_CPU_MASK /\
  PROCESSOR_ARCHITECTURE_INTEL = DOC_PROCESSOR_ARCHITECTURE_INTEL /\
  PROCESSOR_ARCHITECTURE_ARM = DOC_PROCESSOR_ARCHITECTURE_ARM /\
  PROCESSOR_ARCHITECTURE_AMD64 = DOC_PROCESSOR_ARCHITECTURE_AMD64 /\
  PROCESSOR_ARCHITECTURE_IA32_ON_WIN64 = DOC_PROCESSOR_ARCHITECTURE_IA32_ON_WIN64 /\
  PROCESSOR_ARCHITECTURE_ARM64 = DOC_PROCESSOR_ARCHITECTURE_ARM64 /\
  PROCESSOR_ARCHITECTURE_MIPS = DOC_PROCESSOR_ARCHITECTURE_MIPS /\
  PROCESSOR_ARCHITECTURE_PPC = DOC_PROCESSOR_ARCHITECTURE_PPC /\
  PROCESSOR_ARCHITECTURE_SPARC = DOC_PROCESSOR_ARCHITECTURE_SPARC /\
  PROCESSOR_ARCHITECTURE_PPC64 = DOC_PROCESSOR_ARCHITECTURE_PPC64 /\
  PROCESSOR_ARCHITECTURE_ARM64_OLD = DOC_PROCESSOR_ARCHITECTURE_ARM64_OLD /\
  PROCESSOR_ARCHITECTURE_MIPS64 = DOC_PROCESSOR_ARCHITECTURE_MIPS64 /\
  CV_SIG_Pdb20 = DOC_CV_SIG_Pdb20 /\
  CV_SIG_Pdb70 = DOC_CV_SIG_Pdb70 /\
  CV_SIG_Elf = DOC_CV_SIG_Elf /\
  PLATFORM_VER_PLATFORM_WIN32_WINDOWS = DOC_PLATFORM_VER_PLATFORM_WIN32_WINDOWS /\
  PLATFORM_VER_PLATFORM_WIN32_NT = DOC_PLATFORM_VER_PLATFORM_WIN32_NT /\
  PLATFORM_MacOs = DOC_PLATFORM_MacOs /\
  PLATFORM_Ios = DOC_PLATFORM_Ios /\
  PLATFORM_Linux = DOC_PLATFORM_Linux /\
  PLATFORM_Solaris = DOC_PLATFORM_Solaris /\
  PLATFORM_Android = DOC_PLATFORM_Android /\
  PLATFORM_Ps3 = DOC_PLATFORM_Ps3 /\
  PLATFORM_NaCl = DOC_PLATFORM_NaCl.
Proof. repeat split; reflexivity. Qed.

Lemma struct_roundtrip : forall e L v rest,
  wt L v = true -> dec e L (enc e L v ++ rest) = Some (v, rest) /\ zlen (enc e L v) = lsize L.
Proof. intros e L v rest H. split; [apply dec_enc; exact H|apply enc_zlen; exact H]. Qed.

Lemma item_codecs_ok : forall e,
  icodec_ok thread_codec e wf_thread /\ icodec_ok (module_codec) e (wf_module e) /\ icodec_ok region_codec e wf_region /\
  icodec_ok tname_codec e wf_tname /\ icodec_ok unloaded_codec e wf_unloaded /\ icodec_ok meminfo_codec e wf_meminfo.
Proof.
  intro e. split; [apply thread_ok|]. split; [apply module_ok|]. split; [apply region_ok|].
  split; [apply tname_ok|]. split; [apply unloaded_ok|apply meminfo_ok].
Qed.

Lemma stream_roundtrips : forall e,
  sec_ok (enc_mem64 e) (dec_mem64 e) (forallb wf_region64) /\
  sec_ok (enc_exception e) (dec_exception e) wf_exception /\
  sec_ok (enc_sysinfo e) (dec_sysinfo e) wf_sysinfo /\
  sec_ok (enc_misc e) (dec_misc e) wf_misc /\
  sec_ok (enc_exlist unloaded_codec e UNLOADED_HDR 4) (dec_exlist unloaded_codec e false) (forallb wf_unloaded) /\
  sec_ok (enc_exlist meminfo_codec e MEMINFO_HDR 8) (dec_exlist meminfo_codec e true) (forallb wf_meminfo) /\
  (forall L, sec_ok (enc_flat L e) (dec_flat L e) (wf_flat L)) /\
  (forall L, 1 <= lsize L < 4294967296 -> icodec_ok (flat_codec L) e (wf_flat L)) /\
  sec_ok (enc_raw e) (dec_raw e) (fun _ => true) /\
  sec_ok (enc_handles e) (dec_handles e) wf_handles.
Proof.
  intro e. split; [apply mem64_roundtrip|]. split; [apply exception_roundtrip|]. split; [apply sysinfo_roundtrip|].
  split; [apply misc_roundtrip|]. split; [|split; [|split; [|split; [|split]]]].
  - apply (exlist_roundtrip unloaded_codec e wf_unloaded (unloaded_ok e) false UNLOADED_HDR 4). right. repeat split.
  - apply (exlist_roundtrip meminfo_codec e wf_meminfo (meminfo_ok e) true MEMINFO_HDR 8). left. repeat split.
  - intro L. apply flat_roundtrip.
  - intros L H. apply flat_codec_ok. exact H.
  - apply raw_roundtrip.
  - apply handles_roundtrip.
Qed.
