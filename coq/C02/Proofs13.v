From Coq Require Import ZArith List Bool Lia.
From RM Require Import Base.Word C02.Model C02.ModelR5 C02.ModelR6 C02.Proofs1 C02.Proofs10 C02.Proofs11.
Import ListNotations.
Open Scope Z_scope.

(* C02/Proofs13.v — the LinuxMaps reader on ALL inputs: how its two build profiles relate, which outcomes it has; smaps listings *)
(* the two build profiles of the maps reader: they agree on every input, except that a debug build may stop with the
   multiplication trap of an smaps line (tag 3) where the release build goes on *)
Lemma ext_line_profiles : forall line,
  ext_line Debug line = ext_line Release line \/ (ext_line Debug line = Panic 3 /\ ext_line Release line = Ret tt).
Proof.
  intro line. unfold ext_line. destruct (is_prefix _ line); [left; reflexivity|].
  destruct (words line) as [|k [|v rest]]; try (left; reflexivity).
  destruct (parse_u64 10 v) as [n|]; [|left; reflexivity].
  destruct rest; [left; reflexivity|].
  unfold chk_mul, chk. destruct ((0 <=? n * 1024) && (n * 1024 <? 2 ^ 64)); [left; reflexivity|].
  right. split; reflexivity.
Qed.

Lemma maps_loop_profiles : forall ls cur acc,
  maps_loop Debug ls cur acc = maps_loop Release ls cur acc \/ maps_loop Debug ls cur acc = Panic 3.
Proof.
  induction ls as [|line t IH]; intros cur acc; [left; reflexivity|].
  cbn [maps_loop]. destruct (negb (valid_utf8 line)); [left; reflexivity|].
  destruct (match line with c :: _ => is_upper c | [] => false end).
  - destruct cur as [m|]; [|left; reflexivity].
    destruct (ext_line_profiles line) as [E|[E1 E2]].
    + rewrite E. destruct (ext_line Release line) as [[]| | |]; cbn [obind]; try (left; reflexivity). apply IH.
    + rewrite E1, E2. cbn [obind]. right. reflexivity.
  - destruct (from_line line) as [m| | |]; cbn [obind]; try (left; reflexivity). apply IH.
Qed.

Theorem maps_profiles : forall b, parse_maps Debug b = parse_maps Release b \/ parse_maps Debug b = Panic 3.
Proof. intro b. unfold parse_maps. apply maps_loop_profiles. Qed.

(* the reader never runs out of fuel (there is none: every function is structurally recursive), and a panic carries one of the
   three tags of its three sites *)
Lemma classify_tags : forall x t, classify x = Panic t -> t = 1 \/ t = 2.
Proof.
  intros x t. unfold classify. cbv zeta.
  repeat match goal with |- context [if ?c then _ else _] => destruct c end; try discriminate;
  repeat match goal with |- context [match ?c with _ => _ end] => destruct c end; try discriminate;
  intro H; inversion H; auto.
Qed.

Definition tame {A} (o : outcome A) : Prop :=
  match o with Ret _ | Fail => True | Panic t => t = 1 \/ t = 2 \/ t = 3 | OutOfFuel => False end.

Lemma classify_tame : forall x, tame (classify x).
Proof.
  intro x. destruct (classify x) as [a| |t|] eqn:E; cbn; auto.
  - apply classify_tags in E. tauto.
  - revert E. unfold classify. cbv zeta.
    repeat match goal with |- context [if ?c then _ else _] => destruct c end; try discriminate;
    repeat match goal with |- context [match ?c with _ => _ end] => destruct c end; discriminate.
Qed.
Lemma from_line_tame : forall line, tame (from_line line).
Proof.
  intro line. unfold from_line.
  repeat match goal with |- context [match ?c with _ => _ end] => destruct c end; cbn; auto.
  match goal with |- context [classify ?x] => pose proof (classify_tame x) as T; destruct (classify x); cbn in *; auto end.
Qed.
Lemma ext_line_tame : forall p line, tame (ext_line p line).
Proof.
  intros p line. unfold ext_line. destruct (is_prefix _ line); cbn; auto.
  destruct (words line) as [|k [|v rest]]; cbn; auto.
  destruct (parse_u64 10 v); cbn; auto. destruct rest; cbn; auto.
  unfold chk_mul, chk. destruct ((0 <=? z * 1024) && (z * 1024 <? 2 ^ 64)); cbn; auto. destruct p; cbn; auto.
Qed.
Theorem maps_tame : forall p b, tame (parse_maps p b).
Proof.
  intros p b. unfold parse_maps. generalize (buf_lines b) (@None mmap) (@nil mmap).
  induction l as [|line t IH]; intros cur acc; [cbn; auto|].
  cbn [maps_loop]. destruct (negb (valid_utf8 line)); [cbn; auto|].
  destruct (match line with c :: _ => is_upper c | [] => false end).
  - destruct cur; [|cbn; auto]. pose proof (ext_line_tame p line) as T.
    destruct (ext_line p line); cbn [obind]; try exact T. apply IH.
  - pose proof (from_line_tame line) as T. destruct (from_line line); cbn [obind]; try exact T. apply IH.
Qed.

(* ------------------------------------------------------------------ smaps: attribute lines between the mappings *)
(* an attribute line the reader accepts: UTF-8, one line, opens with A-Z, and ext_line returns (VmFlags..., `Key: n`, `Key: n kB`) *)
Definition attr_ok (p : profile) (a : list Z) : bool :=
  valid_utf8 a && no_eol a && match a with c :: _ => is_upper c | [] => false end
  && match ext_line p a with Ret _ => true | _ => false end.
Definition smaps_lines (x : (mfmt * mmap) * list (list Z)) : list (list Z) := entry_line (fst x) :: snd x.
Definition smaps_text (l : list ((mfmt * mmap) * list (list Z))) : list Z :=
  flat_map (fun ln => ln ++ [10]) (flat_map smaps_lines l).

Lemma attrs_skipped : forall p attrs rest m acc, forallb (attr_ok p) attrs = true ->
  maps_loop p (attrs ++ rest) (Some m) acc = maps_loop p rest (Some m) acc.
Proof.
  intros p attrs rest m acc. induction attrs as [|a attrs IH]; intro H; [reflexivity|].
  cbn [forallb] in H. apply andb_true_iff in H as [A H]. unfold attr_ok in A.
  apply andb_true_iff in A as [A A4]. apply andb_true_iff in A as [A A3]. apply andb_true_iff in A as [A1 A2].
  cbn [app maps_loop]. rewrite A1, A3. cbn [negb]. destruct (ext_line p a) as [[]| | |]; try discriminate. cbn [obind]. apply IH. exact H.
Qed.

Lemma smaps_loop_ok : forall p l cur acc,
  forallb (fun x => wf_entry (fst x) && forallb (attr_ok p) (snd x)) l = true ->
  maps_loop p (flat_map smaps_lines l) cur acc
  = Ret (rev acc ++ match cur with Some m => [m] | None => [] end ++ map (fun x => snd (fst x)) l).
Proof.
  intros p l. induction l as [|x l IH]; intros cur acc F.
  - cbn [flat_map maps_loop map]. destruct cur; cbn [rev app]; rewrite ?app_nil_r; reflexivity.
  - cbn [forallb] in F. apply andb_true_iff in F as [X F]. apply andb_true_iff in X as [W A].
    destruct (line_ok (fst x) W) as [FL [VU [NE UP]]].
    cbn [flat_map smaps_lines app maps_loop map]. rewrite VU, UP, FL. cbn [negb obind].
    rewrite attrs_skipped by exact A. rewrite IH by exact F.
    destruct cur; cbn [rev app]; rewrite <- ?app_assoc; reflexivity.
Qed.

Theorem smaps_roundtrip : forall p l,
  forallb (fun x => wf_entry (fst x) && forallb (attr_ok p) (snd x)) l = true ->
  parse_maps p (smaps_text l) = Ret (map (fun x => snd (fst x)) l).
Proof.
  intros p l F. unfold parse_maps, smaps_text. rewrite buf_lines_text.
  - rewrite smaps_loop_ok by exact F. reflexivity.
  - apply Forall_forall. intros ln I. apply in_flat_map in I. destruct I as [x [Ix I]].
    rewrite forallb_forall in F. specialize (F x Ix). apply andb_true_iff in F as [W A].
    cbn [smaps_lines In] in I. destruct I as [E|I].
    + subst ln. destruct (line_ok (fst x) W) as [_ [_ [NE _]]]. exact NE.
    + rewrite forallb_forall in A. specialize (A ln I). unfold attr_ok in A.
      apply andb_true_iff in A as [A _]. apply andb_true_iff in A as [A _]. apply andb_true_iff in A as [_ A]. exact A.
Qed.
