(* C02/ModelR5.v — round 5: the parts of the reader that are regenerated from minidump.rs by translate/c02_reader.py
   (coq/Gen/C02Reader.v): which stream types have a typed reader, Minidump::unimplemented_streams, stream_vendor, the
   padding arms of read_stream_list, the version table of MinidumpMacCrashInfo::read; the Mac crash info reader
   (MozMacosCrashInfoStream); linux_list_iter (the key/value syntax of the Linux text streams).  Definitions only. *)
From RM Require Export C02.Model Gen.C02Reader.
Open Scope Z_scope.

Fixpoint zassoc (k : Z) (l : list (Z * Z)) : option Z :=
  match l with
  | [] => None
  | (k', v) :: t => if k =? k' then Some v else zassoc k t
  end.

(* ------------------------------------------------------------------ stream types: reader / unimplemented / unknown *)
(* some `impl MinidumpStream for X` has STREAM_TYPE = ty *)
Definition has_reader (ty : Z) : bool := existsb (fun p => snd p =? ty) RD_IMPLEMENTED.
(* MINIDUMP_STREAM_TYPE::from_u32(ty).and_then(|t| UNIMPLEMENTED_STREAMS.contains(&t)) *)
Definition is_unimplemented (ty : Z) : bool := is_named ty && existsb (Z.eqb ty) RD_UNIMPLEMENTED.
(* Minidump::unimplemented_streams(): the served entries (ascending type) that pass the filter *)
Definition unimplemented_streams (d : list (Z * (Z * Z))) : dmap :=
  filter (fun p => is_unimplemented (fst p)) (served_dir d).
(* stream_vendor, from the regenerated limit / mask / arms *)
Definition stream_vendor_rd (ty : Z) : Z :=
  if ty <=? RD_VENDOR_LIMIT then 0
  else match zassoc (Z.land ty RD_VENDOR_MASK) RD_VENDOR_ARMS with Some v => v | None => RD_VENDOR_DEFAULT end.
(* read_stream_list: `match bytes.len() - counted_size`: bytes skipped after the count, None = StreamSizeMismatch *)
Definition list_pad_skip (extra : Z) : option Z := zassoc extra RD_LIST_PAD_ARMS.

(* ------------------------------------------------------------------ MozMacosCrashInfoStream *)
(* one record as read: the integers of the fixed part (stream_type, version, then the fields of the variant the
   version selects) and the C strings of the variant *)
Record mcrec := { cr_ints : list Z; cr_strings : list (list Z) }.

(* do_read!: the first table entry whose minimum version is <= the record's version *)
Fixpoint mac_variant (ver : Z) (tbl : list (Z * (Z * Z))) : option (Z * (Z * Z)) :=
  match tbl with
  | [] => None
  | (mv, x) :: t => if mv <=? ver then Some (mv, x) else mac_variant ver t
  end.

(* read_cstring_utf8: the bytes before the first NUL (which must exist) and what follows it *)
Fixpoint cstr_split (l : list Z) : option (list Z * list Z) :=
  match l with
  | [] => None
  | c :: t => if c =? 0 then Some ([], t)
              else match cstr_split t with Some (s, r) => Some (c :: s, r) | None => None end
  end.
Fixpoint read_cstrings (n : nat) (l : list Z) : option (list (list Z)) :=
  match n with
  | O => Some []
  | S n' => match cstr_split l with
            | Some (s, r) => if valid_utf8 s
                             then match read_cstrings n' r with Some ss => Some (s :: ss) | None => None end
                             else None
            | None => None
            end
  end.
(* n consecutive u64 (every fixed record of the family is a sequence of u64 fields) *)
Fixpoint dec_u64s (e : endian) (n : nat) (bs : list Z) : option (list Z) :=
  match n with
  | O => Some []
  | S n' => match take 8 bs with
            | Some (h, r) => match dec_u64s e n' r with Some l => Some (dec_uint e h :: l) | None => None end
            | None => None
            end
  end.

(* the body of the loop after the version check: None = StreamReadFailure, Some None = no variant (version 0: the
   record is passed over), Some (Some r) = pushed *)
Definition read_mac_record (e : endian) (start : Z) (rs : list Z) (ver : Z) : option (option mcrec) :=
  match mac_variant ver RD_MAC_VERSIONS with
  | None => Some None
  | Some (_, (fsize, nstr)) =>
      match dec_u64s e (Z.to_nat (fsize / 8)) rs with
      | None => None
      | Some ints =>
          if start <? fsize then None
          else match read_cstrings (Z.to_nat nstr) (if zlen rs <? start then [] else skipn (Z.to_nat start) rs) with
               | Some ss => Some (Some {| cr_ints := ints; cr_strings := ss |})
               | None => None
               end
      end
  end.

Fixpoint mac_walk (e : endian) (all : list Z) (start : Z) (locs : list (Z * Z)) (prev : option Z) : option (list mcrec) :=
  match locs with
  | [] => Some []
  | (size, rva) :: t =>
      match slice all rva size with
      | None => None
      | Some rs =>
          match dec_u64s e 2 rs with
          | Some [_; ver] =>
              if match prev with Some p => negb (p =? ver) | None => false end then None      (* VersionMismatch *)
              else match read_mac_record e start rs ver with
                   | None => None
                   | Some r => match mac_walk e all start t (Some ver) with
                               | Some rest => Some (match r with Some x => x :: rest | None => rest end)
                               | None => None
                               end
                   end
          | _ => None
          end
      end
  end.
Fixpoint pairs (l : list Z) : list (Z * Z) :=
  match l with a :: b :: t => (a, b) :: pairs t | _ => [] end.
(* MinidumpMacCrashInfo::read: header, then the first min(record_count, 20) record locations *)
Definition dec_maccrash (e : endian) (all bs : list Z) : option (list mcrec) :=
  match dec e L_MINIDUMP_MAC_CRASH_INFO bs with
  | Some (v, _) => match vflat v with
                   | _ :: count :: start :: locs => mac_walk e all start (firstn (Z.to_nat (Z.min count RD_MAC_RECORDS_MAX)) (pairs locs)) None
                   | _ => None
                   end
  | None => None
  end.

(* the writer side of one record: the fixed integers, fields this reader does not know (gap), the strings, each
   followed by its NUL, and whatever a newer writer appends (trail) *)
Definition enc_u64s (e : endian) (l : list Z) : list Z := flat_map (enc_uint e 8) l.
Definition rec_bytes (e : endian) (r : mcrec) (gap trail : list Z) : list Z :=
  enc_u64s e (cr_ints r) ++ gap ++ flat_map (fun s => s ++ [0]) (cr_strings r) ++ trail.
Definition cstr_ok (s : list Z) : bool := valid_utf8 s && forallb (fun c => negb (c =? 0)) s.
Fixpoint all_u64 (l : list Z) : bool :=
  match l with [] => true | z :: t => (0 <=? z) && (z <? wbits 8) && all_u64 t end.
Definition wf_mcrec (start : Z) (r : mcrec) (gap : list Z) : bool :=
  match cr_ints r with
  | _ :: ver :: _ =>
      match mac_variant ver RD_MAC_VERSIONS with
      | Some (_, (fsize, nstr)) =>
          (zlen (cr_ints r) =? fsize / 8) && all_u64 (cr_ints r) && (fsize + zlen gap =? start)
          && (zlen (cr_strings r) =? nstr) && forallb cstr_ok (cr_strings r)
      | None => false
      end
  | _ => false
  end.
Definition rec_version (r : mcrec) : Z := nth 1 (cr_ints r) 0.

(* ------------------------------------------------------------------ linux_list_iter *)
(* lines split on LF, each split at the first separator, both sides trimmed of ASCII whitespace and of one pair of
   surrounding double quotes; lines without a separator are passed over *)
Fixpoint split_on_aux (sep : Z) (l cur : list Z) : list (list Z) :=
  match l with
  | [] => [rev cur]
  | c :: t => if c =? sep then rev cur :: split_on_aux sep t [] else split_on_aux sep t (c :: cur)
  end.
Definition split_on (sep : Z) (l : list Z) : list (list Z) := split_on_aux sep l [].
Definition is_ws (c : Z) : bool := (c =? 32) || (c =? 9) || (c =? 10) || (c =? 12) || (c =? 13).
Fixpoint trim_left (l : list Z) : list Z :=
  match l with c :: t => if is_ws c then trim_left t else l | [] => [] end.
Definition trim (l : list Z) : list Z := rev (trim_left (rev (trim_left l))).
Definition strip_quotes (l : list Z) : list Z :=
  let t := trim l in
  match t with
  | 34 :: r => match rev r with 34 :: r' => rev r' | _ => t end
  | _ => t
  end.
Fixpoint split_once (sep : Z) (l pre : list Z) : option (list Z * list Z) :=
  match l with
  | [] => None
  | c :: t => if c =? sep then Some (rev pre, t) else split_once sep t (c :: pre)
  end.
Definition kv_pairs (sep : Z) (b : list Z) : list (list Z * list Z) :=
  flat_map (fun line => match split_once sep line [] with
                        | Some (k, v) => [(strip_quotes k, strip_quotes v)]
                        | None => []
                        end) (split_on 10 b).
(* the writer side: `key<sep>value` lines, each ended by LF *)
Definition kv_text (sep : Z) (l : list (list Z * list Z)) : list Z :=
  flat_map (fun kv => fst kv ++ [sep] ++ snd kv ++ [10]) l.
(* a side survives trimming and quote stripping unchanged: no LF, no leading / trailing white space, not quoted *)
Definition plain (s : list Z) : bool :=
  forallb (fun c => negb (c =? 10)) s
  && match s with [] => true | c :: _ => negb (is_ws c) && negb (c =? 34) end
  && match rev s with [] => true | c :: _ => negb (is_ws c) end.
Definition wf_kv_line (sep : Z) (kv : list Z * list Z) : bool :=
  plain (fst kv) && plain (snd kv) && forallb (fun c => negb (c =? sep)) (fst kv).
