(* C02/Proofs12.v — the handle data stream with its object-information chains, as a whole: every descriptor's chain, wherever
   the records lie *)
From Coq Require Import ZArith List Bool Lia.
From RM Require Import Base.Word C02.Layout C02.Model C02.Proofs1 C02.Proofs5 C02.Proofs9.
From RM Require Import Gen.Layouts.
Import ListNotations.
Open Scope Z_scope.

(* a handle data stream of 40-byte descriptors as a writer lays it out: the 16-byte header, then the descriptors *)
Definition handle_stream2 (e : endian) (reserved : Z) (ds : list value) : list Z :=
  enc_uint e 4 16 ++ enc_uint e 4 40 ++ enc_uint e 4 (zlen ds) ++ enc_uint e 4 reserved
  ++ flat_map (enc e L_MINIDUMP_HANDLE_DESCRIPTOR_2) ds.
Definition info_rva (v : value) : Z := nth 7 (vflat v) 0.

Lemma flat_len : forall e ds, Forall (fun v => wt L_MINIDUMP_HANDLE_DESCRIPTOR_2 v = true) ds ->
  zlen (flat_map (enc e L_MINIDUMP_HANDLE_DESCRIPTOR_2) ds) = 40 * zlen ds.
Proof.
  intros e ds F. induction F as [|v ds W F IH]; [reflexivity|]. cbn [flat_map]. rewrite zlen_app, IH, zlen_cons.
  rewrite (enc_zlen e _ _ W). change (lsize L_MINIDUMP_HANDLE_DESCRIPTOR_2) with 40. lia.
Qed.

Lemma info_rvas_ok : forall e ds rest, Forall (fun v => wt L_MINIDUMP_HANDLE_DESCRIPTOR_2 v = true) ds ->
  handle_info_rvas e true (length ds) (flat_map (enc e L_MINIDUMP_HANDLE_DESCRIPTOR_2) ds ++ rest) = map info_rva ds.
Proof.
  intros e ds rest F. induction F as [|v ds W F IH]; [reflexivity|].
  cbn [length handle_info_rvas flat_map map]. rewrite <- app_assoc, dec_enc by exact W. rewrite IH. reflexivity.
Qed.

Theorem handle_stream_chains : forall e all reserved ds chains,
  Forall (fun v => wt L_MINIDUMP_HANDLE_DESCRIPTOR_2 v = true) ds -> zlen ds < 4294967296 -> 0 <= reserved < 4294967296 ->
  Forall2 (fun v c => chain_at e all (info_rva v) c /\ Z.of_nat (length c) <= zlen all / 12) ds chains ->
  dec_handle_chains e all (handle_stream2 e reserved ds) = Some chains.
Proof.
  intros e all reserved ds chains W N R C. unfold dec_handle_chains, dec_handle_hdr, handle_stream2.
  pose proof (zlen_nonneg _ ds) as NN.
  rewrite take_app by apply length_enc_uint. cbn [obnd snd fst].
  rewrite take_app by apply length_enc_uint. cbn [obnd snd fst].
  rewrite take_app by apply length_enc_uint. cbn [obnd snd fst].
  rewrite !dec_enc_uint by (unfold wbits; cbn; lia).
  change (handle_esize false) with 32. change (handle_esize true) with 40. cbn [Z.eqb Pos.eqb orb negb].
  rewrite !zlen_app, !zlen_enc_uint, flat_len by exact W.
  replace (Z.of_nat 4 + (Z.of_nat 4 + (Z.of_nat 4 + (Z.of_nat 4 + 40 * zlen ds))) <? zlen ds * 40 + 16) with false
    by (symmetry; apply Z.ltb_ge; lia).
  cbn [obnd fst snd]. f_equal.
  change (Z.to_nat 16) with 16%nat.
  assert (SK : skipn 16 (enc_uint e 4 16 ++ enc_uint e 4 40 ++ enc_uint e 4 (zlen ds) ++ enc_uint e 4 reserved
                         ++ flat_map (enc e L_MINIDUMP_HANDLE_DESCRIPTOR_2) ds) = flat_map (enc e L_MINIDUMP_HANDLE_DESCRIPTOR_2) ds).
  { rewrite !app_assoc. set (h := ((enc_uint e 4 16 ++ enc_uint e 4 40) ++ enc_uint e 4 (zlen ds)) ++ enc_uint e 4 reserved).
    assert (HL : length h = 16%nat) by (unfold h; rewrite !app_length, !length_enc_uint; reflexivity).
    rewrite skipn_app, <- HL, skipn_all, Nat.sub_diag. reflexivity. }
  rewrite SK. unfold zlen at 1. rewrite Nat2Z.id.
  rewrite <- (app_nil_r (flat_map _ ds)), info_rvas_ok by exact W.
  clear - C. induction C as [|v c ds chains [H1 H2] C IH]; [reflexivity|]. cbn [map]. rewrite IH. f_equal.
  apply handle_chain_any_placement; assumption.
Qed.

(* ... served through any directory whose last HandleDataStream entry points at the stream (whatever follows it in the slice) *)
Theorem handle_stream_served : forall e all reserved ds chains l1 size rva l3,
  Forall (fun v => wt L_MINIDUMP_HANDLE_DESCRIPTOR_2 v = true) ds -> zlen ds < 4294967296 -> 0 <= reserved < 4294967296 ->
  Forall2 (fun v c => chain_at e all (info_rva v) c /\ Z.of_nat (length c) <= zlen all / 12) ds chains ->
  slice all rva size = Some (handle_stream2 e reserved ds) ->
  ~ In ST_HandleDataStream (map fst l3) ->
  get_stream dec_handle_chains e all (l1 ++ (ST_HandleDataStream, (size, rva)) :: l3) ST_HandleDataStream = SOk chains.
Proof.
  intros e all reserved ds chains l1 size rva l3 W N R C Hs Hnot.
  unfold get_stream. rewrite last_entry_wins by exact Hnot. rewrite Hs.
  rewrite (handle_stream_chains e all reserved ds chains W N R C). reflexivity.
Qed.
