(* C02/Proofs7.v — the directory as a whole: the map Minidump::read builds, get_raw_stream for every u32 type,
   all_streams / unknown_streams; the directory of a serialized model reads back as written *)
From Coq Require Import Lia.
From RM Require Import C02.Model C02.Documented C02.Proofs1 C02.Proofs2 C02.Proofs3 C02.Proofs4.
Open Scope Z_scope.

Lemma stream_types_documented : ST_ALL_NAMED = D_ST_ALL_NAMED /\ ST_LastReservedStream = DOC_ST_LastReservedStream.
Proof. split; reflexivity. Qed.

(* ---- BTreeMap::insert / get *)
Lemma dmap_get_insert : forall l k v k',
  dmap_get (dmap_insert k v l) k' = if k =? k' then Some v else dmap_get l k'.
Proof.
  induction l as [|[k0 v0] t IH]; intros k v k'.
  - cbn [dmap_insert dmap_get]. destruct (k =? k'); reflexivity.
  - cbn [dmap_insert]. destruct (k <? k0) eqn:E1.
    + cbn [dmap_get]. destruct (k =? k'); reflexivity.
    + destruct (k =? k0) eqn:E2.
      * apply Z.eqb_eq in E2. subst k0. cbn [dmap_get]. destruct (k =? k'); reflexivity.
      * cbn [dmap_get]. rewrite IH. destruct (k0 =? k') eqn:E3; [|reflexivity].
        apply Z.eqb_eq in E3. subst k'. rewrite E2. reflexivity.
Qed.

Lemma dmap_keys_insert : forall l k v x,
  In x (map fst (dmap_insert k v l)) <-> x = k \/ In x (map fst l).
Proof.
  induction l as [|[k0 v0] t IH]; intros k v x.
  - cbn. intuition.
  - cbn [dmap_insert]. destruct (k <? k0) eqn:E1; [cbn; intuition|].
    destruct (k =? k0) eqn:E2.
    + apply Z.eqb_eq in E2. subst k0. cbn. intuition.
    + cbn [map fst In]. rewrite IH. intuition.
Qed.

(* ascending, hence duplicate-free, keys *)
Inductive asc : dmap -> Prop :=
| asc_nil : asc []
| asc_cons : forall k v l, asc l -> (forall k', In k' (map fst l) -> k < k') -> asc ((k, v) :: l).

Lemma asc_insert : forall l k v, asc l -> asc (dmap_insert k v l).
Proof.
  induction l as [|[k0 v0] t IH]; intros k v H.
  - cbn. constructor; [constructor|intros k' []].
  - inversion H as [|a b c Ht Hlt]; subst. cbn [dmap_insert].
    destruct (k <? k0) eqn:E1.
    + apply Z.ltb_lt in E1. constructor; [exact H|]. intros k' Hin. cbn [map fst In] in Hin.
      destruct Hin as [<-|Hin]; [exact E1|]. specialize (Hlt k' Hin). lia.
    + apply Z.ltb_ge in E1. destruct (k =? k0) eqn:E2.
      * apply Z.eqb_eq in E2. subst k0. constructor; assumption.
      * apply Z.eqb_neq in E2. constructor; [apply IH; exact Ht|].
        intros k' Hin. apply dmap_keys_insert in Hin. destruct Hin as [->|Hin]; [lia|apply Hlt; exact Hin].
Qed.

Lemma asc_get_in : forall l k v, asc l -> (In (k, v) l <-> dmap_get l k = Some v).
Proof.
  induction l as [|[k0 v0] t IH]; intros k v H.
  - cbn. split; [intros []|discriminate].
  - inversion H as [|a b c Ht Hlt]; subst. cbn [dmap_get In]. destruct (k0 =? k) eqn:E.
    + apply Z.eqb_eq in E. subst k0. split.
      * intros [Heq|Hin]; [inversion Heq; reflexivity|].
        assert (Hk : In k (map fst t)) by (apply in_map_iff; exists (k, v); split; [reflexivity|exact Hin]).
        specialize (Hlt k Hk). lia.
      * intro Heq. inversion Heq. left. reflexivity.
    + apply Z.eqb_neq in E. rewrite <- (IH k v Ht). split.
      * intros [Heq|Hin]; [inversion Heq; congruence|exact Hin].
      * intro Hin. right. exact Hin.
Qed.

(* ---- the map built from a directory *)
Lemma build_get : forall d i acc ty,
  dmap_get (dmap_build i d acc) ty = match last_entry i d ty with Some x => Some x | None => dmap_get acc ty end.
Proof.
  induction d as [|[t loc] r IH]; intros i acc ty; [reflexivity|].
  cbn [dmap_build last_entry]. rewrite IH. destruct (last_entry (i + 1) r ty); [reflexivity|].
  rewrite dmap_get_insert. destruct (t =? ty); reflexivity.
Qed.

Lemma build_asc : forall d i acc, asc acc -> asc (dmap_build i d acc).
Proof.
  induction d as [|[t loc] r IH]; intros i acc H; [exact H|]. cbn [dmap_build]. apply IH. apply asc_insert. exact H.
Qed.

Lemma build_keys : forall d i acc x,
  In x (map fst (dmap_build i d acc)) <-> In x (map fst d) \/ In x (map fst acc).
Proof.
  induction d as [|[t loc] r IH]; intros i acc x.
  - cbn. intuition.
  - cbn [dmap_build map fst In]. rewrite IH, dmap_keys_insert. intuition.
Qed.

Lemma last_entry_none : forall d i ty, ~ In ty (map fst d) -> last_entry i d ty = None.
Proof.
  induction d as [|[t loc] r IH]; intros i ty H; [reflexivity|].
  cbn [map fst In] in H. cbn [last_entry]. rewrite IH by tauto.
  replace (t =? ty) with false by (symmetry; apply Z.eqb_neq; tauto). reflexivity.
Qed.

Lemma last_entry_split : forall l1 i ty loc l3, ~ In ty (map fst l3) ->
  last_entry i (l1 ++ (ty, loc) :: l3) ty = Some (i + zlen l1, loc).
Proof.
  induction l1 as [|[t l] r IH]; intros i ty loc l3 H.
  - cbn [app last_entry]. rewrite last_entry_none by exact H. rewrite Z.eqb_refl. unfold zlen. cbn. f_equal. f_equal. lia.
  - cbn [app last_entry]. rewrite IH by exact H. rewrite zlen_cons. f_equal. f_equal. lia.
Qed.

(* the typed readers (get_stream, via dir_lookup) and get_raw_stream are served from the same entry *)
Lemma last_entry_lookup : forall d i ty, option_map snd (last_entry i d ty) = dir_lookup d ty.
Proof.
  induction d as [|[t loc] r IH]; intros i ty; [reflexivity|].
  cbn [last_entry dir_lookup]. rewrite <- (IH (i + 1) ty). destruct (last_entry (i + 1) r ty); cbn [option_map]; [reflexivity|].
  destruct (t =? ty); reflexivity.
Qed.

Theorem served_lookup : forall d ty, option_map snd (dmap_get (served_dir d) ty) = dir_lookup d ty.
Proof.
  intros d ty. unfold served_dir. rewrite build_get. cbn [dmap_get]. rewrite <- (last_entry_lookup d 0 ty).
  destruct (last_entry 0 d ty); reflexivity.
Qed.

(* THE LAST ENTRY OF A TYPE IS SERVED — for every type number, named or not *)
Theorem last_entry_served : forall all l1 ty loc l3, ~ In ty (map fst l3) ->
  dmap_get (served_dir (l1 ++ (ty, loc) :: l3)) ty = Some (zlen l1, loc) /\
  In (ty, (zlen l1, loc)) (served_dir (l1 ++ (ty, loc) :: l3)) /\
  raw_stream all (l1 ++ (ty, loc) :: l3) ty =
    match slice all (snd loc) (fst loc) with Some b => SOk b | None => SErr end.
Proof.
  intros all l1 ty loc l3 H.
  assert (E : dmap_get (served_dir (l1 ++ (ty, loc) :: l3)) ty = Some (zlen l1, loc)).
  { unfold served_dir. rewrite build_get, last_entry_split by exact H. reflexivity. }
  split; [exact E|]. split.
  - apply asc_get_in; [apply build_asc; constructor|exact E].
  - unfold raw_stream. rewrite E. destruct loc as [size rva]. reflexivity.
Qed.

(* the served directory is a map over exactly the types that occur; a type that does not occur is not found *)
Theorem served_dir_map : forall all d,
  asc (served_dir d) /\
  (forall ty, In ty (map fst (served_dir d)) <-> In ty (map fst d)) /\
  (forall ty v, In (ty, v) (served_dir d) <-> last_entry 0 d ty = Some v) /\
  (forall ty, ~ In ty (map fst d) -> raw_stream all d ty = SMissing).
Proof.
  intros all d. assert (Ha : asc (served_dir d)) by (apply build_asc; constructor).
  split; [exact Ha|]. split; [|split].
  - intro ty. unfold served_dir. rewrite build_keys. cbn. intuition.
  - intros ty v. rewrite (asc_get_in _ ty v Ha). unfold served_dir. rewrite build_get. cbn [dmap_get].
    destruct (last_entry 0 d ty); reflexivity.
  - intros ty H. unfold raw_stream, served_dir. rewrite build_get, last_entry_none by exact H. reflexivity.
Qed.

Theorem unknown_streams_spec : forall d ty v,
  In (ty, v) (unknown_streams d) <-> last_entry 0 d ty = Some v /\ is_named ty = false.
Proof.
  intros d ty v. unfold unknown_streams. rewrite filter_In. cbn [fst].
  destruct (served_dir_map [] d) as [_ [_ [H _]]]. rewrite H. rewrite Bool.negb_true_iff. reflexivity.
Qed.

(* ---- the directory of a serialized model reads back as written, duplicates and all *)
Definition dir_of (e : endian) (m : model) : list (Z * (Z * Z)) :=
  m_extra_dir m ++
  map dirent (place (table e m) (HEADER_SIZE + (zlen (m_extra_dir m) + count_present (table e m)) * DIR_ENTRY_SIZE)).

Theorem directory_roundtrip : forall e m, wf_model e m = true ->
  read_directory (encode_dump e m) = Some (e, dir_of e m).
Proof.
  intros e m Hwf. rewrite (encode_eq e m). unfold read_directory.
  rewrite (detect_ok e m Hwf). cbn [obnd]. rewrite (header_ok e m Hwf). cbn [obnd].
  assert (Hv : (m_version m mod 65536 =? MINIDUMP_VERSION) = true).
  { pose proof Hwf as Hw. unfold wf_model in Hw. bdestr. assumption. }
  rewrite Hv. cbn [negb].
  pose proof (total_bound e m Hwf) as Hb. pose proof (zlen_Hd e m) as Hh.
  match goal with |- context [HEADER_SIZE <=? ?z] => replace (HEADER_SIZE <=? z) with true end.
  2:{ symmetry. apply Z.leb_le. rewrite zlen_app. rewrite Hh.
      match goal with |- _ <= 32 + zlen ?x => pose proof (zlen_nonneg _ x) end.
      assert (HEADER_SIZE = 32) by reflexivity. lia. }
  rewrite (dir_ok e m Hwf). reflexivity.
Qed.
