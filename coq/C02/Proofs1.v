(* C02/Proofs1.v — integers, the generic struct codec, slices, strings, CodeView records *)
From Coq Require Import Lia.
From RM Require Import C02.Model.
Open Scope Z_scope.

(* ------------------------------------------------------------------ lengths *)
Lemma zlen_app : forall A (a b : list A), zlen (a ++ b) = zlen a + zlen b.
Proof. intros A a b. unfold zlen. rewrite app_length. lia. Qed.
Lemma zlen_nonneg : forall A (a : list A), 0 <= zlen a.
Proof. intros A a. unfold zlen. lia. Qed.
Lemma zlen_nil : forall A, zlen (@nil A) = 0.
Proof. reflexivity. Qed.
Lemma zlen_cons : forall A (x : A) l, zlen (x :: l) = 1 + zlen l.
Proof. intros A x l. unfold zlen. cbn [length]. lia. Qed.
Lemma zlen_to_nat : forall A (a : list A), Z.to_nat (zlen a) = length a.
Proof. intros A a. unfold zlen. lia. Qed.

Lemma wbits_pos : forall w, 0 < wbits w.
Proof. intro w. unfold wbits. apply Z.pow_pos_nonneg; lia. Qed.
Lemma wbits_S : forall w, wbits (S w) = 256 * wbits w.
Proof. intro w. unfold wbits. rewrite Nat2Z.inj_succ, Z.pow_succ_r by lia. reflexivity. Qed.

(* ------------------------------------------------------------------ little/big-endian integers *)
Lemma length_ule_enc : forall w z, length (ule_enc w z) = w.
Proof. induction w as [|w IH]; intro z; cbn [ule_enc length]; [reflexivity|]. rewrite IH. reflexivity. Qed.

Lemma ule_dec_enc : forall w z, 0 <= z < wbits w -> ule_dec (ule_enc w z) = z.
Proof.
  induction w as [|w IH]; intros z Hz.
  - unfold wbits in Hz. cbn in Hz. cbn. lia.
  - cbn [ule_enc ule_dec]. rewrite wbits_S in Hz.
    rewrite IH.
    + pose proof (Z.div_mod z 256). lia.
    + split; [apply Z.div_pos; lia|]. apply Z.div_lt_upper_bound; lia.
Qed.

Lemma length_enc_uint : forall e w z, length (enc_uint e w z) = w.
Proof. intros [|] w z; unfold enc_uint; [|rewrite rev_length]; apply length_ule_enc. Qed.
Lemma zlen_enc_uint : forall e w z, zlen (enc_uint e w z) = Z.of_nat w.
Proof. intros. unfold zlen. rewrite length_enc_uint. reflexivity. Qed.

Lemma dec_enc_uint : forall e w z, 0 <= z < wbits w -> dec_uint e (enc_uint e w z) = z.
Proof.
  intros [|] w z Hz; unfold dec_uint, enc_uint; [|rewrite rev_involutive]; apply ule_dec_enc; exact Hz.
Qed.

Lemma take_app : forall n a r, length a = n -> take n (a ++ r) = Some (a, r).
Proof.
  intros n a r Hn. unfold take. rewrite app_length.
  replace (n <=? length a + length r)%nat with true by (symmetry; apply Nat.leb_le; lia).
  subst n. rewrite firstn_app, Nat.sub_diag, firstn_all, skipn_app, Nat.sub_diag, skipn_all.
  cbn. rewrite app_nil_r. reflexivity.
Qed.

Lemma take_some : forall n l h r, take n l = Some (h, r) -> l = h ++ r /\ length h = n.
Proof.
  intros n l h r H. unfold take in H.
  destruct (n <=? length l)%nat eqn:E; [|discriminate]. apply Nat.leb_le in E.
  inversion H; subst. split; [symmetry; apply firstn_skipn|]. apply firstn_length_le. exact E.
Qed.

(* ------------------------------------------------------------------ the struct codec *)
Lemma dec_enc : forall e L v rest, wt L v = true -> dec e L (enc e L v ++ rest) = Some (v, rest).
Proof.
  intros e. induction L as [w|w|n t IHt| |t IHt r IHr]; intros v rest Hwt.
  - destruct v as [z| |a b]; cbn [wt] in Hwt; try discriminate.
    apply andb_prop in Hwt. destruct Hwt as [H1 H2]. apply Z.leb_le in H1. apply Z.ltb_lt in H2.
    cbn [enc dec]. rewrite take_app by apply length_enc_uint.
    rewrite dec_enc_uint by lia. reflexivity.
  - destruct v as [z| |a b]; cbn [wt] in Hwt; try discriminate.
    apply andb_prop in Hwt. destruct Hwt as [H1 H2]. apply Z.leb_le in H1. apply Z.ltb_lt in H2.
    cbn [enc dec]. rewrite take_app by apply length_enc_uint.
    pose proof (wbits_pos w) as Hp.
    rewrite dec_enc_uint by (apply Z.mod_pos_bound; lia).
    destruct (Z_lt_le_dec z 0) as [Hneg|Hpos].
    + assert (Hm : z mod wbits w = z + wbits w).
      { replace z with ((z + wbits w) + (-1) * wbits w) at 1 by lia.
        rewrite Z.mod_add by lia. apply Z.mod_small. lia. }
      rewrite Hm. replace (2 * (z + wbits w) <? wbits w) with false by (symmetry; apply Z.ltb_ge; lia).
      replace (z + wbits w - wbits w) with z by lia. reflexivity.
    + rewrite Z.mod_small by lia.
      replace (2 * z <? wbits w) with true by (symmetry; apply Z.ltb_lt; lia). reflexivity.
  - cbn [enc dec wt] in *. revert v rest Hwt.
    induction n as [|n IHn]; intros v rest Hwt.
    + destruct v; try discriminate. reflexivity.
    + destruct v as [z| |a b]; try discriminate.
      apply andb_prop in Hwt. destruct Hwt as [H1 H2].
      rewrite <- app_assoc. rewrite IHt by exact H1. rewrite IHn by exact H2. reflexivity.
  - destruct v; cbn [wt] in Hwt; try discriminate. reflexivity.
  - destruct v as [z| |a b]; cbn [wt] in Hwt; try discriminate.
    apply andb_prop in Hwt. destruct Hwt as [H1 H2].
    cbn [enc dec]. rewrite <- app_assoc. rewrite IHt by exact H1. rewrite IHr by exact H2. reflexivity.
Qed.

Lemma dec_enc_nil : forall e L v, wt L v = true -> dec e L (enc e L v) = Some (v, []).
Proof. intros e L v H. rewrite <- (app_nil_r (enc e L v)). apply dec_enc. exact H. Qed.

Lemma enc_zlen : forall e L v, wt L v = true -> zlen (enc e L v) = lsize L.
Proof.
  intros e. induction L as [w|w|n t IHt| |t IHt r IHr]; intros v Hwt.
  - destruct v; cbn [wt] in Hwt; try discriminate. cbn [enc lsize]. apply zlen_enc_uint.
  - destruct v; cbn [wt] in Hwt; try discriminate. cbn [enc lsize]. apply zlen_enc_uint.
  - cbn [enc lsize wt] in *. revert v Hwt.
    induction n as [|n IHn]; intros v Hwt.
    + destruct v; try discriminate. cbn. reflexivity.
    + destruct v as [z| |a b]; try discriminate.
      apply andb_prop in Hwt. destruct Hwt as [H1 H2].
      rewrite zlen_app, IHt by exact H1. rewrite IHn by exact H2. lia.
  - destruct v; cbn [wt] in Hwt; try discriminate. reflexivity.
  - destruct v as [z| |a b]; cbn [wt] in Hwt; try discriminate.
    apply andb_prop in Hwt. destruct Hwt as [H1 H2].
    cbn [enc lsize]. rewrite zlen_app, IHt, IHr by assumption. reflexivity.
Qed.


(* shape: the value tree has the form of the layout (integer ranges not checked); this alone fixes
   the encoded length *)
Fixpoint shape (L : layout) (v : value) {struct L} : bool :=
  match L with
  | LU _ | LI _ => match v with VInt _ => true | _ => false end
  | LNil => match v with VNil => true | _ => false end
  | LSeq t r => match v with VSeq a b => shape t a && shape r b | _ => false end
  | LArr n t =>
      (fix arr (n : nat) (v : value) {struct n} : bool :=
         match n, v with
         | O, VNil => true
         | S n', VSeq a b => shape t a && arr n' b
         | _, _ => false
         end) n v
  end.

Lemma wt_shape : forall L v, wt L v = true -> shape L v = true.
Proof.
  induction L as [w|w|n t IHt| |t IHt r IHr]; intros v H.
  - destruct v; cbn in *; congruence.
  - destruct v; cbn in *; congruence.
  - cbn [wt shape] in *. revert v H. induction n as [|n IHn]; intros v H.
    + destruct v; congruence.
    + destruct v as [z| |a b]; try discriminate. apply andb_prop in H. destruct H as [H1 H2].
      rewrite (IHt a H1), (IHn b H2). reflexivity.
  - destruct v; cbn in *; congruence.
  - destruct v as [z| |a b]; cbn [wt shape] in *; try discriminate.
    apply andb_prop in H. destruct H as [H1 H2]. rewrite (IHt a H1), (IHr b H2). reflexivity.
Qed.

Lemma enc_zlen_shape : forall e L v, shape L v = true -> zlen (enc e L v) = lsize L.
Proof.
  intros e. induction L as [w|w|n t IHt| |t IHt r IHr]; intros v Hwt.
  - destruct v; cbn [shape] in Hwt; try discriminate. cbn [enc lsize]. apply zlen_enc_uint.
  - destruct v; cbn [shape] in Hwt; try discriminate. cbn [enc lsize]. apply zlen_enc_uint.
  - cbn [enc lsize shape] in *. revert v Hwt.
    induction n as [|n IHn]; intros v Hwt.
    + destruct v; try discriminate. cbn. reflexivity.
    + destruct v as [z| |a b]; try discriminate.
      apply andb_prop in Hwt. destruct Hwt as [H1 H2].
      rewrite zlen_app, IHt by exact H1. rewrite IHn by exact H2. lia.
  - destruct v; cbn [shape] in Hwt; try discriminate. reflexivity.
  - destruct v as [z| |a b]; cbn [shape] in Hwt; try discriminate.
    apply andb_prop in Hwt. destruct Hwt as [H1 H2].
    cbn [enc lsize]. rewrite zlen_app, IHt, IHr by assumption. reflexivity.
Qed.
Lemma shape_seq : forall t r a b, shape (LSeq t r) (VSeq a b) = shape t a && shape r b.
Proof. reflexivity. Qed.

(* the encoded length does not depend on the byte order (even for ill-typed values) *)
Lemma enc_zlen_endian : forall e1 e2 L v, zlen (enc e1 L v) = zlen (enc e2 L v).
Proof.
  intros e1 e2. induction L as [w|w|n t IHt| |t IHt r IHr]; intros v.
  - destruct v; cbn [enc]; try reflexivity. rewrite !zlen_enc_uint. reflexivity.
  - destruct v; cbn [enc]; try reflexivity. rewrite !zlen_enc_uint. reflexivity.
  - cbn [enc]. revert v. induction n as [|n IHn]; intro v; [reflexivity|].
    destruct v as [z| |a b]; try reflexivity. rewrite !zlen_app, (IHt a), (IHn b). reflexivity.
  - reflexivity.
  - destruct v as [z| |a b]; cbn [enc]; try reflexivity. rewrite !zlen_app, (IHt a), (IHr b). reflexivity.
Qed.

(* value helpers *)
Lemma unvarr_varr : forall l, unvarr (varr l) = Some l.
Proof. unfold varr. induction l as [|z l IH]; cbn; [reflexivity|]. fold (varr l) in *. rewrite IH. reflexivity. Qed.

(* varr l is a well-typed array of unsigned w-byte integers *)
Fixpoint all_in (w : nat) (l : list Z) : bool :=
  match l with [] => true | z :: t => (0 <=? z) && (z <? wbits w) && all_in w t end.
Lemma wt_varr : forall w l, all_in w l = true -> wt (LArr (length l) (LU w)) (varr l) = true.
Proof.
  intros w. induction l as [|z l IH]; intro H; [reflexivity|].
  cbn [all_in] in H. apply andb_prop in H. destruct H as [H1 H2].
  cbn [length varr map vtuple]. cbn [wt]. cbn [wt] in IH. unfold varr in IH.
  rewrite H1. cbn [andb]. apply IH. exact H2.
Qed.

Lemma wt_varr' : forall n w l, length l = n -> all_in w l = true -> wt (LArr n (LU w)) (varr l) = true.
Proof. intros n w l H. subst n. apply wt_varr. Qed.
Lemma wt_seq : forall t r a b, wt (LSeq t r) (VSeq a b) = wt t a && wt r b.
Proof. reflexivity. Qed.
Lemma wt_lu : forall w z, wt (LU w) (VInt z) = (0 <=? z) && (z <? wbits w).
Proof. reflexivity. Qed.
Lemma wt_li : forall w z, wt (LI w) (VInt z) = (- wbits w <=? 2 * z) && (2 * z <? wbits w).
Proof. reflexivity. Qed.
Lemma wt_nil : wt LNil VNil = true.
Proof. reflexivity. Qed.
Ltac bsplit := repeat (apply andb_true_intro; split).
Ltac bdestr := repeat match goal with H : _ && _ = true |- _ => apply andb_prop in H; destruct H end.
Ltac wt_open := cbn [vtuple]; rewrite ?wt_seq, ?wt_lu, ?wt_nil.

(* ------------------------------------------------------------------ slices *)
Lemma slice_mid : forall pre x post, slice (pre ++ x ++ post) (zlen pre) (zlen x) = Some x.
Proof.
  intros pre x post. unfold slice.
  pose proof (zlen_nonneg _ pre). pose proof (zlen_nonneg _ x). pose proof (zlen_nonneg _ post).
  rewrite !zlen_app.
  replace ((0 <=? zlen pre) && (0 <=? zlen x) && (zlen pre + zlen x <=? zlen pre + (zlen x + zlen post))) with true.
  2:{ symmetry. rewrite !andb_true_iff. repeat split; apply Z.leb_le; lia. }
  rewrite !zlen_to_nat. rewrite skipn_app, Nat.sub_diag, skipn_all. cbn [app skipn].
  rewrite firstn_app, Nat.sub_diag, firstn_all. cbn. rewrite app_nil_r. reflexivity.
Qed.

Lemma slice_mid' : forall pre x post off n, off = zlen pre -> n = zlen x ->
  slice (pre ++ x ++ post) off n = Some x.
Proof. intros; subst; apply slice_mid. Qed.

(* ------------------------------------------------------------------ UTF-16 strings *)
Lemma enc_uint_2 : forall e z, exists a b, enc_uint e 2 z = [a; b].
Proof. intros [|] z; cbn; eauto. Qed.

Lemma dec_units_enc : forall e u, all_in 2 u = true -> dec_units e (enc_units e u) = u.
Proof.
  intros e. induction u as [|z u IH]; intro H; [reflexivity|].
  cbn [all_in] in H. apply andb_prop in H. destruct H as [H1 H2]. apply andb_prop in H1. destruct H1 as [H0 H1].
  apply Z.leb_le in H0. apply Z.ltb_lt in H1.
  unfold enc_units in *. cbn [flat_map].
  destruct (enc_uint_2 e z) as [a [b Hab]]. rewrite Hab. cbn [app dec_units].
  rewrite <- Hab. rewrite dec_enc_uint by lia. rewrite IH by exact H2. reflexivity.
Qed.

Lemma zlen_enc_units : forall e u, zlen (enc_units e u) = 2 * zlen u.
Proof.
  intros e. induction u as [|z u IH]; [reflexivity|].
  unfold enc_units in *. cbn [flat_map]. rewrite zlen_app, zlen_enc_uint, IH, zlen_cons. lia.
Qed.
Lemma zlen_enc_string : forall e u, zlen (enc_string e u) = 4 + 2 * zlen u.
Proof. intros. unfold enc_string. rewrite zlen_app, zlen_enc_uint, zlen_enc_units. lia. Qed.

(* a string the serializer can write and the reader accepts *)
Definition wf_string (u : list Z) : bool :=
  all_in 2 u && valid_utf16 u && (2 * zlen u <? wbits 4).

Lemma read_string_enc : forall e u pre post, wf_string u = true ->
  read_string e (pre ++ enc_string e u ++ post) (zlen pre) = Some u.
Proof.
  intros e u pre post H. unfold wf_string in H.
  apply andb_prop in H. destruct H as [H Hlen]. apply andb_prop in H. destruct H as [Hin Hval].
  apply Z.ltb_lt in Hlen. pose proof (zlen_nonneg _ u) as Hu.
  unfold read_string, enc_string.
  rewrite <- app_assoc.
  rewrite (slice_mid' pre (enc_uint e 4 (2 * zlen u)) _ (zlen pre) 4) by (rewrite ?zlen_enc_uint; reflexivity).
  cbn [obnd]. rewrite dec_enc_uint by lia.
  replace ((2 * zlen u) mod 2 =? 0) with true.
  2:{ symmetry. apply Z.eqb_eq. rewrite Z.mul_comm. apply Z.mod_mul. lia. }
  rewrite !zlen_app, zlen_enc_uint, zlen_enc_units.
  pose proof (zlen_nonneg _ post).
  replace (zlen pre + (Z.of_nat 4 + (2 * zlen u + zlen post)) <? zlen pre + 4 + 2 * zlen u) with false
    by (symmetry; apply Z.ltb_ge; lia).
  cbn [negb orb].
  rewrite app_assoc.
  rewrite (slice_mid' (pre ++ enc_uint e 4 (2 * zlen u)) (enc_units e u) post).
  2:{ rewrite zlen_app, zlen_enc_uint. lia. }
  2:{ rewrite zlen_enc_units. reflexivity. }
  cbn [obnd]. rewrite dec_units_enc by exact Hin. rewrite Hval. reflexivity.
Qed.

(* ------------------------------------------------------------------ CodeView records *)
Definition u32b (z : Z) : bool := (0 <=? z) && (z <? wbits 4).
Definition u16b (z : Z) : bool := (0 <=? z) && (z <? wbits 2).
Definition u64b (z : Z) : bool := (0 <=? z) && (z <? wbits 8).

Definition wf_cv (e : endian) (c : cvrec) : bool :=
  match c with
  | CvNone => true
  | CvPdb70 d1 d2 d3 d4 age _ => u32b d1 && u16b d2 && u16b d3 && (length d4 =? 8)%nat && all_in 1 d4 && u32b age
  | CvPdb20 off s age _ => u32b off && u32b s && u32b age
  | CvElf _ => true
  | CvUnknown raw =>
      match take 4 raw with
      | Some (h, _) => let s := dec_uint e h in
                       negb (s =? CV_SIG_Pdb70) && negb (s =? CV_SIG_Pdb20) && negb (s =? CV_SIG_Elf)
      | None => false
      end
  end.

Lemma dec_cv_enc : forall e c, wf_cv e c = true -> c <> CvNone -> dec_cv e (enc_cv e c) = Some c.
Proof.
  intros e c Hwf Hne. destruct c as [|d1 d2 d3 d4 age file|off s age file|bid|raw]; [congruence| | | |].
  - cbn [wf_cv] in Hwf. repeat (apply andb_prop in Hwf; destruct Hwf as [Hwf ?]).
    assert (Hd4 : length d4 = 8%nat) by (apply Nat.eqb_eq; assumption).
    assert (Hwt : wt L_CV_INFO_PDB70 (vtuple [VInt CV_SIG_Pdb70; vtuple [VInt d1; VInt d2; VInt d3; varr d4]; VInt age]) = true).
    { unfold L_CV_INFO_PDB70, L_GUID. wt_open. unfold u32b, u16b in *.
      rewrite (wt_varr' 8 1 d4) by assumption.
      bdestr. bsplit; try assumption; reflexivity. }
    unfold dec_cv, enc_cv.
    assert (Htake : exists X, enc e L_CV_INFO_PDB70 (vtuple [VInt CV_SIG_Pdb70; vtuple [VInt d1; VInt d2; VInt d3; varr d4]; VInt age]) ++ file
                            = enc_uint e 4 CV_SIG_Pdb70 ++ X).
    { unfold L_CV_INFO_PDB70. cbn [vtuple enc]. rewrite <- app_assoc. eauto. }
    destruct Htake as [X HX]. rewrite HX at 1. rewrite take_app by apply length_enc_uint.
    cbn [obnd fst]. rewrite dec_enc_uint by (unfold wbits; cbn; unfold CV_SIG_Pdb70; lia).
    rewrite Z.eqb_refl. rewrite dec_enc by exact Hwt.
    cbn [vtuple]. rewrite unvarr_varr. reflexivity.
  - cbn [wf_cv] in Hwf. repeat (apply andb_prop in Hwf; destruct Hwf as [Hwf ?]).
    assert (Hwt : wt L_CV_INFO_PDB20 (vtuple [VInt CV_SIG_Pdb20; VInt off; VInt s; VInt age]) = true).
    { unfold L_CV_INFO_PDB20. wt_open. unfold u32b in *. bdestr. bsplit; try assumption; reflexivity. }
    unfold dec_cv, enc_cv.
    assert (Htake : exists X, enc e L_CV_INFO_PDB20 (vtuple [VInt CV_SIG_Pdb20; VInt off; VInt s; VInt age]) ++ file
                            = enc_uint e 4 CV_SIG_Pdb20 ++ X).
    { unfold L_CV_INFO_PDB20. cbn [vtuple enc]. rewrite <- app_assoc. eauto. }
    destruct Htake as [X HX]. rewrite HX at 1. rewrite take_app by apply length_enc_uint.
    cbn [obnd fst]. rewrite dec_enc_uint by (unfold wbits; cbn; unfold CV_SIG_Pdb20; lia).
    replace (CV_SIG_Pdb20 =? CV_SIG_Pdb70) with false by reflexivity. rewrite Z.eqb_refl.
    rewrite dec_enc by exact Hwt. reflexivity.
  - assert (Hwt : wt L_CV_INFO_ELF (vtuple [VInt CV_SIG_Elf]) = true) by reflexivity.
    unfold dec_cv, enc_cv.
    assert (Htake : exists X, enc e L_CV_INFO_ELF (vtuple [VInt CV_SIG_Elf]) ++ bid = enc_uint e 4 CV_SIG_Elf ++ X).
    { unfold L_CV_INFO_ELF. cbn [vtuple enc]. rewrite <- app_assoc. eauto. }
    destruct Htake as [X HX]. rewrite HX at 1. rewrite take_app by apply length_enc_uint.
    cbn [obnd fst]. rewrite dec_enc_uint by (unfold wbits; cbn; unfold CV_SIG_Elf; lia).
    replace (CV_SIG_Elf =? CV_SIG_Pdb70) with false by reflexivity.
    replace (CV_SIG_Elf =? CV_SIG_Pdb20) with false by reflexivity. rewrite Z.eqb_refl.
    rewrite dec_enc by exact Hwt. reflexivity.
  - cbn [wf_cv] in Hwf. unfold dec_cv, enc_cv.
    destruct (take 4 raw) as [[h r]|]; [|discriminate]. cbn [obnd fst].
    cbn zeta in Hwf.
    destruct (dec_uint e h =? CV_SIG_Pdb70); [cbn in Hwf; discriminate|].
    destruct (dec_uint e h =? CV_SIG_Pdb20); [cbn in Hwf; discriminate|].
    destruct (dec_uint e h =? CV_SIG_Elf); [cbn in Hwf; discriminate|]. reflexivity.
Qed.

Lemma enc_cv_zlen_endian : forall e1 e2 c, zlen (enc_cv e1 c) = zlen (enc_cv e2 c).
Proof.
  intros e1 e2 [|d1 d2 d3 d4 age file|off s age file|bid|raw]; cbn [enc_cv]; try reflexivity;
    rewrite !zlen_app; f_equal; apply enc_zlen_endian.
Qed.

Lemma cvrec_none_dec : forall c : cvrec, {c = CvNone} + {c <> CvNone}.
Proof. intros [| | | |]; [left; reflexivity|right; discriminate..]. Qed.
