(* C02/ModelR6.v — round 5, second pass: the CONTENT of the LinuxMaps stream.  MinidumpLinuxMaps::read hands the raw
   bytes to procfs-core 0.17 (MemoryMaps::from_read -> from_buf_read -> MemoryMap::from_line -> MMapPath::from); this
   file models that reader byte for byte: BufRead::lines (LF, one CR before it, UTF-8 per line), the smaps extension
   lines (first character A-Z), splitn(6, ' '), the integer parsers (from_str_radix: optional sign, overflow), the
   permission letters, the path classification after str::trim (Unicode White_Space), and its three panic sites
   (the two string slices of MMapPath::from, `v * 1024` of the extension lines in debug builds).  Definitions only. *)
From RM Require Export C02.ModelR5.
Open Scope Z_scope.

(* the procfs-core release this file was written from (process/mod.rs, lib.rs of 0.17.0) *)
Definition MODELLED_PROCFS_CORE : list Z := [0; 17; 0].

(* ------------------------------------------------------------------ integers: {u32,u64,i32}::from_str_radix *)
Definition digit_val (radix c : Z) : option Z :=
  if (48 <=? c) && (c <=? 57) then Some (c - 48)
  else if radix =? 16 then
    if (97 <=? c) && (c <=? 102) then Some (c - 87)
    else if (65 <=? c) && (c <=? 70) then Some (c - 55) else None
  else None.
(* digits accumulate with checked_mul / checked_add (checked_sub for a negative number): leaving [lo, hi] is an error *)
Fixpoint parse_digits (radix sign lo hi acc : Z) (l : list Z) : option Z :=
  match l with
  | [] => Some acc
  | c :: t => match digit_val radix c with
              | Some d => let a := acc * radix + sign * d in
                          if (lo <=? a) && (a <=? hi) then parse_digits radix sign lo hi a t else None
              | None => None
              end
  end.
Definition from_str_radix (signed : bool) (radix lo hi : Z) (l : list Z) : option Z :=
  match l with
  | [] => None
  | c :: t =>
      match t with
      | [] => if (c =? 43) || (c =? 45) then None else parse_digits radix 1 lo hi 0 l
      | _ => if c =? 43 then parse_digits radix 1 lo hi 0 t
             else if (c =? 45) && signed then parse_digits radix (-1) lo hi 0 t
             else parse_digits radix 1 lo hi 0 l
      end
  end.
Definition parse_u64 (radix : Z) := from_str_radix false radix 0 U64MAX.
Definition parse_u32 (radix : Z) := from_str_radix false radix 0 U32MAX.
Definition parse_i32 (radix : Z) := from_str_radix true radix (-2147483648) 2147483647.

(* ------------------------------------------------------------------ splitting *)
(* the piece before the first separator and what follows it (None: no separator) *)
Fixpoint span_sep (sep : Z) (l : list Z) : list Z * option (list Z) :=
  match l with
  | [] => ([], None)
  | c :: t => if c =? sep then ([], Some t)
              else let r := span_sep sep t in (c :: fst r, snd r)
  end.
(* str::splitn(n, sep) *)
Fixpoint splitn (n : nat) (sep : Z) (l : list Z) : list (list Z) :=
  match n with
  | O => []
  | S n' => match n' with
            | O => [l]
            | S _ => match span_sep sep l with
                     | (a, Some r) => a :: splitn n' sep r
                     | (a, None) => [a]
                     end
            end
  end.
(* split_into_num: the first two pieces of s.split(sep), both parsed *)
Definition split_into_num (parse : list Z -> option Z) (sep : Z) (s : list Z) : option (Z * Z) :=
  match span_sep sep s with
  | (a, Some r) => match parse a, parse (fst (span_sep sep r)) with
                   | Some x, Some y => Some (x, y)
                   | _, _ => None
                   end
  | (_, None) => None
  end.
(* split_ascii_whitespace *)
Fixpoint words_aux (l cur : list Z) : list (list Z) :=
  match l with
  | [] => match cur with [] => [] | _ => [rev cur] end
  | c :: t => if is_ws c then match cur with [] => words_aux t [] | _ => rev cur :: words_aux t [] end
              else words_aux t (c :: cur)
  end.
Definition words (l : list Z) : list (list Z) := words_aux l [].

(* BufRead::lines: pieces ended by LF lose the LF and one CR before it; an unterminated non-empty rest is the last line *)
Definition strip_cr (l : list Z) : list Z :=
  match rev l with 13 :: r => rev r | _ => l end.
Fixpoint lines_of (ps : list (list Z)) : list (list Z) :=
  match ps with
  | [] => []
  | p :: t => match t with
              | [] => match p with [] => [] | _ => [p] end
              | _ => strip_cr p :: lines_of t
              end
  end.
Definition buf_lines (b : list Z) : list (list Z) := lines_of (split_on 10 b).

(* ------------------------------------------------------------------ str::trim: char::is_whitespace = White_Space *)
(* the UTF-8 forms of U+0009..000D, 0020, 0085, 00A0, 1680, 2000..200A, 2028, 2029, 202F, 205F, 3000 *)
Definition ws1 (c : Z) : bool := ((9 <=? c) && (c <=? 13)) || (c =? 32).
Definition ws2 (a b : Z) : bool := (a =? 194) && ((b =? 133) || (b =? 160)).
Definition ws3 (a b c : Z) : bool :=
  ((a =? 225) && (b =? 154) && (c =? 128))
  || ((a =? 226) && (b =? 128) && (((128 <=? c) && (c <=? 138)) || (c =? 168) || (c =? 169) || (c =? 175)))
  || ((a =? 226) && (b =? 129) && (c =? 159))
  || ((a =? 227) && (b =? 128) && (c =? 128)).
(* the string starts with a White_Space character / the REVERSED string `r` ends with one (in well-formed UTF-8 a trailing
   C2 85 is the character U+0085 ...) *)
Definition starts_ws (l : list Z) : bool :=
  match l with
  | a :: t => ws1 a || match t with
                       | b :: t2 => ws2 a b || match t2 with c :: _ => ws3 a b c | [] => false end
                       | [] => false
                       end
  | [] => false
  end.
Definition ends_ws (r : list Z) : bool :=
  match r with
  | a :: t => ws1 a || match t with
                       | b :: t2 => ws2 b a || match t2 with c :: _ => ws3 c b a | [] => false end
                       | [] => false
                       end
  | [] => false
  end.
Fixpoint utrim_left (l : list Z) : list Z :=
  match l with
  | a :: t => if ws1 a then utrim_left t
              else match t with
                   | b :: t2 => if ws2 a b then utrim_left t2
                                else match t2 with
                                     | c :: t3 => if ws3 a b c then utrim_left t3 else l
                                     | [] => l
                                     end
                   | [] => l
                   end
  | [] => []
  end.
Fixpoint utrim_right (r : list Z) : list Z :=
  match r with
  | a :: t => if ws1 a then utrim_right t
              else match t with
                   | b :: t2 => if ws2 b a then utrim_right t2
                                else match t2 with
                                     | c :: t3 => if ws3 c b a then utrim_right t3 else r
                                     | [] => r
                                     end
                   | [] => r
                   end
  | [] => []
  end.
Definition utrim (l : list Z) : list Z := rev (utrim_right (rev (utrim_left l))).

(* ------------------------------------------------------------------ MMapPath::from *)
Inductive mpath :=
| PPath (s : list Z) | PHeap | PStack | PTStack (tid : Z) | PVdso | PVvar | PVsyscall | PRollup | PAnon
| PVsys (v : Z) | POther (s : list Z).

Fixpoint list_eqb (a b : list Z) : bool :=
  match a, b with
  | [], [] => true
  | x :: a', y :: b' => (x =? y) && list_eqb a' b'
  | _, _ => false
  end.
Fixpoint is_prefix (p l : list Z) : bool :=
  match p, l with
  | [], _ => true
  | x :: p', y :: l' => (x =? y) && is_prefix p' l'
  | _ :: _, [] => false
  end.
Definition S_HEAP := [91; 104; 101; 97; 112; 93].
Definition S_STACK := [91; 115; 116; 97; 99; 107; 93].
Definition S_VDSO := [91; 118; 100; 115; 111; 93].
Definition S_VVAR := [91; 118; 118; 97; 114; 93].
Definition S_VSYSCALL := [91; 118; 115; 121; 115; 99; 97; 108; 108; 93].
Definition S_ROLLUP := [91; 114; 111; 108; 108; 117; 112; 93].
Definition S_TSTACK := [91; 115; 116; 97; 99; 107; 58].          (* "[stack:" *)
Definition S_SYSV := [47; 83; 89; 83; 86].                       (* "/SYSV" *)
Definition last_byte (l : list Z) : Z := last l 0.
(* x[1..x.len() - 1] *)
Definition inner (x : list Z) : list Z := removelast (tl x).
(* str::is_char_boundary(i) for 0 < i: the end of the string or a byte that is not a continuation byte *)
Definition char_boundary (x : list Z) (i : nat) : bool :=
  match skipn i x with [] => (length x =? i)%nat | c :: _ => negb (cont8 c) end.

Definition classify (path : list Z) : outcome mpath :=
  let x := utrim path in
  if list_eqb x [] then Ret PAnon
  else if list_eqb x S_HEAP then Ret PHeap
  else if list_eqb x S_STACK then Ret PStack
  else if list_eqb x S_VDSO then Ret PVdso
  else if list_eqb x S_VVAR then Ret PVvar
  else if list_eqb x S_VSYSCALL then Ret PVsyscall
  else if list_eqb x S_ROLLUP then Ret PRollup
  else if is_prefix S_TSTACK x then
    (* x[1..x.len() - 1]: panics when the last character is not one byte long *)
    if 128 <=? last_byte x then Panic 1
    else match span_sep 58 (inner x) with
         | (_, Some r) => match parse_u32 10 (fst (span_sep 58 r)) with Some tid => Ret (PTStack tid) | None => Fail end
         | (_, None) => Fail
         end
  else if (nth 0 x 0 =? 91) && (last_byte x =? 93) then Ret (POther (inner x))
  else if is_prefix S_SYSV x then
    (* &x[5..13]: panics when the string is shorter or byte 13 is inside a character *)
    if (length x <? 13)%nat || negb (char_boundary x 13) then Panic 2
    else match parse_u32 16 (firstn 8 (skipn 5 x)) with
         | Some v => Ret (PVsys (if v <? 2147483648 then v else v - 4294967296))
         | None => Fail
         end
  else Ret (PPath x).

(* ------------------------------------------------------------------ MemoryMap::from_line *)
Record mmap := { mm_lo : Z; mm_hi : Z; mm_perms : Z; mm_off : Z; mm_maj : Z; mm_min : Z; mm_inode : Z; mm_path : mpath }.

Definition perm_bit (c : Z) : Z :=
  if c =? 114 then 1 else if c =? 119 then 2 else if c =? 120 then 4 else if c =? 115 then 8 else if c =? 112 then 16 else 0.
Definition parse_perms (s : list Z) : Z := fold_left (fun a c => Z.lor a (perm_bit c)) s 0.

Definition from_line (line : list Z) : outcome mmap :=
  match splitn 6 32 line with
  | [address; perms; offset; dev; inode; path] =>
      match split_into_num (parse_u64 16) 45 address with
      | None => Fail
      | Some (lo, hi) =>
          match parse_u64 16 offset with
          | None => Fail
          | Some off =>
              match split_into_num (parse_i32 16) 58 dev with
              | None => Fail
              | Some (maj, mi) =>
                  match parse_u64 10 inode with
                  | None => Fail
                  | Some ino =>
                      do p <- classify path;
                      Ret {| mm_lo := lo; mm_hi := hi; mm_perms := parse_perms perms; mm_off := off; mm_maj := maj;
                             mm_min := mi; mm_inode := ino; mm_path := p |}
                  end
              end
          end
      end
  | _ => Fail
  end.

(* ------------------------------------------------------------------ MemoryMaps::from_buf_read *)
Definition is_upper (c : Z) : bool := (65 <=? c) && (c <=? 90).
(* an smaps extension line: VmFlags never fails; `Key: value [kB]` needs a u64 value, `v * 1024` when a third word follows *)
Definition ext_line (p : profile) (line : list Z) : outcome unit :=
  if is_prefix [86; 109; 70; 108; 97; 103; 115] line then Ret tt
  else match words line with
       | _ :: v :: rest =>
           match parse_u64 10 v with
           | None => Fail
           | Some n => match rest with
                       | [] => Ret tt
                       | _ => obind (chk_mul p 64 3 n 1024) (fun _ => Ret tt)
                       end
           end
       | _ => Ret tt
       end.
(* the loop; `cur` = current_memory_map, `acc` = memory_maps reversed *)
Fixpoint maps_loop (p : profile) (ls : list (list Z)) (cur : option mmap) (acc : list mmap) : outcome (list mmap) :=
  match ls with
  | [] => Ret (rev (match cur with Some m => m :: acc | None => acc end))
  | line :: t =>
      if negb (valid_utf8 line) then Fail
      else if match line with c :: _ => is_upper c | [] => false end then
        match cur with
        | None => Fail
        | Some _ => obind (ext_line p line) (fun _ => maps_loop p t cur acc)
        end
      else
        do m <- from_line line;
        maps_loop p t (Some m) (match cur with Some m0 => m0 :: acc | None => acc end)
  end.
(* MinidumpLinuxMaps::read on the bytes of the stream: Ret = the regions in file order, Fail = StreamReadFailure *)
Definition parse_maps (p : profile) (b : list Z) : outcome (list mmap) := maps_loop p (buf_lines b) None [].

(* get_stream::<MinidumpLinuxMaps>() on what Minidump::read returned: the typed reader applied to the served raw stream *)
Definition linux_maps_of (p : profile) (v : dview) : sres (outcome (list mmap)) :=
  match v_lx_maps v with SOk b => SOk (parse_maps p b) | SErr => SErr | SMissing => SMissing end.

Definition ostatus_is_ret {A} (o : outcome A) : bool := match o with Ret _ => true | _ => false end.
(* MinidumpLinuxMapInfo::memory_range: None when the first address is above the second *)
Definition mm_range_ok (m : mmap) : bool := mm_lo m <=? mm_hi m.

(* ------------------------------------------------------------------ the writer side (fs/proc/task_mmu.c: show_map_vma) *)
(* exactly n digits, most significant first *)
Fixpoint to_digits (radix : Z) (n : nat) (x : Z) : list Z :=
  match n with O => [] | S k => to_digits radix k (x / radix) ++ [x mod radix] end.
Definition digit_char (d : Z) : Z := if d <? 10 then 48 + d else 87 + d.
Definition num_str (radix : Z) (w : nat) (x : Z) : list Z := map digit_char (to_digits radix w x).
Definition perms_str (p : Z) : list Z :=
  [if Z.testbit p 0 then 114 else 45; if Z.testbit p 1 then 119 else 45; if Z.testbit p 2 then 120 else 45;
   if Z.testbit p 3 then 115 else if Z.testbit p 4 then 112 else 45].
Definition S_DELETED := [32; 40; 100; 101; 108; 101; 116; 101; 100; 41].     (* " (deleted)" *)
(* field widths of one line (the kernel prints at least 8 / 8 / 2 / 1 digits), blanks before the name, and for SysV
   segments whether " (deleted)" follows *)
Record mfmt := { w_addr : nat; w_off : nat; w_dev : nat; w_ino : nat; w_tid : nat; n_pad : nat; deleted : bool }.
Definition path_str (f : mfmt) (p : mpath) : list Z :=
  match p with
  | PPath s => s
  | PHeap => S_HEAP | PStack => S_STACK | PVdso => S_VDSO | PVvar => S_VVAR | PVsyscall => S_VSYSCALL | PRollup => S_ROLLUP
  | PAnon => []
  | PTStack tid => S_TSTACK ++ num_str 10 (w_tid f) tid ++ [93]
  | PVsys v => S_SYSV ++ num_str 16 8 (v mod 4294967296) ++ (if deleted f then S_DELETED else [])
  | POther s => [91] ++ s ++ [93]
  end.
Definition fmt_entry (f : mfmt) (m : mmap) : list Z :=
  (num_str 16 (w_addr f) (mm_lo m) ++ [45] ++ num_str 16 (w_addr f) (mm_hi m)) ++ [32] ++ perms_str (mm_perms m) ++ [32]
  ++ num_str 16 (w_off f) (mm_off m) ++ [32] ++ (num_str 16 (w_dev f) (mm_maj m) ++ [58] ++ num_str 16 (w_dev f) (mm_min m))
  ++ [32] ++ num_str 10 (w_ino f) (mm_inode m) ++ [32] ++ (repeat 32 (n_pad f) ++ path_str f (mm_path m)).
Definition maps_text (l : list (mfmt * mmap)) : list Z := flat_map (fun fm => fmt_entry (fst fm) (snd fm) ++ [10]) l.

(* no line break inside a name *)
Definition no_eol (s : list Z) : bool := forallb (fun c => negb (c =? 10) && negb (c =? 13)) s.
Definition fits (radix : Z) (w : nat) (x : Z) : bool := (0 <? Z.of_nat w) && (0 <=? x) && (x <? radix ^ Z.of_nat w).
(* a name that stands for itself: UTF-8, one line, no White_Space character at either end *)
Definition plain_name (s : list Z) : bool := valid_utf8 s && no_eol s && negb (starts_ws s) && negb (ends_ws (rev s)).
Definition wf_path (f : mfmt) (p : mpath) : bool :=
  match p with
  | PPath s => plain_name s && negb (list_eqb s []) && negb ((nth 0 s 0 =? 91) && (last_byte s =? 93))
               && negb (is_prefix S_TSTACK s) && negb (is_prefix S_SYSV s)
  | PTStack tid => fits 10 (w_tid f) tid && (tid <=? U32MAX)
  | PVsys v => (-2147483648 <=? v) && (v <=? 2147483647)
  | POther s => valid_utf8 s && no_eol s && negb (is_prefix S_TSTACK ([91] ++ s ++ [93]))
                && negb (existsb (list_eqb ([91] ++ s ++ [93])) [S_HEAP; S_STACK; S_VDSO; S_VVAR; S_VSYSCALL; S_ROLLUP])
  | _ => true
  end.
Definition wf_entry (fm : mfmt * mmap) : bool :=
  let f := fst fm in let m := snd fm in
  fits 16 (w_addr f) (mm_lo m) && (mm_lo m <=? U64MAX) && fits 16 (w_addr f) (mm_hi m) && (mm_hi m <=? U64MAX)
  && (0 <=? mm_perms m) && (mm_perms m <? 32) && negb (Z.testbit (mm_perms m) 3 && Z.testbit (mm_perms m) 4)
  && fits 16 (w_off f) (mm_off m) && (mm_off m <=? U64MAX)
  && fits 16 (w_dev f) (mm_maj m) && (mm_maj m <=? 2147483647) && fits 16 (w_dev f) (mm_min m) && (mm_min m <=? 2147483647)
  && fits 10 (w_ino f) (mm_inode m) && (mm_inode m <=? U64MAX)
  && wf_path f (mm_path m).
