(* C02/Driver.v — entry points for the correspondence run (extracted to OCaml).
   run_encode : case tokens (a dump model as integers) -> dump bytes (extracted encode_dump)
   run_observe: dump bytes -> observables of decode_dump, in the shape the harness prints *)
From RM Require Import C02.Model C02.ModelR5 C02.ModelR6.
From RM Require Import C08.Model.
Open Scope Z_scope.

(* ---------------------------------------------------------------- token parser *)
Definition P (A : Type) := list Z -> option (A * list Z).
Definition pret {A} (a : A) : P A := fun l => Some (a, l).
Definition pbind {A B} (p : P A) (f : A -> P B) : P B :=
  fun l => match p l with Some (a, r) => f a r | None => None end.
Notation "'let*' x ':=' p 'in' k" := (pbind p (fun x => k)) (at level 200, x pattern, p at level 100, k at level 200).
Definition pint : P Z := fun l => match l with z :: r => Some (z, r) | [] => None end.
Fixpoint prep {A} (n : nat) (p : P A) : P (list A) :=
  match n with
  | O => pret []
  | S n' => let* a := p in let* t := prep n' p in pret (a :: t)
  end.
Definition pints (n : nat) : P (list Z) := prep n pint.
Definition plist {A} (p : P A) : P (list A) := let* n := pint in prep (Z.to_nat n) p.
Definition popt {A} (p : P A) : P (option A) :=
  let* k := pint in if k =? 0 then pret None else let* a := p in pret (Some a).

Fixpoint pattern_bytes (n : nat) (i seed : Z) : list Z :=
  match n with O => [] | S n' => ((seed + i * (2 * seed + 1)) mod 256) :: pattern_bytes n' (i + 1) seed end.
(* blob: 0 n b1..bn | 1 n seed *)
Definition pblob_k (k : Z) : P (list Z) :=
  let* n := pint in
  if k =? 0 then pints (Z.to_nat n) else let* s := pint in pret (pattern_bytes (Z.to_nat n) 0 s).
Definition pblob : P (list Z) := let* k := pint in pblob_k k.
Definition poptblob : P (option (list Z)) :=
  let* k := pint in if k =? -1 then pret None else let* b := pblob_k k in pret (Some b).
Definition pstr : P (list Z) := plist pint.
Definition poptstr : P (option (list Z)) :=
  let* n := pint in if n =? -1 then pret None else let* u := pints (Z.to_nat n) in pret (Some u).

Definition pcv : P cvrec :=
  let* k := pint in
  if k =? 1 then
    let* d1 := pint in let* d2 := pint in let* d3 := pint in let* d4 := pints 8 in let* age := pint in
    let* f := pblob in pret (CvPdb70 d1 d2 d3 d4 age f)
  else if k =? 2 then
    let* off := pint in let* s := pint in let* age := pint in let* f := pblob in pret (CvPdb20 off s age f)
  else if k =? 3 then let* b := pblob in pret (CvElf b)
  else if k =? 4 then let* b := pblob in pret (CvUnknown b)
  else pret CvNone.

Definition pthread : P mthread :=
  let* id := pint in let* su := pint in let* pc := pint in let* pr := pint in let* teb := pint in
  let* sb := pint in let* st := poptblob in let* cx := poptblob in
  pret {| th_id := id; th_suspend := su; th_pclass := pc; th_prio := pr; th_teb := teb;
          th_stack_base := sb; th_stack := st; th_ctx := cx |}.
Definition pmodule : P mmodule :=
  let* base := pint in let* size := pint in let* ck := pint in let* tm := pint in
  let* name := pstr in let* ver := pints 13 in let* cv := pcv in
  let* ms := pint in let* mr := pint in let* res := pints 4 in
  pret {| md_base := base; md_size := size; md_checksum := ck; md_time := tm; md_name := name;
          md_ver := ver; md_cv := cv; md_misc := (ms, mr); md_res := res |}.
Definition pregion : P mregion :=
  let* base := pint in let* b := pblob in pret {| mr_base := base; mr_bytes := b |}.
Definition pexception : P mexception :=
  let* tid := pint in let* al := pint in let* code := pint in let* fl := pint in let* rec := pint in
  let* addr := pint in let* np := pint in let* al2 := pint in let* info := pints 15 in let* cx := poptblob in
  pret {| ex_thread_id := tid; ex_align := al; ex_code := code; ex_flags := fl; ex_record := rec;
          ex_address := addr; ex_nparams := np; ex_align2 := al2; ex_info := info; ex_ctx := cx |}.
Definition psysinfo : P msysinfo :=
  let* ar := pint in let* lv := pint in let* rv := pint in let* np := pint in let* pt := pint in
  let* mj := pint in let* mn := pint in let* bn := pint in let* pf := pint in let* su := pint in
  let* r2 := pint in let* cpu := pints 24 in let* csd := poptstr in
  pret {| si_arch := ar; si_level := lv; si_revision := rv; si_nproc := np; si_ptype := pt;
          si_major := mj; si_minor := mn; si_build := bn; si_platform := pf; si_suite := su;
          si_reserved2 := r2; si_cpu := cpu; si_csd := csd |}.
Definition ptname : P (Z * list Z) := let* id := pint in let* n := pstr in pret (id, n).
Definition punloaded : P munloaded :=
  let* base := pint in let* size := pint in let* ck := pint in let* tm := pint in let* n := pstr in
  pret {| um_base := base; um_size := size; um_checksum := ck; um_time := tm; um_name := n |}.
Definition pextra : P (Z * (Z * Z)) :=
  let* ty := pint in let* sz := pint in let* rva := pint in pret (ty, (sz, rva)).
Definition pmisc : P (Z * list Z) := let* k := pint in let* l := plist pint in pret (k, l).

Definition phandle : P mhandle :=
  let* hd := pint in let* ty := poptstr in let* ob := poptstr in
  let* at_ := pint in let* ac := pint in let* hc := pint in let* pc := pint in
  pret {| h_handle := hd; h_type := ty; h_object := ob; h_attr := at_; h_access := ac; h_hcount := hc; h_pcount := pc |}.
Definition phandles : P (bool * list mhandle) :=
  let* v := pint in let* l := plist phandle in pret (negb (v =? 0), l).

Definition pmodel : P (endian * model) :=
  let* en := pint in
  let* ver := pint in let* ck := pint in let* tm := pint in let* fl := pint in let* pad := pint in
  let* extra := plist pextra in
  let* si := popt psysinfo in
  let* th := popt (plist pthread) in
  let* md := popt (plist pmodule) in
  let* me := popt (plist pregion) in
  let* m64 := popt (plist pregion) in
  let* ex := popt pexception in
  let* tn := popt (plist ptname) in
  let* un := popt (plist punloaded) in
  let* mi := popt (plist (pints 9)) in
  let* mc := popt pmisc in
  let* bp := popt (pints 3) in
  let* asr := popt (pints 386) in
  let* ti := popt (plist (pints 10)) in
  let* r1 := popt pblob in let* r2 := popt pblob in let* r3 := popt pblob in
  let* r4 := popt pblob in let* r5 := popt pblob in let* r6 := popt pblob in
  let* hs := popt phandles in
  pret (if en =? 0 then LE else BE,
        {| m_version := ver; m_checksum := ck; m_time := tm; m_flags := fl; m_extra_dir := extra;
           m_pad_lists := negb (pad =? 0);
           m_sysinfo := si; m_threads := th; m_modules := md; m_memory := me; m_memory64 := m64;
           m_exception := ex; m_tnames := tn; m_unloaded := un; m_meminfo := mi; m_misc := mc;
           m_breakpad := bp; m_assertion := asr; m_thread_info := ti;
           m_lx_cpuinfo := r1; m_lx_status := r2; m_lx_lsb := r3; m_lx_environ := r4; m_lx_maps := r5; m_lx_limits := r6;
           m_handles := hs |}).

Definition run_encode (toks : list Z) : option (list Z) :=
  match pmodel toks with
  | Some ((e, m), _) => Some (encode_dump e m)
  | None => None
  end.

(* ---------------------------------------------------------------- observables *)
Definition HASH_MOD : Z := 1000000007.
Definition blob_hash (b : list Z) : Z := fold_left (fun h x => (h * 257 + x + 1) mod HASH_MOD) b 0.
(* len, hash, first, last *)
Definition blob4 (b : list Z) : list Z :=
  [zlen b; blob_hash b; hd (-1) b; last b (-1)].
Definition oblob4 (o : option (list Z)) : list Z := match o with Some b => blob4 b | None => [-1] end.
Definition ostr (o : option (list Z)) : list Z := match o with Some u => zlen u :: u | None => [-1] end.
Definition str (u : list Z) : list Z := zlen u :: u.

Definition sec {A} (r : sres A) (f : A -> list (list Z)) : Z * list (list Z) :=
  match r with SMissing => (0, []) | SErr => (1, []) | SOk a => (2, f a) end.

Definition cv_obs (c : cvrec) : list Z :=
  match c with
  | CvNone => [0]
  | CvPdb70 d1 d2 d3 d4 age f => [1; d1; d2; d3] ++ d4 ++ [age] ++ str f
  | CvPdb20 off s age f => [2; off; s; age] ++ str f
  | CvElf b => 3 :: str b
  | CvUnknown b => 4 :: str b
  end.

Definition module_obs (e : endian) (os : os_class) (m : mmodule) : list Z :=
  [md_base m; md_size m; md_checksum m; md_time m] ++ md_ver m ++ [fst (md_misc m); snd (md_misc m)] ++ md_res m
  ++ str (md_name m) ++ cv_obs (md_cv m)
  ++ ostr (debug_id_string (read_debug_id e (md_cv m)))
  ++ ostr (code_identifier os (md_time m) (md_size m) (md_cv m))
  ++ match debug_file (md_name m) (md_cv m) with
     | None => [-1]
     | Some (inl b) => 0 :: str b
     | Some (inr u) => 1 :: str u
     end
  ++ ostr (module_version os (md_ver m)).

Definition region_obs (r : mregion) : list Z := mr_base r :: blob4 (mr_bytes r).

(* queries around every region: base-1, base, last, last+1 (when they are u64 addresses) *)
Definition region_queries (rs : list mregion) : list Z :=
  flat_map (fun r => let b := mr_base r in let n := zlen (mr_bytes r) in
                     filter (fun x => (0 <=? x) && (x <=? U64MAX)) [b - 1; b; b + n - 1; b + n]) rs.
Definition query_obs (rs : list mregion) (x : Z) : list Z :=
  match memory_at rs x with
  | None => [x; -1]
  | Some r => [x; mr_base r; zlen (mr_bytes r); match region_byte r x with Some b => b | None => -1 end]
  end.

(* the memory list get_memory() serves: Memory64List when it reads, else MemoryList *)
Definition unified (v : dview) : list mregion :=
  match v_memory64 v with
  | SOk l => l
  | _ => match v_memory v with SOk l => l | _ => [] end
  end.


(* ---- CPU contexts: MinidumpContext::read picks the layout by processor_architecture, reads the
   struct and checks ContextFlagsCpu::from_flags(context_flags) (= flags & CONTEXT_CPU_MASK restricted to
   the declared cpu bits) against the architecture's constant.  x86 / amd64 / arm / arm64 are modelled. *)
Fixpoint lflat (L : layout) (v : value) {struct L} : list Z :=
  match L with
  | LU w => match v with
            | VInt z => if Nat.eqb w 16 then [z / 18446744073709551616; z mod 18446744073709551616] else [z]
            | _ => []
            end
  | LI _ => match v with VInt z => [z] | _ => [] end
  | LNil => []
  | LSeq t r => match v with VSeq a b => lflat t a ++ lflat r b | _ => [] end
  | LArr n t =>
      (fix arr (n : nat) (v : value) {struct n} : list Z :=
         match n, v with
         | S n', VSeq a b => lflat t a ++ arr n' b
         | _, _ => []
         end) n v
  end.

(* [-3]: no system info; [-2]: architecture without a context layout; [-1]: no context; 1 :: fields *)
Definition context_obs (e : endian) (sys : sres msysinfo) (ctx : option (list Z)) : list Z :=
  match sys with
  | SOk s =>
      match ctx_spec (si_arch s) with
      | None => [-2]
      | Some (L, _) =>
          match ctx with
          | None => [-1]
          | Some bytes => match read_context e (si_arch s) bytes with
                          | Some v => 1 :: lflat L v
                          | None => [-1]
                          end
          end
      end
  | _ => [-3]
  end.

Definition thread_obs (e : endian) (sys : sres msysinfo) (mem : list mregion) (t : mthread) : list Z :=
  [th_id t; th_suspend t; th_pclass t; th_prio t; th_teb t; th_stack_base t]
  ++ match stack_memory t mem with
     | Some r => region_obs r
     | None => [-1]
     end
  ++ context_obs e sys (th_ctx t).

(* BTreeMap<u32, String>: last name per id, ascending ids *)
Fixpoint insert_name (n : Z * list Z) (l : list (Z * list Z)) : list (Z * list Z) :=
  match l with
  | [] => [n]
  | x :: t => if fst n <? fst x then n :: l
              else if fst n =? fst x then n :: t
              else x :: insert_name n t
  end.
Definition names_map (l : list (Z * list Z)) : list (Z * list Z) := fold_left (fun acc n => insert_name n acc) l [].


(* ---- Linux key/value text: linux_list_iter is ModelR5.kv_pairs (c02_kv_roundtrip) *)
Definition kv_items (sep : Z) (b : list Z) : list (list Z) :=
  map (fun kv => str (fst kv) ++ str (snd kv)) (kv_pairs sep b).
(* ---- Linux maps: what MinidumpLinuxMaps::read makes of the text (ModelR6.parse_maps, c02_maps_roundtrip): first the
   outcome in a debug and in a release build (2 = regions, 1 = StreamReadFailure, 3 = panic), then one item per region:
   the two addresses, permission bits, offset, device, inode, whether memory_range() is Some, the kind of name *)
Definition mpath_obs (p : mpath) : list Z :=
  match p with
  | PPath s => 0 :: str s
  | PHeap => [1] | PStack => [2]
  | PTStack tid => [3; tid]
  | PVdso => [4] | PVvar => [5] | PVsyscall => [6] | PRollup => [7] | PAnon => [8]
  | PVsys v => [9; v]
  | POther s => 10 :: str s
  end.
Definition mmap_obs (m : mmap) : list Z :=
  [mm_lo m; mm_hi m; mm_perms m; mm_off m; mm_maj m; mm_min m; mm_inode m; if mm_range_ok m then 1 else 0] ++ mpath_obs (mm_path m).
Definition ostatus {A} (o : outcome A) : Z :=
  match o with Ret _ => 2 | Fail => 1 | Panic _ => 3 | OutOfFuel => 4 end.
Definition maps_obs (b : list Z) : list (list Z) :=
  let d := parse_maps Debug b in
  let r := parse_maps Release b in
  [ostatus d; ostatus r] :: match r with Ret l => map mmap_obs l | _ => [] end.
Fixpoint until_zero (l : list Z) : list Z :=
  match l with [] => [] | c :: t => if c =? 0 then [] else c :: until_zero t end.
(* utf16_to_string: units up to the first NUL, None when they are not valid UTF-16 *)
Definition zstr16 (l : list Z) : list Z :=
  let u := until_zero l in if valid_utf16 u then str u else [-1].

(* ---- the directory as a whole: every served entry (ascending type) with its index, location and the outcome of
   get_raw_stream (2 :: len, hash, first, last | 1 = location outside the file); the unknown streams with their vendor *)
Definition dir_obs (all : list Z) (d : list (Z * (Z * Z))) : list (list Z) :=
  map (fun p => match p with
                | (ty, (idx, (size, rva))) =>
                    [ty; idx; size; rva] ++ match raw_stream all d ty with
                                            | SOk b => 2 :: blob4 b
                                            | SErr => [1]
                                            | SMissing => [0]
                                            end
                end) (served_dir d).
Definition unk_obs (d : list (Z * (Z * Z))) : list (list Z) :=
  map (fun p => match p with (ty, (_, (size, rva))) => [ty; size; rva; stream_vendor ty] end) (unknown_streams d).
(* unimplemented_streams(): type, location, vendor (through the REGENERATED stream_vendor) *)
Definition unimp_obs (d : list (Z * (Z * Z))) : list (list Z) :=
  map (fun p => match p with (ty, (_, (size, rva))) => [ty; size; rva; stream_vendor_rd ty] end) (unimplemented_streams d).
(* one Mac crash info record: number of fixed u64 fields, the fields, number of strings, the strings; then what the
   accessors version() / thread() / dialog_mode() / abort_cause() give (None for an absent or zero field: -1) and the
   length of what each of the five string accessors gives (-1 for an absent or empty string) *)
Definition mcrec_obs (r : mcrec) : list Z :=
  let acc := fun k => match nth_error (cr_ints r) k with Some x => if x =? 0 then -1 else x | None => -1 end in
  let sacc := fun k => match nth_error (cr_strings r) k with Some s => if zlen s =? 0 then -1 else zlen s | None => -1 end in
  [zlen (cr_ints r)] ++ cr_ints r ++ [zlen (cr_strings r)] ++ flat_map str (cr_strings r)
  ++ [acc 1%nat; acc 2%nat; acc 3%nat; acc 4%nat] ++ map sacc [0%nat; 1%nat; 2%nat; 3%nat; 4%nat].
Definition the_dir (bytes : list Z) : list (Z * (Z * Z)) :=
  match read_directory bytes with Some (_, d) => d | None => [] end.

(* ---- round 4 streams.  BTreeMap<String, _>: byte-wise lexicographic key order, a later insert replaces *)
Fixpoint lex_cmp (a b : list Z) : comparison :=
  match a, b with
  | [], [] => Eq
  | [], _ => Lt
  | _, [] => Gt
  | x :: a', y :: b' => match x ?= y with Eq => lex_cmp a' b' | c => c end
  end.
Fixpoint bmap_insert {V} (k : list Z) (v : V) (l : list (list Z * V)) : list (list Z * V) :=
  match l with
  | [] => [(k, v)]
  | (k', v') :: t => match lex_cmp k k' with
                     | Lt => (k, v) :: l
                     | Eq => (k, v) :: t
                     | Gt => (k', v') :: bmap_insert k v t
                     end
  end.
Definition bmap_of {V} (l : list (list Z * V)) : list (list Z * V) :=
  fold_left (fun acc kv => bmap_insert (fst kv) (snd kv) acc) l [].
(* Invalid: [0]; String: 1 :: s; UserDefined: [2; ty; reserved; value rva]; Unsupported: [3; ...] *)
Definition annot_obs (a : mannot) : list Z :=
  match an_value a with
  | inl s => 1 :: str s
  | inr r => if an_ty a =? 0 then [0] else [if 32768 <=? an_ty a then 2 else 3; an_ty a; an_reserved a; r]
  end.
Fixpoint cmodules_obs (i : Z) (l : list cmodule) : list (list Z) :=
  match l with
  | [] => []
  | m :: t =>
      let sm := bmap_of (cm_simple m) in
      let ob := bmap_of (map (fun a => (an_name a, a)) (cm_objects m)) in
      [[2; i; cm_index m; cm_version m; zlen (cm_list m); zlen sm; zlen ob]]
      ++ map (fun s => [3; i] ++ str s) (cm_list m)
      ++ map (fun kv => [4; i] ++ str (fst kv) ++ str (snd kv)) sm
      ++ map (fun kv => [5; i] ++ str (fst kv) ++ annot_obs (snd kv)) ob
      ++ cmodules_obs (i + 1) t
  end.
Definition crashpad_obs (x : mcrashpad) : list (list Z) :=
  [[0; cp_version x] ++ cp_report x ++ cp_client x]
  ++ map (fun kv => [1] ++ str (fst kv) ++ str (snd kv)) (bmap_of (cp_simple x))
  ++ cmodules_obs 0 (cp_modules x).

(* token parsers of the round 4 stream models and their serializers (cross-checked against the plugin's own writer) *)
Definition pkv : P (list Z * list Z) := let* k := pstr in let* v := pstr in pret (k, v).
Definition pannot : P mannot :=
  let* n := pstr in let* ty := pint in let* rs := pint in let* k := pint in
  if k =? 0 then let* s := pstr in pret {| an_name := n; an_ty := ty; an_reserved := rs; an_value := inl s |}
  else let* r := pint in pret {| an_name := n; an_ty := ty; an_reserved := rs; an_value := inr r |}.
Definition pcmodule : P cmodule :=
  let* idx := pint in let* ver := pint in let* l := plist pstr in let* sm := plist pkv in let* ob := plist pannot in
  pret {| cm_index := idx; cm_version := ver; cm_list := l; cm_simple := sm; cm_objects := ob |}.
Definition pcrashpad : P mcrashpad :=
  let* ver := pint in let* rep := pints 11 in let* cl := pints 11 in let* sm := plist pkv in let* ms := plist pcmodule in
  pret {| cp_version := ver; cp_report := rep; cp_client := cl; cp_simple := sm; cp_modules := ms |}.
Definition pbootargs : P mbootargs :=
  let* ty := pint in let* a := poptstr in pret {| ba_type := ty; ba_args := a |}.
(* tokens: kind (2 bootargs | 3 crashpad), endian, offset, the model -> the section's bytes *)
Definition run_encode_stream (toks : list Z) : option (list Z) :=
  match toks with
  | kind :: en :: off :: r =>
      let e := if en =? 0 then LE else BE in
      if kind =? 2 then match pbootargs r with Some (x, _) => Some (snd (enc_bootargs e off x)) | None => None end
      else if kind =? 3 then match pcrashpad r with Some (x, _) => Some (snd (enc_crashpad e off x)) | None => None end
      else None
  | _ => None
  end.

Definition run_observe (bytes : list Z) : option (list (Z * list (list Z))) :=
  match decode_dump bytes with
  | None => None
  | Some v =>
      let os := os_of_platform (match v_sysinfo v with SOk s => Some (si_platform s) | _ => None end) in
      let e := v_endian v in
      let mem := unified v in
      Some [ (2, [[match e with LE => 0 | BE => 1 end; v_version v; v_checksum v; v_time v; v_flags v]]);
             sec (v_sysinfo v) (fun s => [[si_arch s; si_level s; si_revision s; si_nproc s; si_ptype s; si_major s;
                                           si_minor s; si_build s; si_platform s; si_suite s; si_reserved2 s]
                                          ++ si_cpu s ++ ostr (si_csd s)]);
             sec (v_threads v) (map (thread_obs e (v_sysinfo v) mem));
             sec (v_modules v) (map (module_obs e os));
             sec (v_memory v) (map region_obs);
             sec (v_memory v) (fun l => map (query_obs l) (region_queries l));
             sec (v_memory64 v) (map region_obs);
             sec (v_memory64 v) (fun l => map (query_obs l) (region_queries l));
             sec (v_exception v) (fun x => [[ex_thread_id x; ex_align x; ex_code x; ex_flags x; ex_record x; ex_address x;
                                             ex_nparams x; ex_align2 x] ++ ex_info x ++ context_obs e (v_sysinfo v) (ex_ctx x)]);
             sec (v_tnames v) (fun l => map (fun n => fst n :: str (snd n)) (names_map l));
             sec (v_unloaded v) (map (fun u => [um_base u; um_size u; um_checksum u; um_time u] ++ str (um_name u)
                                               ++ str (time_size_id (um_time u) (um_size u))));
             sec (v_meminfo v) (fun l => l);
             sec (v_misc v) (fun m => [fst m :: snd m]);
             (* the raw struct is private in the reader: only the two validity-gated ids are observable *)
             sec (v_breakpad v) (fun l => [match l with
                                           | [val; d; r] => [if Z.testbit val 0 then d else -1; if Z.testbit val 1 then r else -1]
                                           | _ => []
                                           end]);
             sec (v_assertion v) (fun l => [l ++ zstr16 (firstn 128 l) ++ zstr16 (firstn 128 (skipn 128 l))
                                              ++ zstr16 (firstn 128 (skipn 256 l))]);
             sec (v_thread_info v) (fun l => l);
             sec (v_lx_cpuinfo v) (fun b => str b :: kv_items 58 b);
             sec (v_lx_status v) (fun b => str b :: kv_items 58 b);
             sec (v_lx_lsb v) (fun b => str b :: kv_items 61 b);
             sec (v_lx_environ v) (fun b => str b :: kv_items 61 b);
             sec (v_lx_maps v) (fun b => str b :: maps_obs b);
             sec (v_lx_limits v) (fun b => [str b]);
             sec (v_handles v) (fun x => map (fun h => [if fst x then 2 else 1; h_handle h; h_attr h; h_access h; h_hcount h; h_pcount h]
                                                       ++ ostr (h_type h) ++ ostr (h_object h)) (snd x));
             (2, dir_obs bytes (the_dir bytes));
             (2, unk_obs (the_dir bytes));
             sec (get_stream dec_softerr e bytes (the_dir bytes) ST_MozSoftErrors) (fun b => [str b]);
             sec (get_stream dec_bootargs e bytes (the_dir bytes) ST_MozMacosBootargsStream) (fun x => [ba_type x :: ostr (ba_args x)]);
             sec (get_stream dec_crashpad e bytes (the_dir bytes) ST_CrashpadInfoStream) crashpad_obs;
             (* the object-information chain of every handle: count, then (info_type, size_of_info) in chain order *)
             sec (get_stream dec_handle_chains e bytes (the_dir bytes) ST_HandleDataStream)
                 (map (fun c => zlen c :: flat_map (fun p => [fst p; snd p]) c));
             (2, unimp_obs (the_dir bytes));
             sec (get_stream dec_maccrash e bytes (the_dir bytes) ST_MozMacosCrashInfoStream) (map mcrec_obs) ]
  end.
