(* C02/Properties.v — property theorems only.  Each is closed by [exact lemma] and followed by
   [Print Assumptions]. *)
From RM Require Import C08.Model.
From RM Require Import C02.Model C02.ModelR5 C02.ModelR6 C02.Documented C02.Proofs1 C02.Proofs2 C02.Proofs3 C02.Proofs4 C02.Proofs5 C02.Proofs6 C02.Proofs7 C02.Proofs8 C02.Proofs9 C02.Proofs10 C02.Proofs11 C02.Proofs12 C02.Proofs13.
Open Scope Z_scope.

(* The layouts regenerated from minidump-common/src/format.rs on this run are the documented ones:
   same fields, same order, same types; same stream-type numbers, signatures, platform ids. *)
Theorem c02_layouts_documented :
  N_MINIDUMP_HEADER = DN_MINIDUMP_HEADER /\
  N_MINIDUMP_LOCATION_DESCRIPTOR = DN_MINIDUMP_LOCATION_DESCRIPTOR /\
  N_MINIDUMP_MEMORY_DESCRIPTOR = DN_MINIDUMP_MEMORY_DESCRIPTOR /\
  N_MINIDUMP_MEMORY_DESCRIPTOR64 = DN_MINIDUMP_MEMORY_DESCRIPTOR64 /\
  N_MINIDUMP_DIRECTORY = DN_MINIDUMP_DIRECTORY /\
  N_MINIDUMP_THREAD_NAME = DN_MINIDUMP_THREAD_NAME /\
  N_VS_FIXEDFILEINFO = DN_VS_FIXEDFILEINFO /\
  N_MINIDUMP_MODULE = DN_MINIDUMP_MODULE /\
  N_MINIDUMP_UNLOADED_MODULE = DN_MINIDUMP_UNLOADED_MODULE /\
  N_CV_INFO_PDB20 = DN_CV_INFO_PDB20 /\
  N_GUID = DN_GUID /\
  N_CV_INFO_PDB70 = DN_CV_INFO_PDB70 /\
  N_CV_INFO_ELF = DN_CV_INFO_ELF /\
  N_IMAGE_DEBUG_MISC = DN_IMAGE_DEBUG_MISC /\
  N_MINIDUMP_THREAD = DN_MINIDUMP_THREAD /\
  N_MINIDUMP_EXCEPTION = DN_MINIDUMP_EXCEPTION /\
  N_MINIDUMP_EXCEPTION_STREAM = DN_MINIDUMP_EXCEPTION_STREAM /\
  N_XMM_SAVE_AREA32 = DN_XMM_SAVE_AREA32 /\
  N_SSE_REGISTERS = DN_SSE_REGISTERS /\
  N_CONTEXT_AMD64 = DN_CONTEXT_AMD64 /\
  N_FLOATING_SAVE_AREA_ARM = DN_FLOATING_SAVE_AREA_ARM /\
  N_CONTEXT_ARM = DN_CONTEXT_ARM /\
  N_CONTEXT_ARM64_OLD = DN_CONTEXT_ARM64_OLD /\
  N_CONTEXT_ARM64 = DN_CONTEXT_ARM64 /\
  N_FLOATING_SAVE_AREA_MIPS = DN_FLOATING_SAVE_AREA_MIPS /\
  N_CONTEXT_MIPS = DN_CONTEXT_MIPS /\
  N_FLOATING_SAVE_AREA_PPC = DN_FLOATING_SAVE_AREA_PPC /\
  N_VECTOR_SAVE_AREA_PPC = DN_VECTOR_SAVE_AREA_PPC /\
  N_CONTEXT_PPC = DN_CONTEXT_PPC /\
  N_CONTEXT_PPC64 = DN_CONTEXT_PPC64 /\
  N_FLOATING_SAVE_AREA_SPARC = DN_FLOATING_SAVE_AREA_SPARC /\
  N_CONTEXT_SPARC = DN_CONTEXT_SPARC /\
  N_FLOATING_SAVE_AREA_X86 = DN_FLOATING_SAVE_AREA_X86 /\
  N_CONTEXT_X86 = DN_CONTEXT_X86 /\
  N_CPU_INFORMATION = DN_CPU_INFORMATION /\
  N_X86CpuInfo = DN_X86CpuInfo /\
  N_ARMCpuInfo = DN_ARMCpuInfo /\
  N_OtherCpuInfo = DN_OtherCpuInfo /\
  N_MINIDUMP_SYSTEM_INFO = DN_MINIDUMP_SYSTEM_INFO /\
  N_SYSTEMTIME = DN_SYSTEMTIME /\
  N_TIME_ZONE_INFORMATION = DN_TIME_ZONE_INFORMATION /\
  N_XSTATE_FEATURE = DN_XSTATE_FEATURE /\
  N_XSTATE_CONFIG_FEATURE_MSC_INFO = DN_XSTATE_CONFIG_FEATURE_MSC_INFO /\
  N_MINIDUMP_MEMORY_INFO_LIST = DN_MINIDUMP_MEMORY_INFO_LIST /\
  N_MINIDUMP_MEMORY_INFO = DN_MINIDUMP_MEMORY_INFO /\
  N_MINIDUMP_BREAKPAD_INFO = DN_MINIDUMP_BREAKPAD_INFO /\
  N_MINIDUMP_ASSERTION_INFO = DN_MINIDUMP_ASSERTION_INFO /\
  N_LINK_MAP_32 = DN_LINK_MAP_32 /\
  N_DSO_DEBUG_32 = DN_DSO_DEBUG_32 /\
  N_LINK_MAP_64 = DN_LINK_MAP_64 /\
  N_DSO_DEBUG_64 = DN_DSO_DEBUG_64 /\
  N_MINIDUMP_SIMPLE_STRING_DICTIONARY_ENTRY = DN_MINIDUMP_SIMPLE_STRING_DICTIONARY_ENTRY /\
  N_MINIDUMP_SIMPLE_STRING_DICTIONARY = DN_MINIDUMP_SIMPLE_STRING_DICTIONARY /\
  N_MINIDUMP_RVA_LIST = DN_MINIDUMP_RVA_LIST /\
  N_MINIDUMP_ANNOTATION = DN_MINIDUMP_ANNOTATION /\
  N_MINIDUMP_MODULE_CRASHPAD_INFO = DN_MINIDUMP_MODULE_CRASHPAD_INFO /\
  N_MINIDUMP_MODULE_CRASHPAD_INFO_LINK = DN_MINIDUMP_MODULE_CRASHPAD_INFO_LINK /\
  N_MINIDUMP_MODULE_CRASHPAD_INFO_LIST = DN_MINIDUMP_MODULE_CRASHPAD_INFO_LIST /\
  N_MINIDUMP_CRASHPAD_INFO = DN_MINIDUMP_CRASHPAD_INFO /\
  N_MINIDUMP_MAC_CRASH_INFO = DN_MINIDUMP_MAC_CRASH_INFO /\
  N_MINIDUMP_MAC_BOOTARGS = DN_MINIDUMP_MAC_BOOTARGS /\
  N_MINIDUMP_HANDLE_OBJECT_INFORMATION = DN_MINIDUMP_HANDLE_OBJECT_INFORMATION /\
  N_MINIDUMP_HANDLE_DESCRIPTOR = DN_MINIDUMP_HANDLE_DESCRIPTOR /\
  N_MINIDUMP_HANDLE_DESCRIPTOR_2 = DN_MINIDUMP_HANDLE_DESCRIPTOR_2 /\
  N_MINIDUMP_HANDLE_DATA_STREAM = DN_MINIDUMP_HANDLE_DATA_STREAM /\
  N_MINIDUMP_THREAD_INFO = DN_MINIDUMP_THREAD_INFO /\
  N_MINIDUMP_MISC_INFO = DN_MINIDUMP_MISC_INFO /\
  N_MINIDUMP_MISC_INFO_2 = DN_MINIDUMP_MISC_INFO_2 /\
  N_MINIDUMP_MISC_INFO_3 = DN_MINIDUMP_MISC_INFO_3 /\
  N_MINIDUMP_MISC_INFO_4 = DN_MINIDUMP_MISC_INFO_4 /\
  N_MINIDUMP_MISC_INFO_5 = DN_MINIDUMP_MISC_INFO_5 /\
  N_MINIDUMP_MAC_CRASH_INFO_RECORD = DN_MINIDUMP_MAC_CRASH_INFO_RECORD /\
  N_MINIDUMP_MAC_CRASH_INFO_RECORD_4 = DN_MINIDUMP_MAC_CRASH_INFO_RECORD_4 /\
  N_MINIDUMP_MAC_CRASH_INFO_RECORD_5 = DN_MINIDUMP_MAC_CRASH_INFO_RECORD_5 /\
  ALL_LAYOUTS = D_ALL_LAYOUTS /\
  MINIDUMP_SIGNATURE = DOC_MINIDUMP_SIGNATURE /\
  MINIDUMP_VERSION = DOC_MINIDUMP_VERSION /\
  VS_FFI_SIGNATURE = DOC_VS_FFI_SIGNATURE /\
  VS_FFI_STRUCVERSION = DOC_VS_FFI_STRUCVERSION /\
  ST_UnusedStream = DOC_ST_UnusedStream /\
  ST_ThreadListStream = DOC_ST_ThreadListStream /\
  ST_ModuleListStream = DOC_ST_ModuleListStream /\
  ST_MemoryListStream = DOC_ST_MemoryListStream /\
  ST_ExceptionStream = DOC_ST_ExceptionStream /\
  ST_SystemInfoStream = DOC_ST_SystemInfoStream /\
  ST_Memory64ListStream = DOC_ST_Memory64ListStream /\
  ST_UnloadedModuleListStream = DOC_ST_UnloadedModuleListStream /\
  ST_MiscInfoStream = DOC_ST_MiscInfoStream /\
  ST_MemoryInfoListStream = DOC_ST_MemoryInfoListStream /\
  ST_ThreadNamesStream = DOC_ST_ThreadNamesStream /\
  ST_HandleDataStream = DOC_ST_HandleDataStream /\
  ST_ThreadInfoListStream = DOC_ST_ThreadInfoListStream /\
  ST_BreakpadInfoStream = DOC_ST_BreakpadInfoStream /\
  ST_AssertionInfoStream = DOC_ST_AssertionInfoStream /\
  ST_LinuxCpuInfo = DOC_ST_LinuxCpuInfo /\
  ST_LinuxProcStatus = DOC_ST_LinuxProcStatus /\
  ST_LinuxLsbRelease = DOC_ST_LinuxLsbRelease /\
  ST_LinuxCmdLine = DOC_ST_LinuxCmdLine /\
  ST_LinuxEnviron = DOC_ST_LinuxEnviron /\
  ST_LinuxAuxv = DOC_ST_LinuxAuxv /\
  ST_LinuxMaps = DOC_ST_LinuxMaps /\
  ST_LinuxDsoDebug = DOC_ST_LinuxDsoDebug /\
  ST_CrashpadInfoStream = DOC_ST_CrashpadInfoStream /\
  ST_MozMacosCrashInfoStream = DOC_ST_MozMacosCrashInfoStream /\
  ST_MozMacosBootargsStream = DOC_ST_MozMacosBootargsStream /\
  ST_MozLinuxLimits = DOC_ST_MozLinuxLimits /\
  ST_MozSoftErrors = DOC_ST_MozSoftErrors /\
  CF_CONTEXT_X86 = DOC_CF_CONTEXT_X86 /\
  CF_CONTEXT_AMD64 = DOC_CF_CONTEXT_AMD64 /\
  CF_CONTEXT_ARM = DOC_CF_CONTEXT_ARM /\
  CF_CONTEXT_ARM64 = DOC_CF_CONTEXT_ARM64 /\
  CF_CONTEXT_ARM64_OLD = DOC_CF_CONTEXT_ARM64_OLD /\
  CF_CONTEXT_MIPS = DOC_CF_CONTEXT_MIPS /\
  CF_CONTEXT_PPC = DOC_CF_CONTEXT_PPC /\
  CF_CONTEXT_PPC64 = DOC_CF_CONTEXT_PPC64 /\
  CF_CONTEXT_SPARC = DOC_CF_CONTEXT_SPARC /\
  CF_ALL_BITS = DOC_CF_ALL_BITS /\
  CONTEXT_CPU_MASK = DOC_CONTEXT_CPU_MASK /\
  PROCESSOR_ARCHITECTURE_INTEL = DOC_PROCESSOR_ARCHITECTURE_INTEL /\
  PROCESSOR_ARCHITECTURE_ARM = DOC_PROCESSOR_ARCHITECTURE_ARM /\
  PROCESSOR_ARCHITECTURE_AMD64 = DOC_PROCESSOR_ARCHITECTURE_AMD64 /\
  PROCESSOR_ARCHITECTURE_IA32_ON_WIN64 = DOC_PROCESSOR_ARCHITECTURE_IA32_ON_WIN64 /\
  PROCESSOR_ARCHITECTURE_ARM64 = DOC_PROCESSOR_ARCHITECTURE_ARM64 /\
  PROCESSOR_ARCHITECTURE_MIPS = DOC_PROCESSOR_ARCHITECTURE_MIPS /\
  PROCESSOR_ARCHITECTURE_PPC = DOC_PROCESSOR_ARCHITECTURE_PPC /\
  PROCESSOR_ARCHITECTURE_SPARC = DOC_PROCESSOR_ARCHITECTURE_SPARC /\
  PROCESSOR_ARCHITECTURE_PPC64 = DOC_PROCESSOR_ARCHITECTURE_PPC64 /\
  PROCESSOR_ARCHITECTURE_ARM64_OLD = DOC_PROCESSOR_ARCHITECTURE_ARM64_OLD /\
  PROCESSOR_ARCHITECTURE_MIPS64 = DOC_PROCESSOR_ARCHITECTURE_MIPS64 /\
  CV_SIG_Pdb20 = DOC_CV_SIG_Pdb20 /\
  CV_SIG_Pdb70 = DOC_CV_SIG_Pdb70 /\
  CV_SIG_Elf = DOC_CV_SIG_Elf /\
  PLATFORM_VER_PLATFORM_WIN32_WINDOWS = DOC_PLATFORM_VER_PLATFORM_WIN32_WINDOWS /\
  PLATFORM_VER_PLATFORM_WIN32_NT = DOC_PLATFORM_VER_PLATFORM_WIN32_NT /\
  PLATFORM_MacOs = DOC_PLATFORM_MacOs /\
  PLATFORM_Ios = DOC_PLATFORM_Ios /\
  PLATFORM_Linux = DOC_PLATFORM_Linux /\
  PLATFORM_Solaris = DOC_PLATFORM_Solaris /\
  PLATFORM_Android = DOC_PLATFORM_Android /\
  PLATFORM_Ps3 = DOC_PLATFORM_Ps3 /\
  PLATFORM_NaCl = DOC_PLATFORM_NaCl.
Proof. exact layouts_documented. Qed.
Print Assumptions c02_layouts_documented.

(* Generic layout codec: for EVERY layout (in particular each one above), every well-typed value tree,
   both byte orders, whatever follows in the buffer: decoding the encoding returns the value and the rest. *)
Theorem c02_struct_roundtrip : forall e L v rest,
  wt L v = true -> dec e L (enc e L v ++ rest) = Some (v, rest) /\ zlen (enc e L v) = lsize L.
Proof. exact struct_roundtrip. Qed.
Print Assumptions c02_struct_roundtrip.

(* UTF-16 strings (code units in range, well-paired surrogates, byte length < 2^32), at any offset *)
Theorem c02_string_roundtrip : forall e u pre post,
  wf_string u = true -> read_string e (pre ++ enc_string e u ++ post) (zlen pre) = Some u.
Proof. exact read_string_enc. Qed.
Print Assumptions c02_string_roundtrip.

(* CodeView records: PDB70, PDB20, ELF build id, unknown blobs *)
Theorem c02_codeview_roundtrip : forall e c,
  wf_cv e c = true -> c <> CvNone -> dec_cv e (enc_cv e c) = Some c.
Proof. exact dec_cv_enc. Qed.
Print Assumptions c02_codeview_roundtrip.

(* List streams: u32 count, entries, out-of-line data; 0..n items; with and without the 4 padding
   bytes; for every item codec meeting the item specification [icodec_ok] ... *)
Theorem c02_list_roundtrip : forall (A : Type) (c : icodec A) e (wfA : A -> bool),
  icodec_ok c e wfA -> forall pad, sec_ok (enc_list c e pad) (dec_list c e) (forallb wfA).
Proof. exact (@list_roundtrip). Qed.
Print Assumptions c02_list_roundtrip.
(* ... which the six item kinds of the dump model do meet *)
Theorem c02_item_codecs_ok : forall e,
  icodec_ok thread_codec e wf_thread /\ icodec_ok (module_codec) e (wf_module e) /\ icodec_ok region_codec e wf_region /\
  icodec_ok tname_codec e wf_tname /\ icodec_ok unloaded_codec e wf_unloaded /\ icodec_ok meminfo_codec e wf_meminfo.
Proof. exact item_codecs_ok. Qed.
Print Assumptions c02_item_codecs_ok.
(* the list header accepts exactly 0 or 4 bytes beyond count*size *)
Theorem c02_list_header_strict : forall e esize bs n r, dec_list_hdr e esize bs = Some (n, r) ->
  zlen bs = 4 + n * esize \/ zlen bs = 8 + n * esize.
Proof. exact list_hdr_strict. Qed.
Print Assumptions c02_list_header_strict.

(* the remaining stream kinds, each at any offset of any file below 4 GiB *)
Theorem c02_stream_roundtrips : forall e,
  sec_ok (enc_mem64 e) (dec_mem64 e) (forallb wf_region64) /\
  sec_ok (enc_exception e) (dec_exception e) wf_exception /\
  sec_ok (enc_sysinfo e) (dec_sysinfo e) wf_sysinfo /\
  sec_ok (enc_misc e) (dec_misc e) wf_misc /\
  sec_ok (enc_exlist unloaded_codec e UNLOADED_HDR 4) (dec_exlist unloaded_codec e false) (forallb wf_unloaded) /\
  sec_ok (enc_exlist meminfo_codec e MEMINFO_HDR 8) (dec_exlist meminfo_codec e true) (forallb wf_meminfo) /\
  (forall L, sec_ok (enc_flat L e) (dec_flat L e) (wf_flat L)) /\
  (forall L, 1 <= lsize L < 4294967296 -> icodec_ok (flat_codec L) e (wf_flat L)) /\
  sec_ok (enc_raw e) (dec_raw e) (fun _ => true) /\
  sec_ok (enc_handles e) (dec_handles e) wf_handles.
Proof. exact stream_roundtrips. Qed.
Print Assumptions c02_stream_roundtrips.

(* The whole dump, all twenty modelled streams at once (system info, threads with stacks and contexts,
   modules with CodeView records, MemoryList, Memory64List, exception, thread names, unloaded modules,
   memory info, misc info, Breakpad info, assertion info, thread info list, and - as byte-exact raw
   streams - Linux cpuinfo / proc status / lsb-release / environ / maps / limits; the handle data stream with
   descriptors of either size and optional type/object names), any subset present, any number of items, either byte order, arbitrary
   leading directory entries: reading the serialized model returns exactly the model. *)
Theorem c02_dump_roundtrip : forall e m,
  wf_model e m = true -> decode_dump (encode_dump e m) = Some (view_of e m).
Proof. exact dump_roundtrip. Qed.
Print Assumptions c02_dump_roundtrip.

(* the same model written little- or big-endian reads back the same (only the detected byte order differs) *)
Theorem c02_endian_independent : forall m, wf_model LE m = true -> wf_model BE m = true ->
  option_map (set_endian LE) (decode_dump (encode_dump LE m)) =
  option_map (set_endian LE) (decode_dump (encode_dump BE m)) /\
  option_map v_endian (decode_dump (encode_dump LE m)) = Some LE /\
  option_map v_endian (decode_dump (encode_dump BE m)) = Some BE.
Proof. exact endian_independent. Qed.
Print Assumptions c02_endian_independent.

(* the last of several directory entries of one type is the one served *)
Theorem c02_last_duplicate_wins : forall l1 ty loc l3, ~ In ty (map fst l3) ->
  dir_lookup (l1 ++ (ty, loc) :: l3) ty = Some loc.
Proof. exact last_entry_wins. Qed.
Print Assumptions c02_last_duplicate_wins.
Theorem c02_leading_duplicates_ignored : forall e m x,
  wf_model e (set_extra m x) = true -> wf_model e (set_extra m []) = true ->
  decode_dump (encode_dump e (set_extra m x)) = decode_dump (encode_dump e (set_extra m [])).
Proof. exact leading_duplicates_ignored. Qed.
Print Assumptions c02_leading_duplicates_ignored.

(* memory: a region that intersects no other region is found for each of its addresses, and the
   byte read there is the region's byte (memory_at_address = the C08 range table) *)
Theorem c02_memory_bytes : forall rs1 r rs2 rg x,
  Forall (fun q => 0 <= mr_base q) (rs1 ++ r :: rs2) ->
  region_range r = Some rg ->
  (forall q rq, In q (rs1 ++ rs2) -> region_range q = Some rq -> intersects rg rq = false) ->
  contains rg x = true ->
  memory_at (rs1 ++ r :: rs2) x = Some r /\
  exists b, memory_byte (rs1 ++ r :: rs2) x = Some b /\ nth_error (mr_bytes r) (Z.to_nat (x - mr_base r)) = Some b.
Proof. exact memory_bytes. Qed.
Print Assumptions c02_memory_bytes.


(* every struct of format.rs the translator can parse (74; see the comment at the end of Gen/Layouts.v
   for the 4 it cannot) round-trips through the generic codec in both byte orders *)
Theorem c02_all_layouts_roundtrip :
  Forall (fun p => forall e v rest, wt (snd p) v = true ->
                   dec e (snd p) (enc e (snd p) v ++ rest) = Some (v, rest) /\ zlen (enc e (snd p) v) = lsize (snd p)) ALL_LAYOUTS.
Proof. exact all_layouts_roundtrip. Qed.
Print Assumptions c02_all_layouts_roundtrip.

(* CPU contexts: bytes -> registers.  For each architecture the reader supports, the layout regenerated from
   format.rs; a well-typed register file written in either byte order reads back exactly when its
   context_flags carry the architecture's constant (ContextFlagsCpu::from_flags), and is refused otherwise;
   a blob shorter than the struct is refused *)
Theorem c02_context_roundtrip : forall e arch L cf v rest,
  ctx_spec arch = Some (L, cf) -> wt L v = true ->
  read_context e arch (enc e L v ++ rest) = if flags_ok cf (ctx_flags arch v) then Some v else None.
Proof. exact context_roundtrip. Qed.
Print Assumptions c02_context_roundtrip.
Theorem c02_context_layout_by_architecture :
  ctx_spec PROCESSOR_ARCHITECTURE_INTEL = Some (L_CONTEXT_X86, CF_CONTEXT_X86) /\
  ctx_spec PROCESSOR_ARCHITECTURE_IA32_ON_WIN64 = Some (L_CONTEXT_X86, CF_CONTEXT_X86) /\
  ctx_spec PROCESSOR_ARCHITECTURE_AMD64 = Some (L_CONTEXT_AMD64, CF_CONTEXT_AMD64) /\
  ctx_spec PROCESSOR_ARCHITECTURE_ARM = Some (L_CONTEXT_ARM, CF_CONTEXT_ARM) /\
  ctx_spec PROCESSOR_ARCHITECTURE_ARM64 = Some (L_CONTEXT_ARM64, CF_CONTEXT_ARM64) /\
  ctx_spec PROCESSOR_ARCHITECTURE_ARM64_OLD = Some (L_CONTEXT_ARM64_OLD, CF_CONTEXT_ARM64_OLD) /\
  ctx_spec PROCESSOR_ARCHITECTURE_MIPS = Some (L_CONTEXT_MIPS, CF_CONTEXT_MIPS) /\
  ctx_spec PROCESSOR_ARCHITECTURE_PPC = Some (L_CONTEXT_PPC, CF_CONTEXT_PPC) /\
  ctx_spec PROCESSOR_ARCHITECTURE_PPC64 = Some (L_CONTEXT_PPC64, CF_CONTEXT_PPC64) /\
  ctx_spec PROCESSOR_ARCHITECTURE_SPARC = Some (L_CONTEXT_SPARC, CF_CONTEXT_SPARC) /\
  ctx_spec PROCESSOR_ARCHITECTURE_MIPS64 = None.
Proof. exact ctx_spec_table. Qed.
Print Assumptions c02_context_layout_by_architecture.
Theorem c02_context_short : forall e arch L cf bytes,
  ctx_spec arch = Some (L, cf) -> zlen bytes < lsize L -> read_context e arch bytes = None.
Proof. exact context_short. Qed.
Print Assumptions c02_context_short.

(* identifiers: what the reader derives for the modules of a serialized model are the documented
   functions of the model's own CodeView record / VS_FIXEDFILEINFO / OS ... *)
Theorem c02_identifiers_derivation : forall e m mods, wf_model e m = true -> m_modules m = Some mods ->
  option_map view_module_ids (decode_dump (encode_dump e m)) =
  Some (Some (map (module_ids e (os_of_platform (option_map si_platform (m_sysinfo m)))) mods)).
Proof. exact identifiers_derivation. Qed.
Print Assumptions c02_identifiers_derivation.
(* ... and these functions are: PDB70 -> GUID + age, none for the nil GUID whatever the age; PDB20 ->
   signature + age; ELF -> none for an empty or all-zero build id, in a big-endian dump the build id itself
   zero-padded / cut to 16 bytes; code identifiers are lower-case hexadecimal *)
Theorem c02_debug_id_spec :
  (forall e d1 d2 d3 d4 age f, read_debug_id e (CvPdb70 d1 d2 d3 d4 age f) =
     if all_zero (uuid_of_fields d1 d2 d3 d4) then DbgNone else DbgUuid (uuid_of_fields d1 d2 d3 d4) age) /\
  (forall e age f, read_debug_id e (CvPdb70 0 0 0 [0; 0; 0; 0; 0; 0; 0; 0] age f) = DbgNone) /\
  (forall e off s age f, read_debug_id e (CvPdb20 off s age f) = DbgPdb20 s age) /\
  (forall e bid, all_zero bid = true -> read_debug_id e (CvElf bid) = DbgNone) /\
  (forall bid, all_zero bid = false -> all_in 1 bid = true ->
     read_debug_id BE (CvElf bid) = DbgUuid (firstn 16 (bid ++ repeat 0 16)) 0) /\
  (forall bid g0 g1 g2 g3 g4 g5 g6 g7 tl, all_zero bid = false -> all_in 1 bid = true ->
     firstn 16 (bid ++ repeat 0 16) = g0 :: g1 :: g2 :: g3 :: g4 :: g5 :: g6 :: g7 :: tl ->
     read_debug_id LE (CvElf bid) = DbgUuid (g3 :: g2 :: g1 :: g0 :: g5 :: g4 :: g7 :: g6 :: tl) 0).
Proof. exact debug_id_spec. Qed.
Print Assumptions c02_debug_id_spec.
Theorem c02_code_id_lower_hex : forall os time size c id, 0 <= size ->
  code_identifier os time size c = Some id -> forallb lower_hex id = true.
Proof. exact code_id_lower_hex. Qed.
Print Assumptions c02_code_id_lower_hex.

(* ---- non-vacuity: a model with nine streams, duplicate directory entries, a null-stack thread,
   PDB70 / ELF CodeView records, a region at the top of the address space, is well-formed in both
   byte orders and is returned by the reader *)
Definition ex_model : model :=
  {| m_version := 42899 + 65536 * 7; m_checksum := 5; m_time := 1262805309; m_flags := 18446744073709551615;
     m_extra_dir := [(ST_ThreadListStream, (12, 100)); (ST_ModuleListStream, (0, 0)); (1197932545, (3, 4))];
     m_pad_lists := true;
     m_sysinfo := Some {| si_arch := 9; si_level := 6; si_revision := 258; si_nproc := 4; si_ptype := 1; si_major := 10;
                          si_minor := 0; si_build := 19045; si_platform := 2; si_suite := 256; si_reserved2 := 0;
                          si_cpu := repeat 7 24; si_csd := Some [83; 80; 55357; 56832] |};
     m_threads := Some [ {| th_id := 1; th_suspend := 0; th_pclass := 32; th_prio := 0; th_teb := 8796092891136;
                            th_stack_base := 4096; th_stack := Some [1; 2; 3; 4; 5; 6; 7; 8]; th_ctx := Some (repeat 0 16) |};
                         {| th_id := 4294967295; th_suspend := 1; th_pclass := 0; th_prio := 0; th_teb := 0;
                            th_stack_base := 18446744073709551600; th_stack := None; th_ctx := Some [] |} ];
     m_modules := Some [ {| md_base := 4194304; md_size := 65536; md_checksum := 1; md_time := 1262805309;
                            md_name := [97; 46; 101; 120; 101]; md_ver := [4277077181; 65536; 65538; 196612; 0; 0; 0; 0; 0; 0; 0; 0; 0];
                            md_cv := CvPdb70 2882400001 4660 22136 [1; 2; 3; 4; 5; 6; 7; 8] 2 [97; 46; 112; 100; 98; 0];
                            md_misc := (0, 0); md_res := [0; 0; 0; 0] |};
                         {| md_base := 18446744073709486080; md_size := 65535; md_checksum := 0; md_time := 0;
                            md_name := []; md_ver := repeat 0 13; md_cv := CvElf [222; 173; 190; 239; 1];
                            md_misc := (7, 9); md_res := [1; 2; 3; 4] |} ];
     m_memory := Some [ {| mr_base := 18446744073709551600; mr_bytes := repeat 170 16 |}; {| mr_base := 0; mr_bytes := [9] |} ];
     m_memory64 := None;
     m_exception := Some {| ex_thread_id := 1; ex_align := 0; ex_code := 3221225477; ex_flags := 0; ex_record := 0;
                            ex_address := 4198400; ex_nparams := 2; ex_align2 := 0; ex_info := 0 :: 4096 :: repeat 0 13;
                            ex_ctx := Some (repeat 1 16) |};
     m_tnames := Some [(1, [109; 97; 105; 110]); (1, [])];
     m_unloaded := Some [ {| um_base := 8192; um_size := 4096; um_checksum := 3; um_time := 4; um_name := [120] |} ];
     m_meminfo := Some [[4096; 4096; 4; 0; 8192; 4096; 4; 131072; 0]; [18446744073709547520; 0; 1; 0; 4096; 65536; 1; 0; 0]];
     m_misc := Some (1, [24; 1; 4242; 0; 0; 0]);
     m_breakpad := Some [3; 1; 4294967295];
     m_assertion := None;
     m_thread_info := Some [[1; 0; 0; 259; 132223104000000000; 0; 5; 7; 4198400; 15]];
     m_lx_cpuinfo := Some [112; 58; 48; 10]; m_lx_status := None; m_lx_lsb := Some []; m_lx_environ := None;
     m_lx_maps := Some [48; 45; 49; 32; 114; 10]; m_lx_limits := None;
     m_handles := Some (true, [ {| h_handle := 4; h_type := Some [70; 105; 108; 101]; h_object := None; h_attr := 0;
                                   h_access := 1179785; h_hcount := 2; h_pcount := 65535 |};
                                {| h_handle := 18446744073709551615; h_type := None; h_object := Some [19968]; h_attr := 1;
                                   h_access := 0; h_hcount := 0; h_pcount := 0 |} ]) |}.

Example c02_nonvacuous_model :
  wf_model LE ex_model = true /\ wf_model BE ex_model = true /\
  decode_dump (encode_dump BE ex_model) = Some (view_of BE ex_model) /\
  dir_lookup (m_extra_dir ex_model ++ [(ST_ThreadListStream, (1, 2))]) ST_ThreadListStream = Some (1, 2).
Proof. vm_compute. repeat split. Qed.

Example c02_nonvacuous_context :
  let v := vtuple [VInt (CF_CONTEXT_ARM + 2); varr (repeat 7 16); VInt 16; vtuple [VInt 1; varr (repeat 2 32); varr (repeat 3 8)]] in
  wt L_CONTEXT_ARM v = true /\ read_context BE PROCESSOR_ARCHITECTURE_ARM (enc BE L_CONTEXT_ARM v) = Some v /\
  read_context LE PROCESSOR_ARCHITECTURE_ARM (enc BE L_CONTEXT_ARM v) = None /\
  debug_id_string (read_debug_id LE (CvElf [1; 2; 3; 4; 5])) = Some [48;52;48;51;48;50;48;49;48;48;48;53;48;48;48;48;48;48;48;48;48;48;48;48;48;48;48;48;48;48;48;48;48].
Proof. vm_compute. repeat split. Qed.

Example c02_nonvacuous_memory :
  let rs := [ {| mr_base := 18446744073709551600; mr_bytes := repeat 170 15 |}; {| mr_base := 0; mr_bytes := [9; 8] |} ] in
  region_range (nth 0 rs {| mr_base := 0; mr_bytes := [] |}) = Some (18446744073709551600, 18446744073709551614) /\
  memory_byte rs 18446744073709551614 = Some 170 /\ memory_byte rs 1 = Some 8 /\ memory_byte rs 2 = None.
Proof. vm_compute. repeat split. Qed.


(* ------------------------------------------------------------------ round 4: the directory as a whole *)
(* the set of stream-type numbers that have a name (what MINIDUMP_STREAM_TYPE::from_u32 accepts), regenerated from
   format.rs on this run, is the documented one *)
Theorem c02_stream_types_documented : ST_ALL_NAMED = D_ST_ALL_NAMED /\ ST_LastReservedStream = DOC_ST_LastReservedStream.
Proof. exact stream_types_documented. Qed.
Print Assumptions c02_stream_types_documented.

(* THE LAST ENTRY OF A TYPE IS SERVED, for EVERY stream-type number (named, named-but-unsupported, vendor, unknown):
   in any directory, for any file contents, the map Minidump::read builds holds for that type the index and the location
   of the last entry of the type, all_streams() lists exactly that entry, and get_raw_stream(type) is
   location_slice of that location (an error when it does not lie within the file) *)
Theorem c02_last_entry_served : forall all l1 ty loc l3, ~ In ty (map fst l3) ->
  dmap_get (served_dir (l1 ++ (ty, loc) :: l3)) ty = Some (zlen l1, loc) /\
  In (ty, (zlen l1, loc)) (served_dir (l1 ++ (ty, loc) :: l3)) /\
  raw_stream all (l1 ++ (ty, loc) :: l3) ty =
    match slice all (snd loc) (fst loc) with Some b => SOk b | None => SErr end.
Proof. exact last_entry_served. Qed.
Print Assumptions c02_last_entry_served.

(* all_streams(): one entry per type that occurs, in ascending order of the type, each the last of its type;
   a type that does not occur is StreamNotFound *)
Theorem c02_served_directory_is_a_map : forall all d,
  asc (served_dir d) /\
  (forall ty, In ty (map fst (served_dir d)) <-> In ty (map fst d)) /\
  (forall ty v, In (ty, v) (served_dir d) <-> last_entry 0 d ty = Some v) /\
  (forall ty, ~ In ty (map fst d) -> raw_stream all d ty = SMissing).
Proof. exact served_dir_map. Qed.
Print Assumptions c02_served_directory_is_a_map.

(* unknown_streams(): exactly the served entries whose type has no name *)
Theorem c02_unknown_streams : forall d ty v,
  In (ty, v) (unknown_streams d) <-> last_entry 0 d ty = Some v /\ is_named ty = false.
Proof. exact unknown_streams_spec. Qed.
Print Assumptions c02_unknown_streams.

(* the typed readers (get_stream) look the type up in the same map *)
Theorem c02_typed_and_raw_agree : forall d ty, option_map snd (dmap_get (served_dir d) ty) = dir_lookup d ty.
Proof. exact served_lookup. Qed.
Print Assumptions c02_typed_and_raw_agree.

(* the directory of a serialized model — leading duplicates of any type included — reads back entry by entry *)
Theorem c02_directory_roundtrip : forall e m, wf_model e m = true ->
  read_directory (encode_dump e m) = Some (e, dir_of e m).
Proof. exact directory_roundtrip. Qed.
Print Assumptions c02_directory_roundtrip.

(* non-vacuity: three entries of the vendor type 0x4d7a0b0b interleaved with two of CommentStreamA and one of 0xffffffff *)
Example c02_nonvacuous_directory :
  let d := [(1299843851, (3, 40)); (10, (1, 50)); (1299843851, (5, 60)); (10, (2, 70)); (1299843851, (7, 80)); (4294967295, (0, 0))] in
  served_dir d = [(10, (3, (2, 70))); (1299843851, (4, (7, 80))); (4294967295, (5, (0, 0)))] /\
  unknown_streams d = [(1299843851, (4, (7, 80))); (4294967295, (5, (0, 0)))] /\
  raw_stream (repeat 7 86 ++ [1; 2]) d 1299843851 = SOk [7; 7; 7; 7; 7; 7; 1] /\
  raw_stream (repeat 7 86) d 1299843851 = SErr /\ raw_stream [] d 11 = SMissing /\
  stream_vendor 1299843851 = 2 /\ stream_vendor 4294967295 = 3 /\ stream_vendor 10 = 0 /\ is_named 10 = true.
Proof. vm_compute. repeat split. Qed.


(* ------------------------------------------------------------------ round 4: more streams *)
(* MozSoftErrors (a UTF-8 text), Mac boot args (struct + out-of-line UTF-16 string), and the Crashpad info stream: its
   simple annotations (dictionary of NUL-terminated UTF-8 strings), the module list, and per module the list annotations,
   simple annotations and annotation objects (string values, and raw type/value for every other annotation type).
   Each: serialized at any offset of any file below 4 GiB, in either byte order, whatever surrounds it, the stream's bytes
   are where the location descriptor says and the reader returns exactly the model (items in file order; keys may repeat) *)
Theorem c02_more_stream_roundtrips : forall e,
  sec_ok (enc_raw e) (dec_softerr e) valid_utf8 /\
  sec_ok (enc_bootargs e) (dec_bootargs e) wf_bootargs /\
  (forall bound, sec_ok (enc_counted dict_codec e) (counted_body dict_codec bound e) (forallb wf_kv)) /\
  (forall bound, sec_ok (enc_counted strlist_codec e) (counted_body strlist_codec bound e) (forallb wf_utf8)) /\
  (forall bound, sec_ok (enc_counted annot_codec e) (counted_body annot_codec bound e) (forallb wf_annot)) /\
  (forall bound, sec_ok (enc_cmodule_list e) (counted_body cmodule_codec bound e) (forallb wf_cmodule)) /\
  sec_ok (enc_crashpad e) (dec_crashpad e) wf_crashpad.
Proof. exact more_stream_roundtrips. Qed.
Print Assumptions c02_more_stream_roundtrips.

(* directory and stream together: in ANY file that holds a stream section at some offset, with ANY directory whose last
   entry of type ty points at it (whatever precedes it, duplicates of ty included), get_stream returns the model.
   With c02_more_stream_roundtrips this covers the streams above wherever a writer places them. *)
Theorem c02_stream_served : forall (A : Type) (enc : Z -> A -> section) (dec : endian -> list Z -> list Z -> option A)
    (wf : A -> bool) (a : A) e pre post l1 ty l3,
  sec_ok enc (dec e) wf -> wf a = true -> 0 < zlen pre -> zlen pre + zlen (snd (enc (zlen pre) a)) <= U32M ->
  ~ In ty (map fst l3) ->
  get_stream dec e (pre ++ snd (enc (zlen pre) a) ++ post)
             (l1 ++ (ty, (fst (enc (zlen pre) a), zlen pre)) :: l3) ty = SOk a.
Proof. exact stream_served. Qed.
Print Assumptions c02_stream_served.

Definition ex_crashpad : mcrashpad :=
  {| cp_version := 1; cp_report := [305419896; 4660; 22136; 1; 2; 3; 4; 5; 6; 7; 8]; cp_client := [0; 0; 0; 0; 0; 0; 0; 0; 0; 0; 255];
     cp_simple := [([97], [98; 99]); ([97], []); ([195; 169], [226; 152; 131])];
     cp_modules := [ {| cm_index := 3; cm_version := 1; cm_list := [[120]; []];
                        cm_simple := [([107], [118])];
                        cm_objects := [ {| an_name := [110]; an_ty := 1; an_reserved := 0; an_value := inl [240; 157; 132; 158] |};
                                        {| an_name := [111]; an_ty := 32768; an_reserved := 7; an_value := inr 4294967295 |};
                                        {| an_name := []; an_ty := 0; an_reserved := 0; an_value := inr 0 |} ] |};
                     {| cm_index := 0; cm_version := 0; cm_list := []; cm_simple := []; cm_objects := [] |} ] |}.
Example c02_nonvacuous_crashpad :
  wf_crashpad ex_crashpad = true /\
  (let pre := repeat 9 40 in
   let s := enc_crashpad BE (zlen pre) ex_crashpad in
   get_stream dec_crashpad BE (pre ++ snd s ++ [1; 2; 3]) [(ST_CrashpadInfoStream, (5, 6)); (ST_CrashpadInfoStream, (fst s, 40))] ST_CrashpadInfoStream
     = SOk ex_crashpad) /\
  dec_softerr LE [] [226; 152] = None /\ valid_utf8 [237; 160; 128] = false /\ valid_utf8 [244; 143; 191; 191] = true /\
  wf_bootargs {| ba_type := 1299841026; ba_args := Some [45; 118; 55357; 56832] |} = true.
Proof. vm_compute. repeat split. Qed.


(* ------------------------------------------------------------------ round 4: handle object-information chains *)
(* If the MINIDUMP_HANDLE_OBJECT_INFORMATION records of a chain are in the file and linked in chain order from the
   descriptor's object_info_rva (chain_at) — WHEREVER each record is stored: in chain order, last record first (every link
   pointing to a lower offset), scattered — the reader returns exactly the chain's (info_type, size_of_info) list.
   (The bound is the reader's own cap of len(file)/12 records.) *)
Theorem c02_handle_chain_any_placement : forall e all r infos, chain_at e all r infos ->
  Z.of_nat (length infos) <= zlen all / 12 -> read_chain e all r = infos.
Proof. exact handle_chain_any_placement. Qed.
Print Assumptions c02_handle_chain_any_placement.

Example c02_nonvacuous_chain :
  let infos := [(1, 8); (3, 0); (9, 4294967295)] in
  let pre := repeat 7 24 in
  chain_at BE (pre ++ enc_chain_bwd BE 24 infos) 48 infos /\            (* stored last record first: links 48 -> 36 -> 24 -> 0 *)
  read_chain BE (pre ++ enc_chain_bwd BE 24 infos) 48 = infos /\
  chain_at LE (pre ++ enc_chain_fwd LE 24 infos) 24 infos /\
  read_chain LE (pre ++ enc_chain_fwd LE 24 infos) 24 = infos /\
  read_chain LE (pre ++ enc_chain_fwd LE 24 [(1, 8); (10, 0)]) 24 = [(1, 8)].
Proof.
  cbv zeta. split; [|split; [|split; [|split]]]; try (vm_compute; reflexivity).
  - eapply chain_cons; [discriminate|reflexivity|reflexivity|].
    eapply chain_cons; [discriminate|reflexivity|reflexivity|].
    eapply chain_cons; [discriminate|reflexivity|reflexivity|]. apply chain_nil.
  - eapply chain_cons; [discriminate|reflexivity|reflexivity|].
    eapply chain_cons; [discriminate|reflexivity|reflexivity|].
    eapply chain_cons; [discriminate|reflexivity|reflexivity|]. apply chain_nil.
Qed.


(* ------------------------------------------------------------------ round 5: the reader's tables, regenerated from minidump.rs *)
(* coq/Gen/C02Reader.v is rewritten from minidump/src/minidump.rs on every run (translate/c02_reader.py): the STREAM_TYPE of
   every `impl MinidumpStream`, the UNIMPLEMENTED_STREAMS table, stream_vendor's limit / mask / arms, the padding arms of
   read_stream_list, the version table of MinidumpMacCrashInfo::read.

   Every u32 stream type is of exactly one kind: some typed reader serves it (and no two readers claim one type), or
   unimplemented_streams() lists it, or it has no name (unknown_streams()). *)
Theorem c02_stream_type_partition :
  NoDup (map snd RD_IMPLEMENTED) /\
  forall ty,
    (is_named ty = true <-> has_reader ty = true \/ is_unimplemented ty = true) /\
    (has_reader ty = true -> is_unimplemented ty = false).
Proof. exact stream_type_partition. Qed.
Print Assumptions c02_stream_type_partition.

(* unimplemented_streams(): exactly the served entries (the last of their type, with its index) whose type is in the table *)
Theorem c02_unimplemented_streams : forall d ty v,
  In (ty, v) (unimplemented_streams d) <-> last_entry 0 d ty = Some v /\ In ty RD_UNIMPLEMENTED.
Proof. exact unimplemented_streams_spec. Qed.
Print Assumptions c02_unimplemented_streams.

(* all_streams() = the entries a typed reader serves + unimplemented_streams() + unknown_streams(): nothing falls between *)
Theorem c02_served_classified : forall d p,
  In p (served_dir d) <->
  (In p (served_dir d) /\ has_reader (fst p) = true) \/ In p (unimplemented_streams d) \/ In p (unknown_streams d).
Proof. exact served_classified. Qed.
Print Assumptions c02_served_classified.

(* the model's stream_vendor and its 0-or-4 list padding rule ARE the regenerated expressions *)
Theorem c02_reader_expressions_regenerated :
  (forall ty, stream_vendor ty = stream_vendor_rd ty) /\
  (forall e esize bs,
     dec_list_hdr e esize bs =
     obnd (take 4 bs) (fun hr =>
       let n := dec_uint e (fst hr) in
       if zlen bs <? 4 + n * esize then None
       else match list_pad_skip (zlen bs - (4 + n * esize)) with
            | Some k => Some (n, skipn (Z.to_nat k) (snd hr))
            | None => None
            end)).
Proof. exact (conj stream_vendor_regenerated list_padding_regenerated). Qed.
Print Assumptions c02_reader_expressions_regenerated.

(* Minidump::read as the model's read_directory / served_dir follow it: the statements of the function, in order, as found in
   the source on this run (warn! calls aside, nothing else touches the map or returns), and the version test's mask *)
Theorem c02_read_steps_regenerated :
  RD_READ_STEPS = DOC_READ_STEPS /\
  (forall version, 0 <= version -> Z.land version RD_VERSION_MASK = version mod 65536).
Proof. exact read_steps_regenerated. Qed.
Print Assumptions c02_read_steps_regenerated.

(* the STREAM_TYPE constant of every `impl MinidumpStream` in minidump.rs is the stream type under which the model's
   decode_dump / get_stream looks that stream up (ST_* from format.rs) *)
Theorem c02_reader_stream_types : RD_IMPLEMENTED = DOC_READERS.
Proof. exact reader_stream_types. Qed.
Print Assumptions c02_reader_stream_types.

Example c02_nonvacuous_stream_types :
  let d := [(10, (1, 50)); (1197932550, (2, 60)); (4, (3, 70)); (10, (4, 80)); (1299843851, (5, 90)); (32773, (0, 0))] in
  unimplemented_streams d = [(10, (3, (4, 80))); (32773, (5, (0, 0))); (1197932550, (1, (2, 60)))] /\
  has_reader 4 = true /\ is_unimplemented 4 = false /\ has_reader 10 = false /\ is_named 1299843851 = false /\
  list_pad_skip 0 = Some 0 /\ list_pad_skip 4 = Some 4 /\ list_pad_skip 8 = None /\ list_pad_skip 2 = None /\
  stream_vendor_rd 1197932550 = 1.
Proof. vm_compute. repeat split. Qed.

(* ------------------------------------------------------------------ round 5: MozMacosCrashInfoStream *)
(* The stream is a header (stream type, record count, record_start_size, 20 location descriptors) whose first
   record_count locations each point at a record ANYWHERE in the file: fixed u64 fields of the variant the record's version
   selects (regenerated table: >= 5, >= 4, >= 1), fields this reader does not know up to record_start_size, the variant's
   NUL-terminated UTF-8 strings, then whatever a newer writer appends.  If these locations slice to well-formed records of
   one version, the reader returns exactly these records, in header order, with all their integers and strings — in
   either byte order, whatever else the file holds, through any directory whose last entry of the type points at the
   header. *)
Theorem c02_maccrash_any_placement : forall e all v rest stype start alllocs recs l1 size rva l3,
  wt L_MINIDUMP_MAC_CRASH_INFO v = true -> zlen recs <= RD_MAC_RECORDS_MAX ->
  vflat v = stype :: zlen recs :: start :: unpairs alllocs ->
  records_at e all start (firstn (length recs) alllocs) recs ->
  (forall a b, In a recs -> In b recs -> rec_version a = rec_version b) ->
  dec_maccrash e all (enc e L_MINIDUMP_MAC_CRASH_INFO v ++ rest) = Some recs /\
  (slice all rva size = Some (enc e L_MINIDUMP_MAC_CRASH_INFO v ++ rest) ->
   ~ In ST_MozMacosCrashInfoStream (map fst l3) ->
   get_stream dec_maccrash e all (l1 ++ (ST_MozMacosCrashInfoStream, (size, rva)) :: l3) ST_MozMacosCrashInfoStream = SOk recs).
Proof.
  intros e all v rest stype start alllocs recs l1 size rva l3 H1 H0 H2 H3 H4. split.
  - exact (maccrash_any_placement e all v rest stype start alllocs recs H1 H0 H2 H3 H4).
  - exact (maccrash_served e all v rest stype start alllocs recs l1 size rva l3 H1 H0 H2 H3 H4).
Qed.
Print Assumptions c02_maccrash_any_placement.

(* the fixed records the table names are the layouts regenerated from format.rs (sequences of u64 fields) *)
Theorem c02_mac_record_layouts :
  map (fun x => fst (snd x)) RD_MAC_VERSIONS
  = [lsize L_MINIDUMP_MAC_CRASH_INFO_RECORD_5; lsize L_MINIDUMP_MAC_CRASH_INFO_RECORD_4; lsize L_MINIDUMP_MAC_CRASH_INFO_RECORD] /\
  forall e bs,
  dec_u64s e 2 bs = option_map (fun p => vflat (fst p)) (dec e L_MINIDUMP_MAC_CRASH_INFO_RECORD bs) /\
  dec_u64s e 4 bs = option_map (fun p => vflat (fst p)) (dec e L_MINIDUMP_MAC_CRASH_INFO_RECORD_4 bs) /\
  dec_u64s e 5 bs = option_map (fun p => vflat (fst p)) (dec e L_MINIDUMP_MAC_CRASH_INFO_RECORD_5 bs).
Proof. exact (conj mac_table_layouts mac_record_layouts). Qed.
Print Assumptions c02_mac_record_layouts.

Definition ex_rec1 : mcrec := {| cr_ints := [1299841025; 5; 7; 1; 0]; cr_strings := [[47; 120]; [109]; []; [226; 152; 131]; []] |}.
Definition ex_rec2 : mcrec := {| cr_ints := [0; 5; 18446744073709551615; 0; 9]; cr_strings := [[]; []; []; []; [122]] |}.
Definition ex_gap : list Z := [1; 2; 3; 4; 5; 6; 7; 8].
Definition ex_machdr (count : Z) : value :=
  vtuple [VInt 1299841025; VInt count; VInt 48; vtuple (map (fun p => vloc (fst p) (snd p)) ([(61, 258); (54, 204)] ++ repeat (0, 0) 18))].
(* a big-endian file: 32 bytes, the header, then the SECOND record, then the first (with two trailing bytes) *)
Definition ex_macfile (count : Z) : list Z :=
  repeat 7 32 ++ enc BE L_MINIDUMP_MAC_CRASH_INFO (ex_machdr count) ++ rec_bytes BE ex_rec2 ex_gap [] ++ rec_bytes BE ex_rec1 ex_gap [9; 9].
Example c02_nonvacuous_maccrash :
  wt L_MINIDUMP_MAC_CRASH_INFO (ex_machdr 2) = true /\
  records_at BE (ex_macfile 2) 48 [(61, 258); (54, 204)] [ex_rec1; ex_rec2] /\
  get_stream dec_maccrash BE (ex_macfile 2) [(ST_MozMacosCrashInfoStream, (1, 2)); (ST_MozMacosCrashInfoStream, (172, 32))] ST_MozMacosCrashInfoStream
    = SOk [ex_rec1; ex_rec2] /\
  (* a record count beyond the 20 slots reads the 20 (here: 18 empty locations fail) *)
  get_stream dec_maccrash BE (ex_macfile 99) [(ST_MozMacosCrashInfoStream, (172, 32))] ST_MozMacosCrashInfoStream = SErr /\
  (* version 4 in a version-5 stream: refused; version 0: passed over; version 3: the base variant *)
  mac_variant 3 RD_MAC_VERSIONS = Some (1, (16, 0)) /\ mac_variant 0 RD_MAC_VERSIONS = None /\ mac_variant 77 RD_MAC_VERSIONS = Some (5, (40, 5)).
Proof.
  split; [vm_compute; reflexivity|]. split; [|vm_compute; repeat split].
  eapply (ra_cons BE (ex_macfile 2) 48 61 258 ex_rec1 ex_gap [9; 9]); [vm_compute; reflexivity|vm_compute; reflexivity|].
  eapply (ra_cons BE (ex_macfile 2) 48 54 204 ex_rec2 ex_gap []); [vm_compute; reflexivity|vm_compute; reflexivity|].
  apply ra_nil.
Qed.

(* round 5, second pass: the handle data stream AS A WHOLE with its object-information chains.  A stream of 40-byte descriptors
   (16-byte header, any number of well-typed descriptors, any reserved word) whose every object_info_rva starts a chain that is in
   the file (chain_at: wherever the records lie, whichever way the links point; rva 0 = no chain): the reader returns the chain of
   every descriptor, in descriptor order — and get_stream serves it through any directory whose last HandleDataStream entry
   slices to the stream.  (The descriptors themselves — handle, names, counts — are the `hnd` field of c02_dump_roundtrip.) *)
Theorem c02_handle_stream_chains : forall e all reserved ds chains l1 size rva l3,
  Forall (fun v => wt L_MINIDUMP_HANDLE_DESCRIPTOR_2 v = true) ds -> zlen ds < 4294967296 -> 0 <= reserved < 4294967296 ->
  Forall2 (fun v c => chain_at e all (info_rva v) c /\ Z.of_nat (length c) <= zlen all / 12) ds chains ->
  dec_handle_chains e all (handle_stream2 e reserved ds) = Some chains /\
  (slice all rva size = Some (handle_stream2 e reserved ds) -> ~ In ST_HandleDataStream (map fst l3) ->
   get_stream dec_handle_chains e all (l1 ++ (ST_HandleDataStream, (size, rva)) :: l3) ST_HandleDataStream = SOk chains).
Proof.
  intros e all reserved ds chains l1 size rva l3 W N R C. split.
  - exact (handle_stream_chains e all reserved ds chains W N R C).
  - exact (handle_stream_served e all reserved ds chains l1 size rva l3 W N R C).
Qed.
Print Assumptions c02_handle_stream_chains.

(* a big-endian file: 32 bytes, the stream (two descriptors) at 32..128, then the LAST record of the first handle's chain at 128 and
   its first record at 140 (link 140 -> 128 -> 0); the second handle has no chain; a decoy directory entry comes first *)
Definition ex_desc (h rva : Z) : value := vtuple (map VInt [h; 0; 0; 1; 2; 3; 4; rva; 0]).
Definition ex_hds : list value := [ex_desc 5 140; ex_desc 6 0].
Definition ex_hfile : list Z :=
  repeat 7 32 ++ handle_stream2 BE 9 ex_hds ++ enc_info_record BE 0 (2, 8) ++ enc_info_record BE 128 (1, 16).
Example c02_nonvacuous_handle_stream :
  Forall (fun v => wt L_MINIDUMP_HANDLE_DESCRIPTOR_2 v = true) ex_hds /\
  Forall2 (fun v c => chain_at BE ex_hfile (info_rva v) c /\ Z.of_nat (length c) <= zlen ex_hfile / 12) ex_hds [[(1, 16); (2, 8)]; []] /\
  slice ex_hfile 32 96 = Some (handle_stream2 BE 9 ex_hds) /\
  get_stream dec_handle_chains BE ex_hfile [(ST_HandleDataStream, (5, 7)); (ST_HandleDataStream, (96, 32))] ST_HandleDataStream
    = SOk [[(1, 16); (2, 8)]; []].
Proof.
  split; [repeat constructor|]. split; [|split; vm_compute; reflexivity].
  constructor; [split; [|vm_compute; discriminate]|constructor; [split; [apply chain_nil|vm_compute; discriminate]|constructor]].
  eapply chain_cons; [discriminate|vm_compute; reflexivity|reflexivity|].
  eapply chain_cons; [discriminate|vm_compute; reflexivity|reflexivity|]. apply chain_nil.
Qed.

(* ------------------------------------------------------------------ round 5: the key/value syntax of the Linux text streams *)
(* linux_list_iter (cpuinfo / status with ':', lsb-release / environ with '='): `key<sep>value` lines, each ended by LF,
   whose sides carry no LF, no leading / trailing white space and no opening quote, the key without the separator, read
   back as exactly these pairs, in order, any number of lines (the value may contain the separator, and be empty) *)
Theorem c02_kv_roundtrip : forall sep l, sep <> 10 -> forallb (wf_kv_line sep) l = true ->
  kv_pairs sep (kv_text sep l) = l.
Proof. exact kv_roundtrip. Qed.
Print Assumptions c02_kv_roundtrip.

Example c02_nonvacuous_kv :
  let l := [([109; 111; 100; 101; 108; 32; 110; 97; 109; 101], [65; 58; 66]); ([102; 108; 97; 103; 115], []); ([], [120])] in
  forallb (wf_kv_line 58) l = true /\ kv_pairs 58 (kv_text 58 l) = l /\
  (* outside the theorem's hypotheses: trimming, quotes, a line without separator *)
  kv_pairs 61 [32; 65; 32; 61; 32; 34; 98; 32; 34; 9; 10; 110; 111; 115; 101; 112; 10; 61] = [([65], [98; 32]); ([], [])].
Proof. vm_compute. repeat split. Qed.

(* ------------------------------------------------------------------ round 5, second pass: the content of the LinuxMaps stream *)
(* MinidumpLinuxMaps::read = procfs-core's MemoryMaps::from_read (ModelR6.parse_maps: BufRead::lines, smaps extension lines,
   splitn(6, ' '), from_str_radix with sign and overflow, permission letters, MMapPath::from after str::trim, the panic sites).
   Any number of lines as the kernel writes them (show_map_vma: hexadecimal addresses / offset / device with any zero padding that
   holds the value, `rwxp` letters, decimal inode, any number of blanks, then nothing / a special name / [stack:<tid>] / [other] /
   /SYSV<key> with or without " (deleted)" / any path that is UTF-8, one line, not white space at either end and not of a
   bracketed or /SYSV form), each ended by LF, read back as exactly these mappings, in order, in debug and release builds *)
Theorem c02_maps_roundtrip : forall p l, forallb wf_entry l = true -> parse_maps p (maps_text l) = Ret (map snd l).
Proof. exact maps_roundtrip. Qed.
Print Assumptions c02_maps_roundtrip.

(* the tie of that model to the tree: the translator compares the bodies of MinidumpLinuxMaps::read / iter and of
   MinidumpLinuxMapInfo::memory_range / is_readable / is_writable / is_executable with their expected text (an edit aborts it), and
   regenerates the procfs-core version from Cargo.lock: the parser modelled is the one the tree is built with *)
Theorem c02_maps_reader_pinned : RD_PROCFS_CORE_VERSION = MODELLED_PROCFS_CORE.
Proof. reflexivity. Qed.
Print Assumptions c02_maps_reader_pinned.

(* the same through the whole file: the listing is the LinuxMaps stream of a well-formed 20-stream model, serialized in either byte
   order; Minidump::read followed by get_stream::<MinidumpLinuxMaps> *)
Theorem c02_maps_in_dump : forall p e m l, wf_model e m = true -> m_lx_maps m = Some (maps_text l) -> forallb wf_entry l = true ->
  option_map (linux_maps_of p) (decode_dump (encode_dump e m)) = Some (SOk (Ret (map snd l))).
Proof. exact maps_in_dump. Qed.
Print Assumptions c02_maps_in_dump.

(* a four-line listing (a path with a blank and a two-byte character, a thread stack, a deleted SysV segment with a negative key, an
   anonymous mapping that ends at 2^64-1) meets the hypotheses; outside them: a name between no-break spaces is trimmed, a line that
   opens with an upper-case hex digit is taken for an smaps key, `kB` values of 2^54 and more trap in debug builds only, a short
   /SYSV name and a thread-stack name ending in a two-byte character are the two panics of MMapPath::from *)
Example c02_nonvacuous_maps :
  forallb wf_entry ex_maps = true /\ parse_maps Debug (maps_text ex_maps) = Ret (map snd ex_maps) /\ zlen (maps_text ex_maps) = 304 /\
  classify [194; 160; 91; 104; 101; 97; 112; 93; 227; 128; 128] = Ret PHeap /\
  parse_maps Release [65; 48; 45; 66; 48; 32; 114; 45; 45; 112; 32; 48; 32; 48; 58; 48; 32; 48; 32; 10] = Fail /\
  (let t := [49; 45; 50; 32; 114; 45; 45; 112; 32; 48; 32; 48; 58; 48; 32; 48; 32; 10; 80; 115; 115; 58; 32;
             49; 56; 48; 49; 52; 51; 57; 56; 53; 48; 57; 52; 56; 49; 57; 56; 52; 32; 107; 66; 10] in
   parse_maps Debug t = Panic 3 /\ ostatus_is_ret (parse_maps Release t) = true) /\
  classify [47; 83; 89; 83; 86; 49; 50] = Panic 2 /\ classify [91; 115; 116; 97; 99; 107; 58; 53; 195; 169] = Panic 1.
Proof. vm_compute. repeat split; reflexivity. Qed.

(* smaps listings: after every mapping any number of attribute lines the reader accepts (UTF-8, one line, opening with A-Z, and
   `VmFlags...` / `Key: n` / `Key: n kB` with n a u64 whose product with 1024 does not trap) — the mappings read back unchanged *)
Theorem c02_smaps_roundtrip : forall p l,
  forallb (fun x => wf_entry (fst x) && forallb (attr_ok p) (snd x)) l = true ->
  parse_maps p (smaps_text l) = Ret (map (fun x => snd (fst x)) l).
Proof. exact smaps_roundtrip. Qed.
Print Assumptions c02_smaps_roundtrip.

(* ALL inputs (any bytes): the debug and the release build of the reader return the same, except that the debug build may stop at
   the multiplication of an smaps line (tag 3); the reader ends in regions, an error or one of its three panic sites, never
   anything else *)
Theorem c02_maps_profiles : forall b,
  (parse_maps Debug b = parse_maps Release b \/ parse_maps Debug b = Panic 3) /\ tame (parse_maps Debug b) /\ tame (parse_maps Release b).
Proof. intro b. split; [apply maps_profiles|split; apply maps_tame]. Qed.
Print Assumptions c02_maps_profiles.

Example c02_nonvacuous_smaps :
  let rss := [82; 115; 115; 58; 32; 32; 52; 32; 107; 66] in                       (* "Rss:  4 kB" *)
  let vmf := [86; 109; 70; 108; 97; 103; 115; 58; 32; 114; 100; 32; 101; 120] in   (* "VmFlags: rd ex" *)
  let l := match ex_maps with a :: _ :: _ :: d :: _ => [(a, [rss; vmf]); (d, [])] | _ => [] end in
  forallb (fun x => wf_entry (fst x) && forallb (attr_ok Debug) (snd x)) l = true /\
  parse_maps Debug (smaps_text l) = Ret (map (fun x => snd (fst x)) l) /\ zlen (map (fun x => snd (fst x)) l) = 2.
Proof. vm_compute. repeat split; reflexivity. Qed.
